"""G03 - specification growth (drift only): the pure helper layer that no listed property covers.

model -> code : spec/G03Cases.tla enumerates every row of the tables of spec/ADAttrs.tla (userAccountControl, pwdProperties,
                msPKI-Enrollment-Flag, msPKI-Certificate-Name-Flag, template flags, sAMAccountType, domain functional levels,
                well-known RIDs, EKU and LDAP-control object identifiers, a sample of NTSTATUS values with the NTSTATUS layout),
                flag words over the flag tables, and the input space of the helper functions of spec/LDAPHelpers.tla (padding,
                sizes, Kerberos client configuration, LDAP controls in BER, modify requests, credentials, DNS lookups), each
                with the value the specification computes; harness/drivers/g03_adattrs.go binds the rows to the declared
                constants (read from the source) and runs the real code.
Everything is reported with drift=True: this is not one of the 20 listed properties.
"""
import os, json, shutil
from lib import vlib


def run_growth(chk, tier, seed):
    d = vlib.scratch("g03-")
    try:
        vlib.replay_cases(chk, "G03Cases", vlib.cfg("G03_cases_%s.cfg" % tier, SEED=seed % 60000), "g03.adattrs", "growth_adattrs",
                          opts={"repo": vlib.REPO})
        if tier == "thorough":
            # the binding is live: doctored expectations (a wrong sAMAccountType value, a wrong size text, a wrong control OID)
            # must come back as mismatches; their results are not ingested
            one, res = os.path.join(d, "doctored.ndjson"), os.path.join(d, "doctored.res")
            with open(one, "w") as fh:
                for rec in ({"k": "enumrow", "t": "samtype", "name": "USER_OBJECT", "v": [12288, 1], "class": "user"},
                            {"k": "size", "mant": 1, "shift": 20, "text": [ord(ch) for ch in "1.01 MiB"], "unit": "MiB"},
                            {"k": "oidrow", "t": "ldapctl", "std": "LDAP_SERVER_SD_FLAGS_OID", "names": ["LDAP_SERVER_SD_FLAGS_OID"],
                             "text": "1.2.3", "arcs": [1, 2, 3]}):
                    fh.write(json.dumps(rec) + "\n")
            vlib.run_harness("g03.adattrs", one, res, {"repo": vlib.REPO})
            sites = set()
            for ln in open(res):
                o = json.loads(ln)
                if o.get("ok") is False and o.get("drift"):
                    sites.add(o.get("site"))
            want = {"ldap_attributes.SAMAccountType", "utils.SizeInBytes", "ldap.LDAP_OID"}
            chk.part("growth_adattrs_guards", doctored_expectations_flagged=sorted(sites & want))
            if not want <= sites:
                raise vlib.Infra("G03 binding demonstration failed: doctored expectations not flagged for %s" % sorted(want - sites))
    finally:
        shutil.rmtree(d, ignore_errors=True)
