"""C17 - NBNS name table: ownership invariants under all histories and schedules.

model -> code : TLC explores spec/NameTable.tla exhaustively and emits EVERY (state, operation) edge;
                each edge is replayed on a real NetBIOSNameServer (result + whole table after every step,
                previously returned slices re-checked).
code -> model : goroutines drive one real table (race-detector build); the under-lock hook gives the
                linearisation order and the post-state; TLC validates every event against NameTable
                (TraceNameTable.tla) and evaluates the C17 invariants in every state.
"""
import os, json, shutil
from lib import vlib

RULE = ("graph: every transition TLC generates for the complete state graph (names x addrs x types x ttl classes) is one case; "
        "non-trivial = the edge changes the table or is a query; traces: one case per recorded concurrent execution")
TRUSTED = ["TLC", "Go race detector (auxiliary monitor)"]

SITE = "nbtns.NetBIOSNameServer."


def cfg(name):
    return open(os.path.join(vlib.SPEC, "cfg", name)).read()


def run(chk, replay=None):
    tier = chk.tier
    d = vlib.scratch("c17-")
    try:
        # ---- (a) histories: complete state graph -> replay of every edge
        edges = os.path.join(d, "edges.ndjson")
        r = vlib.run_tlc("NameTable", cfg("C17_graph_%s.cfg" % tier), emit_to=edges, timeout=1800)
        chk.add_tlc("graph", r)
        res = os.path.join(d, "graph.res")
        vlib.run_harness("c17.graph", edges, res)
        chk.ingest_results(res, part="graph_replay")
        chk.cov["exhaustive"] = True
        os.remove(edges)

        # ---- (b) schedules: recorded concurrent executions -> trace validation
        ntr, gor, ops = (40, 4, 40) if tier == "quick" else (400, 6, 60)
        trace = os.path.join(d, "trace.ndjson")
        res2 = os.path.join(d, "conc.res")
        out, races = vlib.run_harness("c17.conc", None, res2, {"trace": trace, "traces": ntr, "goroutines": gor,
                                                               "ops": ops, "seed": chk.seed}, race=True)
        for rep in races[:5]:
            chk.fail("nbtns." + vlib.race_site(rep).split("nbtns.")[-1], "data-race", rep[:1500], None)
        summ = chk.ingest_results(res2, part="conc_record")
        ok = vlib.validate_trace(chk, "TraceNameTable", cfg("C17_trace.cfg"), trace, "conc_trace_validation",
                                 lambda e: SITE + e.get("op", "?"))
        chk.sample({"recorded_event": json.loads(open(trace).readlines()[1])})

        # ---- design level: the lock discipline (all interleavings of three goroutines' programs)
        for prog in ("P_race", "P_group"):
            rc = vlib.run_tlc("MC_NameTableConc", vlib.cfg("C17_conc.cfg", PROG=prog), workers=4, timeout=600)
            chk.add_tlc("lock_discipline_" + prog, rc)
        gdev = vlib.run_tlc("MC_NameTableConc", vlib.cfg("C17_conc.cfg", PROG="P_race").replace("UnlockedRegister = FALSE", "UnlockedRegister = TRUE"),
                            allow_violation=True, timeout=600)
        if not gdev.violation:
            raise vlib.Infra("vacuity guard: unlocked check-then-act Register not distinguished")
        chk.part("lock_discipline", unlocked_register_yields_counterexample=gdev.violation)

        # ---- vacuity guards / binding demonstrations (thorough)
        if tier == "thorough":
            guards = {}
            base = cfg("C17_guard.cfg")
            for dev, inv in (("NoOwnerCheck", None), ("Overwrite", None), ("AliasQuery", None)):
                g = vlib.run_tlc("NameTable", base.replace("%s = FALSE" % dev, "%s = TRUE" % dev),
                                 allow_violation=True, timeout=600, workers=4)
                guards["spec_deviation_%s_yields_counterexample" % dev] = g.violation
                if not g.violation:
                    raise vlib.Infra("vacuity guard: deviation %s is not distinguished by any invariant" % dev)
            g = vlib.run_tlc("NameTable", base, timeout=600, workers=4)   # intended design satisfies them
            chk.add_tlc("guard_intended_design", g)
            # corrupted trace must be rejected
            lines = open(trace).readlines()
            k = len(lines) // 2
            while '"op":"register"' not in lines[k] or '"err":false' not in lines[k]:
                k += 1
            bad = os.path.join(d, "bad.ndjson")
            with open(bad, "w") as fh:
                fh.writelines(lines[:k] + [lines[k].replace('"err":false', '"err":true', 1)] + lines[k + 1:])
            rb = vlib.run_tlc("TraceNameTable", cfg("C17_trace.cfg"), extra_files={"trace.ndjson": bad}, allow_violation=True)
            guards["corrupted_trace_rejected"] = (not rb.ok)
            if rb.ok:
                raise vlib.Infra("binding demonstration failed: a corrupted trace was accepted")
            # disabled hook must be rejected
            t3, r3 = os.path.join(d, "nohook.ndjson"), os.path.join(d, "nohook.res")
            vlib.run_harness("c17.conc", None, r3, {"trace": t3, "traces": 5, "goroutines": 2, "ops": 40,
                                                    "seed": chk.seed, "nohook": "release"}, race=True)
            rb = vlib.run_tlc("TraceNameTable", cfg("C17_trace.cfg"), extra_files={"trace.ndjson": t3}, allow_violation=True)
            guards["trace_with_release_hook_disabled_rejected"] = (not rb.ok)
            if rb.ok:
                raise vlib.Infra("binding demonstration failed: trace with a disabled hook was accepted")
            chk.part("vacuity_guards", **guards)
        # ---- specification growth (drift only): the redirect map of the same package (spec/Redirect.tla)
        vlib.replay_cases(chk, "Redirect", vlib.cfg("G05_redirect.cfg", OPCODES=vlib.intset(range(16))), "g05.redirect", "growth_redirect")
        chk.assumptions += ["expiry is two classes (ttl = +1h / -1h), no clock hook",
                            "growth (drift only): Redirect.tla, the complete (state, call) graph of nbtns.RedirectManager over 2 scopes x 2 mappings x 16 opcodes",
                            "real schedules are sampled; the race detector generalises only over accesses that occurred",
                            "alphabet: 2 names x 2 (quick) / 3 (thorough) addresses for the exhaustive graph; 3 names x 4 addresses for traces"]
    finally:
        shutil.rmtree(d, ignore_errors=True)

MANIFEST = {
    "technique": "TLC exhaustive state graph of NameTable.tla, every edge replayed on the real table; TLC trace validation of recorded concurrent executions (lock order) against the same spec",
    "level_text": "Model checking of an explicit TLA+ specification bound to the code in both directions: every (state, operation) edge of the complete graph over a small alphabet is executed on the real NetBIOSNameServer with result and whole-table comparison (which by induction covers every history over that alphabet), plus query-then-operations histories for aliasing; real multi-goroutine executions are validated event by event, with the C17 invariants evaluated in every state, under the race detector.",
    "level_note": "Assumes expiry behaves as two classes (+1h/-1h); schedules are sampled (race detector + linearisation-order validation), not enumerated; alphabet 2 names x 2/3 addresses for the exhaustive part.",
}
