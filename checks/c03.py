"""C03 - SMB1 message envelope: header, framing and type dispatch exact and repeatable.

model -> code : spec/C03Cases.tla - header values with the 32 bytes MS-CIFS 2.2.3.1 prescribes (SMBHeader.tla), the
                COMPLETE 256 codes x reply-flag dispatch table written from the MS-CIFS command list (SMBDispatch.tla),
                and a word-count x byte-count framing matrix (SMBBlocks.tla) - replayed through header.Marshal/Unmarshal/
                GetPID/SetPID, Create*Command and message.Unmarshal.
                spec/MarshalHistory.tla - the tree of all call histories of length <= 4 over {Marshal, SetField v1,
                SetField v2, Unmarshal(own bytes)}; every transition is run on a real message for five representative
                structures, the histories M;M and M;S1;M on every structure the library constructs.
code -> model : random programs on real messages (random header values, structure, call order) recorded call by call;
                TLC (spec/TraceSMBMessage.tla) judges layout, framing, repeatability, round trip and dispatch of every event.
"""
import os, json, shutil
from lib import vlib

RULE = ("cases: each header value / (command code, reply flag) pair / (word count, byte count) pair is one case; "
        "histories: each (structure, call history) pair is one case, non-trivial by construction; "
        "traces: one case per recorded program")
TRUSTED = ["TLC", "encoding/json (case transport)", "reflect (field access in the harness)"]


def site_of(v):
    t, op = v.get("type") or "?", v["op"]
    def one(a):
        if a in ("header-layout",):
            return "header.Header.Marshal"
        if a == "reply-flag":
            return "header.Header.IsResponse"
        if a.startswith("dispatch") or a == "roundtrip-type":
            return "commands.CreateResponseCommand" if t.endswith(("Response", "Final", "Interim")) else "commands.CreateRequestCommand"
        if a == "header-roundtrip":
            return "message.Message.Unmarshal"
        return "commands.%s.%s" % (t, "Unmarshal" if op == "unmarshal" else "Marshal")
    return one


def run(chk, replay=None):
    tier, seed = chk.tier, chk.seed % 60000
    d = vlib.scratch("c03-")
    try:
        # ---- envelope case table (dispatch part is exhaustive: 256 codes x 2)
        summ = vlib.replay_cases(chk, "C03Cases", vlib.cfg("C03_cases_%s.cfg" % tier, SEED=seed), "c03.cases", "cases_replay")
        if (summ.get("cases_per_kind") or {}).get("disp") != 512:
            raise vlib.Infra("dispatch table not complete: %s" % summ.get("cases_per_kind"))
        chk.cov["exhaustive"] = True
        # ---- MarshalHistory: every transition of the history tree
        summ = vlib.replay_cases(chk, "MarshalHistory", vlib.cfg("C03_hist.cfg", MAXLEN=4 if tier == "quick" else 5, ALLLEN=3 if tier == "quick" else 4),
                                 "c03.hist", "history_replay")
        if not summ.get("marshal_results_judged"):
            # none of the 115 freshly constructed messages could be encoded even once: that is the library's behaviour, not an
            # infrastructure problem
            chk.fail("message.Message.Marshal", "no-fresh-message-encodes", "Marshal failed for every freshly constructed message of every structure "
                     "(the history replay had no reference encoding to compare with)", None)
            raise vlib.Infra("no Marshal result was judged in the history replay")
        # ---- recorded programs -> TLC
        trace, res = os.path.join(d, "trace.ndjson"), os.path.join(d, "rec.res")
        vlib.run_harness("c03.record", None, res, {"trace": trace, "traces": 200 if tier == "quick" else 4000, "seed": chk.seed})
        chk.ingest_results(res, part="record")
        r = vlib.run_tlc("TraceSMBMessage", vlib.cfg("C03_trace.cfg"), extra_files={"trace.ndjson": trace}, allow_violation=True, timeout=900)
        chk.add_tlc("trace_validation", r)
        evs = open(trace).readlines()
        if not r.ok:
            raise vlib.Infra("TraceSMBMessage did not consume the recorded trace (stopped near event %s of %d):\n%s"
                             % (vlib.tlc_depth(r.output), len(evs), r.output[-3000:]))
        for v in r.emitted:
            e = json.loads(evs[v["i"] - 1])
            k = v["i"] - 1
            while k > 0 and json.loads(evs[k]).get("op") != "new":
                k -= 1
            prog = [json.loads(x).get("op") for x in evs[k:v["i"]]]
            for a in v["p"]:
                asp = a if a != "roundtrip-type" else "roundtrip-type:" + (v.get("type") or "?")
                if a == "dispatch:wrong-type":
                    asp = "dispatch:0x%02x:wrong-type" % json.loads(evs[k + 1])["h"]["command"]
                chk.fail(site_of(v)(a), asp, "recorded event #%d (%s) is not a step of the specification: %s; program so far %s"
                         % (v["i"], v["op"], a, prog), {"structure": v.get("type"), "program": prog,
                                                         "event": {kk: vv for kk, vv in e.items() if kk not in ("ref", "out")}})
        chk.part("trace_validation", trace_events=len(evs), nonconforming_events=len(r.emitted))
        chk.sample({"recorded_event": json.loads(evs[2])})
        # ---- vacuity guards (thorough)
        if tier == "thorough":
            g = vlib.run_tlc("MarshalHistory", vlib.cfg("C03_guard.cfg"), allow_violation=True, timeout=300)
            if g.violation != "Repeatable":
                raise vlib.Infra("vacuity guard: AccumulateOnMarshal deviation not refuted by Repeatable")
            lines = list(evs)
            k = next(i for i, ln in enumerate(lines) if '"op":"set"' in ln and '"referr":false' in ln)
            o = json.loads(lines[k]); o["ref"][30] ^= 1          # MID byte of the reference encoding
            lines[k] = json.dumps(o) + "\n"
            bad = os.path.join(d, "bad.ndjson")
            open(bad, "w").writelines(lines)
            rb = vlib.run_tlc("TraceSMBMessage", vlib.cfg("C03_trace.cfg"), extra_files={"trace.ndjson": bad}, allow_violation=True)
            if not any(v["i"] == k + 1 and "header-layout" in v["p"] for v in rb.emitted):
                raise vlib.Infra("binding demonstration failed: corrupted header byte not judged")
            chk.part("vacuity_guards", AccumulateOnMarshal_refuted=True, corrupted_event_rejected=True)
        # ---- specification growth (drift only): the SMB1 client as a protocol machine over a scripted transport
        vlib.replay_cases(chk, "SMBClient", vlib.cfg("G01_smbclient.cfg"), "g01.smbclient", "growth_smbclient")
        chk.assumptions += [
            "command bodies are opaque (their field layouts belong to C04/C05): Encode(fields) is the first Marshal of a FRESH "
            "message holding the same field values; the specification fixes the header bytes, the framing and the dispatch",
            "structures whose freshly constructed value cannot be marshalled even after giving its strings a valid buffer format "
            "are skipped (reported as drift)",
            "SetField = header MID/UID and the first integer field of the command structure (via reflect)",
            "AndX chains of more than one command are not encoded by the library and are not covered",
            "dispatch rows for which MS-CIFS defines no message but the library returns a structure are drift, not violations"]
        # ---- the same entry points called by 8 goroutines at once (race-detector build): results as when called alone
        vlib.parallel_callers(chk, "smb")
    finally:
        shutil.rmtree(d, ignore_errors=True)


MANIFEST = {
    "technique": "TLA+ specification of the SMB1 envelope (header layout, block framing, complete dispatch table from the MS-CIFS "
                 "command list, MarshalHistory state machine) checked by TLC; enumerated cases and the complete history tree replayed "
                 "into message/header/commands; TLC validation of recorded call sequences",
    "level_text": "TLC enumerates header values, all 256 x 2 (code, reply) pairs and a framing matrix with the bytes / structure names "
                  "the specification prescribes, and the tree of all call histories up to length 4 (5 in thorough) of MarshalHistory "
                  "(invariant Repeatable; the AccumulateOnMarshal deviation is refuted by TLC as a vacuity guard); every case and every "
                  "history transition is executed on the real code. Random recorded programs are judged event by event by TLC.",
    "level_note": "Dispatch is exhaustive; header values, block sizes and histories are enumerated boundary/structured sets; command "
                  "bodies are treated as opaque functions of the fields (reference = fresh object), so body layout errors are out of scope here.",
}
