"""C04 - every SMB1 command structure round-trips all of its fields through the wire.

schema        : harness extractor (c04.schema) reads the DECLARATIONS of the 114 structures the factories return.
model -> code : TLC evaluates spec/SMBCases.tla (Mode "decl") over schemas.json: per structure the value patterns
                distinct / zero / max / one-field-changed / variable-length, with count, length and offset fields kept
                consistent by the specification (spec/SMBCommands.tla FieldTable).  Every case is stored into the real
                structure by reflection, Marshal -> Unmarshal -> read back (roundtrip:<Field>), re-encoded (reencode,
                reencode:fresh-buffers), compared with the one-field-changed neighbour (slot:<Field>) and with the
                sum of the declared widths (length).
code -> model : c04.record drives every structure with random full-range integers; TLC (spec/TraceSMB.tla) judges
                every recorded execution against the same specification.
The engine is shared with C05 (checks/c05.py imports this module).
"""
import os, json, shutil
from lib import vlib

RULE = ("one case per (structure, value pattern): distinct | zero | max | chg:<fixed field> | len:<variable field>=L, "
        "distinct by that tuple; trace: one case per recorded (structure, round) with random integer values")
TRUSTED = ["TLC", "go/ast + reflect (schema extraction: field order, declared type names, block markers)",
           "harness reflection setter/getter (stores and reads numerals at the paths named by the specification)"]

MODE = {"C04": "decl", "C05": "cifs"}


def extract_schema(chk, d):
    schemas, res = os.path.join(d, "schemas.json"), os.path.join(d, "schema.res")
    vlib.run_harness("c04.schema", None, res, {"out": schemas, "repo": vlib.REPO})
    summ = chk.ingest_results(res, part="schema")
    if int(summ.get("structures", 0)) < 1:
        raise vlib.Infra("schema extractor found no structures")
    return schemas


def tier_cfg(pid, tier):
    c = vlib.cfg("%s_cases_quick.cfg" % pid)
    if tier == "thorough":
        c = c.replace("Lens = {0, 1, 2, 255, 256, 258}", "Lens = {0, 1, 2, 3, 127, 128, 255, 256, 258, 1000, 4660, 40000}") \
             .replace("PadLens = {0, 1, 3}", "PadLens = {0, 1, 2, 3}") \
             .replace("ArrLens = {0, 1, 2, 3, 127, 128}", "ArrLens = {0, 1, 2, 3, 7, 64, 127, 128, 129}") \
             .replace("DialectCounts = {0, 1, 2, 3, 4, 13}", "DialectCounts = {0, 1, 2, 3, 4, 5, 6, 7, 8, 9, 10, 11, 12, 13}")
        if "Lens = {0, 1, 2, 3, 127" not in c:
            raise vlib.Infra("thorough constants could not be substituted into the cfg")
    return c


def judge_trace(chk, pid, d, schemas, cases, rounds, part="trace"):
    """code -> model: record random executions, let TLC judge every event.
    Structures whose decoder already fails on the model's own cases in this run (unmarshal-error@ from the replay) decode random values into errors or garbage depending on the values: their round-trip verdicts are reported
    under ONE identity per structure (trace:decoder), so that the set of identities does not depend on the seed."""
    broken = {f["site"] for f in chk.failures if f["aspect"].startswith("unmarshal-error@")}
    # where the replay of this run already reports a field's slot as byteorder/layout, a recorded execution reports the same
    # field under the same identity (random values can make a displaced slot look byte-reversed, or a reversed one look displaced)
    replay_kinds = {}
    for f in chk.failures:
        kind, _, fld = f["aspect"].partition(":")
        if kind in ("byteorder", "layout") and fld:
            replay_kinds.setdefault((f["site"], fld), set()).add(kind)
    trace, res = os.path.join(d, "trace.ndjson"), os.path.join(d, "rec.res")
    vlib.run_harness("c04.record", cases, res, {"trace": trace, "rounds": rounds, "seed": chk.seed})
    chk.ingest_results(res, part=part + "_record")
    verdicts = os.path.join(d, "verdicts.ndjson")
    r = vlib.run_tlc("TraceSMB", vlib.cfg("%s_trace.cfg" % pid), emit_to=verdicts, allow_violation=True, timeout=1500,
                     extra_files={"trace.ndjson": trace, "schemas.json": schemas})
    chk.add_tlc(part + "_validation", r)
    events = [json.loads(x) for x in open(trace)]
    if not r.ok:
        raise vlib.Infra("TraceSMB did not consume the recorded trace (%s):\n%s" % (r.violation, r.output[-3000:]))
    n, dev = 0, 0
    for ln in open(verdicts):
        v = json.loads(ln)
        n += 1
        ev = events[v["l"] - 1]
        if v["bad"]:
            dev += 1
        site = "commands." + v["s"]
        bad = [(field, kind) for field, kind in v["bad"]]
        if MODE[pid] == "decl" and site in broken and any(k in ("roundtrip", "unmarshal-error@trace") for _, k in bad):
            bad = [(f, k) for f, k in bad if k not in ("roundtrip", "unmarshal-error@trace")] + [("", "trace:decoder")]
        for field, kind in bad:
            ks = replay_kinds.get((site, field))
            if kind in ("byteorder", "layout") and ks and kind not in ks:
                kind = sorted(ks)[0]
            aspect = kind + (":" + field if field else "")
            chk.fail(site, aspect, "recorded execution #%d deviates from the specification (%s)" % (v["l"], aspect),
                     {"structure": v["s"], "values": {k: bytes(x).hex() for k, x in ev["vals"].items()},
                      "library_wire_hex": bytes(ev["wire"]).hex()[:240]})
    if n != len(events):
        raise vlib.Infra("TraceSMB judged %d of %d recorded events" % (n, len(events)))
    chk.part(part + "_validation", trace_events=len(events), events_with_deviation=dev, accepted=True)
    return trace, events


def java_tmp(d):
    """TLC's JVM creates an (empty) tlc-<n> directory in java.io.tmpdir on every start and never removes it: point it into
    the scratch directory of this run, which is removed at the end.  Returns the previous setting for restore_java_tmp."""
    old = os.environ.get("_JAVA_OPTIONS")
    os.environ["_JAVA_OPTIONS"] = ((old + " ") if old else "") + "-Djava.io.tmpdir=" + d
    return old


def restore_java_tmp(old):
    if old is None:
        os.environ.pop("_JAVA_OPTIONS", None)
    else:
        os.environ["_JAVA_OPTIONS"] = old


def run_engine(chk, pid):
    tier = chk.tier
    d = vlib.scratch(pid.lower() + "-")
    chk._java_old = java_tmp(d)
    try:
        schemas = extract_schema(chk, d)
        cases, res = os.path.join(d, "cases.ndjson"), os.path.join(d, "replay.res")
        r = vlib.run_tlc("SMBCases", tier_cfg(pid, tier), emit_to=cases, timeout=1800, extra_files={"schemas.json": schemas})
        chk.add_tlc("cases", r)
        if os.path.getsize(cases) == 0:
            raise vlib.Infra("TLC emitted no cases")
        vlib.run_harness("%s.replay" % pid.lower(), cases, res)
        summ = chk.ingest_results(res, part="replay")
        if summ.get("structures_uncovered"):
            raise vlib.Infra("structures without a complete field table (extend spec/SMBCommands.tla FieldTable): %s"
                             % summ["structures_uncovered"])
        trace, events = judge_trace(chk, pid, d, schemas, cases, 2 if tier == "quick" else 50)
        return d, schemas, cases, trace, events
    except Exception:
        restore_java_tmp(chk._java_old)
        shutil.rmtree(d, ignore_errors=True)
        raise


def live_binding_guard(chk, pid, d, schemas, trace, events):
    """thorough: a recorded execution corrupted in one byte / one decoded value must be judged deviant by TLC."""
    k = max(i for i, e in enumerate(events) if e["vals"] and not e["err"] and not e["decerr"] and e["s"] == "CloseResponse" or
            (e["vals"] and not e["err"] and not e["decerr"]))
    ev = json.loads(json.dumps(events[k]))
    key = sorted(ev["vals"])[0]
    if MODE[pid] == "cifs":
        ev["wire"][1] ^= 0x40
    else:
        ev["dec"][key][0] ^= 0x40
    bad, out = os.path.join(d, "bad.ndjson"), os.path.join(d, "bad.verdicts")
    with open(bad, "w") as fh:
        fh.write(json.dumps(events[k]) + "\n" + json.dumps(ev) + "\n")
    r = vlib.run_tlc("TraceSMB", vlib.cfg("%s_trace.cfg" % pid), emit_to=out, allow_violation=True,
                     extra_files={"trace.ndjson": bad, "schemas.json": schemas})
    vs = [json.loads(x) for x in open(out)]
    if not r.ok or len(vs) != 2 or set(map(tuple, vs[1]["bad"])) == set(map(tuple, vs[0]["bad"])):
        raise vlib.Infra("binding demonstration failed: a corrupted recorded execution was judged like the original")
    chk.part("vacuity_guards", corrupted_event_judged_deviant=True, structure=ev["s"])


def run(chk, replay=None):
    d, schemas, cases, trace, events = run_engine(chk, "C04")
    try:
        if chk.tier == "thorough":
            live_binding_guard(chk, "C04", d, schemas, trace, events)
        chk.assumptions += [
            "the schema (field order, declared type names, Parameters/Data markers) is taken from the declarations in /repo; widths, byte order, count/length/offset relations are the specification's (MS-CIFS)",
            "values: structured patterns plus random integers; integer ranges are not exhausted",
            "strings without a format byte in MS-CIFS are stored with BufferFormat 0x04; only their content is a P assertion",
            "transaction payloads (Trans*_Parameters/Data, Setup words) are opaque byte buffers; SMB_DIRECTORY_INFORMATION arrays only with 0 records",
            "OEM (non-Unicode) strings: alignment pads of the AndX commands are empty or one zero byte",
        ]
    finally:
        restore_java_tmp(chk._java_old)
        shutil.rmtree(d, ignore_errors=True)


MANIFEST = {
    "technique": "generic TLA+ wire model of the SMB1 command block (SMBAtoms/SMBCommands) over a schema extracted from the declarations; TLC-enumerated value patterns per structure replayed by reflection into Marshal/Unmarshal; TLC judgement of recorded random executions (TraceSMB)",
    "level_text": "The specification defines slots (declared order, width of the declared type, AndX block first), the consistency relation between count/length/offset fields and the buffers they describe, and the value patterns; TLC enumerates, for each of the 114 structures reachable from the factories, the distinct/zero/max patterns, one changed-field case per fixed-width field and a family of lengths per variable field, and every case is executed on the real structure (encode, decode into a fresh structure, field-by-field comparison, re-encode, slot locality, total width). Random full-range integer assignments recorded from the real code are judged event by event by TLC against the same specification.",
    "level_note": "Field values are covered by structured patterns and random samples, not exhaustively; schemas follow the current declarations (C05 pins the encoding against MS-CIFS); SMB_DIRECTORY_INFORMATION arrays are modelled only when empty; Unicode string variants are not modelled.",
}
