"""C19 - flag words decompose faithfully; every named constant has a unique, non-placeholder name.

source -> model : the harness enumerates the DECLARED flag constants from the source (go/parser + go/types) -> c19_decl.json,
                  which spec/C19Words.tla reads (the named bits of each flag-word type).
model -> code   : TLC enumerates the flag words (all 8/16-bit words; empty/singles/pairs/complements/all-ones/random for 32 bits)
                  and computes the decomposition (FlagWords.tla); the driver runs String()/GetFlags()/FromBytes 20 times per word
                  and every predicate, and compares.
code -> model   : every constant declared in the source tables is looked up in the compiled package; TLC (TraceConstTables.tla)
                  walks the recorded events through the ConstTables state machine and judges every observation.
"""
import os, json, shutil
from lib import vlib

RULE = ("words: one case per (flag-word type, word) TLC enumerates, non-trivial when the word is not 0, distinct by (type, word); "
        "tables: one case per (table, declared constant), all distinct")
TRUSTED = ["TLC", "go/parser + go/types (enumeration of declared constants from the source)", "reflect (enumeration of predicates)"]

ASPECT = {"NotPlaceholder": "placeholder-name", "NameInjective": "name-shared-with-other-value", "ErrorNonNil": "nil-error",
          "ErrorMentionsCode": "error-omits-code", "ObservedIsDeclared": "observed-not-declared", "Covered": "not-all-observed",
          "OwnName": "name-not-own-identifier", "SuccessIsNil": "success-has-error"}


def judge_tables(chk, d, trace, part):
    """TLC walks the recorded table events; every verdict record it prints becomes a failure. Returns the verdict list."""
    sites = {}
    for ln in open(trace):
        e = json.loads(ln)
        if e.get("op") == "begin":
            sites[e["t"]] = e["site"]
    r = vlib.run_tlc("TraceConstTables", vlib.cfg("C19_tables.cfg"), extra_files={"trace.ndjson": trace}, timeout=900)
    verdicts = [e for e in r.emitted if isinstance(e, dict) and e.get("op") == "verdict"]
    if part:
        chk.add_tlc(part, r)
        chk.part(part, trace_events=sum(1 for _ in open(trace)), accepted=True, verdicts=len(verdicts))
        for v in verdicts:
            meth = "Error" if v["inv"] in ("ErrorNonNil", "ErrorMentionsCode", "SuccessIsNil") else "String"
            site = "%s.%s" % (sites.get(v["t"], v["t"]), meth)
            aspect = ASPECT.get(v["inv"], v["inv"]) + (":" + v["c"] if v["c"] else "")
            val = "".join("%x" % n for n in v.get("v") or [])
            oth = "".join("%x" % n for n in v.get("other") or [])
            detail = "table %s constant %s (0x%s) name %r: %s does not hold%s" % (
                v["t"], v["c"], val, v.get("name"), v["inv"], (" (name first seen for 0x%s)" % oth) if oth else "")
            chk.fail(site, aspect, detail, {"table": v["t"], "const": v["c"], "value": "0x" + val, "name": v.get("name")},
                     drift=not v["p"])
    return verdicts


def run(chk, replay=None):
    tier, seed = chk.tier, chk.seed % 60000
    d = vlib.scratch("c19-")
    # TLC (and Apalache) unpack their standard modules into java.io.tmpdir and leave them there: point it at the scratch directory
    jopt = os.environ.get("_JAVA_OPTIONS")
    os.environ["_JAVA_OPTIONS"] = ((jopt + " ") if jopt else "") + "-Djava.io.tmpdir=" + d
    try:
        # ---- declared flag constants (source -> model)
        decl, res = os.path.join(d, "c19_decl.json"), os.path.join(d, "decl.res")
        vlib.run_harness("c19.decl", None, res, {"repo": vlib.REPO, "out": decl})
        chk.ingest_results(res, part="declared_flags")
        # ---- flag words (model -> code)
        summ = vlib.replay_cases(chk, "C19Words", vlib.cfg("C19_words_%s.cfg" % tier, SEED=seed), "c19.words", "words",
                                 tlc_kw={"extra_files": {"c19_decl.json": decl}})
        chk.cov["exhaustive"] = True
        # ---- constant tables (code -> model)
        trace, res = os.path.join(d, "tables.ndjson"), os.path.join(d, "tables.res")
        vlib.run_harness("c19.tables", None, res, {"repo": vlib.REPO, "trace": trace})
        chk.ingest_results(res, part="tables_record")
        judge_tables(chk, d, trace, "tables_trace_validation")
        # ---- the binding is live (thorough): a doctored expectation / a doctored observation must be noticed
        if tier == "thorough":
            guards = {}
            lines = open(trace).read().splitlines()
            evs = [json.loads(x) for x in lines]
            k = next(i for i, e in enumerate(evs) if e["op"] == "obs" and e["t"] == "nt_status" and e["c"] == "NT_STATUS_ACCESS_DENIED")
            for label, mut, inv in (("placeholder", lambda e: e.update(name=e["fb"]), "NotPlaceholder"),
                                    ("shared_name", lambda e: e.update(name=evs[k - 1]["name"]), "NameInjective"),
                                    ("nil_error", lambda e: e.update(errnil=True, err=[]), "ErrorNonNil"),
                                    ("error_without_code", lambda e: e.update(err=[ord(ch) for ch in "access is denied"]), "ErrorMentionsCode")):
                e = json.loads(lines[k]); mut(e)
                bad = os.path.join(d, "bad.ndjson")
                open(bad, "w").write("\n".join(lines[:k] + [json.dumps(e)] + lines[k + 1:]) + "\n")
                vs = judge_tables(chk, d, bad, None)
                guards["doctored_%s_observation_flagged" % label] = any(v["inv"] == inv and v["c"] == "NT_STATUS_ACCESS_DENIED" for v in vs)
                if not guards["doctored_%s_observation_flagged" % label]:
                    raise vlib.Infra("binding demonstration failed: doctored %s observation was not flagged by TraceConstTables" % label)
            # a word case whose expected names were altered must fail in the driver
            one, r1 = os.path.join(d, "one.ndjson"), os.path.join(d, "one.res")
            open(one, "w").write(json.dumps({"k": "hdr", "kind": "flags2", "preds": ["IsDfs"], "unbound": []}) + "\n" +
                                 json.dumps({"k": "word", "kind": "flags2", "w": 4096, "bits": [], "names": ["COMPRESSED"], "gf": [3], "p": [False]}) + "\n")
            vlib.run_harness("c19.words", one, r1)
            nf = sum(1 for ln in open(r1) if '"ok":false' in ln and '"drift":true' not in ln)
            guards["doctored_word_expectation_fails"] = nf >= 3
            if nf < 3:
                raise vlib.Infra("binding demonstration failed: doctored flag-word expectation was accepted")
            chk.part("vacuity_guards", **guards)
        chk.assumptions += ["the named bits of a flag-word type are the single-bit constants its source file declares (for userAccountControl: the keys of "
                            "UserAccountControlMap); a flag's name is its identifier without the type's prefix, compared modulo case and punctuation",
                            "32-bit words are covered by the empty word, singles, pairs, complements, all-ones and seeded random words, not exhaustively",
                            "agreement of the declared bit positions with MS-CIFS/MS-SMB/MS-ADTS is reported as drift (wire values belong to C05), not as a violation",
                            "non-success NT status = any declared value other than 0x00000000"]
        # ---- specification growth (drift only)
        from checks import g03
        g03.run_growth(chk, tier, chk.seed)
        chk.assumptions.append("growth (drift only): ADAttrs.tla / LDAPHelpers.tla -- AD attribute tables, NTSTATUS layout, pure LDAP/Kerberos/DNS helpers (DESIGN 13.7 G03)")
        from checks import g08
        g08.run_growth(chk, tier, chk.seed)
        chk.assumptions.append("growth (drift only): SchemaTables.tla -- the AD schema tables of network/ldap/schema as relations (DESIGN 13.7 G08)")
        # ---- the same entry points called by 8 goroutines at once (race-detector build): results as when called alone
        vlib.parallel_callers(chk, "flags")
    finally:
        if jopt is None:
            os.environ.pop("_JAVA_OPTIONS", None)
        else:
            os.environ["_JAVA_OPTIONS"] = jopt
        shutil.rmtree(d, ignore_errors=True)


MANIFEST = {
    "technique": "TLA+ flag-word model (words as sets of bit indices) evaluated by TLC over the declared tables and replayed into String()/GetFlags()/predicates; TLC trace validation of every declared constant's name/error against the ConstTables state machine",
    "level_text": "TLC enumerates every 8- and 16-bit flag word and a structured set of 32-bit words (every bit, every pair, complements, random) and computes the decomposition from the table of declared constants; each word is decomposed 20 times by the real code and every predicate (found by reflection) is compared with its own bit. Every constant declared in the source tables (about 1800 NT status values, 75 command codes, three sub-command families and eight further tables) is looked up in the compiled package and the recorded events are judged by TLC: injective names, non-placeholder, non-nil error mentioning the code.",
    "level_note": "32-bit flag words are sampled structurally, not exhaustively; the link between a printed name and a declared bit is the identifier (modulo case/punctuation); deviations of declared bit positions from the standards are drift.",
}
