"""C08 - NTLMSSP and SPNEGO tokens are structurally exact in both directions.

model -> code : TLC enumerates spec/C08Cases.tla: well-formed CHALLENGE messages (flag sets x target names x AV-pair
                lists x payload placements) and AV-pair lists with the parse a receiver must obtain, SPNEGO tokens of
                the lengths that straddle every DER length-form boundary, and the INPUTS for the message builders.
                harness c08.replay runs them on ParseChallengeMessage / ParseTargetInfo / CreateNegTokenInit /
                CreateNegTokenResp / ExtractNTLMToken / ParseNegTokenResp / AuthContext and compares.
code -> model : every NEGOTIATE / AUTHENTICATE / SPNEGO token the library BUILDS (from the model's inputs and from
                seeded random inputs, c08.record) is recorded and TLC judges the recorded octets with the validators of
                spec/NTLMSSP.tla and spec/SPNEGO.tla (spec/TraceNTLMSSP.tla) - the library chooses flags, version and
                random parts, so the specification validates rather than predicts.
"""
import json, os, shutil
from lib import vlib

RULE = ("chal/ti: one case per TLC-generated message (flag set, target name, AV list, placement), distinct by flags+placement+field "
        "lengths; tok: one case per token length; neg/auth/e2e: one case per input tuple the builders were given, distinct by "
        "(challenge flags, class and length of each name); recorded: one case per random call")
TRUSTED = ["TLC", "encoding/asn1 (the library's DER codec; the spec has its own DER module for the frame and the extractor)",
           "crypto/* used by the library for the opaque response fields"]

SITE = {"negotiate": "ntlm.CreateNegotiateMessage", "authenticate": "ntlm.CreateAuthenticateMessage",
        "wrapinit": "spnego.CreateNegTokenInit", "wrapresp": "spnego.CreateNegTokenResp"}
E2E_SITE = {"negotiate-token": "spnego.AuthContext.CreateNegotiateToken", "negotiate": "spnego.AuthContext.CreateNegotiateToken",
            "authenticate-token": "spnego.AuthContext.ProcessChallengeToken", "authenticate": "spnego.AuthContext.ProcessChallengeToken"}


def toklens(tier):
    if tier == "quick":
        xs = list(range(0, 4)) + list(range(88, 101)) + list(range(104, 112)) + list(range(122, 131)) \
            + list(range(215, 236)) + list(range(248, 259)) \
            + list(range(65494, 65504)) + list(range(65509, 65515)) + list(range(65529, 65538)) + [70000]
    else:
        xs = list(range(0, 4)) + list(range(80, 141)) + list(range(215, 263)) + list(range(65490, 65561)) + [70000]
    return sorted(set(xs))


def short(v, n=48):
    """trim long arrays in a trace event for the failure sample"""
    if isinstance(v, list) and len(v) > n:
        return {"len": len(v), "head": v[:n]}
    return v


def judge_trace(chk, d, trace, part):
    """TLC evaluates the validators on every recorded event; verdict lines become failures."""
    r = vlib.run_tlc("TraceNTLMSSP", vlib.cfg("C08_trace.cfg"), extra_files={"trace.ndjson": trace}, timeout=1500, allow_violation=True)
    chk.add_tlc(part, r)
    n = sum(1 for _ in open(trace))
    if not r.ok:
        raise vlib.Infra("TraceNTLMSSP did not walk the whole trace (%s):\n%s" % (r.violation, r.output[-3000:]))
    flagged = {int(v["i"]): v for v in r.emitted if isinstance(v, dict) and "i" in v}
    events = {}
    if flagged:
        for i, ln in enumerate(open(trace), 1):
            if i in flagged:
                events[i] = json.loads(ln)
    drift_seen = {}
    nviol = 0
    for i in sorted(flagged):
        e, v = events[i], flagged[i]
        sample = {k: short(x) for k, x in e.items()}
        # model detail is only reported for messages that are structurally valid (a P violation explains the rest)
        for aspects, is_drift in ((v.get("p") or [], False), ([] if v.get("p") else (v.get("d") or []), True)):
            for a in sorted(aspects):
                if e["op"] == "e2e":
                    head, _, rest = a.partition(":")
                    site, aspect = E2E_SITE.get(head, "spnego.AuthContext"), a
                else:
                    site, aspect = SITE.get(e["op"], "?"), a
                if is_drift:
                    k = (site, aspect)
                    drift_seen.setdefault(k, [0, sample])[0] += 1
                else:
                    nviol += 1
                    chk.fail(site, aspect, "event #%d (%s): the recorded octets violate %s" % (i, e["op"], a), sample)
    for (site, aspect), (cnt, sample) in sorted(drift_seen.items()):
        chk.fail(site, aspect, "%d recorded message(s)" % cnt, sample, drift=True)
    chk.part(part, trace_events=n, events_with_P_violations=len([1 for v in flagged.values() if v.get("p")]),
             events_with_D_drift=len([1 for v in flagged.values() if v.get("d")]), accepted=True)
    return r, flagged


def run(chk, replay=None):
    tier, seed = chk.tier, chk.seed % 60000
    d = vlib.scratch("c08-")
    try:
        # ---- model -> code: the case table
        cases = os.path.join(d, "cases.ndjson")
        longuni, longoem = ([32767, 32768], [65536]) if tier == "quick" else ([32767, 32768], [65535, 65536])
        c = vlib.cfg("C08_cases_%s.cfg" % tier, SEED=seed, KINDS='{"chal", "ti", "neg", "auth", "e2e", "tok"}',
                     TOKLENS=vlib.intset(toklens(tier)), LONGUNI=vlib.intset(longuni), LONGOEM=vlib.intset(longoem),
                     NRANDOM=400 if tier == "quick" else 6000)
        r = vlib.run_tlc("C08Cases", c, emit_to=cases, timeout=1500)
        chk.add_tlc("cases", r)
        if r.generated != r.distinct:
            raise vlib.Infra("C08Cases emitted %d cases but only %d are distinct" % (r.generated, r.distinct))
        res, trace = os.path.join(d, "replay.res"), os.path.join(d, "trace.ndjson")
        vlib.run_harness("c08.replay", cases, res, {"trace": trace})
        summ = chk.ingest_results(res, part="replay")
        if int(summ.get("cases", 0)) != r.generated:
            raise vlib.Infra("driver consumed %s cases, TLC generated %d" % (summ.get("cases"), r.generated))
        chk.cov["exhaustive"] = True
        os.remove(cases)

        # ---- code -> model: seeded random builder calls, appended to the same trace
        res2, trace2 = os.path.join(d, "record.res"), os.path.join(d, "trace2.ndjson")
        vlib.run_harness("c08.record", None, res2, {"trace": trace2, "seed": chk.seed, "n": 400 if tier == "quick" else 4000,
                                                    "maxtok": 2000 if tier == "quick" else 5000})
        chk.ingest_results(res2, part="record")
        with open(trace, "a") as out, open(trace2) as src:
            out.write('{"op":"reset"}\n')
            shutil.copyfileobj(src, out)
        os.remove(trace2)
        if not int(summ.get("messages_built_for_tlc", 0)):
            raise vlib.Infra("no message was built for TLC to validate (vacuous)")
        r2, flagged = judge_trace(chk, d, trace, "trace_validation")
        lines = open(trace).readlines()
        chk.sample({"recorded_event": {k: short(v, 24) for k, v in json.loads(lines[len(lines) // 2]).items()}})

        # ---- the binding is live (thorough): damaged recordings must be judged as violations
        if tier == "thorough":
            guards = {}
            want = {"negotiate": ("b", 28, "desc:Workstation"), "authenticate": ("b", 8, "message-type"),
                    "wrapinit": ("w", 1, "outer:length")}
            bad = os.path.join(d, "bad.ndjson")
            picked = []
            with open(bad, "w") as fh:
                for op, (field, pos, expect) in want.items():
                    for i, ln in enumerate(lines, 1):
                        if flagged.get(i, {}).get("p") or ('"op":"%s"' % op) not in ln or len(ln) > 20000:
                            continue
                        e = json.loads(ln)
                        if e.get("err") or len(e[field]) <= pos or (op == "negotiate" and not e["ws"]):
                            continue
                        e[field][pos] = (e[field][pos] + 1) % 256
                        fh.write(json.dumps(e, separators=(",", ":")) + "\n")
                        picked.append((op, expect))
                        break
            if len(picked) != len(want):
                raise vlib.Infra("binding demonstration: could not pick one clean event per builder")
            rb = vlib.run_tlc("TraceNTLMSSP", vlib.cfg("C08_trace.cfg"), extra_files={"trace.ndjson": bad}, timeout=300)
            got = {int(v["i"]): v for v in rb.emitted}
            for k, (op, expect) in enumerate(picked, 1):
                hit = any(a.startswith(expect) for a in (got.get(k, {}).get("p") or []))
                guards["damaged_%s_flagged" % op] = hit
                if not hit:
                    raise vlib.Infra("binding demonstration failed: a damaged %s recording was not flagged (%s)" % (op, got.get(k)))
            chk.part("vacuity_guards", **guards)
        chk.assumptions += [
            "case mapping is judged on ASCII and a table of 1:1 pairs; names use only those letters or letters without case",
            "OEM code page is not fixed by MS-NLMP: OEM names are judged octet-exact (modulo case) only when 7-bit, otherwise non-emptiness",
            "LmChallengeResponse / NtChallengeResponse / session key are opaque here (C02 judges them); only their descriptors are checked",
            "MaxLen = Len is required of built messages (the property names the maximum length); MS-NLMP words it as SHOULD",
            "empty SPNEGO token: absent and empty OPTIONAL OCTET STRING are not distinguished (model detail)",
            "tokens whose DER length needs 4 octets (>= 16 MiB) are not exercised",
            "encoding/asn1 is trusted for the inner SPNEGO structures"]
        # ---- the same entry points called by 8 goroutines at once (race-detector build): results as when called alone
        vlib.parallel_callers(chk, "ntlmssp")
    finally:
        shutil.rmtree(d, ignore_errors=True)


MANIFEST = {
    "technique": "TLA+ specification of the NTLMSSP wire format (MS-NLMP 2.2.1/2.2.2, with the document's example messages as ASSUME vectors), a DER module (X.690) and SPNEGO (RFC 4178/2743); TLC-enumerated CHALLENGE generator and token table replayed into the parsers/extractors; TLC validation of every NEGOTIATE/AUTHENTICATE/SPNEGO message recorded from the builders",
    "level_text": "Both directions are bound to the specification. Parser side: TLC enumerates well-formed CHALLENGE messages over the flag sets that affect layout, target names in both character sets, AV-pair lists and payload placements (order, gaps, MaxLen slack), computes the parse a receiver must obtain, and each is executed on ParseChallengeMessage/ParseTargetInfo with field-by-field comparison. Builder side: for every name tuple x character set x challenge family (and seeded random ones) the octets the library builds are recorded and TLC evaluates the structural validators (signature, type, each descriptor in bounds / outside the header / MaxLen=Len / pairwise disjoint / designating exactly the name in the announced character set) on them. SPNEGO: Extract(Wrap(t)) = t on the real code and the outer 60-frame judged by the DER module for token lengths straddling every length-form boundary (127/128, 255/256, 65535/65536) of every nested TLV.",
    "level_note": "Enumerated and sampled inputs only; response fields are opaque (C02); OEM names judged only when 7-bit; case folding limited to a table; DER lengths of 4 octets not exercised; encoding/asn1 trusted.",
}
