"""C10 - NetBIOS name encoding and NBNS packets round-trip and follow RFC 1001/1002.

The specification: spec/NetBIOSName.tla (first-level encoding, RFC 1001 14.1, with the RFC's FRED example as ASSUME),
spec/NBNSPacket.tla (RFC 1002 4.2.1 packet layout, second-level name encoding, NBNSParse1002 = the independent parser,
built on the RFC 883/1035 name and section walker of DNSName / LLMNRMsg).

model -> code : TLC enumerates spec/C10Cases.tla -- first-level encoding exhaustively per position (16 x 256), every
                name length x scope variants, the scope alphabet and label lengths, every packet section shape
                0..2 x 0..2 x 0..2 x 0..2 with boundary words and RDATA up to 65 535 -- and prints the expected text /
                wire image; harness driver c10.cases runs each on the real library.
code -> model : Marshal's bytes for every packet case, what Unmarshal reads from the RFC 1002 images, and seeded random
                names / scopes / packets (c10.record) are judged line by line by TLC (spec/TraceNBNS.tla): the
                independent RFC 1002 parser must read Marshal's output to the same content.
"""
import os, json, shutil
from lib import vlib

RULE = ("cases: one case per name / packet TLC enumerated, distinct by (position, value), (length, content, scope), scope, or "
        "packet shape+filling; record: one case per seeded random name (encode + three decodes) or packet (marshal + round trip)")
TRUSTED = ["TLC", "Go encoding/json (case and trace transport)"]

SITES = {"fle": "nbtns.NetBIOSName.FirstLevelEncode", "fld": "nbtns.FirstLevelDecode", "marshal": "nbtns.NBTNSPacket.Marshal",
         "roundtrip": "nbtns.NBTNSPacket.Unmarshal", "unmarshal": "nbtns.NBTNSPacket.Unmarshal"}


def shrink(o, lim=48):
    if isinstance(o, list):
        if len(o) > lim and all(isinstance(x, int) for x in o):
            return {"len": len(o), "head": o[:24]}
        return [shrink(x, lim) for x in o]
    if isinstance(o, dict):
        return {k: shrink(v, lim) for k, v in o.items()}
    return o


def judge_trace(chk, trace, part):
    n = sum(1 for _ in open(trace))
    r = vlib.run_tlc("TraceNBNS", vlib.cfg("C10_trace.cfg"), extra_files={"trace.ndjson": trace}, allow_violation=True, timeout=1500, heap="6g")
    if not r.ok:
        raise vlib.Infra("TraceNBNS did not consume the whole trace (%s):\n%s" % (r.violation, r.output[-3000:]))
    chk.add_tlc(part, r)
    bad = {o["line"]: o for o in r.emitted}
    flagged = 0
    if bad:
        with open(trace) as fh:
            for i, ln in enumerate(fh, 1):
                o = bad.get(i)
                if o is None:
                    continue
                ev = json.loads(ln)
                flagged += 1
                op, what, parts, drift = o["op"], o["what"], list(o["parts"]), bool(o["drift"])
                site = SITES.get(op, "nbtns.?")
                if op == "unmarshal":
                    aspects = ["reads-rfc1002"]          # drift: one identity, the differing parts go to the detail
                else:
                    aspects = [what + ":" + p for p in parts] or [what]
                sample = shrink({k: v for k, v in ev.items() if k != "op"}, 160)
                detail = "TLC (TraceNBNS) line %d: %s %s %s" % (i, op, what, parts)
                for a in aspects:
                    chk.fail(site, a, detail, sample, drift=drift)
    chk.part(part, trace_events=n, events_not_behaviours_of_spec=flagged, accepted=(flagged == 0))
    return r


def run(chk, replay=None):
    tier, seed = chk.tier, chk.seed % 60000
    d = vlib.scratch("c10-")
    try:
        cases = os.path.join(d, "cases.ndjson")
        kinds = '{"pos", "len", "scope", "pkt", "big"}'
        r = vlib.run_tlc("C10Cases", vlib.cfg("C10_cases_%s.cfg" % tier, SEED=seed, KINDS=kinds), emit_to=cases, timeout=1800, heap="6g")
        chk.add_tlc("cases", r)
        if r.generated != r.distinct:
            raise vlib.Infra("C10Cases generated duplicate cases (%d/%d)" % (r.generated, r.distinct))
        t1, res = os.path.join(d, "t1.ndjson"), os.path.join(d, "cases.res")
        vlib.run_harness("c10.cases", cases, res, {"trace": t1, "revpass": 1, "arena": 1})
        chk.ingest_results(res, part="cases_replay")
        chk.cov["exhaustive"] = True
        os.remove(cases)
        t2, res2 = os.path.join(d, "t2.ndjson"), os.path.join(d, "rec.res")
        q = tier == "quick"
        vlib.run_harness("c10.record", None, res2, {"trace": t2, "names": 1000 if q else 5000, "packets": 400 if q else 2000, "seed": chk.seed})
        chk.ingest_results(res2, part="record")
        trace = os.path.join(d, "trace.ndjson")
        with open(trace, "w") as out:
            for p in (t1, t2):
                with open(p) as fh:
                    shutil.copyfileobj(fh, out)
        judge_trace(chk, trace, "trace_judged_by_tlc")
        with open(t2) as fh:
            for ln in fh:
                if '"op":"fle"' in ln and '"sc":[[' in ln:
                    chk.sample({"recorded_event": shrink(json.loads(ln))})
                    break
        if tier == "thorough":
            fred = {"nb": [70, 82, 69, 68], "sc": []}
            half = [69, 71, 70, 67, 69, 70, 69, 69] + [67, 65] * 12
            pkt = {"id": 1, "flags": 0, "qd": [dict(fred, t=32, c=1)], "an": [], "ns": [], "ar": []}
            hdr = [0, 1, 0, 0, 0, 1, 0, 0, 0, 0, 0, 0]
            good = hdr + [32] + half + [0, 0, 32, 0, 1]
            evs = [{"op": "fle", "nb": fred["nb"], "sc": [], "out": half, "err": False},
                   {"op": "fle", "nb": fred["nb"], "sc": [], "out": half[:31] + [66], "err": False},            # one nibble wrong
                   {"op": "marshal", "k": "g", "p": pkt, "out": good, "err": False},
                   {"op": "marshal", "k": "g", "p": pkt, "out": hdr + [32] + half + [0, 32, 0, 1], "err": False},  # root label missing
                   {"op": "marshal", "k": "g", "p": pkt, "out": good[:-1] + [2], "err": False},                 # class differs
                   {"op": "roundtrip", "p": pkt, "ok": True, "back": dict(pkt, flags=1)}]
            gpath = os.path.join(d, "guard.ndjson")
            with open(gpath, "w") as fh:
                for e in evs:
                    fh.write(json.dumps(e) + "\n")
            g = vlib.run_tlc("TraceNBNS", vlib.cfg("C10_trace.cfg"), extra_files={"trace.ndjson": gpath}, allow_violation=True)
            got = sorted((o["line"], o["what"], tuple(o["parts"])) for o in g.emitted)
            want = [(2, "first-level:text", ()), (4, "rfc1002-parse", ("name-root-label-missing",)),
                    (5, "rfc1002-parse", ("Questions",)), (6, "roundtrip", ("Header.Flags",))]
            if not g.ok or got != want:
                raise vlib.Infra("vacuity guard: TraceNBNS judged the guard trace as %s, expected %s" % (got, want))
            chk.part("vacuity_guards", wrong_nibble_flagged=True, missing_root_label_classified=True, other_field_defect_keeps_own_identity=True,
                     roundtrip_difference_flagged=True, good_lines_accepted=True)
        chk.assumptions += ["two names are the same NetBIOS name iff their space-padded 16-octet forms and scopes are equal (trailing spaces are padding); the exact trimmed spelling is compared as drift",
                            "names beginning with '*' are excluded by RFC 1001 5.2: the library's refusal is drift",
                            "scope identifiers in the RFC 1035 2.3.1 preferred syntax (letters, digits, hyphen), total name <= 255 octets",
                            "packets are handed to the library with header counts and RDLENGTH equal to the slice lengths",
                            "whether Unmarshal reads RFC 1002 images written by others is beyond the statement (drift)"]
        # ---- the same entry points called by 8 goroutines at once (race-detector build): results as when called alone
        vlib.parallel_callers(chk, "nbns")
    finally:
        shutil.rmtree(d, ignore_errors=True)


MANIFEST = {
    "technique": "TLA+ NetBIOS first-level encoding (RFC 1001 14.1) and NBNS packet layout with an independent parser NBNSParse1002 (RFC 1002 4.1/4.2.1 on the RFC 883/1035 name walker), RFC examples as ASSUME; enumerated case table replayed into the real code; TLC judgement of every packet the library marshalled and of recorded random names/packets",
    "level_text": "TLC enumerates the first-level encoding exhaustively per position (16 positions x 256 octet values), every name length 0..16 with scope variants, the scope alphabet and label lengths up to the 255-octet name limit, and every packet section shape (0..2 entries in each of the four sections) with boundary header words and RDATA up to 65 535; each case is run on the real library (encode == RFC form, decode back, Unmarshal(Marshal(p)) == p) and every byte string Marshal produced is parsed by the specification's RFC 1002 parser in TLC. Seeded random names, scopes and packets recorded from the code are judged line by line by TLC.",
    "level_note": "Per-position exhaustiveness is for one base name (ABCDEFGHIJKLMNOP); other contents are sampled (seeded). Names with a leading '*' and the library's reading of foreign RFC 1002 images are drift, not verdicts.",
}
