"""C18 - name-service servers/clients isolate concurrent requests and stop cleanly."""
import os, json, shutil, concurrent.futures
from lib import vlib

RULE = ("sched: one case per forced schedule (a path through the NameService state graph; together the schedules cover every edge of the "
        "graph: every interleaving point of send/recv/dispatch/parse/respond/stop); opcodes: all 16; free: one case per recorded free-running round")
TRUSTED = ["TLC", "loopback UDP/TCP of the sandbox kernel (FIFO per socket pair)", "Go race detector (auxiliary monitor)"]

OPS16 = "[0,1,2,3,4,5,6,7,8,9,10,11,12,13,14,15]"
CL16 = "[" + ",".join(["1"] * 16) + "]"


def run(chk, replay=None):
    tier = chk.tier
    d = vlib.scratch("c18-")
    try:
        # ---- design level: invariants on all interleavings, liveness under fairness, deviations must be caught
        live = vlib.run_tlc("MC_NameService", vlib.cfg("C18_liveness.cfg"), workers=4, timeout=900)
        chk.add_tlc("design_invariants_and_liveness", live)
        guards = {}
        for dev, c in (("CopyOnDispatch", "C18_sched_quick.cfg"), ("MaskOK", "C18_opcodes.cfg")):
            g = vlib.run_tlc("MC_NameService", vlib.cfg(c).replace(dev + " = TRUE", dev + " = FALSE").replace("EmitEdges = TRUE", "EmitEdges = FALSE"),
                             allow_violation=True, timeout=300)
            guards["deviation_%s_FALSE_yields_counterexample" % dev] = g.violation
            if not g.violation:
                raise vlib.Infra("vacuity guard: deviation %s not distinguished" % dev)
        ll = vlib.run_tlc("LLMNRServer", vlib.cfg("C18_llmnr_live.cfg"), timeout=300)
        chk.add_tlc("llmnr_server_liveness", ll)
        gl = vlib.run_tlc("LLMNRServer", vlib.cfg("C18_llmnr_live.cfg").replace("CloseWaitsForHandlers = FALSE", "CloseWaitsForHandlers = TRUE"),
                          allow_violation=True, timeout=300)
        guards["deviation_CloseWaitsForHandlers_yields_counterexample"] = gl.violation
        if not gl.violation:
            raise vlib.Infra("vacuity guard: CloseWaitsForHandlers not distinguished")
        tl = vlib.run_tlc("NBNSTcpServer", vlib.cfg("C18_tcp_live.cfg"), timeout=300)
        chk.add_tlc("tcp_server_liveness", tl)
        gt = vlib.run_tlc("NBNSTcpServer", vlib.cfg("C18_tcp_live.cfg").replace("StopWakesWriters = TRUE", "StopWakesWriters = FALSE"),
                          allow_violation=True, timeout=300)
        guards["deviation_StopWakesWriters_FALSE_yields_counterexample"] = gt.violation
        if not gt.violation:
            raise vlib.Infra("vacuity guard: StopWakesWriters=FALSE not distinguished")
        chk.part("vacuity_guards", **guards)

        # ---- model -> code: forced schedules on the real UDP servers
        sched_cfg = "C18_sched_quick.cfg" if tier == "quick" else "C18_sched_thorough.cfg"
        clients, ops = ("[1,2]", "[0,0]") if tier == "quick" else ("[1,2,1,2]", "[0,5,0,6]")
        edges = os.path.join(d, "sched.ndjson")
        scfg = vlib.cfg(sched_cfg)
        if tier == "thorough":     # 4 requests from 2 clients (query, registration, query, release): 32 871 states / 57 891 edges
            scfg = scfg.replace("RC_3", "RC_4").replace("RO_3", "RO_4")
        r = vlib.run_tlc("MC_NameService", scfg, emit_to=edges, timeout=900)
        chk.add_tlc("schedule_graph", r)
        opedges = os.path.join(d, "ops.ndjson")
        r = vlib.run_tlc("MC_NameService", vlib.cfg("C18_opcodes.cfg"), emit_to=opedges, timeout=300)
        chk.add_tlc("opcode_graph", r)
        shards = 6
        jobs = []
        for srv in ("UDPServer", "Server"):
            for sh in range(shards):
                jobs.append(("c18.sched", edges, {"server": srv, "max": 60 if tier == "quick" else 1500, "hardmax": 0 if tier == "quick" else 9000, "seed": chk.seed, "clients": clients, "ops": ops,
                                                  "shard": sh, "shards": shards}, "sched_%s_%d" % (srv, sh), False))
            jobs.append(("c18.sched", opedges, {"server": srv, "max": 1, "seed": chk.seed, "clients": CL16, "ops": OPS16}, "opcodes_" + srv, False))
        jobs.append(("c18.tcpops", opedges, {"ops": OPS16}, "opcodes_TCPServer", False))
        # ---- NBNS TCP server: connections idle / mid-message / handler blocked in a write, Stop at every point
        tcpedges = os.path.join(d, "tcp.ndjson")
        r = vlib.run_tlc("NBNSTcpServer", vlib.cfg("C18_tcp.cfg"), emit_to=tcpedges, timeout=300)
        chk.add_tlc("tcp_server_graph", r)
        tsh = 4 if tier == "quick" else 8
        for sh in range(tsh):
            jobs.append(("c18.tcpsched", tcpedges, {"seed": chk.seed, "max": 30, "shard": sh, "shards": tsh, "runs": 10 if tier == "quick" else 0},
                         "tcp_sched_%d" % sh, False))
        # ---- NameChallenger (client side of NBNS): every reply script of up to 3 attempts
        chedges = os.path.join(d, "challenge.ndjson")
        r = vlib.run_tlc("NameChallenge", vlib.cfg("C18_challenge.cfg", MAXT=0 if tier == "quick" else 1), emit_to=chedges, timeout=300)
        chk.add_tlc("name_challenge_scripts", r)
        jobs.append(("c18.challenge", chedges, {}, "name_challenge", False))
        # ---- LLMNR server: handlers as gates, Close (from outside or from a handler) at every point
        lledges = os.path.join(d, "llmnr.ndjson")
        r = vlib.run_tlc("LLMNRServer", vlib.cfg("C18_llmnr.cfg", NREQ=2 if tier == "quick" else 3), emit_to=lledges, timeout=600)
        chk.add_tlc("llmnr_server_graph", r)
        lsh = 2 if tier == "quick" else 6
        for sh in range(lsh):
            jobs.append(("c18.llmnr", lledges, {"seed": chk.seed, "max": 40 if tier == "quick" else 600, "shard": sh, "shards": lsh}, "llmnr_sched_%d" % sh, False))
        # ---- code -> model: free-running executions under the race detector
        rounds, per = (2, 30) if tier == "quick" else (10, 60)
        for mode in ("nbns-udp", "nbns-server", "nbns-tcp", "llmnr-server"):
            jobs.append(("c18.free", None, {"mode": mode, "clients": 6, "requests": per, "rounds": rounds, "seed": chk.seed,
                                            "trace": os.path.join(d, mode + ".trace")}, "free_" + mode, True))
        jobs.append(("c18.free", None, {"mode": "llmnr-client", "clients": 10, "rounds": 4 if tier == "quick" else 8, "seed": chk.seed,
                                        "trace": os.path.join(d, "llmnr-client.trace")}, "free_llmnr-client", True))

        # ---- specification growth (drift only): what the servers ANSWER = packet layer composed with the name table
        g4 = os.path.join(d, "g04.ndjson")
        r = vlib.run_tlc("NameServerSem", vlib.cfg("G04_sem.cfg", MAXITEMS=2, NAMES='{"n1", "n2"}' if tier == "quick" else '{"n1", "n2", "n3"}'),
                         emit_to=g4, timeout=900)
        chk.add_tlc("growth_nssem_graph", r)
        jobs.append(("g04.nssem", g4, {"kinds": "udp,server,tcp"}, "growth_nssem", False))
        if tier == "thorough":
            ag = vlib.run_tlc("NameServerSem", vlib.cfg("G04_agree.cfg", NOOWNER="FALSE"), timeout=600)
            chk.add_tlc("growth_nssem_functional_calls_are_nametable_actions", ag)
            gg = vlib.run_tlc("NameServerSem", vlib.cfg("G04_agree.cfg", NOOWNER="TRUE"), allow_violation=True, timeout=600)
            if gg.violation != "FunctionalAgrees":
                raise vlib.Infra("vacuity guard: FunctionalAgrees does not distinguish NoOwnerCheck")

        def one(job):
            drv, inp, opts, part, race = job
            res = os.path.join(d, part + ".res")
            out, races = vlib.run_harness(drv, inp, res, opts, race=race, timeout=1500)
            return part, res, races, opts
        vlib.build_harness(); vlib.build_harness(race=True)
        with concurrent.futures.ThreadPoolExecutor(max_workers=8) as ex:
            results = list(ex.map(one, jobs))
        reorder = False
        for part, res, races, opts in results:
            for rep in races[:3]:
                chk.fail(vlib.race_site(rep), "data-race", rep[:1500], None)
            summ = chk.ingest_results(res, part=part)
            reorder = reorder or bool(summ.get("udp_reordering_seen"))
            if "trace" in opts and os.path.exists(opts["trace"]) and os.path.getsize(opts["trace"]) > 0:
                site = {"nbns-udp": "nbtns.UDPServer", "nbns-server": "nbtns.Server", "nbns-tcp": "nbtns.TCPServer",
                        "llmnr-server": "llmnr.Server", "llmnr-client": "llmnr.Client"}[opts["mode"]]
                vlib.validate_trace(chk, "RequestReply", vlib.cfg("C18_trace.cfg"), opts["trace"], part + "_trace",
                                    lambda e, site=site: site + (".Query" if e.get("op", "").startswith("q") else ".serve"),
                                    aspect="trace-rejected:" + opts["mode"])
        chk.cov["exhaustive"] = True
        if reorder:
            chk.assumptions.append("the kernel reordered loopback datagrams in at least one schedule; those schedules gave no verdict")
        chk.assumptions += ["loopback UDP delivers datagrams of one socket pair in FIFO order", "'promptly' = Stop/Close returns within 3 s and no goroutine of the package is alive 2 s later",
                            "opcode 9 (refresh in the RFC 1002 4.2.4 diagram, unassigned in 4.2.1.1) is reported as drift only",
                            "free-running executions sample real schedules; the race detector only sees accesses that occurred",
                            "growth (drift only): NameServerSem.tla, the content of the servers' responses over the complete request/response graph of 2 (thorough 3) names x 2 addresses, up to 2 items per request, on all three servers"]
    finally:
        shutil.rmtree(d, ignore_errors=True)


MANIFEST = {
    "technique": "TLC model checking of NameService.tla (all interleavings, liveness, named deviations); TLC-chosen schedules forced onto the real NBNS servers through blocking gate hooks; TLC trace validation of free-running executions against RequestReply.tla",
    "level_text": "The receive loop, its single buffer, the per-datagram handler goroutines and Stop are an explicit TLA+ state machine; TLC checks isolation, RFC 1002 routing and stop-liveness over all interleavings and rejects the two known-bad designs. Schedules covering every edge of that graph are executed step by step on real UDP servers on loopback (gates = scheduler), comparing the datagram in the buffer, the name-table calls and the reply bytes after each step; all 16 opcodes are routed through both servers. Free-running multi-client executions of the UDP/TCP NBNS servers, the LLMNR server and the LLMNR client are validated event by event by TLC, under the race detector, followed by a Stop/Close promptness and goroutine census.",
    "level_note": "Loopback only; FIFO datagram delivery assumed; schedules beyond 3 concurrent requests and real (ungated) schedules are sampled, not enumerated; LLMNR client check needs the multicast group (skipped with a note otherwise).",
}
