"""C09 - LLMNR codec round-trips and agrees with an independent RFC 1035 codec.

The specification (spec/DNSName.tla, spec/LLMNRMsg.tla, written from RFC 1035 3.1 / 4.1 / 4.1.4 and RFC 4795 2.1)
IS the independent codec: uncompressed encoder, compressing encoder, decoder with the strictly-backwards pointer rule.

model -> code : TLC enumerates spec/C09Cases.tla (every section shape 0..3 questions x 0..2 records in each of the
                three record sections, large RDATA, single names over every label octet / label length / the
                255-octet boundary, and pointer arenas with every target offset) and prints each case with the
                specification's encodings / expected decode; harness driver c09.cases runs each on the real
                library (round trip; library reads the spec's plain and compressed encodings; expected
                rejection of every pointer that is not strictly backwards; watchdog for termination).
code -> model : every byte string the library produced in those cases, plus seeded random messages, their
                hand-compressed and mutated wire images and what the library decoded from them (c09.record), is
                judged line by line by TLC with the specification's decoder (spec/TraceLLMNR.tla).
"""
import os, json, shutil, subprocess
from lib import vlib

RULE = ("cases: one case per message / name / arena TLC enumerated, distinct by section shape+filling, name bytes or arena "
        "bytes; record: one case per seeded random message (its encode, decode-own, decode-compressed and three hostile "
        "variants are the judged executions)")
TRUSTED = ["TLC", "Go encoding/json (case and trace transport)"]

ENC, DEC = "llmnr.Message.Encode", "llmnr.DecodeMessage"


def shrink(o, lim=48):
    """Keep samples readable: long integer arrays become {len, head}."""
    if isinstance(o, list):
        if len(o) > lim and all(isinstance(x, int) for x in o):
            return {"len": len(o), "head": o[:24]}
        return [shrink(x, lim) for x in o]
    if isinstance(o, dict):
        return {k: shrink(v, lim) for k, v in o.items()}
    return o


def run_driver(chk, driver, inp, res, opts, part, cur):
    """Run a harness driver. The library's DecodeDomainName is recursive: unbounded recursion ends in a fatal Go stack
    overflow that no recover() catches and that kills the driver. The driver notes the wire image it is about to decode
    in <cur>; if the driver dies, that one image is decoded again in a process of its own (driver c09.decode1) and, if that
    process dies of a stack overflow too, this behaviour of the real code is reported as a verdict (decoding does not
    terminate) instead of an infrastructure error."""
    try:
        vlib.run_harness(driver, inp, res, dict(opts, cur=cur), timeout=1500)
    except vlib.Infra as e:
        try:
            note = json.load(open(cur))
        except Exception:
            raise e
        exe = vlib.build_harness()
        p = subprocess.run([exe, "c09.decode1", "/dev/null", res + ".1", "hex=" + note["wire_hex"],
                            "starts=" + ",".join(str(x) for x in note.get("starts", []))],
                           stdout=subprocess.PIPE, stderr=subprocess.STDOUT, text=True, timeout=600, env=vlib.goenv())
        if p.returncode != 0 and ("stack overflow" in p.stdout[:4000] or "goroutine stack exceeds" in p.stdout[:4000]):
            chk.fail("llmnr.DecodeDomainName", "non-termination:unbounded-recursion",
                     "decoding this wire image never returns: the recursion in DecodeDomainName is unbounded and the process dies "
                     "with a Go stack overflow (reproduced in a fresh process)", note)
            chk.part(part, aborted_by_stack_overflow=True)
            return None
        raise e
    return chk.ingest_results(res, part=part)


def judge_trace(chk, trace, part):
    """TLC judges every recorded line with the specification's codec (TraceLLMNR prints the lines that are not
    behaviours of the specification, with the differing parts)."""
    n = sum(1 for _ in open(trace))
    r = vlib.run_tlc("TraceLLMNR", vlib.cfg("C09_trace.cfg"), extra_files={"trace.ndjson": trace}, allow_violation=True, timeout=1500, heap="6g")
    if not r.ok:
        raise vlib.Infra("TraceLLMNR did not consume the whole trace (%s):\n%s" % (r.violation, r.output[-3000:]))
    chk.add_tlc(part, r)
    bad = {o["line"]: o for o in r.emitted}
    flagged = 0
    if bad:
        with open(trace) as fh:
            for i, ln in enumerate(fh, 1):
                o = bad.get(i)
                if o is None:
                    continue
                ev = json.loads(ln)
                flagged += 1
                op, what, parts, drift = o["op"], o["what"], list(o["parts"]), bool(o["drift"])
                if op == "enc":
                    site = ENC
                    sample = {"message": shrink(ev["m"]), "library_bytes": shrink(ev["out"], 160)}
                    if ev.get("k") == "rootdot":
                        aspects = ["root-as-dot:" + what]
                    else:
                        aspects = [what + ":" + p for p in parts] or [what]
                elif op == "encname":
                    site = "llmnr.EncodeDomainName"
                    sample = {"labels": shrink(ev["n"]), "library_bytes": shrink(ev["out"], 160)}
                    aspects = [what + ":" + p for p in parts] or [what]
                else:
                    site = DEC
                    sample = {"class": ev.get("cls"), "wire": shrink(ev["in"], 200), "library_result": shrink(ev["m"]) if ev.get("ok") else "error"}
                    if what == "decode":
                        aspects = [("decode-rfc1035:" if not drift else "mutated-input-decode:") + p for p in parts]
                    elif what == "lenient-accept":
                        aspects = ["lenient-accept:" + parts[0]]
                    elif what == "nonbackward-pointer-accepted":
                        aspects = [what + ":" + parts[0]]
                    elif what.startswith("decode:"):
                        aspects = [("decode-rfc1035:" if not drift else "mutated-input-decode:") + what[7:]]
                    else:
                        aspects = [("" if not drift else "mutated-input-") + what]
                detail = "TLC (TraceLLMNR) line %d: %s %s %s" % (i, op, what, parts)
                for a in aspects:
                    chk.fail(site, a, detail, sample, drift=drift)
    chk.part(part, trace_events=n, events_not_behaviours_of_spec=flagged, accepted=(flagged == 0))
    return r


def run(chk, replay=None):
    tier, seed = chk.tier, chk.seed % 60000
    d = vlib.scratch("c09-")
    try:
        cur = os.path.join(d, "cur.json")
        # ---- model -> code: enumerated case table
        cases = os.path.join(d, "cases.ndjson")
        kinds = '{"msg", "big", "rootdot", "typeclass", "name", "badname", "arena"}'
        r = vlib.run_tlc("C09Cases", vlib.cfg("C09_cases_%s.cfg" % tier, SEED=seed, KINDS=kinds), emit_to=cases, timeout=1800, heap="6g")
        chk.add_tlc("cases", r)
        if r.generated != r.distinct:
            raise vlib.Infra("C09Cases generated duplicate cases (%d/%d)" % (r.generated, r.distinct))
        t1, res = os.path.join(d, "t1.ndjson"), os.path.join(d, "cases.res")
        ok1 = run_driver(chk, "c09.cases", cases, res, {"trace": t1, "revpass": 1, "arena": 1}, "cases_replay", cur)
        chk.cov["exhaustive"] = True
        os.remove(cases)
        # ---- code -> model: seeded random messages and hostile wire images
        t2, res2 = os.path.join(d, "t2.ndjson"), os.path.join(d, "rec.res")
        ok2 = run_driver(chk, "c09.record", None, res2, {"trace": t2, "messages": 400 if tier == "quick" else 6000, "seed": chk.seed},
                         "record", cur)
        trace = os.path.join(d, "trace.ndjson")
        with open(trace, "w") as out:
            for p, ok in ((t1, ok1), (t2, ok2)):
                if ok is not None:                  # a driver that died left a partial trace: not judged
                    with open(p) as fh:
                        shutil.copyfileobj(fh, out)
        if os.path.getsize(trace):
            judge_trace(chk, trace, "trace_judged_by_tlc")
        with open(trace) as fh:
            for ln in fh:
                if '"op":"dec"' in ln and '"cls":"packed"' in ln:
                    chk.sample({"recorded_event": shrink(json.loads(ln))})
                    break
        # ---- the binding is live / the spec can see the bug (thorough)
        if tier == "thorough":
            good = {"id": 1, "flags": 0, "qd": [{"n": [[97]], "t": 1, "c": 1}], "an": [], "ns": [], "ar": []}
            wire = [0, 1, 0, 0, 0, 1, 0, 0, 0, 0, 0, 0, 1, 97, 0, 0, 1, 0, 1]
            dropped = dict(good, ns=[{"n": [[97]], "t": 1, "c": 1, "ttl": [0, 1], "rd": []}])
            wire_ns = wire[:8] + [0, 1] + wire[10:]          # NSCOUNT = 1 and no record: the deviation "section not written"
            loop = wire[:12] + [192, 12, 0, 1, 0, 1]         # self pointer
            empty = {"id": 0, "flags": 0, "qd": [], "an": [], "ns": [], "ar": []}
            evs = [{"op": "enc", "k": "g", "m": good, "out": wire, "err": False},                       # accepted
                   {"op": "enc", "k": "g", "m": good, "out": wire[:13] + [98] + wire[14:], "err": False},  # one octet corrupted
                   {"op": "enc", "k": "g", "m": dropped, "out": wire_ns, "err": False},
                   {"op": "dec", "cls": "mutated", "in": loop, "ok": True, "hung": False, "panic": False, "m": empty},
                   {"op": "dec", "cls": "mutated", "in": loop, "ok": False, "hung": False, "panic": False, "m": empty}]
            gpath = os.path.join(d, "guard.ndjson")
            with open(gpath, "w") as fh:
                for e in evs:
                    fh.write(json.dumps(e) + "\n")
            g = vlib.run_tlc("TraceLLMNR", vlib.cfg("C09_trace.cfg"), extra_files={"trace.ndjson": gpath}, allow_violation=True)
            got = sorted((o["line"], o["what"]) for o in g.emitted)
            want = [(2, "rfc1035-parse"), (3, "rfc1035-parse"), (4, "nonbackward-pointer-accepted")]
            if not g.ok or got != want:
                raise vlib.Infra("vacuity guard: TraceLLMNR judged the guard trace as %s, expected %s" % (got, want))
            chk.part("vacuity_guards", corrupted_encoding_flagged=True, unwritten_section_flagged=True,
                     accepted_self_pointer_flagged=True, good_lines_accepted=True)
        chk.assumptions += ["RDATA is opaque (names inside RDATA are neither compressed nor expanded), as in the library",
                            "names are handed to the library as dotted text, so labels containing '.' are outside the domain; the root is written \"\" (and \".\" in the rootdot cases, which is how the library's decoder prints it)",
                            "section sizes 0..3 / 0..2 exhaustively; names, ids, flags, types, classes, TTLs and RDATA lengths from boundary pools plus seeded random values",
                            "pointer arenas: 1..3 names, every target offset for a single pointer; label boundaries / pointer octets / two header offsets for several pointers",
                            "a pointer whose target no encoder could have written (header, middle of a label, type/class octets) is compared as drift only"]
        # ---- specification growth (drift only): what an LLMNR responder does with one datagram (filter, handler chain, reply)
        vlib.replay_cases(chk, "LLMNRResponder", vlib.cfg("G06_responder.cfg"), "g06.responder", "growth_responder")
        chk.assumptions.append("growth (drift only): LLMNRResponder.tla -- RFC 4795 filter (QR, OPCODE), handler chain order/termination, reply id/QR/question section, header-bit constants (DESIGN 13.7 G06)")
        # ---- the same entry points called by 8 goroutines at once (race-detector build): results as when called alone
        vlib.parallel_callers(chk, "llmnr")
    finally:
        shutil.rmtree(d, ignore_errors=True)


MANIFEST = {
    "technique": "TLA+ RFC 1035/4795 codec (DNSName, LLMNRMsg: plain encoder, compressing encoder, decoder with the strictly-backwards pointer rule, RFC figure as ASSUME) evaluated by TLC; enumerated case table (all section shapes, names, pointer arenas) replayed into the real code; TLC judgement of every byte string the library produced and of recorded random/hostile decodes",
    "level_text": "The specification is the independent codec. TLC enumerates every section shape (0..3 questions x 0..2 records per record section), single names over every label octet value and label length up to the 255-octet limit, large RDATA up to 65 535, and pointer arenas with every target offset (forward, self, backward, chained, header, mid-label); each case is run on the real library in three directions (round trip, library reads the spec's plain and compressed output, TLC parses the library's output), non-backward pointers must be rejected and every decode must return. Seeded random messages and mutated wire images recorded from the code are judged line by line by TLC.",
    "level_note": "Beyond the enumerated shapes and pools the input space is sampled (seeded); RDATA is opaque; labels containing '.' cannot be expressed through the text API and are excluded.",
}
