"""C05 - SMB1 structures are emitted in the encoding MS-CIFS prescribes.

Same engine as C04 (checks/c04.py) with the specification in Mode "cifs": types as MS-CIFS defines them, every multi-byte
integer little-endian, AndX block = command/reserved/offset, buffer-format strings with their format byte and terminator.
model -> code : library Marshal output against the reference bytes slot by slot (byteorder:<Field> when the slot holds the
                byte-reversed atoms, layout:<Field> otherwise), and library Unmarshal of the REFERENCE bytes against the
                values (refdecode:<Field>, decode-byteorder:<Field>); SMB header fields and dialect arrays (SMBEnvelope.tla).
code -> model : recorded random executions judged by TLC (TraceSMB.tla, Mode "cifs").
"""
import os, shutil
from lib import vlib
from checks import c04

RULE = c04.RULE + "; header: one case per pattern/changed field; dialects: one case per name list"
TRUSTED = c04.TRUSTED


def run(chk, replay=None):
    d, schemas, cases, trace, events = c04.run_engine(chk, "C05")
    try:
        for part, driver in (("header", "c05.header"), ("dialects", "c05.dialects")):
            vlib.replay_cases(chk, "SMBEnvelope", vlib.cfg("C05_envelope.cfg", PART=part), driver, part)
        if chk.tier == "thorough":
            c04.live_binding_guard(chk, "C05", d, schemas, trace, events)
        chk.assumptions += [
            "MS-CIFS per-type rules (SMBAtoms.tla) and per-field relations/format bytes (SMBCommands.tla FieldTable) are written from the standard; the list of fields of each command is the library's declaration, not an independent transcription of MS-CIFS 2.2.4.x",
            "OEM (non-Unicode) strings; dialect list of length 0 and the NT LM 0.12 DomainName/ServerName are outside what is asserted (drift)",
            "values: structured patterns (pairwise distinct bytes) plus random integers; not exhaustive over values",
        ]
    finally:
        c04.restore_java_tmp(chk._java_old)
        shutil.rmtree(d, ignore_errors=True)


MANIFEST = {
    "technique": "MS-CIFS reference encoder in TLA+ (little-endian atoms, AndX block, buffer-format strings, dialect arrays, SMB header) evaluated by TLC on value patterns with pairwise-distinct bytes; library bytes compared slot by slot and library decoder fed with the reference bytes; TLC judgement of recorded random executions",
    "level_text": "The specification is the independent encoder the property speaks of: for every structure the factories return and every value pattern (distinct bytes, zero, max, one field changed, variable lengths with consistent counts/offsets) TLC computes the MS-CIFS bytes; the real Marshal output is compared per slot and the real Unmarshal is run on the reference bytes; every SMB header field and dialect lists of 0..13 names are covered the same way; recorded random executions are judged by TLC.",
    "level_note": "The field list of each command comes from the library's declarations (only types, widths, byte order, relations and format bytes are independent); values are patterns and samples, not exhaustive; Unicode strings not modelled.",
}
