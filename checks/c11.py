"""C11 - NBT session transport preserves message boundaries, never yields partial frames."""
import os, json, shutil
from lib import vlib

RULE = ("graph: every transition of the real-size (Base=256) NBTSession state graph over boundary lengths, representative read sizes and "
        "cut offsets is one case (non-trivial = not a pure schedule step); tcp: one case per recorded loopback session")
TRUSTED = ["TLC", "loopback TCP of the sandbox kernel (tcp sessions only)"]


def run(chk, replay=None):
    tier = chk.tier
    d = vlib.scratch("c11-")
    try:
        # ---- design level: exhaustive scaled model (Base = 4), every segmentation, cut after every byte
        sc = vlib.cfg("C11_scaled.cfg")
        if tier == "quick":
            sc = sc.replace("MaxFrames = 3", "MaxFrames = 2")
        r = vlib.run_tlc("NBTSession", sc, workers=min(8, vlib.NCPU), timeout=1500)
        chk.add_tlc("scaled_exhaustive", r)
        guards = {}
        small = vlib.cfg("C11_scaled.cfg").replace("MaxFrames = 3", "MaxFrames = 2")
        for dev in ("Len17", "Refuse"):
            g = vlib.run_tlc("NBTSession", small.replace(dev + " = TRUE", dev + " = FALSE"), workers=4, allow_violation=True, timeout=600)
            guards["deviation_%s_FALSE_yields_counterexample" % dev] = g.violation
            if not g.violation:
                raise vlib.Infra("vacuity guard: deviation %s=FALSE not distinguished" % dev)
        chk.part("vacuity_guards", **guards)
        # ---- model -> code: real-size graph, every edge replayed
        c = vlib.cfg("C11_real_quick.cfg")
        if tier == "thorough":
            c = c.replace("ReadSizes = {1, 2, 3}", "ReadSizes = {1, 2, 3, 4, 1460, 65535, 65536}").replace("MaxReads = 2", "MaxReads = 3")
        vlib.replay_cases(chk, "NBTSession", c, "c11.graph", "real_graph_replay", timeout=2400)
        chk.cov["exhaustive"] = True
        # ---- code -> model: real loopback TCP sessions
        trace, res = os.path.join(d, "trace.ndjson"), os.path.join(d, "tcp.res")
        vlib.run_harness("c11.tcp", None, res, {"trace": trace, "sessions": 8 if tier == "quick" else 60, "seed": chk.seed})
        chk.ingest_results(res, part="tcp_record")
        vlib.validate_trace(chk, "TraceNBT", vlib.cfg("C11_trace.cfg"), trace, "tcp_trace_validation",
                            lambda e: "nbt.NBTTransport." + ("Send" if e.get("op") == "send" else "Receive"))
        chk.sample({"recorded_session_events": [json.loads(x) for x in open(trace).readlines()[:4]]})
        chk.assumptions += ["receiver fed the reference framing (spec header + payload); sender compared with the same reference: lib->lib follows by transitivity",
                            "real-size graph uses boundary lengths {0,1,5,0xFFFF,0x10000,0x10001,0x1FFFF,0x20000,0x20001}; the exhaustive all-lengths/all-segmentations exploration is on the scaled (Base=4) model",
                            "kernel TCP behaviour on loopback only"]
    finally:
        shutil.rmtree(d, ignore_errors=True)


MANIFEST = {
    "technique": "TLC exhaustive exploration of NBTSession.tla (scaled byte width: all lengths, all segmentations, every cut offset); real-size state graph replayed edge by edge through a scripted net.Conn; TLC trace validation of loopback TCP sessions",
    "level_text": "The RFC 1002 session framing is an explicit TLA+ state machine (Send, per-read segmentation, Cut, EOF). TLC proves the design invariants exhaustively on a scaled byte width and rejects the two named deviations; the same module at Base=256 yields a state graph whose every edge is executed on real sending/receiving transports with exact control of segment sizes and cut points, comparing bytes consumed and every Receive result after each step; sessions over real TCP are validated as traces.",
    "level_note": "All 131072 lengths are covered only in the scaled model; at real size boundary lengths and representative segmentations. Loopback kernel assumed to deliver bytes in order.",
}
