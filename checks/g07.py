"""G07 - specification growth: the LDAP session layer of network/ldap over a modelled directory.

model -> code : spec/G07Cases.tla enumerates directories (domain SIDs incl. sub-authorities >= 2^31, 1..3 domains, BUILTIN aliases
                absent / in the forest root / in every domain, NetBIOS names that differ from the DNS label, global catalog or not,
                a page-size cap, the answering domain controller) x session calls (FindObjectSIDByRID over every well-known RID,
                GetDomain by FQDN / NetBIOS name, GetAllDomains, LookupSID, the Query family, naming contexts, domain
                controllers, certificate templates, objects.Domain methods, Connect) with the result spec/LDAPDirectory.tla
                computes and the searches that produce it; harness/drivers/g07_ldapsession.go serves each directory from an
                in-process LDAP server (127.0.0.1:0), connects a real ldap.Session and executes the call.
Verdicts: the SID text returned for a binary objectSid the directory returned and the DNS domain derived from a DN the directory
returned are clauses of C16 (violations); everything else (which searches are sent, NetBIOS names, counts, errors) is drift.
"""
import os, json, shutil
from lib import vlib


def _text(s):
    return [ord(ch) for ch in s]


def _attr(n, *vals):
    return {"n": _text(n), "v": [_text(v) if isinstance(v, str) else list(v) for v in vals]}


def _doctored():
    """A two-entry directory and three calls whose expectations are wrong on purpose: a wrong SID text for the entry the
    directory returns (a C16 clause), a wrong NetBIOS name and a wrong search (drift)."""
    dn = "DC=g07,DC=test"
    sid = [1, 4, 0, 0, 0, 0, 0, 5, 21, 0, 0, 0, 1, 0, 0, 0, 2, 0, 0, 0, 3, 0, 0, 0]
    adm = [1, 2, 0, 0, 0, 0, 0, 5, 32, 0, 0, 0, 32, 2, 0, 0]
    did = {"sidp": 0, "ndom": 1, "bi": "root", "nb": "same", "gc": True, "cap": 0, "dnc": 1}
    d = {"k": "dir", "id": did, "gc": True, "cap": 0,
         "root": [_attr("defaultNamingContext", dn), _attr("namingContexts", dn)],
         "entries": [
             {"dn": _text(dn), "attrs": [_attr("objectClass", "top", "domain", "domainDNS"), _attr("distinguishedName", dn),
                                         _attr("objectSid", sid), _attr("dc", "g07")],
              "sidtxt": _text("S-1-5-21-1-2-4"), "dom": _text("g07.test")},            # doctored: the last sub-authority is 3
             {"dn": _text("CN=Administrators,CN=Builtin," + dn),
              "attrs": [_attr("objectClass", "top", "group"), _attr("distinguishedName", "CN=Administrators,CN=Builtin," + dn), _attr("objectSid", adm)],
              "sidtxt": _text("S-1-5-32-545"), "dom": _text("g07.test")}]}            # doctored: the RID is 544
    domq = {"base": _text(dn), "scope": 2, "f": {"op": "eq", "attr": _text("objectClass"), "val": _text("domain")}}
    calls = [
        {"k": "call", "dir": did, "m": "findsid", "a": {"name": _text("g07.test"), "rid": 544, "branch": "builtin"},
         "want": {"err": False, "sid": _text("S-1-5-32-545")}, "q": [domq], "qopen": True},
        {"k": "call", "dir": did, "m": "getdomain", "a": {"name": _text("g07.test")},
         "want": {"err": False, "dom": {"dn": _text(dn), "nb": _text("G07"), "dns": _text("G07.TEST"), "sid": _text("S-1-5-21-1-2-4")}},
         "q": [domq], "qopen": True},
        {"k": "call", "dir": did, "m": "lookupsid", "a": {"sid": _text("S-1-5-32-544")}, "want": {"err": False, "name": _text("Admins")},
         "q": [{"base": _text(dn), "scope": 1, "f": {"op": "eq", "attr": _text("objectSid"), "val": _text("S-1-5-32-544")}, "attrs": [_text("name")]}],
         "qopen": False}]
    return [d] + calls


def run_growth(chk, tier, seed):
    d = vlib.scratch("g07-")
    try:
        vlib.replay_cases(chk, "G07Cases", vlib.cfg("G07_cases_%s.cfg" % tier, SEED=seed % 60000), "g07.ldapsession", "growth_ldapsession")
        if tier == "thorough":
            # the binding is live: doctored expectations must come back as mismatches -- the SID texts as violations of the C16
            # clause, the search and the name as drift; their results are not ingested
            one, res = os.path.join(d, "doctored.ndjson"), os.path.join(d, "doctored.res")
            with open(one, "w") as fh:
                for rec in _doctored():
                    fh.write(json.dumps(rec) + "\n")
            vlib.run_harness("g07.ldapsession", one, res, {})
            got = set()
            for ln in open(res):
                o = json.loads(ln)
                if o.get("ok") is False:
                    got.add((o.get("site"), o.get("aspect"), bool(o.get("drift"))))
            want = {("ldap.Session.FindObjectSIDByRID", "sid-text:builtin", False), ("ldap.Session.GetDomain", "domain:sid-text", False),
                    ("ldap.Session.LookupSID", "result", True), ("ldap.Session.LookupSID", "searches:scope", True)}
            chk.part("growth_ldapsession_guards", doctored_expectations_flagged=sorted("%s/%s" % (s, a) for s, a, _ in got & want))
            if not want <= got:
                raise vlib.Infra("G07 binding demonstration failed: doctored expectations not flagged for %s" % sorted(want - got))
    finally:
        shutil.rmtree(d, ignore_errors=True)
