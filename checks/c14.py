"""C14 - key-credential blobs round-trip and their integrity hash detects tampering.

Specification: KeyCredentialLink.tla (MS-ADTS 2.2.20: blob, entries, KeyID/KeyHash rules, covered range, CUSTOM_KEY_INFORMATION),
RSAKeyBlob.tla (BCRYPT_RSAKEY_BLOB), DNBinary.tla (B:<count>:<hex>:<dn>), KeyCredObject.tla (MarshalHistory state machine with the
RawBytes cache), Prim256.tla (SHA-256 as a harness-evaluated Prim: the spec computes WHAT is hashed).

model -> code : (a) credential table (moduli x exponents x primes x versions; GUIDs/ticks vary) with every blob the spec admits
                    per credential -> build/serialise/identify/parse back/compare fields/re-serialise/integrity;
                (b) EVERY single-bit flip of the covered range of the selected blobs -> must not be accepted;
                (c) ALL histories of calls on one object up to a length -> each result compared;
                (d) CUSTOM_KEY_INFORMATION values of every size; DN-with-binary strings over all short hostile DNs.
code -> model : random full-range credentials, tamperings and DN-with-binary values recorded from the code; TLC (TraceC14.tla)
                decodes every blob and judges each line.
"""
import os, json, shutil
from lib import vlib

RULE = ("cred/cki/dnb: one case per enumerated credential / value / (DN, binary) pair, distinct by content; flips: one case per "
        "(blob, byte offset, bit) of the covered range; histories: one case per call sequence; trace: one case per recorded credential or DN")
TRUSTED = ["TLC", "crypto/sha256 (Prim term evaluated by the harness; taken as collision-free on the explored messages)"]

KC = "keycredentiallink.KeyCredential"
RSA = "crypto.RSAKeyMaterial"
CKI = "key.CustomKeyInformation"
DNB = "keycredentiallink.DNWithBinary"


def prim_table(chk, d, name, module, cfg_text, extra=None):
    """Phase 1 of Prim256: run <module> with PrimPhase = TRUE, let the harness hash every requested message."""
    req, out, res = [os.path.join(d, name + x) for x in (".req", ".prim.json", ".primres")]
    r = vlib.run_tlc(module, cfg_text, emit_to=req, extra_files=extra or {}, timeout=1500)
    chk.add_tlc(name + "_prim_requests", r)
    vlib.run_harness("c14.prim", req, res, {"out": out})
    summ = None
    for ln in open(res):
        o = json.loads(ln)
        summ = o.get("summary", summ)
    chk.part(name + "_prim_requests", sha256_messages=summ["prim_distinct"])
    os.remove(req)
    return out


def run(chk, replay=None):
    tier, seed = chk.tier, chk.seed % 60000
    quick = tier == "quick"
    d = vlib.scratch("c14-")
    try:
        base = dict(SEED=seed, MODSIZES="{64,128,256}" if quick else "{1,3,64,128,255,256,257,512}", FLIPLEVEL=1 if quick else 2,
                    DNLEN=3 if quick else 4, OWNEW="four", OWNCKI="short", OWNMAGIC="std")
        # ---- (a)+(d) case tables
        prim = prim_table(chk, d, "cases", "C14Cases", vlib.cfg("C14_cases.cfg", KINDS='{"cred"}', PRIMPHASE="TRUE", **base))
        summ = vlib.replay_cases(chk, "C14Cases", vlib.cfg("C14_cases.cfg", KINDS='{"cred","cki","dnb"}', PRIMPHASE="FALSE", **base),
                                 "c14.cases", "cases_replay", timeout=1500, tlc_kw={"extra_files": {"prim.json": prim}})
        # the encoder's choices (which of the admitted blobs the code writes) parameterise the later runs
        own = summ.get("own_encodings") or {}
        votes = {"ew": {}, "cki": {}, "magic": {}}
        for k, n in own.items():
            ew, cki, magic = k.split("/")
            for dim, v in (("ew", ew), ("cki", cki), ("magic", magic)):
                votes[dim][v] = votes[dim].get(v, 0) + n
        pick = lambda dim, default, prefer: (max(sorted(votes[dim]), key=lambda v: (votes[dim][v], v == prefer)) if votes[dim] else default)
        # "four" also matches 4-byte exponents under a minimal-width encoder and "std" matches public keys under either magic rule:
        # the distinguishing values win whenever they were seen at all
        ownew = "min" if votes["ew"].get("min") else pick("ew", "four", "four")
        owncki = pick("cki", "short", "short")
        ownmagic = "rsa1" if votes["magic"].get("rsa1") else "std"
        chk.part("cases_replay", encoder_choices={"exponent_width": ownew, "custom_key_information": owncki, "magic": ownmagic})
        base.update(OWNEW=ownew, OWNCKI=owncki, OWNMAGIC=ownmagic)

        # ---- (b) every single-bit flip of the covered range
        fs = vlib.replay_cases(chk, "C14Cases", vlib.cfg("C14_cases.cfg", KINDS='{"flip"}', PRIMPHASE="FALSE", **base),
                               "c14.flips", "bit_flips", timeout=1800, tlc_kw={"extra_files": {"prim.json": prim}})
        if not fs.get("blobs_written_by_the_code"):
            chk.notes.append("no selected blob is byte-identical to what the code writes: flips were judged as drift")
        chk.cov["exhaustive"] = True

        # ---- (c) MarshalHistory: all histories up to a length
        hbase = dict(SEED=seed, MAXHIST=4 if quick else 5, SETUSAGE="TRUE", OWNEW=ownew, OWNCKI=owncki, EXTRA="")
        hprim = prim_table(chk, d, "hist", "KeyCredObject", vlib.cfg("C14_hist.cfg", PRIMPHASE="TRUE", **hbase))
        vlib.replay_cases(chk, "KeyCredObject", vlib.cfg("C14_hist.cfg", PRIMPHASE="FALSE", **hbase), "c14.hist", "histories",
                          timeout=1500, tlc_kw={"extra_files": {"prim.json": hprim}})

        # ---- code -> model: recorded random executions judged by TLC
        trace, res = os.path.join(d, "trace.ndjson"), os.path.join(d, "rec.res")
        vlib.run_harness("c14.record", None, res, {"trace": trace, "creds": 60 if quick else 600, "dnbs": 100 if quick else 1000,
                                                   "seed": chk.seed})
        chk.ingest_results(res, part="record")
        tprim = prim_table(chk, d, "trace", "TraceC14", vlib.cfg("C14_trace.cfg", PRIMPHASE="TRUE"), extra={"trace.ndjson": trace})
        r = vlib.run_tlc("TraceC14", vlib.cfg("C14_trace.cfg", PRIMPHASE="FALSE"),
                         extra_files={"trace.ndjson": trace, "prim.json": tprim}, timeout=1500)
        chk.add_tlc("trace_judged", r)
        evs = [json.loads(x) for x in open(trace)]
        for v in r.emitted:
            report(chk, v, evs[v["i"] - 1])
        chk.part("trace_judged", trace_events=len(evs), deviating_lines=len(r.emitted))
        chk.sample({"recorded_event": {k: (v if k not in ("out", "in", "re") else bytes(v).hex()) for k, v in evs[1].items() if k != "f"}})

        # ---- vacuity guards / binding demonstrations (thorough)
        if not quick:
            guards = {}
            g = dict(hbase, MAXHIST=3, EXTRA="INVARIANT CacheCoherent")
            g1 = vlib.run_tlc("KeyCredObject", vlib.cfg("C14_hist.cfg", PRIMPHASE="FALSE", **g), extra_files={"prim.json": hprim},
                              allow_violation=True, timeout=600)
            if g1.violation != "CacheCoherent":
                raise vlib.Infra("vacuity guard: assigning a field does not break CacheCoherent in KeyCredObject (got %r)" % g1.violation)
            g2 = vlib.run_tlc("KeyCredObject", vlib.cfg("C14_hist.cfg", PRIMPHASE="FALSE", **dict(g, SETUSAGE="FALSE")),
                              extra_files={"prim.json": hprim}, timeout=600)
            chk.add_tlc("guard_cache_coherent_without_assignment", g2)
            guards["field_assignment_yields_CacheCoherent_counterexample"] = True
            # a corrupted recorded line (one KeyHash byte of a serialised blob) must be reported by the judge
            lines = open(trace).readlines()
            k = next(i for i, ln in enumerate(lines) if '"op":"ser"' in ln)
            o = json.loads(lines[k]); o["out"][50] ^= 1
            bad = os.path.join(d, "bad.ndjson")
            open(bad, "w").writelines(lines[:k] + [json.dumps(o) + "\n"] + lines[k + 1:])
            rb = vlib.run_tlc("TraceC14", vlib.cfg("C14_trace.cfg", PRIMPHASE="FALSE"),
                              extra_files={"trace.ndjson": bad, "prim.json": tprim}, timeout=1500)
            if not any(v["i"] == k + 1 and v["why"].startswith("KeyHash") for v in rb.emitted):
                raise vlib.Infra("binding demonstration failed: a corrupted KeyHash in a recorded blob was not reported by TraceC14 (line %d: %r)"
                                 % (k + 1, [v for v in rb.emitted if v["i"] == k + 1]))
            guards["corrupted_trace_line_reported"] = True
            chk.part("vacuity_guards", **guards)
        chk.assumptions += ["SHA-256 is crypto/sha256 evaluated by the harness on byte ranges chosen by the specification; taken as injective on the explored messages (a flipped covered range hashes differently)",
                            "a panic or error while parsing or checking a tampered blob counts as 'not accepted' (totality is C07)",
                            "credentials are built as NewKeyCredential builds them (usage NGC, source AD); other usages/sources, foreign encodings, CustomKeyInformation values and field assignment after construction are judged as drift",
                            "histories: alphabet of 10 calls on one object, two credentials with 16-byte moduli"]
        # ---- the same entry points called by 8 goroutines at once (race-detector build): results as when called alone
        vlib.parallel_callers(chk, "keycred")
    finally:
        shutil.rmtree(d, ignore_errors=True)


def report(chk, v, e):
    op, why, extra = v["op"], v["why"], v.get("extra") or ""
    drift = False
    if op == "ser":
        smp = {"inputs": {k: x for k, x in e["f"].items() if k != "key"}, "modulus_bytes": len(e["f"]["key"]["mod"]), "blob_hex": bytes(e["out"]).hex()}
        if why == "CustomKeyInformation:not-a-representation":
            site, aspect = CKI + ".ToBytes", "layout:fresh-value-lacks-flags"
        elif why.startswith("D:"):
            site, aspect, drift = RSA + ".ToBytes", "layout:" + why[2:], True
        else:
            site, aspect = KC + ".ToBytes", "trace:" + why
    elif op == "par":
        smp = {"blob_hex": bytes(e["in"]).hex(), "reserialised_hex": bytes(e["re"]).hex(), "check_integrity": e["ok"]}
        if why.startswith("reserialise"):
            site, aspect = KC + ".ToBytes", why
        elif why == "integrity":
            site, aspect = KC + ".CheckIntegrity", "own-blob-rejected"
        else:
            site, aspect = KC + ".FromBytes", why
    elif op == "tam":
        smp = {"blob_hex": bytes(e["in"]).hex(), "flipped_offset_bit_pairs": e["flips"]}
        site, aspect = KC + ".CheckIntegrity", "tamper-accepted:" + extra
    else:
        dn = bytes(e["dn"]).decode("utf-8", "replace")
        smp = {"dn": dn, "string": bytes(e["str"]).decode("utf-8", "replace"), "parse_error": e["err"]}
        cls = ":" + extra if extra else ""
        site, aspect = (DNB + ".ToString", "form" + cls) if why == "form" else (DNB + ".Parse", "roundtrip" + cls)
    chk.fail(site, aspect, "recorded call #%d (%s): %s" % (v["i"], op, why), smp, drift=drift)


MANIFEST = {
    "technique": "TLA+ specification of the msDS-KeyCredentialLink blob (MS-ADTS 2.2.20), BCRYPT_RSAKEY_BLOB and the DN-Binary string form; TLC-enumerated credential table, exhaustive single-bit corruption of the KeyHash-covered range, all call histories of the MarshalHistory state machine replayed into the real code; recorded random executions decoded and judged by TLC; SHA-256 as a harness-evaluated primitive on spec-computed byte ranges",
    "level_text": "The specification writes the blob layout from the standard and computes the byte range the KeyHash covers. TLC enumerates credentials over moduli (64/128/256 bytes, high bit set/clear; 1..512 in thorough) x exponents (3, 65537, 4-byte) x primes x three versions with boundary GUIDs/ticks, admits per credential every legal encoding plus named deviations so that the blob the code writes is identified, and then every field, the re-serialisation and the integrity check are compared; for 6 (quick) / ~128 (thorough) blobs every single-bit flip of the covered range is executed on FromBytes+CheckIntegrity; all histories of up to 4/5 calls on one object (New, ToBytes, FromBytes, CheckIntegrity, ComputeKeyHash, field assignment) are replayed; DN-with-binary strings over all DNs up to length 3/4 of a hostile alphabet. Random full-range executions recorded from the code are decoded and judged by TLC with the same modules.",
    "level_note": "SHA-256 itself is trusted (crypto/sha256) and assumed injective on the explored messages; values between the enumerated boundary patterns are sampled by the recorder, not enumerated; CustomKeyInformation values and foreign encodings are drift, not verdicts.",
}
