"""C01 - password-hash primitives equal their reference algorithms; streaming MD4 is chunking-independent and Sum is pure."""
import os, json, shutil
from lib import vlib

RULE = ("stream: every transition of the chunking graph (offset p, write length k) of an N-byte message is one case, distinct by "
        "(p mod 64, k); cases: each enumerated input (message / password / user / rounds) is one case, distinct by content")
TRUSTED = ["TLC", "crypto/des, crypto/hmac, crypto/sha1 (Prim terms evaluated by the harness)"]


def cfg(name, **sub):
    s = open(os.path.join(vlib.SPEC, "cfg", name)).read()
    for k, v in sub.items():
        s = s.replace("@%s@" % k, str(v))
    return s


def chunkset(n):
    return "{" + ",".join(str(i) for i in range(0, n + 1)) + "}"


def run(chk, replay=None):
    tier, seed = chk.tier, chk.seed % 60000
    d = vlib.scratch("c01-")
    try:
        # ---- chunking graph (complete)
        N = 192 if tier == "quick" else 320
        edges = os.path.join(d, "edges.ndjson")
        c = cfg("C01_stream_quick.cfg", SEED=seed, ALLCHUNKS=chunkset(N)).replace("N = 192", "N = %d" % N)
        r = vlib.run_tlc("HashStreamMD4", c, emit_to=edges, timeout=1800)
        chk.add_tlc("stream_graph", r)
        res = os.path.join(d, "stream.res")
        vlib.run_harness("c01.stream", edges, res)
        chk.ingest_results(res, part="stream_replay")
        chk.cov["exhaustive"] = True
        # ---- one-shot case table
        cases = os.path.join(d, "cases.ndjson")
        r = vlib.run_tlc("C01Cases", cfg("C01_cases_%s.cfg" % tier, SEED=seed), emit_to=cases, timeout=1800)
        chk.add_tlc("cases", r)
        res = os.path.join(d, "cases.res")
        vlib.run_harness("c01.cases", cases, res)
        chk.ingest_results(res, part="cases_replay")
        # ---- recorded programs -> trace validation
        trace, res = os.path.join(d, "trace.ndjson"), os.path.join(d, "rec.res")
        vlib.run_harness("c01.record", None, res, {"trace": trace, "traces": 40 if tier == "quick" else 400,
                                                    "maxbytes": 400 if tier == "quick" else 1500, "seed": chk.seed,
                                                    "longmax": 0 if tier == "quick" else 1})
        chk.ingest_results(res, part="record")
        vlib.validate_trace(chk, "TraceMD4", cfg("C01_trace.cfg"), trace, "trace_validation",
                            lambda e: "md4.MD4." + {"sum": "Sum", "write": "Write", "ext": "Sum:long-message"}.get(e.get("op"), "?"),
                            aspect="trace-rejected")
        # ---- concrete mirror + vacuity guard (thorough)
        if tier == "thorough":
            small = "{0,1,2,3,7,8,55,56,57,63,64,65,119,120,127,128,129}"
            base = cfg("C01_stream_quick.cfg", SEED=seed, ALLCHUNKS=small).replace("N = 192", "N = 130") \
                .replace("Concrete = FALSE", "Concrete = TRUE").replace("EmitEdges = TRUE", "EmitEdges = FALSE") \
                .replace("CHECK_DEADLOCK FALSE", "INVARIANT Refines\nCHECK_DEADLOCK FALSE")
            g = vlib.run_tlc("HashStreamMD4", base, timeout=900, workers=4)
            chk.add_tlc("concrete_mirror_refines", g)
            g2 = vlib.run_tlc("HashStreamMD4", base.replace("SumInPlace = FALSE", "SumInPlace = TRUE"), timeout=900,
                              allow_violation=True)
            if not g2.violation:
                raise vlib.Infra("vacuity guard: SumInPlace deviation not detected by Refines")
            lines = open(trace).readlines()
            k = max(i for i, ln in enumerate(lines) if '"op":"sum"' in ln)
            o = json.loads(lines[k]); o["d"][3] ^= 1
            bad = os.path.join(d, "bad.ndjson")
            open(bad, "w").writelines(lines[:k] + [json.dumps(o) + "\n"] + lines[k + 1:])
            rb = vlib.run_tlc("TraceMD4", cfg("C01_trace.cfg"), extra_files={"trace.ndjson": bad}, allow_violation=True)
            if rb.ok:
                raise vlib.Infra("binding demonstration failed: corrupted MD4 trace accepted")
            chk.part("vacuity_guards", SumInPlace_yields_counterexample=g2.violation, corrupted_trace_rejected=True)
        chk.assumptions += ["DES, HMAC-SHA1 are the Go standard library's (trusted Prim terms); MD4, UTF-16LE, case mapping, key spreading are the specification's own",
                            "case mapping checked on ASCII and a table of 1:1 pairs only",
                            "LM on 7-bit ASCII passwords, as the property states"]
        # ---- ValueSemantics.tla: "for every input" = in any history; results are values (the design-level statement behind the
        # history layers of the harness: Retain, ReusedInput/arena pass, overwritten inputs, reverse-order pass, reused receivers)
        vs = dict(POOLED="FALSE", ALIAS="FALSE", CACHE="FALSE", KEEP="FALSE", SHARED="FALSE", RECYCLE="FALSE", FORK="FALSE")
        bound = dict(MAXALLOC=2 if chk.tier == "quick" else 3)
        chk.add_tlc("value_semantics", vlib.run_tlc("ValueSemantics", vlib.cfg("VS_values.cfg", **vs, **bound), timeout=600))
        if chk.tier == "thorough":
            refuted = {}
            for dev in vs:
                g = vlib.run_tlc("ValueSemantics", vlib.cfg("VS_values.cfg", **dict(vs, **{dev: "TRUE"}), **bound), allow_violation=True, timeout=300)
                refuted[dev] = g.violation
                if g.violation != "Inv":
                    raise vlib.Infra("vacuity guard: ValueSemantics deviation %s not refuted" % dev)
            chk.part("value_semantics_deviations_refuted", **refuted)
        # ---- the same entry points called by 8 goroutines at once (race-detector build): results as when called alone
        vlib.parallel_callers(chk, "md4,hash")
    finally:
        shutil.rmtree(d, ignore_errors=True)


MANIFEST = {
    "technique": "TLA+ reference (MD4/UTF-16LE/key spreading written from the RFC/MS-NLMP text) evaluated by TLC; complete chunking state graph and enumerated case table replayed into the real code; TLC trace validation of recorded streaming programs",
    "level_text": "The specification is the independent reference: TLC enumerates every (buffer offset, write length) edge of the streaming state machine for a 192/320-byte message and each edge is run on the real md4.MD4 in three Write/Sum interleavings; one-shot MD4/NT/LM/DCC/DCC2 cases over a structured input space are computed by the spec and compared in every output form; random streaming programs recorded from the code are validated by TLC, which recomputes every digest.",
    "level_note": "DES and PBKDF2-HMAC-SHA1 are evaluated by the harness from the Go standard library (harness has its own PBKDF2); inputs outside the enumerated/sampled sets are not covered.",
}
