"""C12 - RC4, CMAC, PKCS#7 and GPP-AES match their standards and invert each other.

model -> code : RC4Stream.tla / CMACStream.tla: TLC generates every edge of the chunking (and Sum/Reset) graphs with the
                output / tag the specification computes (RC4 and CMAC written in TLA+ from RFC 6229 / SP 800-38B; CMAC
                over a toy block cipher defined in the spec and implemented by the harness as a cipher.Block);
                C12Cases.tla: all 256 RC4 key lengths, RFC 4493, the PKCS#7 grid, exhaustive unpad buffers, GPP.
code -> model : random RC4 programs (full-range keys/data) and random CMAC programs over REAL AES/DES/3DES with every
                cipher application logged; TLC recomputes outputs and tags (TraceRC4.tla, TraceCMAC.tla).
"""
import os, json, shutil
from lib import vlib

RULE = ("graphs: every transition TLC generates (RC4: key x stream position x call length; CMAC: cipher config x offset x write "
        "length, plus Sum and Reset edges) is one case, distinct by (key/config, offset[ mod block], length), zero-length calls "
        "trivial; cases: each enumerated key / (block size, message) / buffer / password is one case, distinct by content; "
        "traces: one case per recorded program")
TRUSTED = ["TLC", "crypto/aes, crypto/des, crypto/cipher CBC, encoding/base64 (Prim terms evaluated by the harness)"]


def chunks_rc4(tier):
    base = list(range(0, 41)) + [255, 256, 257]
    if tier == "thorough":
        base = list(range(0, 65)) + [127, 128, 129, 255, 256, 257, 511, 512, 513]
    return vlib.intset(base)


def run(chk, replay=None):
    tier, seed = chk.tier, chk.seed % 60000
    quick = tier == "quick"
    d = vlib.scratch("c12-")
    try:
        # ---- RC4: complete chunking graph
        n, nk = (300, 2) if quick else (600, 3)
        g = vlib.cfg("C12_rc4graph.cfg", N=n, SEED=seed, NKEYS=nk, CHUNKS=chunks_rc4(tier))
        vlib.replay_cases(chk, "RC4Stream", g, "c12.rc4graph", "rc4_graph_replay")
        # ---- CMAC over the toy cipher: complete Write/Sum/Reset graph, both block sizes
        n = 50 if quick else 100
        g = vlib.cfg("C12_cmacgraph.cfg", N=n, SEED=seed, CHUNKS=vlib.intset(range(0, n + 1)))
        vlib.replay_cases(chk, "CMACStream", g, "c12.cmacgraph", "cmac_graph_replay")
        chk.cov["exhaustive"] = True
        # ---- one-shot case table
        g = vlib.cfg("C12_cases_%s.cfg" % tier, SEED=seed, ALLLENS=vlib.intset(range(1, 257)))
        vlib.replay_cases(chk, "C12Cases", g, "c12.cases", "cases_replay", opts={"revpass": 1, "arena": 1})
        # ---- recorded programs -> trace validation
        trace, res = os.path.join(d, "rc4.ndjson"), os.path.join(d, "rc4.res")
        vlib.run_harness("c12.rc4record", None, res, {"trace": trace, "traces": 40 if quick else 400,
                                                       "maxbytes": 300 if quick else 700, "seed": chk.seed})
        chk.ingest_results(res, part="rc4_record")
        vlib.validate_trace(chk, "TraceRC4", vlib.cfg("C12_rc4trace.cfg"), trace, "rc4_trace_validation",
                            lambda e: "rc4.RC4.XORKeyStream" if e.get("op") == "xor" else "rc4.NewRC4WithKey")
        ctrace, res = os.path.join(d, "cmac.ndjson"), os.path.join(d, "cmac.res")
        vlib.run_harness("c12.cmacrecord", None, res, {"trace": ctrace, "traces": 60 if quick else 600,
                                                        "maxbytes": 200 if quick else 400, "seed": chk.seed})
        chk.ingest_results(res, part="cmac_record")
        vlib.validate_trace(chk, "TraceCMAC", vlib.cfg("C12_cmactrace.cfg"), ctrace, "cmac_trace_validation",
                            lambda e: "cmac.cmac." + {"sum": "Sum", "write": "Write", "hreset": "Reset", "new": "New"}.get(e.get("op"), "?"))
        chk.sample({"recorded_cmac_event": json.loads(open(ctrace).readlines()[1])})
        # ---- concrete mirrors + vacuity guards (thorough)
        if not quick:
            guards = {}
            small = vlib.intset([0, 1, 2, 3, 7, 8, 9, 15, 16, 17, 31, 32, 33])
            base = vlib.cfg("C12_cmacgraph.cfg", N=40, SEED=seed, CHUNKS=small) \
                .replace("Concrete = FALSE", "Concrete = TRUE").replace("EmitEdges = TRUE", "EmitEdges = FALSE") \
                .replace("CHECK_DEADLOCK FALSE", "INVARIANT Refines\nCHECK_DEADLOCK FALSE")
            r = vlib.run_tlc("CMACStream", base, timeout=900, workers=4)
            chk.add_tlc("cmac_concrete_mirror_refines", r)
            for dev in ("swapk", "eager", "resetkeepspos"):
                r = vlib.run_tlc("CMACStream", base.replace('Deviation = "none"', 'Deviation = "%s"' % dev), timeout=900,
                                 allow_violation=True)
                guards["cmac_deviation_%s_yields_counterexample" % dev] = r.violation
                if not r.violation:
                    raise vlib.Infra("vacuity guard: CMAC deviation %s not detected by Refines" % dev)
            rbase = vlib.cfg("C12_rc4graph.cfg", N=40, SEED=seed, NKEYS=2, CHUNKS=vlib.intset([0, 1, 2, 3, 5, 8, 13])) \
                .replace("Concrete = FALSE", "Concrete = TRUE").replace("EmitEdges = TRUE", "EmitEdges = FALSE") \
                .replace("CHECK_DEADLOCK FALSE", "INVARIANT Refines\nCHECK_DEADLOCK FALSE")
            r = vlib.run_tlc("RC4Stream", rbase, timeout=900, workers=4)
            chk.add_tlc("rc4_concrete_mirror_refines", r)
            r = vlib.run_tlc("RC4Stream", rbase.replace("DropIJ = FALSE", "DropIJ = TRUE"), timeout=900, allow_violation=True)
            guards["rc4_deviation_DropIJ_yields_counterexample"] = r.violation
            if not r.violation:
                raise vlib.Infra("vacuity guard: RC4 deviation DropIJ not detected by Refines")
            # corrupted traces must be rejected
            for name, path, module, cfgname, key in (("rc4", trace, "TraceRC4", "C12_rc4trace.cfg", "dst"),
                                                     ("cmac", ctrace, "TraceCMAC", "C12_cmactrace.cfg", "out")):
                lines = open(path).readlines()
                k = max(i for i, ln in enumerate(lines) if '"%s":[' % key in ln and '"%s":[]' % key not in ln)
                o = json.loads(lines[k]); o[key][-1] ^= 1
                bad = os.path.join(d, "bad.ndjson")
                open(bad, "w").writelines(lines[:k] + [json.dumps(o) + "\n"] + lines[k + 1:])
                rb = vlib.run_tlc(module, vlib.cfg(cfgname), extra_files={"trace.ndjson": bad}, allow_violation=True)
                if rb.ok:
                    raise vlib.Infra("binding demonstration failed: corrupted %s trace accepted" % name)
                guards["corrupted_%s_trace_rejected" % name] = True
            # a CMAC trace in which one cipher application is missing from the log must be rejected
            lines = open(ctrace).readlines()
            k = next(i for i, ln in enumerate(lines) if '"op":"write"' in ln and '"enc":[[' in ln)
            o = json.loads(lines[k]); o["enc"] = o["enc"][1:]
            bad = os.path.join(d, "bad2.ndjson")
            open(bad, "w").writelines(lines[:k] + [json.dumps(o) + "\n"] + lines[k + 1:])
            rb = vlib.run_tlc("TraceCMAC", vlib.cfg("C12_cmactrace.cfg"), extra_files={"trace.ndjson": bad}, allow_violation=True)
            if rb.ok:
                raise vlib.Infra("binding demonstration failed: CMAC trace with a missing cipher application accepted")
            guards["cmac_trace_missing_cipher_application_rejected"] = True
            chk.part("vacuity_guards", **guards)
        chk.assumptions += [
            "AES/DES (real-cipher CMAC traces, GPP) and Base64 are the Go standard library's (trusted Prim terms); RC4, CMAC, "
            "the toy block cipher, PKCS#7, UTF-16LE are the specification's own",
            "CMAC is a mode of operation: binding cmac.New to the specification's toy cipher (b = 8 and 16) covers the mode for any E",
            "RC4 key contents are patterned per length (all 256 lengths) plus special keys; chunk sizes from the configured set",
            "PKCS#7 validity for buffers longer than 255 bytes is the structural rule (Unpad takes no block size)",
            "GPP passwords: well-formed Unicode strings (scalar values) over a 14-code-point alphabet incl. U+0000, BMP edge, astral plane",
        ]
        # ---- the same entry points called by 8 goroutines at once (race-detector build): results as when called alone
        vlib.parallel_callers(chk, "crypto")
    finally:
        shutil.rmtree(d, ignore_errors=True)


MANIFEST = {
    "technique": "TLA+ references for RC4 (RFC 6229 vectors as ASSUME), CMAC (SP 800-38B / RFC 4493, higher-order in the block cipher), PKCS#7 (RFC 5652) and GPP evaluated by TLC; complete chunking/Sum/Reset state graphs and enumerated case tables replayed into the real code; TLC trace validation of recorded RC4 programs and of CMAC programs over real AES/DES with logged cipher applications",
    "level_text": "The specification is the independent reference: TLC enumerates every (stream position, call length) edge of the RC4 stream for 2/3 keys and every (offset, write length), Sum and Reset edge of the CMAC object for ten toy-cipher configurations (block sizes 8 and 16, all subkey-derivation branches), each executed on the real object in three histories; all 256 RC4 key lengths, the PKCS#7 grid (block sizes 1..255) and every short buffer over a 6-symbol alphabet (exact accept/reject) are computed by the spec and compared; random programs recorded from the code are validated by TLC, which recomputes every RC4 output byte and every CMAC tag from the logged applications of the real cipher.",
    "level_note": "AES/DES/Base64 are evaluated by the harness from the Go standard library; RC4 key contents and message contents are patterned or sampled, not exhaustive; RC4.Reset semantics, block size 0, key sizes outside 1..256, aliasing and base64 without '=' are drift (D), not verdicts.",
}
