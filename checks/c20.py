"""C20 - address, port-range and hash-credential parsers match standard semantics.

model -> code : TLC enumerates the structured input space of spec/C20Cases.tla (every octet value in every position x prefix
                lengths, ALL prefix lengths x boundary probes for network address and membership, range boundaries, IPv6 groups
                at digit-length boundaries, port pairs, hash forms x white-space pads x letter case) with the result IPAddr.tla /
                HashSpec.tla compute; the driver runs each case on the real code.
code -> model : seeded random full-range calls are recorded and TLC (TraceC20.tla) recomputes every answer.
"""
import os, json, shutil, subprocess
from concurrent.futures import ThreadPoolExecutor
from lib import vlib

RULE = ("cases: one case per record TLC enumerates, distinct by its inputs; trace: one case per recorded call "
        "(print+parse+network, membership, range, hash specification) with seeded random inputs")
TRUSTED = ["TLC"]


def judge_trace(chk, trace, part):
    r = vlib.run_tlc("TraceC20", vlib.cfg("C20_trace.cfg"), extra_files={"trace.ndjson": trace}, timeout=1800)
    verdicts = [e for e in r.emitted if isinstance(e, dict) and e.get("op") == "verdict"]
    if part:
        evs = open(trace).read().splitlines()
        chk.add_tlc(part, r)
        chk.part(part, trace_events=len(evs), accepted=True, verdicts=len(verdicts),
                 verdicts_P=sum(1 for v in verdicts if v["p"]), verdicts_D=sum(1 for v in verdicts if not v["p"]))
        seen = {}
        for v in verdicts:
            key = (v["site"], v["aspect"])
            seen[key] = seen.get(key, 0) + 1
            if seen[key] > (5 if v["p"] else 1):
                continue
            e = json.loads(evs[v["i"] - 1])
            for f in ("text", "s", "lm", "nt"):
                if isinstance(e.get(f), list) and e["op"] in ("hash", "ip4", "ip6", "port"):
                    e[f] = "".join(chr(c) for c in e[f])
            chk.fail(v["site"], v["aspect"], "recorded call #%d is not what the specification computes: %s" % (v["i"], json.dumps(e)[:300]),
                     e, drift=not v["p"])
    return verdicts


def apalache_law(d, q, wrong=False):
    """One Apalache query: for prefix length q, membership by per-octet masks == integer arithmetic, for ALL address pairs.
    Returns "discharged" | "counterexample" | "timeout" | "error"."""
    wd = os.path.join(d, "ap%02d%s" % (q, "w" if wrong else ""))
    os.makedirs(wd)
    src = open(os.path.join(vlib.SPEC, "IPAddrLaw.tla")).read().replace("Q == 0", "Q == %d" % q)
    if wrong:
        src = src.replace("Law == InSubnetMask(Q)", "Law == InSubnetMask(Q + 1)")
    open(os.path.join(wd, "IPAddrLaw.tla"), "w").write(src)
    try:
        env = dict(os.environ, TMPDIR=wd)     # the launcher leaves a mktemp -d SANY* directory behind: keep it inside the scratch dir
        p = subprocess.run(["apalache-mc", "check", "--length=0", "--inv=Law", "--out-dir=" + os.path.join(wd, "out"), "IPAddrLaw.tla"],
                           cwd=wd, stdout=subprocess.PIPE, stderr=subprocess.STDOUT, text=True, timeout=300, env=env)
    except subprocess.TimeoutExpired:
        return "timeout"
    except OSError:
        return "error"
    if "EXITCODE: OK" in p.stdout:
        return "discharged"
    return "counterexample" if "EXITCODE: ERROR (12)" in p.stdout else "error"


def run(chk, replay=None):
    tier, seed = chk.tier, chk.seed % 60000
    d = vlib.scratch("c20-")
    # TLC (and Apalache) unpack their standard modules into java.io.tmpdir and leave them there: point it at the scratch directory
    jopt = os.environ.get("_JAVA_OPTIONS")
    os.environ["_JAVA_OPTIONS"] = ((jopt + " ") if jopt else "") + "-Djava.io.tmpdir=" + d
    try:
        # ---- enumerated cases (model -> code)
        c = vlib.cfg("C20_cases_%s.cfg" % tier, SEED=seed, OCTETS=vlib.intset(range(256)), PREFIXES=vlib.intset(range(33)))
        vlib.replay_cases(chk, "C20Cases", c, "c20.cases", "cases", opts={"revpass": 1, "arena": 1})
        chk.cov["exhaustive"] = True
        # ---- recorded random calls (code -> model)
        trace, res = os.path.join(d, "trace.ndjson"), os.path.join(d, "rec.res")
        vlib.run_harness("c20.record", None, res, {"trace": trace, "events": 4000 if tier == "quick" else 40000, "seed": chk.seed})
        chk.ingest_results(res, part="record")
        judge_trace(chk, trace, "trace_validation")
        # ---- the binding is live (thorough): doctored answers must be flagged
        if tier == "thorough":
            guards = {}
            lines = open(trace).read().splitlines()
            for op, field, aspect_part in (("ip4range", "r", "false-"), ("ip6range", "r", "false-"), ("port", "be", "roundtrip:wrong-value"),
                                           ("ip4", "net", "network-address")):
                k = next(i for i, ln in enumerate(lines) if '"op":"%s"' % op in ln and (op != "port" or '"ok":true' in ln))
                e = json.loads(lines[k])
                if field == "r":
                    e["r"] = not e["r"]
                elif field == "be":
                    e["be"] = (e["be"] + 1) % 65536
                else:
                    e["net"] = [(e["net"][0] + 128) % 256] + e["net"][1:]
                bad = os.path.join(d, "bad.ndjson")
                open(bad, "w").write("\n".join(lines[:k] + [json.dumps(e)] + lines[k + 1:]) + "\n")
                vs = judge_trace(chk, bad, None)
                hit = any(v["i"] == k + 1 and aspect_part in v["aspect"] for v in vs)
                guards["doctored_%s_answer_flagged" % op] = hit
                if not hit:
                    raise vlib.Infra("binding demonstration failed: doctored %s answer was not flagged by TraceC20" % op)
            # ---- Apalache: the specification's mask formulation == integer arithmetic over ALL 2^32 x 2^32 pairs, per prefix length
            with ThreadPoolExecutor(max_workers=max(2, min(8, vlib.NCPU // 2))) as ex:
                res = list(ex.map(lambda q: apalache_law(d, q), range(33)))
                wrong = apalache_law(d, 20, wrong=True)
            if "counterexample" in res:
                raise vlib.Infra("specification-level: Apalache refuted IPAddrLaw for prefix length(s) %s"
                                 % [q for q, x in enumerate(res) if x == "counterexample"])
            guards["apalache_refutes_off_by_one_mask"] = (wrong == "counterexample")
            chk.part("apalache_membership_law", obligations=33, discharged=res.count("discharged"), timeouts=res.count("timeout"),
                     errors=res.count("error"))
            if res.count("discharged") < 33:
                chk.assumptions.append("Apalache discharged only %d of 33 membership obligations (timeout/error downgrades the evidence, not the verdict)"
                                       % res.count("discharged"))
            chk.part("vacuity_guards", **guards)
        chk.assumptions += ["IPv4 text = RFC 4632 CIDR notation a.b.c.d/p with p in 0..32 (what IPv4.String prints); IPv6 text = RFC 4291 form 1 (no '::')",
                            "the IPv6 type carries no prefix length: its subnet test is specified as /128 membership",
                            "membership is a violation only for canonical subnets (host bits zero); non-canonical subnets, malformed texts, white space "
                            "around port numbers and acceptance of invalid hash forms are drift",
                            "hash halves are compared up to letter case; white space = TAB LF VT FF CR SPACE",
                            "addresses, ports and hash strings outside the enumerated structure are sampled (seeded), not exhausted"]
        # ---- the same entry points called by 8 goroutines at once (race-detector build): results as when called alone
        vlib.parallel_callers(chk, "ip")
    finally:
        if jopt is None:
            os.environ.pop("_JAVA_OPTIONS", None)
        else:
            os.environ["_JAVA_OPTIONS"] = jopt
        shutil.rmtree(d, ignore_errors=True)


MANIFEST = {
    "technique": "TLA+ reference for CIDR/IPv6/port-range text, subnet and range arithmetic and the LM:NT hash grammar (written from RFC 4632/4291 and the LMHASH:NTHASH convention) evaluated by TLC over a structured input space and replayed into the real parsers; TLC trace validation of recorded random calls",
    "level_text": "TLC enumerates every octet value in every position, all 33 prefix lengths with boundary probes (network, network+-1, broadcast, broadcast+-1, extremes, the bits on either side of the mask) in three roles, range boundaries, IPv6 groups at digit-length boundaries, port pairs (thorough: every port number in each position) and hash forms x 49 white-space paddings x 3 letter cases, and computes the expected result in the specification; each case is executed on the real code. Seeded random full-range calls are recorded and re-computed by TLC.",
    "level_note": "The real code is not exercised exhaustively over 2^32 x 33 or 2^128 (structured + seeded random); the specification's own mask formulation of membership is proved equal to integer arithmetic for all address pairs and every prefix length by Apalache (thorough tier, 33 obligations) and cross-checked on a sample grid by TLC (ASSUME).",
}
