"""G02 - specification growth (drift only): SMB1 information-level structures (MS-CIFS 2.2.8), the three readings of the
SecurityFeatures header field (MS-CIFS 2.2.3.1) and the small fixed-layout MS-DTYP structures, spec/InfoLevels.tla.

model -> code : TLC enumerates spec/G02Cases.tla (every structure of the layout table x zero / max / distinct-byte / one-field /
                seeded patterns x counted lengths, plus declaration shapes, the SecurityFeatures union and NextEntryOffset chains,
                each judged by the specification's own laws); the driver g02.infolevels fills the real struct by reflect, compares
                Marshal with the model's bytes field by field, unmarshals the model's bytes (with suffixes, and truncated) into a
                fresh struct and compares fields, consumed count and the re-encoding.
Every mismatch is DRIFT (never a violation): this is not one of the 20 listed properties.
"""
from lib import vlib


def run_growth(chk, tier, seed):
    return vlib.replay_cases(chk, "G02Cases", vlib.cfg("G02_cases_%s.cfg" % tier, SEED=seed % 60000), "g02.infolevels",
                             "growth_infolevels")
