"""C02 - NTLMv1/NTLMv2 responses verify under an independent MS-NLMP verifier.

model -> code : C02Cases.tla: parity expansion EXHAUSTIVELY per 7-bit group (DESKey.tla), the DESL key split and the NTLMv1
                NT/LM responses for structured hashes / passwords / challenges; the specification computes NTOWFv1 (its own
                MD4), every DES key and hands over the challenge; the harness evaluates DES (Prim) and compares every entry
                point (Hash, String, NTResponse, LMResponse, ntlm.CreateAuthenticateMessage without ESS).
code -> model : NTLMv2 embeds time.Now(): the harness records inputs and outputs of NewNTLMv2 / Hash / HashHex /
                ToHashcatString / CreateAuthenticateMessage(ESS); TLC (TraceNTLMv2.tla) is the verifier that knows the password:
                NTOWFv2 and the proof are recomputed with the specification's own MD4, MD5 and HMAC (RFC 1321 / 2104 / MS-NLMP
                4.2 known answers as ASSUME), the blob layout and the hashcat 5600 field rules are checked, one verdict per event.
"""
import os, json, shutil
from lib import vlib

RULE = ("cases: each enumerated (7-bit group, value, background) / (hash, challenge) / (password, challenge) is one case, distinct by "
        "content; traces: one case per recorded NTLMv2 scenario (user, domain, password), each contributing 4-5 judged events")
TRUSTED = ["TLC", "crypto/des (Prim term evaluated by the harness; every key and the challenge come from the specification)"]

SITE = {"key": "ntlmv2.NewNTLMv2", "line": "ntlmv2.NTLMv2.ToHashcatString", "auth": "ntlm.CreateAuthenticateMessage"}


def site_of(ev):
    if ev.get("op") == "resp":
        return "ntlmv2.NTLMv2." + ev.get("api", "Hash")
    return SITE.get(ev.get("op"), "ntlmv2.?")


def cps(xs):
    return "".join(chr(x) for x in xs)


def run(chk, replay=None):
    tier, seed = chk.tier, chk.seed % 60000
    quick = tier == "quick"
    d = vlib.scratch("c02-")
    try:
        # ---- NTLMv1: enumerated cases (parity expansion exhaustive per 7-bit group)
        vlib.replay_cases(chk, "C02Cases", vlib.cfg("C02_cases_%s.cfg" % tier, SEED=seed), "c02.cases", "ntlmv1_cases_replay", opts={"revpass": 1})
        chk.cov["exhaustive"] = True
        # ---- NTLMv2: recorded calls judged by the specification
        trace, res = os.path.join(d, "trace.ndjson"), os.path.join(d, "rec.res")
        vlib.run_harness("c02.record", None, res, {"trace": trace, "random": 40 if quick else 500, "seed": chk.seed})
        chk.ingest_results(res, part="ntlmv2_record")
        verdicts = os.path.join(d, "verdicts.ndjson")
        r = vlib.run_tlc("TraceNTLMv2", vlib.cfg("C02_trace.cfg"), extra_files={"trace.ndjson": trace}, emit_to=verdicts,
                         timeout=3000)
        chk.add_tlc("ntlmv2_trace_validation", r)
        evs = [json.loads(x) for x in open(trace)]
        vs = [json.loads(x) for x in open(verdicts)]
        if len(vs) != len(evs) or sorted(v["l"] for v in vs) != list(range(1, len(evs) + 1)):
            raise vlib.Infra("TraceNTLMv2 judged %d of %d recorded events" % (len(vs), len(evs)))
        nfail = 0
        drifts = {}
        for v in vs:
            ev = evs[v["l"] - 1]
            smp = {"user": cps(ev["user"]), "domain": cps(ev["dom"]), "password": cps(ev["pw"]), "server_challenge": bytes(ev["sc"]).hex(),
                   "api": ev.get("api")}
            if "line" in ev:
                smp["line"] = cps(ev["line"])
            for a in v["fails"]:
                nfail += 1
                chk.fail(site_of(ev), a, "event #%d (%s) does not verify: %s" % (v["l"], ev.get("api"), a), smp)
            for a in v["drifts"]:
                dr = drifts.setdefault((site_of(ev), a), [0, v["l"], smp])
                dr[0] += 1
        for (st, a), (n, first, smp) in sorted(drifts.items()):
            chk.fail(st, a, "%d recorded events (first: #%d)" % (n, first), smp, drift=True)
        chk.part("ntlmv2_trace_validation", trace_events=len(evs), P_assertions_failed=nfail)
        k = next(i for i, e in enumerate(evs) if e["op"] == "resp" and e["dom"])
        chk.sample({"recorded_event": {kk: (cps(vv) if kk in ("user", "dom", "pw") else vv) for kk, vv in evs[k].items()}, "verdict": vs_by(vs, k + 1)})
        # ---- binding demonstrations (thorough): a corrupted proof / challenge must be reported by the specification
        if not quick:
            guards = {}
            good = [i for i, e in enumerate(evs) if e["op"] == "resp" and not vs_by(vs, i + 1)["fails"]][:3]
            if not good:
                raise vlib.Infra("no accepted NTLMv2 response event to corrupt")
            bad = []
            for n, i in enumerate(good):
                e = json.loads(json.dumps(evs[i]))
                if n == 0:
                    e["resp"][3] ^= 1          # proof bit
                elif n == 1:
                    e["resp"][16 + 20] ^= 1    # client challenge inside the blob (also breaks the proof)
                else:
                    e["sc"][0] ^= 1            # verifier holds another server challenge
                bad.append(json.dumps(e))
            bp, bv = os.path.join(d, "bad.ndjson"), os.path.join(d, "bad.verdicts")
            open(bp, "w").write("\n".join(bad) + "\n")
            vlib.run_tlc("TraceNTLMv2", vlib.cfg("C02_trace.cfg"), extra_files={"trace.ndjson": bp}, emit_to=bv)
            got = [json.loads(x)["fails"] for x in open(bv)]
            if len(got) != len(bad) or not all(got):
                raise vlib.Infra("binding demonstration failed: corrupted NTLMv2 events accepted: %r" % got)
            guards["corrupted_events_rejected"] = got
            chk.part("vacuity_guards", **guards)
        chk.assumptions += [
            "DES is the Go standard library's (trusted Prim term); MD4, MD5, HMAC, UTF-16LE, case mapping, key expansion are the specification's own",
            "the harness's own 56->64 bit spreading (needed only for the second DES stage of the LM response) is used only after agreeing with "
            "DESKey!ParityExpand on all 2 048 exhaustive cases",
            "case mapping on ASCII and a table of 1:1 pairs (e-acute, a-umlaut, Cyrillic ZHE, Greek ALPHA); names never contain ':'",
            "LM responses for 7-bit ASCII passwords; OEM (non-Unicode) AUTHENTICATE messages not exercised",
            "for the AUTHENTICATE message the verifier uses user and domain found in the message, as a server would",
        ]
        # ---- the same entry points called by 8 goroutines at once (race-detector build): results as when called alone
        vlib.parallel_callers(chk, "ntlmv1")
    finally:
        shutil.rmtree(d, ignore_errors=True)


def vs_by(vs, l):
    for v in vs:
        if v["l"] == l:
            return v
    return None


MANIFEST = {
    "technique": "TLA+ reference of MS-NLMP (DESL key split with exhaustive parity expansion, NTOWFv1/v2, NTLMv2 proof and blob, hashcat 5600 rules) with MD4, MD5 and HMAC written in TLA+ (RFC and MS-NLMP 4.2 known answers as ASSUME); enumerated NTLMv1 cases replayed into every entry point; TLC judges every recorded NTLMv2 call as the verifier that knows the password",
    "level_text": "TLC enumerates all 128 values of each of the eight 7-bit key groups on two backgrounds, structured and patterned 16-byte hashes x challenges and passwords, computing NTOWFv1 and every DES key; the harness applies DES and compares Hash/String/NTResponse/LMResponse and the AUTHENTICATE payloads. NTLMv2 outputs (time-dependent) are recorded from the real code for structured and random users/domains/passwords/challenges and each event is verified by the specification: HMAC-MD5 chain with domain as supplied, blob fixed part, client challenge, hashcat field rules.",
    "level_note": "DES itself is the Go standard library's; users/domains/passwords are sampled from a structured alphabet; AV-pair tail, LMv2, parity-bit value and aliasing are drift (D), not verdicts.",
}
