"""C15 - Windows time and duration conversions are exact, inverse and overflow-free.

model -> code : spec/C15Cases.tla enumerates the boundary set (epochs 1601 / 1970 / 1582, both ends of the int64-nanosecond
                window of years 1677..2262, the uint64 wrap of ticks*100, 2^60 / 2^63 / 2^64 and the 'never' sentinels, powers
                of 2 and 10, each +-0,1,2) plus seeded random 64-bit values of every decimal length, and prints what
                spec/WinTime.tla computes for every conversion IN ARBITRARY PRECISION (spec/Digits.tla: decimal digit
                sequences).  c15.cases runs FILETIME, the four ldap converters, DateTime / key-credential binary times and
                UUIDv1/v2 Get/SetTime on them, and the inverse chains.
code -> model : c15.record calls the same functions on random 64-bit inputs and logs argument + result; TLC
                (spec/TraceWinTime.tla) recomputes every result and prints a verdict per line.
optional      : Apalache proves the inverse / no-overflow laws of the divide-first formulas over the whole 64-bit domain
                (spec/WinTimeInt.tla); a timeout or a missing tool only downgrades the evidence.
"""
import os, json, shutil, subprocess, time, re
from lib import vlib

RULE = ("cases: each boundary / random 64-bit value (tick count, signed integer, Go time, decimal text) TLC enumerates is one case, "
        "distinct by (kind, value); every conversion function whose domain contains it is executed; "
        "trace: each recorded call is one case, distinct by input value")
TRUSTED = ["TLC", "Go strconv / math/big in the harness (decimal rendering of the code's int64/uint64 results; input generation)",
           "Go time.Unix / Time.Unix / Time.Nanosecond (the observation of a time.Time)", "Apalache + Z3 (optional obligations only)"]


def judge_trace(chk, module, cfg_text, trace, part, timeout=1800):
    """TLC judges every recorded line; each printed verdict becomes a failure (P) or drift (D)."""
    r = vlib.run_tlc(module, cfg_text, extra_files={"trace.ndjson": trace}, allow_violation=True, timeout=timeout)
    chk.add_tlc(part, r)
    n = sum(1 for _ in open(trace))
    if not r.ok:
        raise vlib.Infra("trace validation did not consume the whole trace (%s):\n%s" % (r.violation, r.output[-3000:]))
    evs = None
    for v in r.emitted:
        if "bad" not in v:
            continue
        if evs is None:
            evs = open(trace).readlines()
        ev = json.loads(evs[v["bad"] - 1])
        chk.fail(v["site"], v["aspect"], "recorded call #%d is not allowed by the specification: %s" % (v["bad"], ev.get("h", "")),
                 {"op": ev.get("op"), "call": ev.get("h")}, drift=bool(v["drift"]))
    chk.part(part, trace_events=n, rejected_events=len({v["bad"] for v in r.emitted if "bad" in v and not v["drift"]}))
    return r


def apalache(chk, d, budget):
    """Closed-form obligations over the whole 64-bit domain. Never a verdict about the code: evidence only."""
    exe = shutil.which("apalache-mc")
    if not exe:
        chk.part("apalache", available=False)
        return
    src = os.path.join(vlib.SPEC, "WinTimeInt.tla")
    out = {"available": True, "obligations": 0, "discharged": 0, "witnesses": 0, "detail": {}}
    obligations = [("InverseFiletime", True), ("DivideFirstStaysIn64", True), ("LdapInverse", True), ("DurationAbs", True),
                   ("NaiveMul100StaysIn64", False)]
    procs = []
    for inv, expect_holds in obligations:      # independent JVMs, run side by side
        out["obligations"] += 1
        wd = os.path.join(d, "apa-" + inv)
        os.makedirs(wd)
        shutil.copy(src, wd)
        p = subprocess.Popen(["timeout", str(int(budget)), exe, "check", "--length=0", "--inv=" + inv,
                              "--out-dir=" + os.path.join(wd, "out"), "WinTimeInt.tla"],
                             cwd=wd, stdout=subprocess.PIPE, stderr=subprocess.STDOUT, text=True)
        procs.append((inv, expect_holds, p, time.time()))
    for inv, expect_holds, p, t0 in procs:
        txt = p.communicate()[0]
        dt = round(time.time() - t0, 1)
        if "The outcome is: NoError" in txt:
            res = "proved"
        elif "The outcome is: Error" in txt:
            res = "counterexample"
        elif p.returncode == 124:
            res = "timeout"
        else:
            res = "inconclusive(rc=%d)" % p.returncode
        out["detail"][inv] = "%s after %ss (expected %s)" % (res, dt, "proved" if expect_holds else "counterexample")
        if expect_holds and res == "proved":
            out["discharged"] += 1
        if not expect_holds and res == "counterexample":
            out["discharged"] += 1
            out["witnesses"] += 1
        if expect_holds and res == "counterexample":
            raise vlib.Infra("Apalache refuted the specification-level law %s (design finding, not a code verdict):\n%s" % (inv, txt[-2000:]))
    chk.part("apalache", **out)


def run(chk, replay=None):
    tier, seed = chk.tier, chk.seed % 60000
    d = vlib.scratch("c15-")
    # TLC / SANY / Apalache create temp dirs in java.io.tmpdir and leave them behind: keep them inside the scratch dir
    jt = os.path.join(d, "jtmp")
    os.makedirs(jt)
    saved = os.environ.get("_JAVA_OPTIONS")
    os.environ["_JAVA_OPTIONS"] = ((saved + " ") if saved else "") + "-Djava.io.tmpdir=" + jt
    try:
        # ---- model -> code
        vlib.replay_cases(chk, "C15Cases", vlib.cfg("C15_cases_%s.cfg" % tier, SEED=seed), "c15.cases", "cases_replay", opts={"revpass": 1, "arena": 1}, timeout=1800)
        chk.cov["exhaustive"] = True      # the boundary families are complete; random values are sampled
        # ---- code -> model
        trace, res = os.path.join(d, "trace.ndjson"), os.path.join(d, "rec.res")
        vlib.run_harness("c15.record", None, res, {"trace": trace, "events": 15000 if tier == "quick" else 150000, "seed": chk.seed})
        chk.ingest_results(res, part="record")
        judge_trace(chk, "TraceWinTime", vlib.cfg("C15_trace.cfg"), trace, "trace_validation")
        first = json.loads(open(trace).readline())
        chk.sample({"recorded_call": first.get("op"), "call": first.get("h")})
        # ---- Apalache obligations (evidence only)
        if os.path.exists(os.path.join(vlib.SPEC, "WinTimeInt.tla")):
            apalache(chk, d, 40 if tier == "quick" else 90)
        # ---- binding demonstrations (thorough)
        if tier == "thorough":
            lines = open(trace).readlines()
            k = next(i for i, ln in enumerate(lines) if '"op":"ft.toint64"' in ln)       # exact-equality judgement: any change must be rejected
            o = json.loads(lines[k]); o["r"][-1] = 48 + (o["r"][-1] - 48 + 1) % 10     # last digit of the result +1
            bad = os.path.join(d, "bad.ndjson")
            open(bad, "w").writelines(lines[:k] + [json.dumps(o) + "\n"] + lines[k + 1:k + 50])
            rb = vlib.run_tlc("TraceWinTime", vlib.cfg("C15_trace.cfg"), extra_files={"trace.ndjson": bad}, allow_violation=True)
            if not any(v.get("bad") == k + 1 and v.get("site") == "data_structures.FILETIME.ToInt64" for v in rb.emitted):
                raise vlib.Infra("binding demonstration failed: corrupted time trace line accepted")
            cs = os.path.join(d, "one.ndjson")
            vlib.run_tlc("C15Cases", vlib.cfg("C15_cases_quick.cfg", SEED=seed).replace("NRandom = 800", "NRandom = 1")
                         .replace('{"tick", "int", "time", "text"}', '{"text"}'), emit_to=cs)
            alt = None
            for ln in open(cs):
                o = json.loads(ln)
                if o["num"] and o["dsec"] != [48]:
                    o["dsec"][-1] = 48 + (o["dsec"][-1] - 48 + 1) % 10
                    alt = o
                    break
            open(cs, "w").write(json.dumps(alt) + "\n")
            rs = os.path.join(d, "one.res")
            vlib.run_harness("c15.cases", cs, rs)
            if not any('"ldap.ConvertLDAPDurationToSeconds"' in ln for ln in open(rs)):
                raise vlib.Infra("binding demonstration failed: altered expectation not reported by c15.cases")
            chk.part("vacuity_guards", corrupted_trace_line_rejected=True, altered_expectation_reported=True)
        chk.assumptions += [
            "a Go time is observed through Unix() and Nanosecond(); location/monotonic parts are not part of the property",
            "times with a sub-100ns part: floor is expected; truncation toward zero before 1970 is reported as drift (rounding mode is not in the statement)",
            "strings that are not int64 decimal numerals: 0 is expected (documented), mismatches are drift",
            "ConvertSecondsToLDAPDuration / ConvertUnixTimeStampToLDAPTimeStamp are judged only where the result fits 64 bits",
            "NewDateTime(0) means 'now' by contract and is not a conversion (not judged)",
            "FILETIME.ToInt64 for tick counts >= 2^63 has no int64 value: the two's-complement reading is expected, as drift",
            "random values: 16-bit LCG in the specification, math/rand in the recorder (both sampled)",
        ]
        # ---- the same entry points called by 8 goroutines at once (race-detector build): results as when called alone
        vlib.parallel_callers(chk, "time")
    finally:
        if saved is None:
            os.environ.pop("_JAVA_OPTIONS", None)
        else:
            os.environ["_JAVA_OPTIONS"] = saved
        shutil.rmtree(d, ignore_errors=True)


MANIFEST = {
    "technique": "TLA+ specification of the tick/time/duration conversions in arbitrary precision (decimal digit sequences, since TLC integers are 32-bit) evaluated by TLC; enumerated boundary set and seeded random 64-bit values replayed into the real code with inverse chains; TLC trace validation of recorded calls; Apalache obligations for the closed-form laws over the whole 64-bit domain",
    "level_text": "WinTime.tla (over Digits.tla) is the arbitrary-precision arithmetic the property names; TLC enumerates every anchor of the domain (epochs, int64/uint64 nanosecond limits, type extremes, sentinels, powers of 2 and 10) +-2 and random values of every length, self-checks the inverse laws on each, and the driver compares FILETIME, ldap, DateTime/key-credential and UUID time functions and their compositions against it; recorded calls on random inputs are each recomputed by TLC; the aspect of a mismatch names the input region so known overflow findings never mask a failure inside the int64-nanosecond window.",
    "level_note": "Between anchors the 64-bit domain is sampled, not exhausted (the Apalache obligations cover the whole domain only for the specification's own formulas, not for the Go code).",
}
