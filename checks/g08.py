"""G08 - specification growth (drift only): the Active Directory schema tables of network/ldap/schema as relations.

code -> model : the harness reads the five package-level tables of the compiled package (attribute display name <-> schemaIDGUID,
                property set <-> rightsGuid, property set -> member attributes) and writes one "row" event per entry;
                TLC (spec/TraceSchemaTables.tla) walks them through spec/SchemaTables.tla and prints a verdict for every row that
                breaks a law of the relations: a key listed once, GUID -> name injective, the inverse tables exactly inverse and
                total, every member a known attribute and in one set only, every GUID text in the 8-4-4-4-12 lower-case form.
Everything is reported with drift=True: this is not one of the 20 listed properties.
"""
import os, json, shutil
from lib import vlib

SITE = {"attr": "schema.SchemaAttributeDisplayNameToGUID", "attrinv": "schema.GUIDToSchemaAttributeDisplayName",
        "pset": "schema.PropertySetToGUID", "psetinv": "schema.GUIDToPropertySet", "member": "schema.PropertySetToAttributeDisplayNames"}


def judge(chk, trace, part):
    r = vlib.run_tlc("TraceSchemaTables", vlib.cfg("G08_tables.cfg"), extra_files={"trace.ndjson": trace}, timeout=900, allow_violation=True)
    verdicts = [e for e in r.emitted if isinstance(e, dict) and e.get("op") == "verdict"]
    if not r.ok:
        raise vlib.Infra("G08: the recorded table rows are not a behaviour of SchemaTables (%s)" % (r.violation,))
    if part:
        chk.add_tlc(part, r)
        chk.part(part, trace_events=sum(1 for _ in open(trace)), accepted=True, verdicts=len(verdicts))
        for v in verdicts:
            chk.fail(SITE.get(v["t"], v["t"]), "relation:%s:%s" % (v["inv"], v["k"]),
                     "table %s row %r -> %r: %s does not hold" % (v["t"], v["k"], v["v"], v["inv"]),
                     {"table": v["t"], "key": v["k"], "value": v["v"]}, drift=True)
    return verdicts


def run_growth(chk, tier, seed):
    d = vlib.scratch("g08-")
    try:
        trace, res = os.path.join(d, "tables.ndjson"), os.path.join(d, "tables.res")
        vlib.run_harness("g08.tables", None, res, {"trace": trace})
        chk.ingest_results(res, part="growth_schematables_record")
        judge(chk, trace, "growth_schematables")
        if tier == "thorough":
            # the binding is live: a doctored row must come back as the verdict that names it; results are not ingested
            flagged = {}
            for doctor, want in (("attr-guid-upper", ("attr", "GuidForm", "member")), ("inverse-wrong-name", ("attrinv", "InverseOf", None)),
                                 ("member-unknown", ("member", "KnownMember", None))):
                t2, r2 = os.path.join(d, doctor + ".ndjson"), os.path.join(d, doctor + ".res")
                vlib.run_harness("g08.tables", None, r2, {"trace": t2, "doctor": doctor})
                vs = judge(chk, t2, None)
                flagged[doctor] = any(v["t"] == want[0] and v["inv"] == want[1] and (want[2] is None or v["k"] == want[2]) for v in vs)
                if not flagged[doctor]:
                    raise vlib.Infra("G08 binding demonstration failed: doctored row %s was not flagged" % doctor)
            chk.part("growth_schematables_guards", doctored_rows_flagged=sorted(flagged))
    finally:
        shutil.rmtree(d, ignore_errors=True)
