"""C06 - SMB wire data types round-trip and consume exactly their own encoding.

model -> code : TLC enumerates spec/C06Cases.tla over spec/SMBTypes.tla - ALL 65 536 SMB_DATE words and ALL
                65 536 SMB_NMPIPE_STATUS words (two exhaustive runs, one TLC state per word), plus the structured
                case table (five string formats x boundary lengths up to 65 535, parameter/data blocks up to
                255 words / 65 535 bytes, fixed layouts with 0 / max / distinct / one-field patterns, resume keys,
                directory entries with file names of every length 0..12).  Every case is built on the real type,
                marshalled, and unmarshalled from bytes || suffix for every suffix of the specification.
code -> model : random full-range values are marshalled / unmarshalled by the real code (without and with a random
                suffix); TLC (spec/TraceSMBTypes.tla) recomputes the encoding and the decode with the specification's
                own codec and judges every recorded event.
P = Unmarshal(Marshal(v) || suffix) returns v and len(Marshal(v));  D (drift) = the byte layout itself (C05).
"""
import os, json, shutil
from lib import vlib

RULE = ("words: each of the 65 536 16-bit words of SMB_DATE / SMB_NMPIPE_STATUS is one case; table: each enumerated value "
        "(type, field values) is one case, distinct by content; every case is executed once per construction route and "
        "once per suffix (counted as executions); traces: one case per recorded random value")
TRUSTED = ["TLC", "encoding/json (case transport)"]

SITES = {"str": "types.SMB_STRING", "oem": "types.OEM_STRING", "date": "types.SMB_DATE", "filetime": "data_structures.FILETIME",
         "range32": "types.LOCKING_ANDX_RANGE32", "range64": "types.LOCKING_ANDX_RANGE64", "pipe": "types.SMB_NMPIPE_STATUS",
         "resumekey": "types.SMB_RESUME_KEY", "dirinfo": "types.SMB_DIRECTORY_INFORMATION", "attr": "types.SMB_FILE_ATTRIBUTES",
         "andx": "andx.AndX", "params": "parameters.Parameters", "data": "data.Data", "version": "version.Version"}

# spec field name -> library field name (aspect strings use the library's names, as the replay driver does)
FIELDS = {"fmt": "BufferFormat", "buf": "Buffer", "year": "Year", "month": "Month", "day": "Day", "lo": "DwLowDateTime",
          "hi": "DwHighDateTime", "pid": "PID", "off": "ByteOffset", "len": "LengthInBytes", "pad": "Pad",
          "offhi": "ByteOffsetHigh", "offlo": "ByteOffsetLow", "lenhi": "LengthInBytesHigh", "lenlo": "LengthInBytesLow",
          "icount": "ICount", "flags": "Flags", "reserved": "Reserved", "server": "ServerState", "client": "ClientState",
          "rk": "ResumeKey", "attr": "FileAttributes", "time": "LastWriteTime", "date": "LastWriteDate", "size": "FileSize",
          "name": "FileName", "cmd": "AndXCommand", "offset": "AndXOffset", "words": "Words", "bytes": "Bytes",
          "major": "ProductMajorVersion", "minor": "ProductMinorVersion", "build": "ProductBuild", "rev": "NTLMRevision"}
FIELDS_BY_TYPE = {("attr", "attr"): "Attributes", ("andx", "reserved"): "AndXReserved"}


def aspect_of(t, a):
    """'suffix:roundtrip:off' (spec vocabulary) -> 'suffix:roundtrip:ByteOffset'"""
    if "roundtrip:" in a:
        head, f = a.rsplit("roundtrip:", 1)
        return head + "roundtrip:" + FIELDS_BY_TYPE.get((t, f), FIELDS.get(f, f))
    return a


def judge_trace(chk, d, trace, part):
    """TLC judges every recorded event; verdict lines (only printed for non-conforming events) become failures."""
    r = vlib.run_tlc("TraceSMBTypes", vlib.cfg("C06_trace.cfg"), extra_files={"trace.ndjson": trace},
                     allow_violation=True, timeout=900)
    chk.add_tlc(part, r)
    evs = open(trace).readlines()
    if not r.ok:
        depth = vlib.tlc_depth(r.output) or 1
        raise vlib.Infra("TraceSMBTypes did not consume the recorded trace (stopped near event %d of %d):\n%s"
                         % (depth, len(evs), r.output[-3000:]))
    bad = 0
    for v in r.emitted:
        e = json.loads(evs[v["i"] - 1])
        sample = {"type": e["t"], "value": e["v"] if len(json.dumps(e["v"])) < 1500 else "(large)", "suffix": e["suf"],
                  "marshalled_len": len(e["enc"]), "unmarshal_plain": {k: e["r0"][k] for k in ("n", "err", "panic")},
                  "unmarshal_suffixed": {k: e["r1"][k] for k in ("n", "err", "panic")}}
        site = SITES[e["t"]]
        for a in v["p"]:
            bad += 1
            s = site + (".Marshal" if a == "marshal-error" else ".Unmarshal")
            if e["t"] == "str":
                a += ":fmt=0x%02x" % e["v"]["fmt"]       # the five formats are five code paths (as in the replay driver)
            chk.fail(s, aspect_of(e["t"], a), "recorded event #%d is not a step of SMBTypes: %s" % (v["i"], a), sample)
        for a in v["d"]:
            chk.fail(site + ".Marshal", "layout:unknown", "recorded event #%d: bytes differ from the library layout of SMBTypes" % v["i"],
                     sample, drift=True)
    chk.part(part, trace_events=len(evs), nonconforming_events=len(r.emitted), accepted=(bad == 0))
    return r


def run(chk, replay=None):
    tier, seed = chk.tier, chk.seed % 60000
    d = vlib.scratch("c06-")
    try:
        # ---- the two exhaustive 65 536-word runs (one TLC state per word; both kinds in one JVM)
        summ = vlib.replay_cases(chk, "C06Cases", vlib.cfg("C06_words.cfg", SEED=seed), "c06.types", "words_replay")
        if summ.get("exhaustive_words") != {"date": 65536, "pipe": 65536}:
            raise vlib.Infra("exhaustive word runs replayed %s, expected 65536 dates and 65536 pipe words" % summ.get("exhaustive_words"))
        chk.cov["exhaustive"] = True
        # ---- structured case table
        summ = vlib.replay_cases(chk, "C06Cases", vlib.cfg("C06_cases_%s.cfg" % tier, SEED=seed), "c06.types", "table_replay")
        missing = set(SITES) - {"date"} - set(summ.get("values_per_type") or {})     # dates: the exhaustive run
        if missing:
            raise vlib.Infra("case table has no value for types %s" % sorted(missing))
        # ---- recorded executions -> TLC
        trace, res = os.path.join(d, "trace.ndjson"), os.path.join(d, "rec.res")
        vlib.run_harness("c06.record", None, res, {"trace": trace, "events": 1400 if tier == "quick" else 28000, "seed": chk.seed})
        chk.ingest_results(res, part="record")
        judge_trace(chk, d, trace, "trace_validation")
        chk.sample({"recorded_event": {k: v for k, v in json.loads(open(trace).readline()).items() if k in ("t", "v", "suf", "r1")}})
        # ---- binding demonstration (thorough): a corrupted recorded event must be judged non-conforming
        if tier == "thorough":
            lines = open(trace).readlines()
            k = next(i for i, ln in enumerate(lines) if '"t":"range64"' in ln)
            o = json.loads(lines[k]); o["r1"]["n"] += 1
            k2 = next(i for i, ln in enumerate(lines) if '"t":"date"' in ln)
            o2 = json.loads(lines[k2]); o2["r0"]["dv"]["month"] = (o2["r0"]["dv"]["month"] + 1) % 16
            bad = os.path.join(d, "bad.ndjson")
            lines[k], lines[k2] = json.dumps(o) + "\n", json.dumps(o2) + "\n"
            open(bad, "w").writelines(lines)
            rb = vlib.run_tlc("TraceSMBTypes", vlib.cfg("C06_trace.cfg"), extra_files={"trace.ndjson": bad}, allow_violation=True)
            got = {(v["i"], a) for v in rb.emitted for a in v["p"]}
            want = {(k + 1, "suffix:consumed"), (k2 + 1, "roundtrip:month")}
            if not want <= got:
                raise vlib.Infra("binding demonstration failed: corrupted events not judged (%s)" % sorted(want - got))
            chk.part("vacuity_guards", corrupted_events_rejected=sorted("%d:%s" % x for x in want))
        chk.assumptions += [
            "in-domain values only, as the property states: NUL-terminated formats without embedded NUL, file names <= 12 bytes "
            "without trailing spaces (compared modulo space padding), years 1980..2107",
            "byte layout (endianness, format 0x03, SMB_TIME width) is compared as drift only; it belongs to C05",
            "suffix set = {empty, 00, EE, 7 seeded bytes} for the case table; random 1..9-byte suffixes in recorded traces",
            "the embedded SMB_STRING container of SMB_RESUME_KEY is not a wire field and is not compared"]
        # ---- specification growth (drift only)
        from checks import g02
        g02.run_growth(chk, tier, chk.seed)
        chk.assumptions.append("growth (drift only): InfoLevels.tla -- SMB1 information levels (MS-CIFS 2.2.8), SecurityFeatures readings, fixed-layout MS-DTYP structures (DESIGN 13.7 G02)")
        # ---- the same entry points called by 8 goroutines at once (race-detector build): results as when called alone
        vlib.parallel_callers(chk, "types,smb")
    finally:
        shutil.rmtree(d, ignore_errors=True)


MANIFEST = {
    "technique": "TLA+ codec specification (SMBTypes.tla over a schema-driven Wire.tla, written from MS-CIFS / MS-DTYP / MS-NLMP) "
                 "evaluated by TLC; exhaustive 2 x 65 536 word runs and an enumerated boundary case table replayed into the real "
                 "Marshal/Unmarshal with every suffix; TLC judgement of recorded random executions",
    "level_text": "The specification defines Enc/Dec for the 14 wire types and the law Dec(Enc(v) || s) = (v, |Enc(v)|); TLC "
                  "checks the law on the specification itself for every emitted case and enumerates all 65 536 SMB_DATE and all "
                  "65 536 SMB_NMPIPE_STATUS words plus boundary lengths (0..65 535 bytes, 0..255 words) and field patterns; each "
                  "case is executed on the real type for every construction route and suffix. Random full-range values recorded "
                  "from the code are judged event by event by TLC with the same codec.",
    "level_note": "Exhaustive for the two 16-bit packed types; other types are covered at enumerated boundary values, byte patterns "
                  "and seeded random values, suffixes from a fixed set plus random ones. Byte layout deviations are drift (C05).",
}
