"""C13 - UUID/GUID text and binary forms are mutually inverse and standards-conformant.

model -> code : spec/C13Cases.tla enumerates every single-bit pattern of the 128 bits (one-hot, one-cold, 00/FF, walking
                nibbles/bytes), every single-bit pattern of the v1 / v2 / base field assignments and seed-dependent random
                values; for each case TLC prints the MS-DTYP packet, the five GUID text formats in four letter-case modes,
                the RFC 4122 / DCE fields and the canonical text.  c13.cases executes them on windows/guid and
                crypto/uuid{,_v1,_v2,_v8} (layout, fields, 5x5 cross-format, all round trips).
code -> model : c13.record pushes full-range random values through the real functions and logs every call; TLC
                (spec/TraceUUID.tla) recomputes each result from GUID.tla / UUID.tla and prints a verdict per line.
"""
import os, json, shutil
from lib import vlib

RULE = ("cases: each 128-bit value / field assignment TLC enumerates is one case, distinct by (kind, value); the pattern set "
        "(every single bit set / cleared, 00, FF, walking nibbles and bytes) is complete, the random part is sampled; "
        "trace: each recorded call is one case, distinct by input value")
TRUSTED = ["TLC", "Go fmt/strconv in the harness (hex rendering of the code's integer fields for comparison)"]


def judge_trace(chk, module, cfg_text, trace, part, timeout=1800):
    """TLC judges every recorded line; each printed verdict becomes a failure (P) or drift (D)."""
    r = vlib.run_tlc(module, cfg_text, extra_files={"trace.ndjson": trace}, allow_violation=True, timeout=timeout)
    chk.add_tlc(part, r)
    n = sum(1 for _ in open(trace))
    if not r.ok:
        raise vlib.Infra("trace validation did not consume the whole trace (%s):\n%s" % (r.violation, r.output[-3000:]))
    evs = None
    for v in r.emitted:
        if "bad" not in v:
            continue
        if evs is None:
            evs = open(trace).readlines()
        ev = json.loads(evs[v["bad"] - 1])
        chk.fail(v["site"], v["aspect"], "recorded call #%d is not allowed by the specification" % v["bad"],
                 {"event": ev}, drift=bool(v["drift"]))
    chk.part(part, trace_events=n, rejected_events=len({v["bad"] for v in r.emitted if "bad" in v and not v["drift"]}))
    return r


def run(chk, replay=None):
    tier, seed = chk.tier, chk.seed % 60000
    d = vlib.scratch("c13-")
    # TLC / SANY / Apalache create temp dirs in java.io.tmpdir and leave them behind: keep them inside the scratch dir
    jt = os.path.join(d, "jtmp")
    os.makedirs(jt)
    saved = os.environ.get("_JAVA_OPTIONS")
    os.environ["_JAVA_OPTIONS"] = ((saved + " ") if saved else "") + "-Djava.io.tmpdir=" + jt
    try:
        # ---- model -> code
        vlib.replay_cases(chk, "C13Cases", vlib.cfg("C13_cases_%s.cfg" % tier, SEED=seed), "c13.cases", "cases_replay", timeout=1800)
        chk.cov["exhaustive"] = True      # the single-bit / walking pattern families are complete; random values are sampled
        # ---- version-1/2 timestamps <-> Go time ("all timestamps representable as Go time"): the WinTime specification of C15
        # is the reference; only the verdicts about the UUID accessors are taken over here
        sub = vlib.Check("C13", chk.tier, chk.seed)
        c15 = vlib.cfg("C15_cases_quick.cfg", SEED=seed).replace('Kinds = {"tick", "int", "time", "text"}', 'Kinds = {"tick", "time"}')
        vlib.replay_cases(sub, "C15Cases", c15, "c15.cases", "uuid_time_cases", timeout=1800)
        for f in sub.failures:
            if f["site"].startswith("uuid_v"):
                chk.fail(f["site"], "time:" + f["aspect"], f["detail"], f["sample"], drift=f["drift"])
        chk.cov["states"] += sub.cov["states"]; chk.cov["transitions"] += sub.cov["transitions"]
        chk.cov["parts"]["uuid_time_cases"] = sub.cov["parts"].get("uuid_time_cases", {})
        # ---- code -> model
        trace, res = os.path.join(d, "trace.ndjson"), os.path.join(d, "rec.res")
        vlib.run_harness("c13.record", None, res, {"trace": trace, "events": 20000 if tier == "quick" else 250000, "seed": chk.seed})
        chk.ingest_results(res, part="record")
        judge_trace(chk, "TraceUUID", vlib.cfg("C13_trace.cfg"), trace, "trace_validation")
        chk.sample({"recorded_event": json.loads(open(trace).readline())})
        # ---- binding demonstrations (thorough)
        if tier == "thorough":
            # (a) a recorded call whose result is altered must be rejected by TLC
            lines = open(trace).readlines()
            k = next(i for i, ln in enumerate(lines) if '"op":"guid.tobytes"' in ln)
            o = json.loads(lines[k]); o["w"][5] ^= 0x10
            bad = os.path.join(d, "bad.ndjson")
            open(bad, "w").writelines(lines[:k] + [json.dumps(o) + "\n"] + lines[k + 1:k + 50])
            rb = vlib.run_tlc("TraceUUID", vlib.cfg("C13_trace.cfg"), extra_files={"trace.ndjson": bad}, allow_violation=True)
            hit = any(v.get("bad") == k + 1 and v.get("site") == "guid.GUID.ToBytes" for v in rb.emitted)
            if not hit:
                raise vlib.Infra("binding demonstration failed: corrupted GUID trace line accepted")
            # (b) a case whose expectation is altered must be reported by the driver
            cs = os.path.join(d, "one.ndjson")
            r = vlib.run_tlc("C13Cases", vlib.cfg("C13_cases_quick.cfg", SEED=seed).replace("NRandom = 1000", "NRandom = 1")
                             .replace('{"guid", "uuid", "v1", "v2", "v8", "basef"}', '{"guid"}'), emit_to=cs)
            first = json.loads(open(cs).readline())
            first["w"][0] ^= 1
            open(cs, "w").write(json.dumps(first) + "\n")
            rs = os.path.join(d, "one.res")
            vlib.run_harness("c13.cases", cs, rs)
            flagged = any('"guid.GUID.FromRawBytes"' in ln for ln in open(rs))
            if not flagged:
                raise vlib.Infra("binding demonstration failed: altered expectation not reported by c13.cases")
            chk.part("vacuity_guards", corrupted_trace_line_rejected=True, altered_expectation_reported=True)
        chk.assumptions += [
            "GUID text formats N/D/B/P/X as printed by .NET System.Guid (lower case); letter case of the code's output is not judged (compared case-insensitively, as the property says)",
            "UUIDv1 clock sequence / UUIDv2 clock judged only for variant 10x (RFC 4122 4.1.2 defines no layout for other variants)",
            "rejection of texts that are not of a format is model detail (D): the property quantifies over values a parser accepts",
            "random values come from a 16-bit LCG in the specification (sampled) and from math/rand in the recorder (full range, sampled)",
            "UUIDv1/v2 GetTime/SetTime are judged by C15",
        ]
        # ---- the same entry points called by 8 goroutines at once (race-detector build): results as when called alone
        vlib.parallel_callers(chk, "guid")
    finally:
        if saved is None:
            os.environ.pop("_JAVA_OPTIONS", None)
        else:
            os.environ["_JAVA_OPTIONS"] = saved
        shutil.rmtree(d, ignore_errors=True)


MANIFEST = {
    "technique": "TLA+ specification of the GUID (MS-DTYP 2.3.4 packet layout, five text formats as templates) and UUID (RFC 4122 fields, DCE v2) forms evaluated by TLC; enumerated single-bit/walking patterns and field assignments replayed into the real code; TLC trace validation of recorded calls on full-range random values",
    "level_text": "The specification is the independent implementation: TLC enumerates every single-bit pattern (set and cleared) of the 128 bits and of every v1/v2/base field, plus seeded random values, computes packet bytes, fields and all text forms (5 GUID formats x 4 letter-case modes), self-checks parse(format)=id on each, and the driver compares the real code in both directions including all 5x5 cross-format pairs; recorded calls of the real code on random values are each re-derived by TLC.",
    "level_note": "Values outside the pattern families are sampled, not exhausted; UUID version-specific time conversion is C15's; parser leniency on malformed text is reported as drift only.",
}
