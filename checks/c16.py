"""C16 - binary SIDs and distinguished names decode to their canonical text.

model -> code : TLC enumerates (C16Cases.tla) every SID over ALL sub-authority counts 0..15 x value patterns x
                identifier authorities and every DN over all RDN sequences up to a length (types x values, with escaped
                commas); SID.tla (MS-DTYP 2.4.2) and DN.tla (RFC 4514) compute the expected text; each case is run on
                ldap.ParseSIDFromBytes / ldap.GetDomainFromDistinguishedName.
code -> model : full-range random SIDs/DNs are run through the real functions and recorded; TLC (TraceC16.tla) judges
                every recorded line with the same modules and prints one verdict per deviating line.
"""
import os, json, shutil
from lib import vlib

RULE = ("cases: one case per enumerated SID (count x value pattern x authority) or DN (RDN sequence), distinct by input bytes/text; "
        "trace: one case per recorded call, distinct by input")
TRUSTED = ["TLC"]

SID_SITE = "ldap.ParseSIDFromBytes"
DN_SITE = "ldap.GetDomainFromDistinguishedName"


def sid_class(n):
    return "count=0" if n == 0 else "count=1" if n == 1 else "count>=2"


def text(xs):
    return "".join(chr(x) for x in xs)


def run(chk, replay=None):
    tier, seed = chk.tier, chk.seed % 60000
    d = vlib.scratch("c16-")
    try:
        # ---- (a) model -> code: enumerated case table
        vlib.replay_cases(chk, "C16Cases", vlib.cfg("C16_cases_%s.cfg" % tier, SEED=seed), "c16.cases", "cases_replay",
                          opts={"revpass": 1, "arena": 1}, timeout=1500)
        chk.cov["exhaustive"] = True    # all counts 0..15; all RDN sequences up to the stated length over the stated alphabet

        # ---- (b) code -> model: recorded random calls judged by TLC
        trace, res = os.path.join(d, "trace.ndjson"), os.path.join(d, "rec.res")
        n = 300 if tier == "quick" else 3000
        vlib.run_harness("c16.record", None, res, {"trace": trace, "sids": n, "dns": n, "seed": chk.seed})
        chk.ingest_results(res, part="record")
        r = vlib.run_tlc("TraceC16", vlib.cfg("C16_trace.cfg"), extra_files={"trace.ndjson": trace}, timeout=900)
        chk.add_tlc("trace_judged", r)
        evs = [json.loads(x) for x in open(trace)]
        bad = 0
        for v in r.emitted:
            e = evs[v["i"] - 1]
            bad += 1
            if v["op"] == "sid":
                chk.fail(SID_SITE, "text:" + sid_class(v["n"]),
                         "recorded call: SID %s: spec %r code %r" % (bytes(e["in"]).hex(), text(v["want"]), text(e["out"])),
                         {"sid_hex": bytes(e["in"]).hex(), "code_text": text(e["out"]), "spec_text": text(v["want"])})
            else:
                dn = text(e["in"])
                detail = "recorded call: DN %r: spec %r code %r" % (dn, text(v["want"]), text(e["out"]))
                smp = {"dn": dn, "code_domain": text(e["out"]), "spec_domain": text(v["want"])}
                if v["drift"]:
                    chk.fail(DN_SITE, "domain:" + v["drift"], detail, smp, drift=True)
                else:
                    chk.fail(DN_SITE, "domain:" + ("escaped-comma" if v["esc"] else "plain"), detail, smp)
        chk.part("trace_judged", trace_events=len(evs), deviating_lines=bad)

        # ---- binding demonstration (thorough): a corrupted recorded line must be reported by the judge
        if tier == "thorough":
            lines = open(trace).readlines()
            k = next(i for i, ln in enumerate(lines) if '"op":"sid"' in ln and json.loads(ln)["in"][1] >= 2)
            o = json.loads(lines[k]); o["out"][-1] = 48 + (o["out"][-1] - 47) % 10
            badp = os.path.join(d, "bad.ndjson")
            open(badp, "w").writelines(lines[:k] + [json.dumps(o) + "\n"] + lines[k + 1:])
            rb = vlib.run_tlc("TraceC16", vlib.cfg("C16_trace.cfg"), extra_files={"trace.ndjson": badp}, timeout=900)
            if not any(v["i"] == k + 1 for v in rb.emitted):
                raise vlib.Infra("binding demonstration failed: a corrupted SID line was not reported by TraceC16")
            chk.part("vacuity_guards", corrupted_line_reported=True)
        chk.assumptions += ["SIDs are well-formed (revision 1, exactly 8+4n bytes); truncated buffers belong to C07",
                            "authorities >= 2^32: both the MS-DTYP hex form and the all-decimal form are accepted",
                            "DNs: attribute types without surrounding spaces, single-valued RDNs; lower-case 'dc=' and empty values are drift (not the form AD emits)"]
        # ---- the same entry points called by 8 goroutines at once (race-detector build): results as when called alone
        vlib.parallel_callers(chk, "ldap")
        # ---- specification growth: the session methods that apply the two functions to what a directory returns
        from checks import g07
        g07.run_growth(chk, tier, chk.seed)
        chk.assumptions.append("growth: LDAPDirectory.tla -- the LDAP session layer over a modelled directory served by an in-process LDAP server; "
                               "the SID text / DNS domain of returned entries are C16 clauses, searches sent / NetBIOS names / counts / errors are drift (G07)")
    finally:
        shutil.rmtree(d, ignore_errors=True)


MANIFEST = {
    "technique": "TLA+ reference for the SID string form (MS-DTYP 2.4.2, big-number decimal printing on byte strings) and for RFC 4514 DN parsing; TLC-enumerated case table replayed into ldap.ParseSIDFromBytes / GetDomainFromDistinguishedName; recorded random calls judged line by line by TLC; the session methods (GetDomain, GetAllDomains, FindObjectSIDByRID, ...) driven through a real ldap.Session against an in-process LDAP server that serves TLC-enumerated directories (LDAPDirectory.tla)",
    "level_text": "The specification computes the expected text: TLC enumerates all sub-authority counts 0..15 x value patterns (0, 1, 2^31, 2^32-1, digit boundaries, distinct, seeded) x identifier authorities (small, 2^32-1, 2^32, 2^48-1) and all RDN sequences up to length 3/4 over 4 types x 5 values (plain, escaped comma, escaped comma followed by DC=, escaped backslash, empty); each case is executed on the real function. Random full-range inputs recorded from the code are judged by the same modules. The session layer is executed on enumerated directories x calls: the SID text / DNS domain it reports for an entry the directory returned must be the specification's for that entry.",
    "level_note": "Values between the enumerated patterns are sampled (seeded + random), not enumerated; multi-valued RDNs and ill-formed SIDs are out of scope.",
}
