"""C07 - every decoder is total: any input yields a value or an error, never a crash."""
import os, json, shutil, concurrent.futures
from lib import vlib

RULE = ("one case per state of Hostile.tla: (entry point, valid base encoding, sequence of <= Depth corruptions: every truncation, every position set to "
        "boundary values and +-1, every 2/4-byte run driven to extremes/wrap values/own length, appended garbage; text: separators, deletions, duplications); "
        "distinct = distinct corrupted inputs per base")
TRUSTED = ["TLC", "Go runtime panics/recover, runtime.MemStats"]


def run(chk, replay=None):
    tier = chk.tier
    d = vlib.scratch("c07-")
    try:
        bases = os.path.join(d, "bases.json")
        bres = os.path.join(d, "bases.res")
        opts = {"out": bases, "seed": chk.seed}
        if tier == "quick":
            opts["maxsmb"] = 24
        vlib.run_harness("c07.bases", None, bres, opts)
        bs = chk.ingest_results(bres, part="bases")
        shards = 12
        maxpos, tail = (40, 8) if tier == "quick" else (0, 0)

        def replay(cases, res):
            """Run the replay driver; if the process is killed by a fatal runtime error (stack overflow from unbounded
            recursion, out of memory) bisect for the first case that kills it and report that case."""
            try:
                vlib.run_harness("c07.replay", cases, res, {"bases": bases}, timeout=3000)
                return
            except vlib.Infra as e:
                msg = str(e)
                fatal = [k for k in ("stack overflow", "goroutine stack exceeds", "out of memory", "cannot allocate memory") if k in msg]
                if not fatal:
                    raise
            n = sum(1 for _ in open(cases))
            lo, hi = 0, n          # invariant: running the first lo cases survives, the first hi cases dies
            while hi - lo > 1:
                mid = (lo + hi) // 2
                try:
                    vlib.run_harness("c07.replay", cases, res + ".bisect", {"bases": bases, "to": mid}, timeout=3000)
                    lo = mid
                except vlib.Infra:
                    hi = mid
            aspect = "non-termination:stack-overflow" if "stack" in fatal[0] else "allocation:out-of-memory"
            # confirm in a fresh process: the culprit alone must kill it
            vlib.run_harness("c07.replay", cases, res, {"bases": bases, "describe": hi - 1, "aspect": aspect,
                                                      "why": "fatal error: " + fatal[0] + " (unrecoverable; reproduced by bisection in fresh processes)"}, timeout=600)

        def one(sh):
            cases = os.path.join(d, "h%d.ndjson" % sh)
            r = vlib.run_tlc("Hostile", vlib.cfg("C07_hostile.cfg", DEPTH=1, MAXPOS=maxpos, TAILPOS=tail, SHARD=sh, SHARDS=shards),
                             extra_files={"bases.json": bases}, emit_to=cases, timeout=2400, heap="3g")
            res = os.path.join(d, "h%d.res" % sh)
            replay(cases, res)
            os.remove(cases)
            return sh, r, res
        vlib.build_harness()
        with concurrent.futures.ThreadPoolExecutor(max_workers=min(12, vlib.NCPU)) as ex:
            results = list(ex.map(one, range(shards)))
        cross = 0
        for sh, r, res in results:
            chk.add_tlc("hostile_shard_%d" % sh, r)
            s = chk.ingest_results(res, part="replay_shard_%d" % sh)
            cross += int(s.get("apply_cross_checks", 0))
        # depth-2 walks on a restricted alphabet (thorough): a corruption of a corrupted case
        if tier == "thorough":
            def two(sh):
                cases = os.path.join(d, "d%d.ndjson" % sh)
                c2 = vlib.cfg("C07_hostile.cfg", DEPTH=2, MAXPOS=6, TAILPOS=2, SHARD=sh, SHARDS=shards).replace(
                    "ByteVals = {0, 1, 127, 128, 254, 255}", "ByteVals = {0, 255}")
                r = vlib.run_tlc("Hostile", c2, extra_files={"bases.json": bases}, emit_to=cases, timeout=3000, heap="3g")
                res = os.path.join(d, "d%d.res" % sh)
                replay(cases, res)
                os.remove(cases)
                return sh, r, res
            with concurrent.futures.ThreadPoolExecutor(max_workers=min(12, vlib.NCPU)) as ex:
                for sh, r, res in ex.map(two, range(shards)):
                    chk.add_tlc("hostile_depth2_shard_%d" % sh, r)
                    chk.ingest_results(res, part="replay_depth2_shard_%d" % sh)
        chk.part("binding", apply_cross_checks=cross, note="every 97th state carries the corrupted bytes computed by TLC; the harness's Apply must reproduce them")
        chk.cov["exhaustive"] = True
        chk.assumptions += ["systematic part of the quantifier only (no coverage-guided mutation)",
                            "base cases are encodings produced by the library's own encoders or literals; bases longer than 400 bytes are cut",
                            "a new panic in a function+class that is already an open finding for the same entry point is masked",
                            "allocation budget 64*len + 1 MiB per call, watchdog 2 s"]
    finally:
        shutil.rmtree(d, ignore_errors=True)


MANIFEST = {
    "technique": "adversary state machine Hostile.tla enumerated exhaustively by TLC (every corruption of every valid encoding of every entry point); each generated input replayed into the real decoder under recover/watchdog/allocation budget",
    "level_text": "The corruption space of C07's quantifier (truncations, boundary-value bytes, length/offset/count fields driven to extremes and wrap values, garbage suffixes, text separator edits) is an explicit TLA+ state machine over valid encodings of ~95 entry points (SMB messages for every command code and reply flag, SMB types and information levels, LLMNR, NBNS, NBT frames, NTLMSSP, SPNEGO, key credentials, SIDs, GPP, PKCS#7, UTF-16, UUID/GUID/IP/port/hash text parsers); TLC enumerates it completely (depth 1; depth 2 on a reduced alphabet in thorough) and every state is executed against the real code.",
    "level_note": "Totality outside the enumerated corruption space is not covered; known panics are identified by (entry point, panicking function, panic class).",
}
