------------------------------ MODULE SMBClient ------------------------------
(***************************************************************************)
(* Specification growth (not one of the 20 listed properties; every        *)
(* assertion bound to this module is reported as DRIFT, never as a         *)
(* violation): the SMB1 client of network/smb/smb_v10/client as a protocol *)
(* machine over an abstract transport.                                     *)
(*                                                                         *)
(*   Negotiate():    send ONE message (command NEGOTIATE, request, dialect *)
(*                   list containing "NT LM 0.12"); receive one message;   *)
(*                   succeed iff it is a NEGOTIATE *response* that decodes *)
(*                   and selects an offered dialect, then remember the     *)
(*                   server's parameters.                                  *)
(*   SessionSetup(): send ONE SESSION_SETUP_ANDX request built from those  *)
(*                   parameters; succeed iff the reply is a                *)
(*                   SESSION_SETUP_ANDX response.                          *)
(* The server (or an attacker in its place) answers each request with one  *)
(* of ReplyKinds.  A client call must always RETURN (nil or an error).     *)
(***************************************************************************)
EXTENDS Integers, Sequences, TLC, Json

CONSTANTS ReplyKinds, EmitCases
VARIABLES pc, script, sentCount, result
vars == <<pc, script, sentCount, result>>

(* what a reply of each kind is, for the call it answers *)
Accepts(call, k) == k = "ok"
Init == pc = "connected" /\ script = <<>> /\ sentCount = 0 /\ result = "none"

Call(call, k) ==
    /\ pc = (IF call = "negotiate" THEN "connected" ELSE "negotiated")
    /\ script' = Append(script, [call |-> call, reply |-> k])
    /\ sentCount' = sentCount + 1
    /\ IF Accepts(call, k)
         THEN /\ pc' = (IF call = "negotiate" THEN "negotiated" ELSE "established") /\ result' = "nil"
         ELSE /\ pc' = "failed" /\ result' = "error"
    /\ EmitCases => PrintT(ToJson([script |-> script', result |-> result', pc |-> pc']))

Next == \E call \in {"negotiate", "session"}, k \in ReplyKinds : Call(call, k)
Spec == Init /\ [][Next]_vars
(* one message per call; a session is established only through two accepted exchanges *)
Inv == /\ sentCount = Len(script)
       /\ pc = "established" => Len(script) = 2 /\ script[1].reply = "ok" /\ script[2].reply = "ok"
=============================================================================
