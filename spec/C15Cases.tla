------------------------------ MODULE C15Cases ------------------------------
(***************************************************************************)
(* C15 case table (model -> code).  TLC enumerates a structured boundary   *)
(* set of 64-bit values (epochs 1601/1970/1582, the int64-nanosecond       *)
(* window of years 1677..2262, the uint64-nanosecond wrap, the 2^60 / 2^63 *)
(* / 2^64 type limits and sentinels, powers of 2 and 10, each +-0,1,2) and *)
(* seed-dependent random values of every decimal length 1..20, and prints  *)
(* for every case what WinTime.tla computes IN ARBITRARY PRECISION for     *)
(* every conversion function the value is in the domain of.  The driver    *)
(* c15.cases executes the real functions and the inverse chains.           *)
(*                                                                         *)
(* Each case is first checked against the laws of the specification        *)
(* itself (inverse, remainder bounds): Assert => TLC error => exit 2.      *)
(*                                                                         *)
(* Numbers travel as decimal text (sequences of character codes).          *)
(***************************************************************************)
EXTENDS WinTime, Bytes, TLC, Json, FiniteSets

CONSTANTS Seed, NRandom, Kinds

VARIABLE c

Emit(r) == PrintT(ToJson(r))
RandBytes(i, n) == Pattern(((Seed % 997) * 131 + i) % 200000, n)

N(i) == DFromInt(i)
D2p60 == DPow2(60)
U64Max == DSub(D2p64, DOne)
NsSpan == DShr(D2p63, 2)                          \* 92233720368547758 = (2^63-1) div 100 = 2^63 div 100: half width of the int64-ns window in ticks
Y9999 == <<2,6,5,0,4,6,7,7,4,3,9,9,9,9,9,9,9,9,9>> \* last tick of year 9999
Around(x) == {DAdd(x, N(d)) : d \in 0..2} \cup {DSub(x, N(d)) : d \in {e \in 1..2 : DLe(N(e), x)}}

Anchors == {DZero, N(100), DPow10(7), WtE1601, DAdd(WtE1601, DPow10(7)), DSub(WtE1601, DPow10(7)),
            DAdd(WtE1601, NsSpan), DSub(WtE1601, NsSpan),                                   \* 2262-04-11 / 1677-09-21 in FILETIME ticks
            WtE1582, DSub(WtE1582, WtE1601), DAdd(WtE1582, NsSpan), DSub(WtE1582, NsSpan),  \* the same limits in UUID ticks; 1601 in UUID ticks
            DShr(D2p64, 2), DShr(D2p63, 2),                                                 \* ticks*100 leaves uint64 / int64
            DShr(DSub(D2p63, WtE1601), 7), DShr(D2p63, 7),                                  \* seconds whose tick count leaves int64
            D2p60, DPow2(62), D2p63, U64Max, DPow2(32), DPow2(31), Y9999, WtNever}
BoundaryTicks == {x \in UNION {Around(a) : a \in Anchors} : DInU64(x)}
            \cup {DPow10(k) : k \in 1..19} \cup {DSub(DPow10(k), DOne) : k \in 1..19}
            \cup {DPow2(k) : k \in {8, 16, 24, 33, 40, 48, 56, 59, 61}} \cup {DSub(DPow2(k), DOne) : k \in {8, 16, 24, 33, 40, 48, 56, 59, 61}}
(* random naturals < 2^64: uniform 64-bit words, and decimal strings of every length 1..20 *)
RandDigits(i) == LET n == (i % 20) + 1 b == RandBytes(i + 7000, n) d == DNorm([j \in 1..n |-> b[j] % 10]) IN IF DInU64(d) THEN d ELSE DShr(d, 1)
RandTick(i) == IF i % 2 = 0 THEN DFromBytesBE(RandBytes(i, 8)) ELSE RandDigits(i)
Ticks == BoundaryTicks \cup {RandTick(i) : i \in 1..NRandom}

Reg(x, E) == IF WtTicksInNsWindow(x, E) THEN "int64ns-window" ELSE IF DLt(x, D2p63) THEN "outside-int64ns-window" ELSE "ticks>=2^63"

TickCase(x) ==
    LET tm == WtTicksToTime(x, WtE1601)
        isV1 == DLt(x, D2p60)
        tv == WtTicksToTime(x, WtE1582)
        hl == WtHalves(x)
    IN /\ Assert(WtTimeToTicks(tm, WtE1601) = ZNat(x) /\ tm.ns % 100 = 0 /\ tm.ns >= 0 /\ tm.ns < 1000000000, "ticks -> time -> ticks is not the identity (1601)")
       /\ Assert(WtTimeToTicks(tv, WtE1582) = ZNat(x), "ticks -> time -> ticks is not the identity (1582)")
       /\ Assert(DAdd(DMul(hl.hi, DPow2(32)), hl.lo) = x /\ DFromBytesLE(WtLE64(x)) = x, "64-bit machine forms")
       /\ Emit([k |-> "tick", x |-> DText(x), le |-> WtLE64(x), hi |-> DText(hl.hi), lo |-> DText(hl.lo), i64 |-> ZText(WtI64OfU64(x)),
                s |-> ZText(tm.s), ns |-> tm.ns, reg |-> Reg(x, WtE1601),
                v1 |-> isV1, v1s |-> ZText(tv.s), v1ns |-> tv.ns, v1reg |-> Reg(x, WtE1582)])

(* signed 64-bit values: LDAP timestamps, durations, seconds *)
Ints == {z \in {ZNat(x) : x \in Ticks} \cup {ZMk(TRUE, x) : x \in Ticks} : ZInI64(z)} \cup {ZMinI64, ZMaxI64}
IntCase(z) ==
    LET u == WtLdapToUnix(z)
        lreg == IF ZLt(z, ZNat(WtE1601)) THEN "before-1970" ELSE IF WtTicksInNsWindow(z.mag, WtE1601) THEN "int64ns-window" ELSE "outside-int64ns-window"
        back == WtUnixToLdap(u)
        dsec == WtDurToSec(z)
        dur == WtSecToDur(z)
        ul == WtUnixToLdap(z)
    IN /\ Assert(ZLt(z, ZNat(WtE1601)) \/ (ZLe(back, z) /\ ZLt(ZSub(z, back), ZNat(DPow10(7)))), "ldap -> unix -> ldap loses more than the sub-second part")
       /\ Assert(WtDurToSec(dur) = ZNat(z.mag) /\ ~u.neg /\ ~dsec.neg, "seconds -> duration -> seconds")
       /\ Assert(z.neg \/ WtLdapToUnix(ul) = z, "unix -> ldap -> unix")
       /\ Assert(ZLt(z, ZNat(WtE1601)) \/ WtLdapToUnixSigned(z) = u, "clamped and signed readings differ after 1970")
       /\ Emit([k |-> "int", z |-> ZText(z), ldap |-> ZText(u), ldapx |-> ZText(WtLdapToUnixSigned(z)), lreg |-> lreg, back |-> ZText(back), dsec |-> ZText(dsec), isMin |-> (z = ZMinI64),
                durOk |-> ZInI64(dur), dur |-> ZText(dur), ulOk |-> ZInI64(ul), ul |-> ZText(ul), ulback |-> ZText(WtLdapToUnix(ul)),
                ulreg |-> IF ul.neg \/ ZLt(ul, ZNat(WtE1601)) THEN "before-1970" ELSE IF WtTicksInNsWindow(ul.mag, WtE1601) THEN "int64ns-window" ELSE "outside-int64ns-window"])

(* Go times: the time of every tick value under both epochs, exactly on a tick and 1 / 99 ns past it *)
TimeCase(tm0, r) ==
    LET tm == WtTime(tm0.s, tm0.ns + r)
        ft == WtTimeToTicks(tm, WtE1601)
        ftOk == ~ft.neg /\ DInU64(ft.mag)
        v1 == WtTimeToTicks(tm, WtE1582)
        ldap == WtUnixToLdap(tm.s)
    IN /\ Assert((r = 0 /\ ftOk) => WtTicksToTime(ft.mag, WtE1601) = tm, "time -> ticks -> time is not the identity")
       /\ Emit([k |-> "time", s |-> ZText(tm.s), ns |-> tm.ns, exact |-> (r = 0), win |-> WtTimeInNsWindow(tm),
                ftOk |-> ftOk, ftP |-> (ftOk /\ DLt(ft.mag, D2p63)), ft |-> ZText(ft), le |-> IF ftOk THEN WtLE64(ft.mag) ELSE <<>>,
                v1Ok |-> (~v1.neg /\ DLt(v1.mag, D2p60)), v1 |-> ZText(v1), ldapOk |-> ZInI64(ldap), ldap |-> ZText(ldap)])
Times == {WtTicksToTime(x, WtE1601) : x \in Ticks} \cup {WtTicksToTime(x, WtE1582) : x \in {y \in Ticks : DLt(y, D2p60)}}

(* spellings and non-numerals for the two string parsers *)
Spell(z) == {ZText(z), (IF z.neg THEN <<45, 48, 48>> ELSE <<48, 48, 48>>) \o DText(z.mag)} \cup (IF z.neg THEN {} ELSE {<<43>> \o DText(z.mag)})
Numerals == UNION {Spell(z) : z \in {ZZero, ZNat(WtE1601), ZNat(DAdd(WtE1601, DPow10(7))), ZNat(DAdd(WtE1601, <<1,2,3,4,5,6,7,8,9>>)), ZMk(TRUE, <<8,6,4,0,0,0,0,0,0,0,0,0>>),
                                     ZNat(WtNever), ZMinI64, ZNat(DAdd(DAdd(WtE1601, NsSpan), DOne))}} \cup {<<45, 48>>}
NonNumerals == {<<>>, <<97, 98, 99>>, <<32, 49>>, <<49, 32>>, <<49, 46, 48>>, <<49, 101, 55>>, <<48, 120, 49, 48>>, <<45>>, <<43>>, <<45, 45, 49>>, <<49, 95, 48>>,
                DText(D2p63), <<45>> \o DText(DAdd(D2p63, DOne)), DText(U64Max), DText(DPow10(30)), <<49, 10>>}
TextCase(t) ==
    LET num == ZIsNumeral(t) /\ ZInI64(ZOfText(t))
        z == IF num THEN ZOfText(t) ELSE ZZero
    IN Emit([k |-> "text", t |-> t, num |-> num, ldap |-> ZText(IF num THEN WtLdapToUnix(z) ELSE ZZero), ldapx |-> ZText(IF num THEN WtLdapToUnixSigned(z) ELSE ZZero), dsec |-> ZText(IF num THEN WtDurToSec(z) ELSE ZZero),
             lreg |-> IF ~num \/ ZLt(z, ZNat(WtE1601)) THEN "before-1970" ELSE IF WtTicksInNsWindow(z.mag, WtE1601) THEN "int64ns-window" ELSE "outside-int64ns-window",
             isMin |-> (num /\ z = ZMinI64)])

Init ==
    \/ "tick" \in Kinds /\ \E x \in Ticks : c = <<"tick", x>> /\ TickCase(x)
    \/ "int" \in Kinds /\ \E z \in Ints : c = <<"int", z>> /\ IntCase(z)
    \/ "time" \in Kinds /\ \E tm \in Times : \E r \in {0, 1, 99} : c = <<"time", tm, r>> /\ TimeCase(tm, r)
    \/ "text" \in Kinds /\ \E t \in Numerals \cup NonNumerals : c = <<"text", t>> /\ TextCase(t)
Next == FALSE /\ UNCHANGED c
=============================================================================
