-------------------------------- MODULE NTLM --------------------------------
(* NTLM response computation and verification, written from [MS-NLMP]:
     section 6      DESL(K, D) = DES(K[0..6], D) || DES(K[7..13], D) || DES(K[14..15] || Z(5), D)
     section 3.3.1  NTOWFv1 = MD4(UNICODE(Passwd)); LMOWFv1 = DES(UpperCase(Passwd)[0..6], "KGS!@#$%") || DES(..[7..13], ..)
                    NtChallengeResponse = DESL(NTOWFv1, ServerChallenge); LmChallengeResponse = DESL(LMOWFv1, ServerChallenge)
     section 3.3.2  NTOWFv2(Passwd, User, UserDom) = HMAC_MD5(MD4(UNICODE(Passwd)), UNICODE(Uppercase(User) || UserDom))
                    temp = 0x01 0x01 Z(6) Time ClientChallenge Z(4) ServerName(AV pairs) Z(4)
                    NTProofStr = HMAC_MD5(ResponseKeyNT, ServerChallenge || temp);  NtChallengeResponse = NTProofStr || temp
                    LmChallengeResponse = HMAC_MD5(ResponseKeyLM, ServerChallenge || ClientChallenge) || ClientChallenge
     section 2.2.2.7 NTLMv2_CLIENT_CHALLENGE: RespType 1, HiRespType 1, Reserved1 (2), Reserved2 (4), TimeStamp (8),
                    ChallengeFromClient (8), Reserved3 (4), AvPairs (AV_PAIR list ending with MsvAvEOL)
   and hashcat's documented NetNTLMv2 line (mode 5600): user::domain:serverchallenge:ntproofstr:blob.
   MD4, MD5, HMAC, UTF-16LE, case mapping and DES key expansion are the specification's own; only the DES
   encryption itself is a Prim term (the spec hands the harness every key and the challenge). *)
EXTENDS MD4, MD5, Text, DESKey

(* ---------- NTLMv1 ---------- *)
NTOWFv1(pw) == MD4Sum(UTF16LE(pw))
DESLKeys(K) == << ParityExpand(SubSeq(K, 1, 7)), ParityExpand(SubSeq(K, 8, 14)), ParityExpand(SubSeq(K, 15, 16) \o Zeros(5)) >>
(* the two DES keys of LMOWFv1 (password as code points < 128): upper-case, zero-pad / cut to 14, 7 + 7 *)
LMUp14(pw) == LET u == Upper(pw) IN [i \in 1..14 |-> IF i <= Len(u) THEN u[i] ELSE 0]
LMKeys(pw) == << ParityExpand(SubSeq(LMUp14(pw), 1, 7)), ParityExpand(SubSeq(LMUp14(pw), 8, 14)) >>
LMMagic == <<75, 71, 83, 33, 64, 35, 36, 37>>       \* "KGS!@#$%"

(* ---------- NTLMv2 ---------- *)
NTOWFv2(pw, user, dom) == HMACMD5(NTOWFv1(pw), UTF16LE(Upper(user) \o dom))
NTProof(key, sc, blob) == HMACMD5(key, sc \o blob)

BlobFixedLen == 28
BlobFixedOK(blob) == /\ Len(blob) >= BlobFixedLen
                     /\ blob[1] = 1 /\ blob[2] = 1
                     /\ SubSeq(blob, 3, 8) = Zeros(6)
                     /\ SubSeq(blob, 25, 28) = Zeros(4)
BlobTime(blob) == SubSeq(blob, 9, 16)
BlobCC(blob) == SubSeq(blob, 17, 24)
BlobTail(blob) == SubSeq(blob, 29, Len(blob))
(* an AV_PAIR list: (AvId:2 LE, AvLen:2 LE, value)* ending with MsvAvEOL (0, 0); 3.3.2 appends Z(4) after it *)
RECURSIVE AvPairsOK(_)
AvPairsOK(t) == IF Len(t) < 4 THEN FALSE
                ELSE LET id == UnLE16(SubSeq(t, 1, 2))  n == UnLE16(SubSeq(t, 3, 4))
                     IN IF id = 0 THEN n = 0 /\ (Len(t) = 4 \/ SubSeq(t, 5, Len(t)) = Zeros(4))
                        ELSE 4 + n <= Len(t) /\ AvPairsOK(SubSeq(t, 5 + n, Len(t)))

(* what an independent verifier that knows the password does with an NtChallengeResponse *)
V2ProofOK(resp, pw, user, dom, sc) == /\ Len(resp) > 16
                                      /\ SubSeq(resp, 1, 16) = NTProof(NTOWFv2(pw, user, dom), sc, SubSeq(resp, 17, Len(resp)))

(* ---------- hashcat mode 5600 line ---------- *)
RECURSIVE SplitOn(_, _)
SplitOn(s, sep) == IF \A i \in 1..Len(s) : s[i] # sep THEN <<s>>
                   ELSE LET i == CHOOSE i \in 1..Len(s) : s[i] = sep /\ \A j \in 1..(i - 1) : s[j] # sep
                        IN <<SubSeq(s, 1, i - 1)>> \o SplitOn(SubSeq(s, i + 1, Len(s)), sep)
HexVal(c) == IF c >= 48 /\ c <= 57 THEN c - 48 ELSE IF c >= 97 /\ c <= 102 THEN c - 87 ELSE IF c >= 65 /\ c <= 70 THEN c - 55 ELSE -1
IsHex(s) == Len(s) % 2 = 0 /\ \A i \in 1..Len(s) : HexVal(s[i]) >= 0
UnHex(s) == [i \in 1..(Len(s) \div 2) |-> 16 * HexVal(s[2 * i - 1]) + HexVal(s[2 * i])]
HexCP(bytes) == LET d(n) == IF n < 10 THEN 48 + n ELSE 87 + n
                IN [i \in 1..(2 * Len(bytes)) |-> IF i % 2 = 1 THEN d(bytes[(i + 1) \div 2] \div 16) ELSE d(bytes[i \div 2] % 16)]

(* ---------- known answers: [MS-NLMP] 4.2 (User "User", UserDom "Domain", Passwd "Password",
   ServerChallenge 01 23 45 67 89 ab cd ef, ClientChallenge aa x 8, Time 0, server name "Server") ---------- *)
KatPw == <<80, 97, 115, 115, 119, 111, 114, 100>>
KatUser == <<85, 115, 101, 114>>
KatDom == <<68, 111, 109, 97, 105, 110>>
KatSC == <<1, 35, 69, 103, 137, 171, 205, 239>>
KatCC == Rep(170, 8)
KatAv == <<2, 0, 12, 0>> \o UTF16LE(KatDom) \o <<1, 0, 12, 0>> \o UTF16LE(<<83, 101, 114, 118, 101, 114>>) \o Zeros(4)
KatTemp == <<1, 1>> \o Zeros(6) \o Zeros(8) \o KatCC \o Zeros(4) \o KatAv \o Zeros(4)
ASSUME HexLower(NTOWFv1(KatPw)) = "a4f49c406510bdcab6824ee7c30fd852"                          \* 4.2.2.1.2
ASSUME HexLower(NTOWFv2(KatPw, KatUser, KatDom)) = "0c868a403bfd7a93a3001ef22ef02e3f"           \* 4.2.4.1.1: domain NOT upper-cased
ASSUME HexLower(NTProof(NTOWFv2(KatPw, KatUser, KatDom), KatSC, KatCC)) = "86c35097ac9cec102554764a57cccc19"   \* 4.2.4.2.1 (LMv2)
ASSUME HexLower(NTProof(NTOWFv2(KatPw, KatUser, KatDom), KatSC, KatTemp)) = "68cd0ab851e51c96aabc927bebef6a1c" \* 4.2.4.2.2
ASSUME BlobFixedOK(KatTemp) /\ BlobCC(KatTemp) = KatCC /\ AvPairsOK(BlobTail(KatTemp)) /\ ~AvPairsOK(UTF16LE(KatDom) \o Zeros(4))
ASSUME SplitOn(<<97, 58, 58, 98, 58>>, 58) = << <<97>>, <<>>, <<98>>, <<>> >>
ASSUME UnHex(HexCP(<<0, 9, 10, 255, 171>>)) = <<0, 9, 10, 255, 171>> /\ IsHex(<<65, 102>>) /\ ~IsHex(<<103, 48>>) /\ ~IsHex(<<48>>)
=============================================================================
