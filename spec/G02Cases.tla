------------------------------ MODULE G02Cases ------------------------------
(***************************************************************************)
(* Growth G02, model -> code: the case table over InfoLevels.tla.          *)
(* For every structure of the layout table TLC enumerates value patterns   *)
(*   zero / max (all bytes 0xFF) / distinct (pairwise different bytes,     *)
(*   ascending and descending) / one field all-ones, the others zero (one  *)
(*   per fixed-width field: exposes swapped, narrowed, dropped fields) /   *)
(*   NRandom seeded patterns,                                              *)
(* crossed, where the structure has a counted field, with the lengths of   *)
(* VarLens (content seeded; the long BigLens with one pattern only) resp.  *)
(* the EA lists of G02FeaLists; counting                                   *)
(* fields always hold the true length (well-formed values).  Each case     *)
(* carries the value, the byte range of every field, the encoding, and     *)
(* the verdict of the specification's own laws on it (round trip with      *)
(* every suffix, rejection of the listed strict prefixes).                 *)
(* Further lines: "shape" (the declaration of every structure, incl. the   *)
(* pointer-bearing MS-DTYP ones), "union" (the same 8 SecurityFeatures     *)
(* bytes under the three readings), "list" (NextEntryOffset chains, model  *)
(* law only: the library has no list codec).                               *)
(***************************************************************************)
EXTENDS InfoLevels, Json

CONSTANTS Seed, NRandom, VarLens, BigLens, Kinds

VARIABLE c

G02Suffixes == <<<<>>, <<0>>, <<238>>, Pattern((Seed + 5) % 65537, 7)>>
G02SeqSet(q) == { q[i] : i \in 1..Len(q) }
G02AnyBytes(k, n) == [i \in 1..n |-> (i * 167 + (Seed + k) * 13 + (i \div 256) * 5) % 256]

G02WireNames == ILInfoLevels \o ILSecurityFeatures \o ILDtypWire
G02AllNames  == G02WireNames \o ILDtypShape

G02FeaLists ==
    << <<>>,
       <<[flag |-> 0, name |-> <<65>>, value |-> <<>>]>>,
       <<[flag |-> 128, name |-> <<46, 69, 65>>, value |-> <<1, 2, 3>>], [flag |-> 0, name |-> <<>>, value |-> <<255>>]>>,
       <<[flag |-> Seed % 256, name |-> [i \in 1..255 |-> 1 + ((i + Seed) % 255)], value |-> G02AnyBytes(7, 300)],
         [flag |-> 0, name |-> <<66>>, value |-> <<0>>]>> >>

(* ---- byte patterns for the fixed-width part *)
G02FixedIdx(S) == { i \in 1..Len(S) : ILIsFixed(S[i]) }
G02OneHot(S, i) == [j \in 1..ILFixedSize(S) |-> IF j > ILFixedOff(S, i) /\ j <= ILFixedOff(S, i) + S[i].n THEN 255 ELSE 0]
G02Patterns(S) ==
    LET n == ILFixedSize(S) IN
    IF n = 0 THEN { [id |-> "zero", p |-> <<>>] }
    ELSE { [id |-> "zero", p |-> Zeros(n)], [id |-> "max", p |-> Rep(255, n)],
           [id |-> "distinct", p |-> [i \in 1..n |-> i % 256]], [id |-> "mirror", p |-> [i \in 1..n |-> 255 - (i % 256)]] }
         \cup { [id |-> "onehot:" \o S[i].name, p |-> G02OneHot(S, i)] : i \in G02FixedIdx(S) }
         \cup { [id |-> "rand:" \o ToString(r), p |-> Pattern((Seed * 37 + r * 101 + n) % 65537, n)] : r \in 1..NRandom }

(* ---- the variable part: the choices for all counted / self-sized fields of S at once *)
G02VarIdx(S) == { i \in 1..Len(S) : S[i].k \in {"var", "fealist"} }
G02MaxCount(S, i) == IF S[ILIndex(S, S[i].len)].k = "u8" THEN 255 ELSE 65535
G02LenChoices(S, Ls) == { [id |-> "/len=" \o ToString(L), x |-> G02AnyBytes(L, L)] : L \in { l \in Ls : \A i \in G02VarIdx(S) : l <= G02MaxCount(S, i) } }
G02HasFea(S) == \E i \in G02VarIdx(S) : S[i].k = "fealist"
G02VarChoices(S) ==
    IF G02VarIdx(S) = {} THEN { [id |-> "", x |-> <<>>] }
    ELSE IF G02HasFea(S)
         THEN { [id |-> "/eas=" \o ToString(Len(G02FeaLists[j])) \o "." \o ToString(j), x |-> G02FeaLists[j]] : j \in 1..Len(G02FeaLists) }
         ELSE G02LenChoices(S, VarLens)
(* the long counted fields (BigLens) go with the distinct-byte pattern only *)
G02BigChoices(S) == IF G02VarIdx(S) = {} \/ G02HasFea(S) THEN {} ELSE G02LenChoices(S, BigLens)

(* the value a pattern and a variable-part choice stand for: fixed fields decoded from their slice of the pattern,
   counted fields = the choice, counting fields overwritten with the true count *)
G02Value(S, p, x) ==
    LET raw(i) == IF ILIsFixed(S[i]) THEN ILDecField(S[i], SubSeq(p, ILFixedOff(S, i) + 1, ILFixedOff(S, i) + S[i].n)) ELSE x
    IN [nm \in ILNames(S) |->
          LET i == ILIndex(S, nm)
              own == ILLenOwners(S, nm)
          IN IF own = {} THEN raw(i)
             ELSE LET j == CHOOSE j \in own : TRUE IN ILCountEnc(S[i].k, Len(x) \div S[j].unit)]

G02CasesOf(S) == { [id |-> q.id \o y.id, v |-> G02Value(S, q.p, y.x)] : q \in G02Patterns(S), y \in G02VarChoices(S) }
                 \cup { [id |-> q.id \o y.id, v |-> G02Value(S, q.p, y.x)] : q \in { r \in G02Patterns(S) : r.id = "distinct" }, y \in G02BigChoices(S) }

(* ---- the specification judged on its own cases *)
G02Cuts(S, v) == LET n == Len(ILEncode(S, v)) IN { k \in {0, 1, ILFixedSize(S) - 1, ILFixedSize(S), n \div 2, n - 1} : k >= 0 /\ k < n }
G02Law(S, v) == /\ ILWellFormed(S, v)
                /\ \A suf \in G02SeqSet(G02Suffixes) : ILRoundTrip(S, v, suf)
                /\ \A k \in G02Cuts(S, v) : ILPrefixRejected(S, v, k)

Emit(r) == PrintT(ToJson(r))
G02Fields(S, v) == LET sp == ILSpans(S, v) IN
                   [i \in 1..Len(S) |-> [name |-> S[i].name, k |-> S[i].k, off |-> sp[i][1], n |-> sp[i][2], ref |-> S[i].ref, v |-> v[S[i].name]]]
G02Case(s, x) ==
    LET S == ILStruct(s) IN
    Emit([k |-> "case", g |-> ILGroupOf(s), s |-> s, id |-> x.id, f |-> G02Fields(S, x.v), enc |-> ILEncode(S, x.v),
          fixed |-> ILFixedSize(S), cut |-> G02Cuts(S, x.v), law |-> G02Law(S, x.v)])
G02Shape(s) ==
    LET S == ILStruct(s) IN
    Emit([k |-> "shape", g |-> ILGroupOf(s), s |-> s, wire |-> ILIsWire(S), fixed |-> ILFixedSize(S),
          f |-> [i \in 1..Len(S) |-> [name |-> S[i].name, k |-> S[i].k, n |-> S[i].n, len |-> S[i].len, ref |-> S[i].ref]]])

(* the same eight bytes under the three readings of SecurityFeatures: every reading re-encodes to the same bytes *)
G02UnionBytes == { q.p : q \in G02Patterns(ILStruct("SecurityFeaturesConnectionlessTransport")) }
G02Union(p) ==
    LET view(s) == ILDecode(ILStruct(s), p) IN
    Emit([k |-> "union", bytes |-> p,
          views |-> [i \in 1..Len(ILSecurityFeatures) |-> [s |-> ILSecurityFeatures[i], v |-> view(ILSecurityFeatures[i]).v]],
          law |-> \A i \in 1..Len(ILSecurityFeatures) :
                    LET r == view(ILSecurityFeatures[i]) IN r.ok /\ r.n = 8 /\ ILEncode(ILStruct(ILSecurityFeatures[i]), r.v) = p])

(* NextEntryOffset chains: 1..3 entries with names of different lengths, alignments 1 / 4 / 8 *)
G02ListVals(S, k) ==
    LET pats == << [i \in 1..ILFixedSize(S) |-> i % 256], Pattern((Seed + 11) % 65537, ILFixedSize(S)), Rep(255, ILFixedSize(S)) >>
        lens == <<13, 0, 6>>
    IN [i \in 1..k |-> G02Value(S, pats[i], G02AnyBytes(i, lens[i]))]
G02List(s, k, a) ==
    LET S == ILStruct(s) IN
    Emit([k |-> "list", s |-> s, entries |-> k, align |-> a, total |-> Len(ILEncodeList(S, G02ListVals(S, k), a)),
          law |-> ILListLaw(S, G02ListVals(S, k), a)])

Init ==
    \/ /\ c = <<"hdr">>
       /\ Emit([k |-> "hdr", sufs |-> G02Suffixes])
    \/ /\ "shape" \in Kinds
       /\ \E i \in 1..Len(G02AllNames) : c = <<"shape", i>> /\ G02Shape(G02AllNames[i])
    \/ /\ "case" \in Kinds
       /\ \E i \in 1..Len(G02WireNames) : \E x \in G02CasesOf(ILStruct(G02WireNames[i])) :
            c = <<"case", i, x.id>> /\ G02Case(G02WireNames[i], x)
    \/ /\ "union" \in Kinds
       /\ \E p \in G02UnionBytes : c = <<"union", p>> /\ G02Union(p)
    \/ /\ "list" \in Kinds
       /\ \E s \in ILListLevels : \E k \in 1..3 : \E a \in {1, 4, 8} : c = <<"list", s, k, a>> /\ G02List(s, k, a)
Next == FALSE /\ UNCHANGED c
=============================================================================
