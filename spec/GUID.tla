-------------------------------- MODULE GUID --------------------------------
(***************************************************************************)
(* GUID per [MS-DTYP] 2.3.4.                                               *)
(*                                                                         *)
(* 2.3.4.1  RPC IDL:  Data1 unsigned long, Data2 unsigned short,           *)
(*          Data3 unsigned short, Data4 byte[8].                           *)
(* 2.3.4.2  packet representation (16 bytes): Data1, Data2, Data3 each in  *)
(*          LITTLE-endian byte order, then the eight bytes of Data4 as     *)
(*          they are ("mixed-endian" layout).                              *)
(* 2.3.4.3  curly braced string: "{" 8hex "-" 4hex "-" 4hex "-" 4hex "-"   *)
(*          12hex "}" = Data1, Data2, Data3, Data4[0..1], Data4[2..7],     *)
(*          each group written as a number, most significant digit first.  *)
(*                                                                         *)
(* The five text formats N/D/B/P/X are the .NET System.Guid format         *)
(* specifiers; all print lower-case hex and are parsed case-insensitively. *)
(*                                                                         *)
(* A GUID value is its CANONICAL nibble sequence cn (32 nibbles) = the hex *)
(* digits in the order they appear in every text format.  The five fields  *)
(* of windows/guid.GUID are A = cn[1..8], B = cn[9..12], C = cn[13..16],   *)
(* D = cn[17..20] (Data4[0..1]), E = cn[21..32] (Data4[2..7], 48 bits).    *)
(***************************************************************************)
EXTENDS HexText

(* wire (2.3.4.2) <-> canonical nibbles *)
GuidCanon(w) == HxNibbles(<<w[4], w[3], w[2], w[1], w[6], w[5], w[8], w[7]>> \o SubSeq(w, 9, 16))
GuidWire(cn) == LET b == HxBytes(cn) IN <<b[4], b[3], b[2], b[1], b[6], b[5], b[8], b[7]>> \o SubSeq(b, 9, 16)

GuidFields(cn) == [a |-> SubSeq(cn, 1, 8), b |-> SubSeq(cn, 9, 12), c |-> SubSeq(cn, 13, 16),
                   d |-> SubSeq(cn, 17, 20), e |-> SubSeq(cn, 21, 32)]
GuidOfFields(f) == f.a \o f.b \o f.c \o f.d \o f.e

(* text formats as templates *)
GuidDash == <<45>>
GuidOx == <<48, 120>>                      \* "0x"
GuidTplN == TplNib(1, 32)
GuidTplD == TplNib(1, 8) \o TplLit(GuidDash) \o TplNib(9, 12) \o TplLit(GuidDash) \o TplNib(13, 16) \o TplLit(GuidDash)
            \o TplNib(17, 20) \o TplLit(GuidDash) \o TplNib(21, 32)
GuidTplB == TplLit(<<123>>) \o GuidTplD \o TplLit(<<125>>)       \* { }
GuidTplP == TplLit(<<40>>) \o GuidTplD \o TplLit(<<41>>)         \* ( )
(* X: {0xdddddddd,0xdddd,0xdddd,{0xdd,0xdd,0xdd,0xdd,0xdd,0xdd,0xdd,0xdd}} -- Data1, Data2, Data3, then the eight bytes of Data4 *)
RECURSIVE GuidTplXBytes(_)
GuidTplXBytes(k) == IF k > 8 THEN <<>>
                    ELSE (IF k = 1 THEN <<>> ELSE TplLit(<<44>>)) \o TplLit(GuidOx) \o TplNib(15 + 2 * k, 16 + 2 * k) \o GuidTplXBytes(k + 1)
GuidTplX == TplLit(<<123>> \o GuidOx) \o TplNib(1, 8) \o TplLit(<<44>> \o GuidOx) \o TplNib(9, 12) \o TplLit(<<44>> \o GuidOx) \o TplNib(13, 16)
            \o TplLit(<<44, 123>>) \o GuidTplXBytes(1) \o TplLit(<<125, 125>>)

GuidFormats == {"N", "D", "B", "P", "X"}
GuidFormatSeq == <<"N", "D", "B", "P", "X">>
GuidTpl(fmt) == CASE fmt = "N" -> GuidTplN [] fmt = "D" -> GuidTplD [] fmt = "B" -> GuidTplB [] fmt = "P" -> GuidTplP [] fmt = "X" -> GuidTplX

GuidText(fmt, cn) == TplFormat(GuidTpl(fmt), cn)
GuidPosN == TplPos(GuidTplN)
GuidPosD == TplPos(GuidTplD)
GuidPosB == TplPos(GuidTplB)
GuidPosP == TplPos(GuidTplP)
GuidPosX == TplPos(GuidTplX)
GuidPos(fmt) == CASE fmt = "N" -> GuidPosN [] fmt = "D" -> GuidPosD [] fmt = "B" -> GuidPosB [] fmt = "P" -> GuidPosP [] fmt = "X" -> GuidPosX
GuidParse(fmt, t) == TplParseAt(GuidTpl(fmt), GuidPos(fmt), t)
(* a text denotes a GUID iff it matches one of the five templates (they are pairwise disjoint) *)
GuidParseAny(t) == IF \E fmt \in GuidFormats : TplMatches(GuidTpl(fmt), t)
                   THEN LET fmt == CHOOSE x \in GuidFormats : TplMatches(GuidTpl(x), t) IN
                        [ok |-> TRUE, fmt |-> fmt, ns |-> GuidParse(fmt, t).ns]
                   ELSE [ok |-> FALSE, fmt |-> "", ns |-> <<>>]

(* known answers: the example of [MS-DTYP] 2.3.4.2/2.3.4.3, and the .NET documentation's X-format shape *)
GuidExWire == <<174, 79, 29, 248, 236, 125, 208, 17, 167, 101, 0, 160, 201, 30, 107, 246>>   \* ae 4f 1d f8 ec 7d d0 11 a7 65 00 a0 c9 1e 6b f6
GuidExB == <<123, 102,56,49,100,52,102,97,101, 45, 55,100,101,99, 45, 49,49,100,48, 45, 97,55,54,53, 45, 48,48,97,48,99,57,49,101,54,98,102,54, 125>>
ASSUME GuidText("B", GuidCanon(GuidExWire)) = GuidExB                  \* {f81d4fae-7dec-11d0-a765-00a0c91e6bf6}
ASSUME GuidWire(GuidParse("B", GuidExB).ns) = GuidExWire
ASSUME Len(GuidTplX) = 68 /\ Len(GuidTplN) = 32 /\ Len(GuidTplD) = 36 /\ Len(GuidTplB) = 38
ASSUME GuidText("X", GuidCanon(GuidExWire)) =
       <<123,48,120,102,56,49,100,52,102,97,101,44,48,120,55,100,101,99,44,48,120,49,49,100,48,44,123,
         48,120,97,55,44,48,120,54,53,44,48,120,48,48,44,48,120,97,48,44,48,120,99,57,44,48,120,49,101,44,48,120,54,98,44,48,120,102,54,125,125>>
       \* {0xf81d4fae,0x7dec,0x11d0,{0xa7,0x65,0x00,0xa0,0xc9,0x1e,0x6b,0xf6}}
ASSUME \A f \in GuidFormats : TplWidth(GuidTpl(f)) = 32
=============================================================================
