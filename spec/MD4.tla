-------------------------------- MODULE MD4 --------------------------------
(* RFC 1320, written from the RFC text: an independent reference for crypto/md4. *)
EXTENDS Integers, Sequences, Word32, Bytes

MD4Init == << W(26437, 8961), W(61389, 43913), W(39098, 56574), W(4146, 21622) >>
    \* 0x67452301 0xefcdab89 0x98badcfe 0x10325476

MD4F(x, y, z) == WOr(WAnd(x, y), WAnd(WNot(x), z))
MD4G(x, y, z) == WOr(WOr(WAnd(x, y), WAnd(x, z)), WAnd(y, z))
MD4H(x, y, z) == WXor(WXor(x, y), z)

MD4K == << W(0, 0), W(23170, 31129), W(28377, 60321) >>     \* 0, 0x5A827999, 0x6ED9EBA1
MD4Shift == << <<3, 7, 11, 19>>, <<3, 5, 9, 13>>, <<3, 9, 11, 15>> >>
MD4Order == << <<0,1,2,3,4,5,6,7,8,9,10,11,12,13,14,15>>,
            <<0,4,8,12,1,5,9,13,2,6,10,14,3,7,11,15>>,
            <<0,8,4,12,2,10,6,14,1,9,5,13,3,11,7,15>> >>

MD4Step(st, i, X) ==
    LET r == i \div 16
        a == st[1]  b == st[2]  c == st[3]  d == st[4]
        f == CASE r = 0 -> MD4F(b, c, d) [] r = 1 -> MD4G(b, c, d) [] OTHER -> MD4H(b, c, d)
        k == MD4Order[r + 1][(i % 16) + 1]
        s == MD4Shift[r + 1][(i % 4) + 1]
        t == WRol(WAdd(WAdd(WAdd(a, f), X[k + 1]), MD4K[r + 1]), s)
    IN <<d, t, b, c>>

RECURSIVE MD4Rounds(_, _, _)
MD4Rounds(st, i, X) == IF i = 48 THEN st ELSE MD4Rounds(MD4Step(st, i, X), i + 1, X)

(* one 64-byte block *)
MD4Compress(h, blk) ==
    LET X == [j \in 1..16 |-> WFromLE(SubSeq(blk, 4 * j - 3, 4 * j))]
        r == MD4Rounds(h, 0, X)
    IN <<WAdd(h[1], r[1]), WAdd(h[2], r[2]), WAdd(h[3], r[3]), WAdd(h[4], r[4])>>

RECURSIVE MD4Absorb(_, _)
MD4Absorb(h, m) == IF Len(m) < 64 THEN h ELSE MD4Absorb(MD4Compress(h, SubSeq(m, 1, 64)), SubSeq(m, 65, Len(m)))

(* padding for a message of n bytes (n < 2^28 so the bit count fits): 0x80, zeros to 56 mod 64, 64-bit LE bit count *)
MD4PadFor(n) ==
    LET r == n % 64
        z == IF r < 56 THEN 55 - r ELSE 119 - r
        bits == n * 8
    IN <<128>> \o Zeros(z) \o LE(bits, 4) \o Zeros(4)

MD4Digest(h) == WToLE(h[1]) \o WToLE(h[2]) \o WToLE(h[3]) \o WToLE(h[4])

(* finalisation given the chaining value after all full blocks, the unprocessed tail and the total length *)
MD4Finalize(h, tail, n) == MD4Digest(MD4Absorb(h, tail \o MD4PadFor(n)))

MD4Sum(m) == MD4Finalize(MD4Absorb(MD4Init, m), SubSeq(m, Len(m) - (Len(m) % 64) + 1, Len(m)), Len(m))

(* ---- long messages ----
   TLC integers are 32 bits wide, so a length of 2^28 bytes or more is carried as the pair (q, r) = (n \div 2^20, n % 2^20);
   its 64-bit bit count 8n = q * 2^23 + 8r is written digit by digit. *)
MD4PadForBig(q, r) ==
    LET low == r * 8                                   \* < 2^23
        up == q \div 2                                 \* bits 24.. of the count
        z == IF r % 64 < 56 THEN 55 - (r % 64) ELSE 119 - (r % 64)
    IN <<128>> \o Zeros(z)
       \o << low % 256, (low \div 256) % 256, ((low \div 65536) % 128) + 128 * (q % 2),
             up % 256, (up \div 256) % 256, (up \div 65536) % 256, 0, 0 >>
(* Merkle-Damgard: the digest of P is the chaining value after the blocks of P \o pad(P).  So for a message that STARTS with
   P \o pad(P) -- of length (q, r), a multiple of 64 -- and continues with x, the digest follows from the digest d of P alone:
   absorb x and the padding for the total length from the chaining value d.  This is how a digest of a message far too long
   for TLC to read is still decided here: the code reports d for the long P, and its digest of the extended message must be
   the one computed from d (a wrong length trailer at large counts makes d wrong and the two disagree). *)
MD4FromDigest(d) == <<WFromLE(SubSeq(d, 1, 4)), WFromLE(SubSeq(d, 5, 8)), WFromLE(SubSeq(d, 9, 12)), WFromLE(SubSeq(d, 13, 16))>>
MD4Extend(d, q, r, x) ==
    LET t == r + Len(x)                                \* r < 2^20 and x short: no overflow
    IN MD4Digest(MD4Absorb(MD4FromDigest(d), x \o MD4PadForBig(q + (t \div 1048576), t % 1048576)))
ASSUME \A n \in {0, 1, 55, 56, 63, 64, 119, 120, 1000} : MD4PadForBig(0, n) = MD4PadFor(n)
ASSUME MD4PadForBig(64, 0) = <<128>> \o Zeros(55) \o <<0, 0, 0, 32, 0, 0, 0, 0>>          \* 64 MiB = 2^29 bits
ASSUME MD4PadForBig(4096, 1) = <<128>> \o Zeros(54) \o <<8, 0, 0, 0, 8, 0, 0, 0>>         \* 4 GiB + 1 byte = 2^35 + 8 bits
ASSUME LET P == [i \in 1..70 |-> (i * 7) % 256]  x == <<1, 2, 3>>
           PP == P \o MD4PadFor(70)
       IN Len(PP) = 128 /\ MD4Sum(PP \o x) = MD4Extend(MD4Sum(P), 0, 128, x) /\ MD4Sum(PP) = MD4Extend(MD4Sum(P), 0, 128, <<>>)

(* RFC 1320 A.5 test suite -- a broken oracle must fail loudly *)
ASSUME HexLower(MD4Sum(<<>>)) = "31d6cfe0d16ae931b73c59d7e0c089c0"
ASSUME HexLower(MD4Sum(<<97>>)) = "bde52cb31de33e46245e05fbdbd6fb24"
ASSUME HexLower(MD4Sum(<<97, 98, 99>>)) = "a448017aaf21d8525fc10ae87aa6729d"
ASSUME HexLower(MD4Sum([i \in 1..26 |-> 96 + i])) = "d79e1c308aa5bbcdeea8ed63df412da9"
ASSUME HexLower(MD4Sum([i \in 1..80 |-> 48 + (i % 10)])) = "e33b4ddc9c38f2199c3e7b164fcc0536"
=============================================================================
