------------------------------ MODULE HexText ------------------------------
(***************************************************************************)
(* Hexadecimal text as sequences of ASCII codes, and TEMPLATES: a textual  *)
(* format of a fixed-width value is a sequence of tokens, each either a    *)
(* literal character or "the k-th hex digit (nibble) of the value".        *)
(* Formatting and parsing are both derived from the one template, so a     *)
(* format is written down once, from the document that defines it.         *)
(*                                                                         *)
(* Wide values (32..128 bits) are sequences of nibbles 0..15, most         *)
(* significant first: TLC integers are 32-bit signed.                      *)
(***************************************************************************)
EXTENDS Integers, Sequences

HxNibble == 0..15
(* bytes -> nibbles (MSN first) and back *)
HxNibbles(bs) == [i \in 1..(2 * Len(bs)) |-> IF i % 2 = 1 THEN bs[(i + 1) \div 2] \div 16 ELSE bs[i \div 2] % 16]
HxBytes(ns) == [i \in 1..(Len(ns) \div 2) |-> 16 * ns[2 * i - 1] + ns[2 * i]]
HxZero(n) == [i \in 1..n |-> 0]

(* ASCII *)
HxIsUpperAZ(c) == c >= 65 /\ c <= 90
HxIsLowerAZ(c) == c >= 97 /\ c <= 122
HxLowerCode(c) == IF HxIsUpperAZ(c) THEN c + 32 ELSE c
HxUpperCode(c) == IF HxIsLowerAZ(c) THEN c - 32 ELSE c
HxDigitCode(n) == IF n < 10 THEN 48 + n ELSE 87 + n                 \* lower case: 0-9 a-f
(* value of a hex digit character, either case; -1 if it is none *)
HxVal(c) == IF c >= 48 /\ c <= 57 THEN c - 48
            ELSE IF c >= 97 /\ c <= 102 THEN c - 87
            ELSE IF c >= 65 /\ c <= 70 THEN c - 55
            ELSE -1

(* letter-case variants of a text: 0 = as is (lower), 1 = UPPER, 2 = aLtErNaTiNg (odd positions upper),
   3 = AlTeRnAtInG (even positions upper) *)
HxCase(t, mode) == [i \in 1..Len(t) |->
                       IF mode = 1 \/ (mode = 2 /\ i % 2 = 1) \/ (mode = 3 /\ i % 2 = 0) THEN HxUpperCode(t[i]) ELSE t[i]]
HxLower(t) == [i \in 1..Len(t) |-> HxLowerCode(t[i])]

(* ---- templates ---- *)
TplLit(codes) == [i \in 1..Len(codes) |-> [lit |-> TRUE, v |-> codes[i]]]
TplNib(from, to) == [i \in 1..(to - from + 1) |-> [lit |-> FALSE, v |-> from + i - 1]]
(* number of nibbles a template carries *)
TplWidth(tpl) == LET S == {tpl[i].v : i \in {j \in 1..Len(tpl) : ~tpl[j].lit}} IN
                 IF S = {} THEN 0 ELSE CHOOSE m \in S : \A x \in S : x <= m

(* format: lower-case text of the nibble sequence ns under template tpl *)
TplFormat(tpl, ns) == [i \in 1..Len(tpl) |-> IF tpl[i].lit THEN tpl[i].v ELSE HxDigitCode(ns[tpl[i].v])]

(* does text t match template tpl (letters compared case-insensitively)? *)
TplMatches(tpl, t) ==
    /\ Len(t) = Len(tpl)
    /\ \A i \in 1..Len(tpl) : IF tpl[i].lit THEN HxLowerCode(t[i]) = HxLowerCode(tpl[i].v) ELSE HxVal(t[i]) >= 0
(* position of the k-th nibble in the template (compute once per template: zero-arity definitions are cached) *)
TplPos(tpl) == [k \in 1..TplWidth(tpl) |-> CHOOSE i \in 1..Len(tpl) : ~tpl[i].lit /\ tpl[i].v = k]
(* parse: the nibble sequence carried by a matching text *)
TplParseAt(tpl, pos, t) ==
    IF ~TplMatches(tpl, t) THEN [ok |-> FALSE, ns |-> <<>>]
    ELSE [ok |-> TRUE, ns |-> [k \in 1..Len(pos) |-> HxVal(t[pos[k]])]]
TplParse(tpl, t) == TplParseAt(tpl, TplPos(tpl), t)

(* one-hot / one-cold / walking patterns over n nibbles (4n bits); bit 0 = most significant *)
HxOneHot(n, bit) == [i \in 1..n |-> IF (bit \div 4) + 1 = i THEN 2 ^ (3 - (bit % 4)) ELSE 0]
HxOneCold(n, bit) == [i \in 1..n |-> IF (bit \div 4) + 1 = i THEN 15 - 2 ^ (3 - (bit % 4)) ELSE 15]
HxWalkNibble(n, k, v) == [i \in 1..n |-> IF i = k THEN v ELSE 0]
HxWalkByte(n, k, v) == [i \in 1..n |-> IF i = 2 * k - 1 THEN v \div 16 ELSE IF i = 2 * k THEN v % 16 ELSE 0]
HxSetNib(ns, k, v) == [ns EXCEPT ![k] = v]
=============================================================================
