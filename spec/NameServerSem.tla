--------------------------- MODULE NameServerSem ---------------------------
(***************************************************************************)
(* Specification growth (G04; not one of the 20 listed properties, every   *)
(* assertion bound to this module is DRIFT): what the three NBNS servers   *)
(* of network/netbios/nbtns (Server, UDPServer, TCPServer) ANSWER, as the  *)
(* composition of the packet layer (NBNSPacket) with the name table        *)
(* (NameTable, which this module extends: same variable `tab`, same        *)
(* records).  NameService.tla fixes who is answered and which handler is   *)
(* chosen; this module fixes the content: one action per received request, *)
(* the table calls it makes in order, and the response it sends.           *)
(*                                                                         *)
(*   request  = [op, grp, items]   op \in {"query","reg","rel","ref","other"}*)
(*              items: for a query the question names, otherwise the       *)
(*              <<name, address>> pairs of the records in the answer       *)
(*              section (the library reads registrations from there)       *)
(*   response = [rcode, grp, answers]  always R=1, AA=1, same id           *)
(*                                                                         *)
(* Items are processed in order; the first failing table call fixes the    *)
(* RCODE and ends the request, the effects of the earlier items stay (a    *)
(* request is not a transaction).                                          *)
(*                                                                         *)
(* Named deviations of the library from RFC 1002 (kept out of the model's  *)
(* alphabet and probed once each by the driver, reported as drift):        *)
(*   GroupFromHeader  the group indication of a registration is taken from *)
(*                    header bit 0x0080 (RFC: the G bit of NB_FLAGS in the *)
(*                    RDATA); RDATA is taken wholesale as the address      *)
(*                    (RFC 1002 4.2.2: NB_FLAGS(2) + NB_ADDRESS(4)).       *)
(*   registrations and releases are read from the ANSWER section (RFC: the *)
(*                    ADDITIONAL section, with the name also as question). *)
(***************************************************************************)
EXTENDS NameTable

CONSTANTS MaxItems,      \* items per request: 1..MaxItems
          EmitPackets    \* BOOLEAN: print every transition as JSON

NSNames == Names
NSPairs == Names \X Addrs
SeqsUpTo(S, k) == UNION {[1..m -> S] : m \in 1..k}

(* ---- the table calls as functions of a table value (NameTable states them as actions on `tab`) ---- *)
NSRegErr(tb, n, t) == tb[n].p /\ ~(tb[n].t = "G" /\ t = "G")
NSRegister(tb, n, t, a) ==
    IF NSRegErr(tb, n, t) THEN tb
    ELSE IF tb[n].p
      THEN (IF a \in Range(tb[n].ow) THEN tb ELSE [tb EXCEPT ![n].ow = Append(@, a), ![n].ex = FALSE])
      ELSE [tb EXCEPT ![n] = NewRec(t, a, FALSE)]
NSQueryErr(tb, n) == ~(tb[n].p /\ tb[n].st = "A")
NSRelErr(tb, n, a) ==
    IF ~tb[n].p THEN TRUE
    ELSE IF tb[n].t = "G" THEN a \notin Range(tb[n].ow)
    ELSE tb[n].ow[1] # a
NSRelease(tb, n, a) ==
    IF NSRelErr(tb, n, a) THEN tb
    ELSE IF tb[n].t = "G" /\ Len(tb[n].ow) > 1 THEN [tb EXCEPT ![n].ow = Without(@, a)]
    ELSE [tb EXCEPT ![n] = NoRec]
NSRefErr(tb, n, a) == ~(tb[n].p /\ a \in Range(tb[n].ow))
NSRefresh(tb, n, a) == IF NSRefErr(tb, n, a) THEN tb ELSE [tb EXCEPT ![n].ex = tb[n].rx]

(* ---- one request: fold over its items; acc = [tb, rcode, grp, answers, stop] ---- *)
NSStep(acc, req, it) ==
    IF acc.stop THEN acc
    ELSE CASE req.op = "query" ->
                IF NSQueryErr(acc.tb, it)
                  THEN [acc EXCEPT !.rcode = "nameerr", !.stop = TRUE]
                  ELSE [acc EXCEPT !.answers = @ \o [i \in 1..Len(acc.tb[it].ow) |-> <<it, acc.tb[it].ow[i]>>],
                                   !.grp = @ \/ acc.tb[it].t = "G"]
           [] req.op = "reg" ->
                LET t == IF req.grp THEN "G" ELSE "U" IN
                IF NSRegErr(acc.tb, it[1], t)
                  THEN [acc EXCEPT !.rcode = "conflict", !.stop = TRUE]
                  ELSE [acc EXCEPT !.tb = NSRegister(@, it[1], t, it[2])]
           [] req.op = "rel" ->
                IF NSRelErr(acc.tb, it[1], it[2])
                  THEN [acc EXCEPT !.rcode = "srvfail", !.stop = TRUE]
                  ELSE [acc EXCEPT !.tb = NSRelease(@, it[1], it[2])]
           [] req.op = "ref" ->
                IF NSRefErr(acc.tb, it[1], it[2])
                  THEN [acc EXCEPT !.rcode = "srvfail", !.stop = TRUE]
                  ELSE [acc EXCEPT !.tb = NSRefresh(@, it[1], it[2])]
           [] OTHER -> acc

RECURSIVE NSFold(_, _, _)
NSFold(acc, req, k) == IF k > Len(req.items) THEN acc ELSE NSFold(NSStep(acc, req, req.items[k]), req, k + 1)

NSHandle(tb, req) ==
    IF req.op = "other"
      THEN [tb |-> tb, rcode |-> "notimpl", grp |-> FALSE, answers |-> <<>>, stop |-> TRUE]
      ELSE NSFold([tb |-> tb, rcode |-> "ok", grp |-> FALSE, answers |-> <<>>, stop |-> FALSE], req, 1)

Requests ==
    {[op |-> "query", grp |-> FALSE, items |-> s] : s \in SeqsUpTo(NSNames, MaxItems)}
    \cup {[op |-> o, grp |-> g, items |-> s] : o \in {"reg"}, g \in BOOLEAN, s \in SeqsUpTo(NSPairs, MaxItems)}
    \cup {[op |-> o, grp |-> FALSE, items |-> s] : o \in {"rel", "ref"}, s \in SeqsUpTo(NSPairs, MaxItems)}
    \cup {[op |-> "other", grp |-> FALSE, items |-> <<>>]}

Receive(req) ==
    LET r == NSHandle(tab, req) IN
    /\ tab' = r.tb
    /\ UNCHANGED <<regd, snaps>>
    /\ EmitPackets => PrintT(ToJson([f |-> tab, req |-> req,
                                     resp |-> [rcode |-> r.rcode, grp |-> r.grp, answers |-> r.answers], to |-> tab']))

NSNext == \E req \in Requests : Receive(req)
NSSpec == Init /\ [][NSNext]_vars

(* ---- what the composition guarantees ---- *)
(* the table invariants survive every request, whatever it carries *)
NSInv == TypeOK /\ UniqueHasOneOwner /\ GroupOwnersDistinct /\ NoEmptyRecord
(* (SeqsConcat is stated separately so that AnswersAreOwners is not a restatement of NSStep) *)
RECURSIVE OwnersOf(_, _, _)
OwnersOf(items, tb, k) ==
    IF k > Len(items) THEN <<>>
    ELSE [i \in 1..Len(tb[items[k]].ow) |-> <<items[k], tb[items[k]].ow[i]>>] \o OwnersOf(items, tb, k + 1)
SeqsConcat(req, tb) == OwnersOf(req.items, tb, 1)
(* a positive query response lists exactly the current owners of every name asked for, in table order *)
AnswersAreOwners ==
    \A req \in Requests : req.op = "query" =>
        LET r == NSHandle(tab, req) IN
        r.rcode = "ok" => r.answers = SeqsConcat(req, tab)
(* only registration, release and refresh requests change the table; a failed single-item request changes nothing *)
ReadOnlyRequests ==
    \A req \in Requests : req.op \in {"query", "other"} => NSHandle(tab, req).tb = tab
FailedSingleIsNoop ==
    \A req \in Requests : Len(req.items) = 1 /\ NSHandle(tab, req).rcode # "ok" => NSHandle(tab, req).tb = tab
(* the functional table calls above are the NameTable actions *)
FunctionalAgrees ==
    [][\/ \E n \in Names, t \in Types, a \in Addrs : Register(n, t, a, FALSE) /\ tab' = NSRegister(tab, n, t, a)
          /\ RegisterRes(n, t, a).err = NSRegErr(tab, n, t)
       \/ \E n \in Names, a \in Addrs : Release(n, a) /\ tab' = NSRelease(tab, n, a) /\ ReleaseRes(n, a).err = NSRelErr(tab, n, a)
       \/ \E n \in Names, a \in Addrs : Refresh(n, a) /\ tab' = NSRefresh(tab, n, a) /\ RefreshRes(n, a).err = NSRefErr(tab, n, a)
       \/ \E n \in Names : Query(n) /\ QueryRes(n).err = NSQueryErr(tab, n)
       \/ \E n \in Names : MarkConflict(n)
       \/ \E n \in Names, t \in Types, a \in Addrs : Register(n, t, a, TRUE)
       \/ Clean]_vars
=============================================================================
