------------------------------- MODULE DESKey -------------------------------
(* 56-bit -> 64-bit DES key expansion used by LM and by NTLM's DESL: the 56 key bits are spread,
   seven per byte, into the HIGH seven bits of each of the eight key bytes (the low bit is the DES
   parity bit, which DES ignores).  Written from MS-NLMP 6 / the classic str_to_key description. *)
EXTENDS Integers, Sequences, Bytes

(* bit i (1 = most significant of byte 1) of a byte string *)
BitAt(s, i) == (s[((i - 1) \div 8) + 1] \div (2 ^ (7 - ((i - 1) % 8)))) % 2

(* the 8 key bytes with the parity bit cleared *)
Spread7(k7) == [j \in 1..8 |->
                  2 * ( 64 * BitAt(k7, 7 * (j - 1) + 1) + 32 * BitAt(k7, 7 * (j - 1) + 2) + 16 * BitAt(k7, 7 * (j - 1) + 3)
                      + 8 * BitAt(k7, 7 * (j - 1) + 4) + 4 * BitAt(k7, 7 * (j - 1) + 5) + 2 * BitAt(k7, 7 * (j - 1) + 6)
                      + BitAt(k7, 7 * (j - 1) + 7))]

Ones(b) == (b % 2) + ((b \div 2) % 2) + ((b \div 4) % 2) + ((b \div 8) % 2) + ((b \div 16) % 2) + ((b \div 32) % 2) + ((b \div 64) % 2) + ((b \div 128) % 2)
(* odd parity in the low bit *)
OddParity(b) == IF Ones(b - (b % 2)) % 2 = 0 THEN b - (b % 2) + 1 ELSE b - (b % 2)
ParityExpand(k7) == [j \in 1..8 |-> OddParity(Spread7(k7)[j])]
(* two keys are the same DES key iff they agree on the high seven bits of every byte *)
SameDESKey(a, b) == \A j \in 1..8 : a[j] \div 2 = b[j] \div 2
=============================================================================
