------------------------------ MODULE C06Cases ------------------------------
(***************************************************************************)
(* C06 model -> code: the structured input space of the SMB wire data      *)
(* types as an enumerated case table.  For every case TLC computes the     *)
(* encoding SMBTypes prescribes (library layout `enc`, document layout     *)
(* `std` where it differs), evaluates the round-trip law of the            *)
(* specification itself for every suffix (`law`), and prints the case.     *)
(*                                                                         *)
(*   Kinds "dateword" / "pipeword": ALL 65 536 16-bit words, one state per *)
(*   word (the two exhaustive runs);  "fixed": every fixed-layout type     *)
(*   with 0 / max / distinct-byte / one-field-all-ones / seeded patterns;  *)
(*   "str" "oem" "data" "params": boundary lengths; "resumekey",           *)
(*   "dirinfo": names of every length 0..12.                               *)
(***************************************************************************)
EXTENDS SMBTypes, TLC, Json

CONSTANTS Seed, Kinds, StrLens, BlockLens, WordCounts, NRandom

VARIABLE c

Suffixes == <<<<>>, <<0>>, <<238>>, Pattern((Seed + 5) % 65537, 7)>>
SuffixSet == { Suffixes[i] : i \in 1..Len(Suffixes) }

NonNul(k, n)   == [i \in 1..n |-> ((i * 131 + (Seed + k) * 31 + (i \div 255) * 7) % 255) + 1]
AnyBytes(k, n) == [i \in 1..n |-> (i * 167 + (Seed + k) * 13 + (i \div 256) * 5) % 256]

FixedPatterns(S) ==
    LET n == WireSize(S) IN
    { Zeros(n), Rep(255, n), [i \in 1..n |-> i], [i \in 1..n |-> 256 - i] }
    \cup { WireOneHot(S, nm) : nm \in WireNames(S) }
    \cup { Pattern((Seed * 37 + i) % 65537, n) : i \in 1..NRandom }
FixedVals(t) == { WireDecode(Schema(t, FALSE), p).v : p \in FixedPatterns(Schema(t, FALSE)) }

StrVals == { [fmt |-> f, buf |-> NonNul(f, n)] : f \in 1..5, n \in StrLens }
           \cup { [fmt |-> f, buf |-> AnyBytes(f, n)] : f \in {1, 5}, n \in StrLens }
OemVals == { [buf |-> NonNul(9, n)] : n \in StrLens }
DataVals == { [bytes |-> AnyBytes(3, n)] : n \in BlockLens }
ParamVals == { [words |-> [i \in 1..n |-> (i * 2657 + Seed * 17) % 65536]] : n \in WordCounts }
             \cup { [words |-> Rep(65535, n)] : n \in WordCounts } \cup { [words |-> <<1, 256, 258>>] }
RkVals == FixedVals("rkbody")

Name12 == <<70, 73, 76, 69, 78, 65, 77, 69, 46, 69, 88, 84>>          \* FILENAME.EXT
Names == { SubSeq(Name12, 1, k) : k \in 0..12 } \cup { <<65, 32, 66>>, <<32, 65>>, <<255>>, <<46>> }
Fill(j) == LET p == IF j = 1 THEN Zeros(40) ELSE IF j = 2 THEN Rep(255, 40) ELSE IF j = 3 THEN [i \in 1..40 |-> i]
                    ELSE Pattern((Seed * 41 + j) % 65537, 40) IN
           [rk   |-> WireDecode(Schema("rkbody", FALSE), SubSeq(p, 1, 21)).v,
            attr |-> p[22],
            time |-> WireDecode(Schema("filetime", FALSE), SubSeq(p, 23, 30)).v,
            date |-> DateOfWord(UnLE16(SubSeq(p, 31, 32))),
            size |-> WFromLE(SubSeq(p, 33, 36))]
DirVals == { [rk |-> Fill(j).rk, attr |-> Fill(j).attr, time |-> Fill(j).time, date |-> Fill(j).date,
              size |-> Fill(j).size, name |-> nm] : nm \in Names, j \in 1..(3 + NRandom) }

InDomain(t, v) == CASE t = "str" -> StrDomain(v)
                    [] t = "oem" -> NoNul(v.buf) /\ Len(v.buf) <= 65535
                    [] t = "date" -> v \in DateDomain
                    [] t = "dirinfo" -> NameDomain(v.name) /\ v.date \in DateDomain
                    [] t = "params" -> Len(v.words) <= 255
                    [] t = "data" -> Len(v.bytes) <= 65535
                    [] OTHER -> TRUE

Law(t, v) == InDomain(t, v) /\ \A s \in SuffixSet : RoundTripLaw(t, v, s, TRUE) /\ (t # "dirinfo" => RoundTripLaw(t, v, s, FALSE))

Emit(r) == PrintT(ToJson(r))
Case(t, v) ==
    LET e == Enc(t, v, TRUE)
        d == IF t = "dirinfo" THEN e ELSE Enc(t, v, FALSE)
    IN Emit([k |-> "v", t |-> t, v |-> v, enc |-> e, std |-> IF d = e THEN <<>> ELSE d,
             stdn |-> IF t = "dirinfo" THEN DirInfoSize(FALSE) ELSE Len(d), law |-> Law(t, v)])

Init ==
    \/ /\ c = <<"hdr">>
       /\ Emit([k |-> "hdr", sufs |-> Suffixes])
    \/ /\ "dateword" \in Kinds
       /\ \E w \in 0..65535 :
            /\ c = <<"dateword", w>>
            /\ LET v == DateOfWord(w) IN
               Emit([k |-> "w", t |-> "date", w |-> w, v |-> v, enc |-> LE(w, 2),
                     law |-> DateWord(v) = w /\ DateEnc(v) = LE(w, 2) /\ Law("date", v)])
    \/ /\ "pipeword" \in Kinds
       /\ \E w \in 0..65535 :
            /\ c = <<"pipeword", w>>
            /\ LET v == PipeOfWord(w) IN
               Emit([k |-> "w", t |-> "pipe", w |-> w, v |-> v, enc |-> LE(w, 2),
                     x |-> [readmode |-> PipeReadMode(v), nonblocking |-> PipeNonBlocking(v)],
                     law |-> Enc("pipe", v, TRUE) = LE(w, 2) /\ Law("pipe", v)])
    \/ /\ "fixed" \in Kinds
       /\ \E t \in FixedTypes : \E v \in FixedVals(t) : c = <<t, v>> /\ Case(t, v)
    \/ /\ "str" \in Kinds
       /\ \E v \in StrVals : c = <<"str", v>> /\ Case("str", v)
    \/ /\ "oem" \in Kinds
       /\ \E v \in OemVals : c = <<"oem", v>> /\ Case("oem", v)
    \/ /\ "data" \in Kinds
       /\ \E v \in DataVals : c = <<"data", v>> /\ Case("data", v)
    \/ /\ "params" \in Kinds
       /\ \E v \in ParamVals : c = <<"params", v>> /\ Case("params", v)
    \/ /\ "resumekey" \in Kinds
       /\ \E v \in RkVals : c = <<"resumekey", v>> /\ Case("resumekey", v)
    \/ /\ "dirinfo" \in Kinds
       /\ \E v \in DirVals : c = <<"dirinfo", v>> /\ Case("dirinfo", v)
Next == FALSE /\ UNCHANGED c
=============================================================================
