----------------------------- MODULE WinTimeInt -----------------------------
(***************************************************************************)
(* The conversion laws of WinTime.tla over unbounded Integers, for         *)
(* Apalache (symbolic: the WHOLE 64-bit domain, not a sample).  Each       *)
(* invariant is a closed formula about one unsigned 64-bit tick count t    *)
(* and one signed 64-bit value z; it is checked on the initial states      *)
(* (--length=0), i.e. for all values at once.                              *)
(*                                                                         *)
(*   InverseFiletime        divide-first conversion is exact and inverse   *)
(*   DivideFirstStaysIn64   ... and no intermediate leaves 64 bits         *)
(*   LdapInverse            ldap -> unix -> ldap loses < 1 s, no overflow  *)
(*   DurationAbs            |z| via unsigned negation is right for MinInt64*)
(*   NaiveMul100StaysIn64   FALSE: (t-E)*100 leaves int64 -- Apalache must *)
(*                          produce a witness (the arithmetic the code     *)
(*                          under test uses)                               *)
(***************************************************************************)
EXTENDS Integers

VARIABLES
  \* @type: Int;
  t,
  \* @type: Int;
  z

E == 116444736000000000
ESec == 11644473600
P63 == 9223372036854775808
P64 == 18446744073709551616
T7 == 10000000

Init == t \in 0..(P64 - 1) /\ z \in (0 - P63)..(P63 - 1)
Next == UNCHANGED <<t, z>>

InI64(v) == v >= 0 - P63 /\ v <= P63 - 1
InU64(v) == v >= 0 /\ v <= P64 - 1

(* the specification's reading: Unix nanoseconds of tick count t *)
UnixNano(x) == (x - E) * 100
(* divide-first machine formula: seconds and nanoseconds computed separately from the unsigned tick count *)
Sec(x) == (x \div T7) - ESec
NSec(x) == (x % T7) * 100

InverseFiletime ==
    /\ Sec(t) * 1000000000 + NSec(t) = UnixNano(t)
    /\ NSec(t) >= 0 /\ NSec(t) < 1000000000
    /\ (Sec(t) + ESec) * T7 + (NSec(t) \div 100) = t
DivideFirstStaysIn64 ==
    /\ InU64(t \div T7) /\ InU64(t % T7) /\ InI64(t \div T7) /\ InI64(Sec(t)) /\ InI64(NSec(t))
    /\ InU64((Sec(t) + ESec) * T7) /\ InU64((Sec(t) + ESec) * T7 + (NSec(t) \div 100))
LdapInverse ==
    (z >= E) => LET u == (z - E) \div T7
                    back == u * T7 + E
                IN back <= z /\ z < back + T7 /\ InI64(z - E) /\ InI64(u * T7) /\ InI64(back)
DurationAbs ==
    LET u == IF z < 0 THEN z + P64 ELSE z                 \* uint64(z)
        mag == IF z < 0 THEN (P64 - u) % P64 ELSE u       \* -uint64(z) mod 2^64
        abs == IF z < 0 THEN 0 - z ELSE z
    IN mag = abs /\ InU64(mag) /\ InI64(mag \div T7) /\ mag \div T7 = abs \div T7
NaiveMul100StaysIn64 == (t < P63) => InI64(UnixNano(t))
=============================================================================
