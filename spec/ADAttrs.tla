------------------------------ MODULE ADAttrs ------------------------------
(***************************************************************************)
(* Specification growth G03 (not one of the 20 listed properties: every    *)
(* assertion bound to this module is reported as DRIFT).                   *)
(*                                                                         *)
(* Active Directory attribute syntaxes that are bit fields, enumerations   *)
(* or object identifiers, written from the Microsoft Open Specifications   *)
(* and the RFCs they cite:                                                 *)
(*                                                                         *)
(*   ADUacTable       userAccountControl bits   MS-ADTS 2.2.16 and         *)
(*                    ADS_USER_FLAG_ENUM (MS-ADTS cites [MSDN-ADS_UF])     *)
(*   ADPwdTable       pwdProperties bits        MS-SAMR 2.2.1.13 / MS-ADTS *)
(*   ADEnrollTable    msPKI-Enrollment-Flag     MS-CRTD 2.26               *)
(*   ADCertNameTable  msPKI-Certificate-Name-Flag  MS-CRTD 2.28            *)
(*   ADTemplateFlagTable  pKICertificateTemplate flags  MS-CRTD 2.4        *)
(*   ADSamTypeTable   sAMAccountType values     MS-SAMR 2.2.1.9            *)
(*   ADDflTable       msDS-Behavior-Version of a domain  MS-ADTS 6.1.4.3   *)
(*   ADRidTable       well-known relative identifiers  MS-SAMR 2.2.1.14,   *)
(*                    MS-DTYP 2.4.2.4 (and winnt.h for the spellings)      *)
(*   ADEkuTable       extended key usages  RFC 5280 4.2.1.12, RFC 4556,    *)
(*                    MS-WCCE / wincrypt.h szOID_...                         *)
(*   ADLdapCtlTable   LDAP extended controls    MS-ADTS 3.1.1.3.4.1        *)
(*   ADNtStatusTable  a sample of NTSTATUS values   MS-ERREF 2.3.1, with   *)
(*                    the NTSTATUS layout of MS-ERREF 2.3                  *)
(*                                                                         *)
(* A 32-bit value is the pair <<high 16 bits, low 16 bits>> (TLC integers  *)
(* are 32-bit signed), written with hexadecimal literals as the documents  *)
(* print it.  A flag WORD is the set of its set bit indices (0 = least     *)
(* significant).  Names are the documents' identifiers without their       *)
(* prefix (ADS_UF_, CT_FLAG_, SAM_, STATUS_ ...); where the documents use   *)
(* several spellings for one bit, the row lists them in alt.               *)
(*                                                                         *)
(*   ADFlagNames(word, table)  the names of the bits of word the table     *)
(*                             names                                       *)
(*   ADHas(word, name, table)  the bit called name is set in word          *)
(*   ADUnnamed(word, table)    the bits of word the table does not name    *)
(*   ADEnumName(v, table)      the names of value v (a set: {} = not       *)
(*                             defined, two = aliases)                     *)
(*   ADOidText(arcs)           dotted-decimal text of an object identifier *)
(*   ADNtSeverity(v) ...       the fields of an NTSTATUS                   *)
(***************************************************************************)
EXTENDS Integers, Sequences, FiniteSets

(* ---------------------------------------------------------------- 32-bit values *)
ADBits16(x, base) == { base + i : i \in { j \in 0..15 : (x \div (2 ^ j)) % 2 = 1 } }
ADBits(v) == ADBits16(v[2], 0) \cup ADBits16(v[1], 16)            \* set bit indices of <<hi, lo>>
RECURSIVE ADHalf(_, _, _)
ADHalf(bits, base, i) == IF i > 15 THEN 0 ELSE (IF base + i \in bits THEN 2 ^ i ELSE 0) + ADHalf(bits, base, i + 1)
ADWord(bits) == <<ADHalf(bits, 16, 0), ADHalf(bits, 0, 0)>>        \* inverse of ADBits
ADIsSingleBit(v) == Cardinality(ADBits(v)) = 1
ADBitOf(v) == CHOOSE b \in ADBits(v) : TRUE

(* ---------------------------------------------------------------- flag tables *)
ADF(hi, lo, name) == [mask |-> <<hi, lo>>, name |-> name, alt |-> {}]
ADFa(hi, lo, name, alt) == [mask |-> <<hi, lo>>, name |-> name, alt |-> alt]

ADRows(table) == { table[i] : i \in 1..Len(table) }
ADFlagRowsSet(word, table) == { r \in ADRows(table) : ADBits(r.mask) # {} /\ ADBits(r.mask) \subseteq word }
ADFlagNames(word, table) == { r.name : r \in ADFlagRowsSet(word, table) }
ADHas(word, name, table) == name \in ADFlagNames(word, table)
ADNamedBits(table) == UNION { ADBits(r.mask) : r \in ADRows(table) }
ADUnnamed(word, table) == word \ ADNamedBits(table)
(* the rows of word in the table's (= the document's) order *)
ADFlagRowsSeq(word, table) == SelectSeq(table, LAMBDA r : ADBits(r.mask) # {} /\ ADBits(r.mask) \subseteq word)

(* MS-ADTS 2.2.16 userAccountControl Bits (the figure's letters in comments), completed by the three values that only
   ADS_USER_FLAG_ENUM defines (SCRIPT, TEMP_DUPLICATE_ACCOUNT, MNS_LOGON_ACCOUNT).  alt: the spellings of lmaccess.h (UF_...),
   of MS-SAMR 2.2.1.12 (USER_...) and of KB 305144 for the same bit. *)
ADUacTable == <<
    ADF (\h0000, \h0001, "SCRIPT"),
    ADFa(\h0000, \h0002, "ACCOUNT_DISABLE", {"ACCOUNTDISABLE", "ACCOUNT_DISABLED"}),                        \* D
    ADF (\h0000, \h0008, "HOMEDIR_REQUIRED"),                                                               \* HR
    ADF (\h0000, \h0010, "LOCKOUT"),                                                                        \* L
    ADFa(\h0000, \h0020, "PASSWD_NOTREQD", {"PASSWORD_NOT_REQUIRED"}),                                      \* NR
    ADF (\h0000, \h0040, "PASSWD_CANT_CHANGE"),                                                             \* CC
    ADFa(\h0000, \h0080, "ENCRYPTED_TEXT_PASSWORD_ALLOWED", {"ENCRYPTED_TEXT_PWD_ALLOWED"}),                \* ET
    ADF (\h0000, \h0100, "TEMP_DUPLICATE_ACCOUNT"),
    ADF (\h0000, \h0200, "NORMAL_ACCOUNT"),                                                                 \* N
    ADF (\h0000, \h0800, "INTERDOMAIN_TRUST_ACCOUNT"),                                                      \* ID
    ADF (\h0000, \h1000, "WORKSTATION_TRUST_ACCOUNT"),                                                      \* WT
    ADF (\h0000, \h2000, "SERVER_TRUST_ACCOUNT"),                                                           \* ST
    ADFa(\h0001, \h0000, "DONT_EXPIRE_PASSWD", {"DONT_EXPIRE_PASSWORD"}),                                   \* DP
    ADF (\h0002, \h0000, "MNS_LOGON_ACCOUNT"),
    ADF (\h0004, \h0000, "SMARTCARD_REQUIRED"),                                                             \* SR
    ADF (\h0008, \h0000, "TRUSTED_FOR_DELEGATION"),                                                         \* TD
    ADF (\h0010, \h0000, "NOT_DELEGATED"),                                                                  \* ND
    ADF (\h0020, \h0000, "USE_DES_KEY_ONLY"),                                                               \* DK
    ADFa(\h0040, \h0000, "DONT_REQUIRE_PREAUTH", {"DONT_REQ_PREAUTH"}),                                     \* DR
    ADF (\h0080, \h0000, "PASSWORD_EXPIRED"),                                                               \* PE
    ADFa(\h0100, \h0000, "TRUSTED_TO_AUTHENTICATE_FOR_DELEGATION", {"TRUSTED_TO_AUTH_FOR_DELEGATION"}),     \* TA
    ADF (\h0200, \h0000, "NO_AUTH_DATA_REQUIRED"),                                                          \* NA
    ADF (\h0400, \h0000, "PARTIAL_SECRETS_ACCOUNT") >>                                                      \* PS

(* MS-SAMR 2.2.1.13 DOMAIN_PASSWORD_INFORMATION PasswordProperties = the pwdProperties attribute (MS-ADTS) *)
ADPwdTable == <<
    ADF(\h0000, \h0001, "DOMAIN_PASSWORD_COMPLEX"),
    ADF(\h0000, \h0002, "DOMAIN_PASSWORD_NO_ANON_CHANGE"),
    ADF(\h0000, \h0004, "DOMAIN_PASSWORD_NO_CLEAR_CHANGE"),
    ADF(\h0000, \h0008, "DOMAIN_LOCKOUT_ADMINS"),
    ADF(\h0000, \h0010, "DOMAIN_PASSWORD_STORE_CLEARTEXT"),
    ADF(\h0000, \h0020, "DOMAIN_REFUSE_PASSWORD_CHANGE") >>

(* MS-CRTD 2.26 msPKI-Enrollment-Flag (CT_FLAG_...) *)
ADEnrollTable == <<
    ADF(\h0000, \h0001, "INCLUDE_SYMMETRIC_ALGORITHMS"),
    ADF(\h0000, \h0002, "PEND_ALL_REQUESTS"),
    ADF(\h0000, \h0004, "PUBLISH_TO_KRA_CONTAINER"),
    ADF(\h0000, \h0008, "PUBLISH_TO_DS"),
    ADF(\h0000, \h0010, "AUTO_ENROLLMENT_CHECK_USER_DS_CERTIFICATE"),
    ADF(\h0000, \h0020, "AUTO_ENROLLMENT"),
    ADF(\h0000, \h0040, "PREVIOUS_APPROVAL_VALIDATE_REENROLLMENT"),
    ADF(\h0000, \h0100, "USER_INTERACTION_REQUIRED"),
    ADF(\h0000, \h0400, "REMOVE_INVALID_CERTIFICATE_FROM_PERSONAL_STORE"),
    ADF(\h0000, \h0800, "ALLOW_ENROLL_ON_BEHALF_OF"),
    ADF(\h0000, \h1000, "ADD_OCSP_NOCHECK"),
    ADF(\h0000, \h2000, "ENABLE_KEY_REUSE_ON_NT_TOKEN_KEYSET_STORAGE_FULL"),
    ADF(\h0000, \h4000, "NOREVOCATIONINFOINISSUEDCERTS"),
    ADF(\h0000, \h8000, "INCLUDE_BASIC_CONSTRAINTS_FOR_EE_CERTS"),
    ADF(\h0001, \h0000, "ALLOW_PREVIOUS_APPROVAL_KEYBASEDRENEWAL_VALIDATE_REENROLLMENT"),
    ADF(\h0002, \h0000, "ISSUANCE_POLICIES_FROM_REQUEST"),
    ADF(\h0004, \h0000, "SKIP_AUTO_RENEWAL"),
    ADF(\h0008, \h0000, "NO_SECURITY_EXTENSION") >>

(* MS-CRTD 2.28 msPKI-Certificate-Name-Flag (CT_FLAG_...) *)
ADCertNameTable == <<
    ADF(\h0000, \h0001, "ENROLLEE_SUPPLIES_SUBJECT"),
    ADF(\h0000, \h0008, "OLD_CERT_SUPPLIES_SUBJECT_AND_ALT_NAME"),
    ADF(\h0001, \h0000, "ENROLLEE_SUPPLIES_SUBJECT_ALT_NAME"),
    ADF(\h0040, \h0000, "SUBJECT_ALT_REQUIRE_DOMAIN_DNS"),
    ADF(\h0080, \h0000, "SUBJECT_ALT_REQUIRE_SPN"),
    ADF(\h0100, \h0000, "SUBJECT_ALT_REQUIRE_DIRECTORY_GUID"),
    ADF(\h0200, \h0000, "SUBJECT_ALT_REQUIRE_UPN"),
    ADF(\h0400, \h0000, "SUBJECT_ALT_REQUIRE_EMAIL"),
    ADF(\h0800, \h0000, "SUBJECT_ALT_REQUIRE_DNS"),
    ADF(\h1000, \h0000, "SUBJECT_REQUIRE_DNS_AS_CN"),
    ADF(\h2000, \h0000, "SUBJECT_REQUIRE_EMAIL"),
    ADF(\h4000, \h0000, "SUBJECT_REQUIRE_COMMON_NAME"),
    ADF(\h8000, \h0000, "SUBJECT_REQUIRE_DIRECTORY_PATH") >>

(* MS-CRTD 2.4 flags attribute of a certificate template, "general enrollment flags" (CT_FLAG_...) *)
ADTemplateFlagTable == <<
    ADF(\h0000, \h0002, "ADD_EMAIL"),
    ADF(\h0000, \h0008, "PUBLISH_TO_DS"),
    ADF(\h0000, \h0010, "EXPORTABLE_KEY"),
    ADF(\h0000, \h0020, "AUTO_ENROLLMENT"),
    ADF(\h0000, \h0040, "MACHINE_TYPE"),
    ADF(\h0000, \h0080, "IS_CA"),
    ADF(\h0000, \h0200, "ADD_TEMPLATE_NAME"),
    ADF(\h0000, \h0800, "IS_CROSS_CA"),
    ADF(\h0000, \h1000, "DONOTPERSISTINDB"),
    ADF(\h0001, \h0000, "IS_DEFAULT"),
    ADF(\h0002, \h0000, "IS_MODIFIED") >>

ADFlagKinds == {"uac", "pwd", "enroll", "certname", "tmplflags"}
ADFlagTable(kind) == CASE kind = "uac" -> ADUacTable [] kind = "pwd" -> ADPwdTable [] kind = "enroll" -> ADEnrollTable
                       [] kind = "certname" -> ADCertNameTable [] kind = "tmplflags" -> ADTemplateFlagTable

(* ---------------------------------------------------------------- enumerations *)
ADE(hi, lo, name) == [v |-> <<hi, lo>>, name |-> name]
ADEnumName(v, table) == { r.name : r \in { x \in ADRows(table) : x.v = v } }

(* MS-SAMR 2.2.1.9 ACCOUNT_TYPE values = the sAMAccountType attribute (SAM_...) *)
ADSamTypeTable == <<
    ADE(\h0000, \h0000, "DOMAIN_OBJECT"),
    ADE(\h1000, \h0000, "GROUP_OBJECT"),
    ADE(\h1000, \h0001, "NON_SECURITY_GROUP_OBJECT"),
    ADE(\h2000, \h0000, "ALIAS_OBJECT"),
    ADE(\h2000, \h0001, "NON_SECURITY_ALIAS_OBJECT"),
    ADE(\h3000, \h0000, "USER_OBJECT"),
    ADE(\h3000, \h0001, "MACHINE_ACCOUNT"),
    ADE(\h3000, \h0002, "TRUST_ACCOUNT"),
    ADE(\h4000, \h0000, "APP_BASIC_GROUP"),
    ADE(\h4000, \h0001, "APP_QUERY_GROUP") >>
(* the object class is the top nibble *)
ADSamClass(v) == CASE v[1] \div 4096 = 0 -> "domain" [] v[1] \div 4096 = 1 -> "group" [] v[1] \div 4096 = 2 -> "alias"
                   [] v[1] \div 4096 = 3 -> "user" [] v[1] \div 4096 = 4 -> "appgroup" [] OTHER -> "undefined"

(* MS-ADTS 6.1.4.3 domain functional levels = msDS-Behavior-Version on the domain NC root (DS_BEHAVIOR_...);
   product = the Windows Server release the level is named after *)
ADDflTable == <<
    [v |-> 0,  name |-> "WIN2000",                    product |-> "Windows 2000"],
    [v |-> 1,  name |-> "WIN2003_WITH_MIXED_DOMAINS", product |-> "Windows Server 2003 Interim"],
    [v |-> 2,  name |-> "WIN2003",                    product |-> "Windows Server 2003"],
    [v |-> 3,  name |-> "WIN2008",                    product |-> "Windows Server 2008"],
    [v |-> 4,  name |-> "WIN2008R2",                  product |-> "Windows Server 2008 R2"],
    [v |-> 5,  name |-> "WIN2012",                    product |-> "Windows Server 2012"],
    [v |-> 6,  name |-> "WIN2012R2",                  product |-> "Windows Server 2012 R2"],
    [v |-> 7,  name |-> "WIN2016",                    product |-> "Windows Server 2016"],
    [v |-> 10, name |-> "WIN2025",                    product |-> "Windows Server 2025"] >>
ADDflDefined(v) == \E r \in ADRows(ADDflTable) : r.v = v
ADDflAtLeast(have, want) == have >= want                              \* levels are ordered by their number

(* ---------------------------------------------------------------- relative identifiers *)
(* class: USER / GROUP / ALIAS as in DOMAIN_<class>_RID_<name> (MS-SAMR 2.2.1.14, winnt.h); names: the spellings of winnt.h and
   of MS-DTYP 2.4.2.4; scope: "domain" = S-1-5-21-<domain>-rid, "builtin" = S-1-5-32-rid, as MS-DTYP 2.4.2.4 writes the SID. *)
ADR(rid, class, names, scope) == [rid |-> rid, class |-> class, names |-> names, scope |-> scope]
ADRidTable == <<
    ADR(\h1F2, "GROUP", {"ENTERPRISE_READONLY_DOMAIN_CONTROLLERS"}, "domain"),                 \* 498
    ADR(\h1F4, "USER",  {"ADMIN", "ADMINISTRATOR"}, "domain"),                                 \* 500
    ADR(\h1F5, "USER",  {"GUEST"}, "domain"),                                                  \* 501
    ADR(\h1F6, "USER",  {"KRBTGT"}, "domain"),                                                 \* 502
    ADR(\h200, "GROUP", {"ADMINS", "DOMAIN_ADMINS"}, "domain"),                                \* 512
    ADR(\h201, "GROUP", {"USERS", "DOMAIN_USERS"}, "domain"),                                  \* 513
    ADR(\h202, "GROUP", {"GUESTS", "DOMAIN_GUESTS"}, "domain"),                                \* 514
    ADR(\h203, "GROUP", {"COMPUTERS", "DOMAIN_COMPUTERS"}, "domain"),                          \* 515
    ADR(\h204, "GROUP", {"CONTROLLERS", "DOMAIN_DOMAIN_CONTROLLERS"}, "domain"),               \* 516
    ADR(\h205, "GROUP", {"CERT_ADMINS", "CERT_PUBLISHERS"}, "domain"),                         \* 517
    ADR(\h206, "GROUP", {"SCHEMA_ADMINS", "SCHEMA_ADMINISTRATORS"}, "domain"),                 \* 518
    ADR(\h207, "GROUP", {"ENTERPRISE_ADMINS"}, "domain"),                                      \* 519
    ADR(\h208, "GROUP", {"POLICY_ADMINS", "GROUP_POLICY_CREATOR_OWNERS"}, "domain"),           \* 520
    ADR(\h209, "GROUP", {"READONLY_CONTROLLERS", "READONLY_DOMAIN_CONTROLLERS"}, "domain"),    \* 521
    ADR(\h20A, "GROUP", {"CLONEABLE_CONTROLLERS"}, "domain"),                                  \* 522
    ADR(\h20C, "GROUP", {"CDC_RESERVED"}, "domain"),                                           \* 524
    ADR(\h20D, "GROUP", {"PROTECTED_USERS"}, "domain"),                                        \* 525
    ADR(\h20E, "GROUP", {"KEY_ADMINS"}, "domain"),                                             \* 526
    ADR(\h20F, "GROUP", {"ENTERPRISE_KEY_ADMINS"}, "domain"),                                  \* 527
    ADR(\h220, "ALIAS", {"ADMINS", "ADMINISTRATORS"}, "builtin"),                              \* 544
    ADR(\h221, "ALIAS", {"USERS"}, "builtin"),                                                 \* 545
    ADR(\h222, "ALIAS", {"GUESTS"}, "builtin"),                                                \* 546
    ADR(\h223, "ALIAS", {"POWER_USERS"}, "builtin"),                                           \* 547
    ADR(\h224, "ALIAS", {"ACCOUNT_OPS", "ACCOUNT_OPERATORS"}, "builtin"),                      \* 548
    ADR(\h225, "ALIAS", {"SYSTEM_OPS", "SERVER_OPS", "SERVER_OPERATORS"}, "builtin"),          \* 549
    ADR(\h226, "ALIAS", {"PRINT_OPS", "PRINTER_OPERATORS"}, "builtin"),                        \* 550
    ADR(\h227, "ALIAS", {"BACKUP_OPS", "BACKUP_OPERATORS"}, "builtin"),                        \* 551
    ADR(\h228, "ALIAS", {"REPLICATOR"}, "builtin"),                                            \* 552
    ADR(\h229, "ALIAS", {"RAS_SERVERS"}, "domain"),                                            \* 553  S-1-5-21-<domain>-553
    ADR(\h22A, "ALIAS", {"PREW2KCOMPACCESS", "ALIAS_PREW2KCOMPACC"}, "builtin"),               \* 554
    ADR(\h22B, "ALIAS", {"REMOTE_DESKTOP_USERS", "REMOTE_DESKTOP"}, "builtin"),                \* 555
    ADR(\h22C, "ALIAS", {"NETWORK_CONFIGURATION_OPS"}, "builtin"),                             \* 556
    ADR(\h22D, "ALIAS", {"INCOMING_FOREST_TRUST_BUILDERS"}, "builtin"),                        \* 557
    ADR(\h22E, "ALIAS", {"MONITORING_USERS", "PERFMON_USERS"}, "builtin"),                     \* 558
    ADR(\h22F, "ALIAS", {"LOGGING_USERS", "PERFLOG_USERS"}, "builtin"),                        \* 559
    ADR(\h230, "ALIAS", {"AUTHORIZATIONACCESS", "WINDOWS_AUTHORIZATION_ACCESS_GROUP"}, "builtin"), \* 560
    ADR(\h231, "ALIAS", {"TS_LICENSE_SERVERS", "TERMINAL_SERVER_LICENSE_SERVERS"}, "builtin"), \* 561
    ADR(\h232, "ALIAS", {"DCOM_USERS", "DISTRIBUTED_COM_USERS"}, "builtin"),                   \* 562
    ADR(\h238, "ALIAS", {"IUSERS", "IIS_IUSRS"}, "builtin"),                                   \* 568
    ADR(\h239, "ALIAS", {"CRYPTO_OPERATORS", "CRYPTOGRAPHIC_OPERATORS"}, "builtin"),           \* 569
    ADR(\h23B, "ALIAS", {"CACHEABLE_PRINCIPALS_GROUP", "ALLOWED_RODC_PASSWORD_REPLICATION_GROUP"}, "domain"),      \* 571
    ADR(\h23C, "ALIAS", {"NON_CACHEABLE_PRINCIPALS_GROUP", "DENIED_RODC_PASSWORD_REPLICATION_GROUP",
                         "DENIED_RODC_PASSWORD_REPLICATION"}, "domain"),                                           \* 572
    ADR(\h23D, "ALIAS", {"EVENT_LOG_READERS_GROUP", "EVENT_LOG_READERS"}, "builtin"),          \* 573
    ADR(\h23E, "ALIAS", {"CERTSVC_DCOM_ACCESS_GROUP", "CERTIFICATE_SERVICE_DCOM_ACCESS", "ALIAS_CERTSVC_DCOM_ACCESS"}, "builtin"), \* 574
    ADR(\h23F, "ALIAS", {"RDS_REMOTE_ACCESS_SERVERS"}, "builtin"),                             \* 575
    ADR(\h240, "ALIAS", {"RDS_ENDPOINT_SERVERS"}, "builtin"),                                  \* 576
    ADR(\h241, "ALIAS", {"RDS_MANAGEMENT_SERVERS"}, "builtin"),                                \* 577
    ADR(\h242, "ALIAS", {"HYPER_V_ADMINS"}, "builtin"),                                        \* 578
    ADR(\h243, "ALIAS", {"ACCESS_CONTROL_ASSISTANCE_OPS"}, "builtin"),                         \* 579
    ADR(\h244, "ALIAS", {"REMOTE_MANAGEMENT_USERS"}, "builtin"),                               \* 580
    ADR(\h245, "ALIAS", {"DEFAULT_ACCOUNT"}, "builtin"),                                       \* 581
    ADR(\h246, "ALIAS", {"STORAGE_REPLICA_ADMINS"}, "builtin"),                                \* 582
    ADR(\h247, "ALIAS", {"DEVICE_OWNERS"}, "builtin") >>                                       \* 583
ADRidScope(rid) == { r.scope : r \in { x \in ADRows(ADRidTable) : x.rid = rid } }
(* the SID of a well-known principal of a domain: BUILTIN principals live under S-1-5-32, all others under the domain's SID *)
ADRidUnderBuiltin(rid) == ADRidScope(rid) = {"builtin"}

(* ---------------------------------------------------------------- object identifiers *)
ADDigit(d) == SubSeq("0123456789", d + 1, d + 1)
RECURSIVE ADDecStr(_)
ADDecStr(n) == IF n < 10 THEN ADDigit(n) ELSE ADDecStr(n \div 10) \o ADDigit(n % 10)
RECURSIVE ADOidText(_)
ADOidText(arcs) == IF Len(arcs) = 1 THEN ADDecStr(arcs[1]) ELSE ADOidText(SubSeq(arcs, 1, Len(arcs) - 1)) \o "." \o ADDecStr(arcs[Len(arcs)])
ADOidHasPrefix(arcs, p) == Len(arcs) >= Len(p) /\ SubSeq(arcs, 1, Len(p)) = p

ADOidIdKp == <<1, 3, 6, 1, 5, 5, 7, 3>>              \* id-kp, RFC 5280
ADOidMicrosoft == <<1, 3, 6, 1, 4, 1, 311>>          \* enterprises.microsoft
ADOidADControl == <<1, 2, 840, 113556, 1, 4>>        \* iso.member-body.us.microsoft.ds.attributeSyntax/controls arc of Active Directory

ADO(arcs, std, names) == [arcs |-> arcs, std |-> std, names |-> names]
(* extended key usages: std = the standard's identifier, names = that identifier and the display name Windows gives the usage *)
ADEkuTable == <<
    ADO(ADOidIdKp \o <<1>>, "id-kp-serverAuth",      {"serverAuth", "Server Authentication"}),
    ADO(ADOidIdKp \o <<2>>, "id-kp-clientAuth",      {"clientAuth", "Client Authentication"}),
    ADO(ADOidIdKp \o <<3>>, "id-kp-codeSigning",     {"codeSigning", "Code Signing"}),
    ADO(ADOidIdKp \o <<4>>, "id-kp-emailProtection", {"emailProtection", "Secure Email"}),
    ADO(ADOidIdKp \o <<5>>, "id-kp-ipsecEndSystem",  {"ipsecEndSystem", "IP security end system"}),
    ADO(ADOidIdKp \o <<6>>, "id-kp-ipsecTunnel",     {"ipsecTunnel", "IP security tunnel termination"}),
    ADO(ADOidIdKp \o <<7>>, "id-kp-ipsecUser",       {"ipsecUser", "IP security user"}),
    ADO(ADOidIdKp \o <<8>>, "id-kp-timeStamping",    {"timeStamping", "Time Stamping"}),
    ADO(ADOidIdKp \o <<9>>, "id-kp-OCSPSigning",     {"OCSPSigning", "OCSP Signing"}),
    ADO(<<2, 5, 29, 37, 0>>, "anyExtendedKeyUsage",  {"anyExtendedKeyUsage", "Any Purpose", "ANY"}),
    ADO(<<1, 3, 6, 1, 5, 2, 3, 5>>, "id-pkinit-KPKdc", {"KPKdc", "KDC Authentication"}),                                 \* RFC 4556
    ADO(<<1, 3, 6, 1, 5, 2, 3, 4>>, "id-pkinit-KPClientAuth", {"KPClientAuth", "PKINIT Client Authentication"}),         \* RFC 4556
    ADO(ADOidMicrosoft \o <<20, 2, 1>>,  "szOID_ENROLLMENT_AGENT",         {"ENROLLMENT_AGENT", "Certificate Request Agent"}),
    ADO(ADOidMicrosoft \o <<20, 2, 2>>,  "szOID_KP_SMARTCARD_LOGON",       {"SMARTCARD_LOGON", "Smart Card Logon"}),
    ADO(ADOidMicrosoft \o <<21, 19>>,    "szOID_DS_EMAIL_REPLICATION",     {"DS_EMAIL_REPLICATION", "Directory Service Email Replication"}),
    ADO(ADOidMicrosoft \o <<10, 3, 4>>,  "szOID_EFS_CRYPTO",               {"EFS_CRYPTO", "Encrypting File System"}),
    ADO(ADOidMicrosoft \o <<10, 3, 4, 1>>, "szOID_EFS_RECOVERY",           {"EFS_RECOVERY", "File Recovery"}),
    ADO(ADOidMicrosoft \o <<10, 3, 10>>, "szOID_KP_QUALIFIED_SUBORDINATION", {"QUALIFIED_SUBORDINATION", "Qualified Subordination"}),
    ADO(ADOidMicrosoft \o <<21, 6>>,     "szOID_KP_KEY_RECOVERY_AGENT",    {"KEY_RECOVERY_AGENT", "Key Recovery Agent"}),
    ADO(ADOidMicrosoft \o <<21, 5>>,     "szOID_KP_CA_EXCHANGE",           {"CA_EXCHANGE", "Private Key Archival"}),
    ADO(ADOidMicrosoft \o <<10, 3, 13>>, "szOID_KP_LIFETIME_SIGNING",      {"LIFETIME_SIGNING", "Lifetime Signing"}),
    ADO(ADOidMicrosoft \o <<10, 3, 12>>, "szOID_KP_DOCUMENT_SIGNING",      {"DOCUMENT_SIGNING", "Document Signing"}),
    ADO(ADOidMicrosoft \o <<10, 6, 1>>,  "szOID_LICENSES",                 {"LICENSES", "Key Pack Licenses"}),
    ADO(ADOidMicrosoft \o <<10, 6, 2>>,  "szOID_LICENSE_SERVER",           {"LICENSE_SERVER", "License Server Verification"}) >>

(* MS-ADTS 3.1.1.3.4.1 LDAP Extended Controls: the control's name is its only spelling *)
ADC(last, name) == ADO(ADOidADControl \o <<last>>, name, {name})
ADLdapCtlTable == <<
    ADC(319,  "LDAP_PAGED_RESULT_OID_STRING"),
    ADC(521,  "LDAP_SERVER_CROSSDOM_MOVE_TARGET_OID"),
    ADC(841,  "LDAP_SERVER_DIRSYNC_OID"),
    ADC(1339, "LDAP_SERVER_DOMAIN_SCOPE_OID"),
    ADC(529,  "LDAP_SERVER_EXTENDED_DN_OID"),
    ADC(970,  "LDAP_SERVER_GET_STATS_OID"),
    ADC(619,  "LDAP_SERVER_LAZY_COMMIT_OID"),
    ADC(1413, "LDAP_SERVER_PERMISSIVE_MODIFY_OID"),
    ADC(528,  "LDAP_SERVER_NOTIFICATION_OID"),
    ADC(474,  "LDAP_SERVER_RESP_SORT_OID"),
    ADC(801,  "LDAP_SERVER_SD_FLAGS_OID"),
    ADC(1340, "LDAP_SERVER_SEARCH_OPTIONS_OID"),
    ADC(473,  "LDAP_SERVER_SORT_OID"),
    ADC(417,  "LDAP_SERVER_SHOW_DELETED_OID"),
    ADC(805,  "LDAP_SERVER_TREE_DELETE_OID"),
    ADC(1338, "LDAP_SERVER_VERIFY_NAME_OID"),
    ADO(<<2, 16, 840, 1, 113730, 3, 4, 9>>,  "LDAP_CONTROL_VLVREQUEST",  {"LDAP_CONTROL_VLVREQUEST"}),
    ADO(<<2, 16, 840, 1, 113730, 3, 4, 10>>, "LDAP_CONTROL_VLVRESPONSE", {"LDAP_CONTROL_VLVRESPONSE"}),
    ADC(1504, "LDAP_SERVER_ASQ_OID"),
    ADC(1852, "LDAP_SERVER_QUOTA_CONTROL_OID"),
    ADC(802,  "LDAP_SERVER_RANGE_OPTION_OID"),
    ADC(1907, "LDAP_SERVER_SHUTDOWN_NOTIFY_OID"),
    ADC(1974, "LDAP_SERVER_FORCE_UPDATE_OID"),
    ADC(1948, "LDAP_SERVER_RANGE_RETRIEVAL_NOERR_OID"),
    ADC(1341, "LDAP_SERVER_RODC_DCPROMO_OID"),
    ADC(2026, "LDAP_SERVER_DN_INPUT_OID"),
    ADC(2065, "LDAP_SERVER_SHOW_DEACTIVATED_LINK_OID"),
    ADC(2064, "LDAP_SERVER_SHOW_RECYCLED_OID"),
    ADC(2066, "LDAP_SERVER_POLICY_HINTS_DEPRECATED_OID"),
    ADC(2090, "LDAP_SERVER_DIRSYNC_EX_OID"),
    ADC(2205, "LDAP_SERVER_UPDATE_STATS_OID"),
    ADC(2204, "LDAP_SERVER_TREE_DELETE_EX_OID"),
    ADC(2206, "LDAP_SERVER_SEARCH_HINTS_OID"),
    ADC(2211, "LDAP_SERVER_EXPECTED_ENTRY_COUNT_OID"),
    ADC(2239, "LDAP_SERVER_POLICY_HINTS_OID"),
    ADC(2255, "LDAP_SERVER_SET_OWNER_OID"),
    ADC(2256, "LDAP_SERVER_BYPASS_QUOTA_OID"),
    ADC(2309, "LDAP_SERVER_LINK_TTL_OID"),
    ADC(2330, "LDAP_SERVER_SET_CORRELATION_ID_OID"),
    ADC(2354, "LDAP_SERVER_THREAD_TRACE_OVERRIDE_OID") >>

ADOidKinds == {"eku", "ldapctl"}
ADOidTable(kind) == CASE kind = "eku" -> ADEkuTable [] kind = "ldapctl" -> ADLdapCtlTable

(* ---------------------------------------------------------------- NTSTATUS *)
(* MS-ERREF 2.3: Sev (2 bits) | C (customer) | N (reserved, 0) | Facility (12 bits) | Code (16 bits) *)
ADNtSeverity(v) == v[1] \div 16384                          \* 0 success, 1 informational, 2 warning, 3 error
ADNtCustomer(v) == (v[1] \div 8192) % 2
ADNtReserved(v) == (v[1] \div 4096) % 2
ADNtFacility(v) == v[1] % 4096
ADNtCode(v) == v[2]
ADNtSeverityName(s) == CASE s = 0 -> "success" [] s = 1 -> "informational" [] s = 2 -> "warning" [] s = 3 -> "error"
(* NT_SUCCESS(status): success and informational severities; a failure is a warning or an error *)
ADNtIsFailure(v) == ADNtSeverity(v) >= 2
ADNtIsError(v) == ADNtSeverity(v) = 3

ADN(hi, lo, name) == [v |-> <<hi, lo>>, name |-> name]
ADNtStatusTable == <<       \* STATUS_... of MS-ERREF 2.3.1
    ADN(\h0000, \h0000, "SUCCESS"), ADN(\h0000, \h0000, "WAIT_0"), ADN(\h0000, \h0001, "WAIT_1"), ADN(\h0000, \h0080, "ABANDONED"),
    ADN(\h0000, \h00C0, "USER_APC"), ADN(\h0000, \h0101, "ALERTED"), ADN(\h0000, \h0102, "TIMEOUT"), ADN(\h0000, \h0103, "PENDING"),
    ADN(\h0000, \h0104, "REPARSE"), ADN(\h0000, \h0105, "MORE_ENTRIES"), ADN(\h0000, \h0106, "NOT_ALL_ASSIGNED"),
    ADN(\h0000, \h0107, "SOME_NOT_MAPPED"), ADN(\h0000, \h0108, "OPLOCK_BREAK_IN_PROGRESS"), ADN(\h0000, \h010B, "NOTIFY_CLEANUP"),
    ADN(\h0000, \h010C, "NOTIFY_ENUM_DIR"),
    ADN(\h4000, \h0000, "OBJECT_NAME_EXISTS"), ADN(\h4000, \h0003, "IMAGE_NOT_AT_BASE"),
    ADN(\h8000, \h0001, "GUARD_PAGE_VIOLATION"), ADN(\h8000, \h0002, "DATATYPE_MISALIGNMENT"), ADN(\h8000, \h0003, "BREAKPOINT"),
    ADN(\h8000, \h0004, "SINGLE_STEP"), ADN(\h8000, \h0005, "BUFFER_OVERFLOW"), ADN(\h8000, \h0006, "NO_MORE_FILES"),
    ADN(\h8000, \h0012, "NO_MORE_EAS"), ADN(\h8000, \h0013, "INVALID_EA_NAME"), ADN(\h8000, \h0014, "EA_LIST_INCONSISTENT"),
    ADN(\h8000, \h0015, "INVALID_EA_FLAG"), ADN(\h8000, \h001A, "NO_MORE_ENTRIES"), ADN(\h8000, \h002D, "STOPPED_ON_SYMLINK"),
    ADN(\hC000, \h0001, "UNSUCCESSFUL"), ADN(\hC000, \h0002, "NOT_IMPLEMENTED"), ADN(\hC000, \h0003, "INVALID_INFO_CLASS"),
    ADN(\hC000, \h0004, "INFO_LENGTH_MISMATCH"), ADN(\hC000, \h0005, "ACCESS_VIOLATION"), ADN(\hC000, \h0008, "INVALID_HANDLE"),
    ADN(\hC000, \h000D, "INVALID_PARAMETER"), ADN(\hC000, \h000E, "NO_SUCH_DEVICE"), ADN(\hC000, \h000F, "NO_SUCH_FILE"),
    ADN(\hC000, \h0010, "INVALID_DEVICE_REQUEST"), ADN(\hC000, \h0011, "END_OF_FILE"), ADN(\hC000, \h0012, "WRONG_VOLUME"),
    ADN(\hC000, \h0013, "NO_MEDIA_IN_DEVICE"), ADN(\hC000, \h0016, "MORE_PROCESSING_REQUIRED"), ADN(\hC000, \h0017, "NO_MEMORY"),
    ADN(\hC000, \h0022, "ACCESS_DENIED"), ADN(\hC000, \h0023, "BUFFER_TOO_SMALL"), ADN(\hC000, \h0024, "OBJECT_TYPE_MISMATCH"),
    ADN(\hC000, \h0030, "INVALID_PARAMETER_MIX"), ADN(\hC000, \h0032, "DISK_CORRUPT_ERROR"), ADN(\hC000, \h0033, "OBJECT_NAME_INVALID"),
    ADN(\hC000, \h0034, "OBJECT_NAME_NOT_FOUND"), ADN(\hC000, \h0035, "OBJECT_NAME_COLLISION"), ADN(\hC000, \h0037, "PORT_DISCONNECTED"),
    ADN(\hC000, \h0039, "OBJECT_PATH_INVALID"), ADN(\hC000, \h003A, "OBJECT_PATH_NOT_FOUND"), ADN(\hC000, \h003B, "OBJECT_PATH_SYNTAX_BAD"),
    ADN(\hC000, \h003C, "DATA_OVERRUN"), ADN(\hC000, \h003E, "DATA_ERROR"), ADN(\hC000, \h003F, "CRC_ERROR"),
    ADN(\hC000, \h0040, "SECTION_TOO_BIG"), ADN(\hC000, \h0041, "PORT_CONNECTION_REFUSED"), ADN(\hC000, \h0043, "SHARING_VIOLATION"),
    ADN(\hC000, \h0044, "QUOTA_EXCEEDED"), ADN(\hC000, \h004F, "EAS_NOT_SUPPORTED"), ADN(\hC000, \h0050, "EA_TOO_LARGE"),
    ADN(\hC000, \h0051, "NONEXISTENT_EA_ENTRY"), ADN(\hC000, \h0052, "NO_EAS_ON_FILE"), ADN(\hC000, \h0053, "EA_CORRUPT_ERROR"),
    ADN(\hC000, \h0054, "FILE_LOCK_CONFLICT"), ADN(\hC000, \h0055, "LOCK_NOT_GRANTED"), ADN(\hC000, \h0056, "DELETE_PENDING"),
    ADN(\hC000, \h005E, "NO_LOGON_SERVERS"), ADN(\hC000, \h005F, "NO_SUCH_LOGON_SESSION"), ADN(\hC000, \h0060, "NO_SUCH_PRIVILEGE"),
    ADN(\hC000, \h0061, "PRIVILEGE_NOT_HELD"), ADN(\hC000, \h0062, "INVALID_ACCOUNT_NAME"), ADN(\hC000, \h0063, "USER_EXISTS"),
    ADN(\hC000, \h0064, "NO_SUCH_USER"), ADN(\hC000, \h0065, "GROUP_EXISTS"), ADN(\hC000, \h0066, "NO_SUCH_GROUP"),
    ADN(\hC000, \h0067, "MEMBER_IN_GROUP"), ADN(\hC000, \h0068, "MEMBER_NOT_IN_GROUP"), ADN(\hC000, \h0069, "LAST_ADMIN"),
    ADN(\hC000, \h006A, "WRONG_PASSWORD"), ADN(\hC000, \h006B, "ILL_FORMED_PASSWORD"), ADN(\hC000, \h006C, "PASSWORD_RESTRICTION"),
    ADN(\hC000, \h006D, "LOGON_FAILURE"), ADN(\hC000, \h006E, "ACCOUNT_RESTRICTION"), ADN(\hC000, \h006F, "INVALID_LOGON_HOURS"),
    ADN(\hC000, \h0070, "INVALID_WORKSTATION"), ADN(\hC000, \h0071, "PASSWORD_EXPIRED"), ADN(\hC000, \h0072, "ACCOUNT_DISABLED"),
    ADN(\hC000, \h0073, "NONE_MAPPED"), ADN(\hC000, \h0078, "INVALID_SID"), ADN(\hC000, \h007C, "NO_TOKEN"),
    ADN(\hC000, \h007E, "RANGE_NOT_LOCKED"), ADN(\hC000, \h007F, "DISK_FULL"), ADN(\hC000, \h009A, "INSUFFICIENT_RESOURCES"),
    ADN(\hC000, \h00A2, "MEDIA_WRITE_PROTECTED"), ADN(\hC000, \h00A3, "DEVICE_NOT_READY"), ADN(\hC000, \h00AB, "INSTANCE_NOT_AVAILABLE"),
    ADN(\hC000, \h00AC, "PIPE_NOT_AVAILABLE"), ADN(\hC000, \h00AD, "INVALID_PIPE_STATE"), ADN(\hC000, \h00AE, "PIPE_BUSY"),
    ADN(\hC000, \h00AF, "ILLEGAL_FUNCTION"), ADN(\hC000, \h00B0, "PIPE_DISCONNECTED"), ADN(\hC000, \h00B1, "PIPE_CLOSING"),
    ADN(\hC000, \h00B5, "IO_TIMEOUT"), ADN(\hC000, \h00BA, "FILE_IS_A_DIRECTORY"), ADN(\hC000, \h00BB, "NOT_SUPPORTED"),
    ADN(\hC000, \h00BD, "DUPLICATE_NAME"), ADN(\hC000, \h00BE, "BAD_NETWORK_PATH"), ADN(\hC000, \h00C9, "NETWORK_NAME_DELETED"),
    ADN(\hC000, \h00CA, "NETWORK_ACCESS_DENIED"), ADN(\hC000, \h00CB, "BAD_DEVICE_TYPE"), ADN(\hC000, \h00CC, "BAD_NETWORK_NAME"),
    ADN(\hC000, \h00CE, "TOO_MANY_SESSIONS"), ADN(\hC000, \h00D0, "REQUEST_NOT_ACCEPTED"), ADN(\hC000, \h00D4, "NOT_SAME_DEVICE"),
    ADN(\hC000, \h00D5, "FILE_RENAMED"), ADN(\hC000, \h00DF, "NO_SUCH_DOMAIN"), ADN(\hC000, \h00E5, "INTERNAL_ERROR"),
    ADN(\hC000, \h0101, "DIRECTORY_NOT_EMPTY"), ADN(\hC000, \h0102, "FILE_CORRUPT_ERROR"), ADN(\hC000, \h0103, "NOT_A_DIRECTORY"),
    ADN(\hC000, \h0106, "NAME_TOO_LONG"), ADN(\hC000, \h011F, "TOO_MANY_OPENED_FILES"), ADN(\hC000, \h0120, "CANCELLED"),
    ADN(\hC000, \h0121, "CANNOT_DELETE"), ADN(\hC000, \h0122, "INVALID_COMPUTER_NAME"), ADN(\hC000, \h0123, "FILE_DELETED"),
    ADN(\hC000, \h0128, "FILE_CLOSED"), ADN(\hC000, \h0148, "INVALID_LEVEL"), ADN(\hC000, \h0151, "NO_SUCH_ALIAS"),
    ADN(\hC000, \h015B, "LOGON_TYPE_NOT_GRANTED"), ADN(\hC000, \h018B, "NO_TRUST_SAM_ACCOUNT"), ADN(\hC000, \h018C, "TRUSTED_DOMAIN_FAILURE"),
    ADN(\hC000, \h018D, "TRUSTED_RELATIONSHIP_FAILURE"), ADN(\hC000, \h0192, "NETLOGON_NOT_STARTED"), ADN(\hC000, \h0193, "ACCOUNT_EXPIRED"),
    ADN(\hC000, \h0199, "NOLOGON_WORKSTATION_TRUST_ACCOUNT"), ADN(\hC000, \h019A, "NOLOGON_SERVER_TRUST_ACCOUNT"),
    ADN(\hC000, \h0203, "USER_SESSION_DELETED"), ADN(\hC000, \h0224, "PASSWORD_MUST_CHANGE"), ADN(\hC000, \h0225, "NOT_FOUND"),
    ADN(\hC000, \h0233, "DOMAIN_CONTROLLER_NOT_FOUND"), ADN(\hC000, \h0234, "ACCOUNT_LOCKED_OUT"), ADN(\hC000, \h0236, "CONNECTION_REFUSED"),
    ADN(\hC000, \h0257, "PATH_NOT_COVERED"), ADN(\hC000, \h035C, "NETWORK_SESSION_EXPIRED") >>
ADNtNames(v) == ADEnumName(v, ADNtStatusTable)

(* ---------------------------------------------------------------- well-formedness and known answers *)
ADNoDupMasks(table) == \A i, j \in 1..Len(table) : table[i].mask = table[j].mask => i = j
ADNoDupNames(table) == \A i, j \in 1..Len(table) : table[i].name = table[j].name => i = j
ADNoDupArcs(table) == \A i, j \in 1..Len(table) : table[i].arcs = table[j].arcs => i = j

ASSUME /\ \A k \in ADFlagKinds : /\ ADNoDupMasks(ADFlagTable(k)) /\ ADNoDupNames(ADFlagTable(k))
                                 /\ \A r \in ADRows(ADFlagTable(k)) : ADIsSingleBit(r.mask)
       /\ ADNoDupNames(ADSamTypeTable) /\ \A i, j \in 1..Len(ADSamTypeTable) : ADSamTypeTable[i].v = ADSamTypeTable[j].v => i = j
       /\ \A k \in ADOidKinds : ADNoDupArcs(ADOidTable(k))
       /\ \A i, j \in 1..Len(ADRidTable) : ADRidTable[i].rid = ADRidTable[j].rid => i = j
       /\ \A i, j \in 1..Len(ADDflTable) : i < j => ADDflTable[i].v < ADDflTable[j].v
       \* NTSTATUS names are unique; values are unique except the alias SUCCESS = WAIT_0
       /\ ADNoDupNames(ADNtStatusTable)
       /\ \A i, j \in 1..Len(ADNtStatusTable) : (ADNtStatusTable[i].v = ADNtStatusTable[j].v /\ i # j) => ADNtStatusTable[i].v = <<0, 0>>
       \* no Microsoft-defined status has the customer or the reserved bit set
       /\ \A r \in ADRows(ADNtStatusTable) : ADNtCustomer(r.v) = 0 /\ ADNtReserved(r.v) = 0

ASSUME /\ ADBits(<<\h0001, \h0200>>) = {9, 16}                                   \* 66048 = NORMAL_ACCOUNT | DONT_EXPIRE_PASSWD
       /\ ADWord({9, 16}) = <<1, 512>> /\ ADWord(0..31) = <<65535, 65535>> /\ ADWord({}) = <<0, 0>>
       /\ ADWord({31}) = <<\h8000, 0>> /\ ADBits(<<\h8000, 0>>) = {31}
       /\ ADFlagNames(ADBits(<<0, 512>>), ADUacTable) = {"NORMAL_ACCOUNT"}                                   \* 512: an enabled user
       /\ ADFlagNames(ADBits(<<0, 514>>), ADUacTable) = {"NORMAL_ACCOUNT", "ACCOUNT_DISABLE"}                \* 514: a disabled user
       /\ ADFlagNames(ADBits(<<1, 512>>), ADUacTable) = {"NORMAL_ACCOUNT", "DONT_EXPIRE_PASSWD"}             \* 66048
       /\ ADFlagNames(ADBits(<<8, 8192>>), ADUacTable) = {"SERVER_TRUST_ACCOUNT", "TRUSTED_FOR_DELEGATION"}  \* 532480: a domain controller
       /\ ADFlagNames(ADBits(<<\h0400, \h1000>>), ADUacTable) = {"WORKSTATION_TRUST_ACCOUNT", "PARTIAL_SECRETS_ACCOUNT"} \* 0x04001000: an RODC
       /\ ADFlagNames(ADBits(<<\h0040, \h0200>>), ADUacTable) = {"NORMAL_ACCOUNT", "DONT_REQUIRE_PREAUTH"}   \* 4194816: AS-REP roastable
       /\ ADHas(ADBits(<<0, 1>>), "DOMAIN_PASSWORD_COMPLEX", ADPwdTable) /\ ~ADHas(ADBits(<<0, 2>>), "DOMAIN_PASSWORD_COMPLEX", ADPwdTable)
       /\ ADFlagNames(ADBits(<<0, 41>>), ADEnrollTable) = {"INCLUDE_SYMMETRIC_ALGORITHMS", "PUBLISH_TO_DS", "AUTO_ENROLLMENT"}  \* 41: the User template
       /\ ADFlagNames(ADBits(<<0, 1>>), ADCertNameTable) = {"ENROLLEE_SUPPLIES_SUBJECT"}                     \* the "ESC1" condition
       /\ ADFlagNames(ADBits(<<\h8200, 0>>), ADCertNameTable) = {"SUBJECT_ALT_REQUIRE_UPN", "SUBJECT_REQUIRE_DIRECTORY_PATH"}
       /\ ADUnnamed(ADBits(<<\h0200, \h0004>>), ADUacTable) = {2}
       /\ ADEnumName(<<\h3000, 0>>, ADSamTypeTable) = {"USER_OBJECT"}                                        \* 805306368
       /\ ADEnumName(<<\h3000, 1>>, ADSamTypeTable) = {"MACHINE_ACCOUNT"}                                    \* 805306369
       /\ ADEnumName(<<\h3000, 3>>, ADSamTypeTable) = {}
       /\ \A r \in ADRows(ADSamTypeTable) : ADSamClass(r.v) # "undefined"
       /\ ADSamClass(<<\h3000, 1>>) = "user" /\ ADSamClass(<<\h1000, 0>>) = "group"
       /\ ADDflDefined(7) /\ ~ADDflDefined(8) /\ ADDflAtLeast(7, 3) /\ ~ADDflAtLeast(2, 3)
       /\ ADRidUnderBuiltin(544) /\ ~ADRidUnderBuiltin(512) /\ ~ADRidUnderBuiltin(572) /\ ~ADRidUnderBuiltin(553) /\ ADRidUnderBuiltin(574)
       /\ ADOidText(<<1, 2, 840, 113556, 1, 4, 319>>) = "1.2.840.113556.1.4.319"
       /\ ADOidText(ADEkuTable[2].arcs) = "1.3.6.1.5.5.7.3.2" /\ ADOidText(<<2, 5, 29, 37, 0>>) = "2.5.29.37.0"
       /\ ADOidText(<<7>>) = "7"
       /\ ADOidHasPrefix(ADEkuTable[14].arcs, ADOidMicrosoft) /\ ~ADOidHasPrefix(ADEkuTable[2].arcs, ADOidMicrosoft)
       /\ ADNtSeverity(<<\hC000, \h0022>>) = 3 /\ ADNtFacility(<<\hC000, \h0022>>) = 0 /\ ADNtCode(<<\hC000, \h0022>>) = 34
       /\ ADNtSeverity(<<\h8000, 5>>) = 2 /\ ADNtSeverity(<<\h4000, 0>>) = 1 /\ ADNtSeverity(<<0, \h0103>>) = 0
       /\ ADNtFacility(<<\hC019, \h0001>>) = 25 /\ ADNtCustomer(<<\hE000, 1>>) = 1 /\ ADNtReserved(<<\hD000, 1>>) = 1
       /\ ADNtIsFailure(<<\hC000, \h006D>>) /\ ADNtIsFailure(<<\h8000, 5>>) /\ ~ADNtIsFailure(<<0, \h0103>>) /\ ~ADNtIsFailure(<<\h4000, 0>>)
       /\ ADNtNames(<<0, 0>>) = {"SUCCESS", "WAIT_0"} /\ ADNtNames(<<\hC000, \h006D>>) = {"LOGON_FAILURE"}
=============================================================================
