------------------------------ MODULE DNBinary ------------------------------
(***************************************************************************)
(* The string form of LDAP syntax Object(DN-Binary) (MS-ADTS 3.1.1.2.2.2 / *)
(* 2.2.20 msDS-KeyCredentialLink):                                         *)
(*        B:<char count>:<binary value>:<object DN>                        *)
(* <char count> = the number of hexadecimal digits of <binary value>, in   *)
(* decimal; <binary value> = two hex digits per byte; <object DN> = the    *)
(* rest of the string -- it is delimited by the COUNT, not by searching    *)
(* for colons, so a DN may contain ':' (and anything else).                *)
(* Strings are sequences of bytes (the DN's UTF-8 bytes travel unchanged). *)
(***************************************************************************)
EXTENDS Bytes, BigDec

DnbColon == 58
DnbB == 66
DnbEncode(bin, dn, upper) == <<DnbB, DnbColon>> \o BDTextNat(2 * Len(bin)) \o <<DnbColon>> \o BDHexText(bin, upper) \o <<DnbColon>> \o dn

DnbIsDigit(c) == c >= 48 /\ c <= 57
DnbIsHex(c) == DnbIsDigit(c) \/ (c >= 65 /\ c <= 70) \/ (c >= 97 /\ c <= 102)
DnbHexVal(c) == IF c <= 57 THEN c - 48 ELSE IF c <= 70 THEN c - 55 ELSE c - 87
(* end (exclusive, 1-based) of the run of digits starting at i *)
RECURSIVE DnbDigitsEnd(_, _)
DnbDigitsEnd(s, i) == IF i <= Len(s) /\ DnbIsDigit(s[i]) THEN DnbDigitsEnd(s, i + 1) ELSE i
RECURSIVE DnbNat(_, _, _, _)
DnbNat(s, i, e, acc) == IF i >= e THEN acc ELSE DnbNat(s, i + 1, e, acc * 10 + (s[i] - 48))
DnbParts(s) ==                                      \* positions; meaningful only when DnbWellFormed(s)
    LET e == DnbDigitsEnd(s, 3)
        n == DnbNat(s, 3, e, 0)
    IN [count |-> n, hexFrom |-> e + 1, hexTo |-> e + n, dnFrom |-> e + n + 2]
DnbWellFormed(s) ==
    /\ Len(s) >= 5 /\ s[1] = DnbB /\ s[2] = DnbColon
    /\ LET e == DnbDigitsEnd(s, 3) IN
       /\ e > 3 /\ e - 3 <= 6 /\ e <= Len(s) /\ s[e] = DnbColon
       /\ LET p == DnbParts(s) IN
          /\ p.count % 2 = 0
          /\ p.hexTo + 1 <= Len(s) /\ s[p.hexTo + 1] = DnbColon
          /\ \A i \in p.hexFrom..p.hexTo : DnbIsHex(s[i])
DnbDecode(s) ==
    LET p == DnbParts(s) IN
    [bin |-> [i \in 1..(p.count \div 2) |-> 16 * DnbHexVal(s[p.hexFrom + 2 * (i - 1)]) + DnbHexVal(s[p.hexFrom + 2 * (i - 1) + 1])],
     dn |-> SubSeq(s, p.dnFrom, Len(s))]

(* known answers: the library's own documented sample and a DN with colons *)
ASSUME LET s == <<66,58,49,48,58,52,56,54,53,54,99,54,99,54,102,58,67,78,61,74,44,68,67,61,120>>       \* B:10:48656c6c6f:CN=J,DC=x
       IN DnbWellFormed(s) /\ DnbDecode(s) = [bin |-> <<72, 101, 108, 108, 111>>, dn |-> <<67,78,61,74,44,68,67,61,120>>]
          /\ DnbEncode(<<72, 101, 108, 108, 111>>, <<67,78,61,74,44,68,67,61,120>>, FALSE) = s
ASSUME LET dn == <<67,78,61,97,58,98,58>>  s == DnbEncode(<<255, 0>>, dn, TRUE)                          \* CN=a:b:  ->  B:4:FF00:CN=a:b:
       IN s = <<66,58,52,58,70,70,48,48,58>> \o dn /\ DnbWellFormed(s) /\ DnbDecode(s) = [bin |-> <<255, 0>>, dn |-> dn]
ASSUME LET s == DnbEncode(<<>>, <<>>, FALSE) IN s = <<66,58,48,58,58>> /\ DnbWellFormed(s) /\ DnbDecode(s) = [bin |-> <<>>, dn |-> <<>>]
ASSUME ~DnbWellFormed(<<66,58,53,58,52,56,54,53,54,99,54,99,54,102,58,67,78>>)                           \* odd count / count mismatch
=============================================================================
