------------------------------ MODULE TraceC16 ------------------------------
(***************************************************************************)
(* C16 code -> model.  trace.ndjson holds one line per call the recorder   *)
(* made on the real code with full-range random inputs:                    *)
(*   {"op":"sid","in":<bytes>,"out":<text>}   ldap.ParseSIDFromBytes       *)
(*   {"op":"dn","in":<text>,"out":<text>}     ldap.GetDomainFromDistinguishedName *)
(* TLC walks the trace; every line is judged by SID.tla / DN.tla.  A line  *)
(* that is not what the specification computes does not stop the walk: its *)
(* verdict is printed (one JSON record) so that every deviating call gets  *)
(* its own (site, aspect) identity.  The walk must reach the end of the    *)
(* trace (TraceAccepted), otherwise the run is an infrastructure failure.  *)
(***************************************************************************)
EXTENDS SID, DN, TLCExt, Json

VARIABLE l
TraceLog == ndJsonDeserialize("trace.ndjson")
ev == TraceLog[l]

SidOK(e) == SidWellFormed(e.in) /\ (e.out = SidTextDecimal(e.in) \/ e.out = SidText(e.in))
DnRdns(e) == DnParse(e.in)
DnOK(e) == e.out = DnDomainOf(DnRdns(e))
DnDriftClass(e) == DnFormClass(DnRdns(e), e.in)

Judge ==
    CASE ev.op = "reset" -> TRUE
      [] ev.op = "sid" -> IF SidOK(ev) THEN TRUE
                          ELSE PrintT(ToJson([i |-> l, op |-> "sid", n |-> IF Len(ev.in) >= 2 THEN ev.in[2] ELSE -1,
                                              wellformed |-> SidWellFormed(ev.in),
                                              want |-> IF SidWellFormed(ev.in) THEN SidText(ev.in) ELSE <<>>]))
      [] ev.op = "dn"  -> IF DnOK(ev) THEN TRUE
                          ELSE PrintT(ToJson([i |-> l, op |-> "dn", want |-> DnDomainOf(DnRdns(ev)), drift |-> DnDriftClass(ev),
                                              esc |-> DnHasEscapedComma(ev.in)]))
      [] OTHER -> FALSE

Init == l = 1
Step == l <= Len(TraceLog) /\ Judge /\ l' = l + 1
TraceSpec == Init /\ [][Step]_l
TraceAccepted == TLCGet("stats").diameter - 1 = Len(TraceLog)
=============================================================================
