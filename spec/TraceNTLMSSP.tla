---------------------------- MODULE TraceNTLMSSP ----------------------------
(***************************************************************************)
(* Trace validation (code -> model) for C08.  trace.ndjson holds one line  *)
(* per message the LIBRARY built: the inputs it was given and the octets   *)
(* it returned.  The library chooses flags, version, payload order and the *)
(* random parts, so the specification validates instead of predicting:     *)
(* for every event TLC evaluates the validators of NTLMSSP / SPNEGO on the *)
(* recorded octets.  A non-empty verdict is printed as one JSON line       *)
(*   [i |-> event number, p |-> violated P aspects, d |-> D aspects]       *)
(* (P = implied by property C08, D = model detail) and the walk continues, *)
(* so that every event is judged, not only the first offending one.        *)
(*   negotiate    CreateNegotiateMessage(dom, ws, uni) = b                 *)
(*   authenticate CreateAuthenticateMessage(challenge with flags cf, ...)  *)
(*   wrapinit / wrapresp   CreateNegTokenInit(t) / CreateNegTokenResp(t)   *)
(*   e2e          AuthContext: CreateNegotiateToken = w1, then             *)
(*                ProcessChallengeToken(spec-built challenge token) = w2   *)
(***************************************************************************)
EXTENDS NTLMSSP, SPNEGO, TLC, TLCExt, Json

VARIABLE l
TraceLog == ndJsonDeserialize("trace.ndjson")
ev == TraceLog[l]

Tok(seed, n) == [i \in 1..n |-> (i * 31 + seed + (i \div 256) * 7) % 256]
TokenOf(e) == IF "t" \in DOMAIN e THEN e.t ELSE Tok(e.seed, e.n)
Prefix(p, S) == { p \o s : s \in S }
Nothing == [p |-> {}, d |-> {}]

Verdict(e) ==
    CASE e.op = "negotiate" ->
            IF e.err THEN Nothing
            ELSE [p |-> NegotiateViolations(e.b, e.dom, e.ws), d |-> NegotiateDrift(e.b, e.dom, e.ws)]
      [] e.op = "authenticate" ->
            IF e.err THEN Nothing
            ELSE [p |-> AuthenticateViolations(e.b, e.cf, e.user, e.dom, e.ws), d |-> AuthenticateDrift(e.b, e.cf)]
      [] e.op \in {"wrapinit", "wrapresp"} ->
            IF e.err THEN Nothing
            ELSE [p |-> SpnegoFrameViolations(e.w), d |-> SpnegoInnerDrift(e.w, TokenOf(e))]
      [] e.op = "e2e" ->
            LET x1 == SpnegoExtract(e.w1)
                x2 == SpnegoExtract(e.w2) IN
            [p |-> (IF e.err1 THEN {}
                    ELSE Prefix("negotiate-token:", SpnegoFrameViolations(e.w1))
                         \cup (IF x1.ok THEN Prefix("negotiate:", NegotiateViolations(x1.token, e.dom, e.ws))
                               ELSE {"negotiate-token:no-mechanism-token"}))
                   \cup (IF e.err2 THEN {}
                         ELSE Prefix("authenticate-token:", SpnegoFrameViolations(e.w2))
                              \cup (IF x2.ok THEN Prefix("authenticate:", AuthenticateViolations(x2.token, e.cf, e.user, e.dom, e.ws))
                                    ELSE {"authenticate-token:no-mechanism-token"})),
             d |-> (IF e.err1 \/ ~x1.ok THEN {} ELSE Prefix("negotiate:", NegotiateDrift(x1.token, e.dom, e.ws)))
                   \cup (IF e.err2 \/ ~x2.ok THEN {} ELSE Prefix("authenticate:", AuthenticateDrift(x2.token, e.cf)))]
      [] e.op = "reset" -> Nothing

Init == l = 1
Step ==
    /\ l <= Len(TraceLog)
    /\ l' = l + 1
    /\ LET v == Verdict(ev) IN
       IF v.p = {} /\ v.d = {} THEN TRUE ELSE PrintT(ToJson([i |-> l, p |-> v.p, d |-> v.d]))

TraceSpec == Init /\ [][Step]_l
TraceAccepted == TLCGet("stats").diameter - 1 = Len(TraceLog)
=============================================================================
