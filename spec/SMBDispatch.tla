---------------------------- MODULE SMBDispatch ----------------------------
(***************************************************************************)
(* Which command structure an SMB1 message carries, as a function of the   *)
(* header's Command code and the SMB_FLAGS_REPLY bit.  Written from the    *)
(* command list of MS-CIFS 2.2.2.1 (75 assigned codes; all other values    *)
(* are "unused" or "reserved") and the per-command sections 2.2.4.x.       *)
(*                                                                         *)
(* Status letters of 2.2.2.1:  C current, D deprecated, O obsolete - these *)
(* have request (and, normally, response) formats;  X obsolescent and      *)
(* N not implemented - "reserved but not implemented", no message format.  *)
(*                                                                         *)
(* Structure names are the CamelCase of SMB_COM_<NAME> followed by Request *)
(* or Response.  Exceptions, from the command sections:                    *)
(*   SMB_COM_WRITE_RAW     a response carrying code 0x1D is the INTERIM    *)
(*                         server response (2.2.4.25.2); the FINAL response*)
(*                         is sent with code SMB_COM_WRITE_COMPLETE 0x20   *)
(*                         (2.2.4.25.3, 2.2.4.28), which has no request    *)
(*   SMB_COM_READ_RAW      the response is raw data without an SMB header  *)
(*   SMB_COM_NT_CANCEL     has no response                                 *)
(*   *_SECONDARY           (0x26, 0x33, 0xA1) have no response of their    *)
(*                         own: the server answers with the primary's      *)
(*   SMB_COM_INVALID, SMB_COM_NO_ANDX_COMMAND  are not commands            *)
(***************************************************************************)
EXTENDS Integers, Sequences, FiniteSets

CommandTable == <<
    <<0, "CreateDirectory", "D">>, <<1, "DeleteDirectory", "C">>, <<2, "Open", "D">>,
    <<3, "Create", "D">>, <<4, "Close", "C">>, <<5, "Flush", "C">>,
    <<6, "Delete", "C">>, <<7, "Rename", "C">>, <<8, "QueryInformation", "D">>,
    <<9, "SetInformation", "D">>, <<10, "Read", "D">>, <<11, "Write", "D">>,
    <<12, "LockByteRange", "D">>, <<13, "UnlockByteRange", "D">>, <<14, "CreateTemporary", "O">>,
    <<15, "CreateNew", "D">>, <<16, "CheckDirectory", "C">>, <<17, "ProcessExit", "O">>,
    <<18, "Seek", "O">>, <<19, "LockAndRead", "D">>, <<20, "WriteAndUnlock", "D">>,
    <<26, "ReadRaw", "D">>, <<27, "ReadMpx", "O">>, <<28, "ReadMpxSecondary", "X">>,
    <<29, "WriteRaw", "D">>, <<30, "WriteMpx", "O">>, <<31, "WriteMpxSecondary", "X">>,
    <<32, "WriteComplete", "D">>, <<33, "QueryServer", "N">>, <<34, "SetInformation2", "D">>,
    <<35, "QueryInformation2", "D">>, <<36, "LockingAndx", "C">>, <<37, "Transaction", "C">>,
    <<38, "TransactionSecondary", "C">>, <<39, "Ioctl", "O">>, <<40, "IoctlSecondary", "N">>,
    <<41, "Copy", "X">>, <<42, "Move", "X">>, <<43, "Echo", "C">>,
    <<44, "WriteAndClose", "D">>, <<45, "OpenAndx", "D">>, <<46, "ReadAndx", "C">>,
    <<47, "WriteAndx", "C">>, <<48, "NewFileSize", "N">>, <<49, "CloseAndTreeDisc", "N">>,
    <<50, "Transaction2", "C">>, <<51, "Transaction2Secondary", "C">>, <<52, "FindClose2", "C">>,
    <<53, "FindNotifyClose", "N">>, <<112, "TreeConnect", "D">>, <<113, "TreeDisconnect", "C">>,
    <<114, "Negotiate", "C">>, <<115, "SessionSetupAndx", "C">>, <<116, "LogoffAndx", "C">>,
    <<117, "TreeConnectAndx", "C">>, <<126, "SecurityPackageAndx", "X">>, <<128, "QueryInformationDisk", "D">>,
    <<129, "Search", "D">>, <<130, "Find", "D">>, <<131, "FindUnique", "D">>,
    <<132, "FindClose", "D">>, <<160, "NtTransact", "C">>, <<161, "NtTransactSecondary", "C">>,
    <<162, "NtCreateAndx", "C">>, <<164, "NtCancel", "C">>, <<165, "NtRename", "O">>,
    <<192, "OpenPrintFile", "C">>, <<193, "WritePrintFile", "D">>, <<194, "ClosePrintFile", "D">>,
    <<195, "GetPrintQueue", "X">>, <<216, "ReadBulk", "N">>, <<217, "WriteBulk", "N">>,
    <<218, "WriteBulkData", "N">>, <<254, "Invalid", "C">>, <<255, "NoAndxCommand", "C">> >>

Assigned == { CommandTable[i][1] : i \in 1..Len(CommandTable) }
Row(code) == CommandTable[CHOOSE i \in 1..Len(CommandTable) : CommandTable[i][1] = code]
HasFormat(code) == code \in Assigned /\ Row(code)[3] \in {"C", "D", "O"} /\ ~(code \in {254, 255})
NoResponse == {26, 164, 38, 51, 161}       \* READ_RAW, NT_CANCEL, TRANSACTION_SECONDARY, TRANSACTION2_SECONDARY, NT_TRANSACT_SECONDARY
NoRequest  == {32}                          \* WRITE_COMPLETE

Unsupported == "Unsupported"
DispatchType(code, reply) ==
    IF ~HasFormat(code) THEN Unsupported
    ELSE IF reply THEN
        IF code \in NoResponse THEN Unsupported
        ELSE IF code = 29 THEN "WriteRawInterim"
        ELSE IF code = 32 THEN "WriteRawFinal"
        ELSE Row(code)[2] \o "Response"
    ELSE IF code \in NoRequest THEN Unsupported ELSE Row(code)[2] \o "Request"

ASSUME Cardinality(Assigned) = 75 /\ Len(CommandTable) = 75
ASSUME \A i \in 1..(Len(CommandTable) - 1) : CommandTable[i][1] < CommandTable[i + 1][1]
ASSUME DispatchType(114, FALSE) = "NegotiateRequest" /\ DispatchType(114, TRUE) = "NegotiateResponse"
ASSUME DispatchType(115, TRUE) = "SessionSetupAndxResponse" /\ DispatchType(37, FALSE) = "TransactionRequest"
ASSUME DispatchType(164, FALSE) = "NtCancelRequest" /\ DispatchType(164, TRUE) = Unsupported
ASSUME DispatchType(29, TRUE) = "WriteRawInterim" /\ DispatchType(32, TRUE) = "WriteRawFinal" /\ DispatchType(32, FALSE) = Unsupported
ASSUME DispatchType(21, FALSE) = Unsupported /\ DispatchType(255, FALSE) = Unsupported /\ DispatchType(41, TRUE) = Unsupported
ASSUME Cardinality({ c \in 0..255 : DispatchType(c, FALSE) # Unsupported }) = 58
ASSUME Cardinality({ c \in 0..255 : DispatchType(c, TRUE) # Unsupported }) = 54
=============================================================================
