---------------------------- MODULE NBNSTcpServer ----------------------------
(***************************************************************************)
(* nbtns.TCPServer (tcp_server.go): an accept loop and one handler         *)
(* goroutine per connection that reads 2-byte-length-prefixed messages one *)
(* after the other and writes each reply before reading on (C18).          *)
(*                                                                         *)
(* There are no scheduling hooks in this server, so the model is driven    *)
(* from the client side: what each connection has sent and whether it      *)
(* reads its replies.  A handler is, at any moment,                        *)
(*   "read"    blocked reading the next length / message (idle connection) *)
(*   "mid"     blocked in the middle of a message (client sent a part)     *)
(*   "write"   blocked writing a reply the client does not read (its       *)
(*             socket buffers are full: the client pipelined requests)     *)
(*   "gone"    returned (connection closed)                                *)
(* Stop must close the listener AND every tracked connection, which wakes  *)
(* a handler in ANY of these states; then it waits for them and returns.   *)
(***************************************************************************)
EXTENDS Integers, Sequences, FiniteSets, TLC, Json

CONSTANTS Conns,            \* connection ids
          StopWakesWriters, \* TRUE = intended design (conn.Close wakes readers and writers); FALSE = deviation: only reads are interrupted
          EmitEdges

VARIABLES st,        \* conn -> "none" | "read" | "mid" | "write" | "gone"
          answered,  \* conn -> number of request/reply exchanges completed
          stopping, stopped
vars == <<st, answered, stopping, stopped>>

St == [st |-> st, answered |-> answered, stopping |-> stopping, stopped |-> stopped]
Edge(act, c) == EmitEdges => PrintT(ToJson([act |-> act, c |-> c, f |-> St,
                     t |-> [st |-> st', answered |-> answered', stopping |-> stopping', stopped |-> stopped']]))

Init == st = [c \in Conns |-> "none"] /\ answered = [c \in Conns |-> 0] /\ stopping = FALSE /\ stopped = FALSE

Connect(c) == /\ st[c] = "none" /\ ~stopping
              /\ st' = [st EXCEPT ![c] = "read"] /\ UNCHANGED <<answered, stopping, stopped>> /\ Edge("connect", c)
(* the client sends the first bytes of a message and pauses *)
SendPart(c) == /\ st[c] = "read" /\ ~stopping
               /\ st' = [st EXCEPT ![c] = "mid"] /\ UNCHANGED <<answered, stopping, stopped>> /\ Edge("part", c)
(* the client completes (or sends) a request and reads the reply *)
Exchange(c) == /\ st[c] \in {"read", "mid"} /\ ~stopping /\ answered[c] < 2
               /\ st' = [st EXCEPT ![c] = "read"] /\ answered' = [answered EXCEPT ![c] = @ + 1]
               /\ UNCHANGED <<stopping, stopped>> /\ Edge("exchange", c)
(* the client pipelines many requests and never reads: the handler ends up blocked in a write *)
Flood(c) == /\ st[c] = "read" /\ ~stopping
            /\ st' = [st EXCEPT ![c] = "write"] /\ UNCHANGED <<answered, stopping, stopped>> /\ Edge("flood", c)

Stop == /\ ~stopping /\ stopping' = TRUE /\ UNCHANGED <<st, answered, stopped>> /\ Edge("stop", 0)
(* a handler woken by the closed connection returns *)
HandlerExit(c) == /\ stopping
                  /\ (st[c] \in {"read", "mid"} \/ (st[c] = "write" /\ StopWakesWriters))
                  /\ st' = [st EXCEPT ![c] = "gone"] /\ UNCHANGED <<answered, stopping, stopped>> /\ Edge("hexit", c)
StopReturns == /\ stopping /\ ~stopped /\ \A c \in Conns : st[c] \in {"none", "gone"}
               /\ stopped' = TRUE /\ UNCHANGED <<st, answered, stopping>> /\ Edge("stopret", 0)

Next == (\E c \in Conns : Connect(c) \/ SendPart(c) \/ Exchange(c) \/ Flood(c) \/ HandlerExit(c)) \/ Stop \/ StopReturns
Spec == Init /\ [][Next]_vars /\ WF_vars(StopReturns) /\ \A c \in Conns : WF_vars(HandlerExit(c))
SpecSafe == Init /\ [][Next]_vars
StopLeadsToReturn == stopping ~> stopped
=============================================================================
