-------------------------------- MODULE CMAC --------------------------------
(* CMAC, written from NIST SP 800-38B (sections 6.1 subkey generation, 6.2 MAC generation) and RFC 4493
   (the AES-128 instance).  E(_) is the forward function of the block cipher under the MAC key, b its
   block size in bytes (8 or 16); bit strings are byte strings, most significant bit first.

   6.1  L = E(0^b);  K1 = L << 1 if MSB(L) = 0 else (L << 1) xor R_b;  K2 likewise from K1;
        R_128 = 0^120 10000111 (0x87),  R_64 = 0^59 11011 (0x1B).
   6.2  n = 1 if Mlen = 0 else ceil(Mlen / b);  M = M_1 || ... || M_n-1 || M_n*  (M_n* possibly partial/empty);
        M_n = K1 xor M_n*  if M_n* is a complete block, else K2 xor (M_n* || 1 0^j);
        C_0 = 0^b;  C_i = E(C_i-1 xor M_i);  T = C_n  (full-length tag). *)
EXTENDS Integers, Sequences, Bitwise, Bytes, TLC

CMACRb(b) == IF b = 16 THEN 135 ELSE 27
CMACXor(a, c) == TLCEval([k \in 1..Len(a) |-> a[k] ^^ c[k]])     \* TLCEval: identity; makes TLC materialise the block
CMACShl1(s) == TLCEval([k \in 1..Len(s) |-> ((2 * s[k]) % 256) + (IF k < Len(s) THEN s[k + 1] \div 128 ELSE 0)])
CMACDbl(s) == LET sh == CMACShl1(s)
              IN IF s[1] >= 128 THEN [sh EXCEPT ![Len(s)] = sh[Len(s)] ^^ CMACRb(Len(s))] ELSE sh
CMACSubkeysFromL(L) == LET K1 == CMACDbl(L) IN <<K1, CMACDbl(K1)>>
CMACSubkeys(E(_), b) == CMACSubkeysFromL(E(Zeros(b)))

CMACNBlocks(b, m) == IF Len(m) = 0 THEN 1 ELSE (Len(m) + b - 1) \div b
(* the last block after subkey masking (and 10* padding when partial) *)
CMACLast(E(_), b, m) ==
    LET n == CMACNBlocks(b, m)
        last == SubSeq(m, (n - 1) * b + 1, Len(m))
        K == CMACSubkeys(E, b)
    IN IF Len(last) = b THEN CMACXor(K[1], last)
       ELSE CMACXor(K[2], last \o <<128>> \o Zeros(b - Len(last) - 1))

(* C_(n-1): the chaining value after the first n-1 (complete, not last) blocks *)
CMACChain(E(_), b, m) ==
    LET n == CMACNBlocks(b, m)
        RECURSIVE go(_, _)
        go(c, i) == IF i = n THEN c ELSE go(E(CMACXor(c, SubSeq(m, (i - 1) * b + 1, i * b))), i + 1)
    IN go(Zeros(b), 1)

CMACTag(E(_), b, m) == E(CMACXor(CMACChain(E, b, m), CMACLast(E, b, m)))

(* E given extensionally by a finite table (a function from input blocks to output blocks): used by the known
   answers below and by trace validation, where the table is the log of the real cipher's Encrypt calls.
   An input outside the table has no defined image; CMACTableE then yields a zero block only so that the
   computation stays well-typed -- users must also require CMACDefinedOn. *)
CMACTableE(T, x) == IF x \in DOMAIN T THEN T[x] ELSE Zeros(Len(x))
(* every input the standard applies E to for message m: 0^b, C_(i-1) xor M_i for i < n, and the masked last block *)
CMACInputs(E(_), b, m) ==
    LET n == CMACNBlocks(b, m)
        RECURSIVE go(_, _)
        go(c, i) == IF i = n THEN {CMACXor(c, CMACLast(E, b, m))}
                    ELSE LET x == CMACXor(c, SubSeq(m, (i - 1) * b + 1, i * b)) IN {x} \cup go(E(x), i + 1)
    IN {Zeros(b)} \cup go(Zeros(b), 1)
CMACDefinedOn(T, b, m) == LET E(x) == CMACTableE(T, x) IN CMACInputs(E, b, m) \subseteq DOMAIN T

(* ---- known answers (RFC 4493 section 4: AES-128 key 2b7e1516 28aed2a6 abf71588 09cf4f3c) ---- *)
CMACHex(str) == LET d(ch) == CHOOSE v \in 0..15 : SubSeq("0123456789abcdef", v + 1, v + 1) = ch
                IN [k \in 1..(Len(str) \div 2) |-> 16 * d(SubSeq(str, 2 * k - 1, 2 * k - 1)) + d(SubSeq(str, 2 * k, 2 * k))]
RFC4493L  == CMACHex("7df76b0c1ab899b33e42f047b91b546f")     \* AES-128(key, 0^128)
RFC4493K1 == CMACHex("fbeed618357133667c85e08f7236a8de")
RFC4493K2 == CMACHex("f7ddac306ae266ccf90bc11ee46d513b")
ASSUME CMACSubkeysFromL(RFC4493L) = <<RFC4493K1, RFC4493K2>>
(* Examples 1 and 2 with AES given by the table of the two applications each example needs *)
RFC4493M16 == CMACHex("6bc1bee22e409f96e93d7e117393172a")
RFC4493T0  == CMACHex("bb1d6929e95937287fa37d129b756746")
RFC4493T16 == CMACHex("070a16b46b4d4144f79bdd9dd04a287c")
RFC4493Table == [x \in { Zeros(16), CMACXor(RFC4493K2, <<128>> \o Zeros(15)), CMACXor(RFC4493K1, RFC4493M16) } |->
                    IF x = Zeros(16) THEN RFC4493L ELSE IF x = CMACXor(RFC4493K1, RFC4493M16) THEN RFC4493T16 ELSE RFC4493T0]
ASSUME LET E(x) == CMACTableE(RFC4493Table, x) IN CMACTag(E, 16, <<>>) = RFC4493T0 /\ CMACTag(E, 16, RFC4493M16) = RFC4493T16
(* 64-bit doubling: R_64 = 0x1B enters the last byte only when the shifted-out bit is 1 *)
ASSUME CMACDbl(<<128, 0, 0, 0, 0, 0, 0, 0>>) = <<0, 0, 0, 0, 0, 0, 0, 27>>
ASSUME CMACDbl(<<64, 0, 0, 0, 0, 0, 0, 129>>) = <<128, 0, 0, 0, 0, 0, 1, 2>>
=============================================================================
