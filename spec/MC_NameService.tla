-------------------------- MODULE MC_NameService --------------------------
(* Model-checking instances of NameService: cfg files cannot contain tuples, so workloads are named here. *)
EXTENDS NameService
RC_2q == <<1, 2>>
RO_2q == <<0, 0>>
RC_3 == <<1, 2, 1>>
RO_3 == <<0, 5, 0>>
RC_4 == <<1, 2, 1, 2>>
RO_4 == <<0, 5, 0, 6>>
RC_ops == [i \in 1..16 |-> 1]
RO_ops == [i \in 1..16 |-> i - 1]
=============================================================================
