------------------------------ MODULE SMBTypes ------------------------------
(***************************************************************************)
(* The SMB wire data types of property C06, written from the protocol      *)
(* documents:                                                              *)
(*   MS-CIFS 2.2.1.4.1 SMB_DATE, 2.2.1.3 SMB_NMPIPE_STATUS, 2.2.1.2.4      *)
(*   SMB_FILE_ATTRIBUTES, 2.2.2.5 data buffer format codes (strings),      *)
(*   2.2.3.2/2.2.3.3 parameter and data blocks, 2.2.3.4 AndX block,        *)
(*   2.2.4.32.1 LOCKING_ANDX_RANGE32/64, 2.2.4.58 SMB_Resume_Key and       *)
(*   SMB_Directory_Information; MS-DTYP 2.3.3 FILETIME; MS-NLMP 2.2.2.10   *)
(*   VERSION.                                                              *)
(*                                                                         *)
(* Every type T has  Enc(T, v, lib)  and  Dec(T, bytes, lib) -> [ok, v, n] *)
(* and the law C06 is about:                                               *)
(*     Dec(T, Enc(T, v, lib) \o suffix, lib) = [ok |-> TRUE, v |-> v,      *)
(*                                             n |-> Len(Enc(T, v, lib))]  *)
(* for every in-domain v and EVERY suffix (RoundTripLaw below).            *)
(*                                                                         *)
(* `lib` selects the named deviations of the Manticore library from the    *)
(* documents (they concern the byte layout = property C05, never the       *)
(* round-trip law); lib = FALSE is the layout of the documents:            *)
(*   Fmt3LenPrefixed   format 0x03 is written  03 len16 bytes 00  instead  *)
(*                     of the NUL-terminated pathname  03 bytes 00         *)
(*   AttrBigEndian     SMB_FILE_ATTRIBUTES as a big-endian USHORT          *)
(*   AndXOffBigEndian  AndXOffset big-endian                               *)
(*   WordsBigEndian    parameter words held as big-endian byte pairs       *)
(*   DirInfoWide       SMB_Directory_Information carries the resume key    *)
(*                     inside a 05 len16 block, an 8-byte FILETIME as      *)
(*                     LastWriteTime and a 04-prefixed file name (53 bytes *)
(*                     instead of 43)                                      *)
(***************************************************************************)
EXTENDS Integers, Sequences, FiniteSets, Bytes, Word32, Wire

Types == {"str", "oem", "date", "filetime", "range32", "range64", "pipe", "resumekey", "dirinfo", "attr", "andx",
          "params", "data", "version"}
FixedTypes == {"filetime", "range32", "range64", "pipe", "attr", "andx", "version"}

(* ---------------------------------------------------------------- fixed layouts *)
Schema(t, lib) ==
    CASE t = "filetime" -> <<U32("lo"), U32("hi")>>                                             \* MS-DTYP 2.3.3
      [] t = "range32"  -> <<U16("pid"), U32("off"), U32("len")>>                               \* 10 bytes
      [] t = "range64"  -> <<U16("pid"), U16("pad"), U32("offhi"), U32("offlo"), U32("lenhi"), U32("lenlo")>>  \* 20 bytes
      [] t = "pipe"     -> <<U8("icount"), U8("flags")>>      \* 16-bit LE word: ICount = 0x00FF, ReadMode 0x0300, Endpoint 0x4000, NonBlocking 0x8000
      [] t = "attr"     -> IF lib THEN <<BE16("attr")>> ELSE <<U16("attr")>>
      [] t = "andx"     -> <<U8("cmd"), U8("reserved"), IF lib THEN BE16("offset") ELSE U16("offset")>>
      [] t = "version"  -> <<U8("major"), U8("minor"), U16("build"), Raw("reserved", 3), U8("rev")>>   \* MS-NLMP 2.2.2.10
      [] t = "rkbody"   -> <<U8("reserved"), Raw("server", 16), Raw("client", 4)>>              \* SMB_Resume_Key, 21 bytes

(* ---------------------------------------------------------------- SMB_DATE *)
DateWord(v) == (v.year - 1980) * 512 + v.month * 32 + v.day        \* YEAR 0xFE00, MONTH 0x01E0, DAY 0x001F
DateOfWord(w) == [year |-> 1980 + (w \div 512), month |-> (w \div 32) % 16, day |-> w % 32]
DateDomain == [year : 1980..2107, month : 0..15, day : 0..31]
DateEnc(v) == LE(DateWord(v), 2)
DateDec(b) == IF Len(b) < 2 THEN [ok |-> FALSE] ELSE [ok |-> TRUE, n |-> 2, v |-> DateOfWord(UnLE16(b))]

(* pipe status word <-> fields, and the named sub-fields of MS-CIFS 2.2.1.3 *)
PipeOfWord(w) == [icount |-> w % 256, flags |-> w \div 256]
PipeReadMode(v) == v.flags % 4
PipeNonBlocking(v) == v.flags \div 128 = 1
PipeEndpointServer(v) == (v.flags \div 64) % 2 = 1

(* ---------------------------------------------------------------- strings *)
(* first index >= from holding a NUL, 0 if none *)
FirstNul(b, from) == LET Z == { i \in from..Len(b) : b[i] = 0 }
                     IN IF Z = {} THEN 0 ELSE CHOOSE i \in Z : \A j \in Z : i <= j
NoNul(s) == \A i \in 1..Len(s) : s[i] # 0
LenPrefixed(fmt, lib) == fmt \in {1, 5} \/ (lib /\ fmt = 3)
StrDomain(v) == /\ v.fmt \in 1..5 /\ Len(v.buf) <= 65535
                /\ (v.fmt \in {2, 3, 4} => NoNul(v.buf))
StrEnc(v, lib) ==
    IF v.fmt \in {1, 5} THEN <<v.fmt>> \o LE(Len(v.buf), 2) \o v.buf
    ELSE IF lib /\ v.fmt = 3 THEN <<v.fmt>> \o LE(Len(v.buf), 2) \o v.buf \o <<0>>
    ELSE <<v.fmt>> \o v.buf \o <<0>>
StrDec(b, lib) ==
    IF Len(b) < 1 \/ ~(b[1] \in 1..5) THEN [ok |-> FALSE]
    ELSE IF LenPrefixed(b[1], lib) THEN
        LET term == IF b[1] = 3 THEN 1 ELSE 0 IN
        IF Len(b) < 3 THEN [ok |-> FALSE]
        ELSE LET k == UnLE16(SubSeq(b, 2, 3)) IN
             IF Len(b) < 3 + k + term THEN [ok |-> FALSE]
             ELSE [ok |-> TRUE, n |-> 3 + k + term, v |-> [fmt |-> b[1], buf |-> SubSeq(b, 4, 3 + k)]]
    ELSE LET z == FirstNul(b, 2) IN
         IF z = 0 THEN [ok |-> FALSE]
         ELSE [ok |-> TRUE, n |-> z, v |-> [fmt |-> b[1], buf |-> SubSeq(b, 2, z - 1)]]

(* OEM_STRING as the library carries it: a format-0x04 string *)
OemEnc(v, lib) == StrEnc([fmt |-> 4, buf |-> v.buf], lib)
OemDec(b, lib) == LET r == StrDec(b, lib) IN
                  IF r.ok /\ r.v.fmt = 4 THEN [ok |-> TRUE, n |-> r.n, v |-> [buf |-> r.v.buf]] ELSE [ok |-> FALSE]

(* ---------------------------------------------------------------- blocks *)
ParamsEnc(v, lib) == <<Len(v.words)>> \o Flatten([i \in 1..Len(v.words) |-> IF lib THEN BE(v.words[i], 2) ELSE LE(v.words[i], 2)])
ParamsDec(b, lib) ==
    IF Len(b) < 1 \/ Len(b) < 1 + 2 * b[1] THEN [ok |-> FALSE]
    ELSE [ok |-> TRUE, n |-> 1 + 2 * b[1],
          v |-> [words |-> [i \in 1..b[1] |-> IF lib THEN UnBE16(SubSeq(b, 2 * i, 2 * i + 1)) ELSE UnLE16(SubSeq(b, 2 * i, 2 * i + 1))]]]
DataEnc(v) == LE(Len(v.bytes), 2) \o v.bytes
DataDec(b) == IF Len(b) < 2 \/ Len(b) < 2 + UnLE16(b) THEN [ok |-> FALSE]
              ELSE [ok |-> TRUE, n |-> 2 + UnLE16(b), v |-> [bytes |-> SubSeq(b, 3, 2 + UnLE16(b))]]

(* ---------------------------------------------------------------- resume key, directory information *)
ResumeKeyEnc(v) == <<5>> \o LE(21, 2) \o WireEncode(Schema("rkbody", FALSE), v)        \* BufferFormat 0x05, ResumeKeyLength 21
ResumeKeyDec(b) == IF Len(b) < 24 \/ b[1] # 5 \/ UnLE16(SubSeq(b, 2, 3)) # 21 THEN [ok |-> FALSE]
                   ELSE [ok |-> TRUE, n |-> 24, v |-> WireDecode(Schema("rkbody", FALSE), SubSeq(b, 4, 24)).v]

RECURSIVE RTrim(_)
RTrim(s) == IF s # <<>> /\ s[Len(s)] = 32 THEN RTrim(SubSeq(s, 1, Len(s) - 1)) ELSE s
PadName(nm) == nm \o Rep(32, 12 - Len(nm))
NameDomain(nm) == Len(nm) <= 12 /\ NoNul(nm) /\ RTrim(nm) = nm          \* 8.3 names: "modulo space padding"
(* v = [rk, attr, time, date, size, name]; time is a FILETIME value in the wide layout, an SMB_TIME word otherwise *)
DirInfoSize(lib) == IF lib THEN 53 ELSE 43
DirInfoEnc(v, lib) ==
    IF lib THEN ResumeKeyEnc(v.rk) \o <<v.attr>> \o WireEncode(Schema("filetime", FALSE), v.time) \o DateEnc(v.date)
                \o WToLE(v.size) \o <<4>> \o PadName(v.name) \o <<0>>
    ELSE WireEncode(Schema("rkbody", FALSE), v.rk) \o <<v.attr>> \o LE(v.time, 2) \o DateEnc(v.date)
         \o WToLE(v.size) \o PadName(v.name) \o <<0>>
DirInfoDec(b, lib) ==
    IF Len(b) < DirInfoSize(lib) THEN [ok |-> FALSE]
    ELSE IF lib THEN
        LET rk == ResumeKeyDec(b) IN
        IF ~rk.ok \/ b[40] # 4 \/ b[53] # 0 THEN [ok |-> FALSE]
        ELSE [ok |-> TRUE, n |-> 53,
              v |-> [rk |-> rk.v, attr |-> b[25], time |-> WireDecode(Schema("filetime", FALSE), SubSeq(b, 26, 33)).v,
                     date |-> DateOfWord(UnLE16(SubSeq(b, 34, 35))), size |-> WFromLE(SubSeq(b, 36, 39)),
                     name |-> RTrim(SubSeq(b, 41, 52))]]
    ELSE IF b[43] # 0 THEN [ok |-> FALSE]
         ELSE [ok |-> TRUE, n |-> 43,
               v |-> [rk |-> WireDecode(Schema("rkbody", FALSE), SubSeq(b, 1, 21)).v, attr |-> b[22],
                      time |-> UnLE16(SubSeq(b, 23, 24)), date |-> DateOfWord(UnLE16(SubSeq(b, 25, 26))),
                      size |-> WFromLE(SubSeq(b, 27, 30)), name |-> RTrim(SubSeq(b, 31, 42))]]

(* ---------------------------------------------------------------- dispatch *)
Enc(t, v, lib) ==
    CASE t \in FixedTypes -> WireEncode(Schema(t, lib), v)
      [] t = "date"       -> DateEnc(v)
      [] t = "str"        -> StrEnc(v, lib)
      [] t = "oem"        -> OemEnc(v, lib)
      [] t = "params"     -> ParamsEnc(v, lib)
      [] t = "data"       -> DataEnc(v)
      [] t = "resumekey"  -> ResumeKeyEnc(v)
      [] t = "dirinfo"    -> DirInfoEnc(v, lib)
Dec(t, b, lib) ==
    CASE t \in FixedTypes -> WireDecode(Schema(t, lib), b)
      [] t = "date"       -> DateDec(b)
      [] t = "str"        -> StrDec(b, lib)
      [] t = "oem"        -> OemDec(b, lib)
      [] t = "params"     -> ParamsDec(b, lib)
      [] t = "data"       -> DataDec(b)
      [] t = "resumekey"  -> ResumeKeyDec(b)
      [] t = "dirinfo"    -> DirInfoDec(b, lib)

(* the property: an encoding followed by ANY suffix decodes to the same value and reports its own length *)
RoundTripLaw(t, v, suffix, lib) ==
    LET e == Enc(t, v, lib) IN Dec(t, e \o suffix, lib) = [ok |-> TRUE, n |-> Len(e), v |-> v]

(* ---------------------------------------------------------------- known answers *)
ASSUME DateEnc([year |-> 2021, month |-> 12, day |-> 3]) = <<131, 83>>          \* 0x5383
ASSUME DateOfWord(65535) = [year |-> 2107, month |-> 15, day |-> 31] /\ DateOfWord(0) = [year |-> 1980, month |-> 0, day |-> 0]
ASSUME \A w \in {0, 1, 31, 32, 511, 512, 21379, 65535} : DateWord(DateOfWord(w)) = w
ASSUME StrEnc([fmt |-> 2, buf |-> <<78, 84>>], FALSE) = <<2, 78, 84, 0>>        \* dialect "NT"
ASSUME StrEnc([fmt |-> 1, buf |-> <<9, 0, 8>>], FALSE) = <<1, 3, 0, 9, 0, 8>>
ASSUME StrDec(<<4, 65, 0, 66, 0>>, FALSE) = [ok |-> TRUE, n |-> 3, v |-> [fmt |-> 4, buf |-> <<65>>]]
ASSUME ~StrDec(<<4, 65, 66>>, FALSE).ok /\ ~StrDec(<<5, 3, 0, 1, 2>>, FALSE).ok /\ ~StrDec(<<6, 0>>, FALSE).ok
ASSUME WireEncode(Schema("range32", FALSE), [pid |-> 4660, off |-> <<4386, 13124>>, len |-> <<0, 16>>])
         = <<52, 18, 68, 51, 34, 17, 16, 0, 0, 0>>
ASSUME WireSize(Schema("range64", FALSE)) = 20 /\ WireSize(Schema("version", FALSE)) = 8 /\ WireSize(Schema("rkbody", FALSE)) = 21
ASSUME WireEncode(Schema("version", FALSE), [major |-> 10, minor |-> 0, build |-> 18362, reserved |-> <<0, 0, 0>>, rev |-> 15])
         = <<10, 0, 186, 71, 0, 0, 0, 15>>                                        \* 10.0 build 18362 (0x47BA), NTLMSSP_REVISION_W2K3 = 15
ASSUME ParamsEnc([words |-> <<4660, 255>>], FALSE) = <<2, 52, 18, 255, 0>> /\ DataEnc([bytes |-> <<7, 8, 9>>]) = <<3, 0, 7, 8, 9>>
ASSUME LET v == [rk |-> [reserved |-> 0, server |-> Zeros(16), client |-> Zeros(4)], attr |-> 32, time |-> 0,
                 date |-> [year |-> 2021, month |-> 12, day |-> 3], size |-> <<0, 1024>>, name |-> <<65, 46, 66>>]
       IN /\ Len(DirInfoEnc(v, FALSE)) = 43 /\ Len(DirInfoEnc([v EXCEPT !.time = [lo |-> <<0, 0>>, hi |-> <<0, 0>>]], TRUE)) = 53
          /\ RoundTripLaw("dirinfo", v, <<1, 2, 3>>, FALSE)
ASSUME \A lib \in BOOLEAN : \A s \in {<<>>, <<0>>, <<238>>, <<0, 0, 7>>} :
         /\ \A f \in 1..5 : RoundTripLaw("str", [fmt |-> f, buf |-> <<65, 66, 255>>], s, lib) /\ RoundTripLaw("str", [fmt |-> f, buf |-> <<>>], s, lib)
         /\ RoundTripLaw("params", [words |-> <<1, 65535, 256>>], s, lib)
         /\ RoundTripLaw("data", [bytes |-> <<0, 0, 1>>], s, lib)
         /\ RoundTripLaw("andx", [cmd |-> 255, reserved |-> 0, offset |-> 258], s, lib)
=============================================================================
