-------------------------------- MODULE Wire --------------------------------
(***************************************************************************)
(* Schema-driven codec for fixed-layout wire structures.                   *)
(*                                                                         *)
(* A schema is a sequence of slots [name, k, n]: field name, kind, width.  *)
(* Kinds: "u8", "u16", "u32" (little-endian: MS-CIFS 2.2 "multi-byte       *)
(* fields ... MUST be transmitted in little-endian byte order", likewise   *)
(* MS-DTYP / MS-NLMP), "be16" (a named deviation, see SMBTypes), "bytes"   *)
(* (n raw bytes).  Values: u8/u16/be16 -> Nat, u32 -> Word32 <<hi16,lo16>> *)
(* (TLC integers are 32-bit signed), bytes -> sequence of 0..255.          *)
(* A structure value is a function from slot names to values.              *)
(***************************************************************************)
EXTENDS Integers, Sequences, Bytes, Word32

U8(nm)       == [name |-> nm, k |-> "u8",    n |-> 1]
U16(nm)      == [name |-> nm, k |-> "u16",   n |-> 2]
BE16(nm)     == [name |-> nm, k |-> "be16",  n |-> 2]
U32(nm)      == [name |-> nm, k |-> "u32",   n |-> 4]
Raw(nm, len) == [name |-> nm, k |-> "bytes", n |-> len]

RECURSIVE WireSumTo(_, _)
WireSumTo(S, i) == IF i = 0 THEN 0 ELSE S[i].n + WireSumTo(S, i - 1)
WireSize(S) == WireSumTo(S, Len(S))
WireOffset(S, i) == WireSumTo(S, i - 1)            \* 0-based offset of slot i
WireNames(S) == { S[i].name : i \in 1..Len(S) }
WireIndex(S, nm) == CHOOSE i \in 1..Len(S) : S[i].name = nm

WireEncSlot(slot, x) ==
    CASE slot.k = "u8"    -> <<x>>
      [] slot.k = "u16"   -> LE(x, 2)
      [] slot.k = "be16"  -> BE(x, 2)
      [] slot.k = "u32"   -> WToLE(x)
      [] slot.k = "bytes" -> x
WireDecSlot(slot, b) ==
    CASE slot.k = "u8"    -> b[1]
      [] slot.k = "u16"   -> UnLE16(b)
      [] slot.k = "be16"  -> UnBE16(b)
      [] slot.k = "u32"   -> WFromLE(b)
      [] slot.k = "bytes" -> b

WireEncode(S, v) == Flatten([i \in 1..Len(S) |-> WireEncSlot(S[i], v[S[i].name])])

(* Decoding takes exactly WireSize(S) bytes from the front of b and ignores what follows. *)
WireDecode(S, b) ==
    IF Len(b) < WireSize(S) THEN [ok |-> FALSE]
    ELSE [ok |-> TRUE, n |-> WireSize(S),
          v  |-> [nm \in WireNames(S) |->
                    LET i == WireIndex(S, nm)
                    IN WireDecSlot(S[i], SubSeq(b, WireOffset(S, i) + 1, WireOffset(S, i) + S[i].n))]]

(* the slot-wise range of field nm inside an encoding: <<first, last>> (1-based) *)
WireRange(S, nm) == LET i == WireIndex(S, nm) IN <<WireOffset(S, i) + 1, WireOffset(S, i) + S[i].n>>

(* byte pattern with slot nm all-ones and every other byte zero (exposes swapped / narrowed fields) *)
WireOneHot(S, nm) == LET r == WireRange(S, nm) IN [i \in 1..WireSize(S) |-> IF i >= r[1] /\ i <= r[2] THEN 255 ELSE 0]

ASSUME LET S == <<U16("a"), U32("b"), U8("c"), Raw("d", 3), BE16("e")>>
           b == <<1, 2, 3, 4, 5, 6, 7, 8, 9, 10, 11, 12>>
           r == WireDecode(S, b \o <<99>>)
       IN /\ WireSize(S) = 12
          /\ r.ok /\ r.n = 12
          /\ r.v["a"] = 513 /\ r.v["b"] = <<1541, 1027>> /\ r.v["c"] = 7 /\ r.v["d"] = <<8, 9, 10>> /\ r.v["e"] = 2828
          /\ WireEncode(S, r.v) = b
          /\ ~WireDecode(S, SubSeq(b, 1, 11)).ok
=============================================================================
