------------------------------ MODULE C01Cases ------------------------------
(***************************************************************************)
(* One-shot password-hash primitives (C01) as an enumerated case table:    *)
(* TLC enumerates the structured input space and, for every case, computes *)
(* the expected value with the specification's own MD4 / UTF-16LE / case   *)
(* mapping / key spreading.  DES and PBKDF2-HMAC-SHA1 are Prim terms: the  *)
(* specification computes every ARGUMENT (keys, salt, password bytes); the *)
(* harness evaluates the primitive with the Go standard library.           *)
(***************************************************************************)
EXTENDS MD4, Text, DESKey, TLC, Json, FiniteSets

CONSTANTS Seed, Kinds, PwLen, NRandom, BitStep

VARIABLE c

(* --- contents for raw MD4 --- *)
OneHot(n, bit) == [i \in 1..n |-> IF (bit \div 8) + 1 = i THEN 2 ^ (7 - (bit % 8)) ELSE 0]
Md4Fixed == { <<>>, Zeros(1), Zeros(55), Zeros(56), Zeros(64), Rep(255, 55), Rep(255, 56), Rep(255, 63), Rep(255, 64),
              Rep(255, 65), Rep(255, 119), Rep(255, 120), Rep(255, 128), Pattern(Seed, 200) }
Md4Bits == { OneHot(55, b) : b \in { x \in 0..439 : x % BitStep = 0 } }
Md4Random == { Pattern(Seed * 31 + i, (Seed * 17 + i * 37) % 321) : i \in 1..NRandom }

(* --- passwords / users as code point sequences --- *)
Alphabet == { 97, 90, 48, 32, 233, 201, 1046, 1078, 8364, 57344, 65533, 65535, 65536, 128512, 1114111 }   \* incl. U+E000 (first after the surrogates) and U+FFFD (the decoders' error sentinel, spelled in the input)
PwSet == SeqsUpTo(Alphabet, PwLen)
      \cup { [i \in 1..n |-> 97 + (i % 26)] : n \in {13, 14, 15, 27, 28, 29, 31, 32, 33} }       \* NT: 27/28 chars straddle the 55/56-byte padding boundary
      \cup { [i \in 1..n |-> IF i % 3 = 0 THEN 128512 ELSE 1046] : n \in {5, 9, 20} }
Users == { <<>>, <<97>>, <<65, 100, 109, 105, 110>>, <<97, 68, 77, 105, 78>>, <<201, 108, 1046, 49>>, <<233, 76, 1078, 49>>,
           <<117, 115, 101, 114, 128512>>, [i \in 1..20 |-> 65 + i],
           <<66560, 108, 105, 99, 101>>, <<66600, 65, 66560>> }       \* cased letters outside the BMP, upper and lower
NT(pw) == MD4Sum(UTF16LE(pw))
DCC(nt, user) == MD4Sum(nt \o UTF16LE(Lower(user)))

(* --- LM: 7-bit ASCII passwords --- *)
LmPws == ({ <<>>, <<97>>, <<65, 98, 99>>, [i \in 1..7 |-> 96 + i], [i \in 1..8 |-> 96 + i], [i \in 1..13 |-> 96 + i],
           [i \in 1..14 |-> 96 + i], [i \in 1..15 |-> 96 + i], [i \in 1..20 |-> 64 + i], <<126, 127, 1, 33, 64, 91, 96, 123>>,
           [i \in 1..14 |-> 127], [i \in 1..14 |-> (i * 9 + Seed) % 128] }
       \cup { [i \in 1..7 |-> IF i = p THEN 2 ^ b ELSE 0] : p \in 1..7, b \in 0..6 })
Up14(pw) == LET u == Upper(pw) IN [i \in 1..14 |-> IF i <= Len(u) THEN u[i] ELSE 0]
LmKey1(pw) == Spread7(SubSeq(Up14(pw), 1, 7))
LmKey2(pw) == Spread7(SubSeq(Up14(pw), 8, 14))

IterCounts == {1, 2, 3, 10, 1000, 10240}
DccPws == { <<>>, <<112, 97, 115, 115>>, <<80, 1046, 128512>> }

Emit(r) == PrintT(ToJson(r))

Init ==
    \/ /\ "md4" \in Kinds
       /\ \E m \in Md4Fixed \cup Md4Bits \cup Md4Random :
            c = <<"md4", m>> /\ Emit([k |-> "md4", m |-> m, d |-> MD4Sum(m)])
    \/ /\ "nt" \in Kinds
       /\ \E pw \in PwSet :
            c = <<"nt", pw>> /\ Emit([k |-> "nt", pw |-> pw, u16 |-> UTF16LE(pw), d |-> NT(pw)])
    \/ /\ "lm" \in Kinds
       /\ \E pw \in LmPws :
            c = <<"lm", pw>> /\ Emit([k |-> "lm", pw |-> pw, k1 |-> LmKey1(pw), k2 |-> LmKey2(pw)])
    \/ /\ "dcc" \in Kinds
       /\ \E pw \in DccPws, u \in Users :
            c = <<"dcc", pw, u>> /\ Emit([k |-> "dcc", pw |-> pw, user |-> u, luser |-> Lower(u), nt |-> NT(pw),
                                          d |-> DCC(NT(pw), u), salt |-> UTF16LE(Lower(u))])
    \/ /\ "dcc2" \in Kinds
       /\ \E u \in {<<117>>, <<65, 100, 77, 201>>}, r \in IterCounts :
            c = <<"dcc2", u, r>> /\ Emit([k |-> "dcc2", pw |-> <<112, 1046>>, user |-> u, rounds |-> r,
                                           dcc |-> DCC(NT(<<112, 1046>>), u), salt |-> UTF16LE(Lower(u))])
Next == FALSE /\ UNCHANGED c
=============================================================================
