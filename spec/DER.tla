-------------------------------- MODULE DER --------------------------------
(***************************************************************************)
(* ITU-T X.690 Distinguished Encoding Rules, the fragment SPNEGO needs:    *)
(* definite-length TLVs with single-octet identifiers.                     *)
(*   8.1.3.4  short form: one octet, bit 8 = 0, bits 7..1 = length (0..127)*)
(*   8.1.3.5  long form: first octet 1nnnnnnn (n = number of subsequent    *)
(*            octets, 1..126), then the length as an unsigned big-endian    *)
(*            integer                                                      *)
(*   10.1     DER: the definite form with the MINIMUM number of octets     *)
(*   8.19     OBJECT IDENTIFIER: first subidentifier 40*X+Y, each          *)
(*            subidentifier base 128, bit 8 set on all but the last octet  *)
(* Byte strings are 1-based sequences of 0..255; positions p are 1-based.  *)
(* Lengths stay below 2^31 (TLC integers).                                 *)
(***************************************************************************)
EXTENDS Integers, Sequences, Bytes

DERTagSequence == 48      \* 0x30 universal constructed 16
DERTagOctetString == 4
DERTagOID == 6
DERTagEnumerated == 10
DERTagApp0 == 96          \* 0x60 [APPLICATION 0] constructed (RFC 2743 3.1 InitialContextToken)
DERCtx(n) == 160 + n      \* 0xA0+n context-specific constructed [n]

(* ---- encoding ---- *)
RECURSIVE DERBase256(_)
DERBase256(n) == IF n < 256 THEN <<n>> ELSE DERBase256(n \div 256) \o <<n % 256>>
DERLen(n) == IF n < 128 THEN <<n>> ELSE LET o == DERBase256(n) IN <<128 + Len(o)>> \o o
DERTLV(tag, content) == <<tag>> \o DERLen(Len(content)) \o content

RECURSIVE DERBase128More(_)
DERBase128More(n) == IF n < 128 THEN <<128 + n>> ELSE DERBase128More(n \div 128) \o <<128 + (n % 128)>>
DERBase128(n) == IF n < 128 THEN <<n>> ELSE DERBase128More(n \div 128) \o <<n % 128>>
RECURSIVE DERArcs(_)
DERArcs(a) == IF a = <<>> THEN <<>> ELSE DERBase128(Head(a)) \o DERArcs(Tail(a))
DEROID(arcs) == DERTLV(DERTagOID, DERBase128(40 * arcs[1] + arcs[2]) \o DERArcs(SubSeq(arcs, 3, Len(arcs))))

(* ---- decoding ---- *)
DERBad == [ok |-> FALSE, tag |-> 0, len |-> 0, hl |-> 0, minimal |-> FALSE]
RECURSIVE DERUnBase256(_)
DERUnBase256(s) == IF s = <<>> THEN 0 ELSE DERUnBase256(SubSeq(s, 1, Len(s) - 1)) * 256 + s[Len(s)]

(* header of the TLV that starts at position p of b: identifier octet, content length, header length,
   and whether the length octets are the minimal (DER) form.  ok = FALSE when the header itself does not
   fit, uses the indefinite form (0x80), the reserved value 0xFF, or a length >= 2^31. *)
DERHeader(b, p) ==
    IF p < 1 \/ p + 1 > Len(b) THEN DERBad
    ELSE LET l0 == b[p + 1] IN
         IF l0 < 128 THEN [ok |-> TRUE, tag |-> b[p], len |-> l0, hl |-> 2, minimal |-> TRUE]
         ELSE LET k == l0 - 128 IN
              IF k = 0 \/ k > 4 \/ p + 1 + k > Len(b) THEN DERBad
              ELSE IF k = 4 /\ b[p + 2] >= 128 THEN DERBad
              ELSE LET v == DERUnBase256(SubSeq(b, p + 2, p + 1 + k)) IN
                   [ok |-> TRUE, tag |-> b[p], len |-> v, hl |-> 2 + k,
                    minimal |-> (v >= 128 /\ b[p + 2] # 0)]

(* the TLV at p lies wholly inside b[1..limit] *)
DERFits(b, p, limit) == LET h == DERHeader(b, p) IN h.ok /\ p + h.hl + h.len - 1 <= limit
DERContentStart(b, p) == p + DERHeader(b, p).hl
DEREnd(b, p) == LET h == DERHeader(b, p) IN p + h.hl + h.len - 1          \* position of the last octet
DERContent(b, p) == SubSeq(b, DERContentStart(b, p), DEREnd(b, p))
DERWhole(b, p) == SubSeq(b, p, DEREnd(b, p))

(* positions of the successive TLVs that tile b[from..to]; <<>> with a FALSE flag if they do not tile it *)
RECURSIVE DERChildrenFrom(_, _, _)
DERChildrenFrom(b, from, to) ==
    IF from > to THEN <<>>
    ELSE IF ~DERFits(b, from, to) THEN <<0>>                     \* 0 marks a malformed tail
    ELSE <<from>> \o DERChildrenFrom(b, DEREnd(b, from) + 1, to)
DERChildren(b, p) == DERChildrenFrom(b, DERContentStart(b, p), DEREnd(b, p))
DERWellTiled(kids) == \A i \in 1..Len(kids) : kids[i] # 0

(* ---- known answers: X.690 8.1.3.5 example (length 201 = 81 C9), boundary values, and the two OIDs whose
        encodings are printed in RFC 4178 / MS-SPNG ---- *)
ASSUME DERLen(0) = <<0>> /\ DERLen(127) = <<127>> /\ DERLen(128) = <<129, 128>> /\ DERLen(201) = <<129, 201>>
ASSUME DERLen(255) = <<129, 255>> /\ DERLen(256) = <<130, 1, 0>> /\ DERLen(65535) = <<130, 255, 255>>
ASSUME DERLen(65536) = <<131, 1, 0, 0>> /\ DERLen(70000) = <<131, 1, 17, 112>> /\ DERLen(16777216) = <<132, 1, 0, 0, 0>>
ASSUME DEROID(<<1, 3, 6, 1, 5, 5, 2>>) = <<6, 6, 43, 6, 1, 5, 5, 2>>                                   \* SPNEGO, RFC 4178
ASSUME DEROID(<<1, 3, 6, 1, 4, 1, 311, 2, 2, 10>>) = <<6, 10, 43, 6, 1, 4, 1, 130, 55, 2, 2, 10>>     \* NTLMSSP, MS-SPNG
ASSUME DEROID(<<1, 2, 840, 113554, 1, 2, 2>>) = <<6, 9, 42, 134, 72, 134, 247, 18, 1, 2, 2>>            \* Kerberos 5, RFC 1964
ASSUME DEROID(<<2, 100, 3>>) = <<6, 3, 129, 52, 3>>                                                     \* X.690 8.19.5 example
ASSUME LET h == DERHeader(<<4, 129, 201>>, 1) IN h.ok /\ h.len = 201 /\ h.hl = 3 /\ h.minimal
ASSUME LET h == DERHeader(<<4, 129, 5, 0>>, 1) IN h.ok /\ h.len = 5 /\ ~h.minimal                        \* long form for < 128
ASSUME LET h == DERHeader(<<4, 130, 0, 200>>, 1) IN h.ok /\ h.len = 200 /\ ~h.minimal                    \* leading zero octet
ASSUME ~DERHeader(<<48, 128, 0, 0>>, 1).ok                                                               \* indefinite form is not DER
ASSUME DERChildren(<<48, 6, 4, 1, 7, 4, 1, 9>>, 1) = <<3, 6>>
=============================================================================
