----------------------------- MODULE InfoLevels -----------------------------
(***************************************************************************)
(* Specification growth G02 (not one of the 20 listed properties: every    *)
(* assertion bound to this module is DRIFT, never a violation).            *)
(*                                                                         *)
(* The fixed- and counted-layout structures of                             *)
(*   MS-CIFS 2.2.8    information levels (FIND 2.2.8.1, QUERY_FS 2.2.8.2,  *)
(*                    QUERY 2.2.8.3, SET 2.2.8.4),                         *)
(*   MS-CIFS 2.2.3.1  the three interpretations of the 8-byte              *)
(*                    SecurityFeatures header field,                       *)
(*   MS-DTYP 2.3      SYSTEMTIME, LUID, LARGE_INTEGER, ULARGE_INTEGER,     *)
(*                    UINT128, EVENT_DESCRIPTOR, EVENT_HEADER (wire) and   *)
(*                    RPC_UNICODE_STRING, MULTI_SZ, OBJECT_TYPE_LIST,      *)
(*                    SERVER_INFO_100/101 (declaration shape only: they    *)
(*                    carry pointers, their wire form is NDR's business),  *)
(* written from the documents as ONE layout table (ILStruct) and a generic *)
(* codec over it:                                                          *)
(*     ILEncode(S, v)          value -> bytes                              *)
(*     ILDecode(S, b)          bytes -> [ok, n, v]  (n = bytes consumed,   *)
(*                             whatever follows the structure is ignored)  *)
(*     ILRoundTrip / ILPrefixesRejected   the laws                         *)
(*     ILEncodeList / ILDecodeList        NextEntryOffset-chained entries  *)
(*                                                                         *)
(* A layout is a sequence of field descriptors [name, k, n, len, unit,     *)
(* ref]; kinds k (all multi-byte integers little-endian, MS-CIFS 2.2):     *)
(*   u8 u16            value Nat                                           *)
(*   u32 i32           value <<hi16, lo16>>      (TLC integers are 32-bit; *)
(*   u64 i64 filetime  value <<w3, w2, w1, w0>>   limbs most significant   *)
(*                                                first; i* = the two's    *)
(*                                                complement bit pattern)  *)
(*   smbdate           [year, month, day]        MS-CIFS 2.2.1.4.1         *)
(*   smbtime           [hour, minute, twosec]    MS-CIFS 2.2.1.4.2         *)
(*   bytes             n raw bytes                                         *)
(*   wchars            n/2 UTF-16 code units, each little-endian           *)
(*   var               unit * value(len) bytes, `len` names the counting   *)
(*                     field of the same structure                         *)
(*   fealist           SMB_FEA_LIST, MS-CIFS 2.2.1.2.2.1 (self-sized)      *)
(*   struct            an embedded structure of the table (ref, n bytes)   *)
(*   pwstr pguid       pointers (shape only, never encoded)                *)
(* A structure value is a function from field names to values.             *)
(***************************************************************************)
EXTENDS Integers, Sequences, FiniteSets, TLC, Bytes

(* ------------------------------------------------------------------ field descriptors *)
ILF(nm, k, n)      == [name |-> nm, k |-> k, n |-> n, len |-> "", unit |-> 0, ref |-> ""]
ILU8(nm)           == ILF(nm, "u8", 1)
ILU16(nm)          == ILF(nm, "u16", 2)
ILU32(nm)          == ILF(nm, "u32", 4)
ILI32(nm)          == ILF(nm, "i32", 4)
ILU64(nm)          == ILF(nm, "u64", 8)
ILI64(nm)          == ILF(nm, "i64", 8)              \* LARGE_INTEGER: MS-DTYP 2.3.5, a signed 64-bit integer
ILFileTime(nm)     == ILF(nm, "filetime", 8)         \* MS-DTYP 2.3.3: dwLowDateTime then dwHighDateTime = the 64-bit tick count, LE
ILDate(nm)         == ILF(nm, "smbdate", 2)
ILTime(nm)         == ILF(nm, "smbtime", 2)
ILRaw(nm, n)       == ILF(nm, "bytes", n)
ILWChars(nm, cnt)  == ILF(nm, "wchars", 2 * cnt)
ILVar(nm, lf, u)   == [name |-> nm, k |-> "var", n |-> 0, len |-> lf, unit |-> u, ref |-> ""]
ILFeaList(nm)      == ILF(nm, "fealist", 0)
ILSub(nm, ref, n)  == [name |-> nm, k |-> "struct", n |-> n, len |-> "", unit |-> 0, ref |-> ref]
ILPtr(nm, k)       == ILF(nm, k, 0)

ILLimbKinds  == {"u32", "i32", "u64", "i64", "filetime"}
ILSigned     == {"i32", "i64"}
ILFixedKinds == {"u8", "u16", "smbdate", "smbtime", "bytes", "wchars", "struct"} \cup ILLimbKinds
ILPtrKinds   == {"pwstr", "pguid"}

(* ------------------------------------------------------------------ the layout table *)
ILFindCommon(chg) ==     \* the 64-byte head shared by the NT FIND levels (chg = the name of the fourth time stamp)
    <<ILU32("NextEntryOffset"), ILU32("FileIndex"), ILFileTime("CreationTime"), ILFileTime("LastAccessTime"),
      ILFileTime("LastWriteTime"), ILFileTime(chg), ILI64("EndOfFile"), ILI64("AllocationSize"),
      ILU32("ExtFileAttributes"), ILU32("FileNameLength")>>
ILStdTimes ==            \* the three SMB_DATE/SMB_TIME pairs of the LANMAN levels
    <<ILDate("CreationDate"), ILTime("CreationTime"), ILDate("LastAccessDate"), ILTime("LastAccessTime"),
      ILDate("LastWriteDate"), ILTime("LastWriteTime")>>
ILBasicInfo(chg) ==
    <<ILFileTime("CreationTime"), ILFileTime("LastAccessTime"), ILFileTime("LastWriteTime"), ILFileTime(chg),
      ILU32("ExtFileAttributes"), ILU32("Reserved")>>

ILStruct(s) ==
    CASE
    (* ---- MS-CIFS 2.2.8.1 FIND (TRANS2_FIND_FIRST2 / FIND_NEXT2) *)
         s = "SMB_FIND_FILE_DIRECTORY_INFO"      -> ILFindCommon("LastAttrChangeTime") \o <<ILVar("FileName", "FileNameLength", 1)>>
      [] s = "SMB_FIND_FILE_FULL_DIRECTORY_INFO" -> ILFindCommon("LastAttrChangeTime") \o <<ILU32("EaSize"), ILVar("FileName", "FileNameLength", 1)>>
      [] s = "SMB_FIND_FILE_NAMES_INFO"          -> <<ILU32("NextEntryOffset"), ILU32("FileIndex"), ILU32("FileNameLength"),
                                                      ILVar("FileName", "FileNameLength", 1)>>
      [] s = "SMB_FIND_FILE_BOTH_DIRECTORY_INFO" -> ILFindCommon("LastChangeTime") \o
                                                    <<ILU32("EaSize"), ILU8("ShortNameLength"), ILU8("Reserved"), ILWChars("ShortName", 12),
                                                      ILVar("FileName", "FileNameLength", 1)>>
    (* ---- MS-CIFS 2.2.8.2 QUERY_FS (TRANS2_QUERY_FS_INFORMATION) *)
      [] s = "SMB_INFO_ALLOCATION"         -> <<ILU32("idFileSystem"), ILU32("cSectorUnit"), ILU32("cUnit"), ILU32("cUnitAvailable"), ILU16("cbSector")>>
      [] s = "SMB_INFO_VOLUME"             -> <<ILU32("ulVolSerialNbr"), ILU8("cCharCount"), ILVar("VolumeLabel", "cCharCount", 1)>>   \* OEM characters (unit 2 when Unicode was negotiated)
      [] s = "SMB_QUERY_FS_VOLUME_INFO"    -> <<ILFileTime("VolumeCreationTime"), ILU32("SerialNumber"), ILU32("VolumeLabelSize"), ILU16("Reserved"),
                                                ILVar("VolumeLabel", "VolumeLabelSize", 1)>>
      [] s = "SMB_QUERY_FS_SIZE_INFO"      -> <<ILI64("TotalAllocationUnits"), ILI64("TotalFreeAllocationUnits"), ILU32("SectorsPerAllocationUnit"), ILU32("BytesPerSector")>>
      [] s = "SMB_QUERY_FS_DEVICE_INFO"    -> <<ILU32("DeviceType"), ILU32("DeviceCharacteristics")>>
      [] s = "SMB_QUERY_FS_ATTRIBUTE_INFO" -> <<ILU32("FileSystemAttributes"), ILI32("MaxFileNameLengthInBytes"), ILU32("LengthOfFileSystemName"),
                                                ILVar("FileSystemName", "LengthOfFileSystemName", 1)>>
    (* ---- MS-CIFS 2.2.8.3 QUERY (TRANS2_QUERY_PATH_INFORMATION / QUERY_FILE_INFORMATION) *)
      [] s = "SMB_INFO_STANDARD#query"      -> ILStdTimes \o <<ILU32("FileDataSize"), ILU32("AllocationSize"), ILU16("Attributes")>>
      [] s = "SMB_INFO_QUERY_EA_SIZE"       -> ILStdTimes \o <<ILU32("FileDataSize"), ILU32("AllocationSize"), ILU16("Attributes"), ILU32("EaSize")>>
      [] s = "SMB_INFO_QUERY_EAS_FROM_LIST" -> <<ILFeaList("ExtendedAttributeList")>>
      [] s = "SMB_INFO_QUERY_ALL_EAS"       -> <<ILFeaList("ExtendedAttributeList")>>
      [] s = "SMB_INFO_IS_NAME_VALID"       -> <<>>                                   \* no data: the status of the request is the answer
      [] s = "SMB_QUERY_FILE_BASIC_INFO"    -> ILBasicInfo("LastChangeTime")
      [] s = "SMB_QUERY_FILE_STANDARD_INFO" -> <<ILI64("AllocationSize"), ILI64("EndOfFile"), ILU32("NumberOfLinks"), ILU8("DeletePending"), ILU8("Directory")>>
      [] s = "SMB_QUERY_FILE_EA_INFO"       -> <<ILU32("EaSize")>>
      [] s = "SMB_QUERY_FILE_NAME_INFO"     -> <<ILU32("FileNameLength"), ILVar("FileName", "FileNameLength", 1)>>
      [] s = "SMB_QUERY_FILE_ALL_INFO"      -> <<ILFileTime("CreationTime"), ILFileTime("LastAccessTime"), ILFileTime("LastWriteTime"), ILFileTime("LastChangeTime"),
                                                 ILU32("ExtFileAttributes"), ILU32("Reserved1"), ILI64("AllocationSize"), ILI64("EndOfFile"),
                                                 ILU32("NumberOfLinks"), ILU8("DeletePending"), ILU8("Directory"), ILU16("Reserved2"),
                                                 ILU32("EaSize"), ILU32("FileNameLength"), ILVar("FileName", "FileNameLength", 1)>>
      [] s = "SMB_QUERY_FILE_ALT_NAME_INFO" -> <<ILU32("FileNameLength"), ILVar("FileName", "FileNameLength", 1)>>
      [] s = "SMB_QUERY_FILE_STREAM_INFO"   -> <<ILU32("NextEntryOffset"), ILU32("StreamNameLength"), ILI64("StreamSize"), ILI64("StreamAllocationSize"),
                                                 ILVar("StreamName", "StreamNameLength", 1)>>
      [] s = "SMB_QUERY_FILE_COMPRESSION_INFO" -> <<ILI64("CompressedFileSize"), ILU16("CompressionFormat"), ILU8("CompressionUnitShift"),
                                                    ILU8("ChunkShift"), ILU8("ClusterShift"), ILRaw("Reserved", 3)>>
    (* ---- MS-CIFS 2.2.8.4 SET (TRANS2_SET_PATH_INFORMATION / SET_FILE_INFORMATION) *)
      [] s = "SMB_INFO_STANDARD"             -> ILStdTimes \o <<ILRaw("Reserved", 10)>>          \* the SET form, 2.2.8.4.1 (the one the library declares)
      [] s = "SMB_INFO_SET_EAS"              -> <<ILFeaList("ExtendedAttributeList")>>
      [] s = "SMB_SET_FILE_BASIC_INFO"       -> ILBasicInfo("ChangeTime")
      [] s = "SMB_SET_FILE_DISPOSITION_INFO" -> <<ILU8("DeletePending")>>
      [] s = "SMB_SET_FILE_ALLOCATION_INFO"  -> <<ILI64("AllocationSize")>>
      [] s = "SMB_SET_FILE_END_OF_FILE_INFO" -> <<ILI64("EndOfFile")>>
    (* ---- the FIND forms of the LANMAN levels (model only: the library declares the QUERY/SET forms) *)
      [] s = "SMB_INFO_STANDARD#find"      -> ILStdTimes \o <<ILU32("FileDataSize"), ILU32("AllocationSize"), ILU16("Attributes"),
                                                ILU8("FileNameLength"), ILVar("FileName", "FileNameLength", 1)>>
      [] s = "SMB_INFO_QUERY_EA_SIZE#find" -> ILStdTimes \o <<ILU32("FileDataSize"), ILU32("AllocationSize"), ILU16("Attributes"), ILU32("EaSize"),
                                                ILU8("FileNameLength"), ILVar("FileName", "FileNameLength", 1)>>
    (* ---- MS-CIFS 2.2.3.1 SecurityFeatures: one 8-byte header field, three readings *)
      [] s = "SecurityFeaturesSecuritySignature"      -> <<ILRaw("SecuritySignature", 8)>>
      [] s = "SecurityFeaturesConnectionlessTransport" -> <<ILU32("Key"), ILU16("CID"), ILU16("SequenceNumber")>>
      [] s = "SecurityFeaturesReserved"               -> <<ILRaw("Reserved", 8)>>
    (* ---- MS-DTYP 2.3 *)
      [] s = "SYSTEMTIME"       -> <<ILU16("wYear"), ILU16("wMonth"), ILU16("wDayOfWeek"), ILU16("wDay"), ILU16("wHour"), ILU16("wMinute"),
                                     ILU16("wSecond"), ILU16("wMilliseconds")>>                                    \* 2.3.13
      [] s = "LUID"             -> <<ILU32("LowPart"), ILI32("HighPart")>>                                         \* 2.3.7
      [] s = "LARGE_INTEGER"    -> <<ILI64("QuadPart")>>                                                           \* 2.3.5
      [] s = "ULARGE_INTEGER"   -> <<ILU64("QuadPart")>>                                                           \* 2.3.15
      [] s = "UINT128"          -> <<ILU64("lower"), ILU64("upper")>>                                              \* 2.3.14
      [] s = "EVENT_DESCRIPTOR" -> <<ILU16("Id"), ILU8("Version"), ILU8("Channel"), ILU8("Level"), ILU8("Opcode"), ILU16("Task"), ILU64("Keyword")>>  \* 2.3.1
      [] s = "EVENT_HEADER"     -> <<ILU16("Size"), ILU16("HeaderType"), ILU16("Flags"), ILU16("EventProperty"), ILU32("ThreadId"), ILU32("ProcessId"),
                                     ILI64("TimeStamp"), ILRaw("ProviderId", 16), ILSub("EventDescriptor", "EVENT_DESCRIPTOR", 16),
                                     ILU32("KernelTime"), ILU32("UserTime"),           \* union { struct { KernelTime; UserTime }; ULONG64 ProcessorTime }
                                     ILRaw("ActivityId", 16)>>                                                     \* 2.3.2
      [] s = "RPC_UNICODE_STRING" -> <<ILU16("Length"), ILU16("MaximumLength"), ILPtr("Buffer", "pwstr")>>         \* 2.3.10
      [] s = "MULTI_SZ"           -> <<ILPtr("Value", "pwstr"), ILU32("nChar")>>                                   \* 2.3.8
      [] s = "OBJECT_TYPE_LIST"   -> <<ILU16("Level"), ILU32("Remaining"), ILPtr("ObjectType", "pguid")>>          \* 2.3.9 (Remaining is an ACCESS_MASK)
      [] s = "SERVER_INFO_100"    -> <<ILU32("sv100_platform_id"), ILPtr("sv100_name", "pwstr")>>                  \* 2.3.11
      [] s = "SERVER_INFO_101"    -> <<ILU32("sv101_platform_id"), ILPtr("sv101_name", "pwstr"), ILU32("sv101_version_major"),
                                       ILU32("sv101_version_minor"), ILU32("sv101_version_type"), ILPtr("sv101_comment", "pwstr")>>   \* 2.3.12

(* the structures by group, in document order; names with '#' are further forms of a level that exist in the documents only *)
ILInfoLevels == <<"SMB_FIND_FILE_DIRECTORY_INFO", "SMB_FIND_FILE_FULL_DIRECTORY_INFO", "SMB_FIND_FILE_NAMES_INFO", "SMB_FIND_FILE_BOTH_DIRECTORY_INFO",
                  "SMB_INFO_ALLOCATION", "SMB_INFO_VOLUME", "SMB_QUERY_FS_VOLUME_INFO", "SMB_QUERY_FS_SIZE_INFO", "SMB_QUERY_FS_DEVICE_INFO",
                  "SMB_QUERY_FS_ATTRIBUTE_INFO", "SMB_INFO_STANDARD#query", "SMB_INFO_QUERY_EA_SIZE", "SMB_INFO_QUERY_EAS_FROM_LIST",
                  "SMB_INFO_QUERY_ALL_EAS", "SMB_INFO_IS_NAME_VALID", "SMB_QUERY_FILE_BASIC_INFO", "SMB_QUERY_FILE_STANDARD_INFO",
                  "SMB_QUERY_FILE_EA_INFO", "SMB_QUERY_FILE_NAME_INFO", "SMB_QUERY_FILE_ALL_INFO", "SMB_QUERY_FILE_ALT_NAME_INFO",
                  "SMB_QUERY_FILE_STREAM_INFO", "SMB_QUERY_FILE_COMPRESSION_INFO", "SMB_INFO_STANDARD", "SMB_INFO_SET_EAS",
                  "SMB_SET_FILE_BASIC_INFO", "SMB_SET_FILE_DISPOSITION_INFO", "SMB_SET_FILE_ALLOCATION_INFO", "SMB_SET_FILE_END_OF_FILE_INFO",
                  "SMB_INFO_STANDARD#find", "SMB_INFO_QUERY_EA_SIZE#find">>
ILSecurityFeatures == <<"SecurityFeaturesSecuritySignature", "SecurityFeaturesConnectionlessTransport", "SecurityFeaturesReserved">>
ILDtypWire  == <<"SYSTEMTIME", "LUID", "LARGE_INTEGER", "ULARGE_INTEGER", "UINT128", "EVENT_DESCRIPTOR", "EVENT_HEADER">>
ILDtypShape == <<"RPC_UNICODE_STRING", "MULTI_SZ", "OBJECT_TYPE_LIST", "SERVER_INFO_100", "SERVER_INFO_101">>
ILListLevels == {"SMB_FIND_FILE_DIRECTORY_INFO", "SMB_FIND_FILE_FULL_DIRECTORY_INFO", "SMB_FIND_FILE_NAMES_INFO",
                 "SMB_FIND_FILE_BOTH_DIRECTORY_INFO", "SMB_QUERY_FILE_STREAM_INFO"}      \* entries chained by NextEntryOffset
ILGroupOf(s) == IF \E i \in 1..Len(ILInfoLevels) : ILInfoLevels[i] = s THEN "informationlevels"
                ELSE IF \E i \in 1..Len(ILSecurityFeatures) : ILSecurityFeatures[i] = s THEN "securityfeatures" ELSE "data_structures"

(* ------------------------------------------------------------------ layout arithmetic *)
ILIsFixed(f) == f.k \in ILFixedKinds
ILNames(S) == { S[i].name : i \in 1..Len(S) }
ILIndex(S, nm) == CHOOSE i \in 1..Len(S) : S[i].name = nm
RECURSIVE ILFixedSumTo(_, _)
ILFixedSumTo(S, i) == IF i = 0 THEN 0 ELSE (IF ILIsFixed(S[i]) THEN S[i].n ELSE 0) + ILFixedSumTo(S, i - 1)
ILFixedSize(S) == ILFixedSumTo(S, Len(S))              \* bytes of all fixed-width fields
ILFixedOff(S, i) == ILFixedSumTo(S, i - 1)             \* offset of field i inside the concatenation of the fixed-width fields
ILIsWire(S) == \A i \in 1..Len(S) : S[i].k \notin ILPtrKinds
ILLenOwners(S, nm) == { j \in 1..Len(S) : S[j].k = "var" /\ S[j].len = nm }      \* the var fields counted by field nm

(* ------------------------------------------------------------------ scalars *)
ILLimbsLE(x) == Flatten([i \in 1..Len(x) |-> LE(x[Len(x) + 1 - i], 2)])
ILLimbsOf(b) == [i \in 1..(Len(b) \div 2) |-> b[Len(b) - 2 * i + 1] + 256 * b[Len(b) - 2 * i + 2]]
ILIsNegative(k, x) == k \in ILSigned /\ x[1] >= 32768
(* a count held in an integer field, as a TLC integer; counts that cannot be a buffer length here map to 2^30 *)
ILCount(k, x) == IF k \in {"u8", "u16"} THEN x
                 ELSE IF \A i \in 1..(Len(x) - 2) : x[i] = 0 THEN (IF x[Len(x) - 1] >= 16384 THEN 2 ^ 30 ELSE x[Len(x) - 1] * 65536 + x[Len(x)])
                 ELSE 2 ^ 30
ILCountEnc(k, n) == IF k \in {"u8", "u16"} THEN n
                    ELSE IF k \in {"u32", "i32"} THEN <<n \div 65536, n % 65536>> ELSE <<0, 0, n \div 65536, n % 65536>>

(* SMB_DATE  YEAR 0xFE00 (+1980)  MONTH 0x01E0  DAY 0x001F;   SMB_TIME  HOUR 0xF800  MINUTES 0x07E0  SECONDS 0x001F (2-second units) *)
ILDateWord(v) == (v.year - 1980) * 512 + v.month * 32 + v.day
ILDateOfWord(w) == [year |-> 1980 + (w \div 512), month |-> (w \div 32) % 16, day |-> w % 32]
ILTimeWord(v) == v.hour * 2048 + v.minute * 32 + v.twosec
ILTimeOfWord(w) == [hour |-> w \div 2048, minute |-> (w \div 32) % 64, twosec |-> w % 32]

(* ------------------------------------------------------------------ SMB_FEA / SMB_FEA_LIST (MS-CIFS 2.2.1.2.2, 2.2.1.2.2.1) *)
(* SMB_FEA: ExtendedAttributeFlag u8, AttributeNameLengthInBytes u8 (without the NUL), AttributeValueLengthInBytes u16,
   AttributeName (NUL-terminated), AttributeValue.  A list value is a sequence of [flag, name, value]. *)
ILFeaEnc(e) == <<e.flag, Len(e.name)>> \o LE(Len(e.value), 2) \o e.name \o <<0>> \o e.value
ILFeasEnc(es) == Flatten([i \in 1..Len(es) |-> ILFeaEnc(es[i])])
ILFeaListEnc(es) == LET body == ILFeasEnc(es) IN ILLimbsLE(ILCountEnc("u32", 4 + Len(body))) \o body   \* SizeOfListInBytes counts itself
ILFeaOK(e) == /\ e.flag \in 0..255 /\ Len(e.name) <= 255 /\ Len(e.value) <= 65535 /\ \A i \in 1..Len(e.name) : e.name[i] # 0
RECURSIVE ILFeasDec(_, _)
ILFeasDec(b, acc) ==
    IF b = <<>> THEN [ok |-> TRUE, v |-> acc]
    ELSE IF Len(b) < 4 THEN [ok |-> FALSE]
    ELSE LET nl == b[2]
             vl == UnLE16(SubSeq(b, 3, 4))
             sz == 4 + nl + 1 + vl
         IN IF Len(b) < sz \/ b[4 + nl + 1] # 0 THEN [ok |-> FALSE]
            ELSE ILFeasDec(SubSeq(b, sz + 1, Len(b)),
                           Append(acc, [flag |-> b[1], name |-> SubSeq(b, 5, 4 + nl), value |-> SubSeq(b, 4 + nl + 2, sz)]))
(* the size a list announces at the front of b: -1 when b cannot start a list *)
ILFeaListSize(b) == IF Len(b) < 4 THEN -1
                    ELSE LET n == ILCount("u32", ILLimbsOf(SubSeq(b, 1, 4))) IN IF n < 4 \/ n > Len(b) THEN -1 ELSE n

(* ------------------------------------------------------------------ the generic codec *)
RECURSIVE ILEncode(_, _), ILDecode(_, _)
ILEncField(f, x) ==
    CASE f.k = "u8"       -> <<x>>
      [] f.k = "u16"      -> LE(x, 2)
      [] f.k \in ILLimbKinds -> ILLimbsLE(x)
      [] f.k = "smbdate"  -> LE(ILDateWord(x), 2)
      [] f.k = "smbtime"  -> LE(ILTimeWord(x), 2)
      [] f.k \in {"bytes", "var"} -> x
      [] f.k = "wchars"   -> Flatten([i \in 1..Len(x) |-> LE(x[i], 2)])
      [] f.k = "fealist"  -> ILFeaListEnc(x)
      [] f.k = "struct"   -> ILEncode(ILStruct(f.ref), x)
ILDecField(f, b) ==
    CASE f.k = "u8"       -> b[1]
      [] f.k = "u16"      -> UnLE16(b)
      [] f.k \in ILLimbKinds -> ILLimbsOf(b)
      [] f.k = "smbdate"  -> ILDateOfWord(UnLE16(b))
      [] f.k = "smbtime"  -> ILTimeOfWord(UnLE16(b))
      [] f.k \in {"bytes", "var"} -> b
      [] f.k = "wchars"   -> [i \in 1..(Len(b) \div 2) |-> b[2 * i - 1] + 256 * b[2 * i]]
      [] f.k = "fealist"  -> ILFeasDec(SubSeq(b, 5, Len(b)), <<>>).v
      [] f.k = "struct"   -> ILDecode(ILStruct(f.ref), b).v
ILEncode(S, v) == Flatten([i \in 1..Len(S) |-> ILEncField(S[i], v[S[i].name])])

(* width of field i at position pos of b, given the fields decoded so far; -1 = b cannot hold it *)
ILWidthAt(S, i, b, pos, acc) ==
    LET f == S[i] IN
    IF ILIsFixed(f) THEN f.n
    ELSE IF f.k = "var" THEN LET c == ILCount(S[ILIndex(S, f.len)].k, acc[f.len]) IN IF c >= 2 ^ 24 THEN -1 ELSE c * f.unit
    ELSE LET n == ILFeaListSize(SubSeq(b, pos + 1, Len(b))) IN
         IF n < 0 THEN -1 ELSE IF ILFeasDec(SubSeq(b, pos + 5, pos + n), <<>>).ok THEN n ELSE -1
RECURSIVE ILDecFrom(_, _, _, _, _)
ILDecFrom(S, i, b, pos, acc) ==
    IF i > Len(S) THEN [ok |-> TRUE, n |-> pos, v |-> acc]
    ELSE LET w == ILWidthAt(S, i, b, pos, acc) IN
         IF w < 0 \/ pos + w > Len(b) THEN [ok |-> FALSE]
         ELSE ILDecFrom(S, i + 1, b, pos + w, acc @@ (S[i].name :> ILDecField(S[i], SubSeq(b, pos + 1, pos + w))))
ILDecode(S, b) == ILDecFrom(S, 1, b, 0, <<>>)

(* byte range <<offset (0-based), width>> of every field inside ILEncode(S, v) *)
RECURSIVE ILSpansFrom(_, _, _, _)
ILSpansFrom(S, v, i, pos) ==
    IF i > Len(S) THEN <<>>
    ELSE LET w == Len(ILEncField(S[i], v[S[i].name])) IN <<<<pos, w>>>> \o ILSpansFrom(S, v, i + 1, pos + w)
ILSpans(S, v) == ILSpansFrom(S, v, 1, 0)

(* a value is well formed when every counting field holds the length of what it counts (MS-CIFS: "MUST contain the length ...") *)
ILWellFormed(S, v) ==
    /\ DOMAIN v = ILNames(S)
    /\ \A i \in 1..Len(S) :
         /\ S[i].k = "var" => Len(v[S[i].name]) = S[i].unit * ILCount(S[ILIndex(S, S[i].len)].k, v[S[i].len])
         /\ S[i].k = "fealist" => \A j \in 1..Len(v[S[i].name]) : ILFeaOK(v[S[i].name][j])
         /\ S[i].k \in {"bytes", "wchars"} => Len(ILEncField(S[i], v[S[i].name])) = S[i].n

(* ------------------------------------------------------------------ the laws *)
ILRoundTrip(S, v, suffix) == LET e == ILEncode(S, v) IN ILDecode(S, e \o suffix) = [ok |-> TRUE, n |-> Len(e), v |-> v]
ILPrefixRejected(S, v, k) == ~ILDecode(S, SubSeq(ILEncode(S, v), 1, k)).ok            \* for every k < Len(ILEncode(S, v))

(* ------------------------------------------------------------------ NextEntryOffset chains *)
(* Entries follow each other; NextEntryOffset = distance from the start of an entry to the start of the next one, 0 in the
   last.  A sender may pad (align = 1, 4, 8 ...); a receiver "MUST NOT assume that the value of NextEntryOffset is the same as
   the size of the current entry" (2.2.8.3.12) - it follows the offsets. *)
ILPad(n, a) == ((n + a - 1) \div a) * a
RECURSIVE ILEncodeList(_, _, _)
ILEncodeList(S, vs, a) ==
    IF vs = <<>> THEN <<>>
    ELSE LET n0 == Len(ILEncode(S, vs[1]))
             sz == IF Len(vs) = 1 THEN n0 ELSE ILPad(n0, a)
             v  == [vs[1] EXCEPT !["NextEntryOffset"] = IF Len(vs) = 1 THEN <<0, 0>> ELSE <<0, sz>>]
         IN ILEncode(S, v) \o Zeros(sz - n0) \o ILEncodeList(S, Tail(vs), a)
RECURSIVE ILDecodeListFrom(_, _, _)
ILDecodeListFrom(S, b, acc) ==
    LET r == ILDecode(S, b) IN
    IF ~r.ok THEN [ok |-> FALSE]
    ELSE LET neo == ILCount("u32", r.v["NextEntryOffset"]) IN
         IF neo = 0 THEN [ok |-> TRUE, vs |-> Append(acc, r.v)]
         ELSE IF neo < r.n \/ neo >= Len(b) THEN [ok |-> FALSE]              \* entries never overlap, the next one starts inside the buffer
         ELSE ILDecodeListFrom(S, SubSeq(b, neo + 1, Len(b)), Append(acc, r.v))
ILDecodeList(S, b) == ILDecodeListFrom(S, b, <<>>)
ILSameButOffset(v, w) == DOMAIN v = DOMAIN w /\ \A nm \in DOMAIN v \ {"NextEntryOffset"} : v[nm] = w[nm]
ILListLaw(S, vs, a) == LET r == ILDecodeList(S, ILEncodeList(S, vs, a)) IN
                       r.ok /\ Len(r.vs) = Len(vs) /\ \A i \in 1..Len(vs) : ILSameButOffset(r.vs[i], vs[i])

(* RPC_UNICODE_STRING (MS-DTYP 2.3.10): both counts are bytes, even, Length <= MaximumLength, Buffer holds MaximumLength/2 units *)
ILRpcUnicodeOK(length, maxlen, buflen) == length % 2 = 0 /\ maxlen % 2 = 0 /\ length <= maxlen /\ buflen * 2 = maxlen

(* ------------------------------------------------------------------ known answers *)
ILSizes == [SMB_FIND_FILE_DIRECTORY_INFO |-> 64, SMB_FIND_FILE_FULL_DIRECTORY_INFO |-> 68, SMB_FIND_FILE_NAMES_INFO |-> 12,
            SMB_FIND_FILE_BOTH_DIRECTORY_INFO |-> 94, SMB_INFO_ALLOCATION |-> 18, SMB_INFO_VOLUME |-> 5, SMB_QUERY_FS_VOLUME_INFO |-> 18,
            SMB_QUERY_FS_SIZE_INFO |-> 24, SMB_QUERY_FS_DEVICE_INFO |-> 8, SMB_QUERY_FS_ATTRIBUTE_INFO |-> 12,
            SMB_INFO_QUERY_EA_SIZE |-> 26, SMB_INFO_IS_NAME_VALID |-> 0, SMB_QUERY_FILE_BASIC_INFO |-> 40, SMB_QUERY_FILE_STANDARD_INFO |-> 22,
            SMB_QUERY_FILE_EA_INFO |-> 4, SMB_QUERY_FILE_NAME_INFO |-> 4, SMB_QUERY_FILE_ALL_INFO |-> 72, SMB_QUERY_FILE_ALT_NAME_INFO |-> 4,
            SMB_QUERY_FILE_STREAM_INFO |-> 24, SMB_QUERY_FILE_COMPRESSION_INFO |-> 16, SMB_INFO_STANDARD |-> 22, SMB_SET_FILE_BASIC_INFO |-> 40,
            SMB_SET_FILE_DISPOSITION_INFO |-> 1, SMB_SET_FILE_ALLOCATION_INFO |-> 8, SMB_SET_FILE_END_OF_FILE_INFO |-> 8,
            SecurityFeaturesSecuritySignature |-> 8, SecurityFeaturesConnectionlessTransport |-> 8, SecurityFeaturesReserved |-> 8,
            SYSTEMTIME |-> 16, LUID |-> 8, LARGE_INTEGER |-> 8, ULARGE_INTEGER |-> 8, UINT128 |-> 16, EVENT_DESCRIPTOR |-> 16, EVENT_HEADER |-> 80]
ASSUME \A s \in DOMAIN ILSizes : ILFixedSize(ILStruct(s)) = ILSizes[s]
ASSUME ILFixedSize(ILStruct("SMB_INFO_STANDARD#query")) = 22 /\ ILFixedSize(ILStruct("SMB_INFO_STANDARD#find")) = 23
ASSUME \A i \in 1..Len(ILInfoLevels) : LET S == ILStruct(ILInfoLevels[i]) IN Cardinality(ILNames(S)) = Len(S) /\ ILIsWire(S)
                                          /\ \A j \in 1..Len(S) : S[j].k = "var" => ILIndex(S, S[j].len) < j
ASSUME LET S == ILStruct("SMB_FIND_FILE_BOTH_DIRECTORY_INFO") IN
       /\ ILFixedOff(S, ILIndex(S, "EndOfFile")) = 40 /\ ILFixedOff(S, ILIndex(S, "FileNameLength")) = 60
       /\ ILFixedOff(S, ILIndex(S, "ShortNameLength")) = 68 /\ ILFixedOff(S, ILIndex(S, "ShortName")) = 70
ASSUME ILEncField(ILDate("d"), [year |-> 2021, month |-> 12, day |-> 3]) = <<131, 83>>                     \* 0x5383
ASSUME ILEncField(ILTime("t"), [hour |-> 13, minute |-> 45, twosec |-> 29]) = <<189, 109>>                 \* 13:45:58 = 0x6DBD
ASSUME \A w \in {0, 1, 31, 32, 2047, 2048, 28093, 65535} : ILTimeWord(ILTimeOfWord(w)) = w /\ ILDateWord(ILDateOfWord(w)) = w
ASSUME ILEncField(ILFileTime("t"), <<413, 45534, 54590, 32768>>) = <<0, 128, 62, 213, 222, 177, 157, 1>>   \* 1970-01-01 = 0x019DB1DED53E8000 ticks
ASSUME ILLimbsOf(<<0, 128, 62, 213, 222, 177, 157, 1>>) = <<413, 45534, 54590, 32768>> /\ ILLimbsOf(<<120, 86, 52, 18>>) = <<4660, 22136>>
ASSUME ILIsNegative("i64", <<65535, 65535, 65535, 65535>>) /\ ~ILIsNegative("u64", <<65535, 65535, 65535, 65535>>) /\ ~ILIsNegative("i32", <<32767, 65535>>)
ASSUME ILFeaListEnc(<<[flag |-> 0, name |-> <<65>>, value |-> <<1, 2>>]>>) = <<12, 0, 0, 0, 0, 1, 2, 0, 65, 0, 1, 2>>
ASSUME ILFeaListEnc(<<>>) = <<4, 0, 0, 0>> /\ ILDecode(ILStruct("SMB_INFO_SET_EAS"), <<4, 0, 0, 0, 9>>) = [ok |-> TRUE, n |-> 4, v |-> [ExtendedAttributeList |-> <<>>]]
ASSUME ~ILDecode(ILStruct("SMB_INFO_SET_EAS"), <<3, 0, 0, 0>>).ok /\ ~ILDecode(ILStruct("SMB_INFO_SET_EAS"), <<12, 0, 0, 0, 0, 1, 2, 0, 65, 7, 1, 2>>).ok
ASSUME LET S == ILStruct("SMB_QUERY_FILE_NAME_INFO")
           v == [FileNameLength |-> <<0, 4>>, FileName |-> <<92, 0, 97, 0>>]          \* "\a" in UTF-16LE
       IN /\ ILEncode(S, v) = <<4, 0, 0, 0, 92, 0, 97, 0>> /\ ILWellFormed(S, v) /\ ILSpans(S, v) = <<<<0, 4>>, <<4, 4>>>>
          /\ \A suf \in {<<>>, <<0>>, <<1, 2, 3>>} : ILRoundTrip(S, v, suf)
          /\ \A k \in 0..7 : ILPrefixRejected(S, v, k)
          /\ ~ILWellFormed(S, [v EXCEPT !.FileNameLength = <<0, 5>>])
ASSUME ILEncode(ILStruct("SecurityFeaturesConnectionlessTransport"), [Key |-> <<4660, 22136>>, CID |-> 43981, SequenceNumber |-> 1])
         = <<120, 86, 52, 18, 205, 171, 1, 0>>
ASSUME LET S == ILStruct("SYSTEMTIME")       \* 2024-02-29 (Thursday = 4) 23:59:58.999
           v == [wYear |-> 2024, wMonth |-> 2, wDayOfWeek |-> 4, wDay |-> 29, wHour |-> 23, wMinute |-> 59, wSecond |-> 58, wMilliseconds |-> 999]
       IN ILEncode(S, v) = <<232, 7, 2, 0, 4, 0, 29, 0, 23, 0, 59, 0, 58, 0, 231, 3>> /\ ILRoundTrip(S, v, <<9>>)
ASSUME LET S == ILStruct("EVENT_HEADER")     \* the embedded descriptor and the union: ProcessorTime = UserTime:KernelTime as one LE ULONG64
           d == [Id |-> 1, Version |-> 2, Channel |-> 3, Level |-> 4, Opcode |-> 5, Task |-> 6, Keyword |-> <<0, 0, 0, 7>>]
           v == [Size |-> 80, HeaderType |-> 0, Flags |-> 0, EventProperty |-> 0, ThreadId |-> <<0, 1>>, ProcessId |-> <<0, 2>>,
                 TimeStamp |-> <<0, 0, 0, 3>>, ProviderId |-> Rep(170, 16), EventDescriptor |-> d, KernelTime |-> <<4386, 13124>>,
                 UserTime |-> <<21862, 30600>>, ActivityId |-> Rep(187, 16)]
       IN /\ Len(ILEncode(S, v)) = 80 /\ ILRoundTrip(S, v, <<>>)
          /\ SubSeq(ILEncode(S, v), 57, 64) = ILEncField(ILU64("ProcessorTime"), <<21862, 30600, 4386, 13124>>)
ASSUME LET S == ILStruct("SMB_QUERY_FILE_STREAM_INFO")
           e(nm) == [NextEntryOffset |-> <<0, 0>>, StreamNameLength |-> <<0, Len(nm)>>, StreamSize |-> <<0, 0, 0, 5>>,
                     StreamAllocationSize |-> <<0, 0, 0, 4096>>, StreamName |-> nm]
           vs == <<e(<<58, 0>>), e(<<58, 0, 97, 0, 98, 0>>), e(<<>>)>>
       IN /\ Len(ILEncodeList(S, vs, 8)) = 32 + 32 + 24 /\ Len(ILEncodeList(S, vs, 1)) = 26 + 30 + 24
          /\ SubSeq(ILEncodeList(S, vs, 8), 1, 4) = <<32, 0, 0, 0>> /\ SubSeq(ILEncodeList(S, vs, 8), 65, 68) = <<0, 0, 0, 0>>
          /\ ILListLaw(S, vs, 8) /\ ILListLaw(S, vs, 1) /\ ILListLaw(S, <<e(<<1>>)>>, 4)
          /\ ~ILDecodeList(S, <<8, 0, 0, 0>> \o SubSeq(ILEncodeList(S, vs, 8), 5, 88)).ok        \* an offset that points into the entry itself
ASSUME ILRpcUnicodeOK(4, 6, 3) /\ ~ILRpcUnicodeOK(5, 6, 3) /\ ~ILRpcUnicodeOK(8, 6, 3)
=============================================================================
