------------------------------ MODULE G03Cases ------------------------------
(***************************************************************************)
(* Specification growth G03, model -> code: every row of the tables of     *)
(* ADAttrs.tla, flag words over them, and the input space of the helper    *)
(* functions of LDAPHelpers.tla, each with the value the specification     *)
(* computes.  One JSON record per case (field k = the kind of case):       *)
(*                                                                         *)
(*   flagrow   (table, name, spellings, mask, bit)      every row          *)
(*   flagword  (table, word) -> names, unnamed bits     0, every single    *)
(*             bit, all-ones, NRandom seeded words per table               *)
(*   enumrow / enumunknown   sAMAccountType values and undefined values    *)
(*   dflrow / dflunknown     domain functional levels                      *)
(*   rid       well-known RIDs with the SID prefix they live under         *)
(*   oidrow    EKU and LDAP control object identifiers as dotted text      *)
(*   ntrow / ntsev / ntunknown   NTSTATUS sample, the severity rule, and   *)
(*             customer-defined values of each severity                    *)
(*   pad, size, krb, krbetype, ctl, mod, cred, dns   helper functions      *)
(***************************************************************************)
EXTENDS ADAttrs, LDAPHelpers, HashSpec, Bytes, TLC, Json

CONSTANTS Seed, NRandom

VARIABLE c

Emit(r) == PrintT(ToJson(r))
SortedSeq(S) == LET RECURSIVE F(_) F(T) == IF T = {} THEN <<>> ELSE LET m == CHOOSE x \in T : \A y \in T : x <= y IN <<m>> \o F(T \ {m}) IN F(S)

(* ---- flag words ---- *)
ByteBits(v, base) == { base + t : t \in { u \in 0..7 : (v \div (2 ^ u)) % 2 = 1 } }
RandomWord(k, i) == LET p == Pattern((Seed * 131 + i * 7 + Len(ADFlagTable(k))) % 65537, 4)
                    IN ByteBits(p[1], 0) \cup ByteBits(p[2], 8) \cup ByteBits(p[3], 16) \cup ByteBits(p[4], 24)
Words(k) == {{}} \cup { {b} : b \in 0..31 } \cup {0..31} \cup { RandomWord(k, i) : i \in 1..NRandom }
                 \cup { ADNamedBits(ADFlagTable(k)), (0..31) \ ADNamedBits(ADFlagTable(k)) }
FlagWordRec(k, w) ==
    LET rows == ADFlagRowsSeq(w, ADFlagTable(k)) IN
    [k |-> "flagword", t |-> k, w |-> ADWord(w), bits |-> SortedSeq(w),
     names |-> [i \in 1..Len(rows) |-> rows[i].name],
     unnamed |-> SortedSeq(ADUnnamed(w, ADFlagTable(k)))]

(* ---- enumerations ---- *)
SamUnknown == { <<\h1000, 2>>, <<\h3000, 3>>, <<\h5000, 0>>, <<0, 1>>, <<\hFFFF, \hFFFF>>, <<\h0000, \h0200>> }
DflUnknown == { 8, 9, 11, 255 }
DflProducts == [i \in 1..Len(ADDflTable) |-> ADDflTable[i].product]

(* ---- NTSTATUS ---- *)
NtUnknown == { <<\hE000, \h0001>>, <<\hA000, \h0001>>, <<\h6000, \h0001>>, <<\h2000, \h0001>>, <<\hEFFF, \hFFFF>> }   \* customer bit set: never Microsoft-defined

(* ---- padding ---- *)
PadTexts == { <<>>, LHStr("a"), LHStr("hello"), <<104, 233, 108, 108, 111>>, <<26085, 26412>>, LHStr("a b") }
PadChars == { LHStr("*"), LHStr(" "), LHStr("0"), <<233>> }
PadLens(s) == { 0 - 1, 0, Len(s) - 1, Len(s), Len(s) + 1, Len(s) + 4, LHUtf8Len(s), LHUtf8Len(s) + 2 }
IsAscii(s) == \A i \in 1..Len(s) : s[i] < 128

(* ---- sizes ---- *)
RandomSize(i) == LET p == Pattern((Seed * 389 + i) % 65537, 4)
                 IN <<(p[1] + 256 * p[2] + 65536 * (p[3] % 16)), p[4] % 45>>
Sizes == { <<0, 0>>, <<1, 0>>, <<512, 0>>, <<1000, 0>>, <<1023, 0>>, <<1, 10>>, <<1025, 0>>, <<1029, 0>>, <<1152, 0>>, <<1408, 0>>,
           <<1536, 0>>, <<2047, 0>>, <<1048575, 0>>, <<1, 20>>, <<1048575, 10>>, <<1, 30>>, <<5, 30>>, <<1, 40>>, <<3, 39>>,
           <<1, 50>>, <<1023, 50>>, <<1, 60>>, <<1, 63>>, <<1048575, 44>>, <<1023, 20>>, <<1000, 10>>, <<999999, 0>> }
           \cup { RandomSize(i) : i \in 1..NRandom }

(* ---- Kerberos ---- *)
KrbHosts == { LHStr("dc01.lab.local"), LHStr("DC01"), LHStr("10.0.0.1"), LHStr("") }
KrbRealms == { LHStr("lab.local"), LHStr("LAB.LOCAL"), LHStr("Lab.Local"), LHStr("corp-1.example_x.com"), LHStr("") }

(* ---- LDAP controls ---- *)
CtlOid(i) == LHStr(ADOidText(ADLdapCtlTable[i].arcs))
AllCtlOids == [i \in 1..Len(ADLdapCtlTable) |-> CtlOid(i)]
CtlLists == { <<>>, <<CtlOid(1)>>, <<CtlOid(8), CtlOid(14)>>, <<CtlOid(14), CtlOid(14)>>, <<<<>>>>, AllCtlOids,
              <<LHStr("2.16.840.1.113730.3.4.2")>> }           \* the last one: ManageDsaIT (RFC 3296), not an AD control

(* ---- modify requests ---- *)
ModOps == { "add", "delete", "replace", "increment" }
ModType(i) == << LHStr("member"), LHStr("description"), LHStr("logonCount") >>[i]
ModVals(op) == CASE op = "add" -> << LHStr("a"), LHStr("b") >> [] op = "delete" -> << >> [] op = "replace" -> << LHStr("x") >>
                 [] op = "increment" -> << LHStr("1") >>
ModCalls(ops) == [i \in 1..Len(ops) |-> [op |-> ops[i], type |-> ModType(i), vals |-> ModVals(ops[i])]]
ModOpSeqs == UNION { [1..n -> ModOps] : n \in 0..3 }

(* ---- credentials ---- *)
CredHashes == { <<>>, HsEmptyNT, <<58>> \o HsEmptyNT, HsEmptyLM \o <<58>> \o HsEmptyNT, HsEmptyLM \o <<58>>, LHStr("nothex") }
CredRec(d, u, p, hs) ==
    LET r == HsParse(hs) IN
    [k |-> "cred", domain |-> d, user |-> u, password |-> p, hashes |-> hs, ok |-> r.ok, lm |-> r.lm, nt |-> r.nt,
     isdomain |-> LHCredIsDomain(d), islocal |-> LHCredIsLocal(d), pth |-> r.ok /\ LHCredCanPassTheHash(u, r.nt)]

(* ---- DNS ---- *)
Zone == << [name |-> LHStr("dc01.g03.test"), addrs |-> << LHStr("10.3.0.1") >>],
           [name |-> LHStr("multi.g03.test"), addrs |-> << LHStr("10.3.0.2"), LHStr("10.3.0.3") >>] >>
DnsQueries == { <<LHStr("dc01.g03.test"), FALSE>>, <<LHStr("multi.g03.test"), FALSE>>, <<LHStr("dc01.g03.test."), FALSE>>,
                <<LHStr("DC01.G03.Test"), FALSE>>, <<LHStr("nope.g03.test"), FALSE>>, <<LHStr("192.0.2.7"), TRUE>> }

Init ==
    \/ \E k \in ADFlagKinds : \E i \in 1..Len(ADFlagTable(k)) :
         LET r == ADFlagTable(k)[i] IN
         /\ c = <<"flagrow", k, i>>
         /\ Emit([k |-> "flagrow", t |-> k, name |-> r.name, alt |-> r.alt, mask |-> r.mask, bit |-> ADBitOf(r.mask)])
    \/ \E k \in ADFlagKinds : \E w \in Words(k) :
         /\ c = <<"flagword", k, w>>
         /\ Emit(FlagWordRec(k, w))
    \/ \E i \in 1..Len(ADSamTypeTable) :
         LET r == ADSamTypeTable[i] IN
         /\ c = <<"enumrow", i>>
         /\ Emit([k |-> "enumrow", t |-> "samtype", name |-> r.name, v |-> r.v, class |-> ADSamClass(r.v)])
    \/ \E v \in SamUnknown :
         /\ c = <<"enumunknown", v>>
         /\ Emit([k |-> "enumunknown", t |-> "samtype", v |-> v, names |-> ADEnumName(v, ADSamTypeTable)])
    \/ \E i \in 1..Len(ADDflTable) :
         LET r == ADDflTable[i] IN
         /\ c = <<"dflrow", i>>
         /\ Emit([k |-> "dflrow", v |-> r.v, name |-> r.name, product |-> r.product, defined |-> TRUE,
                  atleast |-> [j \in 1..Len(ADDflTable) |-> [want |-> ADDflTable[j].v, holds |-> ADDflAtLeast(r.v, ADDflTable[j].v)]]])
    \/ \E v \in DflUnknown :
         /\ c = <<"dflunknown", v>>
         /\ Emit([k |-> "dflunknown", v |-> v, defined |-> ADDflDefined(v), products |-> DflProducts])
    \/ \E i \in 1..Len(ADRidTable) :
         LET r == ADRidTable[i] IN
         /\ c = <<"rid", i>>
         /\ Emit([k |-> "rid", rid |-> r.rid, class |-> r.class, names |-> r.names, scope |-> r.scope, builtin |-> ADRidUnderBuiltin(r.rid)])
    \/ \E k \in ADOidKinds : \E i \in 1..Len(ADOidTable(k)) :
         LET r == ADOidTable(k)[i] IN
         /\ c = <<"oidrow", k, i>>
         /\ Emit([k |-> "oidrow", t |-> k, std |-> r.std, names |-> r.names, text |-> ADOidText(r.arcs), arcs |-> r.arcs])
    \/ \E i \in 1..Len(ADNtStatusTable) :
         LET r == ADNtStatusTable[i] IN
         /\ c = <<"ntrow", i>>
         /\ Emit([k |-> "ntrow", name |-> r.name, v |-> r.v, names |-> ADNtNames(r.v), sev |-> ADNtSeverity(r.v),
                  sevname |-> ADNtSeverityName(ADNtSeverity(r.v)), facility |-> ADNtFacility(r.v), code |-> ADNtCode(r.v),
                  failure |-> ADNtIsFailure(r.v)])
    \/ \E s \in 0..3 :
         /\ c = <<"ntsev", s>>
         /\ Emit([k |-> "ntsev", sev |-> s, sevname |-> ADNtSeverityName(s), failure |-> ADNtIsFailure(<<s * 16384, 1>>)])
    \/ \E v \in NtUnknown :
         /\ c = <<"ntunknown", v>>
         /\ Emit([k |-> "ntunknown", v |-> v, sev |-> ADNtSeverity(v), sevname |-> ADNtSeverityName(ADNtSeverity(v)),
                  customer |-> ADNtCustomer(v), failure |-> ADNtIsFailure(v), names |-> ADNtNames(v)])
    \/ \E s \in PadTexts, p \in PadChars : \E n \in PadLens(s) :
         /\ c = <<"pad", s, p, n>>
         /\ Emit([k |-> "pad", s |-> s, p |-> p, n |-> n, right |-> LHPadRight(s, p, n), left |-> LHPadLeft(s, p, n), ascii |-> IsAscii(s)])
    \/ \E z \in Sizes :
         /\ c = <<"size", z>>
         /\ Emit([k |-> "size", mant |-> z[1], shift |-> z[2], text |-> LHSizeText(z[1], z[2]), unit |-> LHUnitNames[LHSizeUnit(z[1], z[2]) + 1]])
    \/ \E h \in KrbHosts, r \in KrbRealms :
         /\ c = <<"krb", h, r>>
         /\ Emit([k |-> "krb", host |-> h, realm |-> r, cfg |-> LHKrbConfig(h, r)])
    \/ \E i \in 1..Len(LHKrbEtypes) :
         /\ c = <<"krbetype", i>>
         /\ Emit([k |-> "krbetype", id |-> LHKrbEtypes[i].id, names |-> LHKrbEtypes[i].names, weak |-> LHKrbEtypes[i].weak])
    \/ \E l \in CtlLists, cr \in BOOLEAN :
         /\ c = <<"ctl", l, cr>>
         /\ Emit([k |-> "ctl", oids |-> l, critical |-> cr, controls |-> LHControls(l, cr)])
    \/ \E ops \in ModOpSeqs :
         /\ c = <<"mod", ops>>
         /\ Emit([k |-> "mod", dn |-> LHStr("CN=x,DC=g03,DC=test"), calls |-> ModCalls(ops), changes |-> LHModChanges(ModCalls(ops))])
    \/ \E d \in { <<>>, LHStr("LAB") }, u \in { <<>>, LHStr("admin") }, p \in { <<>>, LHStr("pw") }, hs \in CredHashes :
         /\ c = <<"cred", d, u, p, hs>>
         /\ Emit(CredRec(d, u, p, hs))
    \/ \E q \in DnsQueries :
         /\ c = <<"dns", q>>
         /\ Emit([k |-> "dns", zone |-> Zone, qname |-> q[1], literal |-> q[2], answer |-> LHDnsAnswer(Zone, q[1], q[2])])
Next == FALSE /\ UNCHANGED c
=============================================================================
