----------------------------- MODULE ToyCipher -----------------------------
(* A toy block "cipher" E_key : b bytes -> b bytes for any block size b, DEFINED HERE and implemented
   verbatim by the harness as a crypto/cipher.Block.  CMAC is a mode of operation: SP 800-38B defines it
   for any approved block cipher with b in {64, 128} bits, and nothing in the construction needs E to be
   invertible or strong.  Binding the library's cmac.New to this E makes every subkey, chaining value
   and tag computable by the specification itself (no trusted primitive), for both block sizes.

   Three rounds; each round substitutes every byte (affine in the byte, key- and position-dependent) and
   then mixes each byte with its two cyclic neighbours, so that one changed input byte or one wrong
   chaining byte changes the whole output block.
   (TLCEval only forces TLC to materialise each intermediate block; it is the identity.) *)
EXTENDS Integers, Sequences, Bitwise, TLC

ToyRound(key, x, r) ==
    LET b == Len(x)
        y == TLCEval([i \in 1..b |-> ((x[i] + key[((i + r) % Len(key)) + 1]) * 7 + 13 * i + r) % 256])
    IN TLCEval([i \in 1..b |-> ((y[i] ^^ y[(i % b) + 1]) + 3 * y[((i + 2) % b) + 1]) % 256])

ToyE(key, x) == ToyRound(key, ToyRound(key, ToyRound(key, x, 1), 2), 3)

(* diffusion sanity: flipping one bit of one byte changes every byte of an 8-byte block's output *)
ASSUME LET k == <<1, 2, 3>>
           a == ToyE(k, <<0, 0, 0, 0, 0, 0, 0, 0>>)
           c == ToyE(k, <<0, 0, 0, 1, 0, 0, 0, 0>>)
       IN \A i \in 1..8 : a[i] # c[i]
=============================================================================
