------------------------------ MODULE HashSpec ------------------------------
(***************************************************************************)
(* The "LM:NT" hash specification of pass-the-hash tools (the -hashes      *)
(* LMHASH:NTHASH convention): each hash is 32 hexadecimal digits (16       *)
(* bytes: an LM hash per MS-NLMP 3.3.1 LMOWFv1, an NT hash = MD4), in      *)
(* either letter case; the accepted forms are                              *)
(*       ""          no hash                                               *)
(*       NT          a lone hash is the NT hash                            *)
(*       :NT         empty LM part                                         *)
(*       LM:NT       both                                                  *)
(* surrounded by any amount of white space.  Anything else is an error.    *)
(* Texts are sequences of code points.                                     *)
(***************************************************************************)
EXTENDS Integers, Sequences

(* white space = the Unicode White_Space property (what "surrounding white space" means for text typed or pasted by a user) *)
HsIsWs(c) == c \in {9, 10, 11, 12, 13, 32, 133, 160, 5760, 8232, 8233, 8239, 8287, 12288} \/ (c >= 8192 /\ c <= 8202)
RECURSIVE HsTrimLeft(_)
HsTrimLeft(s) == IF s # <<>> /\ HsIsWs(Head(s)) THEN HsTrimLeft(Tail(s)) ELSE s
RECURSIVE HsTrimRight(_)
HsTrimRight(s) == IF s # <<>> /\ HsIsWs(s[Len(s)]) THEN HsTrimRight(SubSeq(s, 1, Len(s) - 1)) ELSE s
HsTrim(s) == HsTrimRight(HsTrimLeft(s))

HsIsHex(c) == (c >= 48 /\ c <= 57) \/ (c >= 97 /\ c <= 102) \/ (c >= 65 /\ c <= 70)
HsIsHash(s) == Len(s) = 32 /\ \A i \in 1..32 : HsIsHex(s[i])
HsColon == 58

HsError == [ok |-> FALSE, lm |-> <<>>, nt |-> <<>>]
HsParse(s) ==
    LET t == HsTrim(s) IN
    IF t = <<>> THEN [ok |-> TRUE, lm |-> <<>>, nt |-> <<>>]
    ELSE IF HsIsHash(t) THEN [ok |-> TRUE, lm |-> <<>>, nt |-> t]
    ELSE IF Len(t) = 33 /\ t[1] = HsColon /\ HsIsHash(Tail(t)) THEN [ok |-> TRUE, lm |-> <<>>, nt |-> Tail(t)]
    ELSE IF Len(t) = 65 /\ t[33] = HsColon /\ HsIsHash(SubSeq(t, 1, 32)) /\ HsIsHash(SubSeq(t, 34, 65))
         THEN [ok |-> TRUE, lm |-> SubSeq(t, 1, 32), nt |-> SubSeq(t, 34, 65)]
    ELSE HsError

(* letter case *)
HsLowerCp(c) == IF c >= 65 /\ c <= 90 THEN c + 32 ELSE c
HsUpperCp(c) == IF c >= 97 /\ c <= 122 THEN c - 32 ELSE c
HsLower(s) == [i \in 1..Len(s) |-> HsLowerCp(s[i])]
HsUpper(s) == [i \in 1..Len(s) |-> HsUpperCp(s[i])]
(* results equal up to letter case *)
HsSame(a, b) == a.ok = b.ok /\ HsLower(a.lm) = HsLower(b.lm) /\ HsLower(a.nt) = HsLower(b.nt)

(* ---- known answers: the well-known empty-password pair aad3b435b51404eeaad3b435b51404ee:31d6cfe0d16ae931b73c59d7e0c089c0 ---- *)
HsEmptyLM == <<97, 97, 100, 51, 98, 52, 51, 53, 98, 53, 49, 52, 48, 52, 101, 101, 97, 97, 100, 51, 98, 52, 51, 53, 98, 53, 49, 52, 48, 52, 101, 101>>
HsEmptyNT == <<51, 49, 100, 54, 99, 102, 101, 48, 100, 49, 54, 97, 101, 57, 51, 49, 98, 55, 51, 99, 53, 57, 100, 55, 101, 48, 99, 48, 56, 57, 99, 48>>
ASSUME /\ HsParse(HsEmptyLM \o <<58>> \o HsEmptyNT) = [ok |-> TRUE, lm |-> HsEmptyLM, nt |-> HsEmptyNT]
       /\ HsParse(HsEmptyNT) = [ok |-> TRUE, lm |-> <<>>, nt |-> HsEmptyNT]
       /\ HsParse(<<58>> \o HsEmptyNT) = [ok |-> TRUE, lm |-> <<>>, nt |-> HsEmptyNT]
       /\ HsParse(<<>>) = [ok |-> TRUE, lm |-> <<>>, nt |-> <<>>]
       /\ HsParse(<<32, 9>> \o HsEmptyLM \o <<58>> \o HsEmptyNT \o <<13, 10>>) = HsParse(HsEmptyLM \o <<58>> \o HsEmptyNT)
       /\ HsSame(HsParse(HsUpper(HsEmptyLM \o <<58>> \o HsEmptyNT)), HsParse(HsEmptyLM \o <<58>> \o HsEmptyNT))
       /\ ~HsParse(HsEmptyLM \o <<58>>).ok                                        \* "LM:" is not a form
       /\ ~HsParse(SubSeq(HsEmptyNT, 1, 31)).ok /\ ~HsParse(HsEmptyNT \o <<48>>).ok
       /\ ~HsParse(HsEmptyLM \o <<32, 58>> \o HsEmptyNT).ok                       \* white space inside
       /\ ~HsParse(<<103>> \o Tail(HsEmptyNT)).ok                                 \* 'g' is not a hex digit
=============================================================================
