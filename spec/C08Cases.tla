------------------------------ MODULE C08Cases ------------------------------
(***************************************************************************)
(* C08 case table (model -> code).  TLC enumerates                         *)
(*  chal : well-formed CHALLENGE_MESSAGEs (flag sets that affect layout x  *)
(*         target names x AV-pair lists x payload placements) with the     *)
(*         parse a receiver must obtain          -> ParseChallengeMessage  *)
(*  ti   : AV_PAIR lists on their own            -> ParseTargetInfo        *)
(*  neg / auth / e2e : the INPUTS of the two message builders and of the   *)
(*         AuthContext round (names x character set x challenge family);   *)
(*         the library chooses the rest, so the bytes it builds are        *)
(*         recorded by the harness and validated by TraceNTLMSSP           *)
(*  tok  : SPNEGO mechanism tokens of the lengths that straddle every DER  *)
(*         length-form boundary, with the specification's own encodings    *)
(***************************************************************************)
EXTENDS NTLMSSP, SPNEGO, TLC, Json

CONSTANTS Seed, Kinds, Tier, TokLens, LongUni, LongOem, NRandom

VARIABLE c

Emit(r) == PrintT(ToJson(r))
SetToSortedSeq(S) == LET RECURSIVE F(_) F(T) == IF T = {} THEN <<>> ELSE LET m == CHOOSE x \in T : \A y \in T : x <= y IN <<m>> \o F(T \ {m}) IN F(S)
Thorough == Tier = "thorough"
(* Bytes!Pattern multiplies its argument by 7919: keep it below 2^16 (TLC integers are 32-bit) *)
Pat(x, n) == Pattern(x % 65537, n)

(* ---- names (code point sequences).  Case mapping is judged with Text!Upper, so the non-ASCII letters are
        taken from its table of 1:1 pairs or have no case at all ---- *)
NEmpty == <<>>
NCorp == <<99, 111, 114, 112>>                                                  \* corp
NMixed == <<67, 111, 114, 112, 46, 69, 120, 97, 109, 112, 108, 101, 45, 48, 49>> \* Corp.Example-01
NWks == <<87, 75, 83, 36>>                                                      \* WKS$
NEcole == <<201, 99, 111, 108, 101>>                                            \* E-acute cole
NLowerPairs == <<1078, 228, 945>>                                               \* zhe, a-umlaut, alpha (lower case)
NCaseless == <<20013, 8364, 128512>>                                            \* CJK, euro sign, emoji (surrogate pair)
NOne == <<97>>
NUser == <<117, 115, 101, 114>>                                                 \* user
NAdmin == <<65, 100, 109, 105, 110, 105, 115, 116, 114, 97, 116, 111, 114>>     \* Administrator
NUuml == <<252, 115, 101, 114, 128512>>                                         \* u-umlaut ser + emoji (exact match only)

NegNames == IF Thorough THEN {NEmpty, NCorp, NMixed, NWks, NEcole, NLowerPairs, NCaseless, NOne}
            ELSE {NEmpty, NCorp, NMixed, NEcole, NLowerPairs, NCaseless}
AuthUsers == IF Thorough THEN {NEmpty, NUser, NAdmin, NUuml, NLowerPairs} ELSE {NEmpty, NUser, NAdmin, NUuml}
AuthDoms == IF Thorough THEN {NEmpty, NCorp, NMixed, NEcole, NLowerPairs, NCaseless} ELSE {NEmpty, NMixed, NEcole, NCaseless}
AuthWs == IF Thorough THEN {NEmpty, NWks, NLowerPairs, NCaseless} ELSE {NEmpty, NWks, NLowerPairs}

LongName(n) == [i \in 1..n |-> 97 + ((i + Seed) % 26)]
(* <<unicode?, number of code points>>: 32767 / 65535 are the longest names a 16-bit Len can describe *)
LongNames == { <<TRUE, n>> : n \in LongUni } \cup { <<FALSE, n>> : n \in LongOem }

(* ---- AV_PAIR lists ---- *)
NameIds == {MsvAvNbComputerName, MsvAvNbDomainName, MsvAvDnsComputerName, MsvAvDnsDomainName, MsvAvDnsTreeName, MsvAvTargetName}
AvIds == NameIds \cup {MsvAvFlags, MsvAvTimestamp, MsvAvChannelBindings}
EvenLens == <<0, 2, 12, 6, 30, 4>>
OddLens == <<1, 3, 13, 7, 31, 5>>
AvValue(id, pos, odd) ==
    IF id = MsvAvFlags THEN <<2 + pos, 0, 0, 0>>
    ELSE IF id = MsvAvTimestamp THEN Pat(Seed + 11 * pos, 8)
    ELSE IF id = MsvAvChannelBindings THEN Pat(Seed + 5 * pos, 16)
    ELSE LET n == (IF odd THEN OddLens ELSE EvenLens)[((id + pos) % 6) + 1] IN
         [i \in 1..n |-> IF i % 2 = 1 THEN 65 + ((id * 7 + pos + i) % 26) ELSE (IF odd /\ i = n - 1 THEN 4 ELSE 0)]
DistinctSeqs(S, n) == { s \in [1..n -> S] : \A i, j \in 1..n : i # j => s[i] # s[j] }
IdSeqs == UNION { DistinctSeqs(AvIds, n) : n \in 0..(IF Thorough THEN 3 ELSE 2) }
HasNameId(ids) == { i \in 1..Len(ids) : ids[i] \in NameIds } # {}
AvList(ids, odd) == [i \in 1..Len(ids) |-> <<ids[i], AvValue(ids[i], i, odd)>>]

(* the lists used inside CHALLENGE messages *)
ChalLists == { <<>>,
               AvList(<<MsvAvNbDomainName>>, FALSE),
               AvList(<<MsvAvNbDomainName, MsvAvNbComputerName, MsvAvDnsDomainName, MsvAvDnsComputerName, MsvAvTimestamp>>, FALSE),
               AvList(<<MsvAvTimestamp, MsvAvFlags, MsvAvDnsTreeName>>, FALSE) }
BigList == << <<MsvAvNbDomainName, [i \in 1..60000 |-> IF i % 2 = 1 THEN 65 + (i % 23) ELSE 0]>>, <<MsvAvTimestamp, Pat(Seed, 8)>> >>

(* ---- CHALLENGE space ---- *)
Charsets == IF Thorough THEN {{FUnicode}, {FOem}, {FUnicode, FOem}} ELSE {{FUnicode}, {FOem}}
Extras == IF Thorough THEN {{}, {FNtlm, FAlwaysSign, FTargetTypeServer, F128, FKeyExch, F56, FSign, FSeal}} ELSE {{FNtlm, FAlwaysSign, F128, F56}}
LayoutBits == SUBSET {FVersion, FTargetInfo, FRequestTarget, FExtendedSessionSecurity}
ChalFlagSets == { cs \cup lb \cup ex : cs \in Charsets, lb \in LayoutBits, ex \in Extras }

TNameCPs(fl) == IF FRequestTarget \in fl
                THEN (IF FUnicode \in fl THEN {NEmpty, NOne, <<83, 101, 114, 118, 101, 114>>, <<1046, 8364, 128512>>}
                      ELSE {NEmpty, NOne, <<83, 69, 82, 86, 69, 82>>})
                ELSE {NEmpty, <<83, 101, 114, 118, 101, 114>>}                       \* second one: "loose" (flag clear, name present)
TNameBytes(fl, cps) == IF FUnicode \in fl THEN UTF16LE(cps) ELSE cps
(* <<present?, pairs>>; without the flag: absent, or present anyway ("loose") *)
TInfos(fl) == IF FTargetInfo \in fl THEN { <<TRUE, l>> : l \in ChalLists }
              ELSE { <<FALSE, <<>> >>, <<TRUE, AvList(<<MsvAvNbDomainName>>, FALSE)>> }
TInfoBytes(x) == IF x[1] THEN AvEncode(x[2]) ELSE <<>>
TInfoPairs(x) == x[2]

Layouts == { NaturalLayout,
             [infoFirst |-> TRUE, pre |-> 0, mid |-> 0, post |-> 0, slack |-> 0],
             [infoFirst |-> FALSE, pre |-> 3, mid |-> 1, post |-> 2, slack |-> 0],
             [infoFirst |-> TRUE, pre |-> 8, mid |-> 5, post |-> 0, slack |-> 0],
             [infoFirst |-> FALSE, pre |-> 0, mid |-> 0, post |-> 0, slack |-> 5],
             [infoFirst |-> TRUE, pre |-> 1, mid |-> 0, post |-> 7, slack |-> 2],
             \* Version field omitted when its flag is clear: payload right after the 48-octet fixed part
             [infoFirst |-> FALSE, pre |-> 0, mid |-> 0, post |-> 8, slack |-> 0, nover |-> TRUE],
             [infoFirst |-> TRUE, pre |-> 0, mid |-> 2, post |-> 8, slack |-> 0, nover |-> TRUE] }

Versions == {VersionEncode(6, 1, 7601, 15), VersionEncode(10, 0, 10000 + (Seed % 50000), 15)}
ScOf(fl, tn, ti) == Pat(Seed * 7 + Len(tn) + 3 * Len(ti) + Cardinality(fl), 8)

ChalRec(fl, tn, ti, ver) == [flags |-> fl, tname |-> tn, tinfo |-> ti, sc |-> ScOf(fl, tn, ti), ver |-> ver]
ChalCase(fl, tncps, tix, pl, ver) ==
    LET tn == TNameBytes(fl, tncps)
        ti == TInfoBytes(tix)
        cr == ChalRec(fl, tn, ti, ver) IN
    [k |-> "chal", msg |-> ChallengeEncode(cr, pl), x |-> ChallengeExpect(cr, TInfoPairs(tix)),
     fl |-> SetToSortedSeq(fl), pl |-> pl, d |-> FALSE]

(* pseudo-random well-formed challenges: all 32 flag bits, pad lengths, name and list contents drawn from the
   seed-dependent byte pattern r (one character-set bit is forced; TARGET_TYPE_* etc. are arbitrary) *)
RandIdSeqs == << <<>>, <<MsvAvNbDomainName>>, <<MsvAvNbComputerName, MsvAvNbDomainName>>, <<MsvAvTimestamp>>,
                 <<MsvAvDnsDomainName, MsvAvDnsComputerName, MsvAvDnsTreeName, MsvAvFlags>>,
                 <<MsvAvNbDomainName, MsvAvNbComputerName, MsvAvDnsDomainName, MsvAvDnsComputerName, MsvAvTimestamp, MsvAvTargetName, MsvAvChannelBindings>> >>
RandChalCase(i) ==
    LET r == Pat(Seed * 977 + i, 24)
        fb == <<(r[1] \div 4) * 4 + (IF r[2] % 3 = 0 THEN 2 ELSE IF r[2] % 3 = 1 THEN 1 ELSE 3), r[3], r[4], r[5]>>
        fl == FlagSet(fb) \ {3, 8, 10, 14, 18, 21, 24, 26, 27, 28}      \* 2.2.2.5: r1..r10 MUST be zero
        tncps == IF FRequestTarget \in fl THEN [j \in 1..(r[6] % 20) |-> 65 + ((r[7] + j) % 26)] ELSE <<>>
        tn == TNameBytes(fl, tncps)
        pairs == IF FTargetInfo \in fl THEN AvList(RandIdSeqs[(r[8] % 6) + 1], FALSE) ELSE <<>>
        ti == IF FTargetInfo \in fl THEN AvEncode(pairs) ELSE <<>>
        pl == [infoFirst |-> r[9] % 2 = 0, pre |-> r[10] % 9, mid |-> r[11] % 9, post |-> r[12] % 9, slack |-> r[13] % 4]
        cr == [flags |-> fl, tname |-> tn, tinfo |-> ti, sc |-> SubSeq(r, 14, 21), ver |-> VersionEncode(r[22], r[23], r[24] * 200, 15)] IN
    [k |-> "chal", msg |-> ChallengeEncode(cr, pl), x |-> ChallengeExpect(cr, pairs), fl |-> SetToSortedSeq(fl), pl |-> pl, d |-> FALSE]

(* challenge families offered to the builders: charset x ESS (NTLMv2 vs v1 responses) x VERSION x target info *)
AuthFlagSets == { cs \cup lb \cup {FNtlm, FAlwaysSign, FRequestTarget, F128, F56}
                  : cs \in {{FUnicode}, {FOem}}, lb \in SUBSET {FVersion, FExtendedSessionSecurity} }
AuthChallenge(fl, withInfo) ==
    LET ti == IF withInfo THEN AvEncode(AvList(<<MsvAvNbDomainName, MsvAvNbComputerName, MsvAvTimestamp>>, FALSE)) ELSE AvEncode(<<>>)
        f == fl \cup {FTargetInfo} IN
    ChalRec(f, TNameBytes(f, <<83, 82, 86>>), ti, VersionEncode(6, 1, 7601, 15))

(* ---- SPNEGO tokens ---- *)
Tok(seed, n) == [i \in 1..n |-> (i * 31 + seed + (i \div 256) * 7) % 256]
(* every encoding ends with the token itself: only the octets in front of it are emitted *)
Front(w, n) == SubSeq(w, 1, Len(w) - n)

Init ==
    \/ /\ "chal" \in Kinds
       /\ \E fl \in ChalFlagSets : \E tn \in TNameCPs(fl) : \E tix \in TInfos(fl) : \E pl \in Layouts : \E ver \in Versions :
            /\ (FVersion \notin fl => ver = VersionEncode(6, 1, 7601, 15))          \* the version is not encoded without the flag
            /\ c = <<"chal", fl, tn, tix, pl, ver>>
            /\ Emit(ChalCase(fl, tn, tix, pl, ver))
    \/ /\ "chal" \in Kinds /\ Thorough
       /\ \E pl \in {NaturalLayout, [infoFirst |-> TRUE, pre |-> 2, mid |-> 3, post |-> 0, slack |-> 0]} :
            /\ c = <<"chalbig", pl>>
            /\ LET fl == {FUnicode, FRequestTarget, FTargetInfo, FVersion, FNtlm, F56}
                   cr == ChalRec(fl, UTF16LE(NCorp), AvEncode(BigList), VersionEncode(6, 1, 7601, 15)) IN
               Emit([k |-> "chal", msg |-> ChallengeEncode(cr, pl), x |-> ChallengeExpect(cr, BigList),
                     fl |-> SetToSortedSeq(fl), pl |-> pl, d |-> FALSE])
    \/ /\ "chal" \in Kinds
       /\ \E i \in 1..NRandom : c = <<"chalrand", i>> /\ Emit(RandChalCase(i))
    \/ /\ "ti" \in Kinds
       /\ \E ids \in IdSeqs : \E odd \in { o \in BOOLEAN : o => HasNameId(ids) } :
            /\ c = <<"ti", ids, odd>>
            \* odd-length text values are outside 2.2.2.1 (UTF-16 strings): any mismatch there is model detail
            /\ Emit([k |-> "ti", ti |-> AvEncode(AvList(ids, odd)), pairs |-> AvList(ids, odd), d |-> odd])
    \/ /\ "neg" \in Kinds
       /\ \E dom \in NegNames : \E ws \in NegNames : \E uni \in BOOLEAN :
            c = <<"neg", dom, ws, uni>> /\ Emit([k |-> "neg", dom |-> dom, ws |-> ws, uni |-> uni])
    \/ /\ "neg" \in Kinds
       /\ \E ln \in LongNames : \E which \in {"dom", "ws"} :
            /\ c = <<"neglong", ln, which>>
            /\ Emit([k |-> "neg", dom |-> IF which = "dom" THEN LongName(ln[2]) ELSE NOne,
                     ws |-> IF which = "ws" THEN LongName(ln[2]) ELSE NWks, uni |-> ln[1]])
    \/ /\ "auth" \in Kinds
       /\ \E fl \in AuthFlagSets : \E wi \in BOOLEAN : \E u \in AuthUsers : \E dom \in AuthDoms : \E ws \in AuthWs :
            /\ c = <<"auth", fl, wi, u, dom, ws>>
            /\ LET cr == AuthChallenge(fl, wi) IN
               Emit([k |-> "auth", chal |-> ChallengeEncode(cr, NaturalLayout), cf |-> FlagBytes(cr.flags),
                     user |-> u, dom |-> dom, ws |-> ws])
    \/ /\ "auth" \in Kinds
       /\ \E ln \in LongNames : \E which \in {"user", "dom", "ws"} :
            /\ c = <<"authlong", ln, which>>
            /\ LET cr == AuthChallenge((IF ln[1] THEN {FUnicode} ELSE {FOem}) \cup {FNtlm, FRequestTarget, FVersion}, FALSE) IN
               Emit([k |-> "auth", chal |-> ChallengeEncode(cr, NaturalLayout), cf |-> FlagBytes(cr.flags),
                     user |-> IF which = "user" THEN LongName(ln[2]) ELSE NUser,
                     dom |-> IF which = "dom" THEN LongName(ln[2]) ELSE NCorp,
                     ws |-> IF which = "ws" THEN LongName(ln[2]) ELSE NWks])
    \/ /\ "e2e" \in Kinds
       /\ \E fl \in AuthFlagSets : \E u \in {NUser, NUuml} : \E dom \in {NEmpty, NMixed, NEcole} : \E ws \in {NEmpty, NWks} : \E choice \in {FALSE} :
            /\ c = <<"e2e", fl, u, dom, ws, choice>>
            /\ LET cr == AuthChallenge(fl, TRUE)
                   msg == ChallengeEncode(cr, [infoFirst |-> TRUE, pre |-> 0, mid |-> 0, post |-> 0, slack |-> 0]) IN
               \* choice = FALSE: the framing this library reads (60, OID, bare SEQUENCE); the RFC 4178 forms are exercised, as model detail, by "tok"
               Emit([k |-> "e2e", user |-> u, dom |-> dom, ws |-> ws, uni |-> (FUnicode \in fl), cf |-> FlagBytes(cr.flags),
                     resp |-> SpnegoRespFramed(TRUE, NegAcceptIncomplete, TRUE, msg, choice),
                     x |-> ChallengeExpect(cr, AvList(<<MsvAvNbDomainName, MsvAvNbComputerName, MsvAvTimestamp>>, FALSE)),
                     d |-> choice])
    \/ /\ "tok" \in Kinds
       /\ \E n \in TokLens :
            /\ c = <<"tok", n>>
            /\ LET t == Tok(Seed, n) IN
               Emit([k |-> "tok", n |-> n, seed |-> Seed, t |-> t,
                     initBare |-> Front(SpnegoInit(t, FALSE), n), initRfc |-> Front(SpnegoInit(t, TRUE), n),
                     respBare |-> Front(SpnegoRespFramed(TRUE, NegAcceptIncomplete, TRUE, t, FALSE), n),
                     respRfcFramed |-> Front(SpnegoRespFramed(TRUE, NegAcceptIncomplete, TRUE, t, TRUE), n),
                     respRfc |-> Front(SpnegoRespRFC(TRUE, NegAcceptIncomplete, TRUE, t), n)])
Next == FALSE /\ UNCHANGED c
=============================================================================
