---------------------------- MODULE NameChallenge ----------------------------
(***************************************************************************)
(* nbtns.NameChallenger.ChallengeOwnership (challenge.go) as a client      *)
(* protocol machine (specification growth for C18: "clients hand each      *)
(* response to the query with the matching id").                           *)
(*                                                                         *)
(* The challenger sends a name query to the presumed owner and waits for a *)
(* reply, up to Retries attempts.  The environment (the owner node, or an  *)
(* attacker on the path) answers each attempt with one of:                 *)
(*   "correct"    matching transaction id, positive, RDATA = the owner     *)
(*   "nameerror"  matching id, rcode name error                            *)
(*   "otherip"    matching id, positive, RDATA = another address           *)
(*   "wrongid"    a positive answer for the owner under ANOTHER id         *)
(*   "garbage"    bytes that do not decode                                 *)
(*   "timeout"    nothing                                                  *)
(* Result: TRUE = the owner still defends the name.                        *)
(***************************************************************************)
EXTENDS Integers, Sequences, TLC, Json

CONSTANTS Retries, Kinds, MaxTimeouts, EmitCases
VARIABLES script, att, result, done
vars == <<script, att, result, done>>

Init == script = <<>> /\ att = 1 /\ result = FALSE /\ done = FALSE

Timeouts(s) == Len(SelectSeq(s, LAMBDA k : k = "timeout"))

(* the environment's next reply, and what a correct challenger does with it *)
Reply(k) ==
    /\ ~done /\ att <= Retries
    /\ k = "timeout" => Timeouts(script) < MaxTimeouts
    /\ script' = Append(script, k)
    /\ CASE k = "correct" -> result' = TRUE /\ done' = TRUE /\ UNCHANGED att
         [] k = "nameerror" -> result' = FALSE /\ done' = TRUE /\ UNCHANGED att
         [] OTHER -> /\ att' = att + 1 /\ UNCHANGED result
                     /\ done' = (att + 1 > Retries)

Next == \E k \in Kinds : Reply(k)
Spec == Init /\ [][Next]_vars

(* P: ownership is confirmed only by a reply that carries the challenge's own transaction id and the owner's address *)
OnlyMatchingReplyConfirms == result => (\E i \in DOMAIN script : script[i] = "correct")
(* a reply under another transaction id is never what decides *)
WrongIdNeverDecides == done /\ Len(script) > 0 /\ script[Len(script)] = "wrongid" => ~result

Emit == done /\ EmitCases => PrintT(ToJson([script |-> script, result |-> result]))
Inv == OnlyMatchingReplyConfirms /\ WrongIdNeverDecides /\ Emit
=============================================================================
