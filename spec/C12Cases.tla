------------------------------ MODULE C12Cases ------------------------------
(***************************************************************************)
(* C12 one-shot cases as an enumerated table: TLC enumerates the           *)
(* structured input space and computes, for every case, the expected       *)
(* result with the specification's own RC4 / PKCS#7 / UTF-16LE.            *)
(*   rc4key   every key length 1..256: keystream segments (start, deep)    *)
(*   rc4bad   key lengths outside 1..256 (D: outside the stated domain)    *)
(*   rc4blank what the library's Reset leaves behind (D)                   *)
(*   cmackat  RFC 4493 examples 1-4 (real AES-128 in the harness)          *)
(*   pad      block sizes 1..255 x message lengths around the boundaries   *)
(*   unpad    ALL buffers of length <= UnpadLen over a small alphabet,     *)
(*            plus long structured buffers: exact accept/reject            *)
(*   gpp      passwords -> exact AES plaintext blocks, key, IV (Prim AES)  *)
(***************************************************************************)
EXTENDS RC4, CMAC, PKCS7, GPP, TLC, Json, FiniteSets

CONSTANTS Seed, Kinds,
          DeepLens,     \* key lengths for which the deep keystream segments are computed
          UnpadLen,     \* exhaustive unpad buffers up to this length
          PwLen         \* GPP passwords: all strings over the alphabet up to this length

VARIABLE c

Emit(r) == PrintT(ToJson(r))

(* ---------------- RC4 ---------------- *)
KeyOf(n) == IF n % 5 = 0 THEN [i \in 1..n |-> (i * 37 + n) % 256]            \* arithmetic pattern incl. 0 bytes
            ELSE Pattern(Seed * 3 + n, n)
SpecialKeys == { <<0>>, <<255>>, Zeros(5), Rep(255, 16), Zeros(256), Rep(255, 256), [i \in 1..256 |-> i - 1],
                 [i \in 1..256 |-> 256 - i], <<1, 2, 3, 4, 5>> }
Segs(key) == LET deep == Len(key) \in DeepLens
                 ks == RC4Keystream(key, IF deep THEN 527 ELSE 48)
             IN IF deep THEN << <<0, SubSeq(ks, 1, 48)>>, <<250, SubSeq(ks, 251, 271)>>, <<506, SubSeq(ks, 507, 527)>> >>
                ELSE << <<0, ks>> >>

(* ---------------- CMAC: RFC 4493 section 4 ---------------- *)
RFCKey == CMACHex("2b7e151628aed2a6abf7158809cf4f3c")
RFCMsg == CMACHex("6bc1bee22e409f96e93d7e117393172a" \o "ae2d8a571e03ac9c9eb76fac45af8e51"
                  \o "30c81c46a35ce411e5fbc1191a0a52ef" \o "f69f2445df4f9b17ad2b417be66c3710")
RFCTags == << <<0, "bb1d6929e95937287fa37d129b756746">>, <<16, "070a16b46b4d4144f79bdd9dd04a287c">>,
              <<40, "dfa66747de9ae63030ca32611497c827">>, <<64, "51f0bebf7e3b9d92fc49741779363cfe">> >>

(* ---------------- PKCS#7 ---------------- *)
PadLens(b) == {0, 1, 2, 3, b - 1, b, b + 1, 2 * b - 1, 2 * b, 2 * b + 1}
(* contents: a pattern; a message whose own tail looks like padding; all-zero *)
PadMsgs(b, n) == { [i \in 1..n |-> (i * 29 + b + Seed) % 256],
                   [i \in 1..n |-> IF i > n - (n % 7) THEN n % 7 ELSE b % 256],
                   Zeros(n) }
UnpadAlphabet == {0, 1, 2, 3, 5, 255}
UnpadSmall == UNION { [1..n -> UnpadAlphabet] : n \in 0..UnpadLen }
UnpadLong == { Rep(255, 255), Rep(255, 254), Rep(255, 256), Rep(255, 300), Zeros(255) \o <<1>>, Zeros(300),
               Rep(7, 254) \o <<255>>, Rep(16, 16), Rep(16, 15), Rep(16, 17), Zeros(16) \o Rep(16, 16),
               Zeros(15) \o <<17>>, Rep(200, 200), Rep(200, 199), <<1, 200>> \o Rep(200, 199) \o <<199>>,
               Pattern(Seed, 64) \o Rep(64, 64), Pattern(Seed, 64) \o Rep(64, 63), Pattern(Seed, 300) \o <<0>>,
               Rep(3, 253) \o <<2, 3, 3>>, Rep(3, 253) \o <<3, 2, 3>> }
UnpadCase(buf) ==
    LET v == IF Len(buf) <= 255 THEN PKCS7IsPadded(buf) ELSE PKCS7WellFormed(buf)
    IN [k |-> "unpad", buf |-> buf, valid |-> v, m |-> IF v THEN PKCS7Unpad(buf) ELSE <<>>,
        agree |-> (Len(buf) > 255 \/ (v <=> PKCS7WellFormed(buf)))]

(* ---------------- GPP ---------------- *)
Alphabet == { 97, 90, 48, 32, 233, 201, 1046, 1078, 8364, 65535, 65536, 128512, 1114111, 0 }
GppPws == SeqsUpTo(Alphabet, PwLen)
       \cup { [i \in 1..n |-> 97 + (i % 26)] : n \in {3, 7, 8, 9, 15, 16, 17, 23, 24, 40} }      \* 7/8 chars: 14/16 bytes, the pad boundary
       \cup { [i \in 1..n |-> IF i % 3 = 0 THEN 128512 ELSE 1046] : n \in {4, 5, 6, 9, 20} }
       \cup { <<80, 111, 100, 97, 108, 105, 114, 105, 117, 115>> }
GppKatPw == <<76, 111, 99, 97, 108, 42, 80, 52, 115, 115, 119, 111, 114, 100, 33>>                  \* the cpassword / password pair quoted in public write-ups of MS14-025
GppKatC  == <<106, 49, 85, 121, 106, 51, 86, 120, 56, 84, 89, 57, 76, 116, 76, 90, 105, 108, 50, 117, 65, 117, 90, 107, 70, 81, 65, 47, 52, 108, 97, 116, 84, 55, 54, 90, 119, 103, 100, 72, 100, 104, 119>>

Init ==
    \/ /\ "rc4" \in Kinds
       /\ \E key \in { KeyOf(n) : n \in 1..256 } \cup SpecialKeys :
            c = <<"rc4key", key>> /\ Emit([k |-> "rc4key", key |-> key, segs |-> Segs(key)])
    \/ /\ "rc4" \in Kinds
       /\ \E n \in {0, 257, 300} :
            c = <<"rc4bad", n>> /\ Emit([k |-> "rc4bad", key |-> Rep(7, n)])
    \/ /\ "rc4" \in Kinds
       /\ c = <<"rc4blank">> /\ Emit([k |-> "rc4blank", ks |-> RC4Gen(RC4Blank, 40)[2]])
    \/ /\ "cmac" \in Kinds
       /\ \E t \in 1..4 :
            c = <<"cmackat", t>> /\ Emit([k |-> "cmackat", key |-> RFCKey, m |-> SubSeq(RFCMsg, 1, RFCTags[t][1]),
                                          tag |-> CMACHex(RFCTags[t][2])])
    \/ /\ "pad" \in Kinds
       /\ \E b \in 1..255 : \E n \in PadLens(b) : \E m \in PadMsgs(b, n) :
            c = <<"pad", b, m>> /\ Emit([k |-> "pad", b |-> b, m |-> m, padded |-> PKCS7Pad(m, b)])
    \/ /\ "pad" \in Kinds
       /\ c = <<"pad0">> /\ Emit([k |-> "pad0", b |-> 0, m |-> <<1, 2, 3>>])
    \/ /\ "unpad" \in Kinds
       /\ \E buf \in UnpadSmall \cup UnpadLong :
            c = <<"unpad", buf>> /\ Emit(UnpadCase(buf))
    \/ /\ "gpp" \in Kinds
       /\ \E pw \in GppPws :
            c = <<"gpp", pw>> /\ Emit([k |-> "gpp", pw |-> pw, key |-> GPPKey, iv |-> GPPIV, plain |-> GPPPlainBlocks(pw), cp |-> <<>>])
    \/ /\ "gpp" \in Kinds
       /\ c = <<"gppkat">> /\ Emit([k |-> "gpp", pw |-> GppKatPw, key |-> GPPKey, iv |-> GPPIV,
                                     plain |-> GPPPlainBlocks(GppKatPw), cp |-> GppKatC])
Next == FALSE /\ UNCHANGED c
=============================================================================
