----------------------------- MODULE SMBBlocks -----------------------------
(***************************************************************************)
(* Parameter and data blocks of an SMB1 message, MS-CIFS 2.2.3.2/2.2.3.3:  *)
(*   SMB_Parameters { UCHAR WordCount; USHORT Words[WordCount]; }          *)
(*   SMB_Data       { USHORT ByteCount; UCHAR Bytes[ByteCount]; }          *)
(* The counts equal the lengths actually present, so a message built from  *)
(* a 32-byte header and one command occupies 32 + 1 + 2*wc + 2 + bc bytes. *)
(* Words are handled as the byte string they occupy (2*wc bytes).          *)
(***************************************************************************)
EXTENDS Integers, Sequences, Bytes

MaxWords == 255
MaxBytes == 65535
BlocksOK(words, bytes) == Len(words) % 2 = 0 /\ Len(words) \div 2 <= MaxWords /\ Len(bytes) <= MaxBytes
Frame(words, bytes) == <<Len(words) \div 2>> \o words \o LE(Len(bytes), 2) \o bytes
FrameLen(wc, bc) == 1 + 2 * wc + 2 + bc
MessageLen(wc, bc) == 32 + FrameLen(wc, bc)

(* parse the blocks at the front of b: [ok, words, bytes, n]; bytes beyond n are not part of the command *)
ParseBlocks(b) ==
    IF Len(b) < 1 THEN [ok |-> FALSE]
    ELSE LET wc == b[1] IN
         IF Len(b) < 1 + 2 * wc + 2 THEN [ok |-> FALSE]
         ELSE LET bc == UnLE16(SubSeq(b, 2 + 2 * wc, 3 + 2 * wc)) IN
              IF Len(b) < FrameLen(wc, bc) THEN [ok |-> FALSE]
              ELSE [ok |-> TRUE, words |-> SubSeq(b, 2, 1 + 2 * wc), bytes |-> SubSeq(b, 4 + 2 * wc, 3 + 2 * wc + bc),
                    n |-> FrameLen(wc, bc)]
(* b is exactly one framed command (nothing missing, nothing left over) *)
Framed(b) == LET p == ParseBlocks(b) IN p.ok /\ p.n = Len(b)

(* k copies of a block pair: what a Marshal that appends to surviving accumulators emits the k-th time *)
RECURSIVE Copies(_, _)
Copies(s, k) == IF k = 0 THEN <<>> ELSE s \o Copies(s, k - 1)

ASSUME Frame(<<>>, <<>>) = <<0, 0, 0>> /\ Framed(<<0, 0, 0>>) /\ ~Framed(<<0, 0, 0, 0>>) /\ ~Framed(<<0, 0>>)
ASSUME Frame(<<1, 2, 3, 4>>, <<9>>) = <<2, 1, 2, 3, 4, 1, 0, 9>>
ASSUME ParseBlocks(<<2, 1, 2, 3, 4, 1, 0, 9, 77>>) = [ok |-> TRUE, words |-> <<1, 2, 3, 4>>, bytes |-> <<9>>, n |-> 8]
ASSUME ~ParseBlocks(<<2, 1, 2, 3, 4, 2, 0, 9>>).ok /\ ~ParseBlocks(<<1, 1>>).ok
ASSUME MessageLen(255, 65535) = 66080 /\ Len(Frame(Zeros(510), Zeros(300))) = FrameLen(255, 300)
=============================================================================
