------------------------------ MODULE TraceSMB ------------------------------
(***************************************************************************)
(* Trace validation (code -> model) for the SMB1 command structures.       *)
(* Each line of trace.ndjson is one execution recorded from the real code: *)
(*   {op:"codec", s:<structure>, vals:{<path>:numeral}, err, wire,         *)
(*    decerr, dec:{<path>:numeral}}                                        *)
(* a fresh structure got the "distinct" assignment with the listed free    *)
(* integers replaced by random full-range values; Marshal produced wire;   *)
(* Unmarshal of wire into a fresh structure produced dec.                  *)
(* TLC recomputes the reference encoding for exactly these values and      *)
(* JUDGES every event (a verdict line per event, PrintT); the trace is     *)
(* accepted when every line has been consumed.  Judging instead of         *)
(* rejecting at the first deviation keeps the other 113 structures under   *)
(* observation while known defects are open.                               *)
(*   Mode "cifs" (C05): wire against EncodeCmd, slot by slot               *)
(*   Mode "decl" (C04): dec = vals path by path, and the encoded length    *)
(***************************************************************************)
EXTENDS SMBCommands, TLCExt

VARIABLE l
TraceLog == ndJsonDeserialize("trace.ndjson")
ev == TraceLog[l]

SchemaOf(name) == Schemas[CHOOSE k \in 1..Len(Schemas) : Schemas[k].name = name]
TracePat(e) == [name |-> "trace", f |-> 0, L |-> 0, vals |-> e.vals]

Slice(w, off, n) == IF off + n <= Len(w) THEN SubSeq(w, off + 1, off + n) ELSE <<>>
(* the slot as it would look if exactly those multi-byte integer atoms that the wire shows byte-reversed were reversed *)
Swapped(w, fr) == [j \in 1..fr.len |->
                  LET pos == fr.off + j - 1
                      cover == {k \in 1..Len(fr.atoms) : fr.atoms[k].off <= pos /\ pos < fr.atoms[k].off + fr.atoms[k].w
                                                         /\ fr.atoms[k].w > 1 /\ fr.atoms[k].enc # "const"
                                                         /\ Slice(w, fr.atoms[k].off, fr.atoms[k].w) = ReverseSeq(fr.atoms[k].bytes)}
                  IN IF cover = {} THEN fr.wire[j]
                     ELSE LET a == fr.atoms[CHOOSE k \in cover : TRUE] IN a.bytes[a.w - (pos - a.off)]]

CifsVerdicts(e, enc) ==
    IF e.err THEN {<<"", "marshal-error@trace">>}
    ELSE (IF Len(e.wire) # Len(enc.wire) THEN {<<"", "length">>} ELSE {})
         \cup (IF Slice(e.wire, 0, 1) # <<enc.wc>> THEN {<<"", "layout:WordCount">>} ELSE {})
         \cup { <<enc.fields[k].name,
                  IF Slice(e.wire, enc.fields[k].off, enc.fields[k].len) = Swapped(e.wire, enc.fields[k]) THEN "byteorder" ELSE "layout">> :
                k \in {k \in 1..Len(enc.fields) : /\ enc.fields[k].len > 0
                                                   /\ ~enc.fields[k].unbindable
                                                   /\ Slice(e.wire, enc.fields[k].off, enc.fields[k].len) # enc.fields[k].wire} }

FieldOfKey(enc, key) == LET ks == {k \in 1..Len(enc.fields) : \E m \in 1..Len(enc.fields[k].sets) : JoinPath(enc.fields[k].sets[m].p) = key}
                        IN enc.fields[CHOOSE k \in ks : TRUE].name
DeclVerdicts(e, enc) ==
    IF e.err THEN {<<"", "marshal-error@trace">>}
    ELSE IF e.decerr THEN {<<"", "unmarshal-error@trace">>}
    ELSE (IF enc.lendef /\ enc.wf /\ Len(e.wire) # Len(enc.wire) THEN {<<"", "length">>} ELSE {})
         \cup { <<FieldOfKey(enc, key), "roundtrip">> : key \in {key \in DOMAIN e.vals : key \notin DOMAIN e.dec \/ e.dec[key] # e.vals[key]} }

Verdicts(e) == LET enc0 == EncodeCmd(SchemaOf(e.s), TracePat(e))
                   \* a zero optional field may legally be left out: judge against the encoding of the length the code chose
                   enc == IF HasAlt(enc0) /\ ~e.err /\ Len(e.wire) = Len(AltEncoding(enc0).wire) THEN AltEncoding(enc0) ELSE enc0
               IN IF ~enc.wf THEN {} ELSE IF Mode = "cifs" THEN CifsVerdicts(e, enc) ELSE DeclVerdicts(e, enc)

RECURSIVE SetSeq(_)
SetSeq(S) == IF S = {} THEN <<>> ELSE LET x == CHOOSE x \in S : TRUE IN <<x>> \o SetSeq(S \ {x})

Init == l = 1
Step == /\ l <= Len(TraceLog)
        /\ ev.op = "codec"
        /\ LET vs == Verdicts(ev)
           IN PrintT(ToJson([l |-> l, s |-> ev.s, n |-> Cardinality(vs), bad |-> SetSeq(vs)]))
        /\ l' = l + 1
TraceSpec == Init /\ [][Step]_l
TraceAccepted == TLCGet("stats").diameter - 1 = Len(TraceLog)
=============================================================================
