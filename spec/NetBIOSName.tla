---------------------------- MODULE NetBIOSName ----------------------------
(***************************************************************************)
(* NetBIOS names and their FIRST LEVEL ENCODING, from RFC 1001 section 14  *)
(* (and 5.2 / 14.1 for the name itself):                                   *)
(*                                                                         *)
(*   A NetBIOS name is 16 octets; shorter names are padded with spaces     *)
(*   (0x20).  "Each half-octet of the NetBIOS name is encoded into one     *)
(*   byte of the 32 byte field.  The first half octet is encoded into the  *)
(*   first byte, the second half-octet into the second byte, etc.  Each    *)
(*   4-bit, half-octet of the NetBIOS name is treated as an 8-bit, right-  *)
(*   adjusted, zero-filled binary number.  This number is added to value   *)
(*   of the ASCII character 'A' (hexidecimal 41)."                         *)
(*   The result is the first label of a domain name whose remaining labels *)
(*   are the NetBIOS scope identifier: <32 chars>.<NETBIOS_SCOPE_ID>.      *)
(*                                                                         *)
(* Abstract name: [nb |-> 0..16 octets, sc |-> sequence of scope labels].  *)
(* Two names are the same NetBIOS name iff their 16-octet padded forms and *)
(* their scopes are equal (trailing spaces are padding).                   *)
(***************************************************************************)
EXTENDS Integers, Sequences, Bytes

NBPad(nb) == nb \o Rep(32, 16 - Len(nb))
RECURSIVE NBTrim(_)
NBTrim(s) == IF s # <<>> /\ s[Len(s)] = 32 THEN NBTrim(SubSeq(s, 1, Len(s) - 1)) ELSE s

(* 32 half-ASCII octets of a 16-octet name *)
NBHalfAscii(p) == [i \in 1..32 |-> 65 + (IF i % 2 = 1 THEN p[(i + 1) \div 2] \div 16 ELSE p[i \div 2] % 16)]
(* the first-level encoded name as a domain name (label sequence) and as dotted text *)
NBFirstLevel(n) == <<NBHalfAscii(NBPad(n.nb))>> \o n.sc
RECURSIVE NBDotted(_)
NBDotted(ls) == IF ls = <<>> THEN <<>> ELSE IF Len(ls) = 1 THEN ls[1] ELSE ls[1] \o <<46>> \o NBDotted(Tail(ls))
NBFirstLevelText(n) == NBDotted(NBFirstLevel(n))

(* inverse *)
NBHalfOK(l) == Len(l) = 32 /\ \A i \in 1..32 : l[i] >= 65 /\ l[i] <= 80
NBUnHalf(l) == [i \in 1..16 |-> (l[2 * i - 1] - 65) * 16 + (l[2 * i] - 65)]
NBNoName == [nb |-> <<>>, sc |-> <<>>]
NBFromFirstLevel(ls) ==
    IF ls = <<>> \/ ~NBHalfOK(ls[1]) THEN [ok |-> FALSE, n |-> NBNoName]
    ELSE [ok |-> TRUE, n |-> [nb |-> NBTrim(NBUnHalf(ls[1])), sc |-> Tail(ls)]]
(* split dotted text at '.' *)
RECURSIVE NBSplit(_, _, _)
NBSplit(s, i, cur) == IF i > Len(s) THEN <<cur>>
                      ELSE IF s[i] = 46 THEN <<cur>> \o NBSplit(s, i + 1, <<>>)
                      ELSE NBSplit(s, i + 1, Append(cur, s[i]))
NBFromText(t) == NBFromFirstLevel(NBSplit(t, 1, <<>>))

NBSame(a, b) == NBPad(a.nb) = NBPad(b.nb) /\ a.sc = b.sc

(* scope identifiers: domain-name labels in the preferred syntax of RFC 883 / RFC 1035 2.3.1 *)
NBLetter(c) == (c >= 65 /\ c <= 90) \/ (c >= 97 /\ c <= 122)
NBDigit(c) == c >= 48 /\ c <= 57
NBScopeLabelOK(l) == /\ Len(l) >= 1 /\ Len(l) <= 63
                     /\ NBLetter(l[1]) /\ (NBLetter(l[Len(l)]) \/ NBDigit(l[Len(l)]))
                     /\ \A i \in 1..Len(l) : NBLetter(l[i]) \/ NBDigit(l[i]) \/ l[i] = 45
RECURSIVE NBScopeWire(_)
NBScopeWire(sc) == IF sc = <<>> THEN 0 ELSE 1 + Len(Head(sc)) + NBScopeWire(Tail(sc))
NBNameOK(n) == /\ Len(n.nb) <= 16 /\ \A i \in 1..Len(n.nb) : n.nb[i] \in Byte
               /\ \A i \in 1..Len(n.sc) : NBScopeLabelOK(n.sc[i])
               /\ 33 + NBScopeWire(n.sc) + 1 <= 255

(* ---- known answer: RFC 1001 14.1, "FRED" in scope NETBIOS.COM ---- *)
NBkFRED == <<70, 82, 69, 68>>
NBkScope == << <<78, 69, 84, 66, 73, 79, 83>>, <<67, 79, 77>> >>
NBkHalf == <<69, 71, 70, 67, 69, 70, 69, 69>> \o [i \in 1..24 |-> IF i % 2 = 1 THEN 67 ELSE 65]    \* EGFCEFEE CACACA...
ASSUME NBKnownAnswers ==
    /\ NBHalfAscii(NBPad(NBkFRED)) = NBkHalf
    /\ NBFirstLevelText([nb |-> NBkFRED, sc |-> NBkScope]) = NBkHalf \o <<46, 78, 69, 84, 66, 73, 79, 83, 46, 67, 79, 77>>
    /\ NBFirstLevelText([nb |-> NBkFRED, sc |-> <<>>]) = NBkHalf
    /\ NBFromText(NBkHalf \o <<46, 78, 69, 84, 66, 73, 79, 83, 46, 67, 79, 77>>) = [ok |-> TRUE, n |-> [nb |-> NBkFRED, sc |-> NBkScope]]
    /\ NBHalfAscii(Rep(255, 16)) = Rep(80, 32) /\ NBHalfAscii(Zeros(16)) = Rep(65, 32)
    /\ NBUnHalf(NBHalfAscii([i \in 1..16 |-> i * 15])) = [i \in 1..16 |-> i * 15]
    /\ ~NBFromText(Rep(81, 32)).ok /\ ~NBFromText(Rep(65, 31)).ok
    /\ NBSame([nb |-> <<65, 32>>, sc |-> <<>>], [nb |-> <<65>>, sc |-> <<>>])
    /\ NBScopeLabelOK(<<97, 45, 49>>) /\ ~NBScopeLabelOK(<<45, 97>>) /\ ~NBScopeLabelOK(<<97, 46>>)
=============================================================================
