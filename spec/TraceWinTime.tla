---------------------------- MODULE TraceWinTime ----------------------------
(***************************************************************************)
(* Trace validation (code -> model) for C15.  trace.ndjson holds one line  *)
(* per call the recorder made on the real conversion functions with random *)
(* 64-bit inputs (uniform, every bit length, near every boundary): the     *)
(* argument(s) and the returned value, numbers as decimal text.  TLC       *)
(* recomputes every result with WinTime.tla in arbitrary precision and     *)
(* prints a verdict (site, aspect, P/D) for each line the specification    *)
(* does not allow; every line is judged (functions are pure: the only      *)
(* state is the position).  The aspect names the input region, exactly as  *)
(* the replay driver does.                                                 *)
(***************************************************************************)
EXTENDS WinTime, TLC, TLCExt, Json

VARIABLE l
TraceLog == ndJsonDeserialize("trace.ndjson")
ev == TraceLog[l]

Bad(site, aspect, drift) == PrintT(ToJson([bad |-> l, site |-> site, aspect |-> aspect, drift |-> drift]))
Judge(js) == \A j \in 1..Len(js) : IF js[j][1] THEN TRUE ELSE Bad(js[j][2], js[j][3], js[j][4])

D2p60 == DPow2(60)
RegAspect(x, E) == IF WtTicksInNsWindow(x, E) THEN "value:int64ns-window"
                   ELSE IF DLt(x, D2p63) THEN "overflow:outside-int64ns-window" ELSE "overflow:ticks>=2^63"
WinAspect(tm) == IF WtTimeInNsWindow(tm) THEN "value:int64ns-window" ELSE "overflow:outside-int64ns-window"
LdapAspect(z) == IF ZLt(z, ZNat(WtE1601)) THEN "value:before-1970"
                 ELSE IF WtTicksInNsWindow(z.mag, WtE1601) THEN "value:int64ns-window" ELSE "overflow:outside-int64ns-window"
EvTime == WtTime(ZOfText(ev.s), ev.ns)

(* tick count -> time *)
GetTimeJs(site, pre, x, E) == << <<EvTime = WtTicksToTime(x, E), site, pre \o RegAspect(x, E), FALSE>> >>
(* time -> tick count; hi = exclusive upper limit of the P domain *)
SetTimeJs(site, E, hi) ==
    LET tm == EvTime
        want == WtTimeToTicks(tm, E)
        got == DOfText(ev.x)
    IN IF want.neg \/ ~DLt(want.mag, hi) THEN <<>>                                          \* outside the function's domain: not judged
       ELSE IF ~WtExact(tm) /\ WtTimeInNsWindow(tm) THEN << <<got = want.mag, site, "rounding:subtick", TRUE>> >>
       ELSE << <<got = want.mag, site, WinAspect(tm), FALSE>> >>

Verdict ==
    CASE ev.op = "ft.gettime"  -> Judge(GetTimeJs("data_structures.FILETIME.GetTime", "", DOfText(ev.x), WtE1601))
      [] ev.op = "ft.toint64"  -> LET x == DOfText(ev.x) IN
                                  Judge(<< <<ZOfText(ev.r) = WtI64OfU64(x), "data_structures.FILETIME.ToInt64",
                                             IF DLt(x, D2p63) THEN "value" ELSE "twos-complement", ~DLt(x, D2p63)>> >>)
      [] ev.op = "ft.fromtime" -> Judge(SetTimeJs("data_structures.NewFILETIMEFromTime", WtE1601, D2p63))
      [] ev.op = "ldap.ts2unix" -> LET z == ZOfText(ev.t) IN
                                   Judge(<< <<ZOfText(ev.r) = WtLdapToUnix(z) \/ ZOfText(ev.r) = WtLdapToUnixSigned(z),           \* clamp at 1970 (documented) or exact negative seconds
                                              "ldap.ConvertLDAPTimeStampToUnixTimeStamp", LdapAspect(z), FALSE>> >>)
      [] ev.op = "ldap.unix2ts" -> LET want == WtUnixToLdap(EvTime.s)                     \* whole-second resolution (documented) ...
                                       fine == WtTimeToTicks(EvTime, WtE1601) IN              \* ... or tick resolution: both exact
                                   Judge(IF ~ZInI64(want) \/ ~ZInI64(fine) THEN <<>>
                                         ELSE << <<ZOfText(ev.r) = want \/ ZOfText(ev.r) = fine, "ldap.ConvertUnixTimeStampToLDAPTimeStamp", "value", FALSE>> >>)
      [] ev.op = "ldap.dur2sec" -> LET z == ZOfText(ev.t) IN
                                   Judge(<< <<ZOfText(ev.r) = WtDurToSec(z), "ldap.ConvertLDAPDurationToSeconds",
                                              IF z = ZMinI64 THEN "abs:min-int64" ELSE "value", FALSE>> >>)
      [] ev.op = "ldap.sec2dur" -> LET want == WtSecToDur(ZOfText(ev.s)) IN
                                   Judge(IF ~ZInI64(want) THEN <<>>
                                         ELSE << <<ZIsNumeral(ev.t) /\ ZOfText(ev.t).mag = want.mag,                  \* the sign convention is not in the statement
                                                   "ldap.ConvertSecondsToLDAPDuration", "value", FALSE>> >>)
      [] ev.op = "dt.new"      -> Judge(GetTimeJs("utils.NewDateTime", "Time:", DOfText(ev.x), WtE1601)
                                        \o << <<DOfText(ev.ticks) = DOfText(ev.x), "utils.NewDateTime", "Ticks", FALSE>> >>)
      [] ev.op = "kc.frombin"  -> LET x == DFromBytesLE(ev.b) IN
                                  Judge(GetTimeJs("utils.ConvertFromBinaryTime", "Time:", x, WtE1601)
                                        \o << <<DOfText(ev.ticks) = x, "utils.ConvertFromBinaryTime", "Ticks", FALSE>> >>)
      [] ev.op = "kc.tobin"    -> LET want == WtTimeToTicks(EvTime, WtE1601) IN
                                  Judge(IF want.neg \/ ~DLt(want.mag, D2p63) THEN <<>>
                                        ELSE << <<ev.b = WtLE64(want.mag), "utils.ConvertToBinaryTime",
                                                  IF ev.b = ev.nano THEN "unit:unix-nanoseconds-not-ticks" ELSE "value", FALSE>> >>)
      [] ev.op = "v1.gettime"  -> Judge(GetTimeJs("uuid_v1.UUIDv1.GetTime", "", DOfText(ev.x), WtE1582))
      [] ev.op = "v2.gettime"  -> Judge(GetTimeJs("uuid_v2.UUIDv2.GetTime", "", DOfText(ev.x), WtE1582))
      [] ev.op = "v1.settime"  -> Judge(SetTimeJs("uuid_v1.UUIDv1.SetTime", WtE1582, D2p60))
      [] ev.op = "v2.settime"  -> Judge(SetTimeJs("uuid_v2.UUIDv2.SetTime", WtE1582, D2p60))
      [] OTHER -> Bad("trace", "unknown-op", FALSE) /\ FALSE

Init == l = 1
Step == l <= Len(TraceLog) /\ Verdict /\ l' = l + 1
TraceSpec == Init /\ [][Step]_l
TraceAccepted == TLCGet("stats").diameter - 1 = Len(TraceLog)
=============================================================================
