----------------------------- MODULE NBNSPacket -----------------------------
(***************************************************************************)
(* NetBIOS name service packets, from RFC 1002 section 4.2.1:              *)
(*                                                                         *)
(*  4.2.1.1 header   NAME_TRN_ID(16)  R(1) OPCODE(4) NM_FLAGS(7) RCODE(4)  *)
(*                   QDCOUNT(16) ANCOUNT(16) NSCOUNT(16) ARCOUNT(16)       *)
(*  4.2.1.2 question QUESTION_NAME  QUESTION_TYPE(16)  QUESTION_CLASS(16)  *)
(*  4.2.1.3 RR       RR_NAME  RR_TYPE(16)  RR_CLASS(16)  TTL(32)           *)
(*                   RDLENGTH(16)  RDATA                                   *)
(*  sections: question, answer, authority, additional.  Big-endian.        *)
(*                                                                         *)
(*  QUESTION_NAME / RR_NAME are "the compressed name representation of the *)
(*  NetBIOS name" (4.1, SECOND LEVEL ENCODING): the first-level encoded    *)
(*  domain name <32 half-ASCII octets>.<scope> in the label format of      *)
(*  RFC 883 -- every label prefixed by its length octet (0x20 for the      *)
(*  first), the name terminated by the zero-length root label, and label   *)
(*  string pointers (0xC0..) allowed in place of a repeated name.          *)
(*                                                                         *)
(* "The NetBIOS name service packets follow the packet structure defined   *)
(* in the Domain Name Service RFC 883": the generic section walker is the  *)
(* RFC 1035 one of LLMNRMsg (LLMNRDecode); NBNSParse1002 adds the name     *)
(* layer.  NBNSEncode is written out from the field list above.            *)
(*                                                                         *)
(* Abstract packet: [id, flags, qd : Seq([nb, sc, t, c]),                  *)
(*                   an, ns, ar : Seq([nb, sc, t, c, ttl, rd])]            *)
(***************************************************************************)
EXTENDS LLMNRMsg, NetBIOSName

NBNSU16(n) == <<n \div 256, n % 256>>
NBNSNameOf(e) == [nb |-> e.nb, sc |-> e.sc]

(* second-level encoding; the two switches describe deviations an implementation may have
   (term = FALSE: root label missing; inlabel = TRUE: ".scope" kept as dotted text inside ONE length-prefixed string) *)
NBNSNameDev(n, term, inlabel) ==
    (IF inlabel THEN <<Len(NBFirstLevelText(n))>> \o NBFirstLevelText(n)
     ELSE SubSeq(DNSEncName(NBFirstLevel(n)), 1, Len(DNSEncName(NBFirstLevel(n))) - 1))
    \o (IF term THEN <<0>> ELSE <<>>)
NBNSName2(n) == DNSEncName(NBFirstLevel(n))

NBNSHeader(p) == NBNSU16(p.id) \o NBNSU16(p.flags) \o NBNSU16(Len(p.qd)) \o NBNSU16(Len(p.an))
                 \o NBNSU16(Len(p.ns)) \o NBNSU16(Len(p.ar))
NBNSQTail(q) == NBNSU16(q.t) \o NBNSU16(q.c)
NBNSRRTail(r) == NBNSU16(r.t) \o NBNSU16(r.c) \o NBNSU16(r.ttl[1]) \o NBNSU16(r.ttl[2]) \o NBNSU16(Len(r.rd)) \o r.rd
NBNSBody(p, Name(_)) ==
       Flatten([i \in 1..Len(p.qd) |-> Name(NBNSNameOf(p.qd[i])) \o NBNSQTail(p.qd[i])])
    \o Flatten([i \in 1..Len(p.an) |-> Name(NBNSNameOf(p.an[i])) \o NBNSRRTail(p.an[i])])
    \o Flatten([i \in 1..Len(p.ns) |-> Name(NBNSNameOf(p.ns[i])) \o NBNSRRTail(p.ns[i])])
    \o Flatten([i \in 1..Len(p.ar) |-> Name(NBNSNameOf(p.ar[i])) \o NBNSRRTail(p.ar[i])])
NBNSEncode(p) == NBNSHeader(p) \o NBNSBody(p, NBNSName2)
NBNSEncodeDev(p, term, inlabel) == NBNSHeader(p) \o NBNSBody(p, LAMBDA n : NBNSNameDev(n, term, inlabel))

(* the same packet as a generic RFC 883/1035 message, and back *)
NBNSAsMsg(p) ==
    [id |-> p.id, flags |-> p.flags,
     qd |-> [i \in 1..Len(p.qd) |-> [n |-> NBFirstLevel(NBNSNameOf(p.qd[i])), t |-> p.qd[i].t, c |-> p.qd[i].c]],
     an |-> [i \in 1..Len(p.an) |-> [n |-> NBFirstLevel(NBNSNameOf(p.an[i])), t |-> p.an[i].t, c |-> p.an[i].c, ttl |-> p.an[i].ttl, rd |-> p.an[i].rd]],
     ns |-> [i \in 1..Len(p.ns) |-> [n |-> NBFirstLevel(NBNSNameOf(p.ns[i])), t |-> p.ns[i].t, c |-> p.ns[i].c, ttl |-> p.ns[i].ttl, rd |-> p.ns[i].rd]],
     ar |-> [i \in 1..Len(p.ar) |-> [n |-> NBFirstLevel(NBNSNameOf(p.ar[i])), t |-> p.ar[i].t, c |-> p.ar[i].c, ttl |-> p.ar[i].ttl, rd |-> p.ar[i].rd]]]
(* with label string pointers for repeated names (4.1: "name pointer") *)
NBNSEncodeC(p) == LLMNREncodeC(NBNSAsMsg(p))

NBNSNamesOK(s) == \A i \in 1..Len(s) : NBFromFirstLevel(s[i].n).ok
NBNSQs(s) == [i \in 1..Len(s) |-> LET n == NBFromFirstLevel(s[i].n).n IN [nb |-> n.nb, sc |-> n.sc, t |-> s[i].t, c |-> s[i].c]]
NBNSRRs(s) == [i \in 1..Len(s) |-> LET n == NBFromFirstLevel(s[i].n).n IN
                                   [nb |-> n.nb, sc |-> n.sc, t |-> s[i].t, c |-> s[i].c, ttl |-> s[i].ttl, rd |-> s[i].rd]]
NBNSNoPkt == [id |-> 0, flags |-> 0, qd |-> <<>>, an |-> <<>>, ns |-> <<>>, ar |-> <<>>]
(* the independent parser: [ok, at, why, p, end] *)
NBNSParse1002(data) ==
    LET d == LLMNRDecode(data)  m == d.msg IN
    IF ~d.ok THEN [ok |-> FALSE, at |-> d.at, why |-> d.why, p |-> NBNSNoPkt, end |-> d.end]
    ELSE IF ~NBNSNamesOK(m.qd) THEN [ok |-> FALSE, at |-> "Questions", why |-> "not-a-first-level-name", p |-> NBNSNoPkt, end |-> d.end]
    ELSE IF ~NBNSNamesOK(m.an) THEN [ok |-> FALSE, at |-> "Answers", why |-> "not-a-first-level-name", p |-> NBNSNoPkt, end |-> d.end]
    ELSE IF ~NBNSNamesOK(m.ns) THEN [ok |-> FALSE, at |-> "Authority", why |-> "not-a-first-level-name", p |-> NBNSNoPkt, end |-> d.end]
    ELSE IF ~NBNSNamesOK(m.ar) THEN [ok |-> FALSE, at |-> "Additional", why |-> "not-a-first-level-name", p |-> NBNSNoPkt, end |-> d.end]
    ELSE [ok |-> TRUE, at |-> "", why |-> "", end |-> d.end,
          p |-> [id |-> m.id, flags |-> m.flags, qd |-> NBNSQs(m.qd), an |-> NBNSRRs(m.an), ns |-> NBNSRRs(m.ns), ar |-> NBNSRRs(m.ar)]]

(* comparison modulo space padding of the 16-octet name *)
NBNSNormQ(s) == [i \in 1..Len(s) |-> [s[i] EXCEPT !.nb = NBPad(s[i].nb)]]
NBNSDiff(a, b) ==
    (IF a.id = b.id THEN <<>> ELSE <<"Header.TransactionID">>) \o (IF a.flags = b.flags THEN <<>> ELSE <<"Header.Flags">>)
    \o (IF NBNSNormQ(a.qd) = NBNSNormQ(b.qd) THEN <<>> ELSE <<"Questions">>) \o (IF NBNSNormQ(a.an) = NBNSNormQ(b.an) THEN <<>> ELSE <<"Answers">>)
    \o (IF NBNSNormQ(a.ns) = NBNSNormQ(b.ns) THEN <<>> ELSE <<"Authority">>) \o (IF NBNSNormQ(a.ar) = NBNSNormQ(b.ar) THEN <<>> ELSE <<"Additional">>)
NBNSSecHasScope(s) == \E i \in 1..Len(s) : s[i].sc # <<>>
NBNSHasScope(p) == NBNSSecHasScope(p.qd) \/ NBNSSecHasScope(p.an) \/ NBNSSecHasScope(p.ns) \/ NBNSSecHasScope(p.ar)

(* ---- known answers: RFC 1002 4.2.12 NAME QUERY REQUEST for "FRED", broadcast, recursion desired;
        4.2.13-style positive response whose RR_NAME is a pointer to the question name ---- *)
NBNSkQ == [id |-> 4660, flags |-> 272, qd |-> <<[nb |-> NBkFRED, sc |-> <<>>, t |-> 32, c |-> 1]>>, an |-> <<>>, ns |-> <<>>, ar |-> <<>>]
NBNSkQWire == <<18, 52, 1, 16, 0, 1, 0, 0, 0, 0, 0, 0, 32>> \o NBkHalf \o <<0, 0, 32, 0, 1>>
NBNSkScoped == [NBNSkQ EXCEPT !.qd = <<[nb |-> NBkFRED, sc |-> NBkScope, t |-> 32, c |-> 1]>>]
NBNSkScopedWire == <<18, 52, 1, 16, 0, 1, 0, 0, 0, 0, 0, 0, 32>> \o NBkHalf
                   \o <<7, 78, 69, 84, 66, 73, 79, 83, 3, 67, 79, 77, 0>> \o <<0, 32, 0, 1>>
NBNSkR == [id |-> 4660, flags |-> 34048, qd |-> NBNSkQ.qd,
           an |-> <<[nb |-> NBkFRED, sc |-> <<>>, t |-> 32, c |-> 1, ttl |-> <<4, 147>>, rd |-> <<0, 0, 192, 0, 2, 1>>]>>,
           ns |-> <<>>, ar |-> <<>>]
ASSUME NBNSKnownAnswers ==
    /\ NBNSEncode(NBNSkQ) = NBNSkQWire
    /\ NBNSEncode(NBNSkScoped) = NBNSkScopedWire
    /\ NBNSParse1002(NBNSkQWire).ok /\ NBNSParse1002(NBNSkQWire).p = NBNSkQ /\ NBNSParse1002(NBNSkQWire).end = 50
    /\ NBNSParse1002(NBNSkScopedWire).p = NBNSkScoped
    /\ LET w == NBNSEncodeC(NBNSkR) IN
         /\ SubSeq(w, 51, 52) = <<192, 12>> /\ Len(w) = 50 + 2 + 10 + 6
         /\ NBNSParse1002(w).ok /\ NBNSDiff(NBNSParse1002(w).p, NBNSkR) = <<>>
    /\ NBNSParse1002(NBNSEncode(NBNSkR)).p = NBNSkR
    (* the deviations are visible to the parser *)
    /\ ~(NBNSParse1002(NBNSEncodeDev(NBNSkQ, FALSE, FALSE)).ok /\ NBNSParse1002(NBNSEncodeDev(NBNSkQ, FALSE, FALSE)).p = NBNSkQ)
    /\ ~(NBNSParse1002(NBNSEncodeDev(NBNSkScoped, TRUE, TRUE)).ok /\ NBNSParse1002(NBNSEncodeDev(NBNSkScoped, TRUE, TRUE)).p = NBNSkScoped)
    /\ NBNSEncodeDev(NBNSkScoped, TRUE, FALSE) = NBNSkScopedWire
=============================================================================
