------------------------ MODULE TraceSchemaTables ------------------------
(***************************************************************************)
(* Code -> model for growth G08: the rows of the five schema tables, as    *)
(* the COMPILED package holds them (package-level maps read by the         *)
(* harness, keys in sorted order), walked through SchemaTables.  Every     *)
(* judgment of SchemaTables is evaluated at its row (or at "end" for the   *)
(* judgments about whole relations) and, when it does not hold, TLC prints *)
(* one verdict record -- so every offending row is reported, not only the  *)
(* first.  The trace is accepted when every line was consumed.             *)
(*   row   t k v cp      table t maps k to v; cp = code points of the GUID *)
(*                       text of the row (the value for attr / pset, the   *)
(*                       key otherwise)                                    *)
(*   end   n             end of the tables, n rows were written            *)
(* Everything here is drift (not one of the listed properties).            *)
(***************************************************************************)
EXTENDS SchemaTables, TLCExt, Json

VARIABLE l
TraceLog == ndJsonDeserialize("trace.ndjson")
ev == TraceLog[l]
tvars == <<attr, attrinv, pset, psetinv, member, done, l>>

TraceInit == StInit /\ l = 1

V(inv) == {[inv |-> inv]}
RowVerdicts(e) ==
    (IF StGuidForm(e.cp) THEN {} ELSE V("GuidForm"))
    \cup CASE e.t = "attr"    -> (IF FreshKey(attr, e.k) THEN {} ELSE V("FreshKey")) \cup (IF Injective(attr, e.v) THEN {} ELSE V("Injective"))
           [] e.t = "pset"    -> (IF FreshKey(pset, e.k) THEN {} ELSE V("FreshKey")) \cup (IF Injective(pset, e.v) THEN {} ELSE V("Injective"))
           [] e.t = "attrinv" -> (IF FreshKey(attrinv, e.k) THEN {} ELSE V("FreshKey")) \cup (IF InverseOf(attr, e.k, e.v) THEN {} ELSE V("InverseOf"))
           [] e.t = "psetinv" -> (IF FreshKey(psetinv, e.k) THEN {} ELSE V("FreshKey")) \cup (IF InverseOf(pset, e.k, e.v) THEN {} ELSE V("InverseOf"))
           [] e.t = "member"  -> (IF KnownMember(e.v) THEN {} ELSE V("KnownMember"))
                                 \cup (IF InNoOtherSet(e.k, e.v) THEN {} ELSE V("InNoOtherSet"))
                                 \cup (IF ListedOnce(e.k, e.v) THEN {} ELSE V("ListedOnce"))
           [] OTHER -> {}
Report(t, k, v, vs) == \A x \in vs : PrintT(ToJson([op |-> "verdict", t |-> t, k |-> k, v |-> v, inv |-> x.inv]))
EndReport ==
    /\ \A k \in MissingInverse(attr, attrinv) : PrintT(ToJson([op |-> "verdict", t |-> "attr", k |-> k, v |-> attr[k], inv |-> "HasInverse"]))
    /\ \A k \in MissingInverse(pset, psetinv) : PrintT(ToJson([op |-> "verdict", t |-> "pset", k |-> k, v |-> pset[k], inv |-> "HasInverse"]))

TraceStep ==
    /\ l <= Len(TraceLog)
    /\ l' = l + 1
    /\ CASE ev.op = "row" -> Report(ev.t, ev.k, ev.v, RowVerdicts(ev)) /\ Row(ev.t, ev.k, ev.v)
         [] ev.op = "end" -> /\ ev.n = l - 1
                             /\ EndReport
                             /\ End
         [] OTHER -> FALSE

TraceSpec == TraceInit /\ [][TraceStep]_tvars
TraceAccepted == TLCGet("stats").diameter - 1 = Len(TraceLog)
=============================================================================
