--------------------------- MODULE ValueSemantics ---------------------------
(***************************************************************************)
(* What "for every input" means for an API whose arguments and results are *)
(* byte buffers (every codec, hash and parser of the library): a call's    *)
(* result is a VALUE.  It depends on the CONTENT of the arguments at the   *)
(* time of the call -- not on where they are stored, not on what was       *)
(* computed before -- and it keeps reading the same after later calls and  *)
(* after the caller reuses its own buffers.  Every property C01..C20 that  *)
(* says "encoding x yields ..." / "decoding b yields ..." quantifies over  *)
(* calls made in ANY history, so each of them implies this module's        *)
(* invariants for its functions.                                           *)
(*                                                                         *)
(* The module is a small heap model: buffers have an identity (address)    *)
(* and a content; the caller owns input buffers and may overwrite them     *)
(* between calls; the library owns whatever it allocates.  One action per  *)
(* kind of step:                                                           *)
(*    Encode(x)        the library hands out a buffer holding Enc(x)       *)
(*    Decode(b)        the library hands out a value decoded from buffer b *)
(*    Overwrite(b, v)  the caller reuses its buffer b for other content    *)
(*    Mutate(r)        (deviation only) the caller appends behind/into ... *)
(* Named deviations = the implementation shortcuts that break it, each one *)
(* refuted by TLC with a shortest counterexample; those counterexamples    *)
(* are the histories the harness replays on the real code for every case   *)
(* of every case table:                                                    *)
(*    PooledOutput    Encode writes into one library-owned scratch buffer  *)
(*                    and hands that out   -> h.Ctx.Retain (a result is    *)
(*                    re-read after later calls)                           *)
(*    AliasInput      Decode's result refers to the input buffer           *)
(*                    -> "decoded-message-references-input" (the input is  *)
(*                    overwritten after the call, the result re-read)      *)
(*    CacheByAddress  Decode remembers (address -> value) of its last call *)
(*                    -> h.Ctx.ReusedInput / arena pass (the previous      *)
(*                    input and the current one delivered in ONE buffer)   *)
(*    KeepState       Decode's result depends on the previous call         *)
(*                    -> reverse-order pass, h.Pairwise, reused receivers  *)
(*    SharedScratch   an encoder assembles its result in ONE package-level *)
(*                    area (CBegin) and copies it out (CEnd): two          *)
(*                    goroutines in the call at the same time read each    *)
(*                    other's bytes -> par.pure / vlib.parallel_callers    *)
(*                    (8 goroutines, race-detector build, results compared *)
(*                    with the sequential reference)                       *)
(* Objects come into it as well (seed round 16): a RECEIVER decodes into   *)
(* storage it owns and the caller may keep what it decoded BY VALUE        *)
(* (`saved := rx` copies the struct, its slices still point where they     *)
(* pointed); a STATE (a hash in progress) may be forked by value copy and  *)
(* both lineages continue.                                                 *)
(*    DecodeInto(o, b) receiver o decodes buffer b into FRESH storage      *)
(*    Keep(o)          the caller keeps o's current value by value         *)
(*    NewState / Update / Fork   a state is created, updated in place by   *)
(*                     its owner, forked into a second object              *)
(*    ReuseReceiverStorage  DecodeInto recycles the receiver's storage     *)
(*                    (`x.f = append(x.f[:0], ...)`)  -> long-lived        *)
(*                    receivers whose results are kept by value            *)
(*    ForkSharesBuffer     the state holds its block in a slice, a value   *)
(*                    copy shares it -> forks of an MD4 value              *)
(***************************************************************************)
EXTENDS Naturals, FiniteSets, TLC

CONSTANTS Vals,            \* abstract contents / values (Enc and Dec are the identity on them: only identity of storage matters)
          NBuf,            \* caller-owned buffers 1..NBuf; library-owned buffers are NBuf+1 .. NBuf+MaxAlloc
          MaxAlloc,        \* bound on library allocations
          PooledOutput, AliasInput, CacheByAddress, KeepState, SharedScratch,   \* deviations (all FALSE = the specification)
          ReuseReceiverStorage, ForkSharesBuffer

VARIABLES heap,      \* buffer id -> content
          nalloc,    \* library allocations so far
          results,   \* handed-out results: [kind, ref, val]: ref = 0 (a copy) or the buffer the result reads from; val = what it read when handed out
          cache,     \* CacheByAddress: <<buffer id, value>> of the last Decode, or <<0, 0>>
          last,      \* KeepState: value of the previous Decode (or 0)
          pc,        \* goroutine -> the value it is encoding right now (None = not inside a call)
          area,      \* goroutine -> content of the assembly area it uses (SharedScratch: both use area[1])
          stor,      \* object -> the library buffer its slice fields point to (0 = none yet)
          want       \* state object -> the content its own lineage wrote last
vars == <<heap, nalloc, results, cache, last, pc, area, stor, want>>
Recv == {"r"}
State == {"s1", "s2"}
Gor == {1, 2}

Caller == 1..NBuf
Scratch == NBuf + 1
None == "none"
ASSUME None \notin Vals

Init == /\ heap \in [1..(NBuf + 1 + MaxAlloc) -> {CHOOSE v \in Vals : TRUE}]
        /\ nalloc = 0 /\ results = {} /\ cache = <<0, None>> /\ last = None
        /\ pc = [g \in Gor |-> None] /\ area = [g \in Gor |-> None]
        /\ stor = [o \in Recv \cup State |-> 0] /\ want = [o \in State |-> None]

(* what a handed-out result reads NOW *)
Reads(r) == IF r.ref = 0 THEN r.val ELSE heap[r.ref]
ResultsAreValues == \A r \in results : Reads(r) = r.val

Encode(x) ==
    /\ IF PooledOutput
         THEN /\ heap' = [heap EXCEPT ![Scratch] = x]
              /\ results' = results \cup {[kind |-> "enc", ref |-> Scratch, val |-> x]}
              /\ UNCHANGED nalloc
         ELSE /\ nalloc < MaxAlloc
              /\ heap' = [heap EXCEPT ![Scratch + 1 + nalloc] = x]
              /\ results' = results \cup {[kind |-> "enc", ref |-> Scratch + 1 + nalloc, val |-> x]}
              /\ nalloc' = nalloc + 1
    /\ UNCHANGED <<cache, last, pc, area, stor, want>>

Decode(b) ==
    LET content == heap[b]
        v == IF CacheByAddress /\ cache[1] = b THEN cache[2]
             ELSE IF KeepState /\ last # None THEN last
             ELSE content
    IN /\ results' = results \cup {[kind |-> "dec", ref |-> IF AliasInput THEN b ELSE 0, val |-> v, want |-> content]}
       /\ cache' = IF CacheByAddress /\ cache[1] # b THEN <<b, content>> ELSE cache
       /\ last' = content
       /\ UNCHANGED <<heap, nalloc, pc, area, stor, want>>

Overwrite(b, v) == /\ heap' = [heap EXCEPT ![b] = v] /\ UNCHANGED <<nalloc, results, cache, last, pc, area, stor, want>>

(* an encoder seen as two steps by two goroutines: assemble, then copy out *)
AreaOf(g) == IF SharedScratch THEN 1 ELSE g
CBegin(g, x) == /\ pc[g] = None /\ pc' = [pc EXCEPT ![g] = x] /\ area' = [area EXCEPT ![AreaOf(g)] = x]
                /\ UNCHANGED <<heap, nalloc, results, cache, last, stor, want>>
CEnd(g) == /\ pc[g] # None
           /\ results' = results \cup {[kind |-> "cenc", ref |-> 0, val |-> area[AreaOf(g)], want |-> pc[g]]}
           /\ pc' = [pc EXCEPT ![g] = None]
           /\ UNCHANGED <<heap, nalloc, cache, last, area, stor, want>>

(* objects *)
Fresh == Scratch + 1 + nalloc
DecodeInto(o, b) ==
    /\ IF ReuseReceiverStorage /\ stor[o] # 0
         THEN heap' = [heap EXCEPT ![stor[o]] = heap[b]] /\ UNCHANGED <<stor, nalloc>>
         ELSE /\ nalloc < MaxAlloc
              /\ heap' = [heap EXCEPT ![Fresh] = heap[b]] /\ stor' = [stor EXCEPT ![o] = Fresh] /\ nalloc' = nalloc + 1
    /\ UNCHANGED <<results, cache, last, pc, area, want>>
Keep(o) == /\ stor[o] # 0
           /\ results' = results \cup {[kind |-> "kept", ref |-> stor[o], val |-> heap[stor[o]]]}
           /\ UNCHANGED <<heap, nalloc, cache, last, pc, area, stor, want>>
NewState(s, v) == /\ stor[s] = 0 /\ s = "s1" /\ nalloc < MaxAlloc
                  /\ heap' = [heap EXCEPT ![Fresh] = v] /\ stor' = [stor EXCEPT ![s] = Fresh] /\ nalloc' = nalloc + 1
                  /\ want' = [want EXCEPT ![s] = v]
                  /\ UNCHANGED <<results, cache, last, pc, area>>
Update(s, v) == /\ stor[s] # 0
                /\ heap' = [heap EXCEPT ![stor[s]] = v] /\ want' = [want EXCEPT ![s] = v]      \* in place: the owner may
                /\ UNCHANGED <<nalloc, results, cache, last, pc, area, stor>>
Fork(s, t) == /\ stor[s] # 0 /\ stor[t] = 0 /\ s # t
              /\ IF ForkSharesBuffer
                   THEN stor' = [stor EXCEPT ![t] = stor[s]] /\ UNCHANGED <<heap, nalloc>>
                   ELSE /\ nalloc < MaxAlloc
                        /\ heap' = [heap EXCEPT ![Fresh] = heap[stor[s]]] /\ stor' = [stor EXCEPT ![t] = Fresh] /\ nalloc' = nalloc + 1
              /\ want' = [want EXCEPT ![t] = want[s]]
              /\ UNCHANGED <<results, cache, last, pc, area>>

Next == \/ \E x \in Vals : Encode(x)
        \/ \E o \in Recv, b \in Caller : DecodeInto(o, b)
        \/ \E o \in Recv : Keep(o)
        \/ \E s \in State, v \in Vals : NewState(s, v) \/ Update(s, v)
        \/ \E s, t \in State : Fork(s, t)
        \/ \E b \in Caller : Decode(b)
        \/ \E b \in Caller, v \in Vals : Overwrite(b, v)
        \/ \E g \in Gor, x \in Vals : CBegin(g, x)
        \/ \E g \in Gor : CEnd(g)
Spec == Init /\ [][Next]_vars

(* a decoded value is the decoding of the content the buffer had at the call *)
DecodeIsAFunctionOfContent == \A r \in results : r.kind = "dec" => r.val = r.want
(* what a goroutine gets is the encoding of ITS argument, whatever the other goroutine is doing *)
ConcurrentCallsAreIsolated == \A r \in results : r.kind = "cenc" => r.val = r.want
(* every state object reads what ITS lineage wrote, whatever was done to the objects it was copied from or to *)
LineagesAreIndependent == \A s \in State : stor[s] # 0 => heap[stor[s]] = want[s]
Inv == ResultsAreValues /\ DecodeIsAFunctionOfContent /\ ConcurrentCallsAreIsolated /\ LineagesAreIndependent
=============================================================================
