------------------------------ MODULE C09Cases ------------------------------
(***************************************************************************)
(* C09 case table (model -> code).  TLC enumerates the structured input    *)
(* space of the LLMNR codec and prints, for every case, the inputs and     *)
(* what the specification (DNSName / LLMNRMsg, written from RFC 1035 /     *)
(* RFC 4795) computes for them:                                            *)
(*                                                                         *)
(*  "msg"     every section shape 0..NQ questions x 0..NR records in each  *)
(*            of the three record sections, NV fillings each (names from a *)
(*            pool with shared suffixes, boundary ids/flags/types/classes/ *)
(*            TTLs/RDATA lengths): the abstract message, its uncompressed  *)
(*            and its compressed RFC 1035 encoding                         *)
(*  "big"     RDATA of BigLens octets (up to 65 535) followed by names     *)
(*            whose earlier occurrence lies beyond the 14-bit offset range *)
(*  "rootdot" small messages holding the root name (the driver writes the  *)
(*            root the way the library's decoder prints it)                *)
(*  "name"    single names: every label octet value, every label length,   *)
(*            the 255-octet boundary, 127 labels, seeded binary labels     *)
(*  "badname" names outside the domain (label of 64, 256 octets in total)  *)
(*  "arena"   pointer placements: messages of 1..4 questions whose names   *)
(*            end in the root or in a pointer; family A = one pointer with *)
(*            EVERY target offset 0..len+1 and 16383 (forward, self,       *)
(*            backward, header, middle of a label, type/class octets, past *)
(*            the end); family B = any subset of the names ends in a       *)
(*            pointer, targets over all label boundaries, pointer octets   *)
(*            and two header offsets (chains, cycles).  Expected result of *)
(*            DNSDecName at every name start and of LLMNRDecode.           *)
(***************************************************************************)
EXTENDS LLMNRMsg, Json

CONSTANTS Seed, Kinds, NQ, NR, NV, BigLens, NRandom, ArenaKA, ArenaKB, Chain3

VARIABLE c

Emit(r) == PrintT(ToJson(r))
Range(s) == {s[i] : i \in DOMAIN s}
NoDot(s) == [i \in 1..Len(s) |-> IF s[i] = 46 THEN 47 ELSE s[i]]

(* ---------------- messages ---------------- *)
LA == <<104, 111, 115, 116>>   \* host
LB == <<108, 97, 110>>         \* lan
LC == <<119, 119, 119>>        \* www
LD == NoDot(Pattern(Seed, 1 + (Seed % 5)))          \* seeded binary label
NamePool == << <<LA, LB>>, <<LC, LA, LB>>, <<LB>>, <<>>, <<LD, LC, LA, LB>>, <<LA>>, <<LD>>, <<LC, LB>> >>
TypePool == <<1, 28, 255, 0, 65535, 12>>
ClassPool == <<1, 32769, 255, 0, 65535>>
TTLPool == << <<0, 30>>, <<0, 0>>, <<65535, 65535>>, <<32768, 0>>, <<1, 2>> >>
RdLenPool == <<4, 0, 16, 1, 255, 256>>
IdPool == <<0, 65535, 4660, (Seed * 7919) % 65536>>
FlagPool == <<0, 65535, 32768, 33792, (Seed * 31337) % 65536>>
Pick(pool, i) == pool[(i % Len(pool)) + 1]
RData(len, salt) == [i \in 1..len |-> (i * 37 + salt + Seed) % 256]

NameAt(k, v) == Pick(NamePool, k * (v + 1) + v * 3 + Seed)
Q(k, v) == [n |-> NameAt(k, v), t |-> Pick(TypePool, k + v), c |-> Pick(ClassPool, k + 2 * v)]
R(k, v) == [n |-> NameAt(k, v), t |-> Pick(TypePool, k + v), c |-> Pick(ClassPool, k + 2 * v),
            ttl |-> Pick(TTLPool, k + v), rd |-> RData(Pick(RdLenPool, k + 3 * v), k)]
Msg(q, a, n, r, v) ==
    [id |-> Pick(IdPool, v + q + a), flags |-> Pick(FlagPool, v + n + r),
     qd |-> [i \in 1..q |-> Q(i, v)],
     an |-> [i \in 1..a |-> R(q + i, v)],
     ns |-> [i \in 1..n |-> R(q + a + i, v)],
     ar |-> [i \in 1..r |-> R(q + a + n + i, v)]]

(* TYPE and CLASS are 16-bit numbers that a codec carries unchanged, whatever meaning a registry attaches to them: every value
   RFC 1035 / 2136 / 2671 / 6891 / 6762 single out (NULL 10, OPT 41 whose CLASS is a payload size, the QTYPEs 249..255, the
   QCLASSes NONE 254 and ANY 255, the mDNS cache-flush bit 0x8000, the EDNS sizes around 512) crossed with one another, in a
   question and in a record of each section *)
SpecialTypes == {0, 1, 2, 5, 6, 10, 12, 13, 15, 16, 28, 33, 41, 43, 46, 47, 48, 249, 250, 251, 252, 253, 254, 255, 256, 257, 32768, 65280, 65535}
SpecialClasses == {0, 1, 3, 4, 254, 255, 256, 511, 512, 513, 1232, 4096, 32768, 32769, 65535}
TCMsg(t, cl) ==
    [id |-> (t * 31 + cl) % 65536, flags |-> 32768,
     qd |-> <<[n |-> <<LA, LB>>, t |-> t, c |-> cl]>>,
     an |-> <<[n |-> <<LA, LB>>, t |-> t, c |-> cl, ttl |-> <<0, 30>>, rd |-> RData(4, 1)]>>,
     ns |-> <<[n |-> <<LB>>, t |-> t, c |-> cl, ttl |-> <<0, 0>>, rd |-> <<>>]>>,
     ar |-> <<[n |-> <<>>, t |-> t, c |-> cl, ttl |-> <<0, 32768>>, rd |-> RData(11, 2)]>>]

(* names that are equal under some folding and are NOT the same name on the wire: RFC 1035 compares names without regard to
   ASCII case when it LOOKS THEM UP, a codec carries the octets it was given (2.3.3: "the original case should be preserved").
   A record's owner name differs from the question's only in case / only in octets above 127 *)
FoldPairs == { << <<119, 112, 97, 100>>, <<87, 80, 65, 68>> >>,                       \* wpad / WPAD
               << <<70, 105, 108, 101>>, <<102, 105, 108, 101>> >>,                     \* File / file
               << <<128, 46 + 1, 120>>, <<255, 46 + 1, 120>> >>,                        \* two labels that are not UTF-8, differing in one octet
               << <<195, 169>>, <<195, 137>> >> }                                      \* e-acute / E-acute in UTF-8
FoldMsg(pr, v) ==
    LET q == pr[1]  r == pr[2]
        qn == IF v = 1 THEN <<q, LB>> ELSE <<q>>
        rn == IF v = 1 THEN <<r, LB>> ELSE <<r>> IN
    [id |-> 4242 + v, flags |-> 32768,
     qd |-> <<[n |-> qn, t |-> 1, c |-> 1]>>,
     an |-> <<[n |-> rn, t |-> 1, c |-> 1, ttl |-> <<0, 30>>, rd |-> RData(4, 1)], [n |-> qn, t |-> 1, c |-> 1, ttl |-> <<0, 30>>, rd |-> RData(4, 2)]>>,
     ns |-> <<[n |-> rn, t |-> 2, c |-> 1, ttl |-> <<0, 0>>, rd |-> <<>>]>>,
     ar |-> <<[n |-> rn, t |-> 28, c |-> 1, ttl |-> <<0, 1>>, rd |-> RData(16, 3)]>>]

(* the specification's own laws, checked for every emitted message (a failure is a broken oracle, not a verdict) *)
SelfCheck(m, plain, packed) ==
    LET dp == LLMNRDecode(plain)  dc == LLMNRDecode(packed) IN
    /\ Assert(dp.ok /\ dp.msg = m /\ dp.end = Len(plain) /\ dp.ptrs = <<>>, <<"plain codec does not round-trip", m>>)
    /\ Assert(dc.ok /\ dc.msg = m /\ dc.end = Len(packed), <<"packed codec does not round-trip", m>>)
    /\ Assert(Len(packed) <= Len(plain), "compression grew the message")

BigMsg(len) ==
    [id |-> 7, flags |-> 32768, qd |-> <<>>,
     an |-> << [n |-> <<LA, LB>>, t |-> 16, c |-> 1, ttl |-> <<0, 30>>, rd |-> RData(len, 1)],
               [n |-> <<LC, LA, LB>>, t |-> 1, c |-> 1, ttl |-> <<0, 30>>, rd |-> RData(4, 2)],
               [n |-> <<LC, LA, LB>>, t |-> 28, c |-> 1, ttl |-> <<65535, 65535>>, rd |-> RData(16, 3)] >>,
     ns |-> <<>>, ar |-> <<>>]

RootMsgs == { [id |-> 1, flags |-> 0, qd |-> <<[n |-> <<>>, t |-> 255, c |-> 1]>>, an |-> <<>>, ns |-> <<>>, ar |-> <<>>],
              [id |-> 2, flags |-> 32768, qd |-> <<[n |-> <<>>, t |-> 1, c |-> 1]>>,
               an |-> <<[n |-> <<>>, t |-> 1, c |-> 1, ttl |-> <<0, 30>>, rd |-> <<10, 0, 0, 1>>]>>, ns |-> <<>>, ar |-> <<>>],
              [id |-> 3, flags |-> 32768, qd |-> <<[n |-> <<LA>>, t |-> 2, c |-> 1]>>,
               an |-> <<[n |-> <<>>, t |-> 2, c |-> 1, ttl |-> <<0, 1>>, rd |-> <<>>]>>, ns |-> <<>>, ar |-> <<>>] }

(* ---------------- single names ---------------- *)
LabelBytes == (0..255) \ {46}
RandLabel(i, j) == NoDot(Pattern((Seed * 131 + i * 17 + j) % 65537, 1 + ((Seed + i * 7 + j * 29) % 63)))
RandName(i) == [j \in 1..(1 + (i % 5)) |-> RandLabel(i, j)]
Names == { <<<<b>>>> : b \in LabelBytes }
      \cup { <<<<97, b, 98>>, <<b>>>> : b \in LabelBytes }
      \cup { <<Rep(120, L)>> : L \in 1..63 }
      \cup { <<Rep(97, 63), Rep(98, 63), Rep(99, 63), Rep(100, L)>> : L \in {59, 60, 61} }
      \cup { [i \in 1..k |-> <<48 + (i % 10)>>] : k \in {1, 2, 64, 126, 127} }
      \cup { n \in { RandName(i) : i \in 1..NRandom } : DNSNameOK(n) }
      \cup { <<>> } \cup Range(NamePool)
BadNames == { <<Rep(97, 64)>>, <<Rep(97, 63), Rep(98, 63), Rep(99, 63), Rep(100, 62)>>, [i \in 1..128 |-> <<97>>] }

(* ---------------- pointer arenas ---------------- *)
APre == << <<>>, <<<<120>>>>, <<<<121>>, <<122, 119>>>> >>
RECURSIVE ALabels(_)
ALabels(ls) == IF ls = <<>> THEN <<>> ELSE <<Len(Head(ls))>> \o Head(ls) \o ALabels(Tail(ls))
AHeader(k) == <<1, 97, 0, 0, 0, k, 0, 0, 0, 0, 0, 0>>      \* ID = 01 'a': offset 0 reads as the label "a", offset 2 as the root
AQTail == <<0, 1, 0, 1>>
AEntry(e) == ALabels(APre[e.pre]) \o (IF e.term < 0 THEN <<0>> ELSE DNSPtr(e.term)) \o AQTail
Arena(es) == AHeader(Len(es)) \o Flatten([i \in 1..Len(es) |-> AEntry(es[i])])
RECURSIVE AStart(_, _)
AStart(es, i) == IF i = 1 THEN 12 ELSE AStart(es, i - 1) + Len(AEntry(es[i - 1]))
(* offsets at which a label, a root octet or a pointer of some name begins *)
RECURSIVE LabelOffsets(_, _)
LabelOffsets(ls, off) == IF ls = <<>> THEN {off} ELSE {off} \cup LabelOffsets(Tail(ls), off + 1 + Len(Head(ls)))
Bnd(es) == UNION { LabelOffsets(APre[es[i].pre], AStart(es, i)) : i \in 1..Len(es) }

NameRes(data, off, bnd) ==
    LET r == DNSDecName(data, off) IN
    [ok |-> r.ok, why |-> r.why, name |-> r.name, end |-> r.end, ptrs |-> r.ptrs,
     canon |-> r.ok /\ Range(r.ptrs) \subseteq bnd,
     rootptr |-> r.ok /\ r.name # <<>> /\ r.ptrs # <<>> /\ data[r.ptrs[Len(r.ptrs)] + 1] = 0]
ArenaCase(fam, es) ==
    LET data == Arena(es)  bnd == Bnd(es)  m == LLMNRDecode(data) IN
    [k |-> "arena", fam |-> fam, es |-> es, data |-> data,
     starts |-> [i \in 1..Len(es) |-> AStart(es, i)],
     names |-> [i \in 1..Len(es) |-> NameRes(data, AStart(es, i), bnd)],
     msg |-> [ok |-> m.ok, at |-> m.at, why |-> m.why, qd |-> m.msg.qd, canon |-> m.ok /\ Range(m.ptrs) \subseteq bnd]]
Geo(k, pres, isp) == [i \in 1..k |-> [pre |-> pres[i], term |-> IF isp[i] THEN 0 ELSE -1]]

Init ==
    \/ /\ "msg" \in Kinds
       /\ \E q \in 0..NQ, a \in 0..NR, n \in 0..NR, r \in 0..NR, v \in 1..NV :
            LET m == Msg(q, a, n, r, v)  plain == LLMNREncode(m)  packed == LLMNREncodeC(m) IN
            /\ c = <<"msg", q, a, n, r, v>>
            /\ SelfCheck(m, plain, packed)
            /\ Emit([k |-> "msg", shape |-> <<q, a, n, r, v>>, m |-> m, plain |-> plain, packed |-> packed])
    \/ /\ "big" \in Kinds
       /\ \E len \in BigLens :
            LET m == BigMsg(len)  plain == LLMNREncode(m)  packed == LLMNREncodeC(m) IN
            /\ c = <<"big", len>>
            /\ SelfCheck(m, plain, packed)
            /\ Emit([k |-> "big", shape |-> <<len>>, m |-> m, plain |-> plain, packed |-> packed])
    \/ /\ "rootdot" \in Kinds
       /\ \E m \in RootMsgs :
            LET plain == LLMNREncode(m)  packed == LLMNREncodeC(m) IN
            /\ c = <<"rootdot", m>>
            /\ SelfCheck(m, plain, packed)
            /\ Emit([k |-> "rootdot", shape |-> <<m.id>>, m |-> m, plain |-> plain, packed |-> packed])
    \/ /\ "typeclass" \in Kinds
       /\ \E t \in SpecialTypes, cl \in SpecialClasses :
            LET m == TCMsg(t, cl)  plain == LLMNREncode(m)  packed == LLMNREncodeC(m) IN
            /\ c = <<"typeclass", t, cl>>
            /\ SelfCheck(m, plain, packed)
            /\ Emit([k |-> "msg", shape |-> <<-1, t, cl>>, m |-> m, plain |-> plain, packed |-> packed])
    \/ /\ "typeclass" \in Kinds
       /\ \E pr \in FoldPairs, v \in {1, 2} :
            LET m == FoldMsg(pr, v)  plain == LLMNREncode(m)  packed == LLMNREncodeC(m) IN
            /\ c = <<"fold", pr, v>>
            /\ SelfCheck(m, plain, packed)
            /\ Emit([k |-> "msg", shape |-> <<-2, pr[1][1], v>>, m |-> m, plain |-> plain, packed |-> packed])
    \/ /\ "name" \in Kinds
       /\ \E n \in Names :
            /\ c = <<"name", n>>
            /\ Assert(DNSNameOK(n) /\ DNSTextOK(n), <<"name outside the property's domain", n>>)
            /\ Assert(DNSDecName(DNSEncName(n), 0).name = n /\ DNSDecName(DNSEncName(n), 0).end = DNSWireLen(n), "name law")
            /\ Emit([k |-> "name", n |-> n, enc |-> DNSEncName(n)])
    \/ /\ "badname" \in Kinds
       /\ \E n \in BadNames :
            /\ c = <<"badname", n>>
            /\ Assert(~DNSNameOK(n), "bad name is valid")
            /\ Emit([k |-> "badname", n |-> n])
    \/ /\ "arena" \in Kinds
       /\ \E k \in ArenaKA : \E pres \in [1..k -> 1..3], j \in 1..k :
            LET isp == [i \in 1..k |-> i = j]
                len == Len(Arena(Geo(k, pres, isp))) IN
            \E t \in (0..(len + 1)) \cup {16383} :
              LET es == [i \in 1..k |-> [pre |-> pres[i], term |-> IF i = j THEN t ELSE -1]] IN
              /\ c = <<"arenaA", es>>
              /\ Emit(ArenaCase("A", es))
    \/ /\ "arena" \in Kinds
       /\ \E k \in ArenaKB : \E pres \in [1..k -> 1..3], isp \in [1..k -> BOOLEAN] :
            /\ k = 3 => pres[3] \in Chain3
            /\ isp # [i \in 1..k |-> FALSE]          \* (not written with \E: TLC would branch once per witness)
            /\ LET I == Bnd(Geo(k, pres, isp)) \cup {0, 2} IN
               \E ts \in [1..k -> I] :
                 /\ \A i \in 1..k : ~isp[i] => ts[i] = 0          \* one representative when the entry is not a pointer
                 /\ LET es == [i \in 1..k |-> [pre |-> pres[i], term |-> IF isp[i] THEN ts[i] ELSE -1]] IN
                    /\ c = <<"arenaB", es>>
                    /\ Emit(ArenaCase("B", es))
Next == FALSE /\ UNCHANGED c
=============================================================================
