-------------------------------- MODULE SID --------------------------------
(***************************************************************************)
(* Security identifiers, written from MS-DTYP.                             *)
(*                                                                         *)
(* 2.4.2.2 SID packet:  Revision (1 byte, must be 1), SubAuthorityCount    *)
(*   (1 byte, at most 15), IdentifierAuthority (6 bytes, a 48-bit number   *)
(*   most significant byte first), SubAuthority (SubAuthorityCount         *)
(*   little-endian 32-bit numbers).                                        *)
(* 2.4.2.1 string form: "S-1-" IdentifierAuthority *( "-" SubAuthority ),  *)
(*   sub-authorities in decimal; the identifier authority in decimal when  *)
(*   it is below 2^32 and as "0x" + 12 hex digits otherwise.               *)
(* Text is a sequence of ASCII codes; numbers wider than TLC's integers    *)
(* stay byte strings and are printed by BigDec!BDText.                    *)
(***************************************************************************)
EXTENDS Bytes, BigDec

SidMaxSubs == 15
SidWellFormed(b) == /\ Len(b) >= 8 /\ b[1] = 1 /\ b[2] <= SidMaxSubs
                    /\ Len(b) = 8 + 4 * b[2]
                    /\ \A i \in DOMAIN b : b[i] \in Byte
SidCount(b) == b[2]
SidAuthority(b) == SubSeq(b, 3, 8)                                  \* big-endian
SidSubLE(b, k) == SubSeq(b, 8 + 4 * (k - 1) + 1, 8 + 4 * k)         \* k-th sub-authority, little-endian
SidEncode(auth6, subsLE) == <<1, Len(subsLE)>> \o auth6 \o Flatten(subsLE)

SidDash == <<45>>
SidPrefix == <<83, 45, 49, 45>>                                     \* "S-1-"
SidAuthIsSmall(auth6) == auth6[1] = 0 /\ auth6[2] = 0               \* < 2^32
SidAuthDec(auth6) == BDText(auth6)
SidAuthHex(auth6) == <<48, 120>> \o BDHexText(auth6, TRUE)          \* "0x" 12HEXDIG
RECURSIVE SidSubsText(_, _)
SidSubsText(b, k) == IF k > SidCount(b) THEN <<>>
                     ELSE SidDash \o BDText(BDReverse(SidSubLE(b, k))) \o SidSubsText(b, k + 1)

(* the text the property statement asks for: every number in decimal *)
SidTextDecimal(b) == SidPrefix \o SidAuthDec(SidAuthority(b)) \o SidSubsText(b, 1)
(* MS-DTYP 2.4.2.1: large authorities in hex *)
SidText(b) == SidPrefix \o (IF SidAuthIsSmall(SidAuthority(b)) THEN SidAuthDec(SidAuthority(b)) ELSE SidAuthHex(SidAuthority(b)))
                        \o SidSubsText(b, 1)

(* known answers: the domain-SID example of MS-DTYP 2.4.2.2 / well-known SIDs of 2.4.2.4 *)
ASSUME LET b == <<1, 5, 0, 0, 0, 0, 0, 5, 21, 0, 0, 0, 199, 247, 254, 215, 124, 119, 85, 200, 148, 90, 206, 1, 245, 3, 0, 0>>
       IN SidWellFormed(b) /\ SidText(b) = <<83, 45, 49, 45, 53, 45, 50, 49, 45, 51, 54, 50, 51, 56, 49, 49, 48, 49, 53, 45, 51, 51, 54, 49,
                                            48, 52, 52, 51, 52, 56, 45, 51, 48, 51, 48, 48, 56, 50, 48, 45, 49, 48, 49, 51>>   \* S-1-5-21-3623811015-3361044348-30300820-1013
ASSUME SidText(<<1, 1, 0, 0, 0, 0, 0, 5, 18, 0, 0, 0>>) = <<83, 45, 49, 45, 53, 45, 49, 56>>      \* S-1-5-18  (Local System)
ASSUME SidText(<<1, 1, 0, 0, 0, 0, 0, 1, 0, 0, 0, 0>>) = <<83, 45, 49, 45, 49, 45, 48>>           \* S-1-1-0   (Everyone)
ASSUME SidText(<<1, 0, 0, 0, 0, 0, 0, 5>>) = <<83, 45, 49, 45, 53>>                                \* S-1-5     (NT Authority)
ASSUME SidEncode(<<0, 0, 0, 0, 0, 5>>, <<<<18, 0, 0, 0>>>>) = <<1, 1, 0, 0, 0, 0, 0, 5, 18, 0, 0, 0>>
ASSUME SidText(<<1, 0, 1, 0, 0, 0, 0, 0>>) = <<83, 45, 49, 45, 48, 120, 48, 49, 48, 48, 48, 48, 48, 48, 48, 48, 48, 48>>   \* S-1-0x010000000000
=============================================================================
