---------------------------- MODULE KeyCredObject ----------------------------
(***************************************************************************)
(* MarshalHistory(KeyCredential): ONE key-credential object and the calls  *)
(* made on it, one action per public call:                                 *)
(*   New(i)            build credential i (KclSeal: KeyID, KeyHash filled) *)
(*   ToBytes           -> KclEncode(fields)                                *)
(*   ComputeKeyHash    -> SHA256 of the entries after the KeyHash entry of *)
(*                        what ToBytes would write NOW                     *)
(*   CheckIntegrity    -> stored KeyHash = ComputeKeyHash                  *)
(*   FromBytes(src)    fields := KclDecode(src); src is a sealed blob (B1, *)
(*                     B2), a tampered one (T1) or the object's own output *)
(*   SetUsage          a caller assigns the exported Usage field (FIDO)    *)
(* The requirement is that every result depends on the CURRENT field       *)
(* values only.  The implementation keeps the last bytes it saw (RawBytes);*)
(* `cache` mirrors that design decision so that TLC can show where it is   *)
(* observable: CacheCoherent holds on every history without SetUsage and   *)
(* is violated as soon as a field is assigned (vacuity guard).             *)
(* Every transition is emitted with its whole history (the code has state  *)
(* the fields do not show, so edges are not enough): TLC enumerates ALL    *)
(* histories up to MaxHist calls.                                          *)
(***************************************************************************)
EXTENDS KeyCredentialLink

CONSTANTS Seed, MaxHist, AllowSetUsage,
          OwnEw, OwnCki          \* the encoder's choices found by the C14 "cred" replay ("min"|"four", "short"|"vonly")

VARIABLES f, cache, hist, res

NoObj == [none |-> TRUE]
ExpOf(i) == IF i = 1 THEN <<1, 0, 1>> ELSE <<3>>
KeyOf(i) == [bits |-> 128, exp |-> ExpOf(i), mod |-> [Pattern((Seed * 13 + i) % 65537, 16) EXCEPT ![1] = 128 + i], p1 |-> <<>>, p2 |-> <<>>]
BaseOf(i) == [ver |-> IF i = 1 THEN 512 ELSE 256, id |-> <<>>, kh |-> <<>>,
              km |-> RsaEncode(KeyOf(i), IF OwnEw = "min" THEN Len(ExpOf(i)) ELSE 4),
              usage |-> 1, source |-> 0, dev |-> Pattern((Seed * 17 + i) % 65537, 16),
              cki |-> IF OwnCki = "short" THEN CkiShort(0) ELSE <<1>>,
              last |-> <<i, 0, 0, 0, 0, 0, 218, 1>>, created |-> <<0, 192, 131, 237, 138, 73, 218, 1>>]
CredTab == TLCEval([i \in {1, 2} |-> KclSeal(BaseOf(i))])
B(i) == KclEncode(CredTab[i])
T1 == LET b == B(1) IN KclFlip(b, Len(b) - 1, 0)                    \* last byte of the KeyCreationTime value, bit 0
Sources == {"B1", "B2", "T1", "self"}
BlobOf(src) == CASE src = "B1" -> B(1) [] src = "B2" -> B(2) [] src = "T1" -> T1 [] OTHER -> KclEncode(f)

KeyHashNow(g) == SHA256(KclTailOf(g))
(* a history is a sequence of [op, arg]: arg = the bytes handed to FromBytes("self") (what ToBytes returns at that point), else <<>> *)
LogA(op, arg, r) == /\ hist' = Append(hist, [op |-> op, arg |-> arg]) /\ res' = r
                    /\ PrintT(ToJson([k |-> "hist", ops |-> hist', r |-> r,
                                      mutated |-> \E i \in DOMAIN hist : hist[i].op = "setusage"]))
Log(op, r) == LogA(op, <<>>, r)

New(i) == /\ f' = CredTab[i]
          /\ cache' = KclEncode([CredTab[i] EXCEPT !.kh = Zeros(32)])       \* the implementation serialises once with a zero KeyHash to compute it
          /\ Log(IF i = 1 THEN "new1" ELSE "new2", [ok |-> TRUE])
ToBytes == /\ f # NoObj /\ UNCHANGED <<f, cache>>
           /\ Log("tobytes", [bytes |-> KclEncode(f)])
ComputeKeyHash == /\ f # NoObj /\ UNCHANGED f
                  /\ cache' = IF Len(cache) < 4 THEN KclEncode(f) ELSE cache
                  /\ Log("hash", [bytes |-> KeyHashNow(f)])
CheckIntegrity == /\ f # NoObj /\ UNCHANGED f
                  /\ cache' = IF Len(cache) < 4 THEN KclEncode(f) ELSE cache
                  /\ Log("check", [ok |-> f.kh = KeyHashNow(f)])
FromBytes(src) == /\ src = "self" => f # NoObj
                  /\ LET b == BlobOf(src) IN
                     /\ Assert(KclWellFormed(b), "history blob is not well-formed")
                     /\ f' = KclDecode(b) /\ cache' = b
                  /\ LogA("from:" \o src, IF src = "self" THEN BlobOf(src) ELSE <<>>, [ok |-> TRUE])
SetUsage == /\ AllowSetUsage /\ f # NoObj /\ f.usage # 7
            /\ f' = [f EXCEPT !.usage = 7] /\ UNCHANGED cache
            /\ Log("setusage", [ok |-> TRUE])

Init == /\ f = NoObj /\ cache = <<>> /\ hist = <<>> /\ res = [ok |-> TRUE]
        /\ PrintT(ToJson([k |-> "defs", creds |-> <<CredTab[1], CredTab[2]>>, keys |-> <<KeyOf(1), KeyOf(2)>>,
                          B1 |-> B(1), B2 |-> B(2), T1 |-> T1]))
Next == /\ Len(hist) < MaxHist
        /\ \/ \E i \in {1, 2} : New(i)
           \/ ToBytes \/ ComputeKeyHash \/ CheckIntegrity \/ SetUsage
           \/ \E s \in Sources : FromBytes(s)
Spec == Init /\ [][Next]_<<f, cache, hist, res>>

(* what the implementation's remembered bytes must satisfy for its answers to depend on the fields only *)
CacheCoherent == f # NoObj /\ Len(cache) >= 4 => KclCovered(cache) = KclTailOf(f)
(* an untampered, unmodified object always passes its own check *)
Tampered == \E i \in DOMAIN hist : hist[i].op \in {"setusage", "from:T1"}
IntactPasses == (~PrimPhase /\ f # NoObj /\ ~Tampered) => f.kh = KeyHashNow(f)
(* the tampered blob never passes (SHA-256 taken as injective on the explored messages) *)
TamperedFails == (~PrimPhase /\ hist # <<>> /\ hist[Len(hist)].op = "check" /\ Len(hist) >= 2 /\ hist[Len(hist) - 1].op = "from:T1") => res = [ok |-> FALSE]
=============================================================================
