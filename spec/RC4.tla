-------------------------------- MODULE RC4 --------------------------------
(* The RC4 stream cipher, written from the algorithm description reproduced in RFC 6229 section 1 /
   RFC 7465 (the "alleged RC4" of 1994): a permutation S of 0..255 and two indices i, j.

     key scheduling (KSA):  S := identity; j := 0;
                            for i = 0..255:  j := (j + S[i] + key[i mod keylen]) mod 256; swap(S[i], S[j])
     generation (PRGA):     i := (i + 1) mod 256; j := (j + S[i]) mod 256; swap(S[i], S[j]);
                            output S[(S[i] + S[j]) mod 256]

   S is held as a sequence of length 256 (S[n + 1] is the entry for index n).  A cipher state is the
   record [S, i, j]; the stream cipher XORs the keystream onto the data, so the output byte at stream
   position p depends only on (key, p, input byte at p) and never on how the data was cut into calls. *)
EXTENDS Integers, Sequences, Bitwise, Bytes

RC4Id == [n \in 1..256 |-> n - 1]
RC4Swap(S, a, b) == [S EXCEPT ![a + 1] = S[b + 1], ![b + 1] = S[a + 1]]

RECURSIVE RC4KsaGo(_, _, _, _)
RC4KsaGo(S, key, i, j) ==
    IF i = 256 THEN S
    ELSE LET j2 == (j + S[i + 1] + key[(i % Len(key)) + 1]) % 256
         IN RC4KsaGo(RC4Swap(S, i, j2), key, i + 1, j2)

(* state of a freshly keyed cipher; key is any byte string of 1..256 bytes *)
RC4New(key) == [S |-> RC4KsaGo(RC4Id, key, 0, 0), i |-> 0, j |-> 0]
(* D (model detail, not in the standard): what the library's Reset leaves behind -- the unkeyed identity permutation *)
RC4Blank == [S |-> RC4Id, i |-> 0, j |-> 0]

(* one PRGA step: <<next state, keystream byte>> *)
RC4Step(rs) ==
    LET i == (rs.i + 1) % 256
        j == (rs.j + rs.S[i + 1]) % 256
        S2 == RC4Swap(rs.S, i, j)
    IN << [S |-> S2, i |-> i, j |-> j], S2[((S2[i + 1] + S2[j + 1]) % 256) + 1] >>

(* n steps: <<state after, keystream of n bytes>> *)
RECURSIVE RC4GenGo(_, _, _)
RC4GenGo(rs, n, acc) == IF n = 0 THEN <<rs, acc>>
                        ELSE LET r == RC4Step(rs) IN RC4GenGo(r[1], n - 1, Append(acc, r[2]))
RC4Gen(rs, n) == RC4GenGo(rs, n, <<>>)

XorBytes(a, b) == [k \in 1..Len(a) |-> a[k] ^^ b[k]]

(* XORKeyStream on a state: <<state after, output>> *)
RC4Xor(rs, data) == LET g == RC4Gen(rs, Len(data)) IN <<g[1], XorBytes(data, g[2])>>

RC4Keystream(key, n) == RC4Gen(RC4New(key), n)[2]
RC4Crypt(key, data) == RC4Xor(RC4New(key), data)[2]

(* ---- known answers: a broken oracle must fail loudly ---- *)
Slice(s, off, n) == SubSeq(s, off + 1, off + n)

(* RFC 6229: 40-bit key 0x0102030405, offsets 0, 16, 240, 256, 496, 512, 752, 768 *)
ASSUME LET ks == RC4Keystream(<<1, 2, 3, 4, 5>>, 784) IN
       /\ HexLower(Slice(ks, 0, 32))   = "b2396305f03dc027ccc3524a0a1118a86982944f18fc82d589c403a47a0d0919"
       /\ HexLower(Slice(ks, 240, 32)) = "28cb1132c96ce286421dcaadb8b69eae1cfcf62b03eddb641d77dfcf7f8d8c93"
       /\ HexLower(Slice(ks, 496, 32)) = "42b7d0cdd918a8a33dd51781c81f40416459844432a7da923cfb3eb4980661f6"
       /\ HexLower(Slice(ks, 752, 32)) = "ec10327bde2beefd18f9277680457e22eb62638d4f0ba1fe9fca20e05bf8ff2b"
(* RFC 6229: 128-bit key 0x0102..10 and 256-bit key 0x1ada31d5...772a *)
ASSUME LET ks == RC4Keystream([k \in 1..16 |-> k], 528) IN
       /\ HexLower(Slice(ks, 0, 32))   = "9ac7cc9a609d1ef7b2932899cde41b975248c4959014126a6e8a84f11d1a9e1c"
       /\ HexLower(Slice(ks, 240, 32)) = "065902e4b620f6cc36c8589f66432f2bd39d566bc6bce3010768151549f3873f"
       /\ HexLower(Slice(ks, 496, 32)) = "b6d1e6c4a5e4771cad79538df295fb11c68c1d5c559a974123df1dbc52a43b89"
ASSUME LET key == <<26, 218, 49, 213, 207, 104, 130, 33, 193, 9, 22, 57, 8, 235, 229, 29,
                    235, 180, 98, 39, 198, 204, 139, 55, 100, 25, 16, 131, 50, 34, 119, 42>>
           ks == RC4Keystream(key, 272) IN
       /\ HexLower(Slice(ks, 0, 32))   = "dd5bcb0018e922d494759d7c395d02d3c8446f8f77abf737685353eb89a1c9eb"
       /\ HexLower(Slice(ks, 240, 32)) = "af3e30f9c095045938151575c3fb9098f8cb6274db99b80b1d2012a98ed48f0e"
(* the classic vectors: Key/Plaintext, Wiki/pedia, Secret/Attack at dawn (ciphertext = keystream xor plaintext) *)
ASSUME HexLower(RC4Crypt(<<75, 101, 121>>, <<80, 108, 97, 105, 110, 116, 101, 120, 116>>)) = "bbf316e8d940af0ad3"
ASSUME HexLower(RC4Crypt(<<87, 105, 107, 105>>, <<112, 101, 100, 105, 97>>)) = "1021bf0420"
ASSUME HexLower(RC4Crypt(<<83, 101, 99, 114, 101, 116>>, <<65, 116, 116, 97, 99, 107, 32, 97, 116, 32, 100, 97, 119, 110>>)) = "45a01f645fc35b383552544b9bf5"
(* stream law on the oracle itself: cutting the data does not change the output *)
ASSUME LET d == Pattern(3, 70)  rs == RC4New(<<7, 0, 255>>)
           a == RC4Xor(rs, SubSeq(d, 1, 33))  b == RC4Xor(a[1], SubSeq(d, 34, 70))
       IN a[2] \o b[2] = RC4Xor(rs, d)[2]
=============================================================================
