------------------------- MODULE MC_NameTableConc -------------------------
(* Workloads for NameTableConc (cfg files cannot hold tuples). *)
EXTENDS NameTableConc
C(op, n, t, a, e) == [op |-> op, n |-> n, t |-> t, a |-> a, e |-> e]
(* two registrants of the same unique name, a third goroutine releasing/cleaning/querying *)
P_race == << <<C("register", "n1", "U", "a1", FALSE), C("query", "n1", "", "", FALSE)>>,
             <<C("register", "n1", "U", "a2", FALSE), C("release", "n1", "", "a2", FALSE)>>,
             <<C("clean", "", "", "", FALSE), C("register", "n1", "G", "a1", TRUE)>> >>
(* group traffic: two joiners, one leaver, a refresh and an expiry pass *)
P_group == << <<C("register", "n1", "G", "a1", TRUE), C("refresh", "n1", "", "a1", FALSE)>>,
              <<C("register", "n1", "G", "a2", FALSE), C("release", "n1", "", "a1", FALSE)>>,
              <<C("clean", "", "", "", FALSE), C("conflict", "n1", "", "", FALSE), C("query", "n1", "", "", FALSE)>> >>
=============================================================================
