---------------------------- MODULE TraceNTLMv2 ----------------------------
(***************************************************************************)
(* Trace validation (code -> model) for NTLMv2 (C02).  The library embeds  *)
(* time.Now() (and, in CreateAuthenticateMessage, a random client          *)
(* challenge), so responses cannot be predicted; instead every recorded    *)
(* call -- inputs and the bytes / text the real code produced -- is judged *)
(* by the specification acting as the independent verifier that knows the  *)
(* password (NTLM.tla: MD4, HMAC-MD5, UTF-16LE, case mapping all in TLA+). *)
(*                                                                         *)
(* Calls are independent of each other (no state is carried), so instead   *)
(* of stopping at the first rejected event the specification judges EVERY  *)
(* event and prints one verdict record per line: the P assertions that     *)
(* failed ("fails") and the D assertions that failed ("drifts").           *)
(*   key   NewNTLMv2(...).ResponseKeyNT                                    *)
(*   resp  Hash() / HashHex(): the NtChallengeResponse bytes               *)
(*   line  ToHashcatString(): the text, as code points                     *)
(*   auth  CreateAuthenticateMessage under extended session security: the  *)
(*         fields found IN THE MESSAGE (domain, user, NT and LM responses)  *)
(***************************************************************************)
EXTENDS NTLM, TLC, TLCExt, Json

VARIABLE l
TraceLog == ndJsonDeserialize("trace.ndjson")
ev == TraceLog[l]

Sel(flags) == LET RECURSIVE go(_)
                  go(i) == IF i > Len(flags) THEN <<>> ELSE (IF flags[i][2] THEN <<flags[i][1]>> ELSE <<>>) \o go(i + 1)
              IN go(1)

(* why a proof does not verify: the one known way (domain upper-cased inside NTOWFv2) gets its own aspect *)
ProofAspect(prefix, proof, pw, user, dom, sc, blob) ==
    IF proof = NTProof(NTOWFv2(pw, user, dom), sc, blob) THEN <<>>
    ELSE IF proof = NTProof(NTOWFv2(pw, user, Upper(dom)), sc, blob) THEN <<prefix \o "proof:domain-uppercased">>
    ELSE <<prefix \o "proof">>

KeyVerdict ==
    LET fails == IF ev.key = NTOWFv2(ev.pw, ev.user, ev.dom) THEN <<>>
                 ELSE IF ev.key = NTOWFv2(ev.pw, ev.user, Upper(ev.dom)) THEN <<"ntowfv2:domain-uppercased">> ELSE <<"ntowfv2">>
    IN [fails |-> fails, drifts |-> <<>>]

(* P: >= 16 + 28 bytes; first 16 = HMAC-MD5(NTOWFv2, SC || rest); rest = well-formed fixed part carrying the client challenge *)
RespVerdict(resp, pw, user, dom, sc, cc, cconly, ti) ==
    IF Len(resp) < 16 + BlobFixedLen THEN [fails |-> <<"response-too-short">>, drifts |-> <<>>]
    ELSE LET proof == SubSeq(resp, 1, 16)
             blob == SubSeq(resp, 17, Len(resp))
         IN [fails |-> ProofAspect("", proof, pw, user, dom, sc, blob)
                       \o Sel(<< <<"blob:fixed-part", ~BlobFixedOK(blob)>>,
                                 <<"blob:client-challenge", cconly /\ BlobCC(blob) # cc>> >>),
             drifts |-> Sel(<< <<"blob:av-pairs-malformed", ~AvPairsOK(BlobTail(blob))>>,
                               <<"blob:target-info-not-echoed", ~cconly /\ BlobTail(blob) # ti \o Zeros(4)>> >>)]

LineVerdict ==
    LET f == SplitOn(ev.line, 58)
    IN IF Len(f) # 6 \/ f[2] # <<>> THEN [fails |-> <<"hashcat:field-count">>, drifts |-> <<>>]
       ELSE IF ~(IsHex(f[4]) /\ Len(f[4]) = 16) THEN [fails |-> <<"hashcat:challenge-field">>, drifts |-> <<>>]
       ELSE IF ~(IsHex(f[5]) /\ Len(f[5]) = 32)
            THEN \* not parseable by hashcat.  If the last field nevertheless holds a whole response (proof || blob), also say whether
                 \* THAT would verify under the line's own user and domain, so that a second, masked defect is not hidden by the first.
                 [fails |-> <<"hashcat:ntproof-field">>
                            \o (IF IsHex(f[6]) /\ Len(f[6]) >= 2 * (16 + BlobFixedLen)
                                  THEN LET r == UnHex(f[6]) IN ProofAspect("hashcat:", SubSeq(r, 1, 16), ev.pw, f[1], f[3], UnHex(f[4]), SubSeq(r, 17, Len(r)))
                                  ELSE <<>>),
                  drifts |-> <<>>]
       ELSE IF ~(IsHex(f[6]) /\ Len(f[6]) >= 2 * BlobFixedLen) THEN [fails |-> <<"hashcat:blob-field">>, drifts |-> <<>>]
       ELSE [fails |-> ProofAspect("hashcat:", UnHex(f[5]), ev.pw, f[1], f[3], UnHex(f[4]), UnHex(f[6]))
                       \o Sel(<< <<"hashcat:server-challenge", UnHex(f[4]) # ev.sc>>,
                                 <<"hashcat:blob:fixed-part", ~BlobFixedOK(UnHex(f[6]))>>,
                                 <<"hashcat:blob:client-challenge", BlobFixedOK(UnHex(f[6])) /\ BlobCC(UnHex(f[6])) # ev.cc>> >>),
             drifts |-> Sel(<< <<"hashcat:user-not-as-supplied", f[1] # ev.user>>, <<"hashcat:domain-not-as-supplied", f[3] # ev.dom>>,
                               <<"hashcat:hex-not-lowercase", \E i \in 4..6 : \E j \in 1..Len(f[i]) : f[i][j] >= 65 /\ f[i][j] <= 70>> >>)]

(* AUTHENTICATE: the verifier takes user and domain from the message, as a server would; LMv2 is D (not in the property) *)
AuthVerdict ==
    LET v == RespVerdict(ev.nt, ev.pw, ev.muser, ev.mdom, ev.sc, <<>>, FALSE, ev.ti)
        lmok == /\ Len(ev.lm) = 24
                /\ SubSeq(ev.lm, 1, 16) = NTProof(NTOWFv2(ev.pw, ev.muser, ev.mdom), ev.sc, SubSeq(ev.lm, 17, 24))
    IN [fails |-> v.fails \o Sel(<< <<"message:user-name", ev.muser # ev.user>> >>),
        drifts |-> v.drifts \o Sel(<< <<"lmv2", ~lmok>>, <<"message:domain-not-as-supplied", ev.mdom # ev.dom>> >>)]

Verdict == CASE ev.op = "key"  -> KeyVerdict
             [] ev.op = "resp" -> RespVerdict(ev.resp, ev.pw, ev.user, ev.dom, ev.sc, ev.cc, TRUE, <<>>)
             [] ev.op = "line" -> LineVerdict
             [] ev.op = "auth" -> AuthVerdict
             [] OTHER -> [fails |-> <<"unknown-event">>, drifts |-> <<>>]

Init == l = 1
Step == /\ l <= Len(TraceLog)
        /\ l' = l + 1
        /\ LET v == Verdict IN PrintT(ToJson([l |-> l, fails |-> v.fails, drifts |-> v.drifts]))
TraceSpec == Init /\ [][Step]_l
TraceAccepted == TLCGet("stats").diameter - 1 = Len(TraceLog)
=============================================================================
