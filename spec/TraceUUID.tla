----------------------------- MODULE TraceUUID -----------------------------
(***************************************************************************)
(* Trace validation (code -> model) for C13.  trace.ndjson holds one line  *)
(* per call the recorder made on the real windows/guid and crypto/uuid     *)
(* code with full-range random inputs: the arguments and what the code     *)
(* returned.  For every line TLC recomputes the result with GUID.tla       *)
(* (MS-DTYP 2.3.4) / UUID.tla (RFC 4122, DCE) and decides whether the      *)
(* recorded call is one the specification allows.  The functions are pure, *)
(* so the trace spec has no state besides the position; a line that is not *)
(* allowed does not stop the validation: TLC prints a verdict for it       *)
(* (site, aspect, P or D) and goes on, so that every line is judged.       *)
(* Acceptance of the run = all lines consumed (TraceAccepted).             *)
(***************************************************************************)
EXTENDS GUID, UUID, TLC, TLCExt, Json

VARIABLE l
TraceLog == ndJsonDeserialize("trace.ndjson")
ev == TraceLog[l]

Bad(site, aspect, drift) == PrintT(ToJson([bad |-> l, site |-> site, aspect |-> aspect, drift |-> drift]))
(* js: sequence of <<holds, site, aspect, drift>>; every judgement that does not hold is reported *)
Judge(js) == \A j \in 1..Len(js) : IF js[j][1] THEN TRUE ELSE Bad(js[j][2], js[j][3], js[j][4])

FieldJs(site, pre, got, want) ==
    << <<got.a = want.a, site, pre \o "A", FALSE>>, <<got.b = want.b, site, pre \o "B", FALSE>>, <<got.c = want.c, site, pre \o "C", FALSE>>,
       <<got.d = want.d, site, pre \o "D", FALSE>>, <<got.e = want.e, site, pre \o "E", FALSE>> >>
WellFormed(f) == Len(f.a) = 8 /\ Len(f.b) = 4 /\ Len(f.c) = 4 /\ Len(f.d) = 4 /\ Len(f.e) = 12

ClockAspect(pre, got, want, kept, hi) == IF got # want /\ got = want % (2 ^ kept) THEN pre \o ":" \o hi ELSE pre

GuidParseJs(site, pre, fmtOk, r) ==
    \* r: the specification's parse of the recorded text
    IF ~r.ok THEN << <<~ev.ok, site, pre \o "accepts-malformed", TRUE>> >>                     \* D: rejection of non-members
    ELSE IF ~ev.ok THEN << <<FALSE, site, pre \o "rejects-valid", FALSE>> >>
    ELSE FieldJs(site, pre \o "fields:", ev.f, GuidFields(r.ns))

Verdict ==
    CASE ev.op = "guid.frombytes" -> Judge(FieldJs("guid.GUID.FromRawBytes", "layout:", ev.f, GuidFields(GuidCanon(ev.w))))
      [] ev.op = "guid.tobytes"   -> Judge(<< <<WellFormed(ev.f) /\ ev.w = GuidWire(GuidOfFields(ev.f)), "guid.GUID.ToBytes", "layout", FALSE>> >>)
      [] ev.op = "guid.format"    -> Judge(<< <<WellFormed(ev.f) /\ HxLower(ev.t) = GuidText(ev.fmt, GuidOfFields(ev.f)),
                                                "guid.GUID.ToFormat" \o ev.fmt, "text", FALSE>> >>)
      [] ev.op = "guid.parse"     -> Judge(GuidParseJs("guid.FromFormat" \o ev.fmt, "", TRUE, GuidParse(ev.fmt, ev.t)))
      [] ev.op = "guid.fromstring" -> LET r == GuidParseAny(ev.t) IN
                                      Judge(GuidParseJs("guid.FromString", IF r.ok THEN "format-" \o r.fmt \o ":" ELSE "", TRUE, r))
      [] ev.op = "uuid.unmarshal" -> Judge(<< <<ev.ver = UuidVersion(ev.b), "uuid.UUID.Unmarshal", "rfc4122:version", FALSE>>,
                                              <<ev.varn = BaseVariantNibble(ev.b), "uuid.UUID.Unmarshal", "layout:Variant", TRUE>>,
                                              <<ev.data = BaseData(ev.b), "uuid.UUID.Unmarshal", "layout:Data", TRUE>>,
                                              <<ev.m = ev.b, "uuid.UUID.Marshal", "roundtrip:bytes", FALSE>>,
                                              <<HxLower(ev.t) = UuidText(ev.b), "uuid.UUID.String", "text", FALSE>> >>)
      [] ev.op = "uuid.fromstring" -> LET r == UuidParse(ev.t) IN
                                      Judge(IF ~r.ok THEN << <<~ev.ok, "uuid.UUID.FromString", "accepts-malformed", TRUE>> >>
                                            ELSE << <<ev.ok, "uuid.UUID.FromString", "rejects-valid", FALSE>>,
                                                    <<~ev.ok \/ ev.m = r.b, "uuid.UUID.FromString", "roundtrip:text->bytes", FALSE>> >>)
      [] ev.op = "v1.unmarshal"   -> Judge(IF ~ev.ok THEN << <<FALSE, "uuid_v1.UUIDv1.Unmarshal", "rejects-own-version", TRUE>> >>
                                           ELSE << <<ev.ts = V1Timestamp(ev.b), "uuid_v1.UUIDv1.Unmarshal", "rfc4122:timestamp", UuidVariant(ev.b) # "rfc4122">>,
                                                   <<ev.node = V1Node(ev.b), "uuid_v1.UUIDv1.Unmarshal", "rfc4122:node", UuidVariant(ev.b) # "rfc4122">>,
                                                   \* 4.1.2 defines the layout for variant 10x only
                                                   <<UuidVariant(ev.b) # "rfc4122" \/ ev.cs = V1ClockSeq(ev.b), "uuid_v1.UUIDv1.Unmarshal",
                                                     ClockAspect("rfc4122:clock_seq", ev.cs, V1ClockSeq(ev.b), 12, "bits12-13"), FALSE>>,
                                                   <<ev.m = ev.b, "uuid_v1.UUIDv1.Marshal", "roundtrip:bytes", FALSE>>,
                                                   <<HxLower(ev.t) = UuidText(ev.b), "uuid_v1.UUIDv1.String", "text", FALSE>> >>)
      [] ev.op = "v1.marshal"     -> LET b == V1Make(ev.ts, ev.cs, ev.node) IN
                                     Judge(<< <<Len(ev.m) = 16 /\ SubSeq(ev.m, 1, 8) = SubSeq(b, 1, 8), "uuid_v1.UUIDv1.Marshal", "rfc4122:layout:time", FALSE>>,
                                              <<Len(ev.m) = 16 /\ SubSeq(ev.m, 11, 16) = SubSeq(b, 11, 16), "uuid_v1.UUIDv1.Marshal", "rfc4122:layout:node", FALSE>>,
                                              <<Len(ev.m) = 16 /\ SubSeq(ev.m, 9, 10) = SubSeq(b, 9, 10), "uuid_v1.UUIDv1.Marshal",
                                                IF Len(ev.m) = 16 /\ ev.m[10] = b[10] /\ ev.m[9] = 128 + ((b[9] % 64) % 16)
                                                THEN "rfc4122:layout:clock_seq:bits12-13" ELSE "rfc4122:layout:clock_seq", FALSE>> >>)
      [] ev.op = "v2.unmarshal"   -> Judge(IF ~ev.ok THEN << <<FALSE, "uuid_v2.UUIDv2.Unmarshal", "rejects-own-version", TRUE>> >>
                                           ELSE << <<ev.lid = V2LocalId(ev.b), "uuid_v2.UUIDv2.Unmarshal", "dce:local_id", UuidVariant(ev.b) # "rfc4122">>,
                                                   <<ev.thm = V2TimeHiMid(ev.b), "uuid_v2.UUIDv2.Unmarshal", "dce:time_hi_mid", UuidVariant(ev.b) # "rfc4122">>,
                                                   <<ev.dom = V2Domain(ev.b), "uuid_v2.UUIDv2.Unmarshal", "dce:local_domain", UuidVariant(ev.b) # "rfc4122">>,
                                                   <<ev.node = V2Node(ev.b), "uuid_v2.UUIDv2.Unmarshal", "dce:node", UuidVariant(ev.b) # "rfc4122">>,
                                                   <<UuidVariant(ev.b) # "rfc4122" \/ ev.clk = V2Clock(ev.b), "uuid_v2.UUIDv2.Unmarshal",
                                                     ClockAspect("dce:clock_seq", ev.clk, V2Clock(ev.b), 4, "bits4-5"), FALSE>>,
                                                   <<ev.m = ev.b, "uuid_v2.UUIDv2.Marshal", "roundtrip:bytes", FALSE>> >>)
      [] OTHER -> Bad("trace", "unknown-op", FALSE) /\ FALSE

Init == l = 1
Step == l <= Len(TraceLog) /\ Verdict /\ l' = l + 1
TraceSpec == Init /\ [][Step]_l
TraceAccepted == TLCGet("stats").diameter - 1 = Len(TraceLog)
=============================================================================
