----------------------------- MODULE RSAKeyBlob -----------------------------
(***************************************************************************)
(* BCRYPT_RSAKEY_BLOB (bcrypt.h; the KeyMaterial value of an NGC key       *)
(* credential, MS-ADTS 2.2.20.5):                                          *)
(*                                                                         *)
(*   ULONG Magic        "RSA1" (0x31415352) public key                     *)
(*                      "RSA2" (0x32415352) private key (primes present)   *)
(*   ULONG BitLength    size of the key in bits                            *)
(*   ULONG cbPublicExp  ULONG cbModulus  ULONG cbPrime1  ULONG cbPrime2    *)
(*   PublicExponent[cbPublicExp]  big-endian                               *)
(*   Modulus[cbModulus]           big-endian                               *)
(*   Prime1[cbPrime1] Prime2[cbPrime2]   (private blobs only)              *)
(*                                                                         *)
(* All ULONGs little-endian.  A key VALUE is                               *)
(*   [bits, exp, mod, p1, p2]  with exp = the exponent's big-endian bytes  *)
(* without leading zeros; the blob may carry the exponent on any width     *)
(* cbPublicExp >= Len(exp) (leading zeros), which is the only freedom an   *)
(* encoder has.                                                            *)
(***************************************************************************)
EXTENDS Bytes

RsaMagicPublic == <<82, 83, 65, 49>>
RsaMagicPrivate == <<82, 83, 65, 50>>
RsaIsPublic(k) == k.p1 = <<>> /\ k.p2 = <<>>
RsaMagic(k) == IF RsaIsPublic(k) THEN RsaMagicPublic ELSE RsaMagicPrivate

RECURSIVE RsaStrip(_)
RsaStrip(s) == IF s # <<>> /\ s[1] = 0 THEN RsaStrip(Tail(s)) ELSE s
RsaPad(s, w) == Zeros(w - Len(s)) \o s

RsaHeaderLen == 24
(* RsaEncodeM: the same layout under a given magic -- "RSA1" on a blob that carries primes is a named DEVIATION
   (the public-key magic on private material), available so that the rest of a blob can still be described *)
RsaEncodeM(k, ew, magic) ==
    magic \o LE(k.bits, 4) \o LE(ew, 4) \o LE(Len(k.mod), 4) \o LE(Len(k.p1), 4) \o LE(Len(k.p2), 4)
    \o RsaPad(k.exp, ew) \o k.mod \o k.p1 \o k.p2
RsaEncode(k, ew) ==
    RsaMagic(k) \o LE(k.bits, 4) \o LE(ew, 4) \o LE(Len(k.mod), 4) \o LE(Len(k.p1), 4) \o LE(Len(k.p2), 4)
    \o RsaPad(k.exp, ew) \o k.mod \o k.p1 \o k.p2

(* ULONG fields are read only when they fit TLC's integers (anything >= 2^31 cannot be the size of a part of a
   value that itself is at most 65535 bytes long) *)
RsaU32Fits(b, o) == b[o + 3] < 128
RsaU32(b, o) == b[o] + 256 * b[o + 1] + 65536 * b[o + 2] + 16777216 * b[o + 3]
RsaWellFormed(b) ==
    /\ Len(b) >= RsaHeaderLen
    /\ SubSeq(b, 1, 4) \in {RsaMagicPublic, RsaMagicPrivate}
    /\ \A o \in {5, 9, 13, 17, 21} : RsaU32Fits(b, o)
    /\ RsaU32(b, 9) <= Len(b) /\ RsaU32(b, 13) <= Len(b) /\ RsaU32(b, 17) <= Len(b) /\ RsaU32(b, 21) <= Len(b)
    /\ RsaHeaderLen + RsaU32(b, 9) + RsaU32(b, 13) + RsaU32(b, 17) + RsaU32(b, 21) = Len(b)
RsaDecode(b) ==
    LET ce == RsaU32(b, 9)  cm == RsaU32(b, 13)  c1 == RsaU32(b, 17)  c2 == RsaU32(b, 21)
        o == RsaHeaderLen
    IN [bits |-> RsaU32(b, 5),
        exp |-> RsaStrip(SubSeq(b, o + 1, o + ce)),
        mod |-> SubSeq(b, o + ce + 1, o + ce + cm),
        p1 |-> SubSeq(b, o + ce + cm + 1, o + ce + cm + c1),
        p2 |-> SubSeq(b, o + ce + cm + c1 + 1, o + ce + cm + c1 + c2)]
RsaExpWidth(b) == RsaU32(b, 9)

(* known answer: the header every 2048-bit NGC public key carries in msDS-KeyCredentialLink values
   "RSA1" 00080000 03000000 00010000 00000000 00000000 010001 <modulus> *)
ASSUME LET k == [bits |-> 2048, exp |-> <<1, 0, 1>>, mod |-> Rep(171, 256), p1 |-> <<>>, p2 |-> <<>>]
           b == RsaEncode(k, 3)
       IN /\ SubSeq(b, 1, 27) = <<82,83,65,49, 0,8,0,0, 3,0,0,0, 0,1,0,0, 0,0,0,0, 0,0,0,0, 1,0,1>>
          /\ Len(b) = 27 + 256 /\ RsaWellFormed(b) /\ RsaDecode(b) = k
          /\ RsaDecode(RsaEncode(k, 4)) = k /\ RsaEncode(k, 4)[25] = 0
ASSUME ~RsaWellFormed(<<82,83,65,49, 0,8,0,0, 3,0,0,0, 0,1,0,0, 0,0,0,0, 0,0,0,0, 1,0,1>>)      \* modulus missing
ASSUME RsaStrip(<<0, 0, 3>>) = <<3>> /\ RsaStrip(<<0>>) = <<>>
=============================================================================
