-------------------------- MODULE TraceSMBMessage --------------------------
(***************************************************************************)
(* C03 code -> model.  trace.ndjson holds call sequences recorded on real  *)
(* message.Message objects:                                                *)
(*   new       {type, reply}            NewMessage + AddCommand(New<type>) *)
(*   set       {g, h, val, ref}         header fields := h, one command    *)
(*                                      field := val; ref = what a FRESH   *)
(*                                      message with these values encodes  *)
(*   marshal   {g, err, out}            Marshal on the long-lived object   *)
(*   unmarshal {g, err, panic, type, h} Unmarshal(ref) on the same object  *)
(* TLC follows the calls with the MarshalHistory state (current valuation  *)
(* = (h, ref); ghost acc = what the Parameters/Data accumulators would     *)
(* hold under the AccumulateOnMarshal deviation; dec = the fields have been *)
(* through Unmarshal) and judges:                                          *)
(*   set        header-layout  Take(ref, 32) = HeaderEnc(h)     (2.2.3.1)  *)
(*              framing        the rest of ref is exactly one Frame        *)
(*              command-code   h.command as designated by the structure    *)
(*   marshal    repeat         out = ref  (Encode(fields) and nothing else)*)
(*   unmarshal  own-message-rejected, header-roundtrip (decoded h = h),    *)
(*              roundtrip-type (same structure back), dispatch (the type   *)
(*              SMBDispatch designates for (h.command, reply))             *)
(* A conforming event is a silent step; any other event prints a verdict,  *)
(* after which the object is in a state the specification does not         *)
(* describe: the remaining calls of that program are consumed unjudged.    *)
(***************************************************************************)
EXTENDS SMBHeader, SMBBlocks, SMBDispatch, TLC, TLCExt, Json

VARIABLES l, cur, acc, dec, dead
TraceLog == ndJsonDeserialize("trace.ndjson")
ev == TraceLog[l]

NoObj == [type |-> "", reply |-> FALSE, h |-> DefaultHeader, ref |-> <<>>, g |-> 0]

(* the blocks of an encoding, and the output of the AccumulateOnMarshal deviation for accumulator content a *)
Blocks(ref) == LET p == ParseBlocks(Drop(ref, 32)) IN IF Len(ref) >= 32 /\ p.ok THEN [w |-> p.words, b |-> p.bytes] ELSE [w |-> <<>>, b |-> <<>>]
Plus(a, x) == [w |-> a.w \o x.w, b |-> a.b \o x.b]
DevOut(ref, a) == Take(ref, 32) \o Frame(a.w, a.b)

SetFails(e) ==
    IF e.referr THEN {}
    ELSE (IF Take(e.ref, 32) # HeaderEnc(e.h) THEN {"header-layout"} ELSE {})
         \cup (IF Len(e.ref) < 32 \/ ~Framed(Drop(e.ref, 32)) THEN {"framing"} ELSE {})
MarshalFails(e) ==
    IF e.err THEN {"repeat:marshal-error"}
    ELSE IF e.out = cur.ref THEN {}
    ELSE IF e.out = DevOut(cur.ref, Plus(acc, Blocks(cur.ref))) THEN {"repeat:blocks-accumulate"}
    ELSE IF dec THEN {"repeat:differs:after-unmarshal"} ELSE {"repeat:differs"}
UnmarshalFails(e) ==
    IF e.panic \/ e.err THEN {"own-message-rejected"}
    ELSE (IF e.h # cur.h THEN {"header-roundtrip"} ELSE {})
         \cup (IF e.type # cur.type THEN {"roundtrip-type"} ELSE {})
         \cup (IF DispatchType(cur.h.command, cur.reply) \notin {Unsupported, e.type} THEN {"dispatch:wrong-type"} ELSE {})

RECURSIVE SetToSeq(_)
SetToSeq(S) == IF S = {} THEN <<>> ELSE LET m == CHOOSE m \in S : TRUE IN <<m>> \o SetToSeq(S \ {m})
Report(fails) == /\ dead' = (dead \/ fails # {})
                 /\ \/ fails = {} \/ dead
                    \/ PrintT(ToJson([i |-> l, op |-> ev.op, type |-> cur'.type, p |-> SetToSeq(fails)]))

Init == l = 1 /\ cur = NoObj /\ acc = [w |-> <<>>, b |-> <<>>] /\ dec = FALSE /\ dead = FALSE
Step ==
    /\ l <= Len(TraceLog)
    /\ l' = l + 1
    /\ CASE ev.op = "new" -> /\ cur' = [NoObj EXCEPT !.type = ev.type, !.reply = ev.reply]
                             /\ acc' = [w |-> <<>>, b |-> <<>>]
                             /\ dec' = FALSE
                             /\ dead' = FALSE
         [] ev.op = "set" -> /\ cur' = [cur EXCEPT !.h = ev.h, !.ref = ev.ref, !.g = ev.g]
                             /\ UNCHANGED <<acc, dec>>
                             /\ Report(SetFails(ev) \cup (IF HeaderIsReply(ev.h) # cur.reply THEN {"reply-flag"} ELSE {}))
         [] ev.op = "marshal" -> /\ ev.g = cur.g
                                 /\ UNCHANGED cur
                                 /\ acc' = Plus(acc, Blocks(cur.ref))
                                 /\ UNCHANGED dec
                                 /\ Report(MarshalFails(ev))
         [] ev.op = "unmarshal" -> /\ ev.g = cur.g
                                   /\ UNCHANGED cur
                                   /\ acc' = Blocks(cur.ref)
                                   /\ dec' = TRUE
                                   /\ Report(UnmarshalFails(ev))
         [] OTHER -> FALSE

TraceSpec == Init /\ [][Step]_<<l, cur, acc, dec, dead>>
TraceAccepted == TLCGet("stats").diameter - 1 = Len(TraceLog)
=============================================================================
