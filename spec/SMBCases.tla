------------------------------ MODULE SMBCases ------------------------------
(***************************************************************************)
(* C04 / C05: the case table over the SMB1 command structures.  For every  *)
(* structure of schemas.json TLC enumerates value patterns and emits, per  *)
(* case, the reference encoding (SMBCommands!EncodeCmd): field slots,      *)
(* atoms with their little-endian bytes, the values to store in the Go     *)
(* structure, and the complete wire image.                                 *)
(*   distinct : every free integer byte pairwise distinct (16 + wire position), variable fields of lengths 1,2,3,... *)
(*   zero/max : all free bytes 0x00 / 0xFF, variable fields empty / one element *)
(*   chg f    : "distinct" with only the free bytes of fixed field f changed (+0x80): slot locality *)
(*   len f L  : "distinct" with variable field f holding L elements, count/offset fields kept consistent *)
(***************************************************************************)
EXTENDS SMBCommands

CONSTANTS Lens, PadLens, ArrLens, DialectCounts

VARIABLE c

ASSUME TableWellFormed

Pat(name, f, L) == [name |-> name, f |-> f, L |-> L]
HasFree(S, i) == LET f == S.fields[i]
                     as == FieldAtoms(f)
                 IN /\ IsFixedField(S.name, f)
                    /\ (Len(as) > 1 \/ Entry(S.name, f.name)[3] \in {"free", "or16", "opt"})
                    /\ \E k \in 1..Len(as) : as[k].enc # "const"
(* the widest length a count field of width 1 can describe *)
MaxLen(S, i) == IF \E j \in 1..Len(S.fields) : /\ Entry(S.name, S.fields[j].name)[3] = "len"
                                               /\ Entry(S.name, S.fields[j].name)[4] = S.fields[i].name
                                               /\ SumWidths(FieldAtoms(S.fields[j])) = 1
                THEN 255 ELSE 65535
(* the largest count of a USHORT array in the parameter block: WordCount is one byte, so all words together are at most 255 *)
WordsLimit(S, i) == 255 - EncodeCmd(S, Pat("len", i, 0)).wc
LenSet(S, i) == LET kind == Entry(S.name, S.fields[i].name)[3]
                IN CASE kind \in {"str", "bytes", "rest"} -> {L \in Lens : L <= MaxLen(S, i)}
                     [] kind = "pad" -> PadLens
                     [] kind = "pad0" -> {0, 1}
                     [] kind = "wz" -> ArrLens \cup {20}
                     [] kind = "ranges" -> ArrLens
                     [] kind = "words" -> ArrLens \cup {WordsLimit(S, i) - 1, WordsLimit(S, i)}   \* up to the top of the domain
                     [] kind = "dir43" -> {0, 1, 2}
                     [] kind = "dialects" -> DialectCounts
                     [] OTHER -> {}
Pats(S) == {Pat("distinct", 0, 0), Pat("zero", 0, 0), Pat("max", 0, 0)}
           \cup {Pat("chg", i, 0) : i \in {i \in 1..Len(S.fields) : HasFree(S, i)}}
           \cup (IF IsAndX(S) THEN {Pat("chg", 0, 0)} ELSE {})
           \cup UNION {{Pat("len", i, L) : L \in LenSet(S, i)} : i \in {i \in 1..Len(S.fields) : ~IsFixedField(S.name, S.fields[i])}}

Emit(r) == PrintT(ToJson(r))

(***************************************************************************)
(* Design-level obligations of the specification itself, evaluated by TLC  *)
(* on every case it emits (a failure is an error in the spec: exit 2).     *)
(*  WellLaidOut : the field slots of each block are contiguous, disjoint   *)
(*                and in declared order, cover the block exactly, every    *)
(*                atom lies in its field, and the wire image is            *)
(*                WordCount, words, ByteCount (LE), bytes.                 *)
(*  SlotLocal   : the one-field-changed encoding differs from the          *)
(*                "distinct" one in every free byte of that field's slot   *)
(*                and nowhere else.                                        *)
(***************************************************************************)
WellLaidOut(enc) ==
    LET n == Len(enc.fields)
        base(b) == IF b = "P" THEN 1 ELSE 1 + 2 * enc.wc + 2
        prevSame(k) == {j \in 1..(k - 1) : enc.fields[j].block = enc.fields[k].block}
        sumPrev(k) == LET sum[j \in 0..n] == IF j = 0 THEN 0 ELSE sum[j - 1] + (IF j \in prevSame(k) THEN enc.fields[j].len ELSE 0) IN sum[n]
        blockLen(b) == LET sum[j \in 0..n] == IF j = 0 THEN 0 ELSE sum[j - 1] + (IF enc.fields[j].block = b THEN enc.fields[j].len ELSE 0) IN sum[n]
    IN enc.wf =>            \* a parameter block of odd width has no encoding at all (reported by the binding as param-block-odd)
       /\ \A k \in 1..n : /\ enc.fields[k].off = base(enc.fields[k].block) + sumPrev(k)
                           /\ SubSeq(enc.wire, enc.fields[k].off + 1, enc.fields[k].off + enc.fields[k].len) = enc.fields[k].wire
                           /\ \A m \in 1..Len(enc.fields[k].atoms) :
                                 LET a == enc.fields[k].atoms[m]
                                 IN /\ a.off >= enc.fields[k].off /\ a.off + a.w <= enc.fields[k].off + enc.fields[k].len
                                    /\ SubSeq(enc.wire, a.off + 1, a.off + a.w) = a.bytes
       /\ enc.bc = blockLen("D")
       /\ enc.wf => (blockLen("P") = 2 * enc.wc /\ Len(enc.wire) = 1 + 2 * enc.wc + 2 + enc.bc)
       /\ enc.wire[1] = enc.wc
       /\ enc.wf => SubSeq(enc.wire, 2 + 2 * enc.wc, 3 + 2 * enc.wc) = LEBytes(Numeral(enc.bc, 2))
SlotLocal(S, pat, enc) ==
    pat.name = "chg" =>
       LET base == EncodeCmd(S, Pat("distinct", 0, 0))
           k == CHOOSE k \in 1..Len(enc.fields) : enc.fields[k].name = enc.chg
           fr == enc.fields[k]
           diff == {j \in 1..Len(enc.wire) : enc.wire[j] # base.wire[j]}
           freeBytes == UNION {{a.off + t : t \in 1..a.w} : a \in {fr.atoms[m] : m \in {m \in 1..Len(fr.atoms) : fr.atoms[m].free}}}
       IN /\ Len(enc.wire) = Len(base.wire)
          /\ diff \subseteq (fr.off + 1)..(fr.off + fr.len)
          /\ diff = freeBytes
Checked(S, pat, enc) == /\ Assert(WellLaidOut(enc), <<"specification error: layout obligations fail for", S.name, pat>>)
                        /\ Assert(SlotLocal(S, pat, enc), <<"specification error: slot locality fails for", S.name, pat>>)
                        /\ (enc.alt # <<>> => Assert(WellLaidOut(enc.alt[1]), <<"specification error: alternative layout", S.name, pat>>))

Init == \E k \in 1..Len(Schemas) :
           IF Covered(Schemas[k])
           THEN \E pat \in Pats(Schemas[k]) : LET enc == EncodeCase(Schemas[k], pat)
                                               IN c = <<k, pat>> /\ Checked(Schemas[k], pat, enc) /\ Emit(enc)
           ELSE c = <<k, Pat("uncovered", 0, 0)>> /\ Emit([s |-> Schemas[k].name, pat |-> "uncovered", mode |-> Mode])
Next == FALSE /\ UNCHANGED c
=============================================================================
