------------------------------ MODULE NTLMSSP ------------------------------
(***************************************************************************)
(* NTLMSSP messages, written from [MS-NLMP] section 2.2.1 / 2.2.2.         *)
(*                                                                         *)
(*  NEGOTIATE_MESSAGE (2.2.1.1)        CHALLENGE_MESSAGE (2.2.1.2)         *)
(*   0 Signature "NTLMSSP\0"            0 Signature                        *)
(*   8 MessageType = 1                  8 MessageType = 2                  *)
(*  12 NegotiateFlags                  12 TargetNameFields   (8)           *)
(*  16 DomainNameFields  (8)           20 NegotiateFlags                   *)
(*  24 WorkstationFields (8)           24 ServerChallenge    (8)           *)
(*  32 Version           (8)           32 Reserved           (8)           *)
(*  40 Payload                         40 TargetInfoFields   (8)           *)
(*                                     48 Version            (8)           *)
(*  AUTHENTICATE_MESSAGE (2.2.1.3)     56 Payload                          *)
(*   0 Signature, 8 MessageType = 3                                        *)
(*  12 LmChallengeResponseFields, 20 NtChallengeResponseFields,            *)
(*  28 DomainNameFields, 36 UserNameFields, 44 WorkstationFields,          *)
(*  52 EncryptedRandomSessionKeyFields, 60 NegotiateFlags,                 *)
(*  64 Version (8), 72 MIC (16), 88 Payload                                *)
(*                                                                         *)
(* Every *Fields descriptor is  Len(2) MaxLen(2) BufferOffset(4), all      *)
(* little-endian; BufferOffset counts from the start of the message.       *)
(* "Wire offsets" below are 0-based as in the document; TLA+ sequences are *)
(* 1-based, so wire offset p is b[p + 1].                                  *)
(*                                                                         *)
(* The library CHOOSES flags, version, payload order and the random parts  *)
(* of the responses, so for the two messages it builds the specification   *)
(* is a VALIDATOR (sets of violated aspects, P = implied by property C08,  *)
(* D = model detail); for CHALLENGE, which the library only reads, it is a *)
(* GENERATOR of well-formed messages plus the expected parse.              *)
(***************************************************************************)
EXTENDS Integers, Sequences, FiniteSets, Bytes, Text

NtlmSignature == <<78, 84, 76, 77, 83, 83, 80, 0>>

(* NegotiateFlags bit numbers, 2.2.2.5 (bit 0 = least significant bit of the first wire octet) *)
FUnicode == 0
FOem == 1
FRequestTarget == 2
FSign == 4
FSeal == 5
FDatagram == 6
FLmKey == 7
FNtlm == 9
FAnonymous == 11
FDomainSupplied == 12
FWorkstationSupplied == 13
FAlwaysSign == 15
FTargetTypeDomain == 16
FTargetTypeServer == 17
FExtendedSessionSecurity == 19
FIdentify == 20
FNonNtSessionKey == 22
FTargetInfo == 23
FVersion == 25
F128 == 29
FKeyExch == 30
F56 == 31

FlagBit(S, n) == IF n \in S THEN 2 ^ (n % 8) ELSE 0
FlagByte(S, k) == FlagBit(S, 8 * k) + FlagBit(S, 8 * k + 1) + FlagBit(S, 8 * k + 2) + FlagBit(S, 8 * k + 3)
                + FlagBit(S, 8 * k + 4) + FlagBit(S, 8 * k + 5) + FlagBit(S, 8 * k + 6) + FlagBit(S, 8 * k + 7)
FlagBytes(S) == <<FlagByte(S, 0), FlagByte(S, 1), FlagByte(S, 2), FlagByte(S, 3)>>
HasFlag(fb, n) == (fb[(n \div 8) + 1] \div (2 ^ (n % 8))) % 2 = 1
FlagSet(fb) == { n \in 0..31 : HasFlag(fb, n) }

(* ---- little-endian readers at 0-based wire offset p ---- *)
U16At(b, p) == b[p + 1] + 256 * b[p + 2]
(* 32-bit offsets >= 2^31 cannot be represented in TLC; any such offset is out of every message's bounds *)
U32At(b, p) == IF b[p + 4] >= 128 THEN 2147483647
               ELSE b[p + 1] + 256 * b[p + 2] + 65536 * b[p + 3] + 16777216 * b[p + 4]
Desc(b, p) == [len |-> U16At(b, p), max |-> U16At(b, p + 2), off |-> U32At(b, p + 4)]
DescInBounds(b, d) == d.off <= Len(b) - d.len
DescBytes(b, d) == SubSeq(b, d.off + 1, d.off + d.len)
DescOverlap(d, e) == d.len > 0 /\ e.len > 0 /\ d.off < e.off + e.len /\ e.off < d.off + d.len
DescEncode(len, max, off) == LE(len, 2) \o LE(max, 2) \o LE(off, 4)

(* ---- text ---- *)
IsAscii(cps) == \A i \in 1..Len(cps) : cps[i] < 128
IsBMP(cps) == \A i \in 1..Len(cps) : cps[i] < 65536
(* UTF-16LE without recursion when every code point is in the BMP (long names) *)
UTF16LEFast(cps) == IF IsBMP(cps)
                    THEN [i \in 1..(2 * Len(cps)) |-> IF i % 2 = 1 THEN cps[(i + 1) \div 2] % 256 ELSE cps[i \div 2] \div 256]
                    ELSE UTF16LE(cps)
UTF16Len(cps) == 2 * (Len(cps) + Cardinality({ i \in 1..Len(cps) : cps[i] >= 65536 }))
RECURSIVE UnitsToCPs(_)
UnitsToCPs(u) ==
    IF u = <<>> THEN <<>>
    ELSE IF Len(u) >= 2 /\ u[1] >= 55296 /\ u[1] <= 56319 /\ u[2] >= 56320 /\ u[2] <= 57343
         THEN <<65536 + (u[1] - 55296) * 1024 + (u[2] - 56320)>> \o UnitsToCPs(SubSeq(u, 3, Len(u)))
         ELSE <<u[1]>> \o UnitsToCPs(Tail(u))
UnUTF16LE(b) == LET u == [i \in 1..(Len(b) \div 2) |-> b[2 * i - 1] + 256 * b[2 * i]] IN
                IF \A i \in 1..Len(u) : u[i] < 55296 \/ u[i] > 57343 THEN u ELSE UnitsToCPs(u)

(* the octets of a name field carry `name` in the given character set.
   Unicode = UTF-16LE (2.2.1.x "Unicode" = UTF-16LE, [MS-NLMP] 1.1).  OEM: MS-NLMP does not fix the code page,
   so only 7-bit names can be judged; for other names nothing but non-emptiness is required.
   fold = compare modulo simple case mapping (the sender may canonicalise case). *)
NameCarried(bytes, name, unicode, fold) ==
    IF unicode THEN /\ Len(bytes) % 2 = 0
                    /\ LET cps == UnUTF16LE(bytes) IN IF fold THEN Upper(cps) = Upper(name) ELSE cps = name
    ELSE IF IsAscii(name) THEN (IF fold THEN Upper(bytes) = Upper(name) ELSE bytes = name)
    ELSE bytes # <<>>
NameEncodedLen(name, unicode) == IF unicode THEN UTF16Len(name) ELSE Len(name)

(* ---- VERSION 2.2.2.10 ---- *)
VersionEncode(major, minor, build, rev) == <<major, minor>> \o LE(build, 2) \o <<0, 0, 0, rev>>
NtlmRevisionW2K3 == 15

(* ======================================================================== *)
(* Validators.  A field is [n |-> name of the field, d |-> descriptor].     *)

DescViolations(b, f, hdr) ==
    (IF f.d.max # f.d.len THEN {"desc:" \o f.n \o ":maxlen!=len"} ELSE {})
    \cup (IF f.d.len > 0 /\ f.d.off < hdr THEN {"desc:" \o f.n \o ":offset-inside-header"} ELSE {})
    \cup (IF f.d.len > 0 /\ ~DescInBounds(b, f.d) THEN {"desc:" \o f.n \o ":out-of-bounds"} ELSE {})

OverlapViolations(b, fs) ==
    { fs[i].n \o "/" \o fs[j].n : <<i, j>> \in { p \in (1..Len(fs)) \X (1..Len(fs)) :
          /\ p[1] < p[2]
          /\ DescInBounds(b, fs[p[1]].d) /\ DescInBounds(b, fs[p[2]].d)
          /\ DescOverlap(fs[p[1]].d, fs[p[2]].d) } }

(* the octets a descriptor designates (empty for a zero-length field, whatever its offset) *)
Designated(b, d) == IF d.len = 0 THEN <<>> ELSE DescBytes(b, d)
ContentAspect(f, name, unicode) ==
    "content:" \o f.n \o (IF NameEncodedLen(name, unicode) > 65535 THEN ":name-exceeds-16-bit-length" ELSE "")
(* the bytes the descriptor designates are exactly the expected name *)
ContentViolations(b, f, name, unicode, fold) ==
    IF f.d.len > 0 /\ ~DescInBounds(b, f.d) THEN {}       \* already reported as a descriptor violation
    ELSE IF NameCarried(Designated(b, f.d), name, unicode, fold) THEN {}
    ELSE {ContentAspect(f, name, unicode)}
(* NEGOTIATE: 2.2.1.1 says the two names are OEM whatever the flags; a sender that announces Unicode may
   therefore carry a 7-bit name either way *)
NegotiateContentViolations(b, f, name, unicode) ==
    IF f.d.len > 0 /\ ~DescInBounds(b, f.d) THEN {}
    ELSE IF NameCarried(Designated(b, f.d), name, unicode, TRUE) THEN {}
    ELSE IF unicode /\ NameCarried(Designated(b, f.d), name, FALSE, TRUE) THEN {}     \* the OEM reading
    ELSE {ContentAspect(f, name, unicode)}

(* D: octets after the fixed header that no descriptor designates *)
Undesignated(b, fs, from) ==
    \E i \in (from + 1)..Len(b) :
        \A k \in 1..Len(fs) : ~(DescInBounds(b, fs[k].d) /\ fs[k].d.off < i /\ i <= fs[k].d.off + fs[k].d.len)
ZeroLenOutside(b, fs, hdr) == \E k \in 1..Len(fs) : fs[k].d.len = 0 /\ (fs[k].d.off < hdr \/ fs[k].d.off > Len(b))

VersionDrift(b, p, flagged) ==          \* p = wire offset of the 8-octet VERSION
    IF flagged THEN (IF b[p + 5] # 0 \/ b[p + 6] # 0 \/ b[p + 7] # 0 THEN {"version:reserved-not-zero"} ELSE {})
                    \cup (IF b[p + 8] # NtlmRevisionW2K3 THEN {"version:revision-not-15"} ELSE {})
    ELSE IF SubSeq(b, p + 1, p + 8) # Zeros(8) THEN {"version:not-zero-without-flag"} ELSE {}

(* ---- NEGOTIATE_MESSAGE built for (dom, ws) given as code point sequences ---- *)
NegotiateFields(b) == << [n |-> "DomainName", d |-> Desc(b, 16)], [n |-> "Workstation", d |-> Desc(b, 24)] >>

NegotiateViolations(b, dom, ws) ==
    IF Len(b) < 32 THEN {"header:truncated"}
    ELSE LET fl == SubSeq(b, 13, 16)
             hdr == IF HasFlag(fl, FVersion) THEN 40 ELSE 32
             uni == HasFlag(fl, FUnicode)
             fs == NegotiateFields(b) IN
         IF Len(b) < hdr THEN {"header:truncated"}
         ELSE (IF SubSeq(b, 1, 8) # NtlmSignature THEN {"signature"} ELSE {})
              \cup (IF SubSeq(b, 9, 12) # <<1, 0, 0, 0>> THEN {"message-type"} ELSE {})
              \cup (IF ~uni /\ ~HasFlag(fl, FOem) THEN {"charset:neither-unicode-nor-oem-flag"} ELSE {})
              \cup DescViolations(b, fs[1], hdr) \cup DescViolations(b, fs[2], hdr)
              \cup { "overlap:" \o s : s \in OverlapViolations(b, fs) }
              \cup NegotiateContentViolations(b, fs[1], dom, uni) \cup NegotiateContentViolations(b, fs[2], ws, uni)
              \* a name whose *_SUPPLIED flag is clear MUST be ignored by the receiver: it is not conveyed
              \cup (IF fs[1].d.len > 0 /\ ~HasFlag(fl, FDomainSupplied) THEN {"flag:DomainName:supplied-flag-clear"} ELSE {})
              \cup (IF fs[2].d.len > 0 /\ ~HasFlag(fl, FWorkstationSupplied) THEN {"flag:Workstation:supplied-flag-clear"} ELSE {})

NegotiateDrift(b, dom, ws) ==
    IF Len(b) < 40 THEN {}
    ELSE LET fl == SubSeq(b, 13, 16)
             fs == NegotiateFields(b) IN
         VersionDrift(b, 32, HasFlag(fl, FVersion))
         \cup (IF Undesignated(b, fs, 40) THEN {"payload:undesignated-octets"} ELSE {})
         \cup (IF ZeroLenOutside(b, fs, 40) THEN {"desc:zero-length-offset-outside-message"} ELSE {})
         \cup (IF HasFlag(fl, FUnicode) /\ ((dom # <<>> /\ fs[1].d.len = UTF16Len(dom)) \/ (ws # <<>> /\ fs[2].d.len = UTF16Len(ws)))
               THEN {"charset:negotiate-names-utf16-but-2.2.1.1-says-oem"} ELSE {})
         \cup (IF (HasFlag(fl, FDomainSupplied) /\ fs[1].d.len = 0) \/ (HasFlag(fl, FWorkstationSupplied) /\ fs[2].d.len = 0)
               THEN {"flag:supplied-flag-set-for-empty-name"} ELSE {})

(* The two response fields are opaque here (their cryptographic content is property C02's), but their SHAPES are
   fixed by 2.2.2.3 - 2.2.2.8: LM_RESPONSE / LMv2_RESPONSE are 24 octets (Z(1) or nothing for anonymous);
   NTLM_RESPONSE is 24 octets; NTLMv2_RESPONSE is a 16-octet proof followed by NTLMv2_CLIENT_CHALLENGE, which
   starts RespType = 1, HiRespType = 1 and is at least 28 + 4 octets (empty AV list).  A descriptor that
   designates anything else does not designate its field. *)
ResponseShapeViolations(b, lm, nt) ==
    (IF DescInBounds(b, lm.d) /\ lm.d.len \notin {0, 1, 24} THEN {"response:LmChallengeResponse:not-24-octets"} ELSE {})
    \cup (IF ~DescInBounds(b, nt.d) \/ nt.d.len \in {0, 24} THEN {}
          ELSE IF nt.d.len >= 48 /\ b[nt.d.off + 17] = 1 /\ b[nt.d.off + 18] = 1 THEN {}
          ELSE {"response:NtChallengeResponse:neither-24-octets-nor-ntlmv2"})

(* ---- AUTHENTICATE_MESSAGE built in reply to a challenge with flags cf (4 octets) ---- *)
AuthenticateFields(b) ==
    << [n |-> "LmChallengeResponse", d |-> Desc(b, 12)], [n |-> "NtChallengeResponse", d |-> Desc(b, 20)],
       [n |-> "DomainName", d |-> Desc(b, 28)], [n |-> "UserName", d |-> Desc(b, 36)],
       [n |-> "Workstation", d |-> Desc(b, 44)], [n |-> "EncryptedRandomSessionKey", d |-> Desc(b, 52)] >>

AuthenticateViolations(b, cf, user, dom, ws) ==
    IF Len(b) < 64 THEN {"header:truncated"}
    ELSE LET fl == SubSeq(b, 61, 64)
             hdr == IF HasFlag(fl, FVersion) THEN 72 ELSE 64      \* the MIC (and, unflagged, the Version) may be absent: 2.2.1.3
             uni == HasFlag(fl, FUnicode)
             fs == AuthenticateFields(b) IN
         IF Len(b) < hdr THEN {"header:truncated"}
         ELSE (IF SubSeq(b, 1, 8) # NtlmSignature THEN {"signature"} ELSE {})
              \cup (IF SubSeq(b, 9, 12) # <<3, 0, 0, 0>> THEN {"message-type"} ELSE {})
              \cup (IF ~uni /\ ~HasFlag(fl, FOem) THEN {"charset:neither-unicode-nor-oem-flag"} ELSE {})
              \cup (IF uni # HasFlag(cf, FUnicode) THEN {"charset:differs-from-challenge"} ELSE {})
              \cup UNION { DescViolations(b, fs[k], hdr) : k \in 1..6 }
              \cup { "overlap:" \o s : s \in OverlapViolations(b, fs) }
              \cup ResponseShapeViolations(b, fs[1], fs[2])
              \cup ContentViolations(b, fs[3], dom, uni, TRUE)
              \cup ContentViolations(b, fs[4], user, uni, FALSE)
              \cup ContentViolations(b, fs[5], ws, uni, TRUE)

AuthenticateDrift(b, cf) ==
    IF Len(b) < 88 THEN {"layout:shorter-than-88-octet-header"}
    ELSE LET fl == SubSeq(b, 61, 64)
             fs == AuthenticateFields(b) IN
         VersionDrift(b, 64, HasFlag(fl, FVersion))
         \cup (IF Undesignated(b, fs, 88) THEN {"payload:undesignated-octets"} ELSE {})
         \cup (IF ZeroLenOutside(b, fs, 88) THEN {"desc:zero-length-offset-outside-message"} ELSE {})
         \cup (IF \E k \in 1..6 : fs[k].d.len > 0 /\ fs[k].d.off < 88 THEN {"layout:payload-inside-88-octet-header"} ELSE {})

(* ======================================================================== *)
(* Encoders for the two client messages (used for the validators' own known *)
(* answers and for the vacuity guards; payload order is a parameter the     *)
(* document leaves free).                                                   *)
NegotiateEncode(flags, dom, ws, ver, domFirst) ==
    LET od == IF domFirst THEN 40 ELSE 40 + Len(ws)
        ow == IF domFirst THEN 40 + Len(dom) ELSE 40 IN
    NtlmSignature \o LE(1, 4) \o FlagBytes(flags)
    \o DescEncode(Len(dom), Len(dom), od) \o DescEncode(Len(ws), Len(ws), ow) \o ver
    \o (IF domFirst THEN dom \o ws ELSE ws \o dom)

(* payload order of the document's own examples: domain, user, workstation, LM, NT, session key *)
AuthenticateEncode(flags, lm, nt, dom, user, ws, sk, ver, withMic) ==
    LET h == IF withMic THEN 88 ELSE 72
        o1 == h
        o2 == o1 + Len(dom)
        o3 == o2 + Len(user)
        o4 == o3 + Len(ws)
        o5 == o4 + Len(lm)
        o6 == o5 + Len(nt) IN
    NtlmSignature \o LE(3, 4)
    \o DescEncode(Len(lm), Len(lm), o4) \o DescEncode(Len(nt), Len(nt), o5)
    \o DescEncode(Len(dom), Len(dom), o1) \o DescEncode(Len(user), Len(user), o2) \o DescEncode(Len(ws), Len(ws), o3)
    \o DescEncode(Len(sk), Len(sk), o6) \o FlagBytes(flags) \o ver \o (IF withMic THEN Zeros(16) ELSE <<>>)
    \o dom \o user \o ws \o lm \o nt \o sk

(* ======================================================================== *)
(* CHALLENGE_MESSAGE generator.                                             *)
(*  c  = [flags: set of bit numbers, tname: octets, tinfo: octets, sc: 8    *)
(*        octets, ver: 8 octets]                                            *)
(*  pl = [infoFirst: BOOLEAN, pre, mid, post: pad lengths, slack: MaxLen -  *)
(*        Len (2.2.1.2: MaxLen SHOULD equal Len and MUST be ignored on      *)
(*        receipt)]                                                         *)
(* AV_PAIR list 2.2.2.1: AvId(2) AvLen(2) Value, terminated by MsvAvEOL     *)
(* (AvId 0, AvLen 0).                                                       *)
MsvAvEOL == 0
MsvAvNbComputerName == 1
MsvAvNbDomainName == 2
MsvAvDnsComputerName == 3
MsvAvDnsDomainName == 4
MsvAvDnsTreeName == 5
MsvAvFlags == 6
MsvAvTimestamp == 7
MsvAvSingleHost == 8
MsvAvTargetName == 9
MsvAvChannelBindings == 10

RECURSIVE AvPairsEncode(_)
AvPairsEncode(pairs) == IF pairs = <<>> THEN <<>>
                        ELSE LE(pairs[1][1], 2) \o LE(Len(pairs[1][2]), 2) \o pairs[1][2] \o AvPairsEncode(Tail(pairs))
AvEncode(pairs) == AvPairsEncode(pairs) \o <<0, 0, 0, 0>>

PadByte == 238
(* nover: a CHALLENGE without NTLMSSP_NEGOTIATE_VERSION may omit the 8-octet Version field altogether (older
   implementations; the payload then starts at offset 48) -- still well-formed, the descriptors say where the fields are *)
OmitsVersion(c, pl) == "nover" \in DOMAIN pl /\ pl.nover /\ FVersion \notin c.flags
ChallengeEncode(c, pl) ==
    LET a == IF pl.infoFirst THEN c.tinfo ELSE c.tname
        z == IF pl.infoFirst THEN c.tname ELSE c.tinfo
        oa == (IF OmitsVersion(c, pl) THEN 48 ELSE 56) + pl.pre
        oz == oa + Len(a) + pl.mid
        on == IF pl.infoFirst THEN oz ELSE oa
        oi == IF pl.infoFirst THEN oa ELSE oz IN
    NtlmSignature \o LE(2, 4)
    \o DescEncode(Len(c.tname), Len(c.tname) + pl.slack, on)
    \o FlagBytes(c.flags) \o c.sc \o Zeros(8)
    \o DescEncode(Len(c.tinfo), Len(c.tinfo) + pl.slack, oi)
    \o (IF FVersion \in c.flags THEN c.ver ELSE IF OmitsVersion(c, pl) THEN <<>> ELSE Zeros(8))
    \o Rep(PadByte, pl.pre) \o a \o Rep(PadByte, pl.mid) \o z \o Rep(PadByte, pl.post)

NaturalLayout == [infoFirst |-> FALSE, pre |-> 0, mid |-> 0, post |-> 0, slack |-> 0]

(* what a receiver must obtain.  When REQUEST_TARGET (resp. TARGET_INFO) is clear the corresponding
   descriptor "MUST be ignored on receipt" (2.2.1.2) although servers are seen to fill it in (the document's
   own example 4.2.4.3 does): tnameLoose / tinfoLoose mark those cases, where both readings are accepted. *)
ChallengeExpect(c, pairs) ==
    [flags |-> FlagBytes(c.flags), sc |-> c.sc, tname |-> c.tname, tinfo |-> c.tinfo,
     ver |-> IF FVersion \in c.flags THEN c.ver ELSE Zeros(8),
     pairs |-> pairs,
     tnameLoose |-> (FRequestTarget \notin c.flags /\ c.tname # <<>>),
     tinfoLoose |-> (FTargetInfo \notin c.flags /\ c.tinfo # <<>>)]

(* ======================================================================== *)
(* Known answers.                                                           *)
A2(s) == UTF16LE(s)
ServerCPs == <<83, 101, 114, 118, 101, 114>>       \* "Server"
DomainCPs == <<68, 111, 109, 97, 105, 110>>        \* "Domain"
UserCPs == <<85, 115, 101, 114>>                   \* "User"
ComputerCPs == <<67, 79, 77, 80, 85, 84, 69, 82>>  \* "COMPUTER"

(* [MS-NLMP] 4.2.2.3 / 4.2.4.3: flag words as printed *)
ASSUME FlagBytes({FUnicode, FOem, FSign, FSeal, FNtlm, FAlwaysSign, FTargetTypeServer, FVersion, F128, FKeyExch, F56})
       = <<51, 130, 2, 226>>                                                       \* 0xE2028233
ASSUME FlagSet(<<51, 130, 138, 226>>) = {FUnicode, FOem, FSign, FSeal, FNtlm, FAlwaysSign, FTargetTypeServer,
                                         FExtendedSessionSecurity, FTargetInfo, FVersion, F128, FKeyExch, F56}   \* 0xE28A8233

(* [MS-NLMP] 4.2.4.3 CHALLENGE_MESSAGE, octet for octet *)
Ex4243Challenge ==
    <<78, 84, 76, 77, 83, 83, 80, 0, 2, 0, 0, 0, 12, 0, 12, 0, 56, 0, 0, 0, 51, 130, 138, 226,
      1, 35, 69, 103, 137, 171, 205, 239, 0, 0, 0, 0, 0, 0, 0, 0, 36, 0, 36, 0, 68, 0, 0, 0,
      6, 0, 112, 23, 0, 0, 0, 15,
      83, 0, 101, 0, 114, 0, 118, 0, 101, 0, 114, 0,
      2, 0, 12, 0, 68, 0, 111, 0, 109, 0, 97, 0, 105, 0, 110, 0,
      1, 0, 12, 0, 83, 0, 101, 0, 114, 0, 118, 0, 101, 0, 114, 0,
      0, 0, 0, 0>>
ASSUME ChallengeEncode([flags |-> FlagSet(<<51, 130, 138, 226>>), tname |-> A2(ServerCPs),
                        tinfo |-> AvEncode(<< <<MsvAvNbDomainName, A2(DomainCPs)>>, <<MsvAvNbComputerName, A2(ServerCPs)>> >>),
                        sc |-> <<1, 35, 69, 103, 137, 171, 205, 239>>, ver |-> VersionEncode(6, 0, 6000, 15)],
                       NaturalLayout) = Ex4243Challenge

(* [MS-NLMP] 4.2.2.3 AUTHENTICATE_MESSAGE (NTLMv1, no MIC: 72-octet header), octet for octet *)
Ex4223Lm == <<152, 222, 247, 184, 127, 136, 170, 93, 175, 226, 223, 119, 150, 136, 161, 114, 222, 241, 28, 125, 92, 205, 239, 19>>
Ex4223Nt == <<103, 196, 48, 17, 243, 2, 152, 162, 173, 53, 236, 230, 79, 22, 51, 28, 68, 189, 190, 217, 39, 132, 31, 148>>
Ex4223Sk == <<81, 136, 34, 177, 179, 243, 80, 200, 149, 134, 130, 236, 187, 62, 60, 183>>
Ex4223Authenticate ==
    <<78, 84, 76, 77, 83, 83, 80, 0, 3, 0, 0, 0, 24, 0, 24, 0, 108, 0, 0, 0, 24, 0, 24, 0, 132, 0, 0, 0,
      12, 0, 12, 0, 72, 0, 0, 0, 8, 0, 8, 0, 84, 0, 0, 0, 16, 0, 16, 0, 92, 0, 0, 0, 16, 0, 16, 0, 156, 0, 0, 0,
      53, 130, 128, 226, 5, 1, 40, 10, 0, 0, 0, 15>>
    \o A2(DomainCPs) \o A2(UserCPs) \o A2(ComputerCPs) \o Ex4223Lm \o Ex4223Nt \o Ex4223Sk
ASSUME AuthenticateEncode(FlagSet(<<53, 130, 128, 226>>), Ex4223Lm, Ex4223Nt, A2(DomainCPs), A2(UserCPs), A2(ComputerCPs),
                          Ex4223Sk, VersionEncode(5, 1, 2600, 15), FALSE) = Ex4223Authenticate
ASSUME AuthenticateViolations(Ex4223Authenticate, <<51, 130, 2, 226>>, UserCPs, DomainCPs, ComputerCPs) = {}
ASSUME AuthenticateViolations(Ex4223Authenticate, <<51, 130, 2, 226>>, UserCPs, Lower(DomainCPs), Lower(ComputerCPs)) = {}
ASSUME AuthenticateViolations(Ex4223Authenticate, <<51, 130, 2, 226>>, Lower(UserCPs), DomainCPs, ComputerCPs) = {"content:UserName"}
ASSUME AuthenticateViolations(Ex4223Authenticate, <<50, 130, 2, 226>>, UserCPs, DomainCPs, ComputerCPs) = {"charset:differs-from-challenge"}

(* the validators see each kind of damage (one aspect each) *)
TweakAt(b, p, v) == [b EXCEPT ![p + 1] = v]
ASSUME "signature" \in AuthenticateViolations(TweakAt(Ex4223Authenticate, 3, 0), <<51, 130, 2, 226>>, UserCPs, DomainCPs, ComputerCPs)
ASSUME AuthenticateViolations(TweakAt(Ex4223Authenticate, 8, 1), <<51, 130, 2, 226>>, UserCPs, DomainCPs, ComputerCPs) = {"message-type"}
ASSUME AuthenticateViolations(TweakAt(Ex4223Authenticate, 30, 13), <<51, 130, 2, 226>>, UserCPs, DomainCPs, ComputerCPs)
       = {"desc:DomainName:maxlen!=len"}
ASSUME AuthenticateViolations(TweakAt(Ex4223Authenticate, 32, 74), <<51, 130, 2, 226>>, UserCPs, DomainCPs, ComputerCPs)
       = {"content:DomainName", "overlap:DomainName/UserName"}                 \* domain offset 72 -> 74
ASSUME AuthenticateViolations(TweakAt(Ex4223Authenticate, 56, 160), <<51, 130, 2, 226>>, UserCPs, DomainCPs, ComputerCPs)
       = {"desc:EncryptedRandomSessionKey:out-of-bounds"}                     \* session key offset 156 -> 160
ASSUME AuthenticateViolations(TweakAt(Ex4223Authenticate, 12, 40), <<51, 130, 2, 226>>, UserCPs, DomainCPs, ComputerCPs)
       = {"desc:LmChallengeResponse:maxlen!=len", "overlap:LmChallengeResponse/NtChallengeResponse",
          "response:LmChallengeResponse:not-24-octets"}                                                  \* LM len 24 -> 40
ASSUME AuthenticateViolations(TweakAt(Ex4223Authenticate, 51, 128), <<51, 130, 2, 226>>, UserCPs, DomainCPs, ComputerCPs)
       = {"desc:Workstation:out-of-bounds"}                                   \* offset >= 2^31

V2Nt == Pattern(5, 16) \o <<1, 1, 0, 0, 0, 0, 0, 0>> \o Pattern(6, 8) \o Pattern(7, 8) \o Zeros(4) \o <<0, 0, 0, 0>> \o Zeros(4)
V2Auth(lm, nt) == AuthenticateEncode({FUnicode, FNtlm, FExtendedSessionSecurity, FVersion}, lm, nt, A2(DomainCPs), A2(UserCPs),
                                     A2(ComputerCPs), <<>>, VersionEncode(10, 0, 18362, 15), TRUE)
ASSUME AuthenticateViolations(V2Auth(Pattern(9, 24), V2Nt), <<1, 130, 8, 2>>, UserCPs, DomainCPs, ComputerCPs) = {}
ASSUME AuthenticateDrift(V2Auth(Pattern(9, 24), V2Nt), <<1, 130, 8, 2>>) = {}
ASSUME AuthenticateViolations(V2Auth(V2Nt, Pattern(9, 24)), <<1, 130, 8, 2>>, UserCPs, DomainCPs, ComputerCPs)
       = {"response:LmChallengeResponse:not-24-octets"}                           \* the two descriptors swapped
ASSUME AuthenticateViolations(V2Auth(Pattern(9, 24), Tail(V2Nt)), <<1, 130, 8, 2>>, UserCPs, DomainCPs, ComputerCPs)
       = {"response:NtChallengeResponse:neither-24-octets-nor-ntlmv2"}

NegEx(flags, domFirst) == NegotiateEncode(flags, <<67, 79, 82, 80>>, <<87, 75, 83>>, VersionEncode(10, 0, 18362, 15), domFirst)
NegFlagsOem == {FOem, FNtlm, FDomainSupplied, FWorkstationSupplied, FVersion}
ASSUME \A o \in BOOLEAN : NegotiateViolations(NegEx(NegFlagsOem, o), <<99, 111, 114, 112>>, <<119, 107, 115>>) = {}
ASSUME \A o \in BOOLEAN : NegotiateDrift(NegEx(NegFlagsOem, o), <<99, 111, 114, 112>>, <<119, 107, 115>>) = {}
ASSUME NegotiateViolations(NegEx(NegFlagsOem, TRUE), <<99, 111, 114, 113>>, <<119, 107, 115>>) = {"content:DomainName"}
ASSUME NegotiateViolations(NegEx(NegFlagsOem \ {FWorkstationSupplied}, TRUE), <<99, 111, 114, 112>>, <<119, 107, 115>>)
       = {"flag:Workstation:supplied-flag-clear"}
ASSUME NegotiateViolations(NegEx(NegFlagsOem \ {FOem}, TRUE), <<99, 111, 114, 112>>, <<119, 107, 115>>)
       = {"charset:neither-unicode-nor-oem-flag"}
ASSUME NegotiateViolations(TweakAt(NegEx(NegFlagsOem, TRUE), 28, 39), <<99, 111, 114, 112>>, <<119, 107, 115>>)
       = {"desc:Workstation:offset-inside-header", "content:Workstation", "overlap:DomainName/Workstation"}    \* workstation offset 44 -> 39
ASSUME NegotiateViolations(NegotiateEncode({FUnicode, FNtlm, FDomainSupplied, FVersion}, A2(<<233, 128512>>), <<>>,
                                           VersionEncode(10, 0, 18362, 15), TRUE), <<201, 128512>>, <<>>) = {}
ASSUME UnUTF16LE(A2(<<97, 128512, 1046, 65535, 65536>>)) = <<97, 128512, 1046, 65535, 65536>>
ASSUME UTF16LEFast(<<97, 1046, 8364>>) = UTF16LE(<<97, 1046, 8364>>) /\ UTF16Len(<<97, 128512>>) = 6
=============================================================================
