------------------------------ MODULE C03Cases ------------------------------
(***************************************************************************)
(* C03 model -> code: enumerated cases of the SMB1 envelope.               *)
(*   "hdr"   header values (0 / max / ascending / descending bytes, each   *)
(*           field alone all-ones, seeded patterns) with the 32 bytes      *)
(*           MS-CIFS 2.2.3.1 prescribes, the three readings of the         *)
(*           SecurityFeatures bytes, PID and reply flag, and a SetPID step *)
(*   "disp"  ALL 256 command codes x reply flag with the structure name    *)
(*           MS-CIFS designates (SMBDispatch) and a minimal message        *)
(*   "blk"   block framing: word counts x byte counts up to 255 / 65535    *)
(***************************************************************************)
EXTENDS SMBHeader, SMBBlocks, SMBDispatch, TLC, Json

CONSTANTS Seed, Kinds, WordCounts, ByteCounts, NRandom

VARIABLE c

HeaderPatterns ==
    { Zeros(32), Rep(255, 32), [i \in 1..32 |-> i], [i \in 1..32 |-> 256 - i] }
    \cup { WireOneHot(HeaderSchema, nm) : nm \in WireNames(HeaderSchema) }
    \cup { Pattern((Seed * 43 + i) % 65537, 32) : i \in 1..NRandom }
HeaderVals == { HeaderDec(p).v : p \in HeaderPatterns }
              \cup { [HeaderDec(p).v EXCEPT !.protocol = SMBMagic] : p \in HeaderPatterns }
PidOf(h) == <<(h.uid * 7 + h.mid + 40503) % 65536, (h.tid * 3 + h.pidhigh + 4660) % 65536>>     \* a value for the SetPID step

AnyBytes(k, n) == [i \in 1..n |-> (i * 167 + (Seed + k) * 13 + (i \div 256) * 5) % 256]
DispHeader(code, reply) == [DefaultHeader EXCEPT !.command = code, !.flags = (IF reply THEN 128 ELSE 0) + ((code * 37) % 128),
                                                 !.mid = code + 1, !.tid = 65535 - code]
BlkHeader == [DefaultHeader EXCEPT !.command = 17, !.flags = 24, !.mid = 7]       \* SMB_COM_PROCESS_EXIT request: a command without fields

Emit(r) == PrintT(ToJson(r))

Init ==
    \/ /\ "hdr" \in Kinds
       /\ \E h \in HeaderVals :
            /\ c = <<"hdr", h>>
            /\ Emit([k |-> "hdr", h |-> h, enc |-> HeaderEnc(h), connless |-> WireDecode(SecConnlessSchema, h.security).v,
                     pid |-> HeaderPID(h), reply |-> HeaderIsReply(h), setpid |-> PidOf(h),
                     after |-> HeaderEnc(HeaderWithPID(h, PidOf(h))),
                     law |-> /\ HeaderDec(HeaderEnc(h) \o <<1, 2, 3>>) = [ok |-> TRUE, n |-> 32, v |-> h]
                             /\ SecEnc("connless", WireDecode(SecConnlessSchema, h.security).v) = h.security
                             /\ HeaderPID(HeaderWithPID(h, PidOf(h))) = PidOf(h)])
    \/ /\ "disp" \in Kinds
       /\ \E code \in 0..255, reply \in BOOLEAN :
            /\ c = <<"disp", code, reply>>
            /\ LET h == DispHeader(code, reply) IN
               Emit([k |-> "disp", code |-> code, reply |-> reply, type |-> DispatchType(code, reply), h |-> h,
                     msg |-> HeaderEnc(h) \o Frame(<<>>, <<>>),
                     law |-> HeaderIsReply(h) = reply /\ Len(HeaderEnc(h) \o Frame(<<>>, <<>>)) = MessageLen(0, 0)])
    \/ /\ "blk" \in Kinds
       /\ \E wc \in WordCounts, bc \in ByteCounts :
            /\ c = <<"blk", wc, bc>>
            /\ LET w == AnyBytes(wc, 2 * wc)
                   b == AnyBytes(bc + 1, bc)
                   m == HeaderEnc(BlkHeader) \o Frame(w, b)
               IN Emit([k |-> "blk", wc |-> wc, bc |-> bc, words |-> w, bytes |-> b, frame |-> Frame(w, b), msg |-> m,
                        law |-> /\ BlocksOK(w, b) /\ Len(m) = MessageLen(wc, bc) /\ Framed(Frame(w, b))
                                /\ ParseBlocks(Frame(w, b) \o <<1>>) = [ok |-> TRUE, words |-> w, bytes |-> b, n |-> FrameLen(wc, bc)]])
Next == FALSE /\ UNCHANGED c
=============================================================================
