------------------------- MODULE TraceConstTables -------------------------
(***************************************************************************)
(* Trace validation (code -> model) for the constant tables of C19.        *)
(* trace.ndjson: for every table a "begin" line, one "decl" line per       *)
(* constant the SOURCE declares (enumerated with go/parser + go/types),    *)
(* one "obs" line per constant with what the COMPILED package answered     *)
(* (String(), Error()), and an "end" line.  Every line must be a step of   *)
(* ConstTables; each judgment of ConstTables is evaluated at every "obs"   *)
(* step and, when it does not hold, TLC prints one verdict record (so that *)
(* every offending constant is reported, not only the first) which the     *)
(* check turns into a failure with a (site, aspect) identity.  The trace   *)
(* itself is accepted when every line was consumed.                        *)
(***************************************************************************)
EXTENDS ConstTables, TLCExt, Json

VARIABLE l
TraceLog == ndJsonDeserialize("trace.ndjson")
ev == TraceLog[l]
tvars == <<tab, declared, seen, observed, l>>

TraceInit == CtInit /\ l = 1

Verdicts(e) ==
    (IF NotPlaceholder(e.short, e.name, e.fb) THEN {} ELSE {[inv |-> "NotPlaceholder", p |-> TRUE]})
    \cup (IF NameInjective(e.v, e.name) THEN {} ELSE {[inv |-> "NameInjective", p |-> TRUE]})
    \cup (IF ErrorNonNil(e.v, e.errnil) THEN {} ELSE {[inv |-> "ErrorNonNil", p |-> TRUE]})
    \cup (IF ErrorMentionsCode(e.v, e.errnil, e.err) THEN {} ELSE {[inv |-> "ErrorMentionsCode", p |-> TRUE]})
    \cup (IF IsDeclared(e.short, e.v) THEN {} ELSE {[inv |-> "ObservedIsDeclared", p |-> TRUE]})
    \cup (IF OwnName(e.v, e.name) THEN {} ELSE {[inv |-> "OwnName", p |-> FALSE]})
    \cup (IF SuccessIsNil(e.v, e.errnil) THEN {} ELSE {[inv |-> "SuccessIsNil", p |-> FALSE]})

Report(e, vs) == \A x \in vs : PrintT(ToJson([op |-> "verdict", t |-> e.t, c |-> e.c, inv |-> x.inv, p |-> x.p, name |-> e.name,
                                              v |-> e.v, other |-> IF e.name \in DOMAIN seen THEN seen[e.name] ELSE <<>>]))

TraceStep ==
    /\ l <= Len(TraceLog)
    /\ l' = l + 1
    /\ CASE ev.op = "begin" -> Begin(ev.t, ev.conv, ev.haserr)
         [] ev.op = "decl"  -> ev.t = tab.t /\ Declare(ev.c, ev.short, ev.v)
         [] ev.op = "obs"   -> /\ ev.t = tab.t
                               /\ Report(ev, Verdicts(ev))
                               /\ Observe(ev.c, ev.short, ev.v, ev.name)
         [] ev.op = "end"   -> /\ ev.t = tab.t
                               /\ IF Covered /\ Cardinality(observed) = ev.n THEN TRUE
                                  ELSE PrintT(ToJson([op |-> "verdict", t |-> ev.t, c |-> "", inv |-> "Covered", p |-> TRUE, name |-> "",
                                                      v |-> <<>>, other |-> <<>>]))
                               /\ UNCHANGED ctvars
         [] OTHER -> FALSE

TraceSpec == TraceInit /\ [][TraceStep]_tvars
TraceAccepted == TLCGet("stats").diameter - 1 = Len(TraceLog)
=============================================================================
