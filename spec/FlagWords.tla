----------------------------- MODULE FlagWords -----------------------------
(***************************************************************************)
(* Flag words (C19).  A flag word is the SET OF ITS SET BIT INDICES, so    *)
(* bit 31 of a 32-bit word is as unproblematic as bit 0 (TLC integers are  *)
(* 32-bit signed).  A flag table maps bit indices to names.                *)
(*                                                                         *)
(*   FwDecompose(w, tab)  the named bits of w, each once, as the sequence  *)
(*                        of table entries in the table's stated order     *)
(*   FwPredicate(w, b)    a predicate on a flag word depends on its own    *)
(*                        bit only                                         *)
(*                                                                         *)
(* The tables FwStd* are written from the standards' text (MS-CIFS 2.2.3.1 *)
(* Flags/Flags2, MS-SMB 2.2.3.1 Flags2 extensions, MS-CIFS 2.2.4.52.2      *)
(* Capabilities/SecurityMode, MS-ADTS 2.2.16 userAccountControl bits, and  *)
(* MS-ADTS 2.2.20 KeyCredentialLink CUSTOM_KEY_INFORMATION Flags), in the  *)
(* library's short names.  They cross-check the DECLARED tables (what      *)
(* the source names a bit) - a deviation is reported as drift, because C19 *)
(* is about faithful decomposition into the bits the source names, not     *)
(* about the wire values (C05).                                            *)
(***************************************************************************)
EXTENDS Integers, Sequences, FiniteSets, SequencesExt

(* ---- words ---- *)
(* bits of a non-negative TLC integer (< 2^31, so bit 31 is never set and 2^31 is never computed) *)
FwBitsOfInt(w, width) == { b \in 0..((IF width > 31 THEN 31 ELSE width) - 1) : (w \div (2 ^ b)) % 2 = 1 }
FwPredicate(w, b) == b \in w

(* ---- order on names: names are sequences of code points, compared lexicographically ---- *)
RECURSIVE FwLexLess(_, _)
FwLexLess(a, b) ==
    IF a = <<>> THEN b # <<>>
    ELSE IF b = <<>> THEN FALSE
    ELSE IF Head(a) # Head(b) THEN Head(a) < Head(b)
    ELSE FwLexLess(Tail(a), Tail(b))

(* a table is a set/sequence of entries [bit, name, cp, ...]; its alphabetical listing: *)
FwAlphaOrder(entries) == SetToSortSeq(entries, LAMBDA x, y : FwLexLess(x.cp, y.cp) \/ (x.cp = y.cp /\ x.bit < y.bit))
FwBitOrder(entries) == SetToSortSeq(entries, LAMBDA x, y : x.bit < y.bit)

(* the decomposition of word w (a set of bit indices) over an ordered table (a sequence of entries):
   exactly the entries whose bit is set, each once, in the table's order *)
FwDecompose(w, ordered) == SelectSeq(ordered, LAMBDA e : e.bit \in w)
FwNames(w, ordered) == LET d == FwDecompose(w, ordered) IN [i \in 1..Len(d) |-> d[i].name]
FwBitsAsc(w, entries) == LET d == FwDecompose(w, FwBitOrder(entries)) IN [i \in 1..Len(d) |-> d[i].bit]

(* ---- the standards' tables: bit |-> name (only the bits the standard names) ---- *)
FwStdFlags ==      \* MS-CIFS 2.2.3.1 SMB Header, Flags (1 byte)
    [b \in {0, 1, 3, 4, 5, 6, 7} |->
        CASE b = 0 -> "LOCK_AND_READ_OK" [] b = 1 -> "BUF_AVAIL" [] b = 3 -> "CASE_INSENSITIVE"
          [] b = 4 -> "CANONICALIZED_PATHS" [] b = 5 -> "OPLOCK" [] b = 6 -> "OPBATCH" [] b = 7 -> "REPLY"]
FwStdFlags2 ==     \* MS-CIFS 2.2.3.1 Flags2 (2 bytes) + MS-SMB 2.2.3.1 (COMPRESSED, SECURITY_SIGNATURE_REQUIRED, REPARSE_PATH, EXTENDED_SECURITY)
    [b \in {0, 1, 2, 3, 4, 6, 10, 11, 12, 13, 14, 15} |->
        CASE b = 0 -> "LONG_NAMES_ALLOWED"              \* SMB_FLAGS2_LONG_NAMES 0x0001
          [] b = 1 -> "EXTENDED_ATTRIBUTES"             \* SMB_FLAGS2_EAS 0x0002
          [] b = 2 -> "SECURITY_SIGNATURE"              \* SMB_FLAGS2_SMB_SECURITY_SIGNATURE 0x0004
          [] b = 3 -> "COMPRESSED"                      \* SMB_FLAGS2_COMPRESSED 0x0008
          [] b = 4 -> "SECURITY_SIGNATURE_REQUIRED"     \* SMB_FLAGS2_SMB_SECURITY_SIGNATURE_REQUIRED 0x0010
          [] b = 6 -> "LONG_NAMES_USED"                 \* SMB_FLAGS2_IS_LONG_NAME 0x0040
          [] b = 10 -> "REPARSE_PATH"                   \* 0x0400
          [] b = 11 -> "EXTENDED_SECURITY"              \* 0x0800
          [] b = 12 -> "DFS"                            \* 0x1000
          [] b = 13 -> "PAGING_IO"                      \* 0x2000
          [] b = 14 -> "NT_STATUS_ERROR_CODES"          \* SMB_FLAGS2_NT_STATUS 0x4000
          [] b = 15 -> "UNICODE"]                       \* 0x8000
FwStdCaps ==       \* MS-CIFS 2.2.4.52.2 Capabilities (4 bytes)
    [b \in {0, 1, 2, 3, 4, 5, 6, 7, 8, 9, 12, 14} |->
        CASE b = 0 -> "CAP_RAW_MODE" [] b = 1 -> "CAP_MPX_MODE" [] b = 2 -> "CAP_UNICODE" [] b = 3 -> "CAP_LARGE_FILES"
          [] b = 4 -> "CAP_NT_SMBS" [] b = 5 -> "CAP_RPC_REMOTE_APIS" [] b = 6 -> "CAP_STATUS32"
          [] b = 7 -> "CAP_LEVEL_II_OPLOCKS" [] b = 8 -> "CAP_LOCK_AND_READ" [] b = 9 -> "CAP_NT_FIND"
          [] b = 12 -> "CAP_DFS" [] b = 14 -> "CAP_LARGE_READX"]
FwStdSecMode ==    \* MS-CIFS 2.2.4.52.2 SecurityMode (1 byte)
    [b \in 0..3 |->
        CASE b = 0 -> "USER_SECURITY" [] b = 1 -> "ENCRYPT_PASSWORDS"
          [] b = 2 -> "SECURITY_SIGNATURES_ENABLED" [] b = 3 -> "SECURITY_SIGNATURES_REQUIRED"]
FwStdUAC ==        \* MS-ADTS 2.2.16 userAccountControl Bits / ADS_USER_FLAG_ENUM
    [b \in {0, 1, 3, 4, 5, 6, 7, 8, 9, 11, 12, 13, 16, 17, 18, 19, 20, 21, 22, 23, 24, 26} |->
        CASE b = 0 -> "SCRIPT"                          \* 0x00000001
          [] b = 1 -> "ACCOUNT_DISABLED"                \* ADS_UF_ACCOUNTDISABLE 0x00000002
          [] b = 3 -> "HOMEDIR_REQUIRED"                \* 0x00000008
          [] b = 4 -> "LOCKOUT"                         \* 0x00000010
          [] b = 5 -> "PASSWD_NOTREQD"                  \* 0x00000020
          [] b = 6 -> "PASSWD_CANT_CHANGE"              \* 0x00000040
          [] b = 7 -> "ENCRYPTED_TEXT_PWD_ALLOWED"      \* 0x00000080
          [] b = 8 -> "TEMP_DUPLICATE_ACCOUNT"          \* 0x00000100
          [] b = 9 -> "NORMAL_ACCOUNT"                  \* 0x00000200
          [] b = 11 -> "INTERDOMAIN_TRUST_ACCOUNT"      \* 0x00000800
          [] b = 12 -> "WORKSTATION_TRUST_ACCOUNT"      \* 0x00001000
          [] b = 13 -> "SERVER_TRUST_ACCOUNT"           \* 0x00002000
          [] b = 16 -> "DONT_EXPIRE_PASSWORD"           \* 0x00010000
          [] b = 17 -> "MNS_LOGON_ACCOUNT"              \* 0x00020000
          [] b = 18 -> "SMARTCARD_REQUIRED"             \* 0x00040000
          [] b = 19 -> "TRUSTED_FOR_DELEGATION"         \* 0x00080000
          [] b = 20 -> "NOT_DELEGATED"                  \* 0x00100000
          [] b = 21 -> "USE_DES_KEY_ONLY"               \* 0x00200000
          [] b = 22 -> "DONT_REQ_PREAUTH"               \* 0x00400000
          [] b = 23 -> "PASSWORD_EXPIRED"               \* 0x00800000
          [] b = 24 -> "TRUSTED_TO_AUTH_FOR_DELEGATION" \* 0x01000000
          [] b = 26 -> "PARTIAL_SECRETS_ACCOUNT"]       \* 0x04000000
FwStdKcFlags ==    \* MS-ADTS CUSTOM_KEY_INFORMATION Flags: CUSTOMKEYINFO_FLAGS_ATTESTATION 0x01, CUSTOMKEYINFO_FLAGS_MFA_NOT_USED 0x02
    [b \in 0..1 |-> CASE b = 0 -> "Attestation" [] b = 1 -> "MFANotUsed"]

FwKinds == {"flags", "flags2", "caps", "secmode", "uac", "kcflags"}
FwStd(kind) == CASE kind = "flags" -> FwStdFlags [] kind = "flags2" -> FwStdFlags2 [] kind = "caps" -> FwStdCaps
                 [] kind = "secmode" -> FwStdSecMode [] kind = "uac" -> FwStdUAC [] kind = "kcflags" -> FwStdKcFlags
FwWidth(kind) == CASE kind \in {"secmode", "kcflags"} -> 8 [] kind \in {"flags", "flags2"} -> 16 [] OTHER -> 32

(* ---- predicates: name of the method, the NAME of its own bit, and its polarity.  Written from the meaning of
        the method names / their documentation (e.g. "plaintext passwords" = NOT challenge/response). ---- *)
FwPredTable(kind) ==
    CASE kind = "flags" ->
        << [pred |-> "IsLockAndReadOk", name |-> "LOCK_AND_READ_OK", neg |-> FALSE],
           [pred |-> "IsBufAvail", name |-> "BUF_AVAIL", neg |-> FALSE],
           [pred |-> "IsReserved", name |-> "RESERVED", neg |-> FALSE],
           [pred |-> "IsCaseInsensitive", name |-> "CASE_INSENSITIVE", neg |-> FALSE],
           [pred |-> "IsCanonicalizedPaths", name |-> "CANONICALIZED_PATHS", neg |-> FALSE],
           [pred |-> "IsOplock", name |-> "OPLOCK", neg |-> FALSE],
           [pred |-> "IsOplockBatch", name |-> "OPBATCH", neg |-> FALSE],
           [pred |-> "IsReply", name |-> "REPLY", neg |-> FALSE] >>
      [] kind = "flags2" ->
        << [pred |-> "IsLongNamesAllowed", name |-> "LONG_NAMES_ALLOWED", neg |-> FALSE],
           [pred |-> "IsExtendedAttributes", name |-> "EXTENDED_ATTRIBUTES", neg |-> FALSE],
           [pred |-> "IsSecuritySignature", name |-> "SECURITY_SIGNATURE", neg |-> FALSE],
           [pred |-> "IsCompressed", name |-> "COMPRESSED", neg |-> FALSE],
           [pred |-> "IsSecuritySignatureRequired", name |-> "SECURITY_SIGNATURE_REQUIRED", neg |-> FALSE],
           [pred |-> "IsLongNamesUsed", name |-> "LONG_NAMES_USED", neg |-> FALSE],
           [pred |-> "IsReparsePathUsed", name |-> "REPARSE_PATH", neg |-> FALSE],
           [pred |-> "IsExtendedSecurity", name |-> "EXTENDED_SECURITY", neg |-> FALSE],
           [pred |-> "IsDfs", name |-> "DFS", neg |-> FALSE],
           [pred |-> "IsPagingIO", name |-> "PAGING_IO", neg |-> FALSE],
           [pred |-> "IsNTStatusErrorCodes", name |-> "NT_STATUS_ERROR_CODES", neg |-> FALSE],
           [pred |-> "IsUnicode", name |-> "UNICODE", neg |-> FALSE] >>
      [] kind = "secmode" ->
        << [pred |-> "SupportsPlaintextPasswordAuth", name |-> "ENCRYPT_PASSWORDS", neg |-> TRUE],
           [pred |-> "SupportsChallengeResponseAuth", name |-> "ENCRYPT_PASSWORDS", neg |-> FALSE],
           [pred |-> "SupportsShareLevelAccessControl", name |-> "USER_SECURITY", neg |-> TRUE],
           [pred |-> "SupportsUserLevelAccessControl", name |-> "USER_SECURITY", neg |-> FALSE],
           [pred |-> "IsSecuritySignatureEnabled", name |-> "SECURITY_SIGNATURES_ENABLED", neg |-> FALSE],
           [pred |-> "IsSecuritySignatureRequired", name |-> "SECURITY_SIGNATURES_REQUIRED", neg |-> FALSE] >>
      [] OTHER -> << >>

(* ---- known answers (documented example values), evaluated over the standards' tables ---- *)
FwStdEntries(kind) == { [bit |-> b, name |-> FwStd(kind)[b]] : b \in DOMAIN FwStd(kind) }
FwStdNameSet(kind, w, width) == { e.name : e \in { x \in FwStdEntries(kind) : x.bit \in FwBitsOfInt(w, width) } }
ASSUME /\ FwBitsOfInt(24, 8) = {3, 4}
       /\ FwBitsOfInt(66048, 32) = {9, 16}
       /\ FwStdNameSet("flags", 24, 8) = {"CASE_INSENSITIVE", "CANONICALIZED_PATHS"}        \* 0x18: the usual client value
       /\ FwStdNameSet("flags2", 51203, 16) = {"LONG_NAMES_ALLOWED", "EXTENDED_ATTRIBUTES", "EXTENDED_SECURITY",
                                               "NT_STATUS_ERROR_CODES", "UNICODE"}           \* 0xC803
       /\ FwStdNameSet("uac", 512, 32) = {"NORMAL_ACCOUNT"}
       /\ FwStdNameSet("uac", 514, 32) = {"NORMAL_ACCOUNT", "ACCOUNT_DISABLED"}
       /\ FwStdNameSet("uac", 66048, 32) = {"NORMAL_ACCOUNT", "DONT_EXPIRE_PASSWORD"}
       /\ FwStdNameSet("uac", 532480, 32) = {"SERVER_TRUST_ACCOUNT", "TRUSTED_FOR_DELEGATION"}  \* a domain controller
       /\ FwStdNameSet("uac", 4096, 32) = {"WORKSTATION_TRUST_ACCOUNT"}
       /\ FwStdNameSet("secmode", 3, 8) = {"USER_SECURITY", "ENCRYPT_PASSWORDS"}
       /\ FwStdNameSet("caps", 16384 + 4, 32) = {"CAP_LARGE_READX", "CAP_UNICODE"}
       /\ FwLexLess(<<65, 66>>, <<65, 67>>) /\ FwLexLess(<<65>>, <<65, 66>>) /\ ~FwLexLess(<<66>>, <<65, 90>>)
       /\ ~FwLexLess(<<65>>, <<65>>)
       /\ \A k \in FwKinds : \A b1, b2 \in DOMAIN FwStd(k) : FwStd(k)[b1] = FwStd(k)[b2] => b1 = b2   \* names unique per table
=============================================================================
