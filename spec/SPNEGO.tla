------------------------------- MODULE SPNEGO -------------------------------
(***************************************************************************)
(* SPNEGO tokens (RFC 4178 section 4.2, GSS-API framing RFC 2743 3.1).     *)
(*                                                                         *)
(*   InitialContextToken ::= [APPLICATION 0] IMPLICIT SEQUENCE {           *)
(*        thisMech OBJECT IDENTIFIER (1.3.6.1.5.5.2),                      *)
(*        innerContextToken NegotiationToken }                             *)
(*   NegotiationToken ::= CHOICE { negTokenInit [0] NegTokenInit,          *)
(*                                 negTokenResp [1] NegTokenResp }         *)
(*   NegTokenInit ::= SEQUENCE { mechTypes [0] SEQUENCE OF MechType,       *)
(*        reqFlags [1] .. OPTIONAL, mechToken [2] OCTET STRING OPTIONAL,   *)
(*        mechListMIC [3] OCTET STRING OPTIONAL }                          *)
(*   NegTokenResp ::= SEQUENCE { negState [0] ENUMERATED OPTIONAL,         *)
(*        supportedMech [1] MechType OPTIONAL,                             *)
(*        responseToken [2] OCTET STRING OPTIONAL,                         *)
(*        mechListMIC [3] OCTET STRING OPTIONAL }                          *)
(*                                                                         *)
(* The property (C08) is about the LAWS  Extract(Wrap(t)) = t  and the     *)
(* exactness of the outer  60 <DER length>  frame; the inner layout is     *)
(* model detail (D).  The encoder therefore takes a Choice flag: TRUE =    *)
(* RFC 4178 (CHOICE tag present), FALSE = the bare SEQUENCE some           *)
(* implementations (this library) put directly after the OID; the decoder  *)
(* accepts both.                                                           *)
(***************************************************************************)
EXTENDS DER

SpnegoOIDArcs == <<1, 3, 6, 1, 5, 5, 2>>
NtlmOIDArcs == <<1, 3, 6, 1, 4, 1, 311, 2, 2, 10>>
SpnegoOID == DEROID(SpnegoOIDArcs)
NtlmOID == DEROID(NtlmOIDArcs)

(* negState values, RFC 4178 4.2.2 *)
NegAcceptCompleted == 0
NegAcceptIncomplete == 1
NegReject == 2
NegRequestMic == 3

Opt(present, bytes) == IF present THEN bytes ELSE <<>>

NegTokenInitSeq(t) ==
    DERTLV(DERTagSequence,
           DERTLV(DERCtx(0), DERTLV(DERTagSequence, NtlmOID))
        \o Opt(t # <<>>, DERTLV(DERCtx(2), DERTLV(DERTagOctetString, t))))

(* withState / withMech: the OPTIONAL members present or not *)
NegTokenRespSeq(withState, st, withMech, t) ==
    DERTLV(DERTagSequence,
           Opt(withState, DERTLV(DERCtx(0), <<DERTagEnumerated, 1, st>>))
        \o Opt(withMech, DERTLV(DERCtx(1), NtlmOID))
        \o Opt(t # <<>>, DERTLV(DERCtx(2), DERTLV(DERTagOctetString, t))))

GssFrame(inner) == DERTLV(DERTagApp0, SpnegoOID \o inner)

SpnegoInit(t, choice) ==
    GssFrame(IF choice THEN DERTLV(DERCtx(0), NegTokenInitSeq(t)) ELSE NegTokenInitSeq(t))
(* a NegTokenResp inside the GSS frame (what this library produces and expects) *)
SpnegoRespFramed(withState, st, withMech, t, choice) ==
    GssFrame(IF choice THEN DERTLV(DERCtx(1), NegTokenRespSeq(withState, st, withMech, t))
             ELSE NegTokenRespSeq(withState, st, withMech, t))
(* RFC 4178: subsequent tokens are the bare NegotiationToken, no GSS frame *)
SpnegoRespRFC(withState, st, withMech, t) == DERTLV(DERCtx(1), NegTokenRespSeq(withState, st, withMech, t))

(* ------------------------------------------------------------------------ *)
(* Analysis of a token w produced by an implementation.                     *)

(* P: the outer frame.  60, a well-formed minimal-form definite length, and that length is exactly the
   number of octets that follow the header. *)
SpnegoFrameViolations(w) ==
    IF Len(w) < 2 THEN {"outer:truncated"}
    ELSE LET h == DERHeader(w, 1) IN
         (IF w[1] # DERTagApp0 THEN {"outer:tag"} ELSE {})
         \cup (IF ~h.ok THEN {"outer:length-malformed"}
               ELSE (IF ~h.minimal THEN {"outer:length-not-minimal"} ELSE {})
                    \cup (IF h.hl + h.len # Len(w) THEN {"outer:length!=remaining"} ELSE {}))

(* position of the SEQUENCE (NegTokenInit / NegTokenResp body) inside a framed token, 0 if none;
   tolerant of a missing CHOICE tag *)
SpnegoBodyPos(w) ==
    LET h == DERHeader(w, 1) IN
    IF ~h.ok \/ h.hl + h.len > Len(w) THEN 0
    ELSE LET kids == DERChildrenFrom(w, 1 + h.hl, h.hl + h.len) IN
         IF Len(kids) # 2 \/ ~DERWellTiled(kids) THEN 0
         ELSE IF DERWhole(w, kids[1]) # SpnegoOID THEN 0
         ELSE LET q == kids[2]
                  t == DERHeader(w, q).tag IN
              IF t = DERTagSequence THEN q
              ELSE IF t \in {DERCtx(0), DERCtx(1)} THEN
                   LET ks == DERChildren(w, q) IN
                   IF Len(ks) = 1 /\ ks[1] # 0 /\ DERHeader(w, ks[1]).tag = DERTagSequence THEN ks[1] ELSE 0
              ELSE 0

SpnegoHasChoiceTag(w) ==
    LET h == DERHeader(w, 1) IN
    h.ok /\ LET kids == DERChildrenFrom(w, 1 + h.hl, h.hl + h.len) IN
            Len(kids) = 2 /\ DERWellTiled(kids) /\ DERHeader(w, kids[2]).tag \in {DERCtx(0), DERCtx(1)}

(* the member [n] of the SEQUENCE at position s: position of its inner TLV, 0 if absent/malformed *)
SpnegoMember(w, s, n) ==
    LET ks == DERChildren(w, s)
        hit == { i \in 1..Len(ks) : ks[i] # 0 /\ DERHeader(w, ks[i]).tag = DERCtx(n) } IN
    IF ~DERWellTiled(ks) \/ hit = {} THEN 0
    ELSE LET q == ks[CHOOSE i \in hit : \A j \in hit : i <= j]
             inner == DERChildren(w, q) IN
         IF Len(inner) = 1 /\ inner[1] # 0 THEN inner[1] ELSE 0

(* Extract: the mechToken / responseToken octets; ok = FALSE when there is none *)
SpnegoExtract(w) ==
    LET s == SpnegoBodyPos(w) IN
    IF s = 0 THEN [ok |-> FALSE, token |-> <<>>]
    ELSE LET m == SpnegoMember(w, s, 2) IN
         IF m = 0 \/ DERHeader(w, m).tag # DERTagOctetString THEN [ok |-> FALSE, token |-> <<>>]
         ELSE [ok |-> TRUE, token |-> DERContent(w, m)]

(* every length field on the path frame -> body -> [2] -> OCTET STRING is minimal-form *)
SpnegoPathMinimal(w) ==
    LET s == SpnegoBodyPos(w) IN
    s # 0 /\ DERHeader(w, s).minimal
    /\ LET ks == DERChildren(w, s) IN \A i \in 1..Len(ks) : ks[i] # 0 /\ DERHeader(w, ks[i]).minimal
    /\ LET m == SpnegoMember(w, s, 2) IN m = 0 \/ DERHeader(w, m).minimal

(* D: inner layout of a token that should carry t *)
SpnegoInnerDrift(w, t) ==
    LET x == SpnegoExtract(w) IN
    (IF SpnegoBodyPos(w) = 0 THEN {"inner:not-a-framed-negotiation-token"} ELSE {})
    \cup (IF SpnegoBodyPos(w) # 0 /\ ~SpnegoHasChoiceTag(w) THEN {"inner:rfc4178-choice-tag-missing"} ELSE {})
    \cup (IF SpnegoBodyPos(w) # 0 /\ ~SpnegoPathMinimal(w) THEN {"inner:length-not-minimal"} ELSE {})
    \cup (IF SpnegoBodyPos(w) # 0 /\ t # <<>> /\ ~x.ok THEN {"inner:token-member-missing"} ELSE {})
    \cup (IF x.ok /\ x.token # t THEN {"inner:token-differs"} ELSE {})

(* ---- known answers ---- *)
(* the token length boundaries: a 3-octet token in both framings, written out by hand from the ASN.1 *)
ASSUME SpnegoInit(<<1, 2, 3>>, TRUE) =
    <<96, 35>> \o <<6, 6, 43, 6, 1, 5, 5, 2>> \o <<160, 25, 48, 23>>
    \o <<160, 14, 48, 12, 6, 10, 43, 6, 1, 4, 1, 130, 55, 2, 2, 10>> \o <<162, 5, 4, 3, 1, 2, 3>>
ASSUME SpnegoInit(<<1, 2, 3>>, FALSE) =
    <<96, 33>> \o <<6, 6, 43, 6, 1, 5, 5, 2>> \o <<48, 23>>
    \o <<160, 14, 48, 12, 6, 10, 43, 6, 1, 4, 1, 130, 55, 2, 2, 10>> \o <<162, 5, 4, 3, 1, 2, 3>>
ASSUME SpnegoRespRFC(TRUE, NegAcceptIncomplete, TRUE, <<9>>) =
    <<161, 26, 48, 24, 160, 3, 10, 1, 1>> \o <<161, 12, 6, 10, 43, 6, 1, 4, 1, 130, 55, 2, 2, 10>> \o <<162, 3, 4, 1, 9>>
ASSUME \A c \in BOOLEAN : SpnegoExtract(SpnegoInit(<<1, 2, 3>>, c)) = [ok |-> TRUE, token |-> <<1, 2, 3>>]
ASSUME \A c \in BOOLEAN : SpnegoExtract(SpnegoRespFramed(TRUE, 1, TRUE, <<7, 7>>, c)) = [ok |-> TRUE, token |-> <<7, 7>>]
ASSUME \A n \in {1, 93, 94, 127, 128, 255, 256, 300} :
          LET t == [i \in 1..n |-> i % 251] IN
          \A c \in BOOLEAN : /\ SpnegoExtract(SpnegoInit(t, c)).token = t
                             /\ SpnegoFrameViolations(SpnegoInit(t, c)) = {}
                             /\ SpnegoInnerDrift(SpnegoInit(t, c), t) = (IF c THEN {} ELSE {"inner:rfc4178-choice-tag-missing"})
ASSUME SpnegoFrameViolations(<<96, 129, 5, 1, 2, 3, 4, 5>>) = {"outer:length-not-minimal"}
ASSUME SpnegoFrameViolations(<<96, 4, 1, 2, 3>>) = {"outer:length!=remaining"}
ASSUME ~SpnegoExtract(SpnegoInit(<<>>, TRUE)).ok
=============================================================================
