----------------------------- MODULE SMBHeader -----------------------------
(***************************************************************************)
(* The fixed 32-byte SMB1 header, MS-CIFS 2.2.3.1:                         *)
(*                                                                         *)
(*   offset  0  Protocol[4]        0xFF 'S' 'M' 'B'                        *)
(*           4  Command            UCHAR                                   *)
(*           5  Status             ULONG  (little-endian, as every         *)
(*           9  Flags              UCHAR   multi-byte field of MS-CIFS)    *)
(*          10  Flags2             USHORT                                  *)
(*          12  PIDHigh            USHORT                                  *)
(*          14  SecurityFeatures[8]                                        *)
(*          22  Reserved           USHORT                                  *)
(*          24  TID   26 PIDLow   28 UID   30 MID      USHORT each         *)
(*                                                                         *)
(* SecurityFeatures is 8 opaque bytes in the header; it has three readings *)
(* (MS-CIFS 2.2.3.1): reserved, an 8-byte SecuritySignature, or - over a   *)
(* connectionless transport - Key ULONG, CID USHORT, SequenceNumber USHORT.*)
(* The process id is the 32-bit value PIDHigh:PIDLow; a message is a       *)
(* response iff SMB_FLAGS_REPLY (0x80) is set in Flags.                    *)
(***************************************************************************)
EXTENDS Integers, Sequences, Bytes, Word32, Wire

HeaderSize == 32
HeaderSchema == <<Raw("protocol", 4), U8("command"), U32("status"), U8("flags"), U16("flags2"), U16("pidhigh"),
                  Raw("security", 8), U16("reserved"), U16("tid"), U16("pidlow"), U16("uid"), U16("mid")>>
SMBMagic == <<255, 83, 77, 66>>

HeaderEnc(h) == WireEncode(HeaderSchema, h)
HeaderDec(b) == WireDecode(HeaderSchema, b)
HeaderIsReply(h) == (h.flags \div 128) % 2 = 1
HeaderPID(h) == <<h.pidhigh, h.pidlow>>                     \* Word32: PIDHigh is the high-order half
HeaderWithPID(h, pid) == [h EXCEPT !.pidhigh = pid[1], !.pidlow = pid[2]]

SecConnlessSchema == <<U32("key"), U16("cid"), U16("seq")>>
SecEnc(kind, v) == IF kind = "connless" THEN WireEncode(SecConnlessSchema, v) ELSE v     \* reserved / signature: the 8 bytes

DefaultHeader == [protocol |-> SMBMagic, command |-> 0, status |-> <<0, 0>>, flags |-> 0, flags2 |-> 0, pidhigh |-> 0,
                  security |-> Zeros(8), reserved |-> 0, tid |-> 0, pidlow |-> 0, uid |-> 0, mid |-> 0]

ASSUME WireSize(HeaderSchema) = HeaderSize
(* a negotiate request as it appears on the wire: flags 0x18, flags2 0xC853, TID 0xFFFF, PID 0xFEFF, MID 0 *)
ASSUME HeaderEnc([DefaultHeader EXCEPT !.command = 114, !.flags = 24, !.flags2 = 51283, !.tid = 65535, !.pidlow = 65279])
         = <<255, 83, 77, 66, 114, 0, 0, 0, 0, 24, 83, 200, 0, 0, 0, 0, 0, 0, 0, 0, 0, 0, 0, 0, 255, 255, 255, 254, 0, 0, 0, 0>>
(* every field at a distinct position and width: status 0xC0000022 (ACCESS_DENIED), PID 0x00011234 *)
ASSUME LET h == [DefaultHeader EXCEPT !.command = 115, !.status = <<49152, 34>>, !.flags = 152, !.flags2 = 18433,
                                      !.pidhigh = 1, !.security = <<1, 2, 3, 4, 5, 6, 7, 8>>, !.reserved = 2570, !.tid = 2048,
                                      !.pidlow = 4660, !.uid = 100, !.mid = 513]
       IN /\ HeaderEnc(h) = <<255, 83, 77, 66, 115, 34, 0, 0, 192, 152, 1, 72, 1, 0, 1, 2, 3, 4, 5, 6, 7, 8, 10, 10, 0, 8, 52, 18, 100, 0, 1, 2>>
          /\ HeaderDec(HeaderEnc(h) \o <<9, 9>>) = [ok |-> TRUE, n |-> 32, v |-> h]
          /\ HeaderIsReply(h) /\ HeaderPID(h) = <<1, 4660>> /\ ~HeaderIsReply(DefaultHeader)
ASSUME SecEnc("connless", [key |-> <<4660, 22136>>, cid |-> 43981, seq |-> 61185]) = <<120, 86, 52, 18, 205, 171, 1, 239>>
=============================================================================
