----------------------------- MODULE NameTable -----------------------------
(***************************************************************************)
(* The NBNS name table of network/netbios/nbtns/nbtns.go as a sequential   *)
(* state machine: one action per public method (= one critical section of  *)
(* the code, each method holds the table lock from entry to return).       *)
(*                                                                         *)
(* The projected state is the WHOLE Go record: owners is a sequence (the   *)
(* Go slice, order included), `ex` mirrors "time.Now() is after TTL" and   *)
(* `rx` mirrors "RefreshInterval is negative" -- the harness passes +1h or *)
(* -1h as ttl so expiry is a class and no clock hook is needed.            *)
(*                                                                         *)
(* Property C17 (P-tagged invariants below): a unique name has exactly one *)
(* owner and can be held by one address at a time; a group's owners are    *)
(* exactly the distinct addresses that registered it and have not released *)
(* it; a query returns the current owners of an active name in a slice of  *)
(* its own.                                                                *)
(***************************************************************************)
EXTENDS Naturals, Sequences, FiniteSets, TLC, Json

CONSTANTS Names,        \* set of name strings
          Addrs,        \* set of address tags (the harness maps them to IPs)
          EmitEdges,    \* BOOLEAN: print every generated transition as JSON (model -> code replay)
          TrackSnaps,   \* BOOLEAN: keep the results handed out by Query (aliasing sub-model)
          AliasQuery,   \* deviation: Query returns the live owner storage instead of a copy
          NoOwnerCheck, \* deviation: Release of a unique name does not verify the owner
          Overwrite     \* deviation: Register overwrites an existing record instead of reporting a conflict

VARIABLES tab,          \* Names -> record
          regd,         \* history: Names -> set of addresses whose Register succeeded and that have not released since
          snaps         \* set of query results handed to callers (only when TrackSnaps)

vars == <<tab, regd, snaps>>

Types == {"U", "G"}
NoRec == [p |-> FALSE, t |-> "U", st |-> "A", ow |-> <<>>, ex |-> FALSE, rx |-> FALSE]
NewRec(t, a, e) == [p |-> TRUE, t |-> t, st |-> "A", ow |-> <<a>>, ex |-> e, rx |-> e]
Range(s) == {s[i] : i \in DOMAIN s}
Without(s, a) == SelectSeq(s, LAMBDA x : x # a)

Ok == [err |-> FALSE, ow |-> <<>>, t |-> ""]
Err == [err |-> TRUE, ow |-> <<>>, t |-> ""]

Edge(op, n, t, a, e, r) ==
    EmitEdges => PrintT(ToJson([f |-> tab, op |-> op, n |-> n, t |-> t, a |-> a, e |-> e, r |-> r, to |-> tab']))

Init == /\ tab = [n \in Names |-> NoRec]
        /\ regd = [n \in Names |-> {}]
        /\ snaps = {}

(* The value each method returns, as a function of the state it is called in. *)
RegisterRes(n, t, a) ==
    IF tab[n].p /\ ~Overwrite /\ ~(tab[n].t = "G" /\ t = "G") THEN Err ELSE Ok
QueryRes(n) ==
    IF tab[n].p /\ tab[n].st = "A"
      THEN [err |-> FALSE, ow |-> tab[n].ow, t |-> tab[n].t]
      ELSE [err |-> TRUE, ow |-> <<>>, t |-> "U"]
ReleaseRes(n, a) ==
    IF ~tab[n].p THEN Err
    ELSE IF tab[n].t = "G" THEN (IF a \in Range(tab[n].ow) THEN Ok ELSE Err)
    ELSE IF tab[n].ow[1] = a \/ NoOwnerCheck THEN Ok ELSE Err
RefreshRes(n, a) == IF tab[n].p /\ a \in Range(tab[n].ow) THEN Ok ELSE Err
ConflictRes(n) == IF tab[n].p THEN Ok ELSE Err

(* RegisterName(name, type, owner, ttl) *)
Register(n, t, a, e) ==
    LET r == tab[n] IN
    /\ IF RegisterRes(n, t, a).err
         THEN UNCHANGED <<tab, regd>>
         ELSE IF r.p /\ ~Overwrite
           THEN /\ tab' = IF a \in Range(r.ow) THEN tab
                          ELSE [tab EXCEPT ![n].ow = Append(@, a), ![n].ex = e]
                /\ regd' = [regd EXCEPT ![n] = @ \cup {a}]
           ELSE /\ tab' = [tab EXCEPT ![n] = NewRec(t, a, e)]
                /\ regd' = [regd EXCEPT ![n] = IF r.p THEN @ \cup {a} ELSE {a}]
    /\ UNCHANGED snaps
    /\ Edge("register", n, t, a, e, RegisterRes(n, t, a))

(* QueryName(name) *)
Query(n) ==
    /\ UNCHANGED <<tab, regd>>
    /\ Edge("query", n, "", "", FALSE, QueryRes(n))
    /\ snaps' = IF TrackSnaps /\ ~QueryRes(n).err
                  THEN snaps \cup {[n |-> n, val |-> tab[n].ow, alias |-> AliasQuery]}
                  ELSE snaps

(* ReleaseName(name, owner) *)
Release(n, a) ==
    LET r == tab[n] IN
    /\ IF ReleaseRes(n, a).err
         THEN UNCHANGED <<tab, regd>>
         ELSE /\ tab' = IF r.t = "G" /\ Len(r.ow) > 1
                          THEN [tab EXCEPT ![n].ow = Without(@, a)]
                          ELSE [tab EXCEPT ![n] = NoRec]
              /\ regd' = [regd EXCEPT ![n] = @ \ {a}]
    /\ UNCHANGED snaps
    /\ Edge("release", n, "", a, FALSE, ReleaseRes(n, a))

(* RefreshName(name, owner) *)
Refresh(n, a) ==
    /\ tab' = IF RefreshRes(n, a).err THEN tab ELSE [tab EXCEPT ![n].ex = tab[n].rx]
    /\ UNCHANGED <<regd, snaps>>
    /\ Edge("refresh", n, "", a, FALSE, RefreshRes(n, a))

(* MarkNameConflict(name) *)
MarkConflict(n) ==
    /\ tab' = IF ConflictRes(n).err THEN tab ELSE [tab EXCEPT ![n].st = "C"]
    /\ UNCHANGED <<regd, snaps>>
    /\ Edge("conflict", n, "", "", FALSE, ConflictRes(n))

(* CleanExpiredNames() *)
Clean ==
    /\ tab' = [n \in Names |-> IF tab[n].p /\ tab[n].ex THEN NoRec ELSE tab[n]]
    /\ regd' = [n \in Names |-> IF tab[n].p /\ tab[n].ex THEN {} ELSE regd[n]]
    /\ Edge("clean", "", "", "", FALSE, Ok)
    /\ UNCHANGED snaps

Next == \/ \E n \in Names, t \in Types, a \in Addrs, e \in BOOLEAN : Register(n, t, a, e)
        \/ \E n \in Names : Query(n)
        \/ \E n \in Names, a \in Addrs : Release(n, a)
        \/ \E n \in Names, a \in Addrs : Refresh(n, a)
        \/ \E n \in Names : MarkConflict(n)
        \/ Clean

Spec == Init /\ [][Next]_vars

-----------------------------------------------------------------------------
(* Properties (all P: each restates a clause of C17's statement). *)

TypeOK == \A n \in Names :
            /\ tab[n].p \in BOOLEAN /\ tab[n].t \in Types /\ tab[n].st \in {"A", "C"}
            /\ Range(tab[n].ow) \subseteq Addrs

UniqueHasOneOwner == \A n \in Names : tab[n].p /\ tab[n].t = "U" => Len(tab[n].ow) = 1

GroupOwnersDistinct == \A n \in Names : tab[n].p =>
                          \A i, j \in DOMAIN tab[n].ow : i # j => tab[n].ow[i] # tab[n].ow[j]

NoEmptyRecord == \A n \in Names : tab[n].p => Len(tab[n].ow) >= 1

(* owners = registrants that have not released (as a set), and for a unique name at most one holder *)
OwnersAreRegistrants == \A n \in Names : IF tab[n].p THEN Range(tab[n].ow) = regd[n] ELSE regd[n] = {}

HeldByOne == \A n \in Names : tab[n].p /\ tab[n].t = "U" => Cardinality(regd[n]) <= 1

(* while a unique name stays registered its holder does not change *)
UniqueHolderStable ==
    [][\A n \in Names : tab[n].p /\ tab[n].t = "U" /\ tab'[n].p => tab'[n].t = "U" /\ tab'[n].ow = tab[n].ow]_vars

(* what a caller holding a query result observes now *)
Observed(s) == IF s.alias
                 THEN [i \in 1..Len(s.val) |-> IF tab[s.n].p /\ i <= Len(tab[s.n].ow) THEN tab[s.n].ow[i] ELSE s.val[i]]
                 ELSE s.val
SnapshotsImmutable == \A s \in snaps : Observed(s) = s.val

Inv == TypeOK /\ UniqueHasOneOwner /\ GroupOwnersDistinct /\ NoEmptyRecord /\ OwnersAreRegistrants /\ HeldByOne
=============================================================================
