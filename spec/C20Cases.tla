------------------------------ MODULE C20Cases ------------------------------
(***************************************************************************)
(* C20, model -> code: the structured input space of the address, port-    *)
(* range and hash-specification parsers, with the result the specification *)
(* (IPAddr.tla, HashSpec.tla) computes for every case.                     *)
(*   ip4rt     value -> CIDR text (and back, in the driver): every octet   *)
(*             value in every position x the prefix lengths RtPrefixes     *)
(*   ip4net    network address / broadcast of base/p, ALL p in 0..32       *)
(*   ip4sub    membership: ALL p in 0..32 x boundary probes (network,      *)
(*             network+-1, broadcast, broadcast+-1, 0.0.0.0,               *)
(*             255.255.255.255, lowest network bit flipped, highest host   *)
(*             bit flipped, random) x three roles of (ip, subnet)          *)
(*   ip4range  start <= ip <= end over boundary addresses                  *)
(*   ip4bad    texts that are not CIDR notation                            *)
(*   ip6rt / ip6range / ip6sub   eight groups at digit-length boundaries   *)
(*   port / portws / portbad     port pairs at digit-length boundaries     *)
(*             (PortFull: every port number in each position)              *)
(*   hash      forms x white-space pads^2 x letter cases                   *)
(***************************************************************************)
EXTENDS IPAddr, HashSpec, Bytes, TLC, Json

CONSTANTS Seed, Kinds, RtOctets, RtPrefixes, PortFull, NRandom

VARIABLE c

Rnd(i, n) == Pattern((Seed * 977 + i) % 65537, n)
RndIp(i) == Rnd(i, 4)
Zero4 == <<0, 0, 0, 0>>
Ones4 == <<255, 255, 255, 255>>

Bases4 == { Zero4, Ones4, <<10, 1, 2, 3>>, <<192, 168, 1, 17>>, <<172, 16, 254, 255>>, <<128, 0, 0, 1>>, <<85, 85, 85, 85>>,
            <<170, 170, 170, 170>>, RndIp(1), RndIp(2) }

(* ---- ip4rt ---- *)
RtBases == { <<1, 22, 133, 4>>, RndIp(3) }
Rt4 == { [ip |-> [b EXCEPT ![k] = v], p |-> p] : b \in RtBases, k \in 1..4, v \in RtOctets, p \in RtPrefixes }
         \cup { [ip |-> b, p |-> p] : b \in Bases4, p \in 0..32 }

(* ---- ip4sub ---- *)
Probes(base, p) ==
    LET net == Ip4Network(base, p)
        bc == Ip4Broadcast(base, p)
    IN { net, Ip4Inc(net), Ip4Dec(net), bc, Ip4Inc(bc), Ip4Dec(bc), Zero4, Ones4, base, RndIp(p + 10) }
         \cup (IF p >= 1 THEN {Ip4FlipBit(net, p)} ELSE {})
         \cup (IF p <= 31 THEN {Ip4FlipBit(net, p + 1)} ELSE {})
Sub4 == UNION { UNION { { [ip |-> x, net |-> Ip4Network(b, p), p |-> p, role |-> "probe-in-net"],
                           [ip |-> Ip4Network(b, p), net |-> Ip4Network(x, p), p |-> p, role |-> "net-in-probe-net"],
                           [ip |-> x, net |-> b, p |-> p, role |-> "probe-in-base"] } : x \in Probes(b, p) }
                : b \in Bases4, p \in 0..32 }

(* ---- ip4range ---- *)
R4 == { Zero4, <<0, 0, 0, 1>>, <<0, 0, 1, 0>>, <<0, 255, 255, 255>>, <<1, 0, 0, 0>>, <<127, 255, 255, 255>>, <<128, 0, 0, 0>>,
        <<255, 255, 255, 254>>, Ones4, RndIp(5) }
Range4 == UNION { { [ip |-> x, s |-> s, e |-> e] : x \in R4 \cup { Ip4Inc(s), Ip4Dec(s), Ip4Inc(e), Ip4Dec(e) } } : s \in R4, e \in R4 }

(* ---- ip4bad: "1/2", "", "1.2.3.4", "1.2.3/24", "1.2.3.4.5/24", "256.1.1.1/8", "1.2.3.4/33", "a.b.c.d/8", "1.2.3.4/", "/",
                "1.2.3.4/8/9", " 1.2.3.4/8", "1.2.3.4/8 ", "1.2..4/8", "-1.2.3.4/8", "1/2/3", "1.2.3.4/256" ---- *)
Bad4 == { <<49, 47, 50>>, <<>>, <<49, 46, 50, 46, 51, 46, 52>>, <<49, 46, 50, 46, 51, 47, 50, 52>>,
          <<49, 46, 50, 46, 51, 46, 52, 46, 53, 47, 50, 52>>, <<50, 53, 54, 46, 49, 46, 49, 46, 49, 47, 56>>,
          <<49, 46, 50, 46, 51, 46, 52, 47, 51, 51>>, <<97, 46, 98, 46, 99, 46, 100, 47, 56>>, <<49, 46, 50, 46, 51, 46, 52, 47>>,
          <<47>>, <<49, 46, 50, 46, 51, 46, 52, 47, 56, 47, 57>>, <<32, 49, 46, 50, 46, 51, 46, 52, 47, 56>>,
          <<49, 46, 50, 46, 51, 46, 52, 47, 56, 32>>, <<49, 46, 50, 46, 46, 52, 47, 56>>, <<45, 49, 46, 50, 46, 51, 46, 52, 47, 56>>,
          <<49, 47, 50, 47, 51>>, <<49, 46, 50, 46, 51, 46, 52, 47, 50, 53, 54>> }

(* ---- IPv6 ---- *)
Zero6 == <<0, 0, 0, 0, 0, 0, 0, 0>>
Ones6 == <<65535, 65535, 65535, 65535, 65535, 65535, 65535, 65535>>
Rnd6(i) == LET b == Rnd(100 + i, 16) IN [k \in 1..8 |-> b[2 * k - 1] * 256 + b[2 * k]]
V6 == { 0, 1, 9, 10, 15, 16, 255, 256, 4095, 4096, 43981, 48879, 65535 }
Rt6 == { [b EXCEPT ![k] = v] : b \in { Zero6, Rnd6(0) }, k \in 1..8, v \in V6 } \cup { Rnd6(i) : i \in 1..NRandom } \cup { Ones6 }
A6 == { Zero6, [Zero6 EXCEPT ![8] = 1], <<0, 0, 0, 0, 65535, 65535, 65535, 65535>>, [Zero6 EXCEPT ![4] = 1], [Zero6 EXCEPT ![1] = 1],
        Ones6, [Zero6 EXCEPT ![1] = 65535], <<0, 0, 0, 1, 0, 0, 0, 1>>, [Zero6 EXCEPT ![5] = 32768], Rnd6(0) }

(* ---- ports ---- *)
PB == { 0, 1, 9, 10, 99, 100, 999, 1000, 9999, 10000, 59999, 60000, 64999, 65000, 65499, 65500, 65529, 65530, 65534, 65535,
        (Seed * 7 + 1234) % 65536 }
PortPairs == (PB \X PB) \cup (IF PortFull THEN { <<v, 443>> : v \in 0..65535 } \cup { <<8080, v>> : v \in 0..65535 } ELSE {})
WsPads == { <<>>, <<32>>, <<9>> }
PortWs == { [s |-> pr[1], e |-> pr[2], text |-> a \o IpDecText(pr[1]) \o b \o <<Hyphen>> \o x \o IpDecText(pr[2]) \o y] :
              pr \in { <<0, 65535>>, <<80, 8080>>, <<65535, 1>> }, a \in WsPads, b \in WsPads, x \in WsPads, y \in WsPads }
(* "65536-1", "1-65536", "1", "-", "1-2-3", "a-b", "", "01-2", "1-", "-1", "1--2", "99999-1" *)
PortBad == { <<54, 53, 53, 51, 54, 45, 49>>, <<49, 45, 54, 53, 53, 51, 54>>, <<49>>, <<45>>, <<49, 45, 50, 45, 51>>, <<97, 45, 98>>, <<>>,
             <<48, 49, 45, 50>>, <<49, 45>>, <<45, 49>>, <<49, 45, 45, 50>>, <<57, 57, 57, 57, 57, 45, 49>> }

(* ---- hash specifications ---- *)
HexLowerCp(n) == IF n < 10 THEN 48 + n ELSE 87 + n
Hash(i) == LET b == Rnd(200 + i, 32) IN [j \in 1..32 |-> HexLowerCp((b[j] + j) % 16)]
H1 == Hash(1)
H2 == Hash(2)
C == <<58>>
ValidForms == { <<>>, H1, C \o H1, H1 \o C \o H2, HsEmptyLM \o C \o HsEmptyNT, HsEmptyNT }
InvalidForms == { H1 \o C, SubSeq(H1, 1, 31), H1 \o <<48>>, <<103>> \o Tail(H1), H1 \o C \o H2 \o C \o H1, H1 \o <<32>> \o C \o H2,
                  H1 \o C \o <<32>> \o H2, C, H1 \o C \o SubSeq(H2, 1, 31), C \o C \o H1, SubSeq(H1, 1, 16) \o <<32>> \o SubSeq(H1, 17, 32) }
HashPads == { <<>>, <<32>>, <<9>>, <<10>>, <<32, 32>>, <<13, 10>>, <<9, 32, 10>>, <<11>>, <<12>>, <<160>>, <<133>>, <<8232>>, <<12288, 32>>, <<8195>> }
Mixed(s) == [i \in 1..Len(s) |-> IF i % 3 = 0 THEN HsUpperCp(s[i]) ELSE s[i]]
Cased(s, cs) == CASE cs = "lower" -> s [] cs = "upper" -> HsUpper(s) [] cs = "mixed" -> Mixed(s)
HashCases == { [form |-> Cased(f, cs), l |-> l, r |-> r, cs |-> cs] :
                 f \in ValidForms \cup InvalidForms, l \in HashPads, r \in HashPads, cs \in {"lower", "upper", "mixed"} }

Emit(r) == PrintT(ToJson(r))

Init ==
    \/ /\ "ip4rt" \in Kinds
       /\ \E x \in Rt4 : c = <<"ip4rt", x>> /\ Emit([k |-> "ip4rt", ip |-> x.ip, p |-> x.p, text |-> Ip4Text(x.ip, x.p)])
    \/ /\ "ip4net" \in Kinds
       /\ \E b \in Bases4, p \in 0..32 :
            c = <<"ip4net", b, p>> /\ Emit([k |-> "ip4net", ip |-> b, p |-> p, net |-> Ip4Network(b, p), bc |-> Ip4Broadcast(b, p),
                                            text |-> Ip4Text(Ip4Network(b, p), p)])
    \/ /\ "ip4sub" \in Kinds
       /\ \E x \in Sub4 : c = <<"ip4sub", x>> /\ Emit([k |-> "ip4sub", ip |-> x.ip, net |-> x.net, p |-> x.p, role |-> x.role,
                                                       canon |-> Ip4Canonical(x.net, x.p), r |-> Ip4InSubnet(x.ip, x.net, x.p)])
    \/ /\ "ip4range" \in Kinds
       /\ \E x \in Range4 : c = <<"ip4range", x>> /\ Emit([k |-> "ip4range", ip |-> x.ip, s |-> x.s, e |-> x.e, r |-> Ip4InRange(x.ip, x.s, x.e)])
    \/ /\ "ip4bad" \in Kinds
       /\ \E t \in Bad4 : c = <<"ip4bad", t>> /\ Emit([k |-> "ip4bad", text |-> t, ok |-> Ip4Parse(t).ok])
    \/ /\ "ip6rt" \in Kinds
       /\ \E g \in Rt6 : c = <<"ip6rt", g>> /\ Emit([k |-> "ip6rt", g |-> g, text |-> Ip6Text(g)])
    \/ /\ "ip6range" \in Kinds
       /\ \E x \in A6, s \in A6, e \in A6 : c = <<"ip6range", x, s, e>> /\ Emit([k |-> "ip6range", g |-> x, s |-> s, e |-> e, r |-> Ip6InRange(x, s, e)])
    \/ /\ "ip6sub" \in Kinds
       /\ \E x \in A6, n \in A6 : c = <<"ip6sub", x, n>> /\ Emit([k |-> "ip6sub", g |-> x, net |-> n, r |-> Ip6InSubnet128(x, n)])
    \/ /\ "port" \in Kinds
       /\ \E pr \in PortPairs : c = <<"port", pr>> /\ Emit([k |-> "port", s |-> pr[1], e |-> pr[2], text |-> PortRangeText(pr[1], pr[2])])
    \/ /\ "portws" \in Kinds
       /\ \E x \in PortWs : c = <<"portws", x>> /\ Emit([k |-> "portws", s |-> x.s, e |-> x.e, text |-> x.text, ok |-> PortRangeParse(x.text).ok])
    \/ /\ "portbad" \in Kinds
       /\ \E t \in PortBad : c = <<"portbad", t>> /\ Emit([k |-> "portbad", text |-> t, ok |-> PortRangeParse(t).ok])
    \/ /\ "hash" \in Kinds
       /\ \E x \in HashCases :
            LET s == x.l \o x.form \o x.r
                res == HsParse(s)
            IN c = <<"hash", x>> /\ Emit([k |-> "hash", s |-> s, bare |-> x.form, ok |-> res.ok, lm |-> res.lm, nt |-> res.nt,
                                          padded |-> (x.l # <<>> \/ x.r # <<>>), cs |-> x.cs])
Next == FALSE /\ UNCHANGED c
=============================================================================
