------------------------------ MODULE C19Words ------------------------------
(***************************************************************************)
(* C19, model -> code: the flag words TLC enumerates and, for each, the    *)
(* decomposition the specification computes over the DECLARED table of the *)
(* kind (c19_decl.json: the flag constants the harness enumerated from the *)
(* source: bit index, identifier, name = identifier without the type's     *)
(* prefix, code points of the name).                                       *)
(*   8- and 16-bit kinds: every word.                                      *)
(*   32-bit kinds: the empty word, every single bit, every pair of bits,   *)
(*   all-ones, the complement of every single bit, NRandom seeded words    *)
(*   (Triples: also every triple of bits).                                 *)
(* Every case carries: names in alphabetical order (FwNames), the set bits *)
(* that are named in ascending order (GetFlags), the value of every        *)
(* predicate of FwPredTable on its own bit.                                *)
(* One "tablediff" record per kind lists where the declared table departs  *)
(* from the standard's (FwStd) - judged as drift by the driver.            *)
(***************************************************************************)
EXTENDS FlagWords, Bytes, TLC, Json

CONSTANTS Seed, Kinds, NRandom, Triples

VARIABLE c

Decl == JsonDeserialize("c19_decl.json")
Entries(k) == { Decl[k][i] : i \in 1..Len(Decl[k]) }
Alpha == [k \in Kinds |-> FwAlphaOrder(Entries(k))]
ByBit == [k \in Kinds |-> FwBitOrder(Entries(k))]

(* predicates whose own bit is declared *)
Bound(k) == SelectSeq(FwPredTable(k), LAMBDA p : \E e \in Entries(k) : e.name = p.name)
Unbound(k) == SelectSeq(FwPredTable(k), LAMBDA p : ~\E e \in Entries(k) : e.name = p.name)
PredBits == [k \in Kinds |-> [i \in 1..Len(Bound(k)) |-> (CHOOSE e \in Entries(k) : e.name = Bound(k)[i].name).bit]]
PredNeg == [k \in Kinds |-> [i \in 1..Len(Bound(k)) |-> Bound(k)[i].neg]]
PredVec(k, w) == [i \in 1..Len(PredBits[k]) |-> FwPredicate(w, PredBits[k][i]) # PredNeg[k][i]]

(* 32-bit words as sets of bit indices *)
All32 == 0..31
ByteBits(v, base) == { base + t : t \in { u \in 0..7 : (v \div (2 ^ u)) % 2 = 1 } }
RandomWord(i) == LET p == Pattern((Seed * 131 + i) % 65537, 4) IN ByteBits(p[1], 0) \cup ByteBits(p[2], 8) \cup ByteBits(p[3], 16) \cup ByteBits(p[4], 24)
Words32 == {{}} \cup { {b} : b \in All32 } \cup { {a, b} : a, b \in All32 } \cup {All32}
             \cup { All32 \ {b} : b \in All32 } \cup { RandomWord(i) : i \in 1..NRandom }
             \cup (IF Triples THEN { {a, b, d} : a, b, d \in All32 } ELSE {})

(* where the declared table departs from the standard's *)
ReservedCp == <<82, 69, 83, 69, 82, 86, 69, 68>>
IsReservedName(e) == Len(e.cp) >= 8 /\ SubSeq(e.cp, 1, 8) = ReservedCp
DeclAt(k, b) == { e.name : e \in { x \in Entries(k) : x.bit = b /\ ~IsReservedName(x) } }
StdAt(k, b) == IF b \in DOMAIN FwStd(k) THEN {FwStd(k)[b]} ELSE {}
DeclaredSomewhere(k, n) == \E e \in Entries(k) : e.name = n
DiffBits(k) == { b \in 0..(FwWidth(k) - 1) :
                   /\ DeclAt(k, b) # StdAt(k, b)
                   /\ ~(DeclAt(k, b) = {} /\ \A n \in StdAt(k, b) : ~DeclaredSomewhere(k, n)) }
DiffSeq(k) == LET bs == SetToSortSeq(DiffBits(k), <)
              IN [i \in 1..Len(bs) |-> [bit |-> bs[i], std |-> SetToSeq(StdAt(k, bs[i])), decl |-> SetToSeq(DeclAt(k, bs[i]))]]

Emit(r) == PrintT(ToJson(r))

WordRec(k, w, wint) ==
    [k |-> "word", kind |-> k, w |-> wint,
     bits |-> IF wint < 0 THEN SetToSortSeq(w, <) ELSE <<>>,
     names |-> FwNames(w, Alpha[k]),
     gf |-> LET d == FwDecompose(w, ByBit[k]) IN [i \in 1..Len(d) |-> d[i].bit],
     p |-> PredVec(k, w)]

Init ==
    \/ \E k \in Kinds :
         /\ c = <<"hdr", k>>
         /\ Emit([k |-> "hdr", kind |-> k, preds |-> [i \in 1..Len(Bound(k)) |-> Bound(k)[i].pred],
                  unbound |-> [i \in 1..Len(Unbound(k)) |-> Unbound(k)[i].pred]])
    \/ \E k \in Kinds :
         /\ DiffBits(k) # {}
         /\ c = <<"tablediff", k>>
         /\ Emit([k |-> "tablediff", kind |-> k, diffs |-> DiffSeq(k)])
    \/ \E k \in { x \in Kinds : FwWidth(x) <= 16 } : \E wi \in 0..(2 ^ FwWidth(k) - 1) :
         /\ c = <<"word", k, wi>>
         /\ Emit(WordRec(k, FwBitsOfInt(wi, FwWidth(k)), wi))
    \/ \E k \in { x \in Kinds : FwWidth(x) = 32 } : \E w \in Words32 :
         /\ c = <<"word", k, w>>
         /\ Emit(WordRec(k, w, -1))
Next == FALSE /\ UNCHANGED c
=============================================================================
