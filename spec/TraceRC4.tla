------------------------------ MODULE TraceRC4 ------------------------------
(* Trace validation (code -> model) for crypto/rc4: each line is a call made on one real cipher object --
   new(key), xor(src) -> dst.  The specification carries the standard's state (S, i, j) and recomputes
   every output byte the code reported; "reset" starts the next recorded trace. *)
EXTENDS RC4, TLC, TLCExt, Json

VARIABLES cs, l
TraceLog == ndJsonDeserialize("trace.ndjson")
ev == TraceLog[l]

Init == cs = RC4Blank /\ l = 1

Step ==
    /\ l <= Len(TraceLog)
    /\ l' = l + 1
    /\ CASE ev.op = "reset" -> cs' = RC4Blank
         [] ev.op = "new"   -> /\ Len(ev.key) \in 1..256
                               /\ cs' = RC4New(ev.key)
         [] ev.op = "xor"   -> LET r == RC4Xor(cs, ev.src) IN
                                 /\ ev.dst = r[2]         \* P: output = input xor standard keystream at this stream position
                                 /\ cs' = r[1]
         [] OTHER -> FALSE

TraceSpec == Init /\ [][Step]_<<cs, l>>
TraceAccepted == TLCGet("stats").diameter - 1 = Len(TraceLog)
=============================================================================
