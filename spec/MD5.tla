-------------------------------- MODULE MD5 --------------------------------
(* RFC 1321 (MD5) and RFC 2104 (HMAC) written from the RFC text: an independent reference for the
   HMAC-MD5 chain of NTLMv2.  32-bit words are <<hi16, lo16>> (module Word32). *)
EXTENDS Integers, Sequences, Word32, Bytes

MD5Init == << W(26437, 8961), W(61389, 43913), W(39098, 56574), W(4146, 21622) >>
    \* A = 0x67452301, B = 0xefcdab89, C = 0x98badcfe, D = 0x10325476

MD5F(x, y, z) == WOr(WAnd(x, y), WAnd(WNot(x), z))
MD5G(x, y, z) == WOr(WAnd(x, z), WAnd(y, WNot(z)))
MD5H(x, y, z) == WXor(WXor(x, y), z)
MD5I(x, y, z) == WXor(y, WOr(x, WNot(z)))

(* T[i] = integer part of 4294967296 * abs(sin(i)), i in radians, i = 1..64 (RFC 1321 section 3.4) *)
MD5T == <<
          W(55146, 42104), W(59591, 46934), W(9248, 28891), W(49597, 52974), W(62844, 4015), W(18311, 50730), W(43056, 17939), W(64838, 38145),
          W(27008, 39128), W(35652, 63407), W(65535, 23473), W(35164, 55230), W(27536, 4386), W(64920, 29075), W(42617, 17294), W(18868, 2081),
          W(63006, 9570), W(49216, 45888), W(9822, 23121), W(59830, 51114), W(54831, 4189), W(580, 5203), W(55457, 59009), W(59347, 64456),
          W(8673, 52710), W(49975, 2006), W(62677, 3463), W(17754, 5357), W(43491, 59653), W(64751, 41976), W(26479, 729), W(36138, 19594),
          W(65530, 14658), W(34673, 63105), W(28061, 24866), W(64997, 14348), W(42174, 59972), W(19422, 53161), W(63163, 19296), W(48831, 48240),
          W(10395, 32454), W(60065, 10234), W(54511, 12421), W(1160, 7429), W(55764, 53305), W(59099, 39397), W(8098, 31992), W(50348, 22117),
          W(62505, 8772), W(17194, 65431), W(43924, 9127), W(64659, 41017), W(25947, 22979), W(36620, 52370), W(65519, 62589), W(34180, 24017),
          W(28584, 32335), W(65068, 59104), W(41729, 17172), W(19976, 4513), W(63315, 32386), W(48442, 62005), W(10967, 53947), W(60294, 54161) >>
MD5Shift == << <<7, 12, 17, 22>>, <<5, 9, 14, 20>>, <<4, 11, 16, 23>>, <<6, 10, 15, 21>> >>
(* message word used by step i (0..63): round 1: i; round 2: 1+5i; round 3: 5+3i; round 4: 7i (all mod 16) *)
MD5Word(i) == CASE i < 16 -> i [] i < 32 -> (1 + 5 * i) % 16 [] i < 48 -> (5 + 3 * i) % 16 [] OTHER -> (7 * i) % 16

(* [abcd k s i]: a = b + ((a + f(b,c,d) + X[k] + T[i]) <<< s), then the roles of a,b,c,d rotate *)
MD5Step(st, i, X) ==
    LET r == i \div 16
        a == st[1]  b == st[2]  c == st[3]  d == st[4]
        f == CASE r = 0 -> MD5F(b, c, d) [] r = 1 -> MD5G(b, c, d) [] r = 2 -> MD5H(b, c, d) [] OTHER -> MD5I(b, c, d)
        t == WAdd(b, WRol(WAdd(WAdd(WAdd(a, f), X[MD5Word(i) + 1]), MD5T[i + 1]), MD5Shift[r + 1][(i % 4) + 1]))
    IN <<d, t, b, c>>

RECURSIVE MD5Rounds(_, _, _)
MD5Rounds(st, i, X) == IF i = 64 THEN st ELSE MD5Rounds(MD5Step(st, i, X), i + 1, X)

MD5Compress(h, blk) ==
    LET X == [j \in 1..16 |-> WFromLE(SubSeq(blk, 4 * j - 3, 4 * j))]
        r == MD5Rounds(h, 0, X)
    IN <<WAdd(h[1], r[1]), WAdd(h[2], r[2]), WAdd(h[3], r[3]), WAdd(h[4], r[4])>>

RECURSIVE MD5Absorb(_, _)
MD5Absorb(h, m) == IF Len(m) < 64 THEN h ELSE MD5Absorb(MD5Compress(h, SubSeq(m, 1, 64)), SubSeq(m, 65, Len(m)))

(* padding for n bytes (n < 2^28): a 1 bit, zeros to 448 mod 512, then the bit count as 64-bit little-endian *)
MD5PadFor(n) ==
    LET r == n % 64
        z == IF r < 56 THEN 55 - r ELSE 119 - r
    IN <<128>> \o Zeros(z) \o LE(n * 8, 4) \o Zeros(4)

MD5Sum(m) == LET h == MD5Absorb(MD5Init, m \o MD5PadFor(Len(m)))
             IN WToLE(h[1]) \o WToLE(h[2]) \o WToLE(h[3]) \o WToLE(h[4])

(* RFC 2104: H(K xor opad, H(K xor ipad, text)); B = 64; keys longer than B are hashed first *)
HMACMD5(key, text) ==
    LET k0 == IF Len(key) > 64 THEN MD5Sum(key) ELSE key
        k  == k0 \o Zeros(64 - Len(k0))
        ip == [i \in 1..64 |-> k[i] ^^ 54]     \* 0x36
        op == [i \in 1..64 |-> k[i] ^^ 92]     \* 0x5c
    IN MD5Sum(op \o MD5Sum(ip \o text))

(* RFC 1321 A.5 test suite *)
ASSUME HexLower(MD5Sum(<<>>)) = "d41d8cd98f00b204e9800998ecf8427e"
ASSUME HexLower(MD5Sum(<<97>>)) = "0cc175b9c0f1b6a831c399e269772661"
ASSUME HexLower(MD5Sum(<<97, 98, 99>>)) = "900150983cd24fb0d6963f7d28e17f72"
ASSUME HexLower(MD5Sum(<<109, 101, 115, 115, 97, 103, 101, 32, 100, 105, 103, 101, 115, 116>>)) = "f96b697d7cb7938d525a2f31aaf161d0"
ASSUME HexLower(MD5Sum([i \in 1..26 |-> 96 + i])) = "c3fcd3d76192e4007dfb496cca67e13b"
ASSUME HexLower(MD5Sum([i \in 1..80 |-> 48 + (i % 10)])) = "57edf4a22be3c955ac49da2e2107b67a"
(* RFC 2202 section 2, HMAC-MD5 test cases 1, 2, 3 and 6 *)
ASSUME HexLower(HMACMD5(Rep(11, 16), <<72, 105, 32, 84, 104, 101, 114, 101>>)) = "9294727a3638bb1c13f48ef8158bfc9d"
ASSUME HexLower(HMACMD5(<<74, 101, 102, 101>>,
          <<119, 104, 97, 116, 32, 100, 111, 32, 121, 97, 32, 119, 97, 110, 116, 32, 102, 111, 114, 32, 110, 111, 116, 104, 105, 110, 103, 63>>))
       = "750c783e6ab0b503eaa86e310a5db738"
ASSUME HexLower(HMACMD5(Rep(170, 16), Rep(221, 50))) = "56be34521d144c88dbb8c733f0e8b3f6"
ASSUME HexLower(HMACMD5(Rep(170, 80),
          <<84, 101, 115, 116, 32, 85, 115, 105, 110, 103, 32, 76, 97, 114, 103, 101, 114, 32, 84, 104, 97, 110, 32, 66, 108, 111, 99, 107, 45,
            83, 105, 122, 101, 32, 75, 101, 121, 32, 45, 32, 72, 97, 115, 104, 32, 75, 101, 121, 32, 70, 105, 114, 115, 116>>))
       = "6b1ab7fe4bd7bf8f0b62e6ce61b9d0cd"
=============================================================================
