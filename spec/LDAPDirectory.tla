--------------------------- MODULE LDAPDirectory ---------------------------
(***************************************************************************)
(* Specification growth G07: the LDAP session layer over a modelled        *)
(* directory.                                                              *)
(*                                                                         *)
(* A directory is a RootDSE (RFC 4512 5.1, MS-ADTS 3.1.1.3.2) and a        *)
(* sequence of entries; an entry is its RDN sequence and its attributes    *)
(* (attribute descriptions spelled as the schema spells them -- Active     *)
(* Directory answers with the lDAPDisplayName whatever spelling the client *)
(* asked for -- and octet-string values; texts are sequences of code       *)
(* points).                                                                *)
(*                                                                         *)
(*   LDSearch     RFC 4511 4.5.1: base object, scope (baseObject,          *)
(*                singleLevel, wholeSubtree; subordinateSubtree of         *)
(*                draft-sermersheim-ldap-subordinate-scope), filter        *)
(*                (and / or / not / equalityMatch / present / substrings / *)
(*                extensibleMatch with the bit-and rule of MS-ADTS         *)
(*                3.1.1.3.4.4.1).  A global-catalog DSA (dir.gc) answers   *)
(*                from every replica it holds; any other DSA stays inside  *)
(*                the naming context of the base object (MS-ADTS           *)
(*                3.1.1.3.1.?: no chaining, subordinate references are not *)
(*                followed here).                                          *)
(*   matching     by attribute syntax (MS-ADTS 3.1.1.2.2.2): String(Sid)   *)
(*                values match their binary form and -- as Active          *)
(*                Directory accepts in a filter -- their MS-DTYP 2.4.2.1   *)
(*                string form; DN-valued attributes match as DNs;          *)
(*                objectCategory also matches the lDAPDisplayName of the   *)
(*                class whose defaultObjectCategory it is (MS-ADTS         *)
(*                3.1.1.3.1.3.1); everything else is caseIgnoreMatch.      *)
(*   LDxxx        one operator per session method: directory + arguments   *)
(*                -> [want |-> the result, q |-> the searches below the    *)
(*                RootDSE that produce it].                                *)
(*                                                                         *)
(* The SID text is SID!SidText (MS-DTYP 2.4.2.1) of the binary objectSid   *)
(* of the entry the search returned; the DNS name of a domain is           *)
(* DN!DnDomainOf of its distinguished name (the C16 clauses); its NetBIOS  *)
(* name is the nETBIOSName of the crossRef whose nCName it is (MS-ADTS     *)
(* 6.1.1.2.1.1.?, "Partitions container").                                 *)
(***************************************************************************)
EXTENDS SID, DN, LDAPHelpers, ADAttrs

(* ---------------------------------------------------------------- attribute names (lDAPDisplayName, MS-ADA1/2/3) *)
LDAobjectClass == LHStr("objectClass")
LDAdistinguishedName == LHStr("distinguishedName")
LDAname == LHStr("name")
LDAobjectSid == LHStr("objectSid")
LDAobjectCategory == LHStr("objectCategory")
LDAdc == LHStr("dc")
LDAnCName == LHStr("nCName")
LDAnETBIOSName == LHStr("nETBIOSName")
LDAdnsRoot == LHStr("dnsRoot")
LDAdNSHostName == LHStr("dNSHostName")
LDAuserAccountControl == LHStr("userAccountControl")
LDAprimaryGroupID == LHStr("primaryGroupID")
LDAcertificateTemplates == LHStr("certificateTemplates")
LDAbehaviorVersion == LHStr("msDS-Behavior-Version")
LDAdefaultNC == LHStr("defaultNamingContext")
LDAconfigNC == LHStr("configurationNamingContext")
LDAschemaNC == LHStr("schemaNamingContext")
LDArootDomainNC == LHStr("rootDomainNamingContext")
LDAnamingContexts == LHStr("namingContexts")
LDStar == LHStr("*")
LDCN == LHStr("CN")
LDRuleBitAnd == LHStr("1.2.840.113556.1.4.803")          \* LDAP_MATCHING_RULE_BIT_AND

(* ---------------------------------------------------------------- entries *)
LDAttr(n, vs) == [n |-> n, v |-> vs]
LDRdn(t, v) == [t |-> t, v |-> v]
(* RFC 4517 4.2.15 distinguishedNameMatch, reduced to what Active Directory names need: types and values without regard to case *)
LDNormDn(rdns) == [i \in DOMAIN rdns |-> [t |-> LHUpper(rdns[i].t), v |-> LHUpper(rdns[i].v)]]
LDNormText(dnText) == LDNormDn(DnParse(dnText))
(* every object has objectClass, distinguishedName and name (the value of its RDN, MS-ADTS 3.1.1.1.? "name") *)
LDVals(attrs, name) == LET hs == SelectSeq(attrs, LAMBDA a : LHEqualFold(a.n, name)) IN IF hs = <<>> THEN <<>> ELSE hs[1].v
LDVal1(attrs, name) == LET v == LDVals(attrs, name) IN IF v = <<>> THEN <<>> ELSE v[1]
LDRootVal(dir, name) == LDVal1(dir.root, name)
LDUp(s) == LHUpper(s) \o <<>>                                     \* (\o <<>>: a plain tuple, computed once)
(* derived once per entry: norm = the DN in the form names are compared in; sid / sidtxt = the binary objectSid and its
   MS-DTYP 2.4.2.1 text (<<>> when there is none); u = attribute description in upper case -> values in upper case *)
LDUAttrs(attrs, uns) ==
    TLCEval([un \in { uns[i] : i \in DOMAIN uns } |->
               LET a == attrs[CHOOSE i \in DOMAIN uns : uns[i] = un] IN [k \in DOMAIN a.v |-> LDUp(a.v[k])] \o <<>>])
LDMkEntryU(rdns, attrs, sid, uns) ==
    [rdns |-> rdns, dn |-> attrs[2].v[1], norm |-> LDNormDn(rdns) \o <<>>,
     sid |-> sid, sidtxt |-> IF sid # <<>> /\ SidWellFormed(sid) THEN SidText(sid) ELSE <<>>,
     attrs |-> attrs, uns |-> uns, u |-> LDUAttrs(attrs, uns)]
LDMkEntry(rdns, classes, more) ==
    LET attrs == <<LDAttr(LDAobjectClass, classes), LDAttr(LDAdistinguishedName, <<DnEncode(rdns)>>), LDAttr(LDAname, <<rdns[1].v>>)>> \o more
    IN LDMkEntryU(rdns, attrs, LDVal1(more, LDAobjectSid), [i \in DOMAIN attrs |-> LDUp(attrs[i].n)] \o <<>>)
LDUVals(e, ua) == IF ua \in DOMAIN e.u THEN e.u[ua] ELSE <<>>

(* ---------------------------------------------------------------- matching *)
LDUobjectSid == LDUp(LDAobjectSid)
LDUobjectCategory == LDUp(LDAobjectCategory)
LDUnCName == LDUp(LDAnCName)
LDUdnAttrs == { LDUp(LDAdistinguishedName), LDUnCName, LDUp(LHStr("fSMORoleOwner")) }
LDSyntax(name) == LET u == LDUp(name) IN
                  IF u = LDUobjectSid THEN "sid" ELSE IF u \in LDUdnAttrs THEN "dn" ELSE IF u = LDUobjectCategory THEN "category" ELSE "text"

(* classSchema objects: lDAPDisplayName -> common name of the class whose DN is the defaultObjectCategory (MS-ADSC) *)
LDClassCategory == { <<"pKIEnrollmentService", "PKI-Enrollment-Service">>, <<"pKICertificateTemplate", "PKI-Certificate-Template">>,
                     <<"computer", "Computer">>, <<"user", "Person">>, <<"person", "Person">>, <<"group", "Group">>,
                     <<"domainDNS", "Domain-DNS">>, <<"crossRef", "Cross-Ref">>, <<"container", "Container">>,
                     <<"organizationalUnit", "Organizational-Unit">>, <<"builtinDomain", "Builtin-Domain">>,
                     <<"configuration", "Configuration">>, <<"dMD", "DMD">>, <<"crossRefContainer", "Cross-Ref-Container">> }
LDClassCategoryT == { <<LHStr(r[1]), LHStr(r[2])>> : r \in LDClassCategory }
LDCategoryDn(dir, classText) ==           \* <<>> when the class is not in the table
    LET rs == { r \in LDClassCategoryT : LHEqualFold(r[1], classText) } IN
    IF rs = {} THEN <<>> ELSE DnEncode(<<LDRdn(LDCN, (CHOOSE r \in rs : TRUE)[2])>> \o DnParse(LDRootVal(dir, LDAschemaNC)))

(* caseIgnoreSubstringsMatch (RFC 4517 4.2.? / RFC 4511 4.5.1.7.2): initial, any..., final in this order, not overlapping;
   all arguments already in upper case *)
LDHasAt(s, p, i) == i + Len(p) - 1 <= Len(s) /\ SubSeq(s, i, i + Len(p) - 1) = p
RECURSIVE LDFindFrom(_, _, _)
LDFindFrom(s, p, i) == IF i + Len(p) - 1 > Len(s) THEN 0 ELSE IF LDHasAt(s, p, i) THEN i ELSE LDFindFrom(s, p, i + 1)   \* 0 = not found
RECURSIVE LDAnys(_, _, _)
LDAnys(s, anys, i) ==                          \* position after the last "any", 0 when one of them is missing
    IF anys = <<>> THEN i
    ELSE LET at == LDFindFrom(s, Head(anys), i) IN IF at = 0 THEN 0 ELSE LDAnys(s, Tail(anys), at + Len(Head(anys)))
LDSubMatchU(s, i0, as, f0) ==
    /\ LDHasAt(s, i0, 1)
    /\ LET after == LDAnys(s, as, Len(i0) + 1) IN after # 0 /\ after + Len(f0) - 1 <= Len(s) /\ LDHasAt(s, f0, Len(s) - Len(f0) + 1)
LDSubMatch(val, ini, anys, fin) == LDSubMatchU(LDUp(val), LDUp(ini), [k \in DOMAIN anys |-> LDUp(anys[k])] \o <<>>, LDUp(fin))

RECURSIVE LDNatR(_, _)
LDNatR(t, acc) == IF t = <<>> THEN acc ELSE LDNatR(Tail(t), acc * 10 + (Head(t) - 48))
LDIsNat(t) == t # <<>> /\ Len(t) <= 9 /\ \A i \in DOMAIN t : t[i] >= 48 /\ t[i] <= 57
LDNat(t) == LDNatR(t, 0)
LDWordOf(n) == <<n \div 65536, n % 65536>>
(* MS-ADTS 3.1.1.3.4.4.1 LDAP_MATCHING_RULE_BIT_AND: TRUE iff all bits of the assertion value are set in the attribute value *)
LDBitAnd(val, asr) == LDIsNat(val) /\ LDIsNat(asr) /\ ADBits(LDWordOf(LDNat(asr))) \subseteq ADBits(LDWordOf(LDNat(val)))

(* filters *)
LDFEq(a, v) == [op |-> "eq", attr |-> a, val |-> v]
LDFPresent(a) == [op |-> "present", attr |-> a]
LDFAnd(fs) == [op |-> "and", subs |-> fs]
LDFOr(fs) == [op |-> "or", subs |-> fs]
LDFNot(f) == [op |-> "not", subs |-> <<f>>]
LDFSub(a, ini, anys, fin) == [op |-> "sub", attr |-> a, ini |-> ini, any |-> anys, fin |-> fin]
LDFExt(rule, a, v) == [op |-> "ext", rule |-> rule, attr |-> a, val |-> v]
LDFAnyObject == LDFPresent(LDAobjectClass)                        \* (objectClass=*)

(* a filter prepared for one search: what does not depend on the entry is computed once *)
RECURSIVE LDCompile(_, _)
LDCompile(dir, f) ==
    CASE f.op \in {"and", "or", "not"} -> [op |-> f.op, subs |-> [i \in DOMAIN f.subs |-> LDCompile(dir, f.subs[i])] \o <<>>]
      [] f.op = "present" -> [op |-> "present", ua |-> LDUp(f.attr)]
      [] f.op = "eq" -> LET syn == LDSyntax(f.attr) IN
                        [op |-> "eq", ua |-> LDUp(f.attr), syn |-> syn, val |-> f.val, uval |-> LDUp(f.val),
                         nval |-> IF syn \in {"dn", "category"} THEN LDNormText(f.val) \o <<>> ELSE <<>>,
                         cat |-> IF syn = "category" /\ LDCategoryDn(dir, f.val) # <<>> THEN LDNormText(LDCategoryDn(dir, f.val)) \o <<>> ELSE <<>>]
      [] f.op = "sub" -> [op |-> "sub", ua |-> LDUp(f.attr), ini |-> LDUp(f.ini), any |-> [k \in DOMAIN f.any |-> LDUp(f.any[k])] \o <<>>, fin |-> LDUp(f.fin)]
      [] f.op = "ext" -> [op |-> "ext", ua |-> LDUp(f.attr), bitand |-> f.rule = LDRuleBitAnd, val |-> f.val, uval |-> LDUp(f.val)]

LDEqMatch(cf, e) ==
    CASE cf.syn = "text" -> LET vs == LDUVals(e, cf.ua) IN \E i \in DOMAIN vs : vs[i] = cf.uval                  \* caseIgnoreMatch
      [] cf.syn = "sid" -> e.sid # <<>> /\ (cf.val = e.sid \/ (e.sidtxt # <<>> /\ cf.val = e.sidtxt))            \* binary, or the string form
      [] cf.syn = "dn" -> LET vs == LDUVals(e, cf.ua) IN \E i \in DOMAIN vs : LDNormText(vs[i]) = cf.nval
      [] cf.syn = "category" -> LET vs == LDUVals(e, cf.ua) IN
                                \E i \in DOMAIN vs : LDNormText(vs[i]) = cf.nval \/ (cf.cat # <<>> /\ LDNormText(vs[i]) = cf.cat)
RECURSIVE LDMatchC(_, _)
LDMatchC(cf, e) ==
    CASE cf.op = "and" -> \A i \in DOMAIN cf.subs : LDMatchC(cf.subs[i], e)
      [] cf.op = "or" -> \E i \in DOMAIN cf.subs : LDMatchC(cf.subs[i], e)
      [] cf.op = "not" -> ~LDMatchC(cf.subs[1], e)
      [] cf.op = "present" -> cf.ua \in DOMAIN e.u
      [] cf.op = "eq" -> cf.ua \in DOMAIN e.u /\ LDEqMatch(cf, e)
      [] cf.op = "sub" -> LET vs == LDUVals(e, cf.ua) IN \E i \in DOMAIN vs : LDSubMatchU(vs[i], cf.ini, cf.any, cf.fin)
      [] cf.op = "ext" -> LET vs == LDUVals(e, cf.ua) IN
                          IF cf.bitand THEN \E i \in DOMAIN vs : LDBitAnd(vs[i], cf.val) ELSE \E i \in DOMAIN vs : vs[i] = cf.uval
LDMatch(dir, f, e) == LDMatchC(LDCompile(dir, f), e)

(* ---------------------------------------------------------------- search *)
LDScopeBase == 0
LDScopeOne == 1
LDScopeSub == 2
LDScopeChildren == 3
LDIsSuffix(b, d) == Len(b) <= Len(d) /\ SubSeq(d, Len(d) - Len(b) + 1, Len(d)) = b
LDInScope(d, b, scope) ==
    CASE scope = LDScopeBase -> d = b
      [] scope = LDScopeOne -> Len(d) = Len(b) + 1 /\ LDIsSuffix(b, d)
      [] scope = LDScopeSub -> LDIsSuffix(b, d)
      [] scope = LDScopeChildren -> Len(d) > Len(b) /\ LDIsSuffix(b, d)
(* the naming context an object lives in: the longest naming-context DN it ends with *)
LDNcs(dir) == LET vs == LDVals(dir.root, LDAnamingContexts) IN { LDNormText(vs[i]) : i \in DOMAIN vs }
LDNcOf(dir, norm) == LET cs == { n \in LDNcs(dir) : LDIsSuffix(n, norm) } IN
                     IF cs = {} THEN <<>> ELSE CHOOSE n \in cs : \A m \in cs : Len(m) <= Len(n)
LDResultSuccess == 0
LDResultNoSuchObject == 32
(* hits: indices into dir.entries, in directory order *)
LDSearch(dir, baseText, scope, f) ==
    LET b == LDNormText(baseText)
        n == Len(dir.entries)
        exists == \E i \in 1..n : dir.entries[i].norm = b
        visible(i) == dir.gc \/ LDNcOf(dir, dir.entries[i].norm) = LDNcOf(dir, b)
        cf == LDCompile(dir, f)
    IN IF baseText = <<>> \/ ~exists THEN [code |-> LDResultNoSuchObject, hits |-> <<>>]
       ELSE [code |-> LDResultSuccess,
             hits |-> SelectSeq([i \in 1..n |-> i],
                                LAMBDA i : LDInScope(dir.entries[i].norm, b, scope) /\ visible(i) /\ LDMatchC(cf, dir.entries[i]))]

LDQ(base, scope, f, attrs) == [base |-> base, scope |-> scope, f |-> f, attrs |-> attrs]
LDQAnyAttrs(base, scope, f) == [base |-> base, scope |-> scope, f |-> f]            \* the attribute selection is not stated
(* attribute selection (RFC 4511 4.5.1.8): an empty list or "*" = all user attributes *)
LDSelAll(sel) == sel = <<>> \/ (\E i \in DOMAIN sel : sel[i] = LDStar)
LDSelSet(sel) == { LDUp(sel[i]) : i \in DOMAIN sel }
LDProjectU(e, all, us) == IF all THEN e.attrs
                          ELSE LET idx == SelectSeq([i \in DOMAIN e.attrs |-> i], LAMBDA i : e.uns[i] \in us) IN [k \in DOMAIN idx |-> e.attrs[idx[k]]]
LDHitEntries(dir, hits, sel) == LET all == LDSelAll(sel)  us == LDSelSet(sel) IN
                                [k \in DOMAIN hits |-> [dn |-> dir.entries[hits[k]].dn, attrs |-> LDProjectU(dir.entries[hits[k]], all, us)]]

(* ---------------------------------------------------------------- session methods *)
LDDefaultNC(dir) == LDRootVal(dir, LDAdefaultNC)
LDConfigNC(dir) == LDRootVal(dir, LDAconfigNC)

(* GetRootDSE / GetAllNamingContexts / BaseDNExists *)
LDGetRootDSE(dir) == [want |-> [attrs |-> dir.root], q |-> <<>>]
LDGetAllNamingContexts(dir) == LET ncs == LDVals(dir.root, LDAnamingContexts) IN [want |-> [err |-> ncs = <<>>, list |-> ncs], q |-> <<>>]
LDBaseDNExists(dir, base) == [want |-> [exists |-> LDSearch(dir, base, LDScopeBase, LDFAnyObject).code = LDResultSuccess],
                              q |-> <<LDQAnyAttrs(base, LDScopeBase, LDFAnyObject)>>]

(* Query: "", "defaultNamingContext", "configurationNamingContext", "schemaNamingContext" (any case) name the RootDSE values *)
LDLdefaultNC == LHLower(LDAdefaultNC)
LDLconfigNC == LHLower(LDAconfigNC)
LDLschemaNC == LHLower(LDAschemaNC)
LDResolveBase(dir, sb) == LET l == LHLower(sb) IN
    IF sb = <<>> \/ l = LDLdefaultNC THEN LDDefaultNC(dir)
    ELSE IF l = LDLconfigNC THEN LDConfigNC(dir)
    ELSE IF l = LDLschemaNC THEN LDRootVal(dir, LDAschemaNC)
    ELSE sb
LDQuery(dir, sb, f, sel, scope) ==
    LET base == LDResolveBase(dir, sb)  r == LDSearch(dir, base, scope, f) IN
    [want |-> [err |-> r.code # LDResultSuccess, entries |-> LDHitEntries(dir, r.hits, sel)], q |-> <<LDQ(base, scope, f, sel)>>]
RECURSIVE LDQueryEach(_, _, _, _, _)
LDQueryEach(dir, bases, f, sel, scope) ==
    IF bases = <<>> THEN [want |-> [err |-> FALSE, entries |-> <<>>], q |-> <<>>]
    ELSE LET one == LDQuery(dir, Head(bases), f, sel, scope) IN
         IF one.want.err THEN [want |-> [err |-> TRUE, entries |-> <<>>], q |-> one.q]
         ELSE LET rest == LDQueryEach(dir, Tail(bases), f, sel, scope) IN
              [want |-> [err |-> rest.want.err, entries |-> IF rest.want.err THEN <<>> ELSE one.want.entries \o rest.want.entries],
               q |-> one.q \o rest.q]
LDQueryAllNamingContexts(dir, f, sel, scope) ==
    LET ncs == LDVals(dir.root, LDAnamingContexts) IN
    IF ncs = <<>> THEN [want |-> [err |-> TRUE, entries |-> <<>>], q |-> <<>>] ELSE LDQueryEach(dir, ncs, f, sel, scope)

(* domains *)
LDDomainFilter == LDFEq(LDAobjectClass, LHStr("domain"))
LDCrossRefFilter == LDFEq(LDAobjectClass, LHStr("crossRef"))
LDCrossRefOf(dir, i) ==                 \* indices of the crossRef objects whose nCName is entry i
    LET cf == LDCompile(dir, LDCrossRefFilter) IN
    SelectSeq([k \in 1..Len(dir.entries) |-> k],
              LAMBDA k : /\ LDUnCName \in DOMAIN dir.entries[k].u
                         /\ LDMatchC(cf, dir.entries[k])
                         /\ LDNormText(LDVal1(dir.entries[k].attrs, LDAnCName)) = dir.entries[i].norm)
LDNetBIOSOf(dir, i) == LET cr == LDCrossRefOf(dir, i) IN IF cr = <<>> THEN <<>> ELSE LDVal1(dir.entries[cr[1]].attrs, LDAnETBIOSName)
LDDnsOf(dir, i) == DnDomainOf(dir.entries[i].rdns)
LDSidOf(dir, i) == dir.entries[i].sidtxt
(* objects.Domain: upper-case DNS and NetBIOS names *)
LDDomainRec(dir, i) == [dn |-> dir.entries[i].dn, nb |-> LHUpper(LDNetBIOSOf(dir, i)), dns |-> LHUpper(LDDnsOf(dir, i)), sid |-> LDSidOf(dir, i)]
LDNoDomain == [dn |-> <<>>, nb |-> <<>>, dns |-> <<>>, sid |-> <<>>]
LDDomainHits(dir) == LDSearch(dir, LDDefaultNC(dir), LDScopeSub, LDDomainFilter)
LDDomainIndex(dir, name) ==             \* 0 = no such domain
    LET r == LDDomainHits(dir)
        cs == SelectSeq(r.hits, LAMBDA i : name # <<>> /\ (LHEqualFold(name, LDDnsOf(dir, i)) \/ LHEqualFold(name, LDNetBIOSOf(dir, i))))
    IN IF cs = <<>> THEN 0 ELSE cs[1]
LDDomainQ(dir) == LDQAnyAttrs(LDDefaultNC(dir), LDScopeSub, LDDomainFilter)
LDGetDomain(dir, name) ==
    LET i == LDDomainIndex(dir, name) IN
    [want |-> [err |-> i = 0, dom |-> IF i = 0 THEN LDNoDomain ELSE LDDomainRec(dir, i)], q |-> <<LDDomainQ(dir)>>, idx |-> i]
LDGetAllDomains(dir) ==
    LET r == LDDomainHits(dir) IN
    [want |-> [err |-> r.code # LDResultSuccess, list |-> [k \in DOMAIN r.hits |-> LDDomainRec(dir, r.hits[k])]], q |-> <<LDDomainQ(dir)>>]

(* FindObjectSIDByRID: the principal <rid> of the domain; BUILTIN aliases live under S-1-5-32 (MS-DTYP 2.4.2.4), all others under
   the domain's SID.  The result is the text of the binary objectSid of the ONE entry found; "" when there is none or several. *)
LDSidAuthNT == <<0, 0, 0, 0, 0, 5>>
LDSidBuiltin(rid) == SidEncode(LDSidAuthNT, <<LE(32, 4), LE(rid, 4)>>)
LDSidAppend(b, rid) == <<b[1], b[2] + 1>> \o SubSeq(b, 3, Len(b)) \o LE(rid, 4)
LDRidBranch(rid) == IF ADRidUnderBuiltin(rid) THEN "builtin" ELSE "domain"
LDFindObjectSIDByRID(dir, name, rid) ==
    LET d == LDGetDomain(dir, name) IN
    IF d.want.err THEN [want |-> [err |-> TRUE, sid |-> <<>>], q |-> d.q]
    ELSE LET target == IF ADRidUnderBuiltin(rid) THEN LDSidBuiltin(rid) ELSE LDSidAppend(LDVal1(dir.entries[d.idx].attrs, LDAobjectSid), rid)
             f == LDFEq(LDAobjectSid, SidText(target))
             r == LDSearch(dir, d.want.dom.dn, LDScopeSub, f)
         IN [want |-> [err |-> FALSE, sid |-> IF Len(r.hits) = 1 THEN LDSidOf(dir, r.hits[1]) ELSE <<>>],
             q |-> d.q \o <<LDQ(d.want.dom.dn, LDScopeSub, f, <<LDAdistinguishedName, LDAobjectSid>>)>>]

(* LookupSID: the name of the object with this SID, naming contexts in RootDSE order *)
RECURSIVE LDLookupIn(_, _, _)
LDLookupIn(dir, ncs, f) ==
    IF ncs = <<>> THEN [want |-> [err |-> TRUE, name |-> <<>>], q |-> <<>>]
    ELSE LET r == LDSearch(dir, Head(ncs), LDScopeSub, f)
             q == <<LDQ(Head(ncs), LDScopeSub, f, <<LDAname>>)>>
         IN IF r.code # LDResultSuccess THEN [want |-> [err |-> TRUE, name |-> <<>>], q |-> q]
            ELSE IF r.hits # <<>> THEN [want |-> [err |-> FALSE, name |-> LDVal1(dir.entries[r.hits[1]].attrs, LDAname)], q |-> q]
            ELSE LET rest == LDLookupIn(dir, Tail(ncs), f) IN [want |-> rest.want, q |-> q \o rest.q]
LDLookupSID(dir, sidText) == LDLookupIn(dir, LDVals(dir.root, LDAnamingContexts), LDFEq(LDAobjectSid, sidText))

(* domain controllers: computer objects with SERVER_TRUST_ACCOUNT / PARTIAL_SECRETS_ACCOUNT (MS-ADTS 2.2.16) and a DNS host name *)
LDUacValue(name) == LET r == CHOOSE x \in ADRows(ADUacTable) : x.name = name IN r.mask[1] * 65536 + r.mask[2]
LDComputerFilter == LDFEq(LDAobjectClass, LHStr("computer"))
LDDcFilter(flag) == LDFAnd(<<LDComputerFilter, LDFExt(LDRuleBitAnd, LDAuserAccountControl, LHDec(LDUacValue(flag))), LDFPresent(LDAdNSHostName)>>)
LDHostMap(dir, hits) == [k \in DOMAIN hits |-> [dn |-> dir.entries[hits[k]].dn, hosts |-> LDVals(dir.entries[hits[k]].attrs, LDAdNSHostName)]]
LDControllers(dir, flag) ==
    LET r == LDSearch(dir, LDDefaultNC(dir), LDScopeSub, LDDcFilter(flag)) IN
    [want |-> [err |-> r.code # LDResultSuccess, list |-> LDHostMap(dir, r.hits)],
     q |-> <<LDQ(LDDefaultNC(dir), LDScopeSub, LDDcFilter(flag), <<LDAdistinguishedName, LDAdNSHostName>>)>>]
LDGetAllDomainControllers(dir) == LDControllers(dir, "SERVER_TRUST_ACCOUNT")
LDGetAllReadOnlyDomainControllers(dir) == LDControllers(dir, "PARTIAL_SECRETS_ACCOUNT")
(* "the computer object that represents the PDC by using the primaryGroupID attribute and the specified domain name":
   the first member of Domain Controllers (RID 516) whose DNS host name contains the domain name *)
LDRidControllers == (CHOOSE r \in ADRows(ADRidTable) : "DOMAIN_DOMAIN_CONTROLLERS" \in r.names).rid
LDPdcFilter(name) == LDFAnd(<<LDComputerFilter, LDFEq(LDAprimaryGroupID, LHDec(LDRidControllers)), LDFSub(LDAdNSHostName, <<>>, <<name>>, <<>>)>>)
LDGetPrincipalDomainController(dir, name) ==
    LET r == LDSearch(dir, LDDefaultNC(dir), LDScopeSub, LDPdcFilter(name)) IN
    [want |-> [err |-> r.code # LDResultSuccess, host |-> IF r.hits = <<>> THEN <<>> ELSE LDVal1(dir.entries[r.hits[1]].attrs, LDAdNSHostName)],
     q |-> <<LDQ(LDDefaultNC(dir), LDScopeSub, LDPdcFilter(name), <<LDAdNSHostName>>)>>]

(* certificate templates (MS-CRTD) and enrollment services (MS-WCCE 2.2.2.11.?) in the configuration naming context *)
LDTemplateFilter == LDFEq(LDAobjectClass, LHStr("pKICertificateTemplate"))
LDEnrollFilter == LDFEq(LDAobjectCategory, LHStr("pKIEnrollmentService"))
LDHitDns(dir, hits) == [k \in DOMAIN hits |-> dir.entries[hits[k]].dn]
LDGetAllCertificates(dir) ==
    LET r == LDSearch(dir, LDConfigNC(dir), LDScopeSub, LDTemplateFilter) IN
    [want |-> [err |-> FALSE, list |-> LDHitDns(dir, r.hits)], q |-> <<LDQ(LDConfigNC(dir), LDScopeSub, LDTemplateFilter, <<LDAdistinguishedName>>)>>]
LDEnabledNames(dir) == LET r == LDSearch(dir, LDConfigNC(dir), LDScopeSub, LDEnrollFilter) IN
                       Flatten([k \in DOMAIN r.hits |-> LDVals(dir.entries[r.hits[k]].attrs, LDAcertificateTemplates)])
LDEnrollQ(dir) == LDQ(LDConfigNC(dir), LDScopeSub, LDEnrollFilter, <<LDAcertificateTemplates>>)
LDGetNamesOfAllEnabledCertificates(dir) ==
    [want |-> [err |-> LDSearch(dir, LDConfigNC(dir), LDScopeSub, LDEnrollFilter).code # LDResultSuccess, list |-> LDEnabledNames(dir)], q |-> <<LDEnrollQ(dir)>>]
LDTemplateNamed(n) == LDFAnd(<<LDTemplateFilter, LDFEq(LDAname, n)>>)
LDGetDistinguishedNamesOfAllEnabledCertificates(dir) ==
    LET ns == LDEnabledNames(dir) IN
    [want |-> [err |-> FALSE,
               list |-> Flatten([k \in DOMAIN ns |-> LDHitDns(dir, LDSearch(dir, LDConfigNC(dir), LDScopeSub, LDTemplateNamed(ns[k])).hits)])],
     q |-> <<LDEnrollQ(dir)>> \o [k \in DOMAIN ns |-> LDQ(LDConfigNC(dir), LDScopeSub, LDTemplateNamed(ns[k]), <<LDAdistinguishedName>>)]]

(* objects.Domain methods *)
LDGetAllComputers(dir, name) ==
    LET d == LDGetDomain(dir, name) IN
    IF d.want.err THEN [want |-> [err |-> TRUE, list |-> <<>>], q |-> d.q]
    ELSE LET r == LDSearch(dir, d.want.dom.dn, LDScopeSub, LDComputerFilter) IN
         [want |-> [err |-> FALSE, list |-> LDHostMap(dir, r.hits)],
          q |-> d.q \o <<LDQ(d.want.dom.dn, LDScopeSub, LDComputerFilter, <<LDAdistinguishedName, LDAdNSHostName>>)>>]
(* msDS-Behavior-Version of the domain object against a functional level (MS-ADTS 6.1.4.3): levels are ordered by their number *)
LDIsDomainAtLeast(dir, name, level) ==
    LET d == LDGetDomain(dir, name) IN
    IF d.want.err THEN [want |-> [err |-> TRUE, ok |-> FALSE], q |-> d.q]
    ELSE LET v == LDVal1(dir.entries[d.idx].attrs, LDAbehaviorVersion) IN
         [want |-> [err |-> ~LDIsNat(v), ok |-> LDIsNat(v) /\ ADDflAtLeast(LDNat(v), level)], q |-> d.q]

(* Connect without TLS and without Kerberos: a simple bind (RFC 4511 4.2) as user@domain with the password; without a password
   the unauthenticated bind of RFC 4513 5.1.2 (name, empty password), and the anonymous bind (no name) without a user *)
LDBind(domain, user, password) ==
    [name |-> IF user = <<>> /\ password = <<>> THEN <<>> ELSE user \o <<64>> \o domain, password |-> password]

(* ---------------------------------------------------------------- known answers: a four-entry directory *)
LDKdom == <<LDRdn(LHStr("DC"), LHStr("lab")), LDRdn(LHStr("DC"), LHStr("test"))>>
LDKsid == <<1, 4, 0, 0, 0, 0, 0, 5, 21, 0, 0, 0, 199, 247, 254, 215, 124, 119, 85, 200, 148, 90, 206, 1>>      \* S-1-5-21-3623811015-3361044348-30300820
LDKdir == [gc |-> TRUE,
           root |-> <<LDAttr(LDAdefaultNC, <<DnEncode(LDKdom)>>), LDAttr(LDAnamingContexts, <<DnEncode(LDKdom)>>)>>,
           entries |-> << LDMkEntry(LDKdom, <<LHStr("top"), LHStr("domain"), LHStr("domainDNS")>>, <<LDAttr(LDAobjectSid, <<LDKsid>>), LDAttr(LDAdc, <<LHStr("lab")>>)>>),
                          LDMkEntry(<<LDRdn(LDCN, LHStr("Builtin"))>> \o LDKdom, <<LHStr("top"), LHStr("builtinDomain")>>, <<LDAttr(LDAobjectSid, <<SidEncode(LDSidAuthNT, <<LE(32, 4)>>)>>)>>),
                          LDMkEntry(<<LDRdn(LDCN, LHStr("Administrators")), LDRdn(LDCN, LHStr("Builtin"))>> \o LDKdom, <<LHStr("top"), LHStr("group")>>, <<LDAttr(LDAobjectSid, <<LDSidBuiltin(544)>>)>>),
                          LDMkEntry(<<LDRdn(LDCN, LHStr("jdoe"))>> \o LDKdom, <<LHStr("top"), LHStr("user")>>, <<LDAttr(LDAobjectSid, <<LDSidAppend(LDKsid, 1013)>>)>>) >>]
ASSUME /\ LDSearch(LDKdir, LHStr("dc=LAB,dc=test"), LDScopeSub, LDDomainFilter).hits = <<1>>          \* "builtinDomain" is not "domain"
       /\ LDSearch(LDKdir, LHStr("DC=lab,DC=test"), LDScopeOne, LDFAnyObject).hits = <<2, 4>>
       /\ LDSearch(LDKdir, LHStr("DC=lab,DC=test"), LDScopeChildren, LDFAnyObject).hits = <<2, 3, 4>>
       /\ LDSearch(LDKdir, LHStr("CN=Builtin,DC=lab,DC=test"), LDScopeBase, LDFAnyObject).hits = <<2>>
       /\ LDSearch(LDKdir, LHStr("DC=nope,DC=test"), LDScopeSub, LDFAnyObject).code = LDResultNoSuchObject
       /\ LDSearch(LDKdir, LHStr("DC=lab,DC=test"), LDScopeSub, LDFEq(LDAobjectSid, LHStr("S-1-5-32-544"))).hits = <<3>>
       /\ LDSearch(LDKdir, LHStr("DC=lab,DC=test"), LDScopeSub, LDFEq(LDAobjectSid, LDSidBuiltin(544))).hits = <<3>>
       /\ LDSearch(LDKdir, LHStr("DC=lab,DC=test"), LDScopeSub, LDFNot(LDFOr(<<LDFEq(LDAname, LHStr("JDOE")), LDDomainFilter>>))).hits = <<2, 3>>
       /\ LDFindObjectSIDByRID(LDKdir, LHStr("lab.test"), 544).want.sid = LHStr("S-1-5-32-544")
       /\ LDFindObjectSIDByRID(LDKdir, LHStr("LAB.TEST"), 1013).want.sid = LHStr("S-1-5-21-3623811015-3361044348-30300820-1013")
       /\ LDFindObjectSIDByRID(LDKdir, LHStr("lab.test"), 500).want = [err |-> FALSE, sid |-> <<>>]
       /\ LDFindObjectSIDByRID(LDKdir, LHStr("other.test"), 500).want.err
       /\ LDGetDomain(LDKdir, LHStr("Lab.Test")).want.dom.dns = LHStr("LAB.TEST")
       /\ LDLookupSID(LDKdir, LHStr("S-1-5-32-544")).want.name = LHStr("Administrators")
       /\ LDSubMatch(LHStr("dc01.Lab.test"), <<>>, <<LHStr("lab.TEST")>>, <<>>) /\ ~LDSubMatch(LHStr("dc01.lab.test"), LHStr("dc02"), <<>>, <<>>)
       /\ LDSubMatch(LHStr("abcabc"), LHStr("abc"), <<LHStr("b")>>, LHStr("c")) /\ ~LDSubMatch(LHStr("abc"), LHStr("abc"), <<>>, LHStr("bc"))
       /\ LDBitAnd(LHStr("532480"), LHStr("8192")) /\ ~LDBitAnd(LHStr("4096"), LHStr("8192")) /\ LDBitAnd(LHStr("67112960"), LHStr("67108864"))
       /\ LDUacValue("SERVER_TRUST_ACCOUNT") = 8192 /\ LDUacValue("PARTIAL_SECRETS_ACCOUNT") = 67108864 /\ LDRidControllers = 516
       /\ LDBind(LHStr("lab.test"), LHStr("alice"), LHStr("pw")) = [name |-> LHStr("alice@lab.test"), password |-> LHStr("pw")]
       /\ LDBind(LHStr("lab.test"), <<>>, <<>>).name = <<>>
=============================================================================
