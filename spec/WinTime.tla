------------------------------ MODULE WinTime ------------------------------
(***************************************************************************)
(* Windows time and duration conversions in ARBITRARY PRECISION (Digits).  *)
(*                                                                         *)
(* [MS-DTYP] 2.3.3 FILETIME: a 64-bit count of 100-nanosecond intervals    *)
(* ("ticks") since 1601-01-01 00:00 UTC, as two 32-bit halves, low first.  *)
(* Active Directory "Interval"/large-integer attributes (lastLogon,        *)
(* pwdLastSet, accountExpires, ...) hold the same count as a decimal       *)
(* string; durations (maxPwdAge, lockoutDuration, ...) are NEGATIVE tick   *)
(* counts; 0x7FFFFFFFFFFFFFFF and -0x8000000000000000 mean "never".        *)
(* Key-credential (msDS-KeyCredentialLink) times are the same ticks, LE64. *)
(* RFC 4122 4.1.4: the version-1 timestamp counts the same 100 ns          *)
(* intervals since 1582-10-15 00:00 UTC (60 bits).                         *)
(*                                                                         *)
(* A Go/Unix time is [s |-> integer seconds since 1970-01-01 00:00 UTC,    *)
(*                    ns |-> 0..999999999]  (time.Time.Unix/Nanosecond).   *)
(* Naturals and integers are Digits values; nothing here can overflow.     *)
(***************************************************************************)
EXTENDS Digits

WtE1601 == <<1,1,6,4,4,4,7,3,6,0,0,0,0,0,0,0,0,0>>      \* 116444736000000000 ticks from 1601-01-01 to 1970-01-01
WtE1582 == <<1,2,2,1,9,2,9,2,8,0,0,0,0,0,0,0,0,0>>      \* 122192928000000000 ticks from 1582-10-15 to 1970-01-01
(* 134774 and 141427 days (369 years with 89 leap days; plus 17 years and 78 days back to the Gregorian reform) *)
ASSUME WtE1601 = DShl(DMulSmall(DFromInt(134774), 86400), 7)
ASSUME WtE1582 = DShl(DMulSmall(DFromInt(141427), 86400), 7)
ASSUME 134774 = 369 * 365 + 89 /\ 141427 - 134774 = 18 * 365 + 4 + 79

WtTime(s, ns) == [s |-> s, ns |-> ns]

(* ticks since 1970 (an integer) of a tick count x since the epoch that lies E ticks before 1970 *)
WtSince1970(x, E) == ZSub(ZNat(x), ZNat(E))
(* tick count -> time: floor division; the remainder is the sub-second part *)
WtTicksToTime(x, E) == LET d == WtSince1970(x, E) IN WtTime(ZFloorDivPow10(d, 7), DToInt(ZModPow10(d, 7)) * 100)
(* time -> tick count (an integer: negative when the time lies before the epoch); sub-tick nanoseconds are dropped (floor) *)
WtTimeToTicks(tm, E) == ZAdd(ZAdd(ZShl(tm.s, 7), ZNat(DFromInt(tm.ns \div 100))), ZNat(E))
WtExact(tm) == tm.ns % 100 = 0
(* Unix nanoseconds of a time / of a tick count: what has to fit into an int64 for time.Time.UnixNano / time.Unix(0, ns) *)
WtUnixNanoOfTime(tm) == ZAdd(ZShl(tm.s, 9), ZNat(DFromInt(tm.ns)))
WtUnixNanoOfTicks(x, E) == ZShl(WtSince1970(x, E), 2)
WtTimeInNsWindow(tm) == ZInI64(WtUnixNanoOfTime(tm))
WtTicksInNsWindow(x, E) == ZInI64(WtUnixNanoOfTicks(x, E))

(* LDAP timestamp (integer ticks since 1601) -> Unix seconds; values before 1970 map to 0 (documented behaviour) *)
WtLdapToUnix(v) == IF ZLt(v, ZNat(WtE1601)) THEN ZZero ELSE ZNat(DShr(DSub(v.mag, WtE1601), 7))
(* the unclamped reading (negative before 1970): equally exact; the code under test documents the clamp *)
WtLdapToUnixSigned(v) == ZFloorDivPow10(ZSub(v, ZNat(WtE1601)), 7)
(* Unix seconds -> LDAP timestamp *)
WtUnixToLdap(s) == ZAdd(ZShl(s, 7), ZNat(WtE1601))
(* LDAP duration (negative interval, either sign accepted) -> seconds; seconds -> tick count *)
WtDurToSec(d) == ZNat(DShr(d.mag, 7))
WtSecToDur(s) == ZShl(s, 7)

(* 64-bit machine forms *)
WtI64OfU64(x) == IF DLt(x, D2p63) THEN ZNat(x) ELSE ZMk(TRUE, DSub(D2p64, x))       \* two's-complement reading
WtU64OfI64(z) == IF z.neg THEN DSub(D2p64, z.mag) ELSE z.mag
WtLE64(x) == DToBytesLE(x, 8)
WtHalves(x) == LET b == DToBytesBE(x, 8) IN [hi |-> DFromBytesBE(SubSeq(b, 1, 4)), lo |-> DFromBytesBE(SubSeq(b, 5, 8))]

(* ---- known answers ---- *)
WtNever == DSub(D2p63, DOne)                                                          \* 0x7FFFFFFFFFFFFFFF
(* 1970-01-01 and 2020-01-01 00:00:00 UTC *)
ASSUME WtTicksToTime(WtE1601, WtE1601) = WtTime(ZZero, 0)
ASSUME WtTicksToTime(<<1,3,2,2,2,3,1,0,4,0,0,0,0,0,0,0,0,0>>, WtE1601) = WtTime(ZNat(<<1,5,7,7,8,3,6,8,0,0>>), 0)
(* 0 = 1601-01-01: -11644473600 s *)
ASSUME WtTicksToTime(DZero, WtE1601) = WtTime(ZMk(TRUE, <<1,1,6,4,4,4,7,3,6,0,0>>), 0)
(* one tick before 1970: floor -> second -1, 999999900 ns *)
ASSUME WtTicksToTime(DSub(WtE1601, DOne), WtE1601) = WtTime(ZMk(TRUE, DOne), 999999900)
(* "never": 30828-09-14 02:48:05.4775807 UTC = day 10540425 after 1970, 10085 s into the day *)
ASSUME WtTicksToTime(WtNever, WtE1601) = WtTime(ZNat(<<9,1,0,6,9,2,7,3,0,0,8,5>>), 477580700)
ASSUME DDivSmall(<<9,1,0,6,9,2,7,3,0,0,8,5>>, 86400) = <<DFromInt(10540425), 10085>> /\ 10085 = 2 * 3600 + 48 * 60 + 5
ASSUME WtTimeToTicks(WtTicksToTime(WtNever, WtE1601), WtE1601) = ZNat(WtNever)
(* the RFC 4122 name-space UUID 6ba7b810-9dad-11d1-...: timestamp 0x1d19dad6ba7b810 = 1998-02-04 22:13:53.1511824 UTC *)
ASSUME WtTicksToTime(DFromNibbles(<<1, 13, 1, 9, 13, 10, 13, 6, 11, 10, 7, 11, 8, 1, 0>>), WtE1582) = WtTime(ZNat(<<8,8,6,6,3,0,4,3,3>>), 151182400)
(* the int64-nanosecond window: 1677-09-21 .. 2262-04-11 *)
ASSUME WtTicksInNsWindow(<<2,0,8,6,7,8,4,5,6,3,6,8,5,4,7,7,5,8>>, WtE1601) /\ ~WtTicksInNsWindow(<<2,0,8,6,7,8,4,5,6,3,6,8,5,4,7,7,5,9>>, WtE1601)
ASSUME WtTicksInNsWindow(<<2,4,2,1,1,0,1,5,6,3,1,4,5,2,2,4,2>>, WtE1601) /\ ~WtTicksInNsWindow(<<2,4,2,1,1,0,1,5,6,3,1,4,5,2,2,4,1>>, WtE1601)
(* LDAP: the never sentinel is 910692730085 s after 1970; one day; abs(MinInt64) *)
ASSUME WtLdapToUnix(ZNat(WtNever)) = ZNat(<<9,1,0,6,9,2,7,3,0,0,8,5>>) /\ WtLdapToUnix(ZNat(DSub(WtE1601, DOne))) = ZZero /\ WtLdapToUnix(ZMinI64) = ZZero
ASSUME WtLdapToUnixSigned(ZZero) = ZMk(TRUE, <<1,1,6,4,4,4,7,3,6,0,0>>) /\ WtLdapToUnixSigned(ZNat(WtNever)) = WtLdapToUnix(ZNat(WtNever))
ASSUME WtDurToSec(ZMk(TRUE, <<8,6,4,0,0,0,0,0,0,0,0,0>>)) = ZNat(<<8,6,4,0,0>>) /\ WtSecToDur(ZNat(<<8,6,4,0,0>>)) = ZNat(<<8,6,4,0,0,0,0,0,0,0,0,0>>)
ASSUME WtDurToSec(ZMinI64) = ZNat(<<9,2,2,3,3,7,2,0,3,6,8,5>>) /\ WtDurToSec(ZMaxI64) = ZNat(<<9,2,2,3,3,7,2,0,3,6,8,5>>)
ASSUME WtUnixToLdap(ZNat(<<1,5,7,7,8,3,6,8,0,0>>)) = ZNat(<<1,3,2,2,2,3,1,0,4,0,0,0,0,0,0,0,0,0>>)
ASSUME WtLE64(WtNever) = <<255, 255, 255, 255, 255, 255, 255, 127>> /\ WtI64OfU64(DSub(D2p64, DOne)) = ZMk(TRUE, DOne) /\ WtU64OfI64(ZMinI64) = D2p63
ASSUME WtHalves(<<1,3,2,2,2,3,1,0,4,0,0,0,0,0,0,0,0,0>>) = [hi |-> DFromInt(30785590), lo |-> DFromInt(1761935360)]   \* 0x01D5C036 69050000
=============================================================================
