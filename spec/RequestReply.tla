---------------------------- MODULE RequestReply ----------------------------
(***************************************************************************)
(* The client-visible contract of the name-service servers and of the      *)
(* LLMNR client (C18), as the abstraction that NameService.tla refines:    *)
(* requests outstanding per client; a reply delivered to a client must     *)
(* carry the transaction id AND the answer of exactly one outstanding      *)
(* request of THAT client, which it consumes (no request is answered       *)
(* twice, no reply is fabricated, no reply crosses clients).               *)
(*                                                                         *)
(* Used for trace validation of free-running (ungated) executions, where   *)
(* only client-side events are observable:                                 *)
(*   send   c id key      client c sent a request with transaction id `id` *)
(*                        whose correct answer is identified by `key`      *)
(*   reply  c id key      client c received a reply carrying id and answer *)
(*   stopped              Stop/Close returned                              *)
(* and for the LLMNR client (roles reversed: the library matches replies): *)
(*   qsend  q id          the responder saw query q leave with id          *)
(*   resp   id tag        the responder sent a response with id, tagged    *)
(*   qret   q id tag      Query q returned the response (id, tag)          *)
(*   qtimeout q           Query q returned a timeout                       *)
(***************************************************************************)
EXTENDS Integers, Sequences, FiniteSets, TLC, TLCExt, Json

VARIABLES out,      \* set of <<client, id, key>> requests not yet answered
          stopped,  \* BOOLEAN
          qid,      \* LLMNR client: query -> id it was sent with (0 = not yet seen)
          resps,    \* LLMNR client: set of <<id, tag>> responses on the wire
          qdone,    \* LLMNR client: queries that have returned
          l
TraceLog == ndJsonDeserialize("trace.ndjson")
ev == TraceLog[l]
vars == <<out, stopped, qid, resps, qdone, l>>

Init == out = {} /\ stopped = FALSE /\ qid = <<>> /\ resps = {} /\ qdone = {} /\ l = 1

Get(f, k) == IF k \in DOMAIN f THEN f[k] ELSE 0
Put(f, k, v) == [x \in DOMAIN f \cup {k} |-> IF x = k THEN v ELSE f[x]]

Step ==
    /\ l <= Len(TraceLog)
    /\ l' = l + 1
    /\ CASE ev.op = "reset" -> out' = {} /\ stopped' = FALSE /\ qid' = <<>> /\ resps' = {} /\ qdone' = {}
         [] ev.op = "send" -> /\ out' = out \cup {<<ev.c, ev.id, ev.key>>}
                              /\ UNCHANGED <<stopped, qid, resps, qdone>>
         [] ev.op = "reply" -> /\ <<ev.c, ev.id, ev.key>> \in out           \* P: id and answer of one outstanding request of this client
                               /\ out' = out \ {<<ev.c, ev.id, ev.key>>}     \* P: consumed -- never answered twice
                               /\ UNCHANGED <<stopped, qid, resps, qdone>>
         [] ev.op = "stopped" -> stopped' = TRUE /\ UNCHANGED <<out, qid, resps, qdone>>
         [] ev.op = "qsend" -> qid' = Put(qid, ev.q, ev.id) /\ UNCHANGED <<out, stopped, resps, qdone>>
         [] ev.op = "resp" -> resps' = resps \cup {<<ev.id, ev.tag>>} /\ UNCHANGED <<out, stopped, qid, qdone>>
         [] ev.op = "qret" -> /\ ev.q \notin qdone
                              /\ Get(qid, ev.q) = ev.id                      \* P: the response handed to query q carries q's id
                              /\ <<ev.id, ev.tag>> \in resps                 \* P: and is a response that was actually sent
                              /\ qdone' = qdone \cup {ev.q} /\ UNCHANGED <<out, stopped, qid, resps>>
         [] ev.op = "qtimeout" -> /\ ev.q \notin qdone
                                  /\ \A r \in resps : r[1] # Get(qid, ev.q)  \* P: no timeout while a matching response was delivered
                                  /\ qdone' = qdone \cup {ev.q} /\ UNCHANGED <<out, stopped, qid, resps>>
         [] OTHER -> FALSE

TraceSpec == Init /\ [][Step]_vars
TraceAccepted == TLCGet("stats").diameter - 1 = Len(TraceLog)
=============================================================================
