------------------------------ MODULE C16Cases ------------------------------
(***************************************************************************)
(* C16 model -> code: the enumerated input space of                        *)
(*   ldap.ParseSIDFromBytes            (SID.tla, MS-DTYP 2.4.2)            *)
(*   ldap.GetDomainFromDistinguishedName (DN.tla, RFC 4514 / RFC 4519)     *)
(* Every case carries the text the specification computes.                 *)
(***************************************************************************)
EXTENDS SID, DN, Json, FiniteSets

CONSTANTS Seed, Kinds, MaxRdns, NSeeded

VARIABLE c

(* ---- SIDs: ALL sub-authority counts 0..15 x value patterns x authorities ---- *)
Counts == 0..SidMaxSubs
SubPattern(p, k) ==            \* k-th sub-authority (little-endian bytes) of pattern p
    CASE p = 1 -> <<0, 0, 0, 0>>                                   \* 0
      [] p = 2 -> <<1, 0, 0, 0>>                                   \* 1
      [] p = 3 -> <<0, 0, 0, 128>>                                 \* 2^31
      [] p = 4 -> <<255, 255, 255, 255>>                           \* 2^32-1
      [] p = 5 -> <<255, 201, 154, 59>>                            \* 999999999 : the widest run of nines below 2^32
      [] p = 6 -> <<0, 202, 154, 59>>                              \* 1000000000: digit-count boundary
      [] p = 7 -> <<k, 255 - k, (k * 37) % 256, (k * 91) % 256>>   \* all distinct
      [] OTHER -> Pattern((Seed * 131 + p * 17 + k) % 65537, 4)              \* seeded content
Patterns == 1..(7 + NSeeded)
Authorities == { <<0, 0, 0, 0, 0, 0>>, <<0, 0, 0, 0, 0, 1>>, <<0, 0, 0, 0, 0, 5>>, <<0, 0, 0, 0, 0, 18>>,
                 <<0, 0, 255, 255, 255, 255>>,                       \* 2^32-1: the largest "decimal" authority
                 <<0, 1, 0, 0, 0, 0>>, <<255, 255, 255, 255, 255, 255>>, <<1, 2, 3, 4, 5, 6>> }
SidOf(n, p, a) == SidEncode(a, [k \in 1..n |-> SubPattern(p, k)])

(* ---- DNs: all RDN sequences of length <= MaxRdns over types x values ---- *)
Types == { <<67, 78>>, <<79, 85>>, <<68, 67>>, <<100, 99>> }                      \* CN OU DC dc
Values == { <<97, 66>>,                                                           \* aB  (case must be preserved)
            <<97, 44, 98>>,                                                       \* a,b        (escaped comma)
            <<97, 44, 68, 67, 61, 120>>,                                          \* a,DC=x     (escaped comma followed by DC=x)
            <<97, 92>>,                                                           \* a\         (escaped backslash just before the separator)
            <<>> }                                                                \* empty
Rdns == [t : Types, v : Values]
RdnSeqs == UNION { [1..k -> Rdns] : k \in 0..MaxRdns }
Emit(r) == PrintT(ToJson(r))

Init ==
    \/ /\ "sid" \in Kinds
       /\ \E n \in Counts, p \in Patterns, a \in Authorities :
            LET b == SidOf(n, p, a) IN
            /\ Assert(SidWellFormed(b), "SidOf built an ill-formed SID")
            /\ c = <<"sid", n, p, a>>
            /\ Emit([k |-> "sid", in |-> b, n |-> n, txt |-> SidText(b), dec |-> SidTextDecimal(b)])
    \/ /\ "dn" \in Kinds
       /\ \E r \in RdnSeqs :
            LET s == DnEncode(r) IN
            /\ Assert(DnParse(s) = r, <<"DnParse(DnEncode(r)) # r", r>>)      \* the specification's own round trip
            /\ c = <<"dn", r>>
            /\ Emit([k |-> "dn", dn |-> s, dom |-> DnDomainOf(r), drift |-> DnFormClass(r, s), esc |-> DnHasEscapedComma(s)])
Next == FALSE /\ UNCHANGED c
=============================================================================
