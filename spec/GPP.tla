--------------------------------- MODULE GPP ---------------------------------
(* Group Policy Preferences "cpassword", from [MS-GPPREF] 2.2.1.1.4 (Password Encryption): the password is
   encoded as UTF-16LE, padded (PKCS#7, 16-byte blocks), encrypted with AES-256-CBC under the 32-byte key
   that the document publishes, with an all-zero IV, and the ciphertext is Base64-encoded (the XML attribute
   usually carries it with the trailing "=" stripped).

   AES is a Prim term: the specification computes every ARGUMENT (key, IV, exact plaintext blocks); the
   harness evaluates AES-256-CBC with the Go standard library. *)
EXTENDS Integers, Sequences, Bytes, Text, PKCS7

(* 4e 99 06 e8 fc b6 6c c9 fa f4 93 10 62 0f fe e8 f4 96 e8 06 cc 05 79 90 20 9b 09 a4 33 b6 6c 1b *)
GPPKey == << 78, 153, 6, 232, 252, 182, 108, 201, 250, 244, 147, 16, 98, 15, 254, 232,
             244, 150, 232, 6, 204, 5, 121, 144, 32, 155, 9, 164, 51, 182, 108, 27 >>
GPPIV == Zeros(16)
GPPPlainBlocks(pw) == PKCS7Pad(UTF16LE(pw), 16)

ASSUME Len(GPPKey) = 32 /\ HexLower(GPPKey) = "4e9906e8fcb66cc9faf49310620ffee8f496e806cc057990209b09a433b66c1b"
ASSUME \A n \in 0..9 : Len(GPPPlainBlocks([i \in 1..n |-> 65])) = 16 * ((2 * n) \div 16 + 1)
=============================================================================
