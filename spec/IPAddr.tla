------------------------------- MODULE IPAddr -------------------------------
(***************************************************************************)
(* Addresses, prefixes and port ranges (C20), written from the standards:  *)
(*   IPv4  RFC 791 (32-bit address, dotted decimal), RFC 4632 section 3.1  *)
(*         (CIDR notation "a.b.c.d/p", p in 0..32: the p leftmost bits are *)
(*         the network part), RFC 3986 dec-octet for the text of an octet  *)
(*   IPv6  RFC 4291 section 2.2 form 1 "x:x:x:x:x:x:x:x", x = one to four  *)
(*         hexadecimal digits (the only form the library's type prints;    *)
(*         "::" compression is outside it); order = numeric order of the   *)
(*         128-bit value = lexicographic order of the eight groups         *)
(*   ports RFC 793: 16-bit numbers; a range is "start-end" in decimal      *)
(*                                                                         *)
(* An IPv4 address is a sequence of four octets, an IPv6 address one of    *)
(* eight 16-bit groups (TLC integers are 32-bit signed: no 2^32 anywhere). *)
(* Texts are sequences of code points.                                     *)
(***************************************************************************)
EXTENDS Integers, Sequences, FiniteSets, Bitwise

IpMin(a, b) == IF a < b THEN a ELSE b
IpMax(a, b) == IF a > b THEN a ELSE b

(* ---------------- IPv4 arithmetic ---------------- *)
Ip4Addrs == [1..4 -> 0..255]
(* number of network bits that fall into octet k (1 = most significant) for prefix length p *)
Ip4BitsIn(p, k) == IpMin(8, IpMax(0, p - 8 * (k - 1)))
Ip4Mask(p) == [k \in 1..4 |-> 256 - 2 ^ (8 - Ip4BitsIn(p, k))]
Ip4Network(ip, p) == [k \in 1..4 |-> ip[k] & Ip4Mask(p)[k]]
Ip4Broadcast(ip, p) == [k \in 1..4 |-> (ip[k] & Ip4Mask(p)[k]) + (255 - Ip4Mask(p)[k])]
Ip4Canonical(net, p) == Ip4Network(net, p) = net
(* membership: the p leftmost bits agree *)
Ip4InSubnet(ip, net, p) == Ip4Network(ip, p) = Ip4Network(net, p)

(* the same, by integer arithmetic on the two 16-bit halves (cross-check of the mask formulation) *)
Ip4Hi(ip) == ip[1] * 256 + ip[2]
Ip4Lo(ip) == ip[3] * 256 + ip[4]
Ip4InSubnetDiv(ip, net, p) ==
    IF p <= 16 THEN Ip4Hi(ip) \div (2 ^ (16 - p)) = Ip4Hi(net) \div (2 ^ (16 - p))
    ELSE Ip4Hi(ip) = Ip4Hi(net) /\ Ip4Lo(ip) \div (2 ^ (32 - p)) = Ip4Lo(net) \div (2 ^ (32 - p))

(* numeric order = lexicographic order of the octets *)
RECURSIVE IpLexLE(_, _)
IpLexLE(a, b) == IF a = <<>> THEN TRUE
                 ELSE IF Head(a) # Head(b) THEN Head(a) < Head(b)
                 ELSE IpLexLE(Tail(a), Tail(b))
Ip4InRange(ip, s, e) == IpLexLE(s, ip) /\ IpLexLE(ip, e)

Ip4FromHalves(hi, lo) == <<hi \div 256, hi % 256, lo \div 256, lo % 256>>
Ip4Inc(ip) == IF Ip4Lo(ip) = 65535 THEN Ip4FromHalves((Ip4Hi(ip) + 1) % 65536, 0) ELSE Ip4FromHalves(Ip4Hi(ip), Ip4Lo(ip) + 1)
Ip4Dec(ip) == IF Ip4Lo(ip) = 0 THEN Ip4FromHalves((Ip4Hi(ip) + 65535) % 65536, 65535) ELSE Ip4FromHalves(Ip4Hi(ip), Ip4Lo(ip) - 1)
(* flip bit number n (1 = most significant .. 32 = least significant) *)
Ip4FlipBit(ip, n) == LET k == ((n - 1) \div 8) + 1
                         m == 2 ^ (7 - ((n - 1) % 8))
                     IN [ip EXCEPT ![k] = ip[k] ^^ m]

(* ---------------- IPv6 ---------------- *)
Ip6InRange(ip, s, e) == IpLexLE(s, ip) /\ IpLexLE(ip, e)
(* the type carries no prefix length: the only subnet it can express is the /128 one *)
Ip6InSubnet128(ip, net) == ip = net

(* ---------------- text ---------------- *)
RECURSIVE IpDecText(_)
IpDecText(n) == IF n < 10 THEN <<48 + n>> ELSE IpDecText(n \div 10) \o <<48 + (n % 10)>>
IpHexCp(n) == IF n < 10 THEN 48 + n ELSE 87 + n
RECURSIVE IpHexText(_)
IpHexText(n) == IF n < 16 THEN <<IpHexCp(n)>> ELSE IpHexText(n \div 16) \o <<IpHexCp(n % 16)>>

Dot == 46
Slash == 47
Colon == 58
Hyphen == 45
Ip4Text(ip, p) == IpDecText(ip[1]) \o <<Dot>> \o IpDecText(ip[2]) \o <<Dot>> \o IpDecText(ip[3]) \o <<Dot>> \o IpDecText(ip[4])
                    \o <<Slash>> \o IpDecText(p)
RECURSIVE IpJoin(_, _)
IpJoin(parts, sep) == IF Len(parts) = 1 THEN parts[1] ELSE parts[1] \o <<sep>> \o IpJoin(Tail(parts), sep)
Ip6Text(g) == IpJoin([i \in 1..8 |-> IpHexText(g[i])], Colon)
PortRangeText(s, e) == IpDecText(s) \o <<Hyphen>> \o IpDecText(e)

(* ---------------- parsing ---------------- *)
IpIndexOf(s, sep) == IF \E i \in 1..Len(s) : s[i] = sep
                     THEN CHOOSE i \in 1..Len(s) : s[i] = sep /\ \A j \in 1..(i - 1) : s[j] # sep
                     ELSE 0
RECURSIVE IpSplit(_, _)
IpSplit(s, sep) == LET i == IpIndexOf(s, sep)
                   IN IF i = 0 THEN <<s>> ELSE <<SubSeq(s, 1, i - 1)>> \o IpSplit(SubSeq(s, i + 1, Len(s)), sep)
IpIsDigit(c) == c >= 48 /\ c <= 57
RECURSIVE IpDigitsValue(_, _)
IpDigitsValue(ds, acc) == IF ds = <<>> THEN acc ELSE IpDigitsValue(Tail(ds), acc * 10 + (Head(ds) - 48))
(* a decimal number without sign and without leading zeros, at most 5 digits; -1 if ds is not one *)
IpDecValue(ds) == IF /\ Len(ds) \in 1..5
                     /\ \A i \in 1..Len(ds) : IpIsDigit(ds[i])
                     /\ (Len(ds) = 1 \/ ds[1] # 48)
                  THEN IpDigitsValue(ds, 0) ELSE -1
IpHexDigitValue(c) == IF c >= 48 /\ c <= 57 THEN c - 48
                      ELSE IF c >= 97 /\ c <= 102 THEN c - 87
                      ELSE IF c >= 65 /\ c <= 70 THEN c - 55 ELSE -1
RECURSIVE IpHexDigitsValue(_, _)
IpHexDigitsValue(ds, acc) == IF ds = <<>> THEN acc ELSE IpHexDigitsValue(Tail(ds), acc * 16 + IpHexDigitValue(Head(ds)))
IpHexValue(ds) == IF Len(ds) \in 1..4 /\ \A i \in 1..Len(ds) : IpHexDigitValue(ds[i]) >= 0 THEN IpHexDigitsValue(ds, 0) ELSE -1

NoParse == [ok |-> FALSE]
Ip4Parse(t) ==
    LET halves == IpSplit(t, Slash) IN
    IF Len(halves) # 2 THEN NoParse
    ELSE LET octs == IpSplit(halves[1], Dot)
             p == IpDecValue(halves[2])
         IN IF Len(octs) # 4 \/ p < 0 \/ p > 32 THEN NoParse
            ELSE LET v == [k \in 1..4 |-> IpDecValue(octs[k])]
                 IN IF \E k \in 1..4 : v[k] < 0 \/ v[k] > 255 THEN NoParse
                    ELSE [ok |-> TRUE, ip |-> v, p |-> p]
Ip6Parse(t) ==
    LET gs == IpSplit(t, Colon) IN
    IF Len(gs) # 8 THEN NoParse
    ELSE LET v == [k \in 1..8 |-> IpHexValue(gs[k])]
         IN IF \E k \in 1..8 : v[k] < 0 THEN NoParse ELSE [ok |-> TRUE, g |-> v]
IpIsWs(c) == c \in {9, 10, 11, 12, 13, 32}
RECURSIVE IpTrimLeft(_)
IpTrimLeft(s) == IF s # <<>> /\ IpIsWs(Head(s)) THEN IpTrimLeft(Tail(s)) ELSE s
RECURSIVE IpTrimRight(_)
IpTrimRight(s) == IF s # <<>> /\ IpIsWs(s[Len(s)]) THEN IpTrimRight(SubSeq(s, 1, Len(s) - 1)) ELSE s
IpTrim(s) == IpTrimRight(IpTrimLeft(s))
(* a port range: two decimal port numbers around one hyphen; white space around the numbers is tolerated *)
PortRangeParse(t) ==
    LET parts == IpSplit(t, Hyphen) IN
    IF Len(parts) # 2 THEN NoParse
    ELSE LET s == IpDecValue(IpTrim(parts[1]))
             e == IpDecValue(IpTrim(parts[2]))
         IN IF s < 0 \/ e < 0 \/ s > 65535 \/ e > 65535 THEN NoParse ELSE [ok |-> TRUE, s |-> s, e |-> e]

(* ---------------- known answers ---------------- *)
IpSample == { <<0, 0, 0, 0>>, <<255, 255, 255, 255>>, <<10, 1, 2, 3>>, <<192, 168, 1, 17>>, <<172, 31, 255, 255>>,
              <<172, 32, 0, 0>>, <<128, 0, 0, 1>>, <<127, 255, 255, 255>>, <<198, 51, 100, 77>>, <<10, 255, 255, 255>>, <<11, 0, 0, 0>> }
ASSUME /\ Ip4Mask(0) = <<0, 0, 0, 0>> /\ Ip4Mask(32) = <<255, 255, 255, 255>>
       /\ Ip4Mask(8) = <<255, 0, 0, 0>> /\ Ip4Mask(12) = <<255, 240, 0, 0>>                 \* RFC 4632 section 3.1 table
       /\ Ip4Mask(20) = <<255, 255, 240, 0>> /\ Ip4Mask(27) = <<255, 255, 255, 224>> /\ Ip4Mask(31) = <<255, 255, 255, 254>>
       /\ Ip4Network(<<192, 168, 1, 17>>, 24) = <<192, 168, 1, 0>>
       /\ Ip4Network(<<172, 31, 255, 255>>, 12) = <<172, 16, 0, 0>>                         \* RFC 1918: 172.16/12 = 172.16.0.0 - 172.31.255.255
       /\ Ip4Broadcast(<<172, 16, 0, 0>>, 12) = <<172, 31, 255, 255>>
       /\ Ip4InSubnet(<<172, 31, 255, 255>>, <<172, 16, 0, 0>>, 12) /\ ~Ip4InSubnet(<<172, 32, 0, 0>>, <<172, 16, 0, 0>>, 12)
       /\ Ip4InSubnet(<<10, 255, 255, 255>>, <<10, 0, 0, 0>>, 8) /\ ~Ip4InSubnet(<<11, 0, 0, 0>>, <<10, 0, 0, 0>>, 8)
       /\ ~Ip4InSubnet(<<255, 255, 255, 255>>, <<10, 0, 0, 0>>, 8)
       /\ \A x \in IpSample : Ip4InSubnet(x, <<0, 0, 0, 0>>, 0)                              \* 0.0.0.0/0 is everything
       /\ \A x, y \in IpSample : Ip4InSubnet(x, y, 32) <=> x = y
       /\ \A x, y \in IpSample : \A p \in 0..32 : Ip4InSubnet(x, y, p) <=> Ip4InSubnetDiv(x, y, p)   \* two formulations agree
       /\ \A x \in IpSample : \A p \in 0..32 : Ip4InRange(x, Ip4Network(x, p), Ip4Broadcast(x, p))
       /\ Ip4Inc(<<10, 0, 255, 255>>) = <<10, 1, 0, 0>> /\ Ip4Dec(<<10, 1, 0, 0>>) = <<10, 0, 255, 255>>
       /\ Ip4Inc(<<255, 255, 255, 255>>) = <<0, 0, 0, 0>> /\ Ip4Dec(<<0, 0, 0, 0>>) = <<255, 255, 255, 255>>
       /\ Ip4FlipBit(<<0, 0, 0, 0>>, 1) = <<128, 0, 0, 0>> /\ Ip4FlipBit(<<0, 0, 0, 0>>, 32) = <<0, 0, 0, 1>>
       /\ Ip4FlipBit(<<0, 0, 0, 0>>, 9) = <<0, 128, 0, 0>>
       /\ Ip4Text(<<192, 168, 1, 0>>, 24) = <<49, 57, 50, 46, 49, 54, 56, 46, 49, 46, 48, 47, 50, 52>>       \* "192.168.1.0/24"
       /\ \A x \in IpSample : \A p \in {0, 9, 10, 32} : Ip4Parse(Ip4Text(x, p)) = [ok |-> TRUE, ip |-> x, p |-> p]
       /\ ~Ip4Parse(<<49, 47, 50>>).ok /\ ~Ip4Parse(<<49, 46, 50, 46, 51, 46, 52>>).ok                         \* "1/2", "1.2.3.4"
       /\ ~Ip4Parse(<<50, 53, 54, 46, 49, 46, 49, 46, 49, 47, 56>>).ok                                         \* "256.1.1.1/8"
       /\ ~Ip4Parse(<<49, 46, 50, 46, 51, 46, 52, 47, 51, 51>>).ok                                             \* "1.2.3.4/33"
       /\ Ip6Text(<<8193, 3512, 0, 0, 8, 2048, 8204, 16762>>)                                                 \* RFC 4291: 2001:DB8:0:0:8:800:200C:417A
            = <<50, 48, 48, 49, 58, 100, 98, 56, 58, 48, 58, 48, 58, 56, 58, 56, 48, 48, 58, 50, 48, 48, 99, 58, 52, 49, 55, 97>>
       /\ Ip6Parse(<<50, 48, 48, 49, 58, 68, 66, 56, 58, 48, 58, 48, 58, 56, 58, 56, 48, 48, 58, 50, 48, 48, 67, 58, 52, 49, 55, 65>>)
            = [ok |-> TRUE, g |-> <<8193, 3512, 0, 0, 8, 2048, 8204, 16762>>]
       /\ ~Ip6Parse(<<58, 58, 49>>).ok
       /\ Ip6InRange(<<0, 0, 0, 1, 0, 0, 0, 0>>, <<0, 0, 0, 0, 65535, 65535, 65535, 65535>>, <<0, 0, 0, 1, 0, 0, 0, 0>>)
       /\ ~Ip6InRange(<<0, 0, 0, 0, 0, 0, 0, 5>>, <<0, 0, 0, 0, 0, 0, 1, 0>>, <<0, 0, 0, 0, 0, 0, 2, 0>>)
       /\ PortRangeText(80, 8080) = <<56, 48, 45, 56, 48, 56, 48>>
       /\ PortRangeParse(<<56, 48, 45, 56, 48, 56, 48>>) = [ok |-> TRUE, s |-> 80, e |-> 8080]
       /\ PortRangeParse(<<32, 49, 32, 45, 9, 50, 10>>) = [ok |-> TRUE, s |-> 1, e |-> 2]
       /\ ~PortRangeParse(<<56, 48, 45, 55, 48, 48, 48, 48>>).ok                                               \* "80-70000"
       /\ ~PortRangeParse(<<56, 48>>).ok
=============================================================================
