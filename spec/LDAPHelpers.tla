---------------------------- MODULE LDAPHelpers ----------------------------
(***************************************************************************)
(* Specification growth G03 (drift only): the pure helper functions around *)
(* the LDAP / Kerberos / DNS clients, as functions on texts (sequences of  *)
(* code points), numbers and byte strings.                                 *)
(*                                                                         *)
(*   LHStr("abc")               code points of an ASCII literal            *)
(*   LHPadRight/LHPadLeft       pad a text with ONE character up to a      *)
(*                              length counted in characters               *)
(*   LHSizeText(mant, shift)    human-readable size of mant * 2^shift      *)
(*                              bytes with IEC 80000-13 binary prefixes,   *)
(*                              two decimals, round-half-even (printf)     *)
(*   LHKrb*                     the Kerberos client configuration for one  *)
(*                              LDAP host of one realm (RFC 4120: realm    *)
(*                              names of the domain style are upper case,  *)
(*                              KDC port 88; RFC 3244: kpasswd port 464;   *)
(*                              IANA Kerberos encryption type numbers)     *)
(*   LHLdapControl              BER encoding of an LDAP Control            *)
(*                              (RFC 4511 4.1.11 and 5.1, X.690)           *)
(*   LHModChanges               the change list a sequence of modify-      *)
(*                              request builder calls denotes (RFC 4511    *)
(*                              4.6, RFC 4525)                             *)
(*   LHCred*                    identity predicates of a credential set    *)
(*   LHDnsAnswer                what a resolver returns for a host name    *)
(*                              given the zone the server serves           *)
(***************************************************************************)
EXTENDS Integers, Sequences, FiniteSets

(* ---------------------------------------------------------------- text *)
LHAscii == " !\"#$%&'()*+,-./0123456789:;<=>?@ABCDEFGHIJKLMNOPQRSTUVWXYZ[\\]^_`abcdefghijklmnopqrstuvwxyz{|}~"   \* 32..126
LHCp(ch) == 31 + (CHOOSE k \in 1..Len(LHAscii) : SubSeq(LHAscii, k, k) = ch)
LHStr(s) == [i \in 1..Len(s) |-> LHCp(SubSeq(s, i, i))]

LHUpperCp(c) == IF c >= 97 /\ c <= 122 THEN c - 32 ELSE c
LHLowerCp(c) == IF c >= 65 /\ c <= 90 THEN c + 32 ELSE c
LHUpper(s) == [i \in 1..Len(s) |-> LHUpperCp(s[i])]
LHLower(s) == [i \in 1..Len(s) |-> LHLowerCp(s[i])]
LHEqualFold(a, b) == LHLower(a) = LHLower(b)

RECURSIVE LHDec(_)
LHDec(n) == IF n < 10 THEN <<48 + n>> ELSE LHDec(n \div 10) \o <<48 + (n % 10)>>

RECURSIVE LHRep(_, _)
LHRep(p, k) == IF k <= 0 THEN <<>> ELSE p \o LHRep(p, k - 1)
(* p is one character; n is the wanted length in characters; a text that is already long enough is returned unchanged *)
LHPadRight(s, p, n) == s \o LHRep(p, n - Len(s))
LHPadLeft(s, p, n) == LHRep(p, n - Len(s)) \o s

RECURSIVE LHJoin(_, _)
LHJoin(parts, sep) == IF parts = <<>> THEN <<>> ELSE IF Len(parts) = 1 THEN parts[1] ELSE parts[1] \o sep \o LHJoin(Tail(parts), sep)

(* UTF-8 length of a text, for the cases where a length in bytes and a length in characters differ *)
LHUtf8Len1(c) == IF c < 128 THEN 1 ELSE IF c < 2048 THEN 2 ELSE IF c < 65536 THEN 3 ELSE 4
RECURSIVE LHUtf8Len(_)
LHUtf8Len(s) == IF s = <<>> THEN 0 ELSE LHUtf8Len1(Head(s)) + LHUtf8Len(Tail(s))

(* ---------------------------------------------------------------- sizes *)
(* IEC 80000-13: Ki = 2^10, Mi = 2^20, Gi = 2^30, Ti = 2^40, Pi = 2^50, Ei = 2^60.  A size is mant * 2^shift with
   0 <= mant < 2^20 (64-bit sizes do not fit TLC's integers).  The unit is the largest one not above the size. *)
LHUnitNames == << "bytes", "KiB", "MiB", "GiB", "TiB", "PiB", "EiB" >>
RECURSIVE LHLog2(_)
LHLog2(m) == IF m <= 1 THEN 0 ELSE 1 + LHLog2(m \div 2)
LHSizeUnit(mant, shift) == IF mant = 0 THEN 0 ELSE LET u == (LHLog2(mant) + shift) \div 10 IN IF u > 6 THEN 6 ELSE u
LHRoundHalfEven(num, den) == LET q == num \div den  r == num % den
                             IN IF 2 * r > den THEN q + 1 ELSE IF 2 * r < den THEN q ELSE q + (q % 2)
(* the size in hundredths of the unit 2^(10u) *)
LHSizeHundredths(mant, shift, u) == LET e == 10 * u - shift
                                    IN IF e <= 0 THEN (mant * (2 ^ (0 - e))) * 100 ELSE LHRoundHalfEven(mant * 100, 2 ^ e)
LHSizeText(mant, shift) ==
    LET u == LHSizeUnit(mant, shift) IN
    IF u = 0 THEN LHDec(mant * (2 ^ shift)) \o LHStr(" bytes")
    ELSE LET h == LHSizeHundredths(mant, shift, u)
         IN LHDec(h \div 100) \o <<46, 48 + ((h % 100) \div 10), 48 + (h % 10), 32>> \o LHStr(LHUnitNames[u + 1])

(* ---------------------------------------------------------------- Kerberos *)
(* IANA "Kerberos Encryption Type Numbers" with the names of the krb5.conf syntax (aliases in one row) *)
LHKrbEtypes == <<
    [id |-> 1,  names |-> {"des-cbc-crc"}, weak |-> TRUE],
    [id |-> 2,  names |-> {"des-cbc-md4"}, weak |-> TRUE],
    [id |-> 3,  names |-> {"des-cbc-md5"}, weak |-> TRUE],
    [id |-> 16, names |-> {"des3-cbc-sha1", "des3-cbc-sha1-kd", "des3-hmac-sha1"}, weak |-> FALSE],
    [id |-> 17, names |-> {"aes128-cts-hmac-sha1-96", "aes128-cts", "aes128-sha1"}, weak |-> FALSE],
    [id |-> 18, names |-> {"aes256-cts-hmac-sha1-96", "aes256-cts", "aes256-sha1"}, weak |-> FALSE],
    [id |-> 19, names |-> {"aes128-cts-hmac-sha256-128", "aes128-sha2"}, weak |-> FALSE],
    [id |-> 20, names |-> {"aes256-cts-hmac-sha384-192", "aes256-sha2"}, weak |-> FALSE],
    [id |-> 23, names |-> {"rc4-hmac", "arcfour-hmac", "arcfour-hmac-md5"}, weak |-> FALSE] >>
LHKrbEtypeId(name) == { LHKrbEtypes[i].id : i \in { j \in 1..Len(LHKrbEtypes) : name \in LHKrbEtypes[j].names } }
LHKrbKdcPort == 88
LHKrbKpasswdPort == 464
LHHostPort(host, port) == host \o <<58>> \o LHDec(port)           \* host is a DNS name or an IPv4 literal
LHKrbRealm(realm) == LHUpper(realm)                                \* domain-style realm names are upper case (RFC 4120 6.1)
LHKrbSPN(class, host) == class \o <<47>> \o host                   \* service class "/" host (host-based service principal)
LHKrbConfig(host, realm) ==
    LET r == LHKrbRealm(realm) IN
    [ spn |-> LHKrbSPN(LHStr("ldap"), host), realm |-> r,
      kdc |-> LHHostPort(host, LHKrbKdcPort), kpasswd |-> LHHostPort(host, LHKrbKpasswdPort),
      \* [domain_realm]: the DNS domain and every host below it belong to the realm
      domain_realm |-> << <<LHLower(r), r>>, <<<<46>> \o LHLower(r), r>> >> ]

(* ---------------------------------------------------------------- BER, LDAP controls *)
LHBerLen(n) == IF n < 128 THEN <<n>> ELSE IF n < 256 THEN <<129, n>> ELSE <<130, n \div 256, n % 256>>
LHBerTLV(tag, content) == <<tag>> \o LHBerLen(Len(content)) \o content
(* Control ::= SEQUENCE { controlType LDAPOID, criticality BOOLEAN DEFAULT FALSE, controlValue OCTET STRING OPTIONAL };
   RFC 4511 5.1: TRUE is 0xFF, default values are absent, definite lengths, primitive OCTET STRINGs *)
LHLdapControl(oid, critical, hasValue, value) ==
    LHBerTLV(48, LHBerTLV(4, oid) \o (IF critical THEN LHBerTLV(1, <<255>>) ELSE <<>>) \o (IF hasValue THEN LHBerTLV(4, value) ELSE <<>>))
(* a list of value-less controls, one per OID, in the order given, all with the same criticality *)
LHControls(oids, critical) == [i \in 1..Len(oids) |-> [type |-> oids[i], critical |-> critical, ber |-> LHLdapControl(oids[i], critical, FALSE, <<>>)]]

(* ---------------------------------------------------------------- modify requests *)
(* ModifyRequest.changes: operation add(0) delete(1) replace(2) (RFC 4511 4.6), increment(3) (RFC 4525) *)
LHModOpCode(op) == CASE op = "add" -> 0 [] op = "delete" -> 1 [] op = "replace" -> 2 [] op = "increment" -> 3
(* calls: a sequence of [op, type, vals]; every call appends exactly one change; increment carries exactly one value *)
LHModChanges(calls) == [i \in 1..Len(calls) |-> [code |-> LHModOpCode(calls[i].op), type |-> calls[i].type, vals |-> calls[i].vals]]

(* ---------------------------------------------------------------- credentials *)
(* an identity is a domain identity iff it names a domain; pass-the-hash needs a user name and the NT hash (the LM hash is not needed) *)
LHCredIsDomain(domain) == domain # <<>>
LHCredIsLocal(domain) == domain = <<>>
LHCredCanPassTheHash(user, nt) == user # <<>> /\ nt # <<>>

(* ---------------------------------------------------------------- DNS *)
(* zone: a sequence of [name, addrs]; names are compared without regard to case (RFC 1035 2.3.3), a trailing dot marks an absolute name;
   an address literal resolves to itself without a query *)
LHStripDot(n) == IF n # <<>> /\ n[Len(n)] = 46 THEN SubSeq(n, 1, Len(n) - 1) ELSE n
LHDnsAnswer(zone, name, isLiteral) ==
    IF isLiteral THEN <<name>>
    ELSE LET hits == SelectSeq(zone, LAMBDA z : LHEqualFold(LHStripDot(z.name), LHStripDot(name)))
         IN IF hits = <<>> THEN <<>> ELSE hits[1].addrs

(* ---------------------------------------------------------------- known answers *)
ASSUME /\ LHStr("Az09 ~") = <<65, 122, 48, 57, 32, 126>> /\ LHStr("") = <<>> /\ LHStr("\"\\`") = <<34, 92, 96>>
       /\ LHUpper(LHStr("lab.Local-1")) = LHStr("LAB.LOCAL-1") /\ LHLower(LHStr("LAB.Local_1")) = LHStr("lab.local_1")
       /\ LHDec(0) = <<48>> /\ LHDec(464) = LHStr("464") /\ LHDec(1048576) = LHStr("1048576")
       /\ LHPadRight(LHStr("hello"), LHStr("*"), 8) = LHStr("hello***")           \* the documented examples
       /\ LHPadLeft(LHStr("hello"), LHStr("*"), 8) = LHStr("***hello")
       /\ LHPadRight(LHStr("hello"), LHStr("*"), 5) = LHStr("hello") /\ LHPadLeft(LHStr("hello"), LHStr("*"), 2) = LHStr("hello")
       /\ LHPadRight(<<>>, LHStr(" "), 2) = LHStr("  ") /\ LHPadRight(<<233>>, LHStr("*"), 3) = <<233, 42, 42>>
       /\ LHUtf8Len(<<233, 8364, 65, 128512>>) = 10
       /\ LHJoin(<<LHStr("a"), LHStr("b"), <<>>>>, LHStr("|")) = LHStr("a|b|")
       /\ LHLog2(1) = 0 /\ LHLog2(1023) = 9 /\ LHLog2(1024) = 10 /\ LHLog2(1048575) = 19
       /\ LHRoundHalfEven(5, 2) = 2 /\ LHRoundHalfEven(7, 2) = 4 /\ LHRoundHalfEven(9, 4) = 2 /\ LHRoundHalfEven(11, 4) = 3
       /\ LHSizeText(1, 20) = LHStr("1.00 MiB")                                   \* the documented example SizeInBytes(1048576)
       /\ LHSizeText(0, 0) = LHStr("0 bytes") /\ LHSizeText(1023, 0) = LHStr("1023 bytes") /\ LHSizeText(1, 10) = LHStr("1.00 KiB")
       /\ LHSizeText(1536, 0) = LHStr("1.50 KiB") /\ LHSizeText(1152, 0) = LHStr("1.12 KiB") /\ LHSizeText(1408, 0) = LHStr("1.38 KiB")
       /\ LHSizeText(1048575, 0) = LHStr("1024.00 KiB") /\ LHSizeText(5, 30) = LHStr("5.00 GiB") /\ LHSizeText(3, 39) = LHStr("1.50 TiB")
       /\ LHSizeText(1, 50) = LHStr("1.00 PiB") /\ LHSizeText(1, 60) = LHStr("1.00 EiB") /\ LHSizeText(1048575, 44) = LHStr("16.00 EiB")
       /\ LHKrbEtypeId("aes256-cts-hmac-sha1-96") = {18} /\ LHKrbEtypeId("aes128-cts-hmac-sha1-96") = {17}
       /\ LHKrbEtypeId("arcfour-hmac-md5") = {23} /\ LHKrbEtypeId("rc4-hmac") = {23} /\ LHKrbEtypeId("des-cbc-md5") = {3} /\ LHKrbEtypeId("x") = {}
       /\ LHKrbConfig(LHStr("dc01.lab.local"), LHStr("lab.local")).spn = LHStr("ldap/dc01.lab.local")
       /\ LHKrbConfig(LHStr("dc01.lab.local"), LHStr("lab.local")).realm = LHStr("LAB.LOCAL")
       /\ LHKrbConfig(LHStr("dc01.lab.local"), LHStr("lab.local")).kdc = LHStr("dc01.lab.local:88")
       /\ LHKrbConfig(LHStr("dc01.lab.local"), LHStr("Lab.Local")).domain_realm = << <<LHStr("lab.local"), LHStr("LAB.LOCAL")>>, <<LHStr(".lab.local"), LHStr("LAB.LOCAL")>> >>
       /\ LHBerLen(5) = <<5>> /\ LHBerLen(127) = <<127>> /\ LHBerLen(128) = <<129, 128>> /\ LHBerLen(300) = <<130, 1, 44>>
       \* the paged-results control without a value, not critical: 30 18 04 16 "1.2.840.113556.1.4.319"
       /\ LHLdapControl(LHStr("1.2.840.113556.1.4.319"), FALSE, FALSE, <<>>) = <<48, 24, 4, 22>> \o LHStr("1.2.840.113556.1.4.319")
       \* LDAP_SERVER_SHOW_DELETED_OID, critical: 30 1B 04 16 ... 01 01 FF
       /\ LHLdapControl(LHStr("1.2.840.113556.1.4.417"), TRUE, FALSE, <<>>) = <<48, 27, 4, 22>> \o LHStr("1.2.840.113556.1.4.417") \o <<1, 1, 255>>
       /\ LHLdapControl(LHStr("1.2"), TRUE, TRUE, <<7>>) = <<48, 11, 4, 3, 49, 46, 50, 1, 1, 255, 4, 1, 7>>
       /\ LHModChanges(<< [op |-> "replace", type |-> LHStr("cn"), vals |-> <<LHStr("x")>>], [op |-> "increment", type |-> LHStr("n"), vals |-> <<LHStr("1")>>] >>)
            = << [code |-> 2, type |-> LHStr("cn"), vals |-> <<LHStr("x")>>], [code |-> 3, type |-> LHStr("n"), vals |-> <<LHStr("1")>>] >>
       /\ LHCredIsLocal(<<>>) /\ LHCredIsDomain(LHStr("LAB")) /\ LHCredCanPassTheHash(LHStr("u"), LHStr("h")) /\ ~LHCredCanPassTheHash(<<>>, LHStr("h"))
       /\ LHDnsAnswer(<< [name |-> LHStr("a.test"), addrs |-> <<LHStr("10.0.0.1")>>] >>, LHStr("A.Test."), FALSE) = <<LHStr("10.0.0.1")>>
       /\ LHDnsAnswer(<< [name |-> LHStr("a.test"), addrs |-> <<LHStr("10.0.0.1")>>] >>, LHStr("b.test"), FALSE) = <<>>
       /\ LHDnsAnswer(<<>>, LHStr("10.1.2.3"), TRUE) = <<LHStr("10.1.2.3")>>
=============================================================================
