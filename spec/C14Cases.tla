------------------------------ MODULE C14Cases ------------------------------
(***************************************************************************)
(* C14 model -> code: the enumerated case tables.                          *)
(*   "cred"  key credentials over moduli x exponents x primes x versions   *)
(*           (device GUIDs and tick values vary with them), each with the  *)
(*           blobs KeyCredentialLink.tla admits for it: one per choice an  *)
(*           encoder has (exponent width) and per named deviation          *)
(*           (version-only CustomKeyInformation, public magic on private   *)
(*           material), so that the blob the code writes can be identified *)
(*           and the rest of the property checked on it                    *)
(*   "flip"  EVERY single-bit corruption of the range the KeyHash covers,  *)
(*           for the selected credentials in the encoding the code uses    *)
(*   "cki"   CUSTOM_KEY_INFORMATION values of every representation size    *)
(*   "dnb"   DN-with-binary strings over all short DNs of a hostile        *)
(*           alphabet (':' ',' '\' '=' 'B' digits, non-ASCII, space)       *)
(* SHA-256 is Prim256!SHA256 (harness-evaluated, two-phase).               *)
(***************************************************************************)
EXTENDS KeyCredentialLink, DNBinary, FiniteSets

CONSTANTS Seed, Kinds, ModSizes, FlipLevel, DnLen,
          OwnEw,      \* "min" | "four" : the exponent width the code under test writes (found by the "cred" replay)
          OwnCki,     \* "short" | "vonly"
          OwnMagic    \* "std" | "rsa1"

VARIABLE c

(* ------------------------------------------------------------------ credentials *)
Exps == << <<3>>, <<1, 0, 1>>, <<192, 0, 0, 1>> >>                  \* 3, 65537, 0xC0000001
Guids == << Zeros(16), Rep(255, 16), [i \in 1..16 |-> 16 * i - 1], Pattern((Seed * 3 + 1) % 65537, 16) >>
Ticks == << Zeros(8),                                               \* 0
            <<1, 0, 0, 0, 0, 0, 0, 0>>,                             \* 1
            <<0, 192, 131, 237, 138, 73, 218, 1>>,                  \* 133500000000000000 (January 2024 as a FILETIME)
            <<255, 255, 255, 255, 255, 255, 255, 127>>,             \* 2^63-1
            <<0, 0, 0, 0, 0, 0, 0, 128>>,                           \* 2^63
            Rep(255, 8),                                            \* 2^64-1
            Pattern((Seed * 5 + 2) % 65537, 8) >>
(* src: the KeySource entry (2.2.20.5.1: 0 = on-premises AD, 1 = Azure AD).  A credential is built as an AD/NGC one and the
   caller changes Source/Usage before sealing it; the Azure AD arm is enumerated for the middle exponent only (the entry is
   one byte wherever it appears) and carries a different usage as well (FIDO, 7), so both one-byte entries take a second value. *)
CredKeys == {x \in [ms : ModSizes, hi : BOOLEAN, ex : 1..3, pr : BOOLEAN, ver : KclVersions, src : {0, 1}] : x.src = 0 \/ x.ex = 2}
UsageOf(cr) == IF cr.src = 1 THEN 7 ELSE 1
Mix(cr) == cr.ms + (IF cr.hi THEN 1 ELSE 0) + 3 * cr.ex + (IF cr.pr THEN 7 ELSE 0) + 11 * (cr.ver \div 256)
ModulusOf(cr) == LET p == Pattern((Seed * 31 + cr.ms) % 65537, cr.ms)
                 IN [p EXCEPT ![1] = IF cr.hi THEN 128 + (p[1] % 128) ELSE 1 + (p[1] % 127)]
PrimeLen(cr) == IF cr.ms \div 2 = 0 THEN 1 ELSE cr.ms \div 2
KeyOf(cr) == [bits |-> 8 * cr.ms, exp |-> Exps[cr.ex], mod |-> ModulusOf(cr),
              p1 |-> IF cr.pr THEN Pattern((Seed * 37 + cr.ms + 1) % 65537, PrimeLen(cr)) ELSE <<>>,
              p2 |-> IF cr.pr THEN Pattern((Seed * 41 + cr.ms + 2) % 65537, PrimeLen(cr)) ELSE <<>>]
DevOf(cr) == Guids[(Mix(cr) % 4) + 1]
LastOf(cr) == Ticks[(Mix(cr) % 7) + 1]
CreatedOf(cr) == Ticks[((Mix(cr) \div 7) % 7) + 1]

(* the encoder's choices and the named deviations *)
EwOf(cr, w) == IF w = "min" THEN Len(Exps[cr.ex]) ELSE 4
MagicOf(cr, m) == IF m = "rsa1" THEN RsaMagicPublic ELSE RsaMagic(KeyOf(cr))
CkiOf(k) == IF k = "short" THEN CkiShort(0) ELSE <<1>>           \* "vonly": the Version byte alone (NOT a 2.2.20.6 representation)
EncChoices(cr) == { [ew |-> w, cki |-> k, magic |-> m] :
                    w \in (IF Len(Exps[cr.ex]) = 4 THEN {"four"} ELSE {"min", "four"}),
                    k \in {"short", "vonly"},
                    m \in (IF cr.pr THEN {"std", "rsa1"} ELSE {"std"}) }
(* a sealed credential: usage / source as chosen above, CustomKeyInformation version 1 / flags 0 *)
CredOf(cr, e) == KclSeal([ver |-> cr.ver, id |-> <<>>, kh |-> <<>>,
                          km |-> RsaEncodeM(KeyOf(cr), EwOf(cr, e.ew), MagicOf(cr, e.magic)),
                          usage |-> UsageOf(cr), source |-> cr.src, dev |-> DevOf(cr), cki |-> CkiOf(e.cki),
                          last |-> LastOf(cr), created |-> CreatedOf(cr)])
EncRec(cr, e) == LET f == CredOf(cr, e)  b == KclEncode(f) IN
                 [ew |-> e.ew, cki |-> e.cki, magic |-> e.magic,
                  legal |-> CkiLegal(f.cki) /\ (e.magic = "std"),
                  km |-> f.km, kid |-> f.id, kh |-> f.kh, blob |-> b, cov |-> KclCoveredStart(b)]
CredId(cr) == <<cr.ms, IF cr.hi THEN 1 ELSE 0, cr.ex, IF cr.pr THEN 1 ELSE 0, cr.ver, cr.src>>
OwnEnc == [ew |-> OwnEw, cki |-> OwnCki, magic |-> OwnMagic]
OwnChoice(cr) == [ew |-> IF Len(Exps[cr.ex]) = 4 THEN "four" ELSE OwnEw, cki |-> OwnCki, magic |-> IF cr.pr THEN OwnMagic ELSE "std"]

(* ------------------------------------------------------------------ flips *)
FlipSel(cr) == IF FlipLevel = 1 THEN cr.ver = 512 /\ cr.ex = 2 /\ cr.hi
               ELSE cr.ver = 512 \/ (cr.ex = 2 /\ cr.hi)

FlipCreds == {x \in CredKeys : FlipSel(x) /\ x.src = 0}
(* computed once: the blob in the encoding the code writes, whether it satisfies the specification's own rules, and the
   entry / part every covered byte belongs to *)
FlipTab == TLCEval([cr \in FlipCreds |->
              LET er == EncRec(cr, OwnChoice(cr)) IN
              [er |-> er,
               ok |-> KclWellFormed(er.blob) /\ KclIntegrity(er.blob) /\ KclCovered(er.blob) = KclTailOf(KclDecode(er.blob)),
               loc |-> TLCEval([o \in er.cov..(Len(er.blob) - 1) |-> KclLocate(er.blob, o)])]])

(* ------------------------------------------------------------------ CustomKeyInformation values *)
CkiFullOf(n) == CkiFull([flags |-> 2, vt |-> 1, sn |-> 1, fek |-> 1, strength |-> <<2, 0, 0, 0>>,
                         reserved |-> [i \in 1..10 |-> 160 + i], ext |-> [i \in 1..n |-> 200 + i]])
CkiValues == { CkiShort(fl) : fl \in {0, 1, 2, 3} } \cup { CkiFullOf(n) : n \in {0, 1, 2, 3, 10} }
             \cup { SubSeq(CkiFullOf(0), 1, n) : n \in {3, 4, 5, 9} }

(* ------------------------------------------------------------------ DN-with-binary *)
DnAlphabet == {97, 58, 44, 92, 61, 66, 48, 195, 169, 32}
DnSet == UNION { [1..k -> DnAlphabet] : k \in 0..DnLen }
         \cup { <<67,78,61,74,111,104,110,32,68,111,101,44,79,85,61,85,115,101,114,115,44,68,67,61,101,120,44,68,67,61,99,111,109>>,   \* CN=John Doe,OU=Users,DC=ex,DC=com
                <<67,78,61,97,58,98,44,68,67,61,120>>,                                                                                  \* CN=a:b,DC=x
                <<67,78,61,83,45,49,45,53,58,49,56,92,44,32,120,44,68,67,61,195,169>> }                                                 \* CN=S-1-5:18\, x,DC=<e-acute>
Bins == { <<>>, <<0>>, <<255, 1>>, Pattern((Seed * 11 + 3) % 65537, 40) }
HasColon(dn) == \E i \in DOMAIN dn : dn[i] = DnbColon

Emit(r) == PrintT(ToJson(r))

Init ==
    \/ /\ "cred" \in Kinds
       /\ \E cr \in CredKeys :
            /\ c = <<"cred", cr>>
            /\ Emit([k |-> "cred", id |-> CredId(cr),
                     f |-> [ver |-> cr.ver, key |-> KeyOf(cr), dev |-> DevOf(cr), last |-> LastOf(cr), created |-> CreatedOf(cr),
                            usage |-> UsageOf(cr), source |-> cr.src],
                     encs |-> LET S == EncChoices(cr)
                                  RECURSIVE L(_)
                                  L(T) == IF T = {} THEN <<>> ELSE LET x == CHOOSE y \in T : TRUE IN <<EncRec(cr, x)>> \o L(T \ {x})
                              IN L(S)])
    \/ /\ "flip" \in Kinds
       /\ \E cr \in FlipCreds :
            LET er == FlipTab[cr].er IN
            /\ Assert(FlipTab[cr].ok, "the specification's own blob fails its own integrity rule")
            /\ \/ /\ c = <<"blob", cr>>
                  /\ Emit([k |-> "blob", id |-> CredId(cr), enc |-> er,
                           f |-> [ver |-> cr.ver, key |-> KeyOf(cr), dev |-> DevOf(cr), last |-> LastOf(cr), created |-> CreatedOf(cr),
                                  usage |-> UsageOf(cr), source |-> cr.src]])
               \/ \E o \in er.cov..(Len(er.blob) - 1), bit \in 0..7 :
                    LET loc == FlipTab[cr].loc[o] IN
                    /\ c = <<"flip", cr, o, bit>>
                    /\ Emit([k |-> "flip", id |-> CredId(cr), o |-> o, bit |-> bit, ent |-> KclEntryName(loc.t), part |-> loc.part,
                             byte |-> KclFlipByte(er.blob[o + 1], bit), accept |-> FALSE])
    \/ /\ "cki" \in Kinds
       /\ \E v \in CkiValues :
            /\ c = <<"cki", v>>
            /\ Emit([k |-> "cki", v |-> v, class |-> CkiClass(v), legal |-> CkiLegal(v), d |-> CkiDecode(v)])
    \/ /\ "dnb" \in Kinds
       /\ \E dn \in DnSet, bin \in Bins :
            LET s == DnbEncode(bin, dn, FALSE) IN
            /\ Assert(DnbWellFormed(s) /\ DnbDecode(s) = [bin |-> bin, dn |-> dn], <<"DnbDecode(DnbEncode(x)) # x", dn>>)
            /\ c = <<"dnb", dn, bin>>
            /\ Emit([k |-> "dnb", bin |-> bin, dn |-> dn, str |-> s, upper |-> DnbEncode(bin, dn, TRUE), colon |-> HasColon(dn)])
Next == FALSE /\ UNCHANGED c
=============================================================================
