------------------------------ MODULE G07Cases ------------------------------
(***************************************************************************)
(* Specification growth G07, model -> code: directories x session calls    *)
(* of LDAPDirectory.tla, each with the result the specification computes   *)
(* and the searches that produce it.                                       *)
(*                                                                         *)
(* A directory is built from the parameters                                *)
(*   sidp   the pattern of the three domain sub-authorities (MS-DTYP       *)
(*          example, values >= 2^31, zeros / digit boundaries, seeded)     *)
(*   ndom   1 = one domain; 2 = + a child domain (a global catalog holds   *)
(*          it under the forest root); 3 = + a second tree                 *)
(*   bi     BUILTIN aliases: "none", in the forest root only, in "all"     *)
(*          domains (then a search below the root finds two S-1-5-32-544)  *)
(*   nb     NetBIOS names: "same" as the leftmost DNS label, or "diff"     *)
(*   gc     global catalog (answers across naming contexts) or not         *)
(*   cap    the server's page-size cap (0 = none): results then arrive in  *)
(*          several pages of the paged-results control (RFC 2696)          *)
(*   dnc    the domain whose controller answers (defaultNamingContext)     *)
(* Records: k = "dir" (id, RootDSE, entries with the specification's SID   *)
(* text and DNS domain per entry) and k = "call" (dir id, method m,        *)
(* arguments a, expected result want, expected searches q).                *)
(***************************************************************************)
EXTENDS LDAPDirectory, TLC, Json

CONSTANTS Seed,          \* seeds the sub-authorities of patterns >= 5
          SidPats, NDoms, BiModes, Caps,
          MaxVary,       \* how many of nb / gc / cap / dnc may leave their default at once
          VarySidPats,   \* the patterns for which variations are built
          Full           \* TRUE: every name x every RID, every domain

VARIABLE c

Emit(r) == PrintT(ToJson(r))
T(s) == LHStr(s)
SortedSeq(S) == LET RECURSIVE F(_) F(X) == IF X = {} THEN <<>> ELSE LET m == CHOOSE x \in X : \A y \in X : x <= y IN <<m>> \o F(X \ {m}) IN F(S)
SeqOfSet(S) == LET RECURSIVE F(_) F(X) == IF X = {} THEN <<>> ELSE LET m == CHOOSE x \in X : TRUE IN <<m>> \o F(X \ {m}) IN F(S)

(* ---------------------------------------------------------------- texts *)
TDC == T("DC")
TOU == T("OU")
Ttop == T("top")
DC(v) == LDRdn(TDC, v)
CN(v) == LDRdn(LDCN, v)
OU(v) == LDRdn(TOU, v)
Cperson == <<Ttop, T("person"), T("organizationalPerson"), T("user")>>
Ccomputer == Cperson \o <<T("computer")>>
Cgroup == <<Ttop, T("group")>>
Ccontainer == <<Ttop, T("container")>>

(* ---------------------------------------------------------------- domains *)
RootDn == <<DC(T("example")), DC(T("com"))>>
(* the child domain's label is the root's label followed by a digit: "example" + "5500" and "example5" + "500" read the same when
   a name and a RID are written one after the other without a separator *)
DomDn(k) == CASE k = 1 -> RootDn [] k = 2 -> <<DC(T("example5"))>> \o RootDn [] k = 3 -> <<DC(T("other")), DC(T("net"))>>
Fqdn(k) == DnDomainOf(DomDn(k))
Label(k) == DomDn(k)[1].v
NetBIOS(nb, k) == IF nb = "same" THEN LHUpper(Label(k)) ELSE T("NB") \o LHUpper(Label(k))
Level(k) == CASE k = 1 -> T("7") [] k = 2 -> T("10") [] k = 3 -> T("3")       \* msDS-Behavior-Version
ConfigDn == <<CN(T("Configuration"))>> \o RootDn
SchemaDn == <<CN(T("Schema"))>> \o ConfigDn
PartitionsDn == <<CN(T("Partitions"))>> \o ConfigDn
PkiDn == <<CN(T("Public Key Services")), CN(T("Services"))>> \o ConfigDn

SubPats(p) ==
    CASE p = 1 -> << <<199, 247, 254, 215>>, <<124, 119, 85, 200>>, <<148, 90, 206, 1>> >>        \* 3623811015-3361044348-30300820 (MS-DTYP 2.4.2.2)
      [] p = 2 -> << <<255, 255, 255, 255>>, <<0, 0, 0, 128>>, <<255, 255, 255, 127>> >>          \* 2^32-1, 2^31, 2^31-1
      [] p = 3 -> << <<0, 0, 0, 0>>, <<1, 0, 0, 0>>, <<0, 202, 154, 59>> >>                       \* 0, 1, 10^9
      [] p = 4 -> << <<255, 201, 154, 59>>, <<1, 0, 0, 128>>, <<254, 255, 255, 255>> >>           \* 10^9-1, 2^31+1, 2^32-2
      [] p = 6 -> LET lo(i) == SubSeq(Pattern((Seed * 137 + 6 * 17 + i) % 65537, 4), 1, 3) IN     \* the most significant byte of each
                  << lo(1) \o <<32>>, lo(2) \o <<10>>, lo(3) \o <<<<9, 11, 12, 13>>[(Seed % 4) + 1]>> >>   \* is an ASCII white-space character (the last octet of the binary SID)
      [] OTHER -> [i \in 1..3 |-> Pattern((Seed * 131 + p * 17 + i) % 65537, 4)]                  \* seeded
Rot(s, k) == [i \in 1..3 |-> s[((i + k - 2) % 3) + 1]]
DomSid(p, k) == SidEncode(LDSidAuthNT, <<LE(21, 4)>> \o Rot(SubPats(p), k))

(* ---------------------------------------------------------------- entries *)
Category(cn) == LDAttr(LDAobjectCategory, <<DnEncode(<<CN(cn)>> \o SchemaDn)>>)
CatOfClass(cls) == LET rs == { r \in LDClassCategoryT : r[1] = cls } IN IF rs = {} THEN <<>> ELSE <<Category((CHOOSE r \in rs : TRUE)[2])>>
E(rdns, classes, more) == LDMkEntry(rdns, classes, more \o CatOfClass(classes[Len(classes)]))
Sid(b) == LDAttr(LDAobjectSid, <<b>>)
A1(n, v) == LDAttr(n, <<v>>)

BuiltinRids == SortedSeq({ r.rid : r \in { x \in ADRows(ADRidTable) : x.scope = "builtin" } })
DomainRids == SortedSeq({ r.rid : r \in { x \in ADRows(ADRidTable) : x.scope = "domain" } })
RidIsUser(rid) == \E r \in ADRows(ADRidTable) : r.rid = rid /\ r.class = "USER"
FewBuiltin == <<544, 545, 583>>
FewDomain == <<500, 512, 553, 572>>
UsersDn(k) == <<CN(T("Users"))>> \o DomDn(k)
BuiltinDn(k) == <<CN(T("Builtin"))>> \o DomDn(k)
BuiltinEntries(k) ==
    LET rids == IF k = 1 THEN BuiltinRids ELSE FewBuiltin IN
    <<E(BuiltinDn(k), <<Ttop, T("builtinDomain")>>, <<Sid(SidEncode(LDSidAuthNT, <<LE(32, 4)>>))>>)>>
    \o [j \in 1..Len(rids) |-> E(<<CN(T("BI-") \o LHDec(rids[j]))>> \o BuiltinDn(k), Cgroup, <<Sid(LDSidBuiltin(rids[j]))>>)]
PrincipalEntries(p, k) ==
    LET rids == IF k = 1 THEN DomainRids ELSE FewDomain IN
    <<E(UsersDn(k), Ccontainer, <<>>)>>
    \o [j \in 1..Len(rids) |-> E(<<CN(T("DR-") \o LHDec(rids[j]))>> \o UsersDn(k), IF RidIsUser(rids[j]) THEN Cperson ELSE Cgroup,
                                 <<Sid(LDSidAppend(DomSid(p, k), rids[j]))>>)]
    \o (IF k = 1 THEN <<E(<<CN(T("jdoe"))>> \o UsersDn(k), Cperson, <<Sid(LDSidAppend(DomSid(p, k), 1013)), A1(LDAprimaryGroupID, T("513"))>>),
                        E(<<CN(T("svc5500"))>> \o UsersDn(k), Cperson, <<Sid(LDSidAppend(DomSid(p, k), 5500)), A1(LDAprimaryGroupID, T("513"))>>)>> ELSE <<>>)
Computer(p, k, cn, parent, rid, uac, pgid, host) ==
    E(<<CN(cn)>> \o parent, Ccomputer,
      <<Sid(LDSidAppend(DomSid(p, k), rid)), A1(LDAuserAccountControl, LHDec(uac)), A1(LDAprimaryGroupID, LHDec(pgid))>>
      \o (IF host = <<>> THEN <<>> ELSE <<A1(LDAdNSHostName, host \o <<46>> \o Fqdn(k))>>))
DcOu(k) == <<OU(T("Domain Controllers"))>> \o DomDn(k)
ComputersDn(k) == <<CN(T("Computers"))>> \o DomDn(k)
ComputerEntries(p, k) ==
    <<E(DcOu(k), <<Ttop, T("organizationalUnit")>>, <<>>),
      Computer(p, k, T("DC01"), DcOu(k), 1000, 532480, 516, T("dc01"))>>                          \* SERVER_TRUST_ACCOUNT | TRUSTED_FOR_DELEGATION
    \o (IF k = 1 THEN <<Computer(p, k, T("DC02"), DcOu(k), 1001, 532480, 516, T("DC02")),
                        Computer(p, k, T("RODC01"), DcOu(k), 1002, 67112960, 521, T("rodc01"))>>   \* WORKSTATION_TRUST_ACCOUNT | PARTIAL_SECRETS_ACCOUNT
        ELSE <<>>)
    \o <<E(ComputersDn(k), Ccontainer, <<>>),
         Computer(p, k, T("WS01"), ComputersDn(k), 1103, 4096, 515, T("ws01"))>>
    \o (IF k = 1 THEN <<Computer(p, k, T("WS02"), ComputersDn(k), 1104, 4096, 515, <<>>)>> ELSE <<>>)   \* not joined yet: no dNSHostName
(* an entry of class domain that is no domain head: no dc attribute, a SID of its own, the same DC components as the root, and
   returned BEFORE the root by a search for (objectClass=domain) -- in the directories with the NetBIOS-name variation *)
OddEntry(p) == E(<<OU(T("Lab"))>> \o DomDn(1), <<Ttop, T("domain")>>, <<Sid(DomSid(p.sidp, 3))>>)
DomainEntries(p, k) ==
    (IF p.nb = "diff" /\ k = 1 THEN <<OddEntry(p)>> ELSE <<>>)
    \o <<E(DomDn(k), <<Ttop, T("domain"), T("domainDNS")>>, <<Sid(DomSid(p.sidp, k)), A1(LDAdc, Label(k)), A1(LDAbehaviorVersion, Level(k))>>)>>
    \o (IF p.bi = "all" \/ (p.bi = "root" /\ k = 1) THEN BuiltinEntries(k) ELSE <<>>)
    \o PrincipalEntries(p.sidp, k) \o ComputerEntries(p.sidp, k)
CrossRef(p, k) == E(<<CN(NetBIOS(p.nb, k))>> \o PartitionsDn, <<Ttop, T("crossRef")>>,
                    <<A1(LDAnCName, DnEncode(DomDn(k))), A1(LDAnETBIOSName, NetBIOS(p.nb, k)), A1(LDAdnsRoot, Fqdn(k))>>)
Template(cn) == E(<<CN(cn), CN(T("Certificate Templates"))>> \o PkiDn, <<Ttop, T("pKICertificateTemplate")>>, <<>>)
CA(cn, templates) == E(<<CN(cn), CN(T("Enrollment Services"))>> \o PkiDn, <<Ttop, T("pKIEnrollmentService")>>, <<LDAttr(LDAcertificateTemplates, templates)>>)
ConfigEntries(p) ==
    <<E(ConfigDn, <<Ttop, T("configuration")>>, <<>>), E(PartitionsDn, <<Ttop, T("crossRefContainer")>>, <<>>),
      E(<<CN(T("Enterprise Configuration"))>> \o PartitionsDn, <<Ttop, T("crossRef")>>, <<A1(LDAnCName, DnEncode(ConfigDn)), A1(LDAdnsRoot, Fqdn(1))>>)>>
    \o [k \in 1..p.ndom |-> CrossRef(p, k)]
    \o <<E(SchemaDn, <<Ttop, T("dMD")>>, <<>>),
         E(<<CN(T("Services"))>> \o ConfigDn, Ccontainer, <<>>), E(PkiDn, Ccontainer, <<>>),
         E(<<CN(T("Certificate Templates"))>> \o PkiDn, Ccontainer, <<>>),
         Template(T("User")), Template(T("Machine")), Template(T("WebServer")), Template(T("SubCA")),
         E(<<CN(T("Enrollment Services"))>> \o PkiDn, Ccontainer, <<>>),
         CA(T("example-CA"), <<T("User"), T("machine"), T("Ghost")>>)>>                       \* "machine": names match without regard to case; "Ghost" has no template
    \o (IF p.ndom >= 2 THEN <<CA(T("corp-CA"), <<T("WebServer")>>)>> ELSE <<>>)
(* the root domain, the configuration below it, then the other domains *)
Entries(p) == DomainEntries(p, 1) \o ConfigEntries(p) \o Flatten([k \in 1..(p.ndom - 1) |-> DomainEntries(p, k + 1)])
RootDSE(p) ==
    <<A1(LDAdefaultNC, DnEncode(DomDn(p.dnc))), A1(LDAconfigNC, DnEncode(ConfigDn)), A1(LDAschemaNC, DnEncode(SchemaDn)),
      A1(LDArootDomainNC, DnEncode(RootDn)),
      LDAttr(LDAnamingContexts, <<DnEncode(DomDn(p.dnc)), DnEncode(ConfigDn), DnEncode(SchemaDn)>>),
      A1(T("dnsHostName"), T("dc01.") \o Fqdn(p.dnc)), LDAttr(T("supportedLDAPVersion"), <<T("3"), T("2")>>),
      A1(T("isGlobalCatalogReady"), IF p.gc THEN T("TRUE") ELSE T("FALSE"))>>
MkDir(p) == [gc |-> p.gc, cap |-> p.cap, root |-> RootDSE(p), entries |-> Entries(p)]

(* ---------------------------------------------------------------- directories *)
Vary(p) == (IF p.nb # "same" THEN 1 ELSE 0) + (IF ~p.gc THEN 1 ELSE 0) + (IF p.cap # 0 THEN 1 ELSE 0) + (IF p.dnc # 1 THEN 1 ELSE 0)
DirParams == { p \in [sidp : SidPats, ndom : NDoms, bi : BiModes, nb : {"same", "diff"}, gc : BOOLEAN, cap : Caps, dnc : {1, 2}] :
                 /\ p.dnc = 2 => p.ndom >= 2
                 /\ ~p.gc => p.ndom = 1                      \* a domain controller that is no global catalog holds its own domain only
                 /\ p.bi = "all" => p.ndom >= 2
                 /\ Vary(p) <= MaxVary
                 /\ p.sidp \notin VarySidPats => (\A n \in NDoms : n <= p.ndom)       \* the other patterns: the largest forest only
                 /\ Vary(p) > 0 => (p.sidp \in VarySidPats /\ p.bi = "root") }
DirRec(p, d) ==
    [k |-> "dir", id |-> p, gc |-> d.gc, cap |-> d.cap, root |-> d.root,
     entries |-> [i \in 1..Len(d.entries) |-> [dn |-> d.entries[i].dn, attrs |-> d.entries[i].attrs,
                                               sidtxt |-> LDSidOf(d, i), dom |-> LDDnsOf(d, i)]]]

(* ---------------------------------------------------------------- calls *)
Doms(p) == 1..p.ndom
(* the Query family, the RootDSE readers and Connect do not depend on the SIDs: they run on the directories of the varied
   patterns with BUILTIN in the root, without a variation or with the ones that change how results arrive (gc, cap) *)
Wide(p) == p.sidp \in VarySidPats /\ p.bi = "root" /\ p.nb = "same" /\ p.dnc = 1
CallRec(p, m, a, e, open) == [k |-> "call", dir |-> p, m |-> m, a |-> a, want |-> e.want, q |-> e.q, qopen |-> open]

(* FindObjectSIDByRID: every well-known RID (all BUILTIN aliases and their neighbours, the domain principals) and ordinary ones *)
AllRids == { r.rid : r \in ADRows(ADRidTable) } \cup { 543, 563, 567, 570, 584, 1013, 1105, 5500 }
FewRids == { 500, 512, 544, 553, 572, 574, 583, 1013 }
FindNames(p) == { <<Fqdn(1), AllRids>>, <<NetBIOS(p.nb, 1), FewRids>> }
                \cup (IF p.ndom >= 2 THEN { <<Fqdn(2), IF Full THEN AllRids ELSE FewRids>> } ELSE {})
                \cup (IF Full THEN { <<LHUpper(Fqdn(1)), FewRids>>, <<T("nope.example.org"), {500, 544}>> } ELSE {})
                \cup (IF Full /\ p.ndom >= 3 THEN { <<Fqdn(3), FewRids>> } ELSE {})

Capital(s) == IF s = <<>> THEN s ELSE <<LHUpperCp(s[1])>> \o Tail(s)
DomainNames(p) == UNION { { Fqdn(k), LHUpper(Fqdn(k)), Capital(Fqdn(k)), NetBIOS(p.nb, k), LHLower(NetBIOS(p.nb, k)), LHUpper(Label(k)) } : k \in Doms(p) }
                  \cup { Fqdn(3), T("nope.example.com"), T("NOPE"), <<>>, DnEncode(RootDn) }

SidTexts(p) == { SidText(DomSid(p.sidp, k)) : k \in 1..3 }
               \cup { SidText(LDSidAppend(DomSid(p.sidp, k), 500)) : k \in Doms(p) }
               \cup { SidText(LDSidAppend(DomSid(p.sidp, 1), 1013)), SidText(LDSidAppend(DomSid(p.sidp, 1), 1001)), T("S-1-5-32-544"), T("S-1-5-32"),
                      T("S-1-5-32-563"), T("S-1-5-21-1-2-3-500") }

(* the Query family *)
Fgroup == LDFEq(LDAobjectClass, T("GROUP"))
FuserNotComputer == LDFAnd(<<LDFEq(LDAobjectClass, T("user")), LDFNot(LDFEq(LDAobjectClass, T("computer")))>>)
FtwoNames == LDFOr(<<LDFEq(LDAname, T("DR-500")), LDFEq(LDAname, T("bi-544")), LDFEq(LDAname, T("absent"))>>)
Fprefix == LDFSub(LDAname, T("dr-5"), <<>>, <<>>)
Fparts == LDFSub(LDAdNSHostName, T("dc"), <<T(".")>>, T(".com"))
FbinarySid(p) == LDFEq(LDAobjectSid, LDSidAppend(DomSid(p.sidp, 1), 512))                 \* the binary form, as \xx escapes on the wire
FcrossRef == LDFEq(LDAobjectClass, T("crossRef"))
Fadmins == LDFEq(LDAobjectSid, T("S-1-5-32-544"))
Filters(p) == { LDFAnyObject, Fgroup, FuserNotComputer, FtwoNames, Fprefix, Fparts, FbinarySid(p) }
SelName == <<LDAname>>
Selections == { SelName, <<>>, <<LDStar>>, <<T("NAME"), T("objectsid")>> }
Bases == { <<>>, LDAdefaultNC, LHUpper(LDAdefaultNC), LDAconfigNC, T("configurationnamingcontext"), LDAschemaNC,
           DnEncode(RootDn), DnEncode(UsersDn(1)), LHLower(DnEncode(UsersDn(1))), DnEncode(PartitionsDn), T("OU=Nope,") \o DnEncode(RootDn) }
ExistBases == { DnEncode(RootDn), DnEncode(UsersDn(1)), LHLower(DnEncode(UsersDn(1))), DnEncode(SchemaDn), T("OU=Nope,") \o DnEncode(RootDn),
                T("DC=example,DC=org"), DnEncode(DomDn(2)), DnEncode(DomDn(3)) }
Vias == { <<"Query", 0>>, <<"Query", 1>>, <<"Query", 2>>, <<"QueryBaseObject", 0>>, <<"QuerySingleLevel", 1>>,
          <<"QueryWholeSubtree", 2>>, <<"QueryChildren", 3>> }
QueryCalls(p) == { <<b, v, LDFAnyObject, SelName>> : b \in Bases, v \in Vias }
                 \cup { <<<<>>, <<"QueryWholeSubtree", 2>>, f, s>> : f \in Filters(p), s \in Selections }
                 \cup { <<DnEncode(UsersDn(1)), <<"QueryChildren", 3>>, f, SelName>> : f \in Filters(p) }
AllNcCalls == { <<f, s>> : f \in { FcrossRef, Fadmins }, s \in { 0, 2 } }

PdcNames(p) == { Fqdn(k) : k \in Doms(p) } \cup { LHUpper(Fqdn(1)), T("nope.example.org"), T("corp"), T("dc02") }
Levels == { 0, 3, 7, 8, 10 }
Credentials == { <<<<>>, <<>>, <<>>>>, <<T("example.com"), T("alice"), <<>>>>, <<T("example.com"), T("alice"), T("Passw0rd!")>> }

(* one directory per parameter tuple, built once (d), emitted first and followed by the calls on it *)
Init ==
    \E p \in DirParams : \E d \in {MkDir(p)} :
    \/ /\ c = <<"dir", p>>
       /\ Emit(DirRec(p, d))
    \/ \E nr \in FindNames(p) : \E rid \in nr[2] :
         /\ c = <<"findsid", p, nr[1], rid>>
         /\ Emit(CallRec(p, "findsid", [name |-> nr[1], rid |-> rid, branch |-> LDRidBranch(rid)], LDFindObjectSIDByRID(d, nr[1], rid), TRUE))
    \/ \E n \in DomainNames(p) :
         /\ c = <<"getdomain", p, n>>
         /\ Emit(CallRec(p, "getdomain", [name |-> n], LDGetDomain(d, n), TRUE))
    \/ /\ c = <<"alldomains", p>>
       /\ Emit(CallRec(p, "alldomains", [x |-> 0], LDGetAllDomains(d), TRUE))
    \/ \E s \in SidTexts(p) :
         /\ c = <<"lookupsid", p, s>>
         /\ Emit(CallRec(p, "lookupsid", [sid |-> s], LDLookupSID(d, s), FALSE))
    \/ \E qc \in (IF Wide(p) THEN QueryCalls(p) ELSE {}) :
         /\ c = <<"query", p, qc>>
         /\ Emit(CallRec(p, "query", [base |-> qc[1], via |-> qc[2][1], scope |-> qc[2][2], f |-> qc[3], sel |-> qc[4]],
                         LDQuery(d, qc[1], qc[3], qc[4], qc[2][2]), FALSE))
    \/ \E ac \in (IF Wide(p) THEN AllNcCalls ELSE {}) :
         /\ c = <<"queryallnc", p, ac>>
         /\ Emit(CallRec(p, "query", [base |-> <<>>, via |-> "QueryAllNamingContexts", scope |-> ac[2], f |-> ac[1], sel |-> SelName],
                         LDQueryAllNamingContexts(d, ac[1], SelName, ac[2]), FALSE))
    \/ \E b \in (IF Wide(p) THEN ExistBases ELSE {}) :
         /\ c = <<"basedn", p, b>>
         /\ Emit(CallRec(p, "basedn", [base |-> b], LDBaseDNExists(d, b), FALSE))
    \/ \E m \in { "rootdse", "namingcontexts", "dcs", "rodcs", "certs", "certnames", "certdns" } :
         /\ c = <<m, p>>
         /\ Emit(CallRec(p, m, [x |-> 0],
                         CASE m = "rootdse" -> LDGetRootDSE(d)
                           [] m = "namingcontexts" -> LDGetAllNamingContexts(d)
                           [] m = "dcs" -> LDGetAllDomainControllers(d)
                           [] m = "rodcs" -> LDGetAllReadOnlyDomainControllers(d)
                           [] m = "certs" -> LDGetAllCertificates(d)
                           [] m = "certnames" -> LDGetNamesOfAllEnabledCertificates(d)
                           [] m = "certdns" -> LDGetDistinguishedNamesOfAllEnabledCertificates(d), FALSE))
    \/ \E n \in PdcNames(p) :
         /\ c = <<"pdc", p, n>>
         /\ Emit(CallRec(p, "pdc", [name |-> n], LDGetPrincipalDomainController(d, n), FALSE))
    \/ \E k \in Doms(p) :
         /\ c = <<"computers", p, k>>
         /\ Emit(CallRec(p, "computers", [name |-> Fqdn(k)], LDGetAllComputers(d, Fqdn(k)), TRUE))
    \/ \E k \in Doms(p) : \E lv \in Levels :
         /\ c = <<"atleast", p, k, lv>>
         /\ Emit(CallRec(p, "atleast", [name |-> Fqdn(k), level |-> lv], LDIsDomainAtLeast(d, Fqdn(k), lv), TRUE))
    \/ \E cr \in (IF Wide(p) THEN Credentials ELSE {}) : \E reject \in BOOLEAN :
         /\ c = <<"connect", p, cr, reject>>
         /\ Emit(CallRec(p, "connect", [domain |-> cr[1], user |-> cr[2], password |-> cr[3], reject |-> reject],
                         [want |-> [ok |-> ~reject, bind |-> LDBind(cr[1], cr[2], cr[3])], q |-> <<>>], FALSE))
Next == FALSE /\ UNCHANGED c
=============================================================================
