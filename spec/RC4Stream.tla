----------------------------- MODULE RC4Stream -----------------------------
(***************************************************************************)
(* The streaming interface of crypto/rc4 (NewRC4WithKey, XORKeyStream) as  *)
(* a state machine.  Keys and the data stream M are fixed content          *)
(* functions, so the abstract state is (which key, how many bytes have     *)
(* been processed).  Action XorCall(k) processes the next k bytes of M.         *)
(*                                                                         *)
(* C12 (P): the output of a call that starts at stream position p is       *)
(* M[p+1..p+k] xor KS[p+1..p+k], KS being the standard RC4 keystream of     *)
(* the key -- whatever calls came before.  TLC generates every (p, k) edge *)
(* and prints the expected output; the harness replays every edge.         *)
(*                                                                         *)
(* With Concrete = TRUE the module carries the concrete mirror (S, i, j)   *)
(* of an implementation and checks that it refines the abstract law;       *)
(* DropIJ is the named deviation "indices not saved across calls".         *)
(***************************************************************************)
EXTENDS RC4, TLC, Json

CONSTANTS N,         \* stream length explored
          Seed,      \* content seed
          NKeys,     \* how many keys (1..3)
          Chunks,    \* set of call sizes
          Concrete,  \* BOOLEAN: carry (S, i, j)
          DropIJ,    \* BOOLEAN deviation (only with Concrete)
          EmitEdges  \* BOOLEAN

(* NB: a VARIABLE must not share its name with an operator parameter of an extended module:
   TLC then stops caching constant definitions that use that operator (measured). *)
VARIABLES kid, pos, cst
vars == <<kid, pos, cst>>

M == TLCEval(Pattern(Seed + 101, N))
(* key 1: 5 bytes (RFC 6229's 40-bit size), key 2: 16 patterned bytes, key 3: 256 bytes with 00 and FF runs *)
Keys == TLCEval(LET pat == Pattern(Seed + 9, 256) IN
                << <<1, 2, 3, 4, 5>>,
                   Pattern(Seed + 7, 16),
                   [n \in 1..256 |-> IF n <= 3 THEN 0 ELSE IF n >= 250 THEN 255 ELSE pat[n]] >>)
KS == TLCEval([q \in 1..NKeys |-> RC4Keystream(Keys[q], N)])
C  == TLCEval([q \in 1..NKeys |-> XorBytes(M, KS[q])])       \* the whole ciphertext, computed once

Emit(r) == EmitEdges => PrintT(ToJson(r))

Init == /\ kid \in 1..NKeys
        /\ pos = 0
        /\ cst = (IF Concrete THEN RC4New(Keys[kid]) ELSE <<>>)
        /\ Emit([op |-> "key", kid |-> kid, key |-> Keys[kid], m |-> M, p |-> 0, k |-> 0, out |-> <<>>])

XorCall(k) ==
    /\ pos + k <= N
    /\ pos' = pos + k
    /\ kid' = kid
    /\ IF Concrete
         THEN LET r == RC4Xor(cst, SubSeq(M, pos + 1, pos + k))
              IN cst' = (IF DropIJ /\ k > 0 THEN [r[1] EXCEPT !.i = 0, !.j = 0] ELSE r[1])
         ELSE cst' = cst
    /\ Emit([op |-> "xor", kid |-> kid, p |-> pos, k |-> k, out |-> SubSeq(C[kid], pos + 1, pos + k)])

Next == \E k \in Chunks : XorCall(k)
Spec == Init /\ [][Next]_vars

(* P, on the concrete mirror: whatever the history, what the next call would produce is the standard stream *)
Refines == Concrete => \A k \in {1, 2} : pos + k <= N =>
              RC4Xor(cst, SubSeq(M, pos + 1, pos + k))[2] = SubSeq(C[kid], pos + 1, pos + k)
=============================================================================
