---------------------------- MODULE HashStreamMD4 ----------------------------
(***************************************************************************)
(* The streaming MD4 object (crypto/md4: New, Write, Sum, HexSum) as a     *)
(* state machine.  The message is a fixed content function M (so content   *)
(* never enters the state); the abstract state is the number of bytes      *)
(* absorbed.  Actions: Write(k) -- the next k bytes of M -- and Sum.       *)
(* C01 requires: the digest after any sequence of writes is MD4 of the     *)
(* concatenation (however it was cut), and Sum is a pure read.             *)
(*                                                                         *)
(* With Concrete = TRUE the module also carries the concrete mirror of an  *)
(* implementation (chaining value + unprocessed tail) and checks that the  *)
(* block-buffering algorithm refines the abstract digest; SumInPlace is    *)
(* the named deviation "Sum pads into the live state".                     *)
(***************************************************************************)
EXTENDS MD4, TLC, Json

CONSTANTS N,          \* message length explored
          Seed,       \* content seed
          Chunks,     \* set of write sizes
          Concrete,   \* BOOLEAN
          SumInPlace, \* BOOLEAN deviation
          EmitEdges   \* BOOLEAN

VARIABLES pos, hs, buf
vars == <<pos, hs, buf>>

M == Pattern(Seed, N)

(* chaining value after j full blocks of M, digest of every prefix of M -- computed once *)
HS == TLCEval(LET RECURSIVE go(_, _)
                  go(h, j) == IF 64 * j > N THEN <<h>> ELSE <<h>> \o go(MD4Compress(h, SubSeq(M, 64 * j - 63, 64 * j)), j + 1)
              IN go(MD4Init, 1))
D == TLCEval([k \in 0..N |-> MD4Finalize(HS[(k \div 64) + 1], SubSeq(M, k - (k % 64) + 1, k), k)])

Init == pos = 0 /\ hs = (IF Concrete THEN MD4Init ELSE <<>>) /\ buf = <<>>

Write(k) ==
    /\ pos + k <= N
    /\ pos' = pos + k
    /\ IF Concrete
         THEN LET all == buf \o SubSeq(M, pos + 1, pos + k)
              IN /\ hs' = MD4Absorb(hs, all)
                 /\ buf' = SubSeq(all, Len(all) - (Len(all) % 64) + 1, Len(all))
         ELSE UNCHANGED <<hs, buf>>
    /\ EmitEdges => PrintT(ToJson([op |-> "write", p |-> pos, k |-> k, d |-> D[pos + k]]))

Sum ==
    /\ IF Concrete /\ SumInPlace
         THEN /\ hs' = MD4Absorb(hs, buf \o MD4PadFor(pos))     \* the deviation: padding goes into the live state
              /\ buf' = <<>>
              /\ UNCHANGED pos
         ELSE UNCHANGED vars
    /\ EmitEdges => PrintT(ToJson([op |-> "sum", p |-> pos, k |-> 0, d |-> D[pos]]))

Next == (\E k \in Chunks : Write(k)) \/ Sum
Spec == Init /\ [][Next]_vars

EmitMsg == PrintT(ToJson([op |-> "msg", m |-> M, p |-> 0, k |-> 0, d |-> D[0]]))
InitE == Init /\ (EmitEdges => EmitMsg)
SpecE == InitE /\ [][Next]_vars

(* P: what a Sum issued now returns is MD4 of everything written so far *)
Refines == Concrete => MD4Finalize(hs, buf, pos) = D[pos]
(* design check of the oracle itself: prefix digests computed incrementally equal the one-shot function *)
ASSUME \A k \in {0, 1, 55, 56, 63, 64, 65, 119, 120, 128} : k <= N => D[k] = MD4Sum(SubSeq(M, 1, k))
=============================================================================
