---------------------------- MODULE LLMNRServer ----------------------------
(***************************************************************************)
(* The LLMNR server (network/llmnr/server.go: Serve, processHandlers,      *)
(* ResponseWriter, Close) with caller-supplied handlers (C18).             *)
(*                                                                         *)
(* The receive loop decodes each datagram itself and starts one goroutine  *)
(* per query (`go s.processHandlers(...)`), which runs the registered      *)
(* handlers; a handler is arbitrary caller code: it may block, answer      *)
(* through the ResponseWriter, or call Close on the server it was given.   *)
(* The loop has no scheduling hooks, so receive+decode+spawn is one step   *)
(* here (observed by the harness as the handler being entered); what the   *)
(* environment controls is WHEN each handler proceeds and WHEN Close is    *)
(* called.                                                                 *)
(*                                                                         *)
(* C18: every response carries the id and answer of exactly one request of *)
(* the client it goes to; Close at any moment makes Serve return (and      *)
(* Close itself return) promptly -- whether or not handlers are still      *)
(* running, and also when it is a handler that calls Close.                *)
(***************************************************************************)
EXTENDS Integers, Sequences, FiniteSets, TLC, Json

CONSTANTS NReq,                 \* number of requests (request i comes from client ReqClientOf(i))
          NClients,
          CloseWaitsForHandlers, \* deviation: Close waits for the in-flight handlers before closing the socket
          EmitEdges

VARIABLES sent, hs, replies, closed, closeRet, lpc, closer
vars == <<sent, hs, replies, closed, closeRet, lpc, closer>>
Reqs == 1..NReq
ClientOf(r) == ((r - 1) % NClients) + 1

St == [sent |-> sent, hs |-> hs, nrep |-> Len(replies), closed |-> closed, closeRet |-> closeRet, lpc |-> lpc, closer |-> closer]
Edge(act, r, reply) ==
    EmitEdges => PrintT(ToJson([act |-> act, r |-> r, reply |-> reply, f |-> St,
        t |-> [sent |-> sent', hs |-> hs', nrep |-> Len(replies'), closed |-> closed', closeRet |-> closeRet', lpc |-> lpc', closer |-> closer']]))

Init == /\ sent = {} /\ hs = [r \in Reqs |-> "none"] /\ replies = <<>> /\ closed = FALSE /\ closeRet = FALSE
        /\ lpc = "serving" /\ closer = 0

Blocked == {h \in Reqs : hs[h] = "blocked"}
(* with the deviation the socket is closed (and the loop can leave) only once every handler is done,
   and Close returns only then -- except that the handler that called Close can never be waited for by itself *)
SocketClosed == closed /\ (~CloseWaitsForHandlers \/ Blocked = {})

(* a client's query is received, decoded and handed to a new handler goroutine, which enters the handler *)
Query(r) ==
    /\ r \notin sent /\ ~closed
    /\ \A q \in Reqs : (q < r /\ ClientOf(q) = ClientOf(r)) => q \in sent
    /\ sent' = sent \cup {r} /\ hs' = [hs EXCEPT ![r] = "blocked"]
    /\ UNCHANGED <<replies, closed, closeRet, lpc, closer>>
    /\ Edge("query", r, FALSE)

(* the handler answers through the ResponseWriter and returns *)
Answer(h) ==
    /\ hs[h] = "blocked" /\ closer # h
    /\ hs' = [hs EXCEPT ![h] = "done"]
    /\ replies' = IF SocketClosed THEN replies ELSE Append(replies, [to |-> ClientOf(h), id |-> h])
    /\ UNCHANGED <<sent, closed, closeRet, lpc, closer>>
    /\ Edge("answer", h, ~SocketClosed)

(* Close called from outside *)
Close ==
    /\ ~closed
    /\ closed' = TRUE /\ closer' = -1
    /\ UNCHANGED <<sent, hs, replies, closeRet, lpc>>
    /\ Edge("close", 0, FALSE)

(* a handler calls server.Close() itself (a one-shot responder) and returns when Close does *)
HandlerCloses(h) ==
    /\ ~closed /\ hs[h] = "blocked"
    /\ closed' = TRUE /\ closer' = h
    /\ UNCHANGED <<sent, hs, replies, closeRet, lpc>>
    /\ Edge("hclose", h, FALSE)

(* Close returns to its caller *)
CloseReturns ==
    /\ closed /\ ~closeRet
    /\ IF CloseWaitsForHandlers THEN Blocked = {} ELSE TRUE      \* the deviation: waits for every handler, itself included
    /\ closeRet' = TRUE
    /\ hs' = IF closer > 0 THEN [hs EXCEPT ![closer] = "done"] ELSE hs
    /\ UNCHANGED <<sent, replies, closed, lpc, closer>>
    /\ Edge("closeret", 0, FALSE)

(* Serve returns *)
LoopExit ==
    /\ SocketClosed /\ lpc = "serving"
    /\ lpc' = "exited"
    /\ UNCHANGED <<sent, hs, replies, closed, closeRet, closer>>
    /\ Edge("exit", 0, FALSE)

Next == (\E r \in Reqs : Query(r) \/ Answer(r) \/ HandlerCloses(r)) \/ Close \/ CloseReturns \/ LoopExit
(* the library's own steps are fair; handlers (caller code) and clients are not *)
Spec == Init /\ [][Next]_vars /\ WF_vars(CloseReturns) /\ WF_vars(LoopExit)
SpecSafe == Init /\ [][Next]_vars

EachReplyMatchesOneRequest ==
    /\ \A i \in DOMAIN replies : replies[i].id \in sent /\ ClientOf(replies[i].id) = replies[i].to
    /\ \A i, j \in DOMAIN replies : i # j => replies[i].id # replies[j].id
(* C18: stopping at any moment makes the loop exit and Close return, whatever the handlers are doing *)
CloseLeadsToExit == closed ~> (lpc = "exited" /\ closeRet)
=============================================================================
