---------------------------- MODULE SchemaTables ----------------------------
(***************************************************************************)
(* Growth G08 (drift only): the Active Directory schema tables of          *)
(* network/ldap/schema as RELATIONS, walked as a small state machine.      *)
(*                                                                         *)
(* The package declares five tables:                                       *)
(*   attr     attribute display name  -> schemaIDGUID text                 *)
(*   attrinv  schemaIDGUID text       -> attribute display name            *)
(*   pset     property-set identifier -> rightsGuid text                   *)
(*   psetinv  rightsGuid text         -> property-set identifier           *)
(*   member   rightsGuid text         -> the display names of the          *)
(*            attributes whose attributeSecurityGUID is that set           *)
(* What a user of the tables relies on (MS-ADTS 3.1.1.2.3, 5.1.3.2.1):     *)
(*   - a schemaIDGUID identifies ONE attribute and a rightsGuid ONE set,   *)
(*     so attr and pset are injective and attrinv / psetinv are exactly    *)
(*     their inverses (total both ways);                                   *)
(*   - attributeSecurityGUID is single-valued: an attribute is a member of *)
(*     at most one property set, and is listed once;                       *)
(*   - every member is an attribute the attr table knows;                  *)
(*   - every GUID text is in the one form the package uses everywhere      *)
(*     (8-4-4-4-12, lower-case hexadecimal) -- a look-up with a GUID       *)
(*     printed by guid.ToFormatD must hit.                                 *)
(*                                                                         *)
(* Row(t, k, v) adds one row; the judgments about that row are evaluated   *)
(* against the rows seen so far; End evaluates the judgments that need the *)
(* whole relation.  Texts are TLC strings (compared as wholes); the GUID   *)
(* texts also travel as code points so that their form can be judged.      *)
(***************************************************************************)
EXTENDS Integers, Sequences, FiniteSets, TLC

VARIABLES attr, attrinv, pset, psetinv, member, done
stvars == <<attr, attrinv, pset, psetinv, member, done>>

StInit == attr = <<>> /\ attrinv = <<>> /\ pset = <<>> /\ psetinv = <<>> /\ member = <<>> /\ done = FALSE

Range(f) == {f[x] : x \in DOMAIN f}
Put(f, k, v) == [x \in DOMAIN f \cup {k} |-> IF x = k THEN v ELSE f[x]]

(* ---- the form of a GUID text: 8-4-4-4-12 lower-case hexadecimal digits ---- *)
StIsLowerHex(c) == (c >= 48 /\ c <= 57) \/ (c >= 97 /\ c <= 102)
StDashAt == {9, 14, 19, 24}
StGuidForm(cp) == /\ Len(cp) = 36
                  /\ \A i \in 1..36 : IF i \in StDashAt THEN cp[i] = 45 ELSE StIsLowerHex(cp[i])

(* ---- judgments about one row, given the relations built so far ---- *)
FreshKey(f, k) == k \notin DOMAIN f                          \* a relation lists a key once
Injective(f, v) == v \notin Range(f)                         \* no second key maps to the same GUID
InverseOf(f, k, v) == v \in DOMAIN f /\ f[v] = k             \* row (k, v) of the inverse table: f maps v back to k
KnownMember(a) == a \in DOMAIN attr
InNoOtherSet(g, a) == \A h \in DOMAIN member : h # g => a \notin member[h]
ListedOnce(g, a) == g \notin DOMAIN member \/ a \notin member[g]

(* ---- judgments about the whole relations ---- *)
MissingInverse(f, finv) == {k \in DOMAIN f : f[k] \notin DOMAIN finv}
SetsWithoutMembers == {n \in DOMAIN pset : pset[n] \notin DOMAIN member}   \* not a law: MS-ADTS has property sets without attributes (Phone and Mail Options, MS-TS-GatewayAccess)

(* ---- transitions ---- *)
Row(t, k, v) ==
    /\ ~done
    /\ CASE t = "attr"    -> attr' = Put(attr, k, v) /\ UNCHANGED <<attrinv, pset, psetinv, member, done>>
         [] t = "attrinv" -> attrinv' = Put(attrinv, k, v) /\ UNCHANGED <<attr, pset, psetinv, member, done>>
         [] t = "pset"    -> pset' = Put(pset, k, v) /\ UNCHANGED <<attr, attrinv, psetinv, member, done>>
         [] t = "psetinv" -> psetinv' = Put(psetinv, k, v) /\ UNCHANGED <<attr, attrinv, pset, member, done>>
         [] t = "member"  -> member' = Put(member, k, (IF k \in DOMAIN member THEN member[k] ELSE {}) \cup {v})
                             /\ UNCHANGED <<attr, attrinv, pset, psetinv, done>>
         [] OTHER -> FALSE
End == ~done /\ done' = TRUE /\ UNCHANGED <<attr, attrinv, pset, psetinv, member>>

(* ---- the relation laws on a tiny instance (checked by SANY/TLC when the module is loaded) ---- *)
ASSUME StGuidForm(<<98,102,57,54,55,57,99,48,45,48,100,101,54,45,49,49,100,48,45,97,50,56,53,45,48,48,97,97,48,48,51,48,52,57,101,50>>)   \* bf9679c0-0de6-11d0-a285-00aa003049e2
ASSUME ~StGuidForm(<<66,70,57,54,55,57,99,48,45,48,100,101,54,45,49,49,100,48,45,97,50,56,53,45,48,48,97,97,48,48,51,48,52,57,101,50>>)  \* upper case
ASSUME ~StGuidForm(<<98,102,57,54,55,57,99,48,45,48,100,101,54,45,49,49,100,48,45,97,50,56,53,45,48,48,97,97,48,48,51,48,52,57,101>>)    \* one digit short
ASSUME LET f == Put(Put(<<>>, "a", "1"), "b", "2") IN
       /\ Injective(f, "3") /\ ~Injective(f, "2") /\ FreshKey(f, "c") /\ ~FreshKey(f, "a")
       /\ InverseOf(f, "1", "a") /\ ~InverseOf(f, "1", "b") /\ ~InverseOf(f, "9", "z")
       /\ MissingInverse(f, Put(<<>>, "1", "a")) = {"b"}
=============================================================================
