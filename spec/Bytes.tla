------------------------------- MODULE Bytes -------------------------------
(* Byte-string helpers: bytes are 0..255, byte strings are sequences. TLC integers are 32-bit
   signed, so nothing here exceeds 2^31-1; wider quantities live in Word32 / Digits. *)
EXTENDS Integers, Sequences, Bitwise

Byte == 0..255
Zeros(n) == [i \in 1..n |-> 0]
Rep(b, n) == [i \in 1..n |-> b]
Take(s, n) == SubSeq(s, 1, IF n < Len(s) THEN n ELSE Len(s))
Drop(s, n) == SubSeq(s, n + 1, Len(s))

(* little-/big-endian encodings of n < 2^31 on w bytes (w <= 4) *)
LE(n, w) == [i \in 1..w |-> (n \div (2 ^ (8 * (i - 1)))) % 256]
BE(n, w) == [i \in 1..w |-> (n \div (2 ^ (8 * (w - i)))) % 256]
UnLE16(s) == s[1] + 256 * s[2]
UnBE16(s) == s[2] + 256 * s[1]

RECURSIVE Flatten(_)
Flatten(ss) == IF ss = <<>> THEN <<>> ELSE Head(ss) \o Flatten(Tail(ss))

HexDigit(n) == SubSeq("0123456789abcdef", n + 1, n + 1)
RECURSIVE HexLower(_)
HexLower(s) == IF s = <<>> THEN "" ELSE HexDigit(s[1] \div 16) \o HexDigit(s[1] % 16) \o HexLower(Tail(s))

(* a deterministic, seed-dependent byte pattern (full period LCG mod 65537 folded to a byte) *)
RECURSIVE LcgSeq(_, _)
LcgSeq(x, n) == IF n = 0 THEN <<>> ELSE <<(x % 256)>> \o LcgSeq((x * 75 + 74) % 65537, n - 1)
Pattern(seed, n) == LcgSeq(((seed % 65537) * 7919 + 13) % 65537, n)   \* seed reduced first: TLC integers are 32-bit
=============================================================================
