------------------------------- MODULE Hostile -------------------------------
(***************************************************************************)
(* C07: the adversary as a state machine.  A state is a valid encoding     *)
(* (a "base case" of some decoding entry point, read from bases.json, which*)
(* the harness produces with the library's own encoders or from literals)  *)
(* plus the sequence of corruptions applied so far.  Each action is one    *)
(* systematic corruption of the quantifier of C07:                         *)
(*    Truncate(k)        every prefix                                      *)
(*    SetByte(p, v)      every position to a boundary value                *)
(*    SetRun(p, w, v)    every 2- and 4-byte field position driven to an   *)
(*                       extreme (all-ones, sign bit, 2^32-k wrap values,  *)
(*                       the buffer's own length and its neighbours)       *)
(*    Append(k, v)       trailing garbage                                  *)
(*    Delete(p), Dup(p)  (text) a character removed / doubled              *)
(* TLC enumerates every corruption of every base case (and, with Depth 2,  *)
(* every corruption of every corrupted case).  For every generated state   *)
(* it prints the corruption as a compact descriptor; the harness applies   *)
(* the same Apply to its copy of the base case -- every CheckEvery-th      *)
(* state also carries the corrupted bytes computed HERE so that the two    *)
(* implementations of Apply are cross-checked.                             *)
(*                                                                         *)
(* The expectation is the same for every state: the entry point returns.   *)
(***************************************************************************)
EXTENDS Integers, Sequences, TLC, Json

CONSTANTS Depth,       \* number of successive corruptions (1 or 2)
          MaxPos,      \* corrupt only positions p with p <= MaxPos or p > Len - TailPos (0 = all positions)
          TailPos,
          ByteVals,    \* boundary values for SetByte
          CheckEvery,  \* every n-th emitted state carries the corrupted bytes
          Shard, Shards \* this run handles base cases i with i % Shards = Shard

Bases == JsonDeserialize("bases.json")     \* sequence of [e |-> entry, t |-> "b"/"t", b |-> bytes]

VARIABLES i, muts, cur
vars == <<i, muts, cur>>

Min(a, b) == IF a < b THEN a ELSE b
PosSet(n) == IF MaxPos = 0 THEN 1..n ELSE {p \in 1..n : p <= MaxPos \/ p > n - TailPos}

(* one corruption applied to a byte string *)
Apply(s, m) ==
    CASE m.k = "trunc" -> SubSeq(s, 1, m.p)
      [] m.k = "set" -> [x \in 1..Len(s) |-> IF x = m.p THEN m.v ELSE s[x]]
      [] m.k = "run" -> [x \in 1..Len(s) |-> IF x >= m.p /\ x < m.p + m.w THEN m.v[x - m.p + 1] ELSE s[x]]
      [] m.k = "app" -> s \o [x \in 1..m.p |-> m.v]
      [] m.k = "del" -> SubSeq(s, 1, m.p - 1) \o SubSeq(s, m.p + 1, Len(s))
      [] m.k = "dup" -> SubSeq(s, 1, m.p) \o SubSeq(s, m.p, Len(s))

Mut(k, p, w, v) == [k |-> k, p |-> p, w |-> w, v |-> v]

(* extremes for a w-byte field at a buffer of length n: all ones, sign bit (both byte orders), wrap values, own length *)
RunVals(w, n) ==
    IF w = 2 THEN { <<255, 255>>, <<0, 128>>, <<128, 0>>, <<n % 256, (n \div 256) % 256>>, <<(n \div 256) % 256, n % 256>>,
                    <<(n + 1) % 256, ((n + 1) \div 256) % 256>>, <<254, 255>>, <<255, 127>> }
    ELSE { <<255, 255, 255, 255>>, <<252, 255, 255, 255>>, <<255, 255, 255, 252>>, <<0, 0, 0, 128>>, <<128, 0, 0, 0>>,
           <<255, 255, 255, 127>>, <<n % 256, (n \div 256) % 256, 0, 0>>, <<0, 0, (n \div 256) % 256, n % 256>>,
           <<(n + 1) % 256, ((n + 1) \div 256) % 256, 0, 0>> }

TextRunes3 == { <<226, 132, 170>>, <<225, 186, 158>> }     \* U+212A, U+1E9E in UTF-8
TextVals == {0, 32, 45, 46, 47, 48, 57, 58, 71, 103, 123, 125, 128, 255}   \* NUL space - . / 0 9 : G g { } and two non-ASCII bytes

Muts(s, text) ==
    LET n == Len(s) IN
       { Mut("trunc", k, 0, 0) : k \in 0..(n - 1) }
    \cup { Mut("set", p, 0, v) : p \in PosSet(n), v \in (IF text THEN TextVals ELSE ByteVals) }
    \cup { Mut("set", p, 0, (s[p] + 1) % 256) : p \in PosSet(n) }
    \cup { Mut("set", p, 0, (s[p] + 255) % 256) : p \in PosSet(n) }
    \cup (IF text THEN { Mut("del", p, 0, 0) : p \in PosSet(n) } \cup { Mut("dup", p, 0, 0) : p \in PosSet(n) }
                       \cup { Mut("app", k, 0, 57) : k \in {1, 40, 400} }
                       \* three octets replaced by one letter that is THREE octets long and whose lower-case form is shorter
                       \* (U+212A KELVIN SIGN -> k, U+1E9E -> U+00DF): the text keeps its length in bytes and changes it under case
                       \* mapping -- what a parser that measures, maps and then slices at fixed offsets trips over
                       \cup { Mut("run", p, 3, v) : p \in {q \in PosSet(n) : q + 2 <= n}, v \in TextRunes3 }
          ELSE { Mut("run", p, 2, v) : p \in {q \in PosSet(n) : q + 1 <= n}, v \in RunVals(2, n) }
               \cup { Mut("run", p, 4, v) : p \in {q \in PosSet(n) : q + 3 <= n}, v \in RunVals(4, n) }
               \cup { Mut("app", k, 0, v) : k \in {1, 7}, v \in {0, 255} })

Emit == PrintT(ToJson([i |-> i', m |-> muts',
                       x |-> IF (Len(cur') + i' * 7 + Len(muts') * 3) % CheckEvery = 0 THEN cur' ELSE <<>>,
                       c |-> (Len(cur') + i' * 7 + Len(muts') * 3) % CheckEvery = 0]))

Init == i = 0 /\ muts = <<>> /\ cur = <<>>

Pick(j) ==
    /\ i = 0 /\ j % Shards = Shard
    /\ i' = j /\ muts' = <<>> /\ cur' = Bases[j].b
    /\ Emit

Corrupt ==
    /\ i > 0 /\ Len(muts) < Depth
    /\ \E m \in Muts(cur, Bases[i].t = "t") :
          /\ muts' = Append(muts, m) /\ cur' = Apply(cur, m) /\ UNCHANGED i
          /\ Emit

Next == (\E j \in 1..Len(Bases) : Pick(j)) \/ Corrupt
Spec == Init /\ [][Next]_vars
=============================================================================
