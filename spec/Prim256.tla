------------------------------ MODULE Prim256 ------------------------------
(***************************************************************************)
(* SHA-256 as a primitive term ("Prim"): the specification decides WHICH   *)
(* bytes are hashed (the covered range of a key-credential blob, the value *)
(* of the KeyMaterial entry); the digest itself is evaluated by the Go     *)
(* harness with crypto/sha256 (trusted base).                              *)
(*                                                                         *)
(* Two phases.  PrimPhase = TRUE : every evaluation of SHA256(m) prints the*)
(* request {"prim": m} and yields 32 zero bytes (no message the            *)
(* specification hashes contains a digest, so the requests do not depend   *)
(* on the stub).  The harness answers all requests into prim.json, a       *)
(* record  key -> <<[m |-> bytes, d |-> digest], ...>>  with               *)
(* key = "<length>_<byte sum>".  PrimPhase = FALSE: SHA256(m) looks m up;  *)
(* a missing entry is an error (CHOOSE on an empty set), never a guess.    *)
(***************************************************************************)
EXTENDS Integers, Sequences, TLC, Json

CONSTANT PrimPhase

PrimZero32 == [i \in 1..32 |-> 0]
PrimTab == JsonDeserialize("prim.json")
PrimSum(m) == LET RECURSIVE S(_, _)
                  S(i, a) == IF i > Len(m) THEN a ELSE S(i + 1, a + m[i])
              IN S(1, 0)
PrimKey(m) == ToString(Len(m)) \o "_" \o ToString(PrimSum(m))
PrimLookup(m) == LET bucket == PrimTab[PrimKey(m)]
                     hit == CHOOSE i \in DOMAIN bucket : bucket[i].m = m
                 IN bucket[hit].d
SHA256(m) == IF PrimPhase THEN (IF PrintT(ToJson([prim |-> m])) THEN PrimZero32 ELSE PrimZero32)
             ELSE PrimLookup(m)

(* FIPS 180-4 example: SHA-256("abc"); checked against the harness-evaluated table by the modules that use it *)
PrimKatMsg == <<97, 98, 99>>
PrimKatDigest == <<186,120,22,191,143,1,207,234,65,65,64,222,93,174,34,35,176,3,97,163,150,23,122,156,180,16,255,97,242,0,21,173>>
PrimKatOK == PrimPhase \/ SHA256(PrimKatMsg) = PrimKatDigest
=============================================================================
