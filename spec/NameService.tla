---------------------------- MODULE NameService ----------------------------
(***************************************************************************)
(* The NBNS UDP servers (nbtns.Server, nbtns.UDPServer) as a concurrent    *)
(* system: clients, the datagram queue, ONE receive loop that owns ONE     *)
(* receive buffer, one handler goroutine per datagram, Stop.               *)
(*                                                                         *)
(* One action per scheduling point of the code:                            *)
(*   ClientSend    a client's datagram enters the socket queue             *)
(*   LoopRecv      ReadFromUDP returns the next datagram INTO the buffer   *)
(*   Dispatch      `go handlePacket(...)`: a handler is spawned, holding   *)
(*                 either its own copy of the datagram (CopyOnDispatch) or *)
(*                 a slice aliasing the loop's buffer (the deviation)      *)
(*   HandlerParse  the handler decodes what its slice holds AT THAT MOMENT,*)
(*                 routes on the opcode and applies the name-table call    *)
(*   HandlerRespond the handler sends the reply to the address it was      *)
(*                 spawned with                                            *)
(*   Stop / LoopExit                                                       *)
(*                                                                         *)
(* Requests are identified by their index; a request's transaction id and  *)
(* its answer are functions of that index, so "the reply carries the id    *)
(* and the answer of request r" is `txid = r`.                             *)
(***************************************************************************)
EXTENDS Integers, Sequences, FiniteSets, TLC, Json

CONSTANTS ReqClient,      \* sequence: client of request i
          ReqOp,          \* sequence: opcode (0..15) of request i
          CopyOnDispatch, \* TRUE = intended design
          MaskOK,         \* TRUE = opcode taken with mask 0x7800 (RFC 1002); FALSE = deviation: mask 0xF000
          MaxInFlight,    \* a client sends its next request only while fewer than this many of its requests are unanswered
          WithStop,       \* BOOLEAN: explore Stop
          EmitEdges

VARIABLES net, sent, buf, lpc, hs, replies, tableops, quit
vars == <<net, sent, buf, lpc, hs, replies, tableops, quit>>

Reqs == 1..Len(ReqClient)
NoH == [pc |-> "none", alias |-> FALSE, parsed |-> 0]

(* RFC 1002 4.2.1.1: 0 query, 5 registration, 6 release, 8 refresh (9 is ambiguous in the RFC: see DESIGN), 7 WACK and the
   unassigned opcodes are not requests a name server acts on *)
Route(op) == CASE op = 0 -> "query" [] op = 5 -> "register" [] op = 6 -> "release" [] op = 8 -> "refresh" [] op = 9 -> "refresh"
               [] OTHER -> "notimpl"
(* the deviation: (flags & 0xF000) compared with 0x0000 / 0x2800 / 0x3000 / 0x4000 *)
RouteF000(op) == LET m == (op \div 2) * 2 IN
                 CASE m = 0 -> "query" [] m = 6 -> "release" [] m = 8 -> "refresh" [] OTHER -> "notimpl"
RouteImpl(op) == IF MaskOK THEN Route(op) ELSE RouteF000(op)

St == [net |-> net, buf |-> buf, lpc |-> lpc, hs |-> hs, nrep |-> Len(replies), quit |-> quit, sent |-> sent]
Edge(act, r, exp) ==
    EmitEdges => PrintT(ToJson([act |-> act, r |-> r, exp |-> exp, f |-> St,
                                t |-> [net |-> net', buf |-> buf', lpc |-> lpc', hs |-> hs', nrep |-> Len(replies'), quit |-> quit', sent |-> sent']]))
NoExp == [to |-> 0, txid |-> 0, route |-> ""]

Init == /\ net = <<>> /\ sent = {} /\ buf = 0 /\ lpc = "recv"
        /\ hs = [r \in Reqs |-> NoH] /\ replies = <<>> /\ tableops = <<>> /\ quit = FALSE

ClientSend(r) ==
    /\ r \notin sent /\ ~quit
    /\ \A q \in Reqs : (q < r /\ ReqClient[q] = ReqClient[r]) => q \in sent     \* a client sends its requests in order
    /\ Cardinality({q \in sent : ReqClient[q] = ReqClient[r] /\ hs[q].pc # "done"}) < MaxInFlight
    /\ sent' = sent \cup {r} /\ net' = Append(net, r)
    /\ UNCHANGED <<buf, lpc, hs, replies, tableops, quit>>
    /\ Edge("send", r, NoExp)

LoopRecv ==
    /\ lpc = "recv" /\ ~quit /\ net # <<>>
    /\ buf' = Head(net) /\ net' = Tail(net) /\ lpc' = "dispatch"
    /\ UNCHANGED <<sent, hs, replies, tableops, quit>>
    /\ Edge("recv", Head(net), NoExp)

Dispatch ==
    /\ lpc = "dispatch"
    /\ hs' = [hs EXCEPT ![buf] = [pc |-> "parse", alias |-> ~CopyOnDispatch, parsed |-> 0]]
    /\ lpc' = "recv"
    /\ UNCHANGED <<net, sent, buf, replies, tableops, quit>>
    /\ Edge("dispatch", buf, NoExp)

HandlerParse(h) ==
    /\ hs[h].pc = "parse"
    /\ LET p == IF hs[h].alias THEN buf ELSE h IN
       /\ hs' = [hs EXCEPT ![h] = [@ EXCEPT !.pc = "respond", !.parsed = p]]
       /\ tableops' = Append(tableops, [req |-> p, route |-> RouteImpl(ReqOp[p])])
       /\ UNCHANGED <<net, sent, buf, lpc, replies, quit>>
       /\ Edge("parse", h, [to |-> ReqClient[h], txid |-> p, route |-> RouteImpl(ReqOp[p])])

HandlerRespond(h) ==
    /\ hs[h].pc = "respond"
    /\ hs' = [hs EXCEPT ![h].pc = "done"]
    /\ replies' = IF quit THEN replies       \* the socket is closed: the reply is lost
                  ELSE Append(replies, [to |-> ReqClient[h], txid |-> hs[h].parsed, route |-> RouteImpl(ReqOp[hs[h].parsed])])
    /\ UNCHANGED <<net, sent, buf, lpc, tableops, quit>>
    /\ Edge("respond", h, IF quit THEN NoExp ELSE [to |-> ReqClient[h], txid |-> hs[h].parsed, route |-> RouteImpl(ReqOp[hs[h].parsed])])

Stop ==
    /\ WithStop /\ ~quit
    /\ quit' = TRUE
    /\ UNCHANGED <<net, sent, buf, lpc, hs, replies, tableops>>
    /\ Edge("stop", 0, NoExp)

LoopExit ==
    /\ quit /\ lpc = "recv"
    /\ lpc' = "exited"
    /\ UNCHANGED <<net, sent, buf, hs, replies, tableops, quit>>
    /\ Edge("exit", 0, NoExp)

Next == \/ \E r \in Reqs : ClientSend(r)
        \/ LoopRecv \/ Dispatch
        \/ \E h \in Reqs : HandlerParse(h) \/ HandlerRespond(h)
        \/ Stop \/ LoopExit

Fairness == WF_vars(LoopExit) /\ WF_vars(Dispatch) /\ \A h \in Reqs : WF_vars(HandlerParse(h)) /\ WF_vars(HandlerRespond(h))
Spec == Init /\ [][Next]_vars /\ Fairness
SpecSafe == Init /\ [][Next]_vars      \* for edge emission: evaluating fairness would print every edge several times

-----------------------------------------------------------------------------
(* C18 (P) *)
RepliesIdx == DOMAIN replies
(* every response carries the transaction id of, and the answer for, a request of the client it is sent to ... *)
EachReplyMatchesOneRequest ==
    /\ \A i \in RepliesIdx : replies[i].txid \in sent /\ ReqClient[replies[i].txid] = replies[i].to
    (* ... exactly one: no request is answered twice *)
    /\ \A i, j \in RepliesIdx : i # j => replies[i].txid # replies[j].txid
(* each opcode is routed to the handler RFC 1002 assigns it *)
RoutedPerRFC1002 == \A i \in DOMAIN tableops : tableops[i].route = Route(ReqOp[tableops[i].req])
(* every handler works on its own request *)
HandlersIsolated == \A h \in Reqs : hs[h].pc \in {"respond", "done"} => hs[h].parsed = h
Inv == EachReplyMatchesOneRequest /\ RoutedPerRFC1002 /\ HandlersIsolated
(* stopping makes the loop exit *)
StopLeadsToExit == quit ~> (lpc = "exited")
=============================================================================
