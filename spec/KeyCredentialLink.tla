-------------------------- MODULE KeyCredentialLink --------------------------
(***************************************************************************)
(* msDS-KeyCredentialLink binary value, written from MS-ADTS 2.2.20.       *)
(*                                                                         *)
(* 2.2.20.2 KEYCREDENTIALLINK_BLOB:  Version (4 bytes, little-endian;      *)
(*   0x00000200 = KEY_CREDENTIAL_LINK_VERSION_2; the legacy formats 0 and  *)
(*   0x100 share the layout) followed by KEYCREDENTIALLINK_ENTRY           *)
(*   structures sorted by Identifier in increasing order.                  *)
(* 2.2.20.3 KEYCREDENTIALLINK_ENTRY: Length (2 bytes, little-endian, the   *)
(*   size of Value), Identifier (1 byte), Value (Length bytes).            *)
(* 2.2.20.4 identifiers: 1 KeyID = SHA256 of the Value field of the        *)
(*   KeyMaterial entry; 2 KeyHash = SHA256 of all entries following this   *)
(*   entry; 3 KeyMaterial; 4 KeyUsage (1 byte); 5 KeySource (1 byte);      *)
(*   6 DeviceId (16-byte GUID); 7 CustomKeyInformation (2.2.20.6);         *)
(*   8 KeyApproximateLastLogonTimeStamp; 9 KeyCreationTime (8 bytes each). *)
(*                                                                         *)
(* A credential VALUE is a record                                          *)
(*   [ver, id, kh, km, usage, source, dev, cki, last, created]             *)
(* whose fields other than ver/usage/source are byte strings exactly as    *)
(* they travel (km = the BCRYPT_RSAKEY_BLOB, see RSAKeyBlob; dev = GUID    *)
(* packet; last/created = 64-bit tick counts, little-endian; cki = <<>>    *)
(* when the optional entry is absent).  SHA-256 is Prim256!SHA256.         *)
(***************************************************************************)
EXTENDS RSAKeyBlob, Prim256

KclVersions == {0, 256, 512}
KclKeyID == 1
KclKeyHash == 2
KclKeyMaterial == 3
KclKeyUsage == 4
KclKeySource == 5
KclDeviceId == 6
KclCustomKeyInfo == 7
KclLastLogon == 8
KclCreation == 9
KclEntryName(t) == CASE t = 1 -> "KeyID" [] t = 2 -> "KeyHash" [] t = 3 -> "KeyMaterial" [] t = 4 -> "KeyUsage" [] t = 5 -> "KeySource"
                     [] t = 6 -> "DeviceId" [] t = 7 -> "CustomKeyInformation" [] t = 8 -> "KeyApproximateLastLogonTimeStamp"
                     [] t = 9 -> "KeyCreationTime" [] OTHER -> "Unknown"

(* ---------------- encoding ---------------- *)
KclEntry(t, v) == LE(Len(v), 2) \o <<t>> \o v
KclEntryList(f) ==                                   \* <<identifier, value>> in increasing identifier order
    << <<KclKeyID, f.id>>, <<KclKeyHash, f.kh>>, <<KclKeyMaterial, f.km>>, <<KclKeyUsage, <<f.usage>>>>,
       <<KclKeySource, <<f.source>>>>, <<KclDeviceId, f.dev>> >>
    \o (IF f.cki = <<>> THEN <<>> ELSE << <<KclCustomKeyInfo, f.cki>> >>)
    \o << <<KclLastLogon, f.last>>, <<KclCreation, f.created>> >>
KclEncodeEntries(es) == Flatten([i \in DOMAIN es |-> KclEntry(es[i][1], es[i][2])])
KclAfterHash(es) == SelectSeq(es, LAMBDA e : e[1] > KclKeyHash)
KclEncode(f) == LE(f.ver, 4) \o KclEncodeEntries(KclEntryList(f))
(* the bytes the KeyHash covers: every entry (header and value) that follows the KeyHash entry *)
KclTailOf(f) == KclEncodeEntries(KclAfterHash(KclEntryList(f)))
(* fill in the two derived entries *)
KclSeal(f) == [f EXCEPT !.id = SHA256(f.km), !.kh = SHA256(KclTailOf(f))]
KclSealed(f) == f.id = SHA256(f.km) /\ f.kh = SHA256(KclTailOf(f))

(* ---------------- decoding ---------------- *)
(* entries as [t, off, len]: off = 0-based offset of the first value byte *)
RECURSIVE KclWalkR(_, _, _)
KclWalkR(b, o, acc) ==
    IF o = Len(b) THEN [ok |-> TRUE, ents |-> acc]
    ELSE IF o + 3 > Len(b) THEN [ok |-> FALSE, ents |-> acc]
    ELSE LET n == b[o + 1] + 256 * b[o + 2] IN
         IF o + 3 + n > Len(b) THEN [ok |-> FALSE, ents |-> acc]
         ELSE KclWalkR(b, o + 3 + n, Append(acc, [t |-> b[o + 3], off |-> o + 3, len |-> n]))
KclWalk(b) == IF Len(b) < 4 THEN [ok |-> FALSE, ents |-> <<>>] ELSE KclWalkR(b, 4, <<>>)
KclTypes(w) == [i \in DOMAIN w.ents |-> w.ents[i].t]
KclIndexOf(w, t) == CHOOSE i \in DOMAIN w.ents : w.ents[i].t = t /\ \A j \in 1..(i - 1) : w.ents[j].t # t
KclHas(w, t) == \E i \in DOMAIN w.ents : w.ents[i].t = t
KclValueOf(b, w, t) == LET e == w.ents[KclIndexOf(w, t)] IN SubSeq(b, e.off + 1, e.off + e.len)
KclOptValue(b, w, t) == IF KclHas(w, t) THEN KclValueOf(b, w, t) ELSE <<>>
KclSorted(w) == \A i \in 1..(Len(w.ents) - 1) : w.ents[i].t < w.ents[i + 1].t
KclMandatory == {KclKeyID, KclKeyHash, KclKeyMaterial, KclKeyUsage, KclKeySource, KclDeviceId, KclLastLogon, KclCreation}
(* a blob of the shape the encoder above produces *)
KclWellFormed(b) ==
    LET w == KclWalk(b) IN
    /\ w.ok /\ KclSorted(w)
    /\ \A t \in KclMandatory : KclHas(w, t)
    /\ \A i \in DOMAIN w.ents : w.ents[i].t \in 1..9
    /\ b[4] < 128
    /\ w.ents[KclIndexOf(w, KclKeyUsage)].len = 1 /\ w.ents[KclIndexOf(w, KclKeySource)].len = 1
    /\ w.ents[KclIndexOf(w, KclDeviceId)].len = 16
    /\ w.ents[KclIndexOf(w, KclLastLogon)].len = 8 /\ w.ents[KclIndexOf(w, KclCreation)].len = 8
KclDecode(b) ==
    LET w == KclWalk(b) IN
    [ver |-> RsaU32(b, 1), id |-> KclValueOf(b, w, KclKeyID), kh |-> KclValueOf(b, w, KclKeyHash),
     km |-> KclValueOf(b, w, KclKeyMaterial), usage |-> KclValueOf(b, w, KclKeyUsage)[1],
     source |-> KclValueOf(b, w, KclKeySource)[1], dev |-> KclValueOf(b, w, KclDeviceId),
     cki |-> KclOptValue(b, w, KclCustomKeyInfo), last |-> KclValueOf(b, w, KclLastLogon),
     created |-> KclValueOf(b, w, KclCreation)]
(* 0-based offset of the first covered byte: the byte after the KeyHash entry *)
KclCoveredStart(b) == LET w == KclWalk(b)  e == w.ents[KclIndexOf(w, KclKeyHash)] IN e.off + e.len
KclCovered(b) == SubSeq(b, KclCoveredStart(b) + 1, Len(b))
KclIntegrity(b) == LET w == KclWalk(b) IN KclValueOf(b, w, KclKeyHash) = SHA256(KclCovered(b))
(* which entry, and which part of it, the byte at 0-based offset o belongs to (o >= 4, b well-formed) *)
KclLocate(b, o) ==
    LET w == KclWalk(b)
        i == CHOOSE j \in DOMAIN w.ents : o >= w.ents[j].off - 3 /\ o < w.ents[j].off + w.ents[j].len
        e == w.ents[i]
    IN [t |-> e.t, part |-> IF o < e.off - 1 THEN "length" ELSE IF o = e.off - 1 THEN "identifier" ELSE "value"]
(* a single-bit corruption: bit k (0 = least significant) of the byte at 0-based offset o *)
KclFlipByte(x, k) == IF (x \div (2 ^ k)) % 2 = 1 THEN x - 2 ^ k ELSE x + 2 ^ k
KclFlip(b, o, k) == [b EXCEPT ![o + 1] = KclFlipByte(b[o + 1], k)]

(* ---------------- 2.2.20.6 CUSTOM_KEY_INFORMATION ---------------- *)
(* Version (1 byte, must be 1), Flags (1 byte) -- and then either nothing (the 2-byte representation) or all of
   VolumeType (1), SupportsNotification (1), FekKeyVersion (1), KeyStrength (4, little-endian), Reserved (10),
   EncodedExtendedCKI (variable, possibly empty).  The representation is inferred from the total size only. *)
CkiShort(flags) == <<1, flags>>
CkiFull(c) == <<1, c.flags, c.vt, c.sn, c.fek>> \o c.strength \o c.reserved \o c.ext
CkiFullMin == 19
CkiClass(v) == IF Len(v) = 2 THEN "short"
               ELSE IF Len(v) >= CkiFullMin THEN "full"
               ELSE IF Len(v) \in {3, 4, 5, 9} THEN "truncated"       \* cut at a field boundary: tolerated by lenient readers, not a 2.2.20.6 representation
               ELSE "illegal"
CkiLegal(v) == Len(v) >= 2 /\ v[1] = 1 /\ CkiClass(v) \in {"short", "full"}
CkiDecode(v) == [flags |-> v[2],
                 vt |-> IF Len(v) >= 3 THEN v[3] ELSE 0, sn |-> IF Len(v) >= 4 THEN v[4] ELSE 0,
                 fek |-> IF Len(v) >= 5 THEN v[5] ELSE 0,
                 strength |-> IF Len(v) >= 9 THEN SubSeq(v, 6, 9) ELSE <<0, 0, 0, 0>>,
                 reserved |-> IF Len(v) >= 19 THEN SubSeq(v, 10, 19) ELSE <<>>,
                 ext |-> IF Len(v) > 19 THEN SubSeq(v, 20, Len(v)) ELSE <<>>]

(* ---------------- known answers ---------------- *)
(* the framing observed in every NGC value written by Windows / DSInternals:
   00020000 | 2000 01 <KeyID> | 2000 02 <KeyHash> | 1B01 03 "RSA1"... | 0100 04 01 | 0100 05 00 | 1000 06 <GUID> | 0200 07 0100 | 0800 08 <t> | 0800 09 <t> *)
KclKatCred == [ver |-> 512, id |-> Rep(17, 32), kh |-> Rep(34, 32),
               km |-> RsaEncode([bits |-> 2048, exp |-> <<1, 0, 1>>, mod |-> Rep(171, 256), p1 |-> <<>>, p2 |-> <<>>], 3),
               usage |-> 1, source |-> 0, dev |-> [i \in 1..16 |-> i], cki |-> CkiShort(0),
               last |-> <<1, 2, 3, 4, 5, 6, 7, 8>>, created |-> <<9, 10, 11, 12, 13, 14, 15, 16>>]
ASSUME LET b == KclEncode(KclKatCred) IN
       /\ SubSeq(b, 1, 7) = <<0, 2, 0, 0, 32, 0, 1>> /\ SubSeq(b, 40, 42) = <<32, 0, 2>>
       /\ SubSeq(b, 75, 81) = <<27, 1, 3, 82, 83, 65, 49>>                               \* 0x011B = 283 = 24 + 3 + 256
       /\ SubSeq(b, 361, Len(b)) = <<1, 0, 4, 1,  1, 0, 5, 0,  16, 0, 6>> \o [i \in 1..16 |-> i] \o <<2, 0, 7, 1, 0>>
                                    \o <<8, 0, 8, 1, 2, 3, 4, 5, 6, 7, 8>> \o <<8, 0, 9, 9, 10, 11, 12, 13, 14, 15, 16>>
       /\ KclWellFormed(b) /\ KclDecode(b) = KclKatCred
       /\ KclCoveredStart(b) = 74 /\ KclCovered(b) = KclTailOf(KclKatCred)
       /\ KclLocate(b, 74) = [t |-> 3, part |-> "length"] /\ KclLocate(b, 76) = [t |-> 3, part |-> "identifier"]
       /\ KclLocate(b, 77) = [t |-> 3, part |-> "value"] /\ KclLocate(b, Len(b) - 1) = [t |-> 9, part |-> "value"]
       /\ KclFlip(b, 0, 0)[1] = 1 /\ KclFlip(b, 1, 1)[2] = 0 /\ KclFlip(KclFlip(b, 9, 7), 9, 7) = b
       /\ ~KclWalk(SubSeq(b, 1, Len(b) - 1)).ok
ASSUME CkiClass(CkiShort(0)) = "short" /\ CkiLegal(<<1, 0>>) /\ ~CkiLegal(<<1>>) /\ ~CkiLegal(<<1, 0, 0>>)
ASSUME LET c == [flags |-> 2, vt |-> 1, sn |-> 1, fek |-> 1, strength |-> <<2, 0, 0, 0>>, reserved |-> Zeros(10), ext |-> <<7, 7>>]
       IN Len(CkiFull(c)) = 21 /\ CkiLegal(CkiFull(c)) /\ CkiDecode(CkiFull(c)) = c
ASSUME PrimKatOK
=============================================================================
