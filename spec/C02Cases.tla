------------------------------ MODULE C02Cases ------------------------------
(***************************************************************************)
(* C02, deterministic part (NTLMv1) as an enumerated case table.           *)
(*   parity    EXHAUSTIVE per 7-bit group: every value 0..127 of each of   *)
(*             the 8 groups of a 56-bit key, on an all-0 and an all-1      *)
(*             background -> the 8-byte DES key (DESKey!ParityExpand)      *)
(*   paritybit the 256 arguments of the exported helper ParityBit (D)      *)
(*   desl      16-byte hashes x challenges -> the three DES keys of DESL   *)
(*   v1pw      passwords -> NTOWFv1 (spec's MD4), its DESL keys, the two   *)
(*             LMOWFv1 keys (7-bit ASCII passwords), challenge             *)
(*   v1kat     [MS-NLMP] 4.2.2 responses (oracle self-check + code)        *)
(* DES itself is a Prim term evaluated by the harness; the specification   *)
(* computes every key and hands over the challenge.                        *)
(***************************************************************************)
EXTENDS NTLM, TLC, Json, FiniteSets

CONSTANTS Seed, Kinds, NRandom, PwLen

VARIABLE c
Emit(r) == PrintT(ToJson(r))

(* 56-bit key whose 7-bit group g (1..8) has value v and whose other bits are all bg (0 or 1) *)
KeyBit(g, v, bg, i) == IF (i - 1) \div 7 = g - 1 THEN (v \div (2 ^ (6 - ((i - 1) % 7)))) % 2 ELSE bg
K7(g, v, bg) == [j \in 1..7 |-> 128 * KeyBit(g, v, bg, 8 * j - 7) + 64 * KeyBit(g, v, bg, 8 * j - 6) + 32 * KeyBit(g, v, bg, 8 * j - 5)
                               + 16 * KeyBit(g, v, bg, 8 * j - 4) + 8 * KeyBit(g, v, bg, 8 * j - 3) + 4 * KeyBit(g, v, bg, 8 * j - 2)
                               + 2 * KeyBit(g, v, bg, 8 * j - 1) + KeyBit(g, v, bg, 8 * j)]
(* sanity of the enumeration itself: group g of ParityExpand(K7(g, v, bg)) carries v in its high seven bits *)
ASSUME \A g \in 1..8, v \in {0, 1, 64, 85, 127}, bg \in {0, 1} :
          /\ ParityExpand(K7(g, v, bg))[g] \div 2 = v
          /\ \A o \in (1..8) \ {g} : ParityExpand(K7(g, v, bg))[o] \div 2 = 127 * bg

Challenges == { Zeros(8), Rep(255, 8), <<1, 35, 69, 103, 137, 171, 205, 239>>, Pattern(Seed + 5, 8) }
Hashes == { Zeros(16), Rep(255, 16), [i \in 1..16 |-> i], [i \in 1..16 |-> 17 * (16 - i)], [i \in 1..16 |-> IF i <= 14 THEN 165 ELSE 0],
            [i \in 1..16 |-> IF i > 14 THEN 255 ELSE 0], [i \in 1..16 |-> IF i = 7 THEN 1 ELSE IF i = 8 THEN 128 ELSE 0],
            [i \in 1..16 |-> IF i = 14 THEN 1 ELSE IF i = 15 THEN 128 ELSE 0] }
          \cup { Pattern(Seed * 13 + i, 16) : i \in 1..NRandom }
          \cup { [i \in 1..16 |-> IF i = ((b \div 8) + 1) THEN 2 ^ (7 - (b % 8)) ELSE 0] : b \in { x \in 0..127 : x % 5 = 0 } }

Alphabet == { 97, 90, 48, 233, 1046, 8364, 65535, 128512 }
AsciiPws == { <<>>, <<97>>, <<80, 97, 115, 115, 119, 111, 114, 100>>, [i \in 1..7 |-> 96 + i], [i \in 1..8 |-> 96 + i],
              [i \in 1..13 |-> 64 + i], [i \in 1..14 |-> 96 + i], [i \in 1..15 |-> 96 + i], [i \in 1..20 |-> 64 + i],
              <<126, 127, 1, 33, 64, 91, 96, 123>>, [i \in 1..14 |-> (i * 9 + Seed) % 128] }
UniPws == SeqsUpTo(Alphabet, PwLen) \cup { [i \in 1..n |-> IF i % 3 = 0 THEN 128512 ELSE 1046] : n \in {5, 27, 28, 29} }
IsAscii(pw) == \A i \in 1..Len(pw) : pw[i] < 128

V1Case(pw, ch) == [k |-> "v1pw", pw |-> pw, chal |-> ch, nt |-> NTOWFv1(pw), ntkeys |-> DESLKeys(NTOWFv1(pw)),
                   lm |-> IsAscii(pw), lmkeys |-> IF IsAscii(pw) THEN LMKeys(pw) ELSE <<>>, magic |-> LMMagic,
                   ntresp |-> <<>>, lmresp |-> <<>>]

Init ==
    \/ /\ "parity" \in Kinds
       /\ \E g \in 1..8, v \in 0..127, bg \in {0, 1} :
            c = <<"parity", g, v, bg>> /\ Emit([k |-> "parity", g |-> g, v |-> v, k7 |-> K7(g, v, bg), k8 |-> ParityExpand(K7(g, v, bg))])
    \/ /\ "parity" \in Kinds
       /\ \E n \in 0..255 :
            c = <<"paritybit", n>> /\ Emit([k |-> "paritybit", n |-> n, bit |-> (Ones(n) + 1) % 2])
    \/ /\ "desl" \in Kinds
       /\ \E hsh \in Hashes, ch \in Challenges :
            c = <<"desl", hsh, ch>> /\ Emit([k |-> "desl", hash |-> hsh, chal |-> ch, keys |-> DESLKeys(hsh)])
    \/ /\ "v1pw" \in Kinds
       /\ \E pw \in AsciiPws \cup UniPws, ch \in {<<1, 35, 69, 103, 137, 171, 205, 239>>, Pattern(Seed + 5, 8)} :
            c = <<"v1pw", pw, ch>> /\ Emit(V1Case(pw, ch))
    \/ /\ "v1pw" \in Kinds
       /\ c = <<"v1kat">>
       /\ Emit([V1Case(KatPw, KatSC) EXCEPT !.k = "v1kat",
                   !.ntresp = <<103, 196, 48, 17, 243, 2, 152, 162, 173, 53, 236, 230, 79, 22, 51, 28, 68, 189, 190, 217, 39, 132, 31, 148>>,   \* 4.2.2.2.1: 67c43011...
                   !.lmresp = <<152, 222, 247, 184, 127, 136, 170, 93, 175, 226, 223, 119, 150, 136, 161, 114, 222, 241, 28, 125, 92, 205, 239, 19>>])      \* 4.2.2.2.2: 98def7b8...
Next == FALSE /\ UNCHANGED c
=============================================================================
