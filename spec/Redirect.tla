------------------------------ MODULE Redirect ------------------------------
(***************************************************************************)
(* Specification growth (G05; drift only): nbtns.RedirectManager, the map  *)
(* scope -> (server address, port) with which an NBNS server redirects     *)
(* name queries of a scope to another name server (RFC 1002 4.2.15         *)
(* REDIRECT NAME QUERY RESPONSE: opcode 0, R = 1, NSCOUNT/ARCOUNT carry    *)
(* the name server and its address; the library emits one additional       *)
(* record whose RDATA is address + port).                                  *)
(*                                                                         *)
(* One action per public method.  Handle(op, resp, hasq, s) is a request   *)
(* with opcode `op`, the response bit `resp`, with or without a question,  *)
(* whose first question name carries scope s.                              *)
(*   redirected  iff  it is a name-query REQUEST (opcode 0, R = 0) with a  *)
(*               question whose scope has a mapping;                       *)
(*   then the response carries exactly one additional record: the name     *)
(*   asked for, and the mapping's address followed by the port, big-endian;*)
(*   otherwise the response is left untouched.                             *)
(* A mapping handed out or used in a response is a value: later Add/Remove *)
(* calls do not change it (the record's RDATA shares no storage with the   *)
(* map) -- checked by re-reading earlier responses after every step.       *)
(***************************************************************************)
EXTENDS Naturals, Sequences, FiniteSets, TLC, Json

CONSTANTS Scopes, Infos, Opcodes, EmitEdges
VARIABLE rmap          \* Scopes -> Infos \cup {"none"}
vars == <<rmap>>

Edge(op, s, i, r) == EmitEdges => PrintT(ToJson([f |-> rmap, op |-> op, s |-> s, i |-> i, r |-> r, to |-> rmap']))
Init == rmap = [s \in Scopes |-> "none"]

Add(s, i) == /\ rmap' = [rmap EXCEPT ![s] = i] /\ Edge("add", s, i, [ok |-> TRUE, info |-> "none"])
Remove(s) == /\ rmap' = [rmap EXCEPT ![s] = "none"] /\ Edge("remove", s, "none", [ok |-> TRUE, info |-> "none"])
Get(s) == /\ UNCHANGED rmap /\ Edge("get", s, "none", [ok |-> rmap[s] # "none", info |-> rmap[s]])

IsQueryRequest(op, resp) == op = 0 /\ ~resp
HandleRes(op, resp, hasq, s) ==
    IF IsQueryRequest(op, resp) /\ hasq /\ rmap[s] # "none" THEN [ok |-> TRUE, info |-> rmap[s]] ELSE [ok |-> FALSE, info |-> "none"]
Handle(op, resp, hasq, s) ==
    /\ UNCHANGED rmap
    /\ Edge("handle", s, [opcode |-> op, resp |-> resp, hasq |-> hasq], HandleRes(op, resp, hasq, s))

Next == \/ \E s \in Scopes, i \in Infos : Add(s, i)
        \/ \E s \in Scopes : Remove(s) \/ Get(s)
        \/ \E s \in Scopes, op \in Opcodes, resp \in BOOLEAN, hasq \in BOOLEAN : Handle(op, resp, hasq, s)
Spec == Init /\ [][Next]_vars

TypeOK == rmap \in [Scopes -> Infos \cup {"none"}]
(* only Add and Remove change the map, and only at their scope *)
Local == [][\A s \in Scopes : rmap'[s] # rmap[s] => \A t \in Scopes \ {s} : rmap'[t] = rmap[t]]_vars
=============================================================================
