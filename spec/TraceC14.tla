------------------------------ MODULE TraceC14 ------------------------------
(***************************************************************************)
(* C14 code -> model.  trace.ndjson: one line per call the recorder made   *)
(* on the real code with random, full-range inputs.                        *)
(*   ser  f = the inputs given to NewKeyCredential, out = ToBytes()        *)
(*   par  in = a blob, g = the fields of a fresh object after FromBytes,   *)
(*        re = its ToBytes(), ok = its CheckIntegrity()                    *)
(*   tam  in = a blob, flips = <<offset, bit>> pairs that were inverted,   *)
(*        ok = whether the corrupted blob was accepted                     *)
(*   dnb  dn, bin, str = ToString(), and what Parse(str) gave back         *)
(* Each line is judged by KeyCredentialLink / RSAKeyBlob / DNBinary: "out  *)
(* is a well-formed blob that DECODES to the inputs, whose KeyID and       *)
(* KeyHash are the SHA-256 the standard prescribes" -- a relation, so any  *)
(* legal encoding is accepted.  A deviating line does not stop the walk;   *)
(* its verdict (first violated clause) is printed.  D-clauses come last.   *)
(* SHA-256 is Prim256 (two phases: the PrimPhase run only collects the     *)
(* messages to hash).                                                      *)
(***************************************************************************)
EXTENDS KeyCredentialLink, DNBinary, TLCExt

VARIABLE l
TraceLog == ndJsonDeserialize("trace.ndjson")
ev == TraceLog[l]

KeyOfKm(km) == RsaDecode(km)
(* the first field in which two decoded credentials differ *)
FirstDiff(a, b) ==
    IF a.ver # b.ver THEN "Version" ELSE IF a.id # b.id THEN "KeyID" ELSE IF a.kh # b.kh THEN "KeyHash"
    ELSE IF a.km # b.km THEN "KeyMaterial" ELSE IF a.usage # b.usage THEN "KeyUsage" ELSE IF a.source # b.source THEN "KeySource"
    ELSE IF a.dev # b.dev THEN "DeviceId" ELSE IF a.cki # b.cki THEN "CustomKeyInformation"
    ELSE IF a.last # b.last THEN "KeyApproximateLastLogonTimeStamp" ELSE IF a.created # b.created THEN "KeyCreationTime" ELSE "none"

SerWhy(e) ==
    LET b == e.out IN
    IF ~KclWellFormed(b) THEN "layout:not-well-formed"
    ELSE LET g == KclDecode(b) IN
         IF g.ver # e.f.ver THEN "layout:Version"
         ELSE IF ~RsaWellFormed(g.km) THEN "layout:KeyMaterial:not-a-BCRYPT_RSAKEY_BLOB"
         ELSE IF KeyOfKm(g.km) # e.f.key THEN "layout:KeyMaterial:value"
         ELSE IF g.usage # e.f.usage THEN "layout:KeyUsage"
         ELSE IF g.source # e.f.source THEN "layout:KeySource"
         ELSE IF g.dev # e.f.dev THEN "layout:DeviceId"
         ELSE IF g.last # e.f.last THEN "layout:KeyApproximateLastLogonTimeStamp"
         ELSE IF g.created # e.f.created THEN "layout:KeyCreationTime"
         ELSE IF g.id # SHA256(g.km) THEN "KeyID-is-not-SHA256-of-KeyMaterial"
         ELSE IF g.kh # SHA256(KclCovered(b)) THEN "KeyHash-is-not-SHA256-of-following-entries"
         ELSE IF g.cki # <<>> /\ ~CkiLegal(g.cki) THEN "CustomKeyInformation:not-a-representation"
         ELSE IF ~RsaIsPublic(e.f.key) /\ SubSeq(g.km, 1, 4) = RsaMagicPublic THEN "D:public-magic-on-private-blob"
         ELSE ""

ParWhy(e) ==
    IF ~KclWellFormed(e.in) THEN ""                       \* nothing to say about parsing what is not a blob (the ser line reports it)
    ELSE LET g == KclDecode(e.in) IN
         IF e.g.ver # g.ver THEN "roundtrip:Version"
         ELSE IF e.g.id # g.id THEN "roundtrip:Identifier"
         ELSE IF e.g.kh # g.kh THEN "roundtrip:KeyHash"
         ELSE IF RsaWellFormed(g.km) /\ e.g.key # KeyOfKm(g.km) THEN "roundtrip:KeyMaterial"
         ELSE IF e.g.usage # g.usage THEN "roundtrip:Usage"
         ELSE IF e.g.source # g.source THEN "roundtrip:Source"
         ELSE IF e.g.dev # g.dev THEN "roundtrip:DeviceId"
         ELSE IF e.g.last # g.last THEN "roundtrip:LastLogonTime"
         ELSE IF e.g.created # g.created THEN "roundtrip:CreationTime"
         ELSE IF e.ok # KclIntegrity(e.in) THEN "integrity"
         ELSE IF e.re # e.in THEN (IF KclWellFormed(e.re) THEN "reserialise:entry=" \o FirstDiff(g, KclDecode(e.re)) ELSE "reserialise:not-well-formed")
         ELSE ""

TamWhy(e) ==
    IF ~KclWellFormed(e.in) THEN ""
    ELSE LET from == KclCoveredStart(e.in)
             hit == \E i \in DOMAIN e.flips : e.flips[i][1] >= from
         IN IF hit /\ e.ok THEN "tamper-accepted" ELSE ""
TamWhere(e) == LET from == KclCoveredStart(e.in)
                   i == CHOOSE j \in DOMAIN e.flips : e.flips[j][1] >= from
                   loc == KclLocate(e.in, e.flips[i][1])
               IN KclEntryName(loc.t) \o ":" \o loc.part

DnbWhy(e) ==
    IF ~DnbWellFormed(e.str) THEN "form"
    ELSE IF DnbDecode(e.str) # [bin |-> e.bin, dn |-> e.dn] THEN "form"
    ELSE IF e.err \/ e.bdn # e.dn \/ e.bbin # e.bin THEN "roundtrip"
    ELSE ""

Requests(e) ==          \* PrimPhase: evaluate every SHA-256 term the judgement of this line can need
    CASE e.op = "ser" -> IF KclWellFormed(e.out) THEN SHA256(KclDecode(e.out).km) = SHA256(KclCovered(e.out)) \/ TRUE ELSE TRUE
      [] e.op = "par" -> IF KclWellFormed(e.in) THEN SHA256(KclCovered(e.in)) = PrimZero32 \/ TRUE ELSE TRUE
      [] OTHER -> TRUE

Report(why, extra) == IF why = "" THEN TRUE ELSE PrintT(ToJson([i |-> l, op |-> ev.op, why |-> why, extra |-> extra]))
Judge ==
    IF PrimPhase THEN Requests(ev)
    ELSE CASE ev.op = "reset" -> TRUE
           [] ev.op = "ser" -> Report(SerWhy(ev), "")
           [] ev.op = "par" -> Report(ParWhy(ev), "")
           [] ev.op = "tam" -> LET w == TamWhy(ev) IN Report(w, IF w = "" THEN "" ELSE TamWhere(ev))
           [] ev.op = "dnb" -> Report(DnbWhy(ev), IF \E i \in DOMAIN ev.dn : ev.dn[i] = DnbColon THEN "dn-contains-colon" ELSE "")
           [] OTHER -> FALSE

Init == l = 1
Step == l <= Len(TraceLog) /\ Judge /\ l' = l + 1
TraceSpec == Init /\ [][Step]_l
TraceAccepted == TLCGet("stats").diameter - 1 = Len(TraceLog)
=============================================================================
