------------------------------- MODULE PKCS7 -------------------------------
(* PKCS#7 / CMS padding, written from RFC 5652 section 6.3: "pad the input at the trailing end with
   k - (lth mod k) octets all having value k - (lth mod k), where lth is the length of the input" -- for any
   block size k < 256.  Input that is already a multiple of k gets a whole block of padding, so the padding
   is always removable: the last octet says how many octets to drop. *)
EXTENDS Integers, Sequences, Bytes

PKCS7PadLen(n, b) == b - (n % b)
PKCS7Pad(m, b) == m \o Rep(PKCS7PadLen(Len(m), b), PKCS7PadLen(Len(m), b))

(* "validly PKCS#7-padded" = in the image of Pad for some block size 1..255 (definition) *)
PKCS7IsPadded(buf) ==
    \E b \in 1..(IF Len(buf) < 255 THEN Len(buf) ELSE 255), k \in 0..(Len(buf) - 1) :
        Len(buf) % b = 0 /\ buf = PKCS7Pad(SubSeq(buf, 1, k), b)

(* the decision procedure a remover can run without knowing the block size: last octet p, 1 <= p <= length,
   and the last p octets all equal p *)
PKCS7WellFormed(buf) ==
    /\ Len(buf) > 0
    /\ LET p == buf[Len(buf)] IN p >= 1 /\ p <= Len(buf) /\ \A i \in (Len(buf) - p + 1)..Len(buf) : buf[i] = p
PKCS7Unpad(buf) == SubSeq(buf, 1, Len(buf) - buf[Len(buf)])

(* the two notions coincide on every buffer of up to 255 octets (where the whole buffer can be one block);
   checked here exhaustively on a small domain, and again by C12Cases on every enumerated buffer *)
ASSUME \A n \in 0..4 : \A buf \in [1..n -> {0, 1, 2, 4}] : PKCS7IsPadded(buf) <=> PKCS7WellFormed(buf)
(* removable: unpad(pad(m, b)) = m, pad length in 1..b, padded length a multiple of b *)
ASSUME \A b \in {1, 2, 3, 8, 16, 255}, n \in {0, 1, 2, 7, 8, 15, 16, 17, 254, 255, 256} :
          LET m == [i \in 1..n |-> (i * 37) % 256]  p == PKCS7Pad(m, b)
          IN Len(p) % b = 0 /\ Len(p) - n \in 1..b /\ PKCS7WellFormed(p) /\ PKCS7Unpad(p) = m
(* RFC 5652 arithmetic on the classic 16-byte case *)
ASSUME PKCS7Pad(<<222, 173, 190>>, 16) = <<222, 173, 190>> \o Rep(13, 13)
ASSUME PKCS7Pad(Zeros(16), 16) = Zeros(16) \o Rep(16, 16)
=============================================================================
