--------------------------- MODULE TraceNameTable ---------------------------
(***************************************************************************)
(* Trace validation (code -> model) for C17.  trace.ndjson holds, in       *)
(* lock-acquisition order, one line per call made by concurrently running  *)
(* goroutines against ONE real name table: the operation, its arguments,   *)
(* the value the caller got back, and the whole projected table captured   *)
(* under the lock.  Every line must be a step of NameTable!Next with that  *)
(* result and that post-state; NameTable's invariants are evaluated in     *)
(* every state.  Many recorded traces are concatenated; a "reset" line     *)
(* starts a fresh table.                                                   *)
(***************************************************************************)
EXTENDS NameTable, TLCExt

VARIABLE l
TraceLog == ndJsonDeserialize("trace.ndjson")

tvars == <<tab, regd, snaps, l>>

TraceInit == Init /\ l = 1

ev == TraceLog[l]

Bind(r) == /\ ev.r = r
           /\ tab' = ev.st

TraceStep ==
    /\ l <= Len(TraceLog)
    /\ l' = l + 1
    /\ CASE ev.op = "reset"    -> /\ tab' = [n \in Names |-> NoRec]
                                  /\ regd' = [n \in Names |-> {}]
                                  /\ snaps' = {}
         [] ev.op = "register" -> Register(ev.n, ev.t, ev.a, ev.e) /\ Bind(RegisterRes(ev.n, ev.t, ev.a))
         [] ev.op = "query"    -> Query(ev.n) /\ Bind(QueryRes(ev.n))
         [] ev.op = "release"  -> Release(ev.n, ev.a) /\ Bind(ReleaseRes(ev.n, ev.a))
         [] ev.op = "refresh"  -> Refresh(ev.n, ev.a) /\ Bind(RefreshRes(ev.n, ev.a))
         [] ev.op = "conflict" -> MarkConflict(ev.n) /\ Bind(ConflictRes(ev.n))
         [] ev.op = "clean"    -> Clean /\ Bind(Ok)
         [] OTHER -> FALSE

TraceSpec == TraceInit /\ [][TraceStep]_tvars

TraceAccepted == TLCGet("stats").diameter - 1 = Len(TraceLog)
=============================================================================
