--------------------------- MODULE NameTableConc ---------------------------
(***************************************************************************)
(* The name table under concurrency (C17, "behaves like an atomic map"):   *)
(* G goroutines each run a small program of table calls.  A call is three  *)
(* steps, as in nbtns.go: acquire the table lock, the critical section     *)
(* (one action of NameTable applied atomically), release and return.       *)
(* The deviation Unlocked(op) models a method whose read and write are two *)
(* separate steps without the lock (a removed mu.Lock or a read lock taken *)
(* by a writer): check-then-act races become reachable.                    *)
(*                                                                         *)
(* Property: whatever the interleaving, the values returned are those of   *)
(* the calls executed one after the other in lock order, and NameTable's   *)
(* invariants hold in every state -- in particular a unique name is never  *)
(* held by two registrants (HeldByOne uses the RESULT-based history regd). *)
(***************************************************************************)
EXTENDS NameTable

CONSTANTS Progs,          \* sequence (one per goroutine) of sequences of calls [op, n, t, a, e]
          UnlockedRegister \* deviation: Register checks existence and inserts in two unlocked steps

VARIABLES pc,     \* goroutine -> index of the current call
          phase,  \* goroutine -> "idle" | "locked" | "checked" (deviation only)
          lock    \* 0 = free, else the goroutine holding it

cvars == <<tab, regd, snaps, pc, phase, lock>>
Gs == DOMAIN Progs
Call(g) == Progs[g][pc[g]]

CInit == Init /\ pc = [g \in Gs |-> 1] /\ phase = [g \in Gs |-> "idle"] /\ lock = 0

Acquire(g) ==
    /\ pc[g] <= Len(Progs[g]) /\ phase[g] = "idle" /\ lock = 0
    /\ ~(UnlockedRegister /\ Call(g).op = "register")
    /\ lock' = g /\ phase' = [phase EXCEPT ![g] = "locked"]
    /\ UNCHANGED <<tab, regd, snaps, pc>>

Critical(g) ==
    /\ phase[g] = "locked" /\ lock = g
    /\ LET c == Call(g) IN
         CASE c.op = "register" -> Register(c.n, c.t, c.a, c.e)
           [] c.op = "query" -> Query(c.n)
           [] c.op = "release" -> Release(c.n, c.a)
           [] c.op = "refresh" -> Refresh(c.n, c.a)
           [] c.op = "conflict" -> MarkConflict(c.n)
           [] OTHER -> Clean
    /\ lock' = 0 /\ phase' = [phase EXCEPT ![g] = "idle"] /\ pc' = [pc EXCEPT ![g] = @ + 1]

(* the deviation: existence check and insertion are separate, unlocked steps *)
UCheck(g) ==
    /\ UnlockedRegister /\ pc[g] <= Len(Progs[g]) /\ phase[g] = "idle" /\ Call(g).op = "register"
    /\ IF RegisterRes(Call(g).n, Call(g).t, Call(g).a).err
         THEN /\ pc' = [pc EXCEPT ![g] = @ + 1] /\ UNCHANGED phase       \* conflict reported
         ELSE /\ phase' = [phase EXCEPT ![g] = "checked"] /\ UNCHANGED pc
    /\ UNCHANGED <<tab, regd, snaps, lock>>
UAct(g) ==
    /\ phase[g] = "checked"
    /\ LET c == Call(g) IN
         /\ tab' = [tab EXCEPT ![c.n] = NewRec(c.t, c.a, c.e)]             \* inserts what it decided on stale knowledge
         /\ regd' = [regd EXCEPT ![c.n] = IF tab[c.n].p THEN @ \cup {c.a} ELSE {c.a}]
    /\ phase' = [phase EXCEPT ![g] = "idle"] /\ pc' = [pc EXCEPT ![g] = @ + 1]
    /\ UNCHANGED <<snaps, lock>>

CNext == \E g \in Gs : Acquire(g) \/ Critical(g) \/ UCheck(g) \/ UAct(g)
CSpec == CInit /\ [][CNext]_cvars

MutualExclusion == \A g \in Gs : phase[g] = "locked" => lock = g
CInv == Inv /\ MutualExclusion
=============================================================================
