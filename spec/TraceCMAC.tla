----------------------------- MODULE TraceCMAC -----------------------------
(* Trace validation (code -> model) for crypto/cmac over REAL block ciphers (AES-128/192/256, DES, 3DES).
   The harness wraps the real cipher.Block in a recorder, so every line carries, besides the call made on
   the hash.Hash -- new(b), write(data), sum(in) -> out, hreset -- the list "enc" of <<input, output>> pairs of
   every Encrypt the library performed during that call.

   The specification treats the cipher as the function E given by the log (all pairs seen on this object so
   far) and recomputes subkeys, chaining and tag from SP 800-38B with that E.  A tag is accepted only if it is
   what the standard yields from the WHOLE message written since new/hreset; an application of E that the
   standard needs but the library never made has no image in the table and rejects the trace.
   "reset" starts the next recorded trace. *)
EXTENDS CMAC, TLCExt, Json

VARIABLES bsz, emap, msg, l
tvars == <<bsz, emap, msg, l>>
TraceLog == ndJsonDeserialize("trace.ndjson")
ev == TraceLog[l]

Empty == [x \in {} |-> <<>>]
(* the logged pairs of this event, as a function; a deterministic cipher never maps one input to two outputs *)
Pairs(e) == [x \in {e[n][1] : n \in 1..Len(e)} |-> (CHOOSE n \in 1..Len(e) : e[n][1] = x)]
Consistent(e) == /\ \A n, q \in 1..Len(e) : e[n][1] = e[q][1] => e[n][2] = e[q][2]
                 /\ \A n \in 1..Len(e) : e[n][1] \in DOMAIN emap => emap[e[n][1]] = e[n][2]
Learn(e) == [x \in (DOMAIN emap) \cup {e[n][1] : n \in 1..Len(e)} |->
                IF x \in DOMAIN emap THEN emap[x] ELSE e[Pairs(e)[x]][2]]

Init == bsz = 0 /\ emap = Empty /\ msg = <<>> /\ l = 1

Step ==
    /\ l <= Len(TraceLog)
    /\ l' = l + 1
    /\ CASE ev.op = "reset"  -> bsz' = 0 /\ emap' = Empty /\ msg' = <<>>
         [] ev.op = "new"    -> /\ ev.b \in {8, 16}
                                /\ bsz' = ev.b /\ msg' = <<>>
                                /\ emap' = [x \in {ev.enc[n][1] : n \in 1..Len(ev.enc)} |-> ev.enc[Pairs(ev.enc)[x]][2]]
         [] ev.op = "write"  -> /\ Consistent(ev.enc)
                                /\ emap' = Learn(ev.enc)
                                /\ msg' = msg \o ev.data
                                /\ bsz' = bsz
         [] ev.op = "hreset" -> /\ Consistent(ev.enc)
                                /\ emap' = Learn(ev.enc)
                                /\ msg' = <<>>                                  \* P: Reset starts a new message
                                /\ bsz' = bsz
         [] ev.op = "sum"    -> /\ Consistent(ev.enc)
                                /\ emap' = Learn(ev.enc)
                                /\ CMACDefinedOn(emap', bsz, msg)               \* the library applied E wherever the standard does
                                /\ LET E(x) == CMACTableE(emap', x)
                                   IN ev.out = ev.inp \o CMACTag(E, bsz, msg)  \* P: in || CMAC(whole message since new/reset)
                                /\ UNCHANGED <<msg, bsz>>                       \* P: Sum is a pure read
         [] OTHER -> FALSE

TraceSpec == Init /\ [][Step]_tvars
TraceAccepted == TLCGet("stats").diameter - 1 = Len(TraceLog)
=============================================================================
