------------------------------ MODULE TraceMD4 ------------------------------
(* Trace validation (code -> model) for the streaming MD4 object: each line is a call made on one real
   md4.MD4 -- write(bytes) or sum -> digest.  The specification carries the concrete mirror
   (chaining value, unprocessed tail, length) and recomputes every digest the code reported.
   ext(d, q, r, x) -> out: the code reported d for a long message P and out for P \o pad(P) \o x, whose length before x is
   q * 2^20 + r; out must follow from d (MD4Extend). *)
EXTENDS MD4, TLC, TLCExt, Json

VARIABLES hs, buf, n, l
TraceLog == ndJsonDeserialize("trace.ndjson")
ev == TraceLog[l]

Init == hs = MD4Init /\ buf = <<>> /\ n = 0 /\ l = 1

Step ==
    /\ l <= Len(TraceLog)
    /\ l' = l + 1
    /\ CASE ev.op = "reset" -> hs' = MD4Init /\ buf' = <<>> /\ n' = 0
         [] ev.op = "write" -> LET all == buf \o ev.b IN
                                 /\ hs' = MD4Absorb(hs, all)
                                 /\ buf' = SubSeq(all, Len(all) - (Len(all) % 64) + 1, Len(all))
                                 /\ n' = n + Len(ev.b)
         [] ev.op = "sum"   -> /\ ev.d = MD4Finalize(hs, buf, n)      \* P: digest of everything written so far
                               /\ UNCHANGED <<hs, buf, n>>          \* P: reading does not change the state
         [] ev.op = "ext"   -> /\ ev.out = MD4Extend(ev.d, ev.q, ev.r, ev.x)   \* P: long messages, through the chaining value (MD4.tla)
                               /\ UNCHANGED <<hs, buf, n>>
         [] OTHER -> FALSE

TraceSpec == Init /\ [][Step]_<<hs, buf, n, l>>
TraceAccepted == TLCGet("stats").diameter - 1 = Len(TraceLog)
=============================================================================
