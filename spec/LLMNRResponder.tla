--------------------------- MODULE LLMNRResponder ---------------------------
(***************************************************************************)
(* Specification growth (G06; drift only): what an LLMNR responder built   *)
(* on llmnr.Server does with ONE received datagram (RFC 4795 2.1.1, 2.4    *)
(* and the library's handler-chain contract of handler.go):                *)
(*                                                                         *)
(*   filter   a datagram reaches the handlers iff it decodes, is a query   *)
(*            (QR = 0) and has OPCODE 0 ("queries with unsupported OPCODE  *)
(*            values MUST be silently discarded by responders");           *)
(*   chain    the registered handlers run in registration order on the     *)
(*            same message; the chain ends after the first handler that    *)
(*            returns FALSE;                                               *)
(*   reply    each reply a handler writes goes to the sender of the query, *)
(*            carries the query's ID, has QR = 1 and repeats the question  *)
(*            section of the query (RFC 4795 2.1.1).                       *)
(*                                                                         *)
(* Header flag word (RFC 4795 2.1.1, bit 15 = QR):                         *)
(*   QR 0x8000 | OPCODE 0x7800 | C 0x0400 | TC 0x0200 | T 0x0100 | RCODE 0xF*)
(***************************************************************************)
EXTENDS Naturals, Sequences, TLC, Json

LRQR == 32768
LROpcodeUnit == 2048
LRC == 1024
LRTC == 512
LRT == 256

LRBit(w, b) == (w \div b) % 2 = 1
LROpcode(w) == (w \div LROpcodeUnit) % 16
LRIsQuery(w) == ~LRBit(w, LRQR)
LRDispatched(kind, w) == kind = "msg" /\ LRIsQuery(w) /\ LROpcode(w) = 0

(* a handler is [cont |-> BOOLEAN, ans |-> BOOLEAN]: returns cont; writes one reply iff ans *)
RECURSIVE LRRun(_, _)
LRRun(hs, k) ==                      \* indices of the handlers that run, in order
    IF k > Len(hs) THEN <<>>
    ELSE IF hs[k].cont THEN <<k>> \o LRRun(hs, k + 1) ELSE <<k>>
LRReplies(hs) == SelectSeq(LRRun(hs, 1), LAMBDA k : hs[k].ans)

HandlerKinds == {[cont |-> c, ans |-> a] : c \in BOOLEAN, a \in BOOLEAN}
ChainsUpTo(n) == UNION {[1..m -> HandlerKinds] : m \in 0..n}
ShortChains == {<<>>, <<[cont |-> TRUE, ans |-> TRUE]>>, <<[cont |-> TRUE, ans |-> TRUE], [cont |-> FALSE, ans |-> TRUE]>>}

(* the datagrams: a plain query, queries with each header bit, a non-zero opcode, a response, and bytes that do not decode *)
Datagrams ==
    {[kind |-> "msg", flags |-> 0, name |-> "plain"],
     [kind |-> "msg", flags |-> LRC, name |-> "C"], [kind |-> "msg", flags |-> LRTC, name |-> "TC"],
     [kind |-> "msg", flags |-> LRT, name |-> "T"],
     [kind |-> "msg", flags |-> LROpcodeUnit, name |-> "opcode1"], [kind |-> "msg", flags |-> 8 * LROpcodeUnit, name |-> "opcode8"],
     [kind |-> "msg", flags |-> LRQR, name |-> "response"],
     [kind |-> "garbage", flags |-> 0, name |-> "garbage"]}

Cases == {<<d, hs>> : d \in {x \in Datagrams : x.name = "plain"}, hs \in ChainsUpTo(3)}
         \cup {<<d, hs>> : d \in {x \in Datagrams : x.name # "plain"}, hs \in ShortChains}

ASSUME /\ LRRun(<<[cont |-> TRUE, ans |-> FALSE], [cont |-> FALSE, ans |-> TRUE], [cont |-> TRUE, ans |-> TRUE]>>, 1) = <<1, 2>>
       /\ LRReplies(<<[cont |-> TRUE, ans |-> FALSE], [cont |-> FALSE, ans |-> TRUE], [cont |-> TRUE, ans |-> TRUE]>>) = <<2>>
       /\ LRRun(<<>>, 1) = <<>>
       /\ LROpcode(LROpcodeUnit) = 1 /\ LROpcode(LRQR + LRC) = 0 /\ ~LRIsQuery(LRQR) /\ LRIsQuery(LRC + LRTC + LRT)
       /\ LRDispatched("msg", LRC) /\ ~LRDispatched("msg", LROpcodeUnit) /\ ~LRDispatched("garbage", 0)

VARIABLE c
Init == \E x \in Cases :
          /\ c = x
          /\ LET d == x[1] hs == x[2] disp == LRDispatched(d.kind, d.flags) IN
             PrintT(ToJson([kind |-> d.kind, flags |-> d.flags, name |-> d.name, chain |-> hs,
                            dispatched |-> disp,
                            run |-> IF disp THEN LRRun(hs, 1) ELSE <<>>,
                            replies |-> IF disp THEN LRReplies(hs) ELSE <<>>]))
Next == FALSE /\ UNCHANGED c
=============================================================================
