------------------------------ MODULE DNSName ------------------------------
(***************************************************************************)
(* Domain names on the wire, written from RFC 1035 (sections 2.3.4, 3.1    *)
(* and 4.1.4), which RFC 4795 (LLMNR) and RFC 1002 (NBNS) both reference.  *)
(*                                                                         *)
(*   abstract name  = sequence of labels, a label = 1..63 octets; the root *)
(*                    is the empty sequence;  wire length = sum(1+|label|) *)
(*                    + 1 <= 255 octets (2.3.4)                            *)
(*   3.1   a name is a sequence of <length octet, that many octets>,       *)
(*         terminated by the zero length octet of the root                 *)
(*   4.1.4 the two high bits of a length octet select the form: 00 label,  *)
(*         11 pointer (14-bit OFFSET from the start of the message, "a     *)
(*         pointer to a PRIOR OCCURANCE of the same name"), 10 / 01        *)
(*         reserved.  A name is a sequence of labels ending in a zero      *)
(*         octet, a pointer, or a sequence of labels ending with a pointer *)
(*                                                                         *)
(* "Prior occurrence" is formalised as: a pointer met while reading the    *)
(* label run that starts at offset s must have OFFSET < s, and reading     *)
(* continues with the run that starts at OFFSET.  Offsets of successive    *)
(* runs strictly decrease, so DNSDecName terminates on every input.        *)
(*                                                                         *)
(* Offsets are 0-based (as in the RFC); byte strings are 1-based sequences.*)
(***************************************************************************)
EXTENDS Integers, Sequences, FiniteSets, Bytes, TLC

DNSLabelOK(l) == Len(l) >= 1 /\ Len(l) <= 63 /\ \A i \in 1..Len(l) : l[i] \in Byte
RECURSIVE DNSWireLen(_)
DNSWireLen(n) == IF n = <<>> THEN 1 ELSE 1 + Len(Head(n)) + DNSWireLen(Tail(n))
DNSNameOK(n) == (\A i \in 1..Len(n) : DNSLabelOK(n[i])) /\ DNSWireLen(n) <= 255
(* names the dotted text form can express: no label contains '.' *)
DNSTextOK(n) == \A i \in 1..Len(n) : \A j \in 1..Len(n[i]) : n[i][j] # 46

(* ---- 3.1: uncompressed encoding ---- *)
RECURSIVE DNSEncName(_)
DNSEncName(n) == IF n = <<>> THEN <<0>> ELSE <<Len(Head(n))>> \o Head(n) \o DNSEncName(Tail(n))

(* ---- 4.1.4: encoding with compression ----
   dict maps a (non-root) name suffix to the offset of an earlier occurrence; only offsets
   that fit the 14-bit OFFSET field may be pointed to.  Writing name n at offset off returns
   the bytes and the enlarged dictionary.  The longest known suffix is replaced by a pointer. *)
DNSPtr(t) == <<192 + (t \div 256), t % 256>>
RECURSIVE DNSEncNameC(_, _, _)
DNSEncNameC(n, off, dict) ==
    IF n = <<>> THEN [bytes |-> <<0>>, dict |-> dict]
    ELSE IF n \in DOMAIN dict THEN [bytes |-> DNSPtr(dict[n]), dict |-> dict]
    ELSE LET rest == DNSEncNameC(Tail(n), off + 1 + Len(Head(n)), dict)
         IN [bytes |-> <<Len(Head(n))>> \o Head(n) \o rest.bytes,
             dict  |-> IF off < 16384 THEN (n :> off) @@ rest.dict ELSE rest.dict]

(* ---- decoding ----
   Result: [ok, why, name, end, ptrs]
     ok    the bytes at off are a name
     why   "" | "truncated" | "nonbackward" | "reserved" | "toolong"
     name  the labels
     end   offset of the first octet after the name AS IT APPEARS AT off (after the first pointer, if any)
     ptrs  the OFFSETs of the pointers that were followed, in order                                    *)
DNSBad(why) == [ok |-> FALSE, why |-> why, name |-> <<>>, end |-> 0, ptrs |-> <<>>]
RECURSIVE DNSWalk(_, _, _, _, _, _)
DNSWalk(data, pos, start, acc, wl, ptrs) ==
    IF pos >= Len(data) THEN DNSBad("truncated")
    ELSE LET b == data[pos + 1] IN
      IF b = 0 THEN [ok |-> TRUE, why |-> "", name |-> acc, end |-> pos + 1, ptrs |-> ptrs]
      ELSE IF b >= 192 THEN
          IF pos + 1 >= Len(data) THEN DNSBad("truncated")
          ELSE LET t == (b - 192) * 256 + data[pos + 2] IN
               IF t >= start THEN DNSBad("nonbackward")
               ELSE LET r == DNSWalk(data, t, t, acc, wl, Append(ptrs, t))
                    IN IF r.ok THEN [r EXCEPT !.end = pos + 2] ELSE r
      ELSE IF b >= 64 THEN DNSBad("reserved")
      ELSE IF pos + 1 + b > Len(data) THEN DNSBad("truncated")
      ELSE IF wl + 1 + b > 255 THEN DNSBad("toolong")
      ELSE DNSWalk(data, pos + 1 + b, start, Append(acc, SubSeq(data, pos + 2, pos + 1 + b)), wl + 1 + b, ptrs)
DNSDecName(data, off) == DNSWalk(data, off, off, <<>>, 1, <<>>)

(* ---- dotted text (the form the libraries' APIs use): labels joined by '.', root = "" ---- *)
RECURSIVE DNSText(_)
DNSText(n) == IF n = <<>> THEN <<>> ELSE IF Len(n) = 1 THEN n[1] ELSE n[1] \o <<46>> \o DNSText(Tail(n))

(* ---- known answers ---- *)
DNSkF == <<70>>  DNSkISI == <<73, 83, 73>>  DNSkARPA == <<65, 82, 80, 65>>  DNSkFOO == <<70, 79, 79>>
(* RFC 1035 4.1.4 figure: F.ISI.ARPA at 20, FOO.F.ISI.ARPA at 40 (FOO + pointer to 20), ARPA at 64 (pointer to 26), root at 92 *)
DNSFigure == Zeros(20) \o <<1, 70, 3, 73, 83, 73, 4, 65, 82, 80, 65, 0>> \o Zeros(8)
             \o <<3, 70, 79, 79, 192, 20>> \o Zeros(18) \o <<192, 26>> \o Zeros(26) \o <<0>>
ASSUME DNSKnownAnswers ==
    /\ Len(DNSFigure) = 93
    /\ DNSEncName(<<DNSkF, DNSkISI, DNSkARPA>>) = SubSeq(DNSFigure, 21, 32)
    /\ DNSDecName(DNSFigure, 20) = [ok |-> TRUE, why |-> "", name |-> <<DNSkF, DNSkISI, DNSkARPA>>, end |-> 32, ptrs |-> <<>>]
    /\ DNSDecName(DNSFigure, 40) = [ok |-> TRUE, why |-> "", name |-> <<DNSkFOO, DNSkF, DNSkISI, DNSkARPA>>, end |-> 46, ptrs |-> <<20>>]
    /\ DNSDecName(DNSFigure, 64) = [ok |-> TRUE, why |-> "", name |-> <<DNSkARPA>>, end |-> 66, ptrs |-> <<26>>]
    /\ DNSDecName(DNSFigure, 92) = [ok |-> TRUE, why |-> "", name |-> <<>>, end |-> 93, ptrs |-> <<>>]
    (* the compressing encoder reproduces the figure's three encodings *)
    /\ LET a == DNSEncNameC(<<DNSkF, DNSkISI, DNSkARPA>>, 20, <<>>)
           b == DNSEncNameC(<<DNSkFOO, DNSkF, DNSkISI, DNSkARPA>>, 40, a.dict)
           c == DNSEncNameC(<<DNSkARPA>>, 64, b.dict)
       IN /\ a.bytes = SubSeq(DNSFigure, 21, 32) /\ b.bytes = <<3, 70, 79, 79, 192, 20>> /\ c.bytes = <<192, 26>>
    (* pointers that are not strictly backwards, reserved label types, truncation, over-long names *)
    /\ DNSDecName(<<192, 0>>, 0).why = "nonbackward"                       \* self
    /\ DNSDecName(<<1, 97, 192, 0>>, 0).why = "nonbackward"                \* back into the name being read
    /\ DNSDecName(<<192, 2, 0>>, 0).why = "nonbackward"                    \* forward
    /\ DNSDecName(<<0, 192, 3, 192, 1>>, 3).why = "nonbackward"            \* chain: 3 -> 1 -> 3
    /\ DNSDecName(<<0, 192, 0, 192, 1>>, 3).name = <<>>                    \* chain: 3 -> 1 -> 0
    /\ DNSDecName(<<64, 0>>, 0).why = "reserved" /\ DNSDecName(<<128, 0>>, 0).why = "reserved"
    /\ DNSDecName(<<2, 97>>, 0).why = "truncated" /\ DNSDecName(<<1, 97>>, 0).why = "truncated"
    /\ DNSDecName(<<192>>, 0).why = "truncated"
    /\ DNSNameOK(<<Rep(1, 63), Rep(2, 63), Rep(3, 63), Rep(4, 61)>>) /\ ~DNSNameOK(<<Rep(1, 63), Rep(2, 63), Rep(3, 63), Rep(4, 62)>>)
    /\ DNSDecName(DNSEncName(<<Rep(1, 63), Rep(2, 63), Rep(3, 63), Rep(4, 62)>>), 0).why = "toolong"
    /\ DNSText(<<DNSkF, DNSkISI>>) = <<70, 46, 73, 83, 73>> /\ DNSText(<<>>) = <<>>
=============================================================================
