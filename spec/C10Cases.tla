------------------------------ MODULE C10Cases ------------------------------
(***************************************************************************)
(* C10 case table (model -> code).                                         *)
(*  "pos"    first-level encoding, exhaustive per position: the 16-octet   *)
(*           name ABCDEFGHIJKLMNOP with position p (1..16) set to every    *)
(*           octet value v (0..255): 4 096 names                           *)
(*  "len"    names of every length 0..16 (two contents) x scope variants   *)
(*  "scope"  scope identifiers: every letter as first character, every     *)
(*           letter/digit/hyphen inside, every label length 1..63, 1..4    *)
(*           labels, the longest scope that fits a 255-octet name          *)
(*  "pkt"    packets: every section shape 0..NS entries in each of the     *)
(*           four sections x NV fillings (names with and without scope     *)
(*           from a pool, boundary header words / types / classes / TTLs / *)
(*           RDATA lengths): RFC 1002 wire image, and the image with label *)
(*           string pointers                                               *)
(*  "big"    RDATA of BigLens octets                                       *)
(* For every case the expectation is computed by NetBIOSName / NBNSPacket. *)
(***************************************************************************)
EXTENDS NBNSPacket, Json

CONSTANTS Seed, Kinds, NS, NV, BigLens

VARIABLE c
Emit(r) == PrintT(ToJson(r))

Base == [i \in 1..16 |-> 64 + i]                       \* ABCDEFGHIJKLMNOP
Bin == [i \in 1..16 |-> Pattern(Seed, 16)[i]]          \* seeded octets
Lower(n) == [i \in 1..n |-> 97 + ((i + Seed) % 26)]
ScA == <<<<97>>>>
ScCorp == << <<99, 111, 114, 112>>, <<101, 120, 97, 109, 112, 108, 101>> >>
Sc63 == <<Lower(63)>>
ScMax == <<Lower(63), Lower(63), Lower(63), Lower(27)>>     \* 34 + 3*64 + 28 + 1 = 255 octets on the wire
LenScopes == {<<>>, ScA, ScCorp, Sc63, ScMax}
Letters == (65..90) \cup (97..122)
Inner == Letters \cup (48..57) \cup {45}
Scopes == { <<<<ch>>>> : ch \in Letters } \cup { <<<<97, ch, 98>>>> : ch \in Inner } \cup { <<<<97, ch>>>> : ch \in 48..57 }
       \cup { <<Lower(n)>> : n \in 1..63 } \cup { [i \in 1..k |-> Lower(i + 2)] : k \in 1..4 } \cup LenScopes

NameCase(kind, key, n) ==
    /\ c = <<kind, key>>
    /\ Assert(NBNameOK(n), <<"name outside the domain", n>>)
    /\ Assert(NBFromText(NBFirstLevelText(n)).ok /\ NBSame(NBFromText(NBFirstLevelText(n)).n, n), "first-level law")
    /\ Emit([k |-> kind, key |-> key, nb |-> n.nb, sc |-> n.sc, text |-> NBFirstLevelText(n),
             back |-> NBFromText(NBFirstLevelText(n)).n.nb,            \* the name with trailing spaces trimmed
             wire |-> NBNSName2(n),
             star |-> (n.nb # <<>> /\ n.nb[1] = 42)])                  \* RFC 1001 5.2: a NetBIOS name does not begin with '*'

(* ---- packets ---- *)
BinP == [Bin EXCEPT ![1] = IF @ = 42 THEN 43 ELSE @]       \* packets hold names RFC 1001 5.2 allows (no leading '*')
NbPool == << <<70, 82, 69, 68>>, Base, <<>>, SubSeq(BinP, 1, 15) \o <<0>>, <<87, 79, 82, 75, 71, 82, 79, 85, 80, 32, 32, 32, 32, 32, 32, 30>>,
             <<1, 2, 95, 95, 77, 83, 66, 82, 79, 87, 83, 69, 95, 95, 2, 1>>, <<97>>, SubSeq(BinP, 1, 7) >>
ScPool == << <<>>, <<>>, ScCorp, <<>>, ScA, <<>> , ScCorp >>
TypePool == <<32, 33, 0, 65535, 10>>
ClassPool == <<1, 0, 65535>>
TTLPool == << <<0, 0>>, <<4, 147>>, <<65535, 65535>>, <<32768, 1>> >>
RdLenPool == <<6, 0, 1, 255, 12>>
IdPool == <<0, 65535, 4660, (Seed * 7919) % 65536>>
FlagPool == <<272, 0, 65535, 34048, 10256, (Seed * 31337) % 65536>>
Pick(pool, i) == pool[(i % Len(pool)) + 1]
RData(len, salt) == [i \in 1..len |-> (i * 41 + salt + Seed) % 256]
Q(k, v) == [nb |-> Pick(NbPool, k * (v + 1) + v + Seed), sc |-> Pick(ScPool, k + v * 2), t |-> Pick(TypePool, k + v), c |-> Pick(ClassPool, k + v)]
R(k, v) == [nb |-> Pick(NbPool, k * (v + 1) + v + Seed), sc |-> Pick(ScPool, k + v * 2), t |-> Pick(TypePool, k + v), c |-> Pick(ClassPool, k + v),
            ttl |-> Pick(TTLPool, k + v), rd |-> RData(Pick(RdLenPool, k + 2 * v), k)]
Pkt(q, a, n, r, v) ==
    [id |-> Pick(IdPool, v + q + a), flags |-> Pick(FlagPool, v + n + r),
     qd |-> [i \in 1..q |-> Q(i, v)], an |-> [i \in 1..a |-> R(q + i, v)],
     ns |-> [i \in 1..n |-> R(q + a + i, v)], ar |-> [i \in 1..r |-> R(q + a + n + i, v)]]
BigPkt(len) == [id |-> 9, flags |-> 34048, qd |-> <<>>,
                an |-> <<[nb |-> <<70, 82, 69, 68>>, sc |-> <<>>, t |-> 33, c |-> 1, ttl |-> <<0, 0>>, rd |-> RData(len, 5)],
                         [nb |-> <<70, 82, 69, 68>>, sc |-> ScCorp, t |-> 32, c |-> 1, ttl |-> <<4, 147>>, rd |-> RData(6, 6)]>>,
                ns |-> <<>>, ar |-> <<>>]
PktCase(kind, key, p) ==
    LET wire == NBNSEncode(p)  packed == NBNSEncodeC(p)  pw == NBNSParse1002(wire)  pc == NBNSParse1002(packed) IN
    /\ c = <<kind, key>>
    /\ Assert(pw.ok /\ NBNSDiff(pw.p, p) = <<>> /\ pw.end = Len(wire), <<"RFC 1002 codec does not round-trip", key>>)
    /\ Assert(pc.ok /\ NBNSDiff(pc.p, p) = <<>> /\ pc.end = Len(packed), <<"RFC 1002 codec with pointers does not round-trip", key>>)
    /\ Emit([k |-> kind, key |-> key, p |-> p, wire |-> wire, packed |-> packed])

Init ==
    \/ /\ "pos" \in Kinds
       /\ \E pos \in 1..16, v \in 0..255 : NameCase("pos", <<pos, v>>, [nb |-> [Base EXCEPT ![pos] = v], sc |-> <<>>])
    \/ /\ "len" \in Kinds
       /\ \E len \in 0..16, which \in 1..2, s \in 1..5 :
            NameCase("len", <<len, which, s>>, [nb |-> SubSeq(IF which = 1 THEN Base ELSE Bin, 1, len),
                                                 sc |-> <<<<>>, ScA, ScCorp, Sc63, ScMax>>[s]])
    \/ /\ "scope" \in Kinds
       /\ \E sc \in Scopes : NameCase("scope", sc, [nb |-> <<70, 82, 69, 68>>, sc |-> sc])
    \/ /\ "pkt" \in Kinds
       /\ \E q \in 0..NS, a \in 0..NS, n \in 0..NS, r \in 0..NS, v \in 1..NV : PktCase("pkt", <<q, a, n, r, v>>, Pkt(q, a, n, r, v))
    \/ /\ "big" \in Kinds
       /\ \E len \in BigLens : PktCase("big", <<len>>, BigPkt(len))
Next == FALSE /\ UNCHANGED c
=============================================================================
