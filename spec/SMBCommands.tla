----------------------------- MODULE SMBCommands -----------------------------
(***************************************************************************)
(* The SMB1 command block (MS-CIFS 2.2.3.2 SMB_Parameters, 2.2.3.3         *)
(* SMB_Data, 2.2.3.4 AndX) as a GENERIC encoder over declared structures.  *)
(*                                                                         *)
(*   command  = WordCount(1)  Words(2*WordCount)  ByteCount(2, LE)  Bytes  *)
(*   Words    = [AndXCommand(1) AndXReserved(1) AndXOffset(2, LE)]  for    *)
(*              the eight *_ANDX commands, then the parameter fields in    *)
(*              declared order, each exactly as wide as its type           *)
(*   Bytes    = the data fields in declared order                          *)
(*                                                                         *)
(* The structures themselves are read from schemas.json (the DECLARATIONS  *)
(* of /repo's command structs: ordered field names, declared MS-CIFS type  *)
(* names, "// Parameters" / "// Data" block markers).  Nothing in that     *)
(* file says how wide a type is, in which byte order it travels, or which  *)
(* field counts which buffer: those facts are stated here and in SMBAtoms, *)
(* from the MS-CIFS text.                                                  *)
(*                                                                         *)
(* Mode = "cifs": types as MS-CIFS defines them (property C05).            *)
(* Mode = "decl": types as the library declares them (property C04; only   *)
(*                difference: SMB_TIME is declared as an alias of FILETIME,*)
(*                and format-less strings use the library's SMB_STRING     *)
(*                with BufferFormat 0x04).                                 *)
(***************************************************************************)
EXTENDS SMBAtoms, Json, FiniteSets

CONSTANT Mode

Schemas == TLCEval(JsonDeserialize("schemas.json").structs)

(* MS-CIFS 2.2.3.4: the commands that carry an AndX block *)
AndXCodes == {36, 45, 46, 47, 115, 116, 117, 162}    \* LOCKING, OPEN, READ, WRITE, SESSION_SETUP, LOGOFF, TREE_CONNECT, NT_CREATE _ANDX
IsAndX(S) == S.code \in AndXCodes
SMBHeaderSize == 32                                   \* MS-CIFS 2.2.3.1

(***************************************************************************)
(* Per-field facts (MS-CIFS 2.2.4.x).  <<structure, field, kind, arg>>     *)
(*  integer fields:                                                        *)
(*   "len"     value = number of content bytes of field arg                 *)
(*   "count"   value = number of elements of array field arg               *)
(*   "count43" value = content bytes of field arg / 43 (SMB_Directory_Information records) *)
(*   "off"     value = offset of field arg from the start of the SMB header*)
(*   "zero"    describes a buffer the structure does not declare: 0        *)
(*             (the *Displacement fields of the secondary transaction     *)
(*             messages describe no buffer of THIS message: free values)  *)
(*   "or16"    free, with LARGE_FILES (0x10) set: the declared ranges are LOCKING_ANDX_RANGE64 *)
(*   "blockwc" not a slot at all: mirrors SMB_Parameters.WordCount         *)
(*   "opt"     free, and OPTIONAL: MS-CIFS allows two WordCounts for the command; the trailing field may be *)
(*             left out, which a decoder reads as zero.  A zero value therefore has two legal encodings.  *)
(*  variable fields:                                                       *)
(*   "str" fmt  buffer-format string (SMBAtoms!StrWire); "0" = no format byte *)
(*   "dir43"    variable block (0x05) whose length is a multiple of 43     *)
(*   "bytes"    raw bytes, length given by a "len" field                   *)
(*   "rest"     raw bytes up to the end of the data block                  *)
(*   "pad"      alignment bytes; length recoverable from the next "off"    *)
(*   "pad0"     alignment pad that is empty for OEM (non-Unicode) strings  *)
(*   "wz"       null-terminated UTF-16 string (NT LM 0.12 negotiate response, Unicode negotiated) *)
(*   "dialects" array of 0x02 dialect strings                              *)
(*   "ranges"   array of fixed-size records, counted by a "count" field    *)
(*   "words"    array of USHORT, counted by a "count" field                *)
(*   "dirinfo"  0x05 block of SMB_Directory_Information records (modelled for 0 records) *)
(***************************************************************************)
TransFamily(s, pc, po, dc, do, tpc, tdc, pad1, par, pad2, dat) ==
    { <<s, tpc, "len", par>>, <<s, tdc, "len", dat>>, <<s, pc, "len", par>>, <<s, po, "off", par>>,
      <<s, dc, "len", dat>>, <<s, do, "off", dat>>, <<s, pad1, "pad", "">>, <<s, par, "bytes", "">>,
      <<s, pad2, "pad", "">>, <<s, dat, "bytes", "">> }
Std(s, par, dat) == TransFamily(s, "ParameterCount", "ParameterOffset", "DataCount", "DataOffset",
                                "TotalParameterCount", "TotalDataCount", "Pad1", par, "Pad2", dat)

FieldTable ==
    { <<"CheckDirectoryRequest", "DirectoryName", "str", "4">>,
      <<"CreateDirectoryRequest", "DirectoryName", "str", "4">>,
      <<"CreateNewRequest", "FileName", "str", "4">>,
      <<"CreateRequest", "FileName", "str", "4">>,
      <<"CreateTemporaryRequest", "DirectoryName", "str", "4">>,
      <<"CreateTemporaryResponse", "TemporaryFileName", "str", "4">>,
      <<"DeleteDirectoryRequest", "DirectoryName", "str", "4">>,
      <<"DeleteRequest", "FileName", "str", "4">>,
      <<"FindCloseRequest", "FileName", "str", "4">>,
      <<"FindCloseRequest", "ResumeKey", "str", "5">>,
      <<"FindCloseResponse", "DirectoryInformationData", "str", "5">>,
      <<"FindRequest", "FileName", "str", "4">>,
      <<"FindRequest", "ResumeKey", "str", "5">>,
      <<"FindUniqueRequest", "FileName", "str", "4">>,
      <<"FindResponse", "Count", "count", "DirectoryInformationData">>,
      <<"FindResponse", "DirectoryInformationData", "dirinfo", "">>,
      <<"FindUniqueResponse", "Count", "count", "DirectoryInformationData">>,
      <<"FindUniqueResponse", "DirectoryInformationData", "dirinfo", "">>,
      <<"EchoRequest", "Data", "rest", "">>,
      <<"EchoResponse", "Data", "rest", "">>,
      <<"LockAndReadResponse", "CountOfBytesReturned", "len", "BytesRead">>,
      <<"LockAndReadResponse", "BytesRead", "str", "1">>,
      <<"LockingAndxRequest", "TypeOfLock", "or16", "">>,
      <<"LockingAndxRequest", "NumberOfRequestedUnlocks", "count", "Unlocks">>,
      <<"LockingAndxRequest", "NumberOfRequestedLocks", "count", "Locks">>,
      <<"LockingAndxRequest", "Unlocks", "ranges", "">>,
      <<"LockingAndxRequest", "Locks", "ranges", "">>,
      <<"NegotiateRequest", "WordCount", "blockwc", "">>,
      <<"NegotiateRequest", "Dialects", "dialects", "">>,
      <<"NegotiateResponse", "ChallengeLength", "len", "Challenge">>,
      <<"NegotiateResponse", "Challenge", "bytes", "">>,
      <<"NegotiateResponse", "DomainName", "wz", "">>,
      <<"NegotiateResponse", "ServerName", "wz", "">>,
      <<"NtCreateAndxRequest", "NameLength", "len", "FileName">>,
      <<"NtCreateAndxRequest", "FileName", "str", "0">>,
      <<"NtRenameRequest", "OldFileName", "str", "4">>,
      <<"NtRenameRequest", "NewFileName", "str", "4">>,
      <<"NtTransactRequest", "SetupCount", "zero", "">>,
      <<"OpenAndxRequest", "FileName", "str", "0">>,
      <<"OpenPrintFileRequest", "Identifier", "str", "4">>,
      <<"OpenRequest", "FileName", "str", "4">>,
      <<"QueryInformationRequest", "FileName", "str", "4">>,
      <<"ReadAndxResponse", "DataLength", "zero", "">>,
      <<"ReadMpxResponse", "DataLength", "len", "Data">>,
      <<"ReadMpxResponse", "DataOffset", "off", "Data">>,
      <<"ReadMpxResponse", "Pad", "pad", "">>,
      <<"ReadMpxResponse", "Data", "bytes", "">>,
      <<"ReadResponse", "CountOfBytesReturned", "len", "Bytes">>,
      <<"ReadResponse", "Bytes", "str", "1">>,
      <<"RenameRequest", "OldFileName", "str", "4">>,
      <<"RenameRequest", "NewFileName", "str", "4">>,
      <<"SearchRequest", "FileName", "str", "4">>,
      <<"SearchResponse", "Count", "count43", "SMB_Directory_Information">>,
      <<"SearchResponse", "SMB_Directory_Information", "dir43", "">>,
      <<"SessionSetupAndxRequest", "OEMPasswordLen", "len", "OEMPassword">>,
      <<"SessionSetupAndxRequest", "UnicodePasswordLen", "len", "UnicodePassword">>,
      <<"SessionSetupAndxRequest", "OEMPassword", "bytes", "">>,
      <<"SessionSetupAndxRequest", "UnicodePassword", "bytes", "">>,
      <<"SessionSetupAndxRequest", "Pad", "pad0", "">>,
      <<"SessionSetupAndxRequest", "AccountName", "str", "0">>,
      <<"SessionSetupAndxRequest", "PrimaryDomain", "str", "0">>,
      <<"SessionSetupAndxRequest", "NativeOS", "str", "0">>,
      <<"SessionSetupAndxRequest", "NativeLanMan", "str", "0">>,
      <<"SessionSetupAndxResponse", "Pad", "pad0", "">>,
      <<"SessionSetupAndxResponse", "NativeOS", "str", "0">>,
      <<"SessionSetupAndxResponse", "NativeLanMan", "str", "0">>,
      <<"SessionSetupAndxResponse", "PrimaryDomain", "str", "0">>,
      <<"SetInformationRequest", "FileName", "str", "4">>,
      <<"Transaction2Request", "SetupCount", "zero", "">>,
      <<"TransactionRequest", "SetupCount", "count", "Setup">>,
      <<"TransactionRequest", "Setup", "words", "">>,
      <<"TransactionRequest", "Name", "str", "0">>,
      <<"TreeConnectAndxRequest", "PasswordLength", "len", "Password">>,
      <<"TreeConnectAndxRequest", "Password", "bytes", "">>,
      <<"TreeConnectAndxRequest", "Pad", "pad0", "">>,
      <<"TreeConnectAndxRequest", "Path", "str", "0">>,
      <<"TreeConnectAndxRequest", "Service", "str", "0">>,
      <<"TreeConnectAndxResponse", "Service", "str", "0">>,
      <<"TreeConnectAndxResponse", "NativeFileSystem", "str", "0">>,
      <<"TreeConnectRequest", "Path", "str", "4">>,
      <<"TreeConnectRequest", "Password", "str", "4">>,
      <<"TreeConnectRequest", "Service", "str", "4">>,
      <<"WriteAndCloseRequest", "CountOfBytesToWrite", "len", "Data">>,
      <<"WriteAndCloseRequest", "Data", "bytes", "">>,
      <<"WriteAndUnlockRequest", "CountOfBytesToWrite", "len", "Data">>,
      <<"WriteAndUnlockRequest", "Data", "str", "1">>,
      <<"WriteAndxRequest", "DataLength", "len", "Data">>,
      <<"WriteAndxRequest", "DataOffset", "off", "Data">>,
      <<"WriteAndxRequest", "Data", "bytes", "">>,
      <<"WriteMpxRequest", "DataLength", "len", "Buffer">>,
      <<"WriteMpxRequest", "DataOffset", "off", "Buffer">>,
      <<"WriteMpxRequest", "Pad", "pad", "">>,
      <<"WriteMpxRequest", "Buffer", "bytes", "">>,
      <<"WritePrintFileRequest", "Data", "str", "1">>,
      <<"WriteRawRequest", "DataLength", "len", "Data">>,
      <<"WriteRawRequest", "DataOffset", "off", "Data">>,
      <<"WriteRawRequest", "Pad", "pad", "">>,
      <<"WriteRawRequest", "Data", "bytes", "">>,
      <<"ReadRawRequest", "OffsetHigh", "opt", "">>,           \* 2.2.4.22.1  WordCount 0x08 or 0x0A
      <<"WriteAndCloseRequest", "Reserved", "opt", "">>,       \* 2.2.4.40.1  WordCount 0x06 or 0x0C
      <<"WriteAndxRequest", "OffsetHigh", "opt", "">>,         \* 2.2.4.43.1  WordCount 0x0C or 0x0E
      <<"WriteRawRequest", "OffsetHigh", "opt", "">>,          \* 2.2.4.25.1  WordCount 0x0C or 0x0E
      <<"WriteRequest", "CountOfBytesToWrite", "len", "Data">>,
      <<"WriteRequest", "Data", "str", "1">> }
    \cup Std("IoctlRequest", "Parameters", "Data")
    \cup Std("IoctlResponse", "Parameters", "Data")
    \cup Std("NtTransactRequest", "NT_Trans_Parameters", "NT_Trans_Data")
    \cup Std("NtTransactSecondaryRequest", "NT_Trans_Parameters", "NT_Trans_Data")
    \cup Std("Transaction2Request", "Trans2_Parameters", "Trans2_Data")
    \cup Std("Transaction2SecondaryRequest", "Trans2_Parameters", "Trans2_Data")
    \cup Std("TransactionRequest", "Trans_Parameters", "Trans_Data")
    \cup Std("TransactionSecondaryRequest", "Trans2_Parameters", "Trans2_Data")

(* fields whose MS-CIFS reading is not certain enough to raise an alarm on: mismatches are reported as drift *)
Unsure == { <<"NtCreateAndxRequest", "FileName">>, <<"NtCreateAndxRequest", "NameLength">>,
            <<"NegotiateResponse", "DomainName">>, <<"NegotiateResponse", "ServerName">> }

VarKinds == {"str", "dir43", "bytes", "rest", "pad", "pad0", "wz", "dialects", "ranges", "words", "dirinfo"}
IntKinds == {"len", "count", "count43", "off", "zero", "or16", "blockwc", "opt"}

Entry(s, f) == IF \E e \in FieldTable : e[1] = s /\ e[2] = f
               THEN CHOOSE e \in FieldTable : e[1] = s /\ e[2] = f
               ELSE <<s, f, "free", "">>

FieldAtoms(f) == IF f.n = 0 THEN SMBFixed(f.elem, Mode)
                 ELSE IF f.n > 0 THEN Flatten([i \in 1..f.n |-> Under(<<Idx(i - 1)>>, SMBFixed(f.elem, Mode))])
                 ELSE <<>>
IsFixedField(s, f) == FieldAtoms(f) # <<>> /\ Entry(s, f.name)[3] \notin VarKinds
FieldIndex(S, name) == CHOOSE i \in 1..Len(S.fields) : S.fields[i].name = name

(* every field is either of a fixed type or has a table entry of a variable kind *)
Covered(S) == \A i \in 1..Len(S.fields) :
                 \/ IsFixedField(S.name, S.fields[i])
                 \/ Entry(S.name, S.fields[i].name)[3] \in VarKinds
TableWellFormed == \A e \in FieldTable : \E k \in 1..Len(Schemas) :
                      /\ Schemas[k].name = e[1]
                      /\ \E i \in 1..Len(Schemas[k].fields) : Schemas[k].fields[i].name = e[2]
                      /\ (e[3] \in {"len", "count", "count43", "off"} =>
                              \E i \in 1..Len(Schemas[k].fields) : Schemas[k].fields[i].name = e[4])

(***************************************************************************)
(* Pieces: what one field contributes, in wire order.                      *)
(*   t = "atom"   : w bytes on the wire holding an integer (rel says which)*)
(*   t = "shadow" : an integer component of the library's value that is NOT on the wire but must agree (e.g. SMB_STRING.Length for a null-terminated string) *)
(*   t = "raw"    : content bytes b followed by the fixed bytes tail       *)
(*   t = "strs"   : dialect list                                           *)
(*   t = "alloc"  : number of elements of an array (no wire image)         *)
(*   soft         : a component MS-CIFS does not determine (the BufferFormat / Length the library keeps for a string *)
(*                  that has no format byte on the wire): stored, but a mismatch on it is model detail (drift)       *)
(***************************************************************************)
P0 == [t |-> "atom", p |-> <<>>, w |-> 0, enc |-> "le", c |-> <<>>, rel |-> "free", of |-> "",
       b |-> <<>>, tail |-> <<>>, names |-> <<>>, n |-> 0, soft |-> FALSE]
AtomPiece(a, q, rel, of) == [P0 EXCEPT !.p = q \o a.p, !.w = a.w, !.enc = a.enc, !.c = a.c,
                                       !.rel = IF a.enc = "const" THEN "const" ELSE rel, !.of = of]
IntPiece(t, p, w, rel, c) == [P0 EXCEPT !.t = t, !.p = p, !.w = w, !.rel = rel, !.c = c]
RawPiece(p, b, tail) == [P0 EXCEPT !.t = "raw", !.p = p, !.b = b, !.tail = tail]

(* value patterns.  pat = [name, f, L]:  "distinct" | "zero" | "max" | "chg" (field f changed) | "len" (variable field f has L elements)
   | "trace" (= "distinct", except that the free integers named in pat.vals hold the recorded numerals) *)
Digit(pat, i, pos) ==
    CASE pat.name = "zero" -> 0
      [] pat.name = "max" -> 255
      [] pat.name = "chg" /\ pat.f = i -> 144 + (pos % 112)
      [] OTHER -> 16 + (pos % 112)
ContentByte(pat, i, j) == IF pat.name = "max" THEN 255 ELSE 16 + ((i * 37 + j + 50) % 112)
Content(pat, i, L) == [j \in 1..L |-> ContentByte(pat, i, j)]
(* UTF-16LE text of L code units none of which is 0x0000: a character below U+0100 (xx 00) alternates with one whose LOW byte is
   zero (00 xx), so that the byte string contains 00 00 at odd offsets -- which is not the terminator *)
WzContent(pat, i, L) == [j \in 1..(2 * L) |-> IF j % 4 \in {1, 0} THEN ContentByte(pat, i, j) ELSE 0]
VarOrdinal(S, i) == Cardinality({j \in 1..i : ~IsFixedField(S.name, S.fields[j])})
VLen(S, pat, i, kind) ==
    IF kind = "dirinfo" THEN 0
    ELSE IF pat.name = "len" /\ pat.f = i THEN pat.L
    ELSE IF kind = "pad0" \/ pat.name = "zero" THEN 0
    ELSE IF pat.name = "max" THEN 1
    ELSE VarOrdinal(S, i)

StrPieces(name, fmtDecl, content) ==
    LET fmt == IF fmtDecl = 0 /\ Mode = "decl" THEN 4 ELSE fmtDecl      \* the library's string type always carries a format byte
        libfmt == IF fmt = 0 THEN 4 ELSE fmt                             \* value of the Go BufferFormat component
        fpiece == IntPiece(IF fmt = 0 THEN "shadow" ELSE "atom", <<name, "BufferFormat">>, 1, "const", <<libfmt>>)
        lpiece == IntPiece(IF fmt \in {1, 5} THEN "atom" ELSE "shadow", <<name, "Length">>, 2, "ownlen", <<>>)
        rpiece == RawPiece(<<name, "Buffer">>, content, IF fmt \in {0, 2, 4} THEN <<0>> ELSE <<>>)
    IN IF fmtDecl = 0 THEN <<[fpiece EXCEPT !.soft = TRUE], [lpiece EXCEPT !.soft = TRUE], rpiece>>
       ELSE <<fpiece, lpiece, rpiece>>

FieldPieces(S, i, pat) ==
    LET f == S.fields[i]
        e == Entry(S.name, f.name)
        kind == e[3]
        L == VLen(S, pat, i, kind)
    IN IF IsFixedField(S.name, f)
       THEN LET as == FieldAtoms(f)
            IN IF kind = "blockwc" THEN <<IntPiece("shadow", <<f.name>>, 1, "blockwc", <<>>)>>
               ELSE [k \in 1..Len(as) |-> AtomPiece(as[k], <<f.name>>, IF Len(as) = 1 /\ kind # "opt" THEN kind ELSE "free", e[4])]
       ELSE CASE kind = "str" -> StrPieces(f.name, IF e[4] = "1" THEN 1 ELSE IF e[4] = "4" THEN 4 ELSE IF e[4] = "5" THEN 5 ELSE 0,
                                           Content(pat, i, L))
              [] kind = "dir43" -> StrPieces(f.name, 5, Content(pat, i, 43 * (IF L > 2 THEN 2 ELSE L)))
              [] kind \in {"bytes", "rest", "pad"} -> <<RawPiece(<<f.name>>, Content(pat, i, L), <<>>)>>
              [] kind = "pad0" -> <<RawPiece(<<f.name>>, Zeros(L), <<>>)>>        \* "null padding byte(s)"
              [] kind = "wz" -> <<RawPiece(<<f.name>>, WzContent(pat, i, L), <<0, 0>>)>>
              [] kind = "dialects" -> <<[P0 EXCEPT !.t = "strs", !.p = <<f.name, "Dialects">>,
                                                  !.names = [k \in 1..L |-> DialectNames[((k + i + (IF pat.name = "len" THEN 0 ELSE 11)) % 13) + 1]]]>>
              [] kind = "ranges" -> <<[P0 EXCEPT !.t = "alloc", !.p = <<f.name>>, !.n = L]>>
                                    \o Flatten([k \in 1..L |-> LET as == SMBFixed(f.elem, Mode)
                                                               IN [m \in 1..Len(as) |-> AtomPiece(as[m], <<f.name, Idx(k - 1)>>, "free", "")]])
              [] kind = "words" -> <<[P0 EXCEPT !.t = "alloc", !.p = <<f.name>>, !.n = L]>>
                                   \o [k \in 1..L |-> AtomPiece(Atom(<<>>, 2, "le"), <<f.name, Idx(k - 1)>>, "free", "")]
              [] kind = "dirinfo" -> <<[P0 EXCEPT !.t = "alloc", !.p = <<f.name>>, !.n = 0]>>
                                     \o (IF Mode = "cifs"          \* MS-CIFS 2.2.4.59.2: BufferFormat 0x05, DataLength, records
                                         THEN <<AtomPiece(ConstAtom(<<5>>), <<f.name>>, "const", ""),
                                                AtomPiece(ConstAtom(<<0, 0>>), <<f.name>>, "const", "")>>
                                         ELSE <<>>)

PieceLen(pc) == CASE pc.t = "atom" -> pc.w
                  [] pc.t = "raw" -> Len(pc.b) + Len(pc.tail)
                  [] pc.t = "strs" -> Len(DialectsWire(pc.names))
                  [] OTHER -> 0
RECURSIVE SumLen(_)
SumLen(pcs) == IF pcs = <<>> THEN 0 ELSE PieceLen(Head(pcs)) + SumLen(Tail(pcs))
RECURSIVE RawLen(_)
RawLen(pcs) == IF pcs = <<>> THEN 0 ELSE (IF Head(pcs).t = "raw" THEN Len(Head(pcs).b) ELSE 0) + RawLen(Tail(pcs))
AllocN(pcs) == IF pcs # <<>> /\ pcs[1].t = "alloc" THEN pcs[1].n ELSE 0

(***************************************************************************)
(* Layout of one structure under one assignment.                           *)
(***************************************************************************)
Layout(S, pat) ==
    LET N == Len(S.fields)
        pcs == [i \in 1..N |-> FieldPieces(S, i, pat)]
        FL == [i \in 1..N |-> SumLen(pcs[i])]
        andx == IF IsAndX(S) THEN 4 ELSE 0
        BlockOff == [i \in 1..N |-> LET js == {j \in 1..(i - 1) : S.fields[j].block = S.fields[i].block}
                                        sum[k \in 0..N] == IF k = 0 THEN 0 ELSE sum[k - 1] + (IF k \in js THEN FL[k] ELSE 0)
                                    IN sum[N] + (IF S.fields[i].block = "P" THEN andx ELSE 0)]
        plen == andx + (LET sum[k \in 0..N] == IF k = 0 THEN 0 ELSE sum[k - 1] + (IF S.fields[k].block = "P" THEN FL[k] ELSE 0) IN sum[N])
        dlen == LET sum[k \in 0..N] == IF k = 0 THEN 0 ELSE sum[k - 1] + (IF S.fields[k].block = "D" THEN FL[k] ELSE 0) IN sum[N]
        WOff == [i \in 1..N |-> IF S.fields[i].block = "P" THEN 1 + BlockOff[i] ELSE 1 + plen + 2 + BlockOff[i]]
    IN [pcs |-> pcs, FL |-> FL, boff |-> BlockOff, woff |-> WOff, plen |-> plen, dlen |-> dlen, andx |-> andx]

(* numeral held by an integer piece of field i that sits at wire offset pos *)
RECURSIVE JoinPath(_)
JoinPath(p) == IF Len(p) = 1 THEN p[1] ELSE p[1] \o "." \o JoinPath(Tail(p))
PieceVal(S, pat, lay, i, pc, pos) ==
    LET free == IF pat.name = "trace" /\ pc.enc = "le" /\ JoinPath(pc.p) \in DOMAIN pat.vals
                THEN pat.vals[JoinPath(pc.p)]                       \* a value recorded from an execution of the real code
                ELSE [j \in 1..pc.w |-> Digit(pat, i, pos + (pc.w - j))]
    IN CASE pc.rel = "free" -> free
         [] pc.rel = "const" -> pc.c
         [] pc.rel = "zero" -> Zeros(pc.w)
         [] pc.rel = "or16" -> [free EXCEPT ![pc.w] = @ | 16]
         [] pc.rel = "ownlen" -> Numeral(RawLen(lay.pcs[i]), pc.w)
         [] pc.rel = "len" -> Numeral(RawLen(lay.pcs[FieldIndex(S, pc.of)]), pc.w)
         [] pc.rel = "count" -> Numeral(AllocN(lay.pcs[FieldIndex(S, pc.of)]), pc.w)
         [] pc.rel = "count43" -> Numeral(RawLen(lay.pcs[FieldIndex(S, pc.of)]) \div 43, pc.w)
         [] pc.rel = "off" -> Numeral(SMBHeaderSize + lay.woff[FieldIndex(S, pc.of)], pc.w)
         [] pc.rel = "blockwc" -> Numeral(lay.plen \div 2, pc.w)

(* resolved pieces of field i: each with its wire offset and, for integers, its numeral *)
Resolved(S, pat, lay, i) ==
    LET pcs == lay.pcs[i]
        off[k \in 0..Len(pcs)] == IF k = 0 THEN lay.woff[i] ELSE off[k - 1] + PieceLen(pcs[k])
    IN [k \in 1..Len(pcs) |->
          LET pc == pcs[k]
              v == IF pc.t \in {"atom", "shadow"} /\ pc.enc # "const" THEN PieceVal(S, pat, lay, i, pc, off[k - 1]) ELSE <<>>
          IN [pc |-> pc, off |-> off[k - 1], v |-> v]]

PieceWire(r) == CASE r.pc.t = "atom" -> AtomBytes(r.pc, r.v)
                  [] r.pc.t = "raw" -> r.pc.b \o r.pc.tail
                  [] r.pc.t = "strs" -> DialectsWire(r.pc.names)
                  [] OTHER -> <<>>
FieldWire(rs) == Flatten([k \in 1..Len(rs) |-> PieceWire(rs[k])])

(* what the harness must store into the Go value, and read back after decoding *)
PieceSets(r) ==
    CASE r.pc.t \in {"atom", "shadow"} /\ r.pc.enc = "le" -> <<[p |-> r.pc.p, v |-> r.v, soft |-> r.pc.soft]>>
      [] r.pc.t = "atom" /\ r.pc.enc = "date" ->
            LET x == Num16(r.v)
            IN <<[p |-> r.pc.p \o <<"Year">>, v |-> Numeral(SMBDateYear(x), 2)],
                 [p |-> r.pc.p \o <<"Month">>, v |-> Numeral(SMBDateMonth(x), 1)],
                 [p |-> r.pc.p \o <<"Day">>, v |-> Numeral(SMBDateDay(x), 1)]>>
      [] r.pc.t = "raw" -> <<[p |-> r.pc.p, b |-> r.pc.b]>>
      [] r.pc.t = "strs" -> <<[p |-> r.pc.p, strs |-> r.pc.names]>>
      [] r.pc.t = "alloc" -> <<[p |-> r.pc.p, n |-> r.pc.n]>>
      [] OTHER -> <<>>
PieceAtom(r) == IF r.pc.t = "atom"
                THEN <<[off |-> r.off, w |-> r.pc.w, enc |-> r.pc.enc, bytes |-> PieceWire(r),
                        free |-> (r.pc.rel \in {"free", "or16"} /\ r.pc.enc # "const")]>>
                ELSE <<>>

(* In Mode "decl" the width of a value is what its declared type says; these kinds have no width of their own
   (the library's string type always adds a format byte, an empty list has no image): where they occur, total
   length and the position of later data fields are not defined by the declarations. *)
WidthUndefined(S, i) ==
    LET e == Entry(S.name, S.fields[i].name)
    IN Mode = "decl" /\ (e[3] \in {"dialects", "dirinfo", "wz"} \/ (e[3] = "str" /\ e[4] = "0"))
LenDefined(S) == \A i \in 1..Len(S.fields) : ~WidthUndefined(S, i)
PosDefined(S, i) == S.fields[i].block = "P" \/ \A j \in 1..(i - 1) : S.fields[j].block = "D" => ~WidthUndefined(S, j)

(* AndX block, MS-CIFS 2.2.3.4: AndXCommand 0xFF = no further command *)
AndXPieces == <<IntPiece("atom", <<"@AndX", "AndXCommand">>, 1, "const", <<255>>),
                IntPiece("atom", <<"@AndX", "AndXReserved">>, 1, "free", <<>>),
                IntPiece("atom", <<"@AndX", "AndXOffset">>, 2, "free", <<>>)>>
AndXResolved(S, pat) ==
    LET offs == <<1, 2, 3>>
    IN [k \in 1..3 |-> [pc |-> AndXPieces[k], off |-> offs[k],
                        v |-> IF k = 1 THEN <<255>> ELSE [j \in 1..AndXPieces[k].w |-> Digit(pat, 0, offs[k] + (AndXPieces[k].w - j))]]]

ASSUME LET rs == [k \in 1..3 |-> [pc |-> AndXPieces[k], off |-> k, v |-> <<<<255>>, <<0>>, <<1, 2>>>>[k]]]
       IN FieldWire(rs) = <<255, 0, 2, 1>>            \* command, reserved, offset 0x0102 little-endian

(***************************************************************************)
(* EncodeCmd: the reference encoding of structure S under pattern pat, as  *)
(* a record with everything the binding needs.                             *)
(***************************************************************************)
FieldRecord(S, pat, lay, i) ==
    LET f == S.fields[i]
        rs == Resolved(S, pat, lay, i)
        timeAtom == \E k \in 1..Len(rs) : rs[k].pc.t = "atom" /\ rs[k].pc.enc = "time"
    IN [name |-> f.name, block |-> f.block, off |-> lay.woff[i], len |-> lay.FL[i],
        fixed |-> IsFixedField(S.name, f), kind |-> Entry(S.name, f.name)[3],
        unsure |-> (<<S.name, f.name>> \in Unsure \/ \E k \in 1..Len(rs) : rs[k].pc.t = "strs" /\ rs[k].pc.names = <<>>),
        unbindable |-> timeAtom, posdef |-> PosDefined(S, i),
        free |-> (\E k \in 1..Len(rs) : rs[k].pc.t = "atom" /\ rs[k].pc.rel \in {"free", "or16"} /\ rs[k].pc.enc # "const"),
        atoms |-> Flatten([k \in 1..Len(rs) |-> PieceAtom(rs[k])]),
        sets |-> Flatten([k \in 1..Len(rs) |-> PieceSets(rs[k])]),
        wire |-> FieldWire(rs)]

AndXRecord(S, pat) ==
    LET rs == AndXResolved(S, pat)
    IN [name |-> "AndX", block |-> "P", off |-> 1, len |-> 4, fixed |-> TRUE, kind |-> "andx", unsure |-> FALSE,
        unbindable |-> FALSE, posdef |-> TRUE, free |-> TRUE,
        atoms |-> Flatten([k \in 1..3 |-> PieceAtom(rs[k])]), sets |-> Flatten([k \in 1..3 |-> PieceSets(rs[k])]),
        wire |-> FieldWire(rs)]

BlockWire(frs, b) == Flatten([k \in 1..Len(frs) |-> IF frs[k].block = b THEN frs[k].wire ELSE <<>>])

EncodeCmd(S, pat) ==
    LET lay == Layout(S, pat)
        frs == (IF IsAndX(S) THEN <<AndXRecord(S, pat)>> ELSE <<>>) \o [i \in 1..Len(S.fields) |-> FieldRecord(S, pat, lay, i)]
        params == BlockWire(frs, "P")
        data == BlockWire(frs, "D")
    IN [s |-> S.name, dir |-> S.dir, code |-> S.code, andx |-> IsAndX(S), libandx |-> S.andx, mode |-> Mode,
        pat |-> pat.name, chg |-> IF pat.name \in {"chg", "len"} THEN (IF pat.f = 0 THEN "AndX" ELSE S.fields[pat.f].name) ELSE "", L |-> pat.L,
        wf |-> (Len(params) % 2 = 0), lendef |-> LenDefined(S), wc |-> Len(params) \div 2, bc |-> Len(data),
        fields |-> frs, alt |-> <<>>,
        wire |-> <<Len(params) \div 2>> \o params \o LEBytes(Numeral(Len(data), 2)) \o data]

(* The second legal encoding of an assignment whose optional field is zero: the field left out (see "opt"). *)
HasAlt(enc) == \E k \in 1..Len(enc.fields) : enc.fields[k].kind = "opt" /\ enc.fields[k].wire = Zeros(enc.fields[k].len)
AltEncoding(enc) ==
    LET k == CHOOSE k \in 1..Len(enc.fields) : enc.fields[k].kind = "opt" /\ enc.fields[k].wire = Zeros(enc.fields[k].len)
        o == enc.fields[k].off
        n == enc.fields[k].len
        shift(fr) == IF fr.off > o
                     THEN [fr EXCEPT !.off = @ - n, !.atoms = [m \in 1..Len(fr.atoms) |-> [fr.atoms[m] EXCEPT !.off = @ - n]]]
                     ELSE fr
    IN [enc EXCEPT !.wc = @ - (n \div 2),
                   !.wire = <<enc.wc - (n \div 2)>> \o SubSeq(enc.wire, 2, o) \o SubSeq(enc.wire, o + n + 1, Len(enc.wire)),
                   !.fields = [m \in 1..Len(enc.fields) |->
                                 IF m = k THEN [enc.fields[m] EXCEPT !.len = 0, !.atoms = <<>>, !.wire = <<>>] ELSE shift(enc.fields[m])]]
(* what the case table emits: the encoding, plus the alternative one where it exists *)
EncodeCase(S, pat) == LET enc == EncodeCmd(S, pat)
                      IN IF HasAlt(enc) THEN [enc EXCEPT !.alt = <<AltEncoding(enc)>>] ELSE enc

(* SlotRange: first and last wire index (0-based, inclusive) of field name in the encoding *)
SlotRange(enc, name) == LET k == CHOOSE k \in 1..Len(enc.fields) : enc.fields[k].name = name
                        IN <<enc.fields[k].off, enc.fields[k].off + enc.fields[k].len - 1>>
=============================================================================
