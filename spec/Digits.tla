------------------------------- MODULE Digits -------------------------------
(***************************************************************************)
(* Arbitrary-precision arithmetic for TLC, whose integers are 32-bit.      *)
(*                                                                         *)
(* A natural is a sequence of decimal digits, most significant first,      *)
(* canonical = no leading zero (zero is <<0>>).  This IS the decimal text  *)
(* form (digit d <-> character code 48 + d), so "decimal strings in and    *)
(* out" cost nothing.  An integer is [neg |-> BOOLEAN, mag |-> natural],   *)
(* canonical = zero is not negative.                                       *)
(*                                                                         *)
(* Small operands/divisors k must satisfy 10 * k < 2^31 (k <= 2*10^8).     *)
(***************************************************************************)
EXTENDS Integers, Sequences

DZero == <<0>>
DOne == <<1>>
DIsNat(a) == Len(a) >= 1 /\ (\A i \in 1..Len(a) : a[i] \in 0..9) /\ (Len(a) = 1 \/ a[1] # 0)

RECURSIVE DNorm(_)
DNorm(a) == IF a = <<>> THEN DZero ELSE IF Len(a) > 1 /\ a[1] = 0 THEN DNorm(Tail(a)) ELSE a

RECURSIVE DFromInt(_)
DFromInt(n) == IF n < 10 THEN <<n>> ELSE DFromInt(n \div 10) \o <<n % 10>>          \* 0 <= n < 2^31
RECURSIVE DToIntR(_, _)
DToIntR(a, acc) == IF a = <<>> THEN acc ELSE DToIntR(Tail(a), acc * 10 + Head(a))
DToInt(a) == DToIntR(a, 0)                                                          \* only for a < 2^31

(* digit i counted from the right (i = 0 is the units digit); 0 beyond the length *)
DDg(a, i) == IF i < Len(a) THEN a[Len(a) - i] ELSE 0

(* comparison: -1, 0, 1 (canonical operands) *)
RECURSIVE DCmpLex(_, _)
DCmpLex(a, b) == IF a = <<>> THEN 0 ELSE IF Head(a) < Head(b) THEN -1 ELSE IF Head(a) > Head(b) THEN 1 ELSE DCmpLex(Tail(a), Tail(b))
DCmp(a, b) == IF Len(a) < Len(b) THEN -1 ELSE IF Len(a) > Len(b) THEN 1 ELSE DCmpLex(a, b)
DLt(a, b) == DCmp(a, b) < 0
DLe(a, b) == DCmp(a, b) <= 0

RECURSIVE DAddR(_, _, _, _, _)
DAddR(a, b, i, cy, acc) ==
    IF i >= Len(a) /\ i >= Len(b) THEN (IF cy = 0 THEN acc ELSE <<cy>> \o acc)
    ELSE LET s == DDg(a, i) + DDg(b, i) + cy IN DAddR(a, b, i + 1, s \div 10, <<s % 10>> \o acc)
DAdd(a, b) == DNorm(DAddR(a, b, 0, 0, <<>>))

(* a - b for a >= b *)
RECURSIVE DSubR(_, _, _, _, _)
DSubR(a, b, i, bw, acc) ==
    IF i >= Len(a) THEN acc
    ELSE LET s == DDg(a, i) - DDg(b, i) - bw IN
         IF s < 0 THEN DSubR(a, b, i + 1, 1, <<s + 10>> \o acc) ELSE DSubR(a, b, i + 1, 0, <<s>> \o acc)
DSub(a, b) == DNorm(DSubR(a, b, 0, 0, <<>>))

(* a * k, 0 <= k <= 2*10^8 *)
RECURSIVE DMulSmallR(_, _, _, _, _)
DMulSmallR(a, k, i, cy, acc) ==
    IF i >= Len(a) THEN (IF cy = 0 THEN acc ELSE DFromInt(cy) \o acc)
    ELSE LET s == DDg(a, i) * k + cy IN DMulSmallR(a, k, i + 1, s \div 10, <<s % 10>> \o acc)
DMulSmall(a, k) == DNorm(DMulSmallR(a, k, 0, 0, <<>>))

(* <<a div k, a mod k>>, 1 <= k <= 2*10^8; the remainder is a TLC integer *)
RECURSIVE DDivSmallR(_, _, _, _)
DDivSmallR(a, k, r, acc) ==
    IF a = <<>> THEN <<DNorm(acc), r>>
    ELSE LET x == r * 10 + Head(a) IN DDivSmallR(Tail(a), k, x % k, acc \o <<x \div k>>)
DDivSmall(a, k) == DDivSmallR(a, k, 0, <<>>)

(* powers of ten are digit shifts *)
DShl(a, k) == IF a = DZero THEN a ELSE a \o [i \in 1..k |-> 0]                     \* a * 10^k
DShr(a, k) == IF Len(a) <= k THEN DZero ELSE SubSeq(a, 1, Len(a) - k)              \* a div 10^k
DLow(a, k) == IF Len(a) <= k THEN a ELSE DNorm(SubSeq(a, Len(a) - k + 1, Len(a)))  \* a mod 10^k
DPow10(k) == DShl(DOne, k)

(* general product (schoolbook over the digits of b) *)
RECURSIVE DMulR(_, _, _)
DMulR(a, b, acc) == IF b = <<>> THEN acc ELSE DMulR(a, Tail(b), DAdd(DShl(acc, 1), DMulSmall(a, Head(b))))
DMul(a, b) == DMulR(a, b, DZero)

RECURSIVE DPow2(_)
DPow2(n) == IF n = 0 THEN DOne ELSE DMulSmall(DPow2(n - 1), 2)

(* big-endian byte strings / nibble strings <-> naturals *)
RECURSIVE DFromBaseR(_, _, _)
DFromBaseR(xs, base, acc) == IF xs = <<>> THEN acc ELSE DFromBaseR(Tail(xs), base, DAdd(DMulSmall(acc, base), DFromInt(Head(xs))))
DFromBytesBE(bs) == DFromBaseR(bs, 256, DZero)
DFromNibbles(ns) == DFromBaseR(ns, 16, DZero)
DReverse(s) == [i \in 1..Len(s) |-> s[Len(s) - i + 1]]
DFromBytesLE(bs) == DFromBytesBE(DReverse(bs))
(* w base-`base` digits of a, most significant first (a < base^w) *)
RECURSIVE DToBaseR(_, _, _, _)
DToBaseR(a, base, w, acc) == IF w = 0 THEN acc ELSE LET qr == DDivSmall(a, base) IN DToBaseR(qr[1], base, w - 1, <<qr[2]>> \o acc)
DToBytesBE(a, w) == DToBaseR(a, 256, w, <<>>)
DToBytesLE(a, w) == DReverse(DToBytesBE(a, w))
DToNibbles(a, w) == DToBaseR(a, 16, w, <<>>)

(* ---- integers ---- *)
ZMk(neg, mag) == [neg |-> neg /\ mag # DZero, mag |-> mag]
ZNat(a) == ZMk(FALSE, a)
ZZero == ZNat(DZero)
ZNeg(z) == ZMk(~z.neg, z.mag)
ZAbs(z) == z.mag
ZCmp(x, y) == IF x.neg /\ ~y.neg THEN -1 ELSE IF ~x.neg /\ y.neg THEN 1
              ELSE IF x.neg THEN DCmp(y.mag, x.mag) ELSE DCmp(x.mag, y.mag)
ZLt(x, y) == ZCmp(x, y) < 0
ZLe(x, y) == ZCmp(x, y) <= 0
ZAdd(x, y) == IF x.neg = y.neg THEN ZMk(x.neg, DAdd(x.mag, y.mag))
              ELSE IF DLe(y.mag, x.mag) THEN ZMk(x.neg, DSub(x.mag, y.mag)) ELSE ZMk(y.neg, DSub(y.mag, x.mag))
ZSub(x, y) == ZAdd(x, ZNeg(y))
ZMulSmall(z, k) == ZMk(z.neg, DMulSmall(z.mag, k))                    \* k >= 0
ZShl(z, k) == ZMk(z.neg, DShl(z.mag, k))                              \* z * 10^k
(* floor division and the matching non-negative remainder by 10^k *)
ZFloorDivPow10(z, k) == IF ~z.neg THEN ZNat(DShr(z.mag, k))
                        ELSE IF DLow(z.mag, k) = DZero THEN ZMk(TRUE, DShr(z.mag, k)) ELSE ZMk(TRUE, DAdd(DShr(z.mag, k), DOne))
ZModPow10(z, k) == IF ~z.neg \/ DLow(z.mag, k) = DZero THEN DLow(z.mag, k) ELSE DSub(DPow10(k), DLow(z.mag, k))   \* a natural < 10^k
(* truncating division (what machine integer division does) *)
ZTruncDivPow10(z, k) == ZMk(z.neg, DShr(z.mag, k))

(* ---- decimal text (sequences of character codes) ---- *)
DText(a) == [i \in 1..Len(a) |-> 48 + a[i]]
ZText(z) == IF z.neg THEN <<45>> \o DText(z.mag) ELSE DText(z.mag)
DIsDigits(t) == Len(t) >= 1 /\ \A i \in 1..Len(t) : t[i] >= 48 /\ t[i] <= 57
DOfText(t) == DNorm([i \in 1..Len(t) |-> t[i] - 48])                   \* leading zeros allowed
(* an optionally signed decimal numeral ("+" / "-" then at least one digit), as strconv.ParseInt(s, 10, 64) reads it *)
ZIsNumeral(t) == Len(t) >= 1 /\ (IF t[1] = 43 \/ t[1] = 45 THEN DIsDigits(Tail(t)) ELSE DIsDigits(t))
ZOfText(t) == IF t[1] = 45 THEN ZMk(TRUE, DOfText(Tail(t))) ELSE IF t[1] = 43 THEN ZNat(DOfText(Tail(t))) ELSE ZNat(DOfText(t))

(* ---- the 64-bit boundaries ---- *)
D2p63 == <<9,2,2,3,3,7,2,0,3,6,8,5,4,7,7,5,8,0,8>>          \* 2^63  = 9223372036854775808
D2p64 == <<1,8,4,4,6,7,4,4,0,7,3,7,0,9,5,5,1,6,1,6>>        \* 2^64  = 18446744073709551616
ZMaxI64 == ZNat(DSub(D2p63, DOne))
ZMinI64 == ZMk(TRUE, D2p63)
ZInI64(z) == ZLe(ZMinI64, z) /\ ZLe(z, ZMaxI64)
DInU64(a) == DLt(a, D2p64)

ASSUME DPow2(63) = D2p63 /\ DPow2(64) = D2p64
ASSUME DAdd(<<9, 9, 9>>, <<1>>) = <<1, 0, 0, 0>> /\ DSub(<<1, 0, 0, 0>>, <<1>>) = <<9, 9, 9>> /\ DSub(<<7>>, <<7>>) = DZero
ASSUME DMul(DSub(D2p64, DOne), DSub(D2p64, DOne)) = DAdd(DSub(DMul(D2p64, D2p64), DMulSmall(D2p64, 2)), DOne)     \* (x-1)^2 = x^2 - 2x + 1
ASSUME DMulSmall(<<1, 2, 3, 4, 5, 6, 7, 8, 9>>, 100000000) = DShl(<<1, 2, 3, 4, 5, 6, 7, 8, 9>>, 8)
ASSUME DDivSmall(D2p64, 10000000) = <<DShr(D2p64, 7), DToInt(DLow(D2p64, 7))>>
ASSUME DDivSmall(<<1, 0, 0>>, 7) = <<<<1, 4>>, 2>>
ASSUME DFromBytesBE(<<255, 255, 255, 255, 255, 255, 255, 255>>) = DSub(D2p64, DOne)
ASSUME DToBytesLE(D2p63, 8) = <<0, 0, 0, 0, 0, 0, 0, 128>> /\ DFromBytesLE(<<0, 0, 0, 0, 0, 0, 0, 128>>) = D2p63
ASSUME DToNibbles(DFromNibbles(<<1, 13, 1, 9, 13, 10, 13, 6, 11, 10, 7, 11, 8, 1, 0>>), 15) = <<1, 13, 1, 9, 13, 10, 13, 6, 11, 10, 7, 11, 8, 1, 0>>
ASSUME DFromNibbles(<<1, 13, 1, 9, 13, 10, 13, 6, 11, 10, 7, 11, 8, 1, 0>>) = <<1,3,1,0,5,9,2,3,2,3,3,1,5,1,1,8,2,4>>   \* 0x1d19dad6ba7b810
ASSUME ZFloorDivPow10(ZMk(TRUE, <<1, 5>>), 1) = ZMk(TRUE, <<2>>) /\ ZModPow10(ZMk(TRUE, <<1, 5>>), 1) = <<5>>      \* -15 = -2*10 + 5
ASSUME ZFloorDivPow10(ZMk(TRUE, <<2, 0>>), 1) = ZMk(TRUE, <<2>>) /\ ZModPow10(ZMk(TRUE, <<2, 0>>), 1) = <<0>>
ASSUME ZTruncDivPow10(ZMk(TRUE, <<1, 5>>), 1) = ZMk(TRUE, <<1>>)
ASSUME ZAdd(ZMk(TRUE, <<5>>), ZNat(<<1, 2>>)) = ZNat(<<7>>) /\ ZSub(ZNat(<<5>>), ZNat(<<1, 2>>)) = ZMk(TRUE, <<7>>) /\ ZSub(ZNat(<<5>>), ZNat(<<5>>)) = ZZero
ASSUME ZOfText(<<45, 48, 48, 55>>) = ZMk(TRUE, <<7>>) /\ ZText(ZMinI64) = <<45>> \o DText(D2p63) /\ ~ZIsNumeral(<<45>>) /\ ~ZIsNumeral(<<>>) /\ ZIsNumeral(<<43, 49>>)
ASSUME ZInI64(ZMinI64) /\ ZInI64(ZMaxI64) /\ ~ZInI64(ZNat(D2p63)) /\ ~ZInI64(ZSub(ZMinI64, ZNat(DOne)))
=============================================================================
