------------------------------ MODULE TraceNBT ------------------------------
(* Trace validation (code -> model) for C11 over a real loopback TCP connection established with
   NBTTransport.Connect.  The kernel decides the segmentation, so it is not logged: a "recv" line stands
   for all the reads of one whole frame (the composite of NBTSession!Read steps for that frame), and
   "recv-error" for the end-of-stream read after a cut.  Lines:
     send       n, res ("ok"/"refused"), hdr   the library's Send; hdr = the 4 bytes the peer saw
     peer-send  n, hdr                         the harness peer framed a payload with this header
     recv       k, len, equal                  the library's k-th Receive returned len bytes; equal = they are the k-th payload
     cut        at                             the peer closed after `at` more stream bytes
     recv-error                                Receive returned an error
     reset                                     new connection                                                      *)
EXTENDS NBTSession, TLCExt

VARIABLE l
TraceLog == ndJsonDeserialize("trace.ndjson")
ev == TraceLog[l]
tvars == <<vars, l>>

TraceInit == Init /\ l = 1

RecvWhole ==
    /\ ~rxerr /\ ~desync /\ fr <= Len(sent) /\ off = 0
    /\ Consumed + 4 + sent[fr] <= Arriving
    /\ ParseLen(Header(sent[fr])) = sent[fr]
    /\ ev.k = fr /\ ev.len = sent[fr] /\ ev.equal = TRUE
    /\ delivered' = Append(delivered, fr) /\ fr' = fr + 1
    /\ UNCHANGED <<sent, calls, refused, off, nr, limit, rxerr, desync>>

(* the partial frame (if any) is consumed up to the cut and dropped, then the error is returned *)
RecvError ==
    /\ limit >= 0 /\ ~rxerr
    /\ Consumed + (IF fr <= Len(sent) THEN 4 + sent[fr] ELSE 0) > limit \/ fr > Len(sent)
    /\ rxerr' = TRUE
    /\ UNCHANGED <<sent, calls, refused, fr, off, nr, delivered, limit, desync>>

TraceStep ==
    /\ l <= Len(TraceLog)
    /\ l' = l + 1
    /\ CASE ev.op = "reset" -> /\ sent' = <<>> /\ calls' = 0 /\ refused' = 0 /\ fr' = 1 /\ off' = 0 /\ nr' = 0
                               /\ delivered' = <<>> /\ limit' = -1 /\ rxerr' = FALSE /\ desync' = FALSE
         [] ev.op = "send" -> /\ Send(ev.n)
                              /\ ev.res = (IF refused' > refused THEN "refused" ELSE "ok")
                              /\ ev.hdr = (IF ev.res = "ok" THEN Header(ev.n) ELSE <<>>)
         [] ev.op = "peer-send" -> Send(ev.n) /\ refused' = refused /\ ev.hdr = Header(ev.n)
         [] ev.op = "recv" -> RecvWhole
         [] ev.op = "cut" -> Cut(ev.at)
         [] ev.op = "recv-error" -> RecvError
         [] OTHER -> FALSE

TraceSpec == TraceInit /\ [][TraceStep]_tvars
TraceAccepted == TLCGet("stats").diameter - 1 = Len(TraceLog)
=============================================================================
