----------------------------- MODULE TraceLLMNR -----------------------------
(***************************************************************************)
(* Code -> model for C09.  trace.ndjson holds one line per call made on    *)
(* the real library:                                                       *)
(*   enc      m (abstract message handed to the library), out (the bytes   *)
(*            Message.Encode returned), err                                *)
(*   encname  n (labels), out (bytes EncodeDomainName returned), err       *)
(*   dec      in (wire image), cls ("lib" = produced by the library,       *)
(*            "packed" = written by a compressing encoder, "mutated" =     *)
(*            hostile), ok / hung / panic, m (what DecodeMessage returned) *)
(* The codec is stateless, so every line is judged on its own with the     *)
(* specification's independent RFC 1035 codec and a line that is not a     *)
(* behaviour of the specification is PRINTED with the parts that differ    *)
(* (the orchestrator turns them into fine-grained verdicts) instead of     *)
(* stopping the validation at the first one.  P = implied by the property  *)
(* statement, drift = more specific than the statement.                    *)
(*   P  the independent codec parses the library's output to the same      *)
(*      content (enc, encname)                                             *)
(*   P  the library decodes its own and the compressing codec's output to  *)
(*      the content the specification reads (dec, cls lib / packed)        *)
(*   P  a wire image on which the specification meets a pointer that does  *)
(*      not point strictly backwards is rejected, and decoding returns     *)
(*   D  everything else (lenient acceptance of reserved label types, ...)  *)
(***************************************************************************)
EXTENDS LLMNRMsg, TLCExt, Json

VARIABLE l
TraceLog == ndJsonDeserialize("trace.ndjson")
ev == TraceLog[l]

Good == [ok |-> TRUE, drift |-> FALSE, what |-> "", parts |-> <<>>]
Bad(what, parts) == [ok |-> FALSE, drift |-> FALSE, what |-> what, parts |-> parts]
Drift(what, parts) == [ok |-> FALSE, drift |-> TRUE, what |-> what, parts |-> parts]

JudgeEnc(e) ==
    IF e.err THEN Bad("encode-error", <<>>)
    ELSE LET d == LLMNRDecode(e.out) IN
         IF ~d.ok THEN Bad("rfc1035-parse", <<d.at>>)
         ELSE IF LLMNRDiff(e.m, d.msg) # <<>> THEN Bad("rfc1035-parse", LLMNRDiff(e.m, d.msg))
         ELSE IF d.end # Len(e.out) THEN Drift("trailing-octets", <<>>)
         ELSE Good

JudgeEncName(e) ==
    IF e.err THEN Bad("encode-error", <<>>)
    ELSE LET d == DNSDecName(e.out, 0) IN
         IF ~d.ok THEN Bad("rfc1035-parse", <<d.why>>)
         ELSE IF d.name # e.n THEN Bad("rfc1035-parse", <<"name">>)
         ELSE IF d.end # Len(e.out) THEN Bad("rfc1035-parse", <<"length">>)
         ELSE Good

JudgeDec(e) ==
    LET s == LLMNRDecode(e.in)
        strict == e.cls \in {"lib", "packed"} IN
    IF e.hung THEN Bad("non-termination", <<>>)
    ELSE IF s.ok THEN
        IF e.panic THEN (IF strict THEN Bad("decode:panic", <<>>) ELSE Drift("decode:panic", <<>>))
        ELSE IF ~e.ok THEN (IF strict THEN Bad("decode:rejected", <<>>) ELSE Drift("decode:rejected", <<>>))
        ELSE IF LLMNRDiff(s.msg, e.m) = <<>> THEN Good
        ELSE (IF strict THEN Bad("decode", LLMNRDiff(s.msg, e.m)) ELSE Drift("decode", LLMNRDiff(s.msg, e.m)))
    ELSE IF s.why = "nonbackward" THEN (IF e.ok THEN Bad("nonbackward-pointer-accepted", <<s.at>>) ELSE Good)
    ELSE IF e.ok THEN Drift("lenient-accept", <<s.why, s.at>>) ELSE Good

Judge(e) == CASE e.op = "enc" -> JudgeEnc(e)
              [] e.op = "encname" -> JudgeEncName(e)
              [] e.op = "dec" -> JudgeDec(e)
              [] OTHER -> Bad("unknown-op", <<>>)

Init == l = 1
Step == /\ l <= Len(TraceLog)
        /\ l' = l + 1
        /\ LET v == Judge(ev) IN
           v.ok \/ PrintT(ToJson([line |-> l, op |-> ev.op, drift |-> v.drift, what |-> v.what, parts |-> v.parts]))
TraceSpec == Init /\ [][Step]_l
TraceAccepted == TLCGet("stats").diameter - 1 = Len(TraceLog)
=============================================================================
