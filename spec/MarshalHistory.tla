--------------------------- MODULE MarshalHistory ---------------------------
(***************************************************************************)
(* Repeatability of Marshal (C03) as a state machine over ONE message      *)
(* object.  The observable encoding of an object is a function of its      *)
(* current field values only:  every Marshal returns Encode(fields), no    *)
(* matter which calls were made before.                                    *)
(*                                                                         *)
(*   val   which of three valuations the fields currently have             *)
(*         (0 = as constructed, 1, 2 = after SetField(f, v1) / (f, v2))    *)
(*   hist  the calls made so far (the state graph is the tree of all       *)
(*         histories of length <= MaxLen over M, S1, S2, U)                *)
(*   out   result of the last Marshal, as the sequence of valuations whose *)
(*         parameter/data blocks it contains: the intended design gives    *)
(*         <<val>>, i.e. header(val) \o Frame(words(val), bytes(val))      *)
(*   acc   ghost: what the Parameters/Data accumulators would hold if      *)
(*         Marshal appended to them instead of rebuilding them (the named  *)
(*         deviation AccumulateOnMarshal); U (Unmarshal of the object's    *)
(*         own reference encoding) replaces their content                  *)
(*                                                                         *)
(* Histories of length <= AllLen are run on EVERY structure the library    *)
(* constructs (scope "all"), longer ones on five representatives ("rep").  *)
(* Every transition is printed with the intended result `expect` and the   *)
(* deviation's prediction `dev`; the harness composes the byte strings     *)
(* from reference encodings of FRESH objects (one per valuation) and runs  *)
(* the whole history on the real message.  With AccumulateOnMarshal = TRUE *)
(* the same module is the model of the known-bad implementation and TLC    *)
(* must refute Repeatable (vacuity guard).                                 *)
(***************************************************************************)
EXTENDS Integers, Sequences, TLC, Json

CONSTANTS MaxLen, AllLen, AccumulateOnMarshal, EmitEdges

VARIABLES val, hist, out, acc
vars == <<val, hist, out, acc>>

Emit(op) == EmitEdges =>
    PrintT(ToJson([hist |-> hist', op |-> op, val |-> val', expect |-> <<val'>>, dev |-> acc',
                   scope |-> IF Len(hist') <= AllLen THEN "all" ELSE "rep"]))

Init == val = 0 /\ hist = <<>> /\ out = <<>> /\ acc = <<>>

Marshal ==
    /\ Len(hist) < MaxLen
    /\ hist' = Append(hist, "M")
    /\ acc' = Append(acc, val)
    /\ out' = IF AccumulateOnMarshal THEN acc' ELSE <<val>>
    /\ UNCHANGED val
    /\ Emit("M")
SetField(v) ==
    /\ Len(hist) < MaxLen
    /\ hist' = Append(hist, IF v = 1 THEN "S1" ELSE "S2")
    /\ val' = v
    /\ UNCHANGED <<out, acc>>
    /\ Emit("S")
Unmarshal ==                      \* Unmarshal(Encode(fields)): the fields keep their values
    /\ Len(hist) < MaxLen
    /\ hist' = Append(hist, "U")
    /\ acc' = <<val>>
    /\ UNCHANGED <<val, out>>
    /\ Emit("U")

Next == Marshal \/ SetField(1) \/ SetField(2) \/ Unmarshal
Spec == Init /\ [][Next]_vars

(* C03: whenever the last call was Marshal, its result is the encoding of the current fields and nothing else *)
Repeatable == (hist # <<>> /\ hist[Len(hist)] = "M") => out = <<val>>
=============================================================================
