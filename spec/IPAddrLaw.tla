----------------------------- MODULE IPAddrLaw -----------------------------
(* Closed-formula obligation for C20, discharged by Apalache for ALL addresses and prefix lengths:
   membership by per-octet masks (the formulation of IPAddr.tla: network octet k = octet AND mask octet k, where
   x AND (256 - 2^(8-n)) = x - x mod 2^(8-n)) coincides with standard integer arithmetic on the 32-bit value
   (ip div 2^(32-p) = net div 2^(32-p)). *)
EXTENDS Integers

VARIABLES
    \* @type: Int;
    a1,
    \* @type: Int;
    a2,
    \* @type: Int;
    a3,
    \* @type: Int;
    a4,
    \* @type: Int;
    b1,
    \* @type: Int;
    b2,
    \* @type: Int;
    b3,
    \* @type: Int;
    b4,
    \* @type: Int;
    p

\* the prefix length under proof; the check substitutes 0..32 (one Apalache query each: a constant divisor keeps the
\* arithmetic linear - with a symbolic prefix length the solver did not finish in 5 minutes)
Q == 0

\* @type: (Int) => Int;
Pow2(n) == IF n = 0 THEN 1 ELSE IF n = 1 THEN 2 ELSE IF n = 2 THEN 4 ELSE IF n = 3 THEN 8 ELSE IF n = 4 THEN 16
           ELSE IF n = 5 THEN 32 ELSE IF n = 6 THEN 64 ELSE IF n = 7 THEN 128 ELSE IF n = 8 THEN 256
           ELSE IF n <= 16 THEN 256 * (IF n = 9 THEN 2 ELSE IF n = 10 THEN 4 ELSE IF n = 11 THEN 8 ELSE IF n = 12 THEN 16
                                        ELSE IF n = 13 THEN 32 ELSE IF n = 14 THEN 64 ELSE IF n = 15 THEN 128 ELSE 256)
           ELSE IF n <= 24 THEN 65536 * (IF n = 17 THEN 2 ELSE IF n = 18 THEN 4 ELSE IF n = 19 THEN 8 ELSE IF n = 20 THEN 16
                                          ELSE IF n = 21 THEN 32 ELSE IF n = 22 THEN 64 ELSE IF n = 23 THEN 128 ELSE 256)
           ELSE 16777216 * (IF n = 25 THEN 2 ELSE IF n = 26 THEN 4 ELSE IF n = 27 THEN 8 ELSE IF n = 28 THEN 16
                            ELSE IF n = 29 THEN 32 ELSE IF n = 30 THEN 64 ELSE IF n = 31 THEN 128 ELSE 256)

\* @type: (Int, Int) => Int;
Min(x, y) == IF x < y THEN x ELSE y
\* @type: (Int, Int) => Int;
Max(x, y) == IF x > y THEN x ELSE y
\* network bits falling into octet k
\* @type: (Int, Int) => Int;
BitsIn(q, k) == Min(8, Max(0, q - 8 * (k - 1)))
\* octet AND mask octet, arithmetically
\* @type: (Int, Int, Int) => Int;
NetOctet(x, q, k) == x - (x % Pow2(8 - BitsIn(q, k)))

InSubnetMask(q) == /\ NetOctet(a1, q, 1) = NetOctet(b1, q, 1) /\ NetOctet(a2, q, 2) = NetOctet(b2, q, 2)
                   /\ NetOctet(a3, q, 3) = NetOctet(b3, q, 3) /\ NetOctet(a4, q, 4) = NetOctet(b4, q, 4)
Val(x1, x2, x3, x4) == x1 * 16777216 + x2 * 65536 + x3 * 256 + x4
InSubnetInt(q) == Val(a1, a2, a3, a4) \div Pow2(32 - q) = Val(b1, b2, b3, b4) \div Pow2(32 - q)

Init == /\ a1 \in 0..255 /\ a2 \in 0..255 /\ a3 \in 0..255 /\ a4 \in 0..255
        /\ b1 \in 0..255 /\ b2 \in 0..255 /\ b3 \in 0..255 /\ b4 \in 0..255
        /\ p = Q
Next == UNCHANGED <<a1, a2, a3, a4, b1, b2, b3, b4, p>>
Law == InSubnetMask(Q) <=> InSubnetInt(Q)
=============================================================================
