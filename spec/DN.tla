--------------------------------- MODULE DN ---------------------------------
(***************************************************************************)
(* Distinguished names in their string form (RFC 4514), as Active          *)
(* Directory emits them: RDNs separated by ",", each "type=value", special *)
(* characters of a value escaped with a backslash ("\," "\\" "\+" ... or   *)
(* "\" and two hex digits).  Text is a sequence of code points.            *)
(*                                                                         *)
(*   DnSplit    the RDN strings: split at every comma that is not part of  *)
(*              an escape pair (RFC 4514 section 3: pair = ESC (ESC /      *)
(*              special / hexpair))                                        *)
(*   DnParse    <<[t |-> type, v |-> unescaped value], ...>>               *)
(*   DnEncode   the inverse, escaping the way section 2.4 prescribes       *)
(*   DnDomain   the DNS domain name: the values of the RDNs whose type is  *)
(*              DC (domainComponent, RFC 4519 2.4), in order, joined by "."*)
(***************************************************************************)
EXTENDS Integers, Sequences, TLC

DnESC == 92
DnCOMMA == 44
DnEQ == 61
DnDOT == 46
DnTypeDC == <<68, 67>>                                       \* "DC"

RECURSIVE DnSplitR(_, _, _, _)
DnSplitR(s, i, cur, acc) ==
    IF i > Len(s) THEN Append(acc, cur)
    ELSE IF s[i] = DnESC /\ i < Len(s) THEN DnSplitR(s, i + 2, cur \o <<s[i], s[i + 1]>>, acc)
    ELSE IF s[i] = DnCOMMA THEN DnSplitR(s, i + 1, <<>>, Append(acc, cur))
    ELSE DnSplitR(s, i + 1, Append(cur, s[i]), acc)
DnSplit(s) == IF s = <<>> THEN <<>> ELSE DnSplitR(s, 1, <<>>, <<>>)      \* the empty DN has no RDN

DnIsHex(c) == (c >= 48 /\ c <= 57) \/ (c >= 65 /\ c <= 70) \/ (c >= 97 /\ c <= 102)
DnHexVal(c) == IF c <= 57 THEN c - 48 ELSE IF c <= 70 THEN c - 55 ELSE c - 87
RECURSIVE DnUnescapeR(_, _, _)
DnUnescapeR(s, i, acc) ==
    IF i > Len(s) THEN acc
    ELSE IF s[i] = DnESC /\ i + 1 <= Len(s) /\ DnIsHex(s[i + 1]) /\ i + 2 <= Len(s) /\ DnIsHex(s[i + 2])
         THEN DnUnescapeR(s, i + 3, Append(acc, 16 * DnHexVal(s[i + 1]) + DnHexVal(s[i + 2])))
    ELSE IF s[i] = DnESC /\ i < Len(s) THEN DnUnescapeR(s, i + 2, Append(acc, s[i + 1]))
    ELSE DnUnescapeR(s, i + 1, Append(acc, s[i]))
DnUnescape(s) == DnUnescapeR(s, 1, <<>>)

DnFirstEq(s) == IF \E i \in DOMAIN s : s[i] = DnEQ THEN CHOOSE i \in DOMAIN s : s[i] = DnEQ /\ \A j \in 1..(i - 1) : s[j] # DnEQ ELSE 0
DnRdn(piece) == LET e == DnFirstEq(piece) IN
                IF e = 0 THEN [t |-> piece, v |-> <<>>]
                ELSE [t |-> SubSeq(piece, 1, e - 1), v |-> DnUnescape(SubSeq(piece, e + 1, Len(piece)))]
DnParse(s) == LET ps == DnSplit(s) IN [i \in DOMAIN ps |-> DnRdn(ps[i])]

(* attribute type names are case-insensitive in LDAP (RFC 4512 2.5) *)
DnUpperCode(c) == IF c >= 97 /\ c <= 122 THEN c - 32 ELSE c
DnUpper(s) == [i \in DOMAIN s |-> DnUpperCode(s[i])]
DnIsDC(t) == DnUpper(t) = DnTypeDC

RECURSIVE DnJoinDots(_)
DnJoinDots(vs) == IF vs = <<>> THEN <<>> ELSE IF Len(vs) = 1 THEN vs[1] ELSE vs[1] \o <<DnDOT>> \o DnJoinDots(Tail(vs))
DnDCValues(rdns) == LET RECURSIVE F(_)
                        F(i) == IF i > Len(rdns) THEN <<>> ELSE (IF DnIsDC(rdns[i].t) THEN <<rdns[i].v>> ELSE <<>>) \o F(i + 1)
                    IN F(1)
DnDomainOf(rdns) == DnJoinDots(DnDCValues(rdns))
DnDomain(s) == DnDomainOf(DnParse(s))

(* escaping (RFC 4514 2.4): " + , ; < > \ always; '#' or SPACE first; SPACE last *)
DnSpecial == {34, 43, 44, 59, 60, 62, 92}
DnEscape(v) == LET RECURSIVE F(_)
                   F(i) == IF i > Len(v) THEN <<>>
                           ELSE (IF v[i] \in DnSpecial \/ (i = 1 /\ v[i] \in {35, 32}) \/ (i = Len(v) /\ v[i] = 32)
                                 THEN <<DnESC, v[i]>> ELSE <<v[i]>>) \o F(i + 1)
               IN F(1)
RECURSIVE DnEncode(_)
DnEncode(rdns) == IF rdns = <<>> THEN <<>>
                  ELSE rdns[1].t \o <<DnEQ>> \o DnEscape(rdns[1].v) \o (IF Len(rdns) = 1 THEN <<>> ELSE <<DnCOMMA>> \o DnEncode(Tail(rdns)))

(* what the text contains, for classifying cases *)
DnEscAt(s, i) == /\ s[i] = DnESC                              \* position i starts an escape pair: odd run of backslashes ends at i
                 /\ (LET RECURSIVE Run(_)
                         Run(j) == IF j >= 1 /\ s[j] = DnESC THEN 1 + Run(j - 1) ELSE 0
                     IN Run(i) % 2 = 1)
DnHasEscapedComma(s) == \E i \in 1..(Len(s) - 1) : s[i + 1] = DnCOMMA /\ DnEscAt(s, i)
DnHasHexEscape(s) == \E i \in 1..(Len(s) - 2) : DnIsHex(s[i + 1]) /\ DnIsHex(s[i + 2]) /\ DnEscAt(s, i)
DnAllDCUpper(rdns) == \A i \in DOMAIN rdns : DnIsDC(rdns[i].t) => rdns[i].t = DnTypeDC
(* "" when the DN (RDN list r, text s) is in the form Active Directory emits; otherwise the reason it is not:
   AD writes attribute types in upper case, never writes empty values, and a domainComponent value is a DNS label
   (nothing in it needs escaping). *)
DnFormClass(r, s) == IF ~DnAllDCUpper(r) THEN "lowercase-dc-type"
                     ELSE IF \E i \in DOMAIN r : r[i].v = <<>> THEN "empty-value"
                     ELSE IF \E i \in DOMAIN r : DnIsDC(r[i].t) /\ DnEscape(r[i].v) # r[i].v THEN "dc-value-needs-escaping"
                     ELSE IF DnHasHexEscape(s) THEN "hex-escape"
                     ELSE ""

(* known answers (RFC 4514 section 4 examples and the AD form) *)
ASSUME DnDomain(<<67,78,61,74,111,104,110,44,79,85,61,85,44,68,67,61,101,120,97,109,112,108,101,44,68,67,61,99,111,109>>)
         = <<101,120,97,109,112,108,101,46,99,111,109>>                       \* CN=John,OU=U,DC=example,DC=com -> example.com
ASSUME DnParse(<<85,73,68,61,106,115,109,105,116,104,44,68,67,61,101,120,97,109,112,108,101,44,68,67,61,110,101,116>>)
         = << [t |-> <<85,73,68>>, v |-> <<106,115,109,105,116,104>>], [t |-> <<68,67>>, v |-> <<101,120,97,109,112,108,101>>],
              [t |-> <<68,67>>, v |-> <<110,101,116>>] >>                      \* UID=jsmith,DC=example,DC=net
ASSUME DnParse(<<67,78,61,74,97,109,101,115,32,92,34,74,105,109,92,34,32,83,109,105,116,104,92,44,32,73,73,73,44,68,67,61,110,101,116>>)
         = << [t |-> <<67,78>>, v |-> <<74,97,109,101,115,32,34,74,105,109,34,32,83,109,105,116,104,44,32,73,73,73>>],
              [t |-> <<68,67>>, v |-> <<110,101,116>>] >>                      \* CN=James \"Jim\" Smith\, III,DC=net
ASSUME DnParse(<<67,78,61,66,101,102,111,114,101,92,48,100,65,102,116,101,114,44,68,67,61,110,101,116>>)[1].v
         = <<66,101,102,111,114,101,13,65,102,116,101,114>>                    \* CN=Before\0dAfter,DC=net
ASSUME DnDomain(<<67,78,61,97,92,44,68,67,61,101,118,105,108,44,68,67,61,99,111,114,112>>) = <<99,111,114,112>>   \* CN=a\,DC=evil,DC=corp -> corp
ASSUME DnDomain(<<67,78,61,97,92,92,44,68,67,61,99,111,114,112>>) = <<99,111,114,112>>                            \* CN=a\\,DC=corp -> corp
ASSUME DnDomain(<<>>) = <<>>
ASSUME DnEscape(<<97,44,98>>) = <<97,92,44,98>> /\ DnEscape(<<32,97,32>>) = <<92,32,97,92,32>>
=============================================================================
