----------------------------- MODULE SMBEnvelope -----------------------------
(***************************************************************************)
(* C05, the parts outside the command structures:                          *)
(*  - the fixed 32-byte SMB_Header, MS-CIFS 2.2.3.1:                       *)
(*      Protocol(4) = 0xFF 'S' 'M' 'B', Command(1), Status(4), Flags(1),   *)
(*      Flags2(2), PIDHigh(2), SecurityFeatures(8), Reserved(2), TID(2),   *)
(*      PIDLow(2), UID(2), MID(2); multi-byte integers little-endian;      *)
(*  - the dialect array of SMB_COM_NEGOTIATE, MS-CIFS 2.2.4.52.1: each     *)
(*      dialect is BufferFormat 0x02 followed by a null-terminated string. *)
(***************************************************************************)
EXTENDS SMBAtoms, Json

CONSTANT Part            \* "header" | "dialects"
VARIABLE c

HeaderFields == << <<"Protocol", 4, "raw">>, <<"Command", 1, "int">>, <<"Status", 4, "int">>, <<"Flags", 1, "int">>,
                   <<"Flags2", 2, "int">>, <<"PIDHigh", 2, "int">>, <<"SecurityFeatures", 8, "raw">>, <<"Reserved", 2, "int">>,
                   <<"TID", 2, "int">>, <<"PIDLow", 2, "int">>, <<"UID", 2, "int">>, <<"MID", 2, "int">> >>
HN == Len(HeaderFields)
HOff[i \in 1..(HN + 1)] == IF i = 1 THEN 0 ELSE HOff[i - 1] + HeaderFields[i - 1][2]
ASSUME HOff[HN + 1] = 32      \* the field widths add up to the 32 bytes MS-CIFS states

HeaderPats == {<<"distinct", 0>>, <<"zero", 0>>, <<"max", 0>>} \cup {<<"chg", i>> : i \in 2..HN}
HDigit(pat, i, pos) == CASE pat[1] = "zero" -> 0 [] pat[1] = "max" -> 255
                         [] pat[1] = "chg" /\ pat[2] = i -> 144 + pos [] OTHER -> 16 + pos
(* value of field i: numeral (most significant digit first) for integers, the bytes themselves for raw fields *)
HVal(pat, i) == LET w == HeaderFields[i][2]
                IN IF i = 1 THEN <<255, 83, 77, 66>>
                   ELSE IF HeaderFields[i][3] = "raw" THEN [j \in 1..w |-> HDigit(pat, i, HOff[i] + j - 1)]
                   ELSE [j \in 1..w |-> HDigit(pat, i, HOff[i] + (w - j))]
HWire(pat, i) == IF HeaderFields[i][3] = "raw" THEN HVal(pat, i) ELSE LEBytes(HVal(pat, i))
EncodeHeader(pat) == Flatten([i \in 1..HN |-> HWire(pat, i)])

ASSUME EncodeHeader(<<"zero", 0>>) = <<255, 83, 77, 66>> \o Zeros(28)
ASSUME SubSeq(EncodeHeader(<<"distinct", 0>>), 5, 12) = <<20, 21, 22, 23, 24, 25, 26, 27>>

Names4 == {DialectNames[13], DialectNames[5], DialectNames[2], <<65>>}
DialectLists == {SubSeq(DialectNames, 1, n) : n \in 0..13}
                \cup {<<DialectNames[i]>> : i \in 1..13}
                \cup {<<a, b>> : a \in Names4, b \in Names4}
                \cup {<<a, b, a>> : a \in Names4, b \in Names4}

Emit(r) == PrintT(ToJson(r))
Init ==
    \/ /\ Part = "header"
       /\ \E pat \in HeaderPats :
            /\ c = <<"h", pat>>
            /\ Emit([k |-> pat[1] \o (IF pat[1] = "chg" THEN ":" \o HeaderFields[pat[2]][1] ELSE ""),
                     vals |-> [n \in {HeaderFields[i][1] : i \in 1..HN} |->
                                 HVal(pat, CHOOSE i \in 1..HN : HeaderFields[i][1] = n)],
                     slots |-> [n \in {HeaderFields[i][1] : i \in 1..HN} |->
                                 LET i == CHOOSE i \in 1..HN : HeaderFields[i][1] = n IN <<HOff[i], HOff[i + 1] - 1>>],
                     wire |-> EncodeHeader(pat)])
    \/ /\ Part = "dialects"
       /\ \E ns \in DialectLists : c = <<"d", ns>> /\ Emit([names |-> ns, wire |-> DialectsWire(ns)])
Next == FALSE /\ UNCHANGED c
=============================================================================
