------------------------------- MODULE BigDec -------------------------------
(* Decimal text of unsigned magnitudes that do not fit TLC's 32-bit integers: a magnitude is a
   big-endian sequence of bytes (base 256); the result is a sequence of ASCII digit codes.
   Long division by ten, one byte at a time -- no intermediate value exceeds 9*256+255. *)
EXTENDS Integers, Sequences

BDIsZero(s) == \A i \in DOMAIN s : s[i] = 0

(* <<quotient (same length, big-endian), remainder>> of s / 10 *)
RECURSIVE BDDiv10(_, _, _)
BDDiv10(s, rem, acc) ==
    IF s = <<>> THEN <<acc, rem>>
    ELSE LET cur == rem * 256 + Head(s) IN BDDiv10(Tail(s), cur % 10, Append(acc, cur \div 10))

RECURSIVE BDDecR(_, _)
BDDecR(s, acc) == IF BDIsZero(s) THEN acc
                   ELSE LET qr == BDDiv10(s, 0, <<>>) IN BDDecR(qr[1], <<qr[2]>> \o acc)

(* decimal digits (0..9), most significant first, no leading zeros, <<0>> for zero *)
BDDigits(beBytes) == IF BDIsZero(beBytes) THEN <<0>> ELSE BDDecR(beBytes, <<>>)
(* the same as ASCII codes *)
BDText(beBytes) == LET d == BDDigits(beBytes) IN [i \in DOMAIN d |-> 48 + d[i]]
(* small naturals *)
RECURSIVE BDTextNatR(_, _)
BDTextNatR(n, acc) == IF n = 0 THEN acc ELSE BDTextNatR(n \div 10, <<48 + (n % 10)>> \o acc)
BDTextNat(n) == IF n = 0 THEN <<48>> ELSE BDTextNatR(n, <<>>)

BDReverse(s) == [i \in DOMAIN s |-> s[Len(s) + 1 - i]]

BDUpperHex(n) == IF n < 10 THEN 48 + n ELSE 55 + n       \* 0-9 A-F
BDLowerHex(n) == IF n < 10 THEN 48 + n ELSE 87 + n       \* 0-9 a-f
RECURSIVE BDHexText(_, _)
BDHexText(s, upper) == IF s = <<>> THEN <<>>
                       ELSE (IF upper THEN <<BDUpperHex(s[1] \div 16), BDUpperHex(s[1] % 16)>>
                                      ELSE <<BDLowerHex(s[1] \div 16), BDLowerHex(s[1] % 16)>>) \o BDHexText(Tail(s), upper)

ASSUME BDDigits(<<255, 255, 255, 255>>) = <<4, 2, 9, 4, 9, 6, 7, 2, 9, 5>>                    \* 2^32-1
ASSUME BDDigits(<<255, 255, 255, 255, 255, 255>>) = <<2, 8, 1, 4, 7, 4, 9, 7, 6, 7, 1, 0, 6, 5, 5>>   \* 2^48-1
ASSUME BDDigits(<<0, 0, 1, 0, 0, 0, 0>>) = <<4, 2, 9, 4, 9, 6, 7, 2, 9, 6>>                   \* 2^32
ASSUME BDDigits(<<0, 0>>) = <<0>> /\ BDDigits(<<>>) = <<0>> /\ BDDigits(<<0, 10>>) = <<1, 0>>
ASSUME BDTextNat(0) = <<48>> /\ BDTextNat(828) = <<56, 50, 56>>
=============================================================================
