------------------------------ MODULE LLMNRMsg ------------------------------
(***************************************************************************)
(* LLMNR messages (RFC 4795 section 2.1) = the RFC 1035 section 4.1 layout:*)
(*                                                                         *)
(*   header   ID(16) FLAGS(16: QR Opcode C TC T Z Z Z Z RCODE)             *)
(*            QDCOUNT(16) ANCOUNT(16) NSCOUNT(16) ARCOUNT(16)              *)
(*   question QNAME QTYPE(16) QCLASS(16)                      (4.1.2)      *)
(*   RR       NAME TYPE(16) CLASS(16) TTL(32) RDLENGTH(16) RDATA   (4.1.3) *)
(*   sections question, answer, authority, additional, in this order, with *)
(*   QDCOUNT/ANCOUNT/NSCOUNT/ARCOUNT entries.  All integers big-endian.    *)
(*                                                                         *)
(* Abstract message:                                                       *)
(*   [id, flags, qd : Seq([n, t, c]), an, ns, ar : Seq([n, t, c, ttl, rd])]*)
(*   n = label sequence (DNSName), ttl = <<high 16 bits, low 16 bits>>     *)
(*   (TLC integers are 32-bit signed), rd = byte sequence (opaque RDATA).  *)
(* This codec is independent of the library: LLMNREncode (no compression), *)
(* LLMNREncodeC (RFC 1035 4.1.4 compression of every owner/question name)  *)
(* and LLMNRDecode (accepts both).                                         *)
(***************************************************************************)
EXTENDS DNSName

LLMNRU16(n) == <<n \div 256, n % 256>>
LLMNRGet16(data, off) == data[off + 1] * 256 + data[off + 2]

LLMNRHeader(m) == LLMNRU16(m.id) \o LLMNRU16(m.flags) \o LLMNRU16(Len(m.qd)) \o LLMNRU16(Len(m.an))
                  \o LLMNRU16(Len(m.ns)) \o LLMNRU16(Len(m.ar))
LLMNRQTail(q) == LLMNRU16(q.t) \o LLMNRU16(q.c)
LLMNRRRTail(r) == LLMNRU16(r.t) \o LLMNRU16(r.c) \o LLMNRU16(r.ttl[1]) \o LLMNRU16(r.ttl[2]) \o LLMNRU16(Len(r.rd)) \o r.rd

(* entries in wire order, tagged *)
LLMNRItems(m) == [i \in 1..Len(m.qd) |-> [q |-> TRUE, n |-> m.qd[i].n, tail |-> LLMNRQTail(m.qd[i])]]
              \o [i \in 1..Len(m.an) |-> [q |-> FALSE, n |-> m.an[i].n, tail |-> LLMNRRRTail(m.an[i])]]
              \o [i \in 1..Len(m.ns) |-> [q |-> FALSE, n |-> m.ns[i].n, tail |-> LLMNRRRTail(m.ns[i])]]
              \o [i \in 1..Len(m.ar) |-> [q |-> FALSE, n |-> m.ar[i].n, tail |-> LLMNRRRTail(m.ar[i])]]

RECURSIVE LLMNRPlain(_, _)
LLMNRPlain(items, i) == IF i > Len(items) THEN <<>> ELSE DNSEncName(items[i].n) \o items[i].tail \o LLMNRPlain(items, i + 1)
LLMNREncode(m) == LLMNRHeader(m) \o LLMNRPlain(LLMNRItems(m), 1)

RECURSIVE LLMNRPacked(_, _, _, _)
LLMNRPacked(items, i, off, dict) ==
    IF i > Len(items) THEN <<>>
    ELSE LET e == DNSEncNameC(items[i].n, off, dict)
             b == e.bytes \o items[i].tail
         IN b \o LLMNRPacked(items, i + 1, off + Len(b), e.dict)
LLMNREncodeC(m) == LLMNRHeader(m) \o LLMNRPacked(LLMNRItems(m), 1, 12, <<>>)

(* ---- decoding ---- *)
LLMNRDecQ(data, off) ==
    LET nm == DNSDecName(data, off) IN
    IF ~nm.ok THEN [ok |-> FALSE, why |-> nm.why, v |-> <<>>, end |-> off, ptrs |-> <<>>]
    ELSE IF nm.end + 4 > Len(data) THEN [ok |-> FALSE, why |-> "truncated", v |-> <<>>, end |-> off, ptrs |-> <<>>]
    ELSE [ok |-> TRUE, why |-> "", end |-> nm.end + 4, ptrs |-> nm.ptrs,
          v |-> [n |-> nm.name, t |-> LLMNRGet16(data, nm.end), c |-> LLMNRGet16(data, nm.end + 2)]]
LLMNRDecRR(data, off) ==
    LET nm == DNSDecName(data, off) IN
    IF ~nm.ok THEN [ok |-> FALSE, why |-> nm.why, v |-> <<>>, end |-> off, ptrs |-> <<>>]
    ELSE IF nm.end + 10 > Len(data) THEN [ok |-> FALSE, why |-> "truncated", v |-> <<>>, end |-> off, ptrs |-> <<>>]
    ELSE LET rdl == LLMNRGet16(data, nm.end + 8) IN
         IF nm.end + 10 + rdl > Len(data) THEN [ok |-> FALSE, why |-> "truncated", v |-> <<>>, end |-> off, ptrs |-> <<>>]
         ELSE [ok |-> TRUE, why |-> "", end |-> nm.end + 10 + rdl, ptrs |-> nm.ptrs,
               v |-> [n |-> nm.name, t |-> LLMNRGet16(data, nm.end), c |-> LLMNRGet16(data, nm.end + 2),
                      ttl |-> <<LLMNRGet16(data, nm.end + 4), LLMNRGet16(data, nm.end + 6)>>,
                      rd |-> SubSeq(data, nm.end + 11, nm.end + 10 + rdl)]]

(* count entries of one section starting at off; vs = entries read so far; ptrs = all pointer targets followed *)
RECURSIVE LLMNRDecSeq(_, _, _, _, _, _)
LLMNRDecSeq(isQ, data, off, count, vs, ptrs) ==
    IF count = 0 THEN [ok |-> TRUE, why |-> "", vs |-> vs, end |-> off, ptrs |-> ptrs]
    ELSE LET r == IF isQ THEN LLMNRDecQ(data, off) ELSE LLMNRDecRR(data, off) IN
         IF ~r.ok THEN [ok |-> FALSE, why |-> r.why, vs |-> vs, end |-> off, ptrs |-> ptrs]
         ELSE LLMNRDecSeq(isQ, data, r.end, count - 1, Append(vs, r.v), ptrs \o r.ptrs)

LLMNRNoMsg == [id |-> 0, flags |-> 0, qd |-> <<>>, an |-> <<>>, ns |-> <<>>, ar |-> <<>>]
(* Result: [ok, at, why, msg, end, ptrs]; at = "" or the part that could not be read ("Header", "Questions", ...);
   msg holds what was read before the failure. *)
LLMNRDecode(data) ==
    IF Len(data) < 12 THEN [ok |-> FALSE, at |-> "Header", why |-> "truncated", msg |-> LLMNRNoMsg, end |-> 0, ptrs |-> <<>>]
    ELSE
    LET h  == [LLMNRNoMsg EXCEPT !.id = LLMNRGet16(data, 0), !.flags = LLMNRGet16(data, 2)]
        qd == LLMNRDecSeq(TRUE, data, 12, LLMNRGet16(data, 4), <<>>, <<>>)
        an == LLMNRDecSeq(FALSE, data, qd.end, LLMNRGet16(data, 6), <<>>, qd.ptrs)
        ns == LLMNRDecSeq(FALSE, data, an.end, LLMNRGet16(data, 8), <<>>, an.ptrs)
        ar == LLMNRDecSeq(FALSE, data, ns.end, LLMNRGet16(data, 10), <<>>, ns.ptrs)
        m1 == [h EXCEPT !.qd = qd.vs]
        m2 == [m1 EXCEPT !.an = an.vs]
        m3 == [m2 EXCEPT !.ns = ns.vs]
        m4 == [m3 EXCEPT !.ar = ar.vs]
    IN IF ~qd.ok THEN [ok |-> FALSE, at |-> "Questions", why |-> qd.why, msg |-> m1, end |-> qd.end, ptrs |-> qd.ptrs]
       ELSE IF ~an.ok THEN [ok |-> FALSE, at |-> "Answers", why |-> an.why, msg |-> m2, end |-> an.end, ptrs |-> an.ptrs]
       ELSE IF ~ns.ok THEN [ok |-> FALSE, at |-> "Authority", why |-> ns.why, msg |-> m3, end |-> ns.end, ptrs |-> ns.ptrs]
       ELSE IF ~ar.ok THEN [ok |-> FALSE, at |-> "Additional", why |-> ar.why, msg |-> m4, end |-> ar.end, ptrs |-> ar.ptrs]
       ELSE [ok |-> TRUE, at |-> "", why |-> "", msg |-> m4, end |-> ar.end, ptrs |-> ar.ptrs]

(* the parts in which two abstract messages differ (names for verdict aspects) *)
LLMNRDiff(a, b) ==
    (IF a.id = b.id THEN <<>> ELSE <<"Header.ID">>) \o (IF a.flags = b.flags THEN <<>> ELSE <<"Header.Flags">>)
    \o (IF a.qd = b.qd THEN <<>> ELSE <<"Questions">>) \o (IF a.an = b.an THEN <<>> ELSE <<"Answers">>)
    \o (IF a.ns = b.ns THEN <<>> ELSE <<"Authority">>) \o (IF a.ar = b.ar THEN <<>> ELSE <<"Additional">>)

(* ---- known answers ----
   A response in the format of RFC 4795 2.1 written out by hand: ID 0x1234, flags QR, question
   "host" A IN, answer "host" A IN ttl 30 rdata 192.0.2.1; the compressed form points the answer's name at offset 12. *)
LLMNRkHost == <<104, 111, 115, 116>>
LLMNRkMsg == [id |-> 4660, flags |-> 32768, qd |-> <<[n |-> <<LLMNRkHost>>, t |-> 1, c |-> 1]>>,
              an |-> <<[n |-> <<LLMNRkHost>>, t |-> 1, c |-> 1, ttl |-> <<0, 30>>, rd |-> <<192, 0, 2, 1>>]>>,
              ns |-> <<>>, ar |-> <<>>]
LLMNRkPlain == <<18, 52, 128, 0, 0, 1, 0, 1, 0, 0, 0, 0>> \o <<4, 104, 111, 115, 116, 0, 0, 1, 0, 1>>
               \o <<4, 104, 111, 115, 116, 0, 0, 1, 0, 1, 0, 0, 0, 30, 0, 4, 192, 0, 2, 1>>
LLMNRkPacked == <<18, 52, 128, 0, 0, 1, 0, 1, 0, 0, 0, 0>> \o <<4, 104, 111, 115, 116, 0, 0, 1, 0, 1>>
               \o <<192, 12, 0, 1, 0, 1, 0, 0, 0, 30, 0, 4, 192, 0, 2, 1>>
ASSUME LLMNRKnownAnswers ==
    /\ LLMNREncode(LLMNRkMsg) = LLMNRkPlain
    /\ LLMNREncodeC(LLMNRkMsg) = LLMNRkPacked
    /\ LLMNRDecode(LLMNRkPlain).ok /\ LLMNRDecode(LLMNRkPlain).msg = LLMNRkMsg /\ LLMNRDecode(LLMNRkPlain).end = 42
    /\ LLMNRDecode(LLMNRkPacked).ok /\ LLMNRDecode(LLMNRkPacked).msg = LLMNRkMsg /\ LLMNRDecode(LLMNRkPacked).ptrs = <<12>>
    /\ LLMNRDecode(SubSeq(LLMNRkPlain, 1, 41)).at = "Answers"
    /\ LLMNRDecode([LLMNRkPlain EXCEPT ![10] = 1]).at = "Authority"       \* NSCOUNT = 1 but no record follows
    /\ LLMNRDiff(LLMNRkMsg, [LLMNRkMsg EXCEPT !.ns = LLMNRkMsg.an, !.id = 1]) = <<"Header.ID", "Authority">>
=============================================================================
