--------------------------- MODULE TraceSMBTypes ---------------------------
(***************************************************************************)
(* C06 code -> model.  Every line of trace.ndjson is one recorded          *)
(* execution on the real code:                                             *)
(*   t    type name            v   the field values that were marshalled   *)
(*   enc  bytes Marshal gave   suf a random non-empty suffix               *)
(*   r0   outcome of Unmarshal(enc)           [n, err, panic, dv]          *)
(*   r1   outcome of Unmarshal(enc \o suf)    [n, err, panic, dv]          *)
(*   merr Marshal refused the value                                        *)
(* TLC evaluates the specification's own codec on v and judges the event:  *)
(*   P (property C06)  no error / panic, n = Len(enc), dv = what SMBTypes  *)
(*                     decodes from  Enc(v) \o suf  (= v by RoundTripLaw,  *)
(*                     which is asserted for every event)                  *)
(*   D (model detail)  enc = Enc(v) in the library layout                  *)
(* A conforming event is a silent step; for any other event the step also  *)
(* prints its verdict (the failed aspects), so that one run judges the     *)
(* whole trace even when known defects are present.  Acceptance = every    *)
(* line was consumed (TraceAccepted) and no verdict line was printed.      *)
(***************************************************************************)
EXTENDS SMBTypes, TLC, TLCExt, Json

VARIABLE l
TraceLog == ndJsonDeserialize("trace.ndjson")
ev == TraceLog[l]

Norm(t, dv) == IF t = "dirinfo" THEN [dv EXCEPT !.name = RTrim(@)] ELSE dv

(* the kinds of failure of one Unmarshal outcome r against the expected decode x and the real encoding enc *)
Kinds(t, r, x, enc) ==
    IF r.panic THEN {"panic"}
    ELSE IF r.err THEN {"unmarshal-error"}
    ELSE (IF r.n # Len(enc) THEN {"consumed"} ELSE {})
         \cup { "roundtrip:" \o f : f \in { g \in DOMAIN x.v : Norm(t, r.dv)[g] # x.v[g] } }

Verdict(e) ==
    IF e.merr THEN [p |-> {"marshal-error"}, d |-> {}]
    ELSE LET spec == Enc(e.t, e.v, TRUE)
             x0   == Dec(e.t, spec, TRUE)
             x1   == Dec(e.t, spec \o e.suf, TRUE)
             k0   == Kinds(e.t, e.r0, x0, e.enc)
             k1   == Kinds(e.t, e.r1, x1, e.enc)
         IN IF ~(RoundTripLaw(e.t, e.v, <<>>, TRUE) /\ RoundTripLaw(e.t, e.v, e.suf, TRUE))
            THEN Assert(FALSE, <<"specification-level failure: RoundTripLaw does not hold in SMBTypes for", e.t, e.v>>)
            ELSE [p |-> k0 \cup { "suffix:" \o k : k \in k1 \ k0 },
                  d |-> IF e.enc # spec THEN {"layout"} ELSE {}]

RECURSIVE SetToSeq(_)
SetToSeq(S) == IF S = {} THEN <<>> ELSE LET m == CHOOSE m \in S : TRUE IN <<m>> \o SetToSeq(S \ {m})

Init == l = 1
Step ==
    /\ l <= Len(TraceLog)
    /\ l' = l + 1
    /\ LET vd == Verdict(ev) IN
       \/ vd.p = {} /\ vd.d = {}
       \/ /\ vd.p \cup vd.d # {}
          /\ PrintT(ToJson([i |-> l, t |-> ev.t, p |-> SetToSeq(vd.p), d |-> SetToSeq(vd.d)]))

TraceSpec == Init /\ [][Step]_l
TraceAccepted == TLCGet("stats").diameter - 1 = Len(TraceLog)
=============================================================================
