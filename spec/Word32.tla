------------------------------- MODULE Word32 -------------------------------
(* 32-bit words as <<hi16, lo16>> (TLC integers are 32-bit signed). *)
EXTENDS Integers, Sequences, Bitwise

W(hi, lo) == <<hi, lo>>
WAdd(a, b) == LET lo == a[2] + b[2] IN <<(a[1] + b[1] + lo \div 65536) % 65536, lo % 65536>>
WAnd(a, b) == <<a[1] & b[1], a[2] & b[2]>>
WOr(a, b) == <<a[1] | b[1], a[2] | b[2]>>
WXor(a, b) == <<a[1] ^^ b[1], a[2] ^^ b[2]>>
WNot(a) == <<65535 - a[1], 65535 - a[2]>>
(* rotate left by s in 0..31 *)
WRol(a, s) ==
    LET x == IF s >= 16 THEN <<a[2], a[1]>> ELSE a
        r == s % 16
        p == 2 ^ r
        q == 2 ^ (16 - r)
    IN IF r = 0 THEN x
       ELSE <<((x[1] * p) % 65536) + (x[2] \div q), ((x[2] * p) % 65536) + (x[1] \div q)>>
(* four little-endian bytes <-> word *)
WFromLE(b) == <<b[3] + 256 * b[4], b[1] + 256 * b[2]>>
WToLE(a) == <<a[2] % 256, a[2] \div 256, a[1] % 256, a[1] \div 256>>
=============================================================================
