----------------------------- MODULE NBTSession -----------------------------
(***************************************************************************)
(* The NetBIOS session transport (network/netbios/nbt: Send / Receive)     *)
(* over a TCP byte stream, RFC 1002 section 4.3.1:                         *)
(*                                                                         *)
(*    TYPE (1 byte, 0x00 = SESSION MESSAGE) | FLAGS (1 byte, bit 0 = E =   *)
(*    length extension) | LENGTH (2 bytes, big-endian)  -- a 17-bit length *)
(*                                                                         *)
(* A byte holds values 0..Base-1, so the same module is the real transport *)
(* (Base = 256: lengths 0..131071) and a scaled one (Base = 4: lengths     *)
(* 0..31) that TLC explores exhaustively.  Payload content is a function   *)
(* of (frame number, position) and therefore never enters the state.       *)
(*                                                                         *)
(* One action per event of the system: the sender's Send(n) call, each     *)
(* read the receiver's ReadFull obtains from the stream (the peer/network  *)
(* decides how many bytes it returns: the segmentation), the cut of the    *)
(* connection after an arbitrary byte offset, and the end-of-stream read.  *)
(***************************************************************************)
EXTENDS Integers, Sequences, TLC, Json

CONSTANTS Base,        \* values per byte
          Lens,        \* payload lengths Send is called with
          MaxFrames,   \* number of Send calls explored
          ReadSizes,   \* sizes a stream read may return ({} = every size 1..need); need and need-1 are always explored
          MaxReads,    \* reads per header/body phase before the rest arrives at once (bounds the graph for Base = 256)
          CutOffsets,  \* how far past the bytes already consumed a cut may let the stream run ({} = every offset)
          Len17,       \* TRUE = intended design; FALSE = deviation: 16-bit length, E bit ignored by sender and receiver
          Refuse,      \* TRUE = intended design: over-long payloads are refused; FALSE = deviation: framed anyway
          EmitEdges

VARIABLES sent,        \* lengths of the frames put on the stream, in order
          calls,       \* number of Send calls made
          refused,     \* number of Send calls refused
          fr, off,     \* receiver position: frame index (1-based) and bytes of that frame already consumed
          nr,          \* reads made in the current phase
          delivered,   \* results of Receive so far: frame indices, in order
          limit,       \* -1 while the connection is up; after a cut, the total number of stream bytes that will ever arrive
          rxerr,       \* the receiver has returned an error (end of its life)
          desync       \* the receiver parsed a length different from the one sent (it would mis-frame from here on)

vars == <<sent, calls, refused, fr, off, nr, delivered, limit, rxerr, desync>>

MaxLen == 2 * Base * Base - 1
FieldMax == IF Len17 THEN MaxLen ELSE Base * Base - 1
(* header the sender writes for a payload of n bytes *)
Header(n) == <<0, IF Len17 THEN (n \div (Base * Base)) % 2 ELSE 0, (n \div Base) % Base, n % Base>>
(* length the receiver derives from a header *)
ParseLen(h) == (IF Len17 THEN (h[2] % 2) * Base * Base ELSE 0) + h[3] * Base + h[4]

RECURSIVE SumTo(_, _)
SumTo(s, k) == IF k = 0 THEN 0 ELSE 4 + s[k] + SumTo(s, k - 1)
Consumed == SumTo(sent, fr - 1) + off           \* stream bytes the receiver has consumed
OnWire == SumTo(sent, Len(sent))                \* stream bytes written by the sender
Arriving == IF limit < 0 THEN OnWire ELSE limit  \* stream bytes that will reach the receiver

Edge(op, a, res) ==
    EmitEdges => PrintT(ToJson([op |-> op, a |-> a, res |-> res,
                                f |-> [sent |-> sent, consumed |-> Consumed, delivered |-> delivered, limit |-> limit, rxerr |-> rxerr, calls |-> calls],
                                t |-> [sent |-> sent', consumed |-> SumTo(sent', fr' - 1) + off', delivered |-> delivered', limit |-> limit', rxerr |-> rxerr', calls |-> calls'],
                                hdr |-> IF op = "send" /\ res = "ok" THEN Header(a) ELSE <<>>]))

Init == /\ sent = <<>> /\ calls = 0 /\ refused = 0 /\ fr = 1 /\ off = 0 /\ nr = 0
        /\ delivered = <<>> /\ limit = -1 /\ rxerr = FALSE /\ desync = FALSE

(* Send(payload of n bytes): refused, with nothing written, iff the length cannot be framed *)
Send(n) ==
    /\ calls < MaxFrames /\ limit < 0
    /\ calls' = calls + 1
    /\ IF n > MaxLen /\ Refuse
         THEN /\ refused' = refused + 1 /\ UNCHANGED sent
              /\ UNCHANGED <<fr, off, nr, delivered, limit, rxerr, desync>>
              /\ Edge("send", n, "refused")
         ELSE /\ sent' = Append(sent, n) /\ UNCHANGED refused
              /\ UNCHANGED <<fr, off, nr, delivered, limit, rxerr, desync>>
              /\ Edge("send", n, "ok")

(* what the receiver is waiting for *)
InHeader == off < 4
Need == IF InHeader THEN 4 - off ELSE 4 + sent[fr] - off

Sizes(need) == IF ReadSizes = {} THEN 1..need
               ELSE {k \in ReadSizes \cup {need, need - 1} : k >= 1 /\ k <= need}

(* the stream hands the receiver k more bytes of frame fr *)
Read(k) ==
    /\ ~rxerr /\ ~desync /\ fr <= Len(sent)
    /\ Consumed + k <= Arriving
    /\ LET o2 == off + k
           n == sent[fr]
           hdrDone == InHeader /\ o2 = 4
           plen == ParseLen(Header(n))
           frameDone == (o2 = 4 + n) /\ (~hdrDone \/ plen = n)
       IN /\ desync' = (hdrDone /\ plen # n)
          /\ IF frameDone
               THEN /\ delivered' = Append(delivered, fr) /\ fr' = fr + 1 /\ off' = 0 /\ nr' = 0
               ELSE /\ UNCHANGED <<delivered, fr>> /\ off' = o2 /\ nr' = IF hdrDone THEN 0 ELSE nr + 1
    /\ UNCHANGED <<sent, calls, refused, limit, rxerr>>
    /\ Edge("read", k, IF Len(delivered') > Len(delivered) THEN "frame" ELSE "more")

(* the connection is cut: only `at` more bytes beyond those consumed will arrive *)
Cut(at) ==
    /\ limit < 0 /\ ~rxerr
    /\ Consumed + at <= OnWire
    /\ limit' = Consumed + at
    /\ UNCHANGED <<sent, calls, refused, fr, off, nr, delivered, rxerr, desync>>
    /\ Edge("cut", at, "")

(* the receiver reads end-of-stream: Receive returns an error; a partial frame is dropped *)
EOF ==
    /\ limit >= 0 /\ ~rxerr /\ Consumed = limit
    /\ rxerr' = TRUE
    /\ UNCHANGED <<sent, calls, refused, fr, off, nr, delivered, limit, desync>>
    /\ Edge("eof", 0, "error")

ReadChoices == IF rxerr \/ desync \/ fr > Len(sent) THEN {}
               ELSE IF nr >= MaxReads THEN {Need} ELSE Sizes(Need)
CutChoices == IF CutOffsets = {} THEN 0..(OnWire - Consumed) ELSE {a \in CutOffsets : Consumed + a <= OnWire}

Next == \/ \E n \in Lens : Send(n)
        \/ \E k \in ReadChoices : Read(k)
        \/ \E a \in CutChoices : Cut(a)
        \/ EOF

Spec == Init /\ [][Next]_vars

-----------------------------------------------------------------------------
(* C11 (P): what Receive has returned is exactly a prefix of what was sent, frame for frame *)
DeliveredIsPrefix == /\ Len(delivered) <= Len(sent)
                     /\ \A i \in 1..Len(delivered) : delivered[i] = i
(* the receiver never derives a frame length different from the payload that was framed *)
NeverMisframed == ~desync
(* every frame on the stream is one the length field can express (over-long payloads were refused) *)
OnlyFramable == \A i \in 1..Len(sent) : sent[i] <= FieldMax
(* after the error nothing is delivered; a cut inside a frame delivers nothing of that frame *)
NoPartial == rxerr => Len(delivered) = fr - 1
Inv == DeliveredIsPrefix /\ NeverMisframed /\ OnlyFramable /\ NoPartial
(* a refused send leaves the stream unchanged; delivered only grows *)
Monotone == [][/\ Len(delivered') >= Len(delivered)
               /\ (refused' > refused => sent' = sent)]_vars
=============================================================================
