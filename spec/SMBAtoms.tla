------------------------------ MODULE SMBAtoms ------------------------------
(***************************************************************************)
(* MS-CIFS section 2.2.1 ("Common Data Types") and the MS-DTYP types it    *)
(* imports, as WIRE ATOMS.  Written from the text of the standard:         *)
(*                                                                         *)
(*   MS-CIFS 2.2 "Message Syntax": "Unless otherwise noted, multi-byte     *)
(*   fields (that is, 16-bit, 32-bit, and 64-bit fields) in an SMB message *)
(*   MUST be transmitted in little-endian order (least-significant byte    *)
(*   first)."                                                              *)
(*   MS-CIFS 2.2.1.1 ... UCHAR 8 bits, USHORT 16 bits, ULONG 32 bits,      *)
(*   SHORT/LONG the signed counterparts, LARGE_INTEGER 64 bits.            *)
(*   MS-DTYP 2.3.3 FILETIME: dwLowDateTime (4 bytes) then dwHighDateTime.  *)
(*   MS-CIFS 2.2.1.4.1 SMB_DATE: 16 bits: YEAR 0xFE00 (add 1980),          *)
(*     MONTH 0x01E0, DAY 0x001F.                                           *)
(*   MS-CIFS 2.2.1.4.2 SMB_TIME: 16 bits: HOUR 0xF800, MINUTES 0x07E0,     *)
(*     SECONDS 0x001F (two-second units).                                  *)
(*   MS-CIFS 2.2.1.2.4 SMB_FILE_ATTRIBUTES: 16-bit field;                  *)
(*     2.2.1.2.3 SMB_EXT_FILE_ATTR: 32-bit field;                          *)
(*     2.2.1.3 SMB_NMPIPE_STATUS: 16-bit field, ICount = 0x00FF (the low   *)
(*     byte, first on the wire), flags in 0xFF00 (second on the wire).     *)
(*   MS-CIFS 2.2.4.58.2 SMB_Resume_Key: Reserved(1) ServerState(16)        *)
(*     ClientState(4) = 21 bytes, carried in a variable block              *)
(*     (BufferFormat 0x05, USHORT length 21).                              *)
(*   MS-CIFS 2.2.4.32.1 LOCKING_ANDX_RANGE64: PID(2) Pad(2)                *)
(*     ByteOffsetHigh(4) ByteOffsetLow(4) LengthInBytesHigh(4)             *)
(*     LengthInBytesLow(4).                                                *)
(*                                                                         *)
(* An integer VALUE of width w is written as its base-256 numeral, most    *)
(* significant digit first (the way one writes 0x12345678), because TLC    *)
(* integers stop at 2^31-1.  The wire image is a separate notion.          *)
(***************************************************************************)
EXTENDS Integers, Sequences, Bytes, TLC

Numeral(n, w) == BE(n, w)                      \* n < 2^31
Num16(d) == d[1] * 256 + d[2]                   \* value of a 2-digit numeral
ReverseSeq(s) == [i \in 1..Len(s) |-> s[Len(s) + 1 - i]]

(* MS-CIFS 2.2: least-significant byte first *)
LEBytes(num) == ReverseSeq(num)
UnLEBytes(bytes) == ReverseSeq(bytes)

ASSUME LEBytes(Numeral(305419896, 4)) = <<120, 86, 52, 18>>     \* 0x12345678 -> 78 56 34 12
ASSUME LEBytes(Numeral(258, 2)) = <<2, 1>>                       \* 0x0102 -> 02 01
ASSUME LEBytes(<<1, 2, 3, 4, 5, 6, 7, 8>>) = <<8, 7, 6, 5, 4, 3, 2, 1>>

(* ---- packed date / time (MS-CIFS 2.2.1.4) ---- *)
SMBDateValue(y, m, d) == (y - 1980) * 512 + m * 32 + d
SMBDateYear(v) == 1980 + (v \div 512)
SMBDateMonth(v) == (v \div 32) % 16
SMBDateDay(v) == v % 32
SMBTimeValue(h, mi, s2) == h * 2048 + mi * 32 + s2
SMBTimeHour(v) == v \div 2048
SMBTimeMinutes(v) == (v \div 32) % 64
SMBTimeTwoSeconds(v) == v % 32

ASSUME SMBDateValue(2024, 3, 15) = 22639 /\ LEBytes(Numeral(22639, 2)) = <<111, 88>>     \* 0x586F
ASSUME \A v \in {0, 1, 31, 32, 511, 512, 22639, 65535} :
          SMBDateValue(SMBDateYear(v), SMBDateMonth(v), SMBDateDay(v)) = v
ASSUME SMBTimeValue(23, 59, 29) = 49021                                                     \* 0xBF7D
ASSUME \A v \in {0, 31, 32, 2047, 2048, 49021, 65535} :
          SMBTimeValue(SMBTimeHour(v), SMBTimeMinutes(v), SMBTimeTwoSeconds(v)) = v

(* ---- atoms ----
   An atom is the smallest wire unit: w bytes wide.
     enc = "le"    : one integer, little-endian; the Go value at path p is that integer
     enc = "date"  : SMB_DATE packed in a little-endian USHORT; Go paths p\o<<"Year">> etc.
     enc = "time"  : SMB_TIME packed in a little-endian USHORT (no Go counterpart: the library aliases SMB_TIME to FILETIME)
     enc = "const" : fixed bytes c mandated by the standard, nothing to set
   p is the path below the declared field (names; array indices as decimal strings). *)
Atom(p, w, enc) == [p |-> p, w |-> w, enc |-> enc, c |-> <<>>]
ConstAtom(c) == [p |-> <<>>, w |-> Len(c), enc |-> "const", c |-> c]
Idx(i) == ToString(i)
UCharArray(name, n) == [i \in 1..n |-> Atom(<<name, Idx(i - 1)>>, 1, "le")]

FileTimeAtoms == <<Atom(<<"DwLowDateTime">>, 4, "le"), Atom(<<"DwHighDateTime">>, 4, "le")>>

(* mode = "cifs": the type as MS-CIFS defines it.  mode = "decl": the type as the library DECLARES it
   (differs only where the library's declaration is an alias of a different type: SMB_TIME = FILETIME). *)
SMBFixed(elem, mode) ==
    CASE elem = "types.UCHAR" -> <<Atom(<<>>, 1, "le")>>
      [] elem = "types.USHORT" -> <<Atom(<<>>, 2, "le")>>
      [] elem = "types.SHORT" -> <<Atom(<<>>, 2, "le")>>          \* two's complement; the numeral is the unsigned image
      [] elem = "types.ULONG" -> <<Atom(<<>>, 4, "le")>>
      [] elem = "types.LONG" -> <<Atom(<<>>, 4, "le")>>
      [] elem = "types.LARGE_INTEGER" -> <<Atom(<<"QuadPart">>, 8, "le")>>
      [] elem = "types.FILETIME" -> FileTimeAtoms
      [] elem = "types.SMB_FILE_ATTRIBUTES" -> <<Atom(<<"Attributes">>, 2, "le")>>
      [] elem = "types.SMB_EXT_FILE_ATTR" -> <<Atom(<<>>, 4, "le")>>
      [] elem = "types.SMB_NMPIPE_STATUS" -> <<Atom(<<"ICount">>, 1, "le"), Atom(<<"Flags">>, 1, "le")>>
      [] elem = "capabilities.Capabilities" -> <<Atom(<<>>, 4, "le")>>       \* MS-CIFS 2.2.4.52.2 Capabilities (4 bytes)
      [] elem = "securitymode.SecurityMode" -> <<Atom(<<>>, 1, "le")>>      \* MS-CIFS 2.2.4.52.2 SecurityMode (1 byte)
      [] elem = "types.SMB_DATE" -> <<Atom(<<>>, 2, "date")>>
      [] elem = "types.SMB_TIME" -> IF mode = "decl" THEN FileTimeAtoms ELSE <<Atom(<<>>, 2, "time")>>
      [] elem = "types.SMB_RESUME_KEY" ->
            <<ConstAtom(<<5>>), ConstAtom(<<21, 0>>), Atom(<<"Reserved">>, 1, "le")>>
            \o UCharArray("ServerState", 16) \o UCharArray("ClientState", 4)
      [] elem = "types.LOCKING_ANDX_RANGE64" ->
            <<Atom(<<"PID">>, 2, "le"), Atom(<<"Pad">>, 2, "le"), Atom(<<"ByteOffsetHigh">>, 4, "le"),
              Atom(<<"ByteOffsetLow">>, 4, "le"), Atom(<<"LengthInBytesHigh">>, 4, "le"), Atom(<<"LengthInBytesLow">>, 4, "le")>>
      [] OTHER -> <<>>

RECURSIVE SumWidths(_)
SumWidths(atoms) == IF atoms = <<>> THEN 0 ELSE Head(atoms).w + SumWidths(Tail(atoms))

ASSUME SumWidths(SMBFixed("types.UCHAR", "cifs")) = 1 /\ SumWidths(SMBFixed("types.USHORT", "cifs")) = 2
       /\ SumWidths(SMBFixed("types.ULONG", "cifs")) = 4 /\ SumWidths(SMBFixed("types.LARGE_INTEGER", "cifs")) = 8
       /\ SumWidths(SMBFixed("types.FILETIME", "cifs")) = 8 /\ SumWidths(SMBFixed("types.SMB_TIME", "cifs")) = 2
       /\ SumWidths(SMBFixed("types.SMB_DATE", "cifs")) = 2 /\ SumWidths(SMBFixed("types.SMB_RESUME_KEY", "cifs")) = 24
       /\ SumWidths(SMBFixed("types.LOCKING_ANDX_RANGE64", "cifs")) = 20

(* prefix every atom path with q *)
Under(q, atoms) == [i \in 1..Len(atoms) |-> [atoms[i] EXCEPT !.p = q \o @]]

(* wire image of one atom holding numeral v *)
AtomBytes(a, v) == IF a.enc = "const" THEN a.c ELSE LEBytes(v)

(* ---- buffer formats, MS-CIFS 2.2.1.1 / the Data-block conventions of the core commands ----
     0x01 data buffer    : 01, USHORT length, bytes
     0x02 dialect        : 02, bytes, 00                 (SMB_COM_NEGOTIATE only)
     0x04 ASCII / SMB string : 04, bytes, 00
     0x05 variable block : 05, USHORT length, bytes
   fmt = 0 stands for the AndX-era strings that carry NO format byte: bytes, 00. *)
StrWire(fmt, content) ==
    CASE fmt = 1 -> <<1>> \o LEBytes(Numeral(Len(content), 2)) \o content
      [] fmt = 5 -> <<5>> \o LEBytes(Numeral(Len(content), 2)) \o content
      [] fmt = 2 -> <<2>> \o content \o <<0>>
      [] fmt = 4 -> <<4>> \o content \o <<0>>
      [] fmt = 0 -> content \o <<0>>

ASSUME StrWire(4, <<65, 66>>) = <<4, 65, 66, 0>>
ASSUME StrWire(1, <<9, 8, 7>>) = <<1, 3, 0, 9, 8, 7>>
ASSUME StrWire(5, <<>>) = <<5, 0, 0>>
ASSUME StrWire(0, <<92>>) = <<92, 0>>

(* MS-CIFS 2.2.4.52.1: Dialects = array of { BufferFormat 0x02, DialectString null-terminated } *)
RECURSIVE DialectsWire(_)
DialectsWire(names) == IF names = <<>> THEN <<>> ELSE StrWire(2, Head(names)) \o DialectsWire(Tail(names))

ASSUME DialectsWire(<<<<78, 84>>, <<76>>>>) = <<2, 78, 84, 0, 2, 76, 0>>

DialectNames == <<
    <<80,67,32,78,69,84,87,79,82,75,32,80,82,79,71,82,65,77,32,49,46,48>>,   \* PC NETWORK PROGRAM 1.0
    <<80,67,76,65,78,49,46,48>>,   \* PCLAN1.0
    <<77,73,67,82,79,83,79,70,84,32,78,69,84,87,79,82,75,83,32,49,46,48,51>>,   \* MICROSOFT NETWORKS 1.03
    <<77,73,67,82,79,83,79,70,84,32,78,69,84,87,79,82,75,83,32,51,46,48>>,   \* MICROSOFT NETWORKS 3.0
    <<76,65,78,77,65,78,49,46,48>>,   \* LANMAN1.0
    <<76,65,78,77,65,78,49,46,50>>,   \* LANMAN1.2
    <<76,65,78,77,65,78,50,46,48>>,   \* LANMAN2.0
    <<76,65,78,77,65,78,50,46,49>>,   \* LANMAN2.1
    <<76,77,49,46,50,88,48,48,50>>,   \* LM1.2X002
    <<68,79,83,32,76,77,49,46,50,88,48,48,50>>,   \* DOS LM1.2X002
    <<68,79,83,32,76,65,78,77,65,78,50,46,49>>,   \* DOS LANMAN2.1
    <<87,105,110,100,111,119,115,32,102,111,114,32,87,111,114,107,103,114,111,117,112,115,32,51,46,49,97>>,   \* Windows for Workgroups 3.1a
    <<78,84,32,76,77,32,48,46,49,50>> >>   \* NT LM 0.12
=============================================================================
