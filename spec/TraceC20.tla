------------------------------ MODULE TraceC20 ------------------------------
(***************************************************************************)
(* Trace validation (code -> model) for C20.  trace.ndjson holds one line  *)
(* per call the recorder made on the real code with seeded random, full-   *)
(* range inputs: the inputs and what the code answered.  The parsers and   *)
(* predicates are pure, so the "state machine" has no state besides the    *)
(* position l; every line is judged against IPAddr / HashSpec, and for     *)
(* every judgment that does not hold TLC prints one verdict record         *)
(* (site, aspect, P-or-D) - all offending calls are reported, not only the *)
(* first.  The trace is accepted when every line was consumed.             *)
(***************************************************************************)
EXTENDS IPAddr, HashSpec, TLC, TLCExt, Json

VARIABLE l
TraceLog == ndJsonDeserialize("trace.ndjson")
ev == TraceLog[l]

V(holds, site, aspect, isP) == IF holds THEN {} ELSE {[site |-> site, aspect |-> aspect, p |-> isP]}
Pol(code, spec) == IF code /\ ~spec THEN "false-positive" ELSE "false-negative"

JudgeIp4(e) ==
    V(e.text = Ip4Text(e.ip, e.p), "ip.IPv4.String", "text-form", FALSE)
    \cup V(~e.panic, "ip.NewIPv4FromString", "roundtrip:panic", TRUE)
    \cup V(e.panic \/ e.ok, "ip.NewIPv4FromString", "roundtrip:rejects-printed-cidr", TRUE)
    \cup V(~e.ok \/ (e.bip = e.ip /\ e.bp = e.p), "ip.NewIPv4FromString", "roundtrip:wrong-value", TRUE)
    \cup V(e.net = Ip4Network(e.ip, e.p) /\ e.netp = e.p, "ip.IPv4.ComputeMask", "network-address", TRUE)

JudgeIp4Sub(e) ==
    LET spec == Ip4InSubnet(e.ip, e.net, e.p) IN
    IF Ip4Canonical(e.net, e.p) THEN V(e.r = spec, "ip.IPv4.IsInSubnet", Pol(e.r, spec), TRUE)
    ELSE V(e.r = spec, "ip.IPv4.IsInSubnet", IF e.r /\ ~spec THEN "non-canonical-subnet:false-positive" ELSE "non-canonical-subnet:false-negative", FALSE)

JudgeIp4Range(e) == LET spec == Ip4InRange(e.ip, e.s, e.e) IN V(e.r = spec, "ip.IPv4.IsInRange", Pol(e.r, spec), TRUE)

JudgeIp6(e) ==
    V(e.text = Ip6Text(e.g), "ip.IPv6.String", "text-form", FALSE)
    \cup V(~e.panic, "ip.NewIPv6FromString", "roundtrip:panic", TRUE)
    \cup V(e.panic \/ e.ok, "ip.NewIPv6FromString", "roundtrip:rejects-printed-address", TRUE)
    \cup V(~e.ok \/ e.bg = e.g, "ip.NewIPv6FromString", "roundtrip:wrong-value", TRUE)

JudgeIp6Range(e) ==
    LET spec == Ip6InRange(e.g, e.s, e.e)
        ssub == Ip6InSubnet128(e.g, e.s)
    IN V(e.r = spec, "ip.IPv6.IsInRange", Pol(e.r, spec), TRUE) \cup V(e.sub = ssub, "ip.IPv6.IsInSubnet", Pol(e.sub, ssub), TRUE)

JudgePort(e) ==
    V(e.text = PortRangeText(e.s, e.e), "ip.TCPPortRange.String", "text-form", FALSE)
    \cup V(e.ok, "ip.NewTCPPortRangeFromString", "roundtrip:rejects-printed-range", TRUE)
    \cup V(~e.ok \/ (e.bs = e.s /\ e.be = e.e), "ip.NewTCPPortRangeFromString", "roundtrip:wrong-value", TRUE)

JudgeHash(e) ==
    LET spec == HsParse(e.s)
        pre == IF HsTrim(e.s) # e.s THEN "whitespace:" ELSE IF HsLower(e.s) # e.s THEN "case:" ELSE ""
        site == "credentials.ParseLMNTHashes"
    IN IF ~spec.ok THEN V(~e.ok, site, "invalid-form-accepted", FALSE)
       ELSE IF ~e.ok THEN V(FALSE, site, pre \o "valid-form-rejected", TRUE)
       ELSE V(~(spec.lm # <<>> /\ e.lm = <<>>), site, pre \o "lm-hash-discarded", TRUE)
            \cup V((spec.lm # <<>> /\ e.lm = <<>>) \/ HsLower(e.lm) = HsLower(spec.lm), site, pre \o "lm-hash-wrong", TRUE)
            \cup V(~(spec.nt # <<>> /\ e.nt = <<>>), site, pre \o "nt-hash-discarded", TRUE)
            \cup V((spec.nt # <<>> /\ e.nt = <<>>) \/ HsLower(e.nt) = HsLower(spec.nt), site, pre \o "nt-hash-wrong", TRUE)

Judge(e) == CASE e.op = "ip4" -> JudgeIp4(e)
              [] e.op = "ip4sub" -> JudgeIp4Sub(e)
              [] e.op = "ip4range" -> JudgeIp4Range(e)
              [] e.op = "ip6" -> JudgeIp6(e)
              [] e.op = "ip6range" -> JudgeIp6Range(e)
              [] e.op = "port" -> JudgePort(e)
              [] e.op = "hash" -> JudgeHash(e)

Known == {"ip4", "ip4sub", "ip4range", "ip6", "ip6range", "port", "hash"}

TraceInit == l = 1
TraceStep ==
    /\ l <= Len(TraceLog)
    /\ ev.op \in Known
    /\ \A x \in Judge(ev) : PrintT(ToJson([op |-> "verdict", i |-> l, site |-> x.site, aspect |-> x.aspect, p |-> x.p]))
    /\ l' = l + 1
TraceSpec == TraceInit /\ [][TraceStep]_l
TraceAccepted == TLCGet("stats").diameter - 1 = Len(TraceLog)
=============================================================================
