------------------------------ MODULE TraceNBNS ------------------------------
(***************************************************************************)
(* Code -> model for C10.  One line per call made on the real library:     *)
(*   fle       nb, sc, out (text FirstLevelEncode returned), err           *)
(*   fld       in (text), ok, nb, sc (what FirstLevelDecode returned);     *)
(*             src = "lib" (text produced by the library from a valid      *)
(*             name), "rfc" (text of a valid name), "mutated"              *)
(*   marshal   p (abstract packet handed to the library), out, err         *)
(*   roundtrip p, ok, back (what Unmarshal returned for Marshal's bytes)   *)
(*   unmarshal in (an RFC 1002 wire image written by an independent        *)
(*             encoder), ok, p (what the library read)                     *)
(* Every line is judged on its own with NetBIOSName / NBNSPacket; lines    *)
(* that are not behaviours of the specification are printed with the parts *)
(* that differ.  P = implied by the property statement:                    *)
(*   P  FirstLevelEncode returns the RFC 1001 14.1 form                    *)
(*   P  FirstLevelDecode of that form returns the same name and scope      *)
(*   P  Unmarshal(Marshal(p)) = p in every header word and section         *)
(*   P  NBNSParse1002 (the independent RFC 1002 parser) reads Marshal's    *)
(*      bytes to the same content                                          *)
(*   D  names beginning with '*' (RFC 1001 5.2 excludes them), the exact   *)
(*      trimmed spelling of a decoded name, and whether the library reads  *)
(*      RFC 1002 images written by others (the statement only requires its *)
(*      own output to be parseable)                                        *)
(* When the parser cannot read Marshal's bytes, the judge says whether the *)
(* bytes are EXACTLY the packet under a named deviation of the name layer  *)
(* (root label missing / scope kept as dotted text in one string), so that *)
(* any further defect keeps an identity of its own.                        *)
(***************************************************************************)
EXTENDS NBNSPacket, TLCExt, Json

VARIABLE l
TraceLog == ndJsonDeserialize("trace.ndjson")
ev == TraceLog[l]

Good == [ok |-> TRUE, drift |-> FALSE, what |-> "", parts |-> <<>>]
Bad(what, parts) == [ok |-> FALSE, drift |-> FALSE, what |-> what, parts |-> parts]
Drift(what, parts) == [ok |-> FALSE, drift |-> TRUE, what |-> what, parts |-> parts]
NameOf(e) == [nb |-> e.nb, sc |-> e.sc]
Star(e) == e.nb # <<>> /\ e.nb[1] = 42

JudgeFLE(e) ==
    IF e.err THEN (IF Star(e) THEN Drift("refuses-leading-asterisk", <<>>) ELSE Bad("first-level:encode-error", <<>>))
    ELSE IF e.out # NBFirstLevelText(NameOf(e)) THEN Bad("first-level:text", <<>>)
    ELSE Good

JudgeFLD(e) ==
    LET s == NBFromText(e.in) IN
    IF s.ok THEN
        IF ~e.ok THEN (IF e.src = "mutated" THEN Drift("first-level-decode:rejected", <<>>) ELSE Bad("first-level-decode:rejected", <<>>))
        ELSE IF ~NBSame(s.n, NameOf(e)) THEN
             (IF e.src = "mutated" THEN Drift("first-level-decode", <<>>)
              ELSE Bad("first-level-decode", IF NBPad(s.n.nb) # NBPad(e.nb) THEN <<"name">> ELSE <<"scope">>))
        ELSE IF s.n.nb # e.nb THEN Drift("first-level-decode:trimming", <<>>)
        ELSE Good
    ELSE IF e.ok THEN Drift("first-level-decode:lenient-accept", <<>>) ELSE Good

JudgeMarshal(e) ==
    IF e.err THEN Bad("marshal-error", <<>>)
    ELSE LET d == NBNSParse1002(e.out) IN
         IF d.ok /\ NBNSDiff(e.p, d.p) = <<>> THEN (IF d.end # Len(e.out) THEN Drift("trailing-octets", <<>>) ELSE Good)
         ELSE IF e.out = NBNSEncodeDev(e.p, FALSE, FALSE) THEN Bad("rfc1002-parse", <<"name-root-label-missing">>)
         ELSE IF e.out = NBNSEncodeDev(e.p, FALSE, TRUE) THEN Bad("rfc1002-parse", <<"scope-as-dotted-text">>)
         ELSE IF e.out = NBNSEncodeDev(e.p, TRUE, TRUE) THEN Bad("rfc1002-parse", <<"scope-as-dotted-text:terminated">>)
         ELSE IF ~d.ok THEN Bad("rfc1002-parse", <<d.at>>)
         ELSE Bad("rfc1002-parse", NBNSDiff(e.p, d.p))

JudgeRoundtrip(e) ==
    IF ~e.ok THEN Bad("roundtrip", <<"unmarshal-error">>)
    ELSE IF NBNSDiff(e.p, e.back) # <<>> THEN Bad("roundtrip", NBNSDiff(e.p, e.back))
    ELSE Good

JudgeUnmarshal(e) ==
    LET s == NBNSParse1002(e.in) IN
    IF s.ok THEN (IF ~e.ok THEN Drift("reads-rfc1002", <<"rejected">>)
                  ELSE IF NBNSDiff(s.p, e.p) # <<>> THEN Drift("reads-rfc1002", NBNSDiff(s.p, e.p)) ELSE Good)
    ELSE IF e.ok THEN Drift("reads-rfc1002", <<"lenient-accept">>) ELSE Good

Judge(e) == CASE e.op = "fle" -> JudgeFLE(e)
              [] e.op = "fld" -> JudgeFLD(e)
              [] e.op = "marshal" -> JudgeMarshal(e)
              [] e.op = "roundtrip" -> JudgeRoundtrip(e)
              [] e.op = "unmarshal" -> JudgeUnmarshal(e)
              [] OTHER -> Bad("unknown-op", <<>>)

Init == l = 1
Step == /\ l <= Len(TraceLog)
        /\ l' = l + 1
        /\ LET v == Judge(ev) IN
           v.ok \/ PrintT(ToJson([line |-> l, op |-> ev.op, drift |-> v.drift, what |-> v.what, parts |-> v.parts]))
TraceSpec == Init /\ [][Step]_l
TraceAccepted == TLCGet("stats").diameter - 1 = Len(TraceLog)
=============================================================================
