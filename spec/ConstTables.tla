---------------------------- MODULE ConstTables ----------------------------
(***************************************************************************)
(* Constant tables (C19): command codes, sub-command codes, NT status      *)
(* values, session message types, ... Each table is walked as a small      *)
(* state machine:                                                          *)
(*                                                                         *)
(*   Begin(t)                 a new table: nothing declared, nothing seen  *)
(*   Declare(c, short, v)     the SOURCE declares constant c with value v  *)
(*                            (short = c without the table's prefix)       *)
(*   Observe(c, v, name, ...) the COMPILED package was asked for the name  *)
(*                            (and, for NT status, the error) of value v   *)
(*   End(n)                   end of table                                 *)
(*                                                                         *)
(* state: declared = value |-> set of short identifiers (aliases share a   *)
(*        value), seen = name |-> the value that name was first seen for,  *)
(*        observed = the set of constants observed so far.                 *)
(*                                                                         *)
(* Values are 32-bit and therefore travel as 8 hexadecimal digits (TLC     *)
(* integers are 32-bit signed); texts are sequences of code points.        *)
(*                                                                         *)
(* The judgments (P = implied by the property statement, D = detail):      *)
(*   P NotPlaceholder    the name is not empty and not what the table      *)
(*                       prints for undeclared values                      *)
(*   P NameInjective     no two distinct values share a name               *)
(*   P ErrorNonNil       every declared non-success status has an error    *)
(*   P ErrorMentionsCode ... whose text contains the numeric code          *)
(*   P Covered           at End every declared constant has been observed  *)
(*   D OwnName           (tables whose convention is name = identifier     *)
(*                       without prefix) the name is one of the value's    *)
(*                       own identifiers                                   *)
(*   D SuccessIsNil      the success status yields no error                *)
(***************************************************************************)
EXTENDS Integers, Sequences, FiniteSets, TLC

(* ---- numbers as digit strings ---- *)
CtHexCp(n) == IF n < 10 THEN 48 + n ELSE 87 + n             \* lower-case hex digit as a code point
CtHex8(v) == [i \in 1..8 |-> CtHexCp(v[i])]
RECURSIVE CtStripZeros(_)
CtStripZeros(v) == IF Len(v) > 1 /\ Head(v) = 0 THEN CtStripZeros(Tail(v)) ELSE v
CtHexSig(v) == LET s == CtStripZeros(v) IN [i \in 1..Len(s) |-> CtHexCp(s[i])]
(* decimal digits (most significant first) of the value whose hex digits are v: Horner, on little-endian digit lists *)
RECURSIVE CtMul16Add(_, _)
CtMul16Add(d, carry) ==     \* d little-endian decimal digits; returns d*16 + carry
    IF d = <<>> THEN (IF carry = 0 THEN <<>> ELSE <<carry % 10>> \o CtMul16Add(<<>>, carry \div 10))
    ELSE LET x == Head(d) * 16 + carry IN <<x % 10>> \o CtMul16Add(Tail(d), x \div 10)
RECURSIVE CtDecLE(_, _)
CtDecLE(v, acc) == IF v = <<>> THEN acc ELSE CtDecLE(Tail(v), CtMul16Add(acc, Head(v)))
CtDec(v) == LET le == CtDecLE(v, <<>>) IN IF le = <<>> THEN <<48>> ELSE [i \in 1..Len(le) |-> 48 + le[Len(le) + 1 - i]]

(* ---- text search ---- *)
CtLowerCp(c) == IF c >= 65 /\ c <= 90 THEN c + 32 ELSE c
CtLower(t) == [i \in 1..Len(t) |-> CtLowerCp(t[i])]
CtIsAt(t, r, i) == \A j \in 1..Len(r) : t[i + j - 1] = r[j]
CtContains(t, r) == \E i \in 1..(Len(t) - Len(r) + 1) : CtIsAt(t, r, i)
CtIsDigit(c) == c >= 48 /\ c <= 57
CtContainsNumber(t, r) ==      \* r occurs delimited by non-digits
    \E i \in 1..(Len(t) - Len(r) + 1) :
        /\ CtIsAt(t, r, i)
        /\ (i = 1 \/ ~CtIsDigit(t[i - 1]))
        /\ (i + Len(r) > Len(t) \/ ~CtIsDigit(t[i + Len(r)]))
(* "mentions its numeric code": the 8 hex digits, or 0x + significant hex digits, or the decimal number *)
CtMentionsCode(text, v) ==
    LET t == CtLower(text) IN
    \/ CtContains(t, CtHex8(v))
    \/ CtContains(t, <<48, 120>> \o CtHexSig(v))
    \/ CtContainsNumber(t, CtDec(v))

CtZero == <<0, 0, 0, 0, 0, 0, 0, 0>>

(* ---- the state machine ---- *)
VARIABLES tab, declared, seen, observed
ctvars == <<tab, declared, seen, observed>>

Empty == [x \in {} |-> {}]
CtInit == tab = [t |-> "", conv |-> FALSE, haserr |-> FALSE] /\ declared = Empty /\ seen = Empty /\ observed = {}

Begin(t, conv, haserr) == tab' = [t |-> t, conv |-> conv, haserr |-> haserr] /\ declared' = Empty /\ seen' = Empty /\ observed' = {}

Declare(c, short, v) ==
    /\ declared' = IF v \in DOMAIN declared THEN [declared EXCEPT ![v] = @ \cup {short}] ELSE declared @@ (v :> {short})
    /\ UNCHANGED <<tab, seen, observed>>

(* judgments on one observation, evaluated in the state BEFORE it is recorded *)
NotPlaceholder(short, name, fb) == name # "" /\ ~(name = fb /\ name # short)
NameInjective(v, name) == name \in DOMAIN seen => seen[name] = v
ErrorNonNil(v, errnil) == (tab.haserr /\ v # CtZero) => ~errnil
ErrorMentionsCode(v, errnil, err) == (tab.haserr /\ v # CtZero /\ ~errnil) => CtMentionsCode(err, v)
OwnName(v, name) == tab.conv => (v \in DOMAIN declared /\ name \in declared[v])
SuccessIsNil(v, errnil) == (tab.haserr /\ v = CtZero) => errnil
IsDeclared(short, v) == v \in DOMAIN declared /\ short \in declared[v]

Observe(c, short, v, name) ==
    /\ seen' = IF name \in DOMAIN seen THEN seen ELSE seen @@ (name :> v)
    /\ observed' = observed \cup {short}
    /\ UNCHANGED <<tab, declared>>

Covered == UNION { declared[v] : v \in DOMAIN declared } \subseteq observed

(* ---- known answers ---- *)
ASSUME /\ CtDec(<<12, 0, 0, 0, 0, 0, 2, 2>>) = <<51, 50, 50, 49, 50, 50, 53, 53, 48, 54>>      \* 0xC0000022 = 3221225506
       /\ CtDec(<<15, 15, 15, 15, 15, 15, 15, 15>>) = <<52, 50, 57, 52, 57, 54, 55, 50, 57, 53>> \* 4294967295
       /\ CtDec(CtZero) = <<48>>
       /\ CtDec(<<0, 0, 0, 0, 0, 1, 0, 3>>) = <<50, 53, 57>>                                     \* 0x103 = 259
       /\ CtHexSig(<<0, 0, 0, 0, 0, 1, 0, 3>>) = <<49, 48, 51>>
       /\ CtHex8(<<12, 0, 0, 0, 0, 0, 2, 2>>) = <<99, 48, 48, 48, 48, 48, 50, 50>>
       \* "NT_STATUS(0xC0000022): x" mentions c0000022; "status 259 pending" mentions 0x103; "1259 x" does not
       /\ CtMentionsCode(<<78, 84, 40, 48, 120, 67, 48, 48, 48, 48, 48, 50, 50, 41, 58, 32, 120>>, <<12, 0, 0, 0, 0, 0, 2, 2>>)
       /\ CtMentionsCode(<<115, 32, 50, 53, 57, 32, 112>>, <<0, 0, 0, 0, 0, 1, 0, 3>>)
       /\ ~CtMentionsCode(<<49, 50, 53, 57, 32, 120>>, <<0, 0, 0, 0, 0, 1, 0, 3>>)
       /\ ~CtMentionsCode(<<97, 99, 99, 101, 115, 115, 32, 100, 101, 110, 105, 101, 100>>, <<12, 0, 0, 0, 0, 0, 2, 2>>)
=============================================================================
