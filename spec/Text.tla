-------------------------------- MODULE Text --------------------------------
(* Text as sequences of Unicode code points (scalar values). *)
EXTENDS Integers, Sequences, Bytes

UTF16Units(cp) == IF cp < 65536 THEN <<cp>>
                  ELSE <<55296 + ((cp - 65536) \div 1024), 56320 + ((cp - 65536) % 1024)>>
RECURSIVE UTF16LE(_)
UTF16LE(cps) == IF cps = <<>> THEN <<>>
                ELSE LET u == UTF16Units(Head(cps))
                     IN (IF Len(u) = 1 THEN LE(u[1], 2) ELSE LE(u[1], 2) \o LE(u[2], 2)) \o UTF16LE(Tail(cps))

(* simple case mapping: ASCII plus a table of unambiguous 1:1 pairs (upper, lower) *)
CasePairs == { <<201, 233>>, <<1046, 1078>>, <<913, 945>>, <<196, 228>>, <<66560, 66600>> }   \* E-acute, Cyrillic ZHE, Greek ALPHA, A-umlaut, Deseret LONG I (outside the BMP: a surrogate pair in UTF-16)
LowerCP(c) == IF c >= 65 /\ c <= 90 THEN c + 32
              ELSE IF \E p \in CasePairs : p[1] = c THEN (CHOOSE p \in CasePairs : p[1] = c)[2] ELSE c
UpperCP(c) == IF c >= 97 /\ c <= 122 THEN c - 32
              ELSE IF \E p \in CasePairs : p[2] = c THEN (CHOOSE p \in CasePairs : p[2] = c)[1] ELSE c
Lower(s) == [i \in 1..Len(s) |-> LowerCP(s[i])]
Upper(s) == [i \in 1..Len(s) |-> UpperCP(s[i])]

(* all sequences over alphabet A of length 0..n *)
SeqsUpTo(A, n) == UNION {[1..k -> A] : k \in 0..n}
=============================================================================
