------------------------------ MODULE C13Cases ------------------------------
(***************************************************************************)
(* C13 case table (model -> code).  TLC enumerates the structured input    *)
(* space of 128-bit values and field assignments and prints, for every     *)
(* case, the inputs AND what the specification (GUID.tla = MS-DTYP 2.3.4,  *)
(* UUID.tla = RFC 4122 / DCE) says the binary form, the fields and every   *)
(* text form are.  The Go driver c13.cases executes each case on           *)
(* windows/guid and crypto/uuid{,_v1,_v2,_v8}.                             *)
(*                                                                         *)
(* Exhaustive part: EVERY single-bit pattern of the 128 bits (one-hot and  *)
(* one-cold), 00/FF, walking nibbles and bytes -- through every format and *)
(* every letter-case mode.  Sampled part: NRandom seed-dependent values.   *)
(*                                                                         *)
(* Before a case is printed the specification checks ITSELF on it: parse   *)
(* of every emitted text is the value, wire <-> canonical are inverse,     *)
(* field extraction inverts construction (Assert => TLC error => exit 2).  *)
(***************************************************************************)
EXTENDS GUID, UUID, Bytes, TLC, Json, FiniteSets

CONSTANTS Seed, NRandom, Kinds

VARIABLE c

Emit(r) == PrintT(ToJson(r))

(* seed-dependent content; arguments kept below 2^31 / 7919 *)
RandBytes(i, n) == Pattern(((Seed % 997) * 131 + i) % 200000, n)
RandNibs(i, n) == SubSeq(HxNibbles(RandBytes(i, (n + 1) \div 2)), 1, n)

Ones(n) == [i \in 1..n |-> 15]
(* every single-bit pattern over n nibbles, plus all-zero and all-one *)
BitPats(n) == {HxOneHot(n, b) : b \in 0..(4 * n - 1)} \cup {HxOneCold(n, b) : b \in 0..(4 * n - 1)} \cup {HxZero(n), Ones(n)}
Pat128 == BitPats(32)
       \cup {HxWalkNibble(32, k, v) : k \in 1..32, v \in {5, 10, 15}}
       \cup {HxWalkByte(32, k, v) : k \in 1..16, v \in {129, 255}}
       \cup {<<0,1,2,3,4,5,6,7,8,9,10,11,12,13,14,15,15,14,13,12,11,10,9,8,7,6,5,4,3,2,1,0>>}

Modes == 0..3
(* text variants of one value: patterns get every (format, mode); random values one mode per format *)
GuidTexts(cn, all, i) ==
    IF all THEN [j \in 1..20 |-> LET f == GuidFormatSeq[((j - 1) \div 4) + 1] m == (j - 1) % 4 IN
                                 [fmt |-> f, mode |-> m, t |-> HxCase(GuidText(f, cn), m)]]
    ELSE [j \in 1..5 |-> LET f == GuidFormatSeq[j] m == (i + j) % 4 IN [fmt |-> f, mode |-> m, t |-> HxCase(GuidText(f, cn), m)]]
UuidTexts(b, all, i) ==
    IF all THEN [j \in 1..4 |-> [mode |-> j - 1, t |-> HxCase(UuidText(b), j - 1)]]
    ELSE <<[mode |-> i % 4, t |-> HxCase(UuidText(b), i % 4)]>>

GuidSelfCheck(cn, tv) ==
    /\ Assert(GuidCanon(GuidWire(cn)) = cn /\ GuidOfFields(GuidFields(cn)) = cn, "GUID: wire/canonical/fields not inverse")
    /\ \A j \in 1..Len(tv) : Assert(GuidParse(tv[j].fmt, tv[j].t) = [ok |-> TRUE, ns |-> cn]
                                    /\ GuidParseAny(tv[j].t).fmt = tv[j].fmt /\ GuidParseAny(tv[j].t).ns = cn,
                                    "GUID: parse(format) is not the identity")
UuidSelfCheck(b, tv) ==
    /\ \A j \in 1..Len(tv) : Assert(UuidParse(tv[j].t) = [ok |-> TRUE, b |-> b], "UUID: parse(format) is not the identity")
    /\ Assert(BaseMake(UuidVersion(b), BaseVariantNibble(b), BaseData(b)) = b, "UUID: base decomposition not inverse")

GuidCase(cn, all, i) ==
    LET tv == GuidTexts(cn, all, i) IN
    /\ GuidSelfCheck(cn, tv)
    /\ Emit([k |-> "guid", w |-> GuidWire(cn), f |-> GuidFields(cn), tv |-> tv])
UuidCase(b, all, i) ==
    LET tv == UuidTexts(b, all, i) IN
    /\ UuidSelfCheck(b, tv)
    /\ Emit([k |-> "uuid", b |-> b, tv |-> tv, ver |-> UuidVersion(b), varn |-> BaseVariantNibble(b), data |-> BaseData(b)])
V1Case(b, all, i) ==
    LET tv == UuidTexts(b, all, i) IN
    /\ UuidSelfCheck(b, tv)
    /\ Assert(UuidVariant(b) = "rfc4122" => V1Make(V1Timestamp(b), V1ClockSeq(b), V1Node(b)) = b, "UUIDv1: fields not inverse")
    /\ Emit([k |-> "v1", b |-> b, tv |-> tv, variant |-> UuidVariant(b), ts |-> V1Timestamp(b), cs |-> V1ClockSeq(b), node |-> V1Node(b)])
V2Case(b, all, i) ==
    LET tv == UuidTexts(b, all, i) IN
    /\ UuidSelfCheck(b, tv)
    /\ Assert(UuidVariant(b) = "rfc4122" => V2Make(V2LocalId(b), V2TimeHiMid(b), V2Clock(b), V2Domain(b), V2Node(b)) = b, "UUIDv2: fields not inverse")
    /\ Emit([k |-> "v2", b |-> b, tv |-> tv, variant |-> UuidVariant(b), lid |-> V2LocalId(b), thm |-> V2TimeHiMid(b),
             clk |-> V2Clock(b), dom |-> V2Domain(b), node |-> V2Node(b)])
V8Case(b, all, i) ==
    LET tv == UuidTexts(b, all, i) IN
    /\ UuidSelfCheck(b, tv)
    /\ Emit([k |-> "v8", b |-> b, tv |-> tv, varn |-> BaseVariantNibble(b), data |-> BaseData(b)])

(* a 128-bit pattern forced into version v: as it is, and with the RFC 4122 variant bits *)
Versioned(p, v) == {UuidSetVersion(HxBytes(p), v), UuidSetRfcVariant(UuidSetVersion(HxBytes(p), v))}

(* ---- field assignments (format-then-parse direction) ---- *)
CsPats == {2 ^ j : j \in 0..13} \cup {16383 - 2 ^ j : j \in 0..13} \cup {0, 16383, 4095, 4096, 10922, 5461}
V1FieldPats == {<<SubSeq(p, 1, 15), cs, HxBytes(SubSeq(p, 16, 27))>> : p \in BitPats(27), cs \in {0, 16383}}
          \cup {<<x, cs, y>> : x \in {HxZero(15), Ones(15)}, cs \in CsPats, y \in {<<0, 0, 0, 0, 0, 0>>, <<255, 255, 255, 255, 255, 255>>}}
V1FieldRand(i) == <<RandNibs(3 * i, 15), (RandBytes(3 * i + 1, 2)[1] * 256 + RandBytes(3 * i + 1, 2)[2]) % 16384, RandBytes(3 * i + 2, 6)>>
V1FieldCase(x) ==
    LET b == V1Make(x[1], x[2], x[3]) IN
    /\ Assert(V1Timestamp(b) = x[1] /\ V1ClockSeq(b) = x[2] /\ V1Node(b) = x[3] /\ UuidVersion(b) = 1 /\ UuidVariant(b) = "rfc4122",
              "UUIDv1: extraction does not invert construction")
    /\ Emit([k |-> "v1f", ts |-> x[1], cs |-> x[2], node |-> x[3], b |-> b, t |-> UuidText(b)])

ClkPats == {2 ^ j : j \in 0..5} \cup {63 - 2 ^ j : j \in 0..5} \cup {0, 63, 15, 16}
V2FieldPats == {<<SubSeq(p, 1, 8), SubSeq(p, 9, 15), clk, (16 * p[16] + p[17]), HxBytes(SubSeq(p, 18, 29))>> : p \in BitPats(29), clk \in {0, 63}}
          \cup {<<x, y, clk, d, n>> : x \in {HxZero(8), Ones(8)}, y \in {HxZero(7)}, clk \in ClkPats, d \in {0, 255}, n \in {<<0, 0, 0, 0, 0, 0>>}}
V2FieldRand(i) == <<RandNibs(4 * i, 8), RandNibs(4 * i + 1, 7), RandBytes(4 * i + 2, 2)[1] % 64, RandBytes(4 * i + 2, 2)[2], RandBytes(4 * i + 3, 6)>>
V2FieldCase(x) ==
    LET b == V2Make(x[1], x[2], x[3], x[4], x[5]) IN
    /\ Assert(V2LocalId(b) = x[1] /\ V2TimeHiMid(b) = x[2] /\ V2Clock(b) = x[3] /\ V2Domain(b) = x[4] /\ V2Node(b) = x[5]
              /\ UuidVersion(b) = 2 /\ UuidVariant(b) = "rfc4122", "UUIDv2: extraction does not invert construction")
    /\ Emit([k |-> "v2f", lid |-> x[1], thm |-> x[2], clk |-> x[3], dom |-> x[4], node |-> x[5], b |-> b, t |-> UuidText(b)])

(* base type / v8: version nibble, variant nibble, 15 data bytes *)
BaseFieldPats == {<<v, n, HxBytes(p)>> : v \in {0, 8, 15}, n \in {0, 8, 15}, p \in BitPats(30)}
            \cup {<<v, n, HxBytes(HxZero(30))>> : v \in 0..15, n \in 0..15}
BaseFieldRand(i) == <<RandBytes(2 * i, 2)[1] % 16, RandBytes(2 * i, 2)[2] % 16, RandBytes(2 * i + 1, 15)>>
BaseFieldCase(x) ==
    LET b == BaseMake(x[1], x[2], x[3]) IN
    /\ Assert(UuidVersion(b) = x[1] /\ BaseVariantNibble(b) = x[2] /\ BaseData(b) = x[3], "UUID base: extraction does not invert construction")
    /\ Emit([k |-> "basef", ver |-> x[1], varn |-> x[2], data |-> x[3], b |-> b, t |-> UuidText(b)])

GuidFieldCase(cn) ==   \* field assignment -> every form (same record shape as "guid", judged in the format-then-parse direction too)
    GuidCase(cn, TRUE, 0)

Init ==
    \/ /\ "guid" \in Kinds
       /\ \/ \E p \in Pat128 : c = <<"guid", p>> /\ GuidCase(p, TRUE, 0)
          \/ \E i \in 1..NRandom : c = <<"guid", i>> /\ GuidCase(RandNibs(i, 32), FALSE, i)
    \/ /\ "uuid" \in Kinds
       /\ \/ \E p \in Pat128 : c = <<"uuid", p>> /\ UuidCase(HxBytes(p), TRUE, 0)
          \/ \E i \in 1..NRandom : c = <<"uuid", i>> /\ UuidCase(RandBytes(i + 50000, 16), FALSE, i)
    \/ /\ "v1" \in Kinds
       /\ \/ \E p \in Pat128 : \E b \in Versioned(p, 1) : c = <<"v1", b>> /\ V1Case(b, TRUE, 0)
          \/ \E i \in 1..NRandom : LET b == UuidSetVersion(RandBytes(i + 100000, 16), 1) IN
                                   c = <<"v1", i>> /\ V1Case(IF i % 2 = 0 THEN UuidSetRfcVariant(b) ELSE b, FALSE, i)
          \/ \E x \in V1FieldPats : c = <<"v1f", x>> /\ V1FieldCase(x)
          \/ \E i \in 1..NRandom : c = <<"v1f", i>> /\ V1FieldCase(V1FieldRand(i))
    \/ /\ "v2" \in Kinds
       /\ \/ \E p \in Pat128 : \E b \in Versioned(p, 2) : c = <<"v2", b>> /\ V2Case(b, TRUE, 0)
          \/ \E i \in 1..NRandom : LET b == UuidSetVersion(RandBytes(i + 150000, 16), 2) IN
                                   c = <<"v2", i>> /\ V2Case(IF i % 2 = 0 THEN UuidSetRfcVariant(b) ELSE b, FALSE, i)
          \/ \E x \in V2FieldPats : c = <<"v2f", x>> /\ V2FieldCase(x)
          \/ \E i \in 1..NRandom : c = <<"v2f", i>> /\ V2FieldCase(V2FieldRand(i))
    \/ /\ "v8" \in Kinds
       /\ \/ \E p \in Pat128 : \E b \in Versioned(p, 8) : c = <<"v8", b>> /\ V8Case(b, TRUE, 0)
          \/ \E i \in 1..NRandom : c = <<"v8", i>> /\ V8Case(UuidSetVersion(RandBytes(i + 30000, 16), 8), FALSE, i)
    \/ /\ "basef" \in Kinds
       /\ \/ \E x \in BaseFieldPats : c = <<"basef", x>> /\ BaseFieldCase(x)
          \/ \E i \in 1..NRandom : c = <<"basef", i>> /\ BaseFieldCase(BaseFieldRand(i))
Next == FALSE /\ UNCHANGED c
=============================================================================
