-------------------------------- MODULE UUID --------------------------------
(***************************************************************************)
(* UUID per RFC 4122.  A UUID is 16 octets b[1..16] in network order.      *)
(*                                                                         *)
(* 3.      string form: time-low "-" time-mid "-" time-high-and-version    *)
(*         "-" clock-seq-and-reserved clock-seq-low "-" node; 8-4-4-4-12   *)
(*         hex digits, lower case on output, case-insensitive on input.    *)
(* 4.1.1   variant: the most significant bits of octet 8:                  *)
(*         0xx NCS, 10x RFC 4122, 110 Microsoft, 111 future.               *)
(* 4.1.2   layout (variant 10x):                                           *)
(*         octets 0-3 time_low, 4-5 time_mid, 6-7 time_hi_and_version,     *)
(*         8 clock_seq_hi_and_reserved, 9 clock_seq_low, 10-15 node.       *)
(* 4.1.3   version: the most significant 4 bits of time_hi_and_version.    *)
(* 4.1.4   timestamp: 60 bits = time_hi (12) . time_mid (16) . time_low    *)
(*         (32), count of 100 ns intervals since 1582-10-15 00:00 UTC.     *)
(* 4.1.5   clock sequence: 14 bits = low 6 bits of octet 8 . octet 9.      *)
(* 4.1.6   node: 48 bits.                                                  *)
(*                                                                         *)
(* Version 2 (DCE Security, DCE 1.1 Authentication and Security Services   *)
(* ch. 5.2.1.1): as version 1 but time_low is replaced by a 32-bit local   *)
(* identifier and clock_seq_low by an 8-bit local domain; the clock        *)
(* sequence keeps its 6 high bits only.                                    *)
(*                                                                         *)
(* Wide quantities are nibble sequences (most significant first).          *)
(***************************************************************************)
EXTENDS HexText

UuidDash == <<45>>
UuidTpl == TplNib(1, 8) \o TplLit(UuidDash) \o TplNib(9, 12) \o TplLit(UuidDash) \o TplNib(13, 16) \o TplLit(UuidDash)
           \o TplNib(17, 20) \o TplLit(UuidDash) \o TplNib(21, 32)
UuidText(b) == TplFormat(UuidTpl, HxNibbles(b))
UuidPos == TplPos(UuidTpl)
UuidParse(t) == LET r == TplParseAt(UuidTpl, UuidPos, t) IN [ok |-> r.ok, b |-> IF r.ok THEN HxBytes(r.ns) ELSE <<>>]

UuidVersion(b) == b[7] \div 16
UuidVariant(b) == IF b[9] < 128 THEN "ncs" ELSE IF b[9] < 192 THEN "rfc4122" ELSE IF b[9] < 224 THEN "microsoft" ELSE "future"
UuidSetVersion(b, v) == [b EXCEPT ![7] = 16 * v + (b[7] % 16)]
UuidSetRfcVariant(b) == [b EXCEPT ![9] = 128 + (b[9] % 64)]

(* ---- version 1 (4.1.2 .. 4.1.6) ---- *)
V1Timestamp(b) == <<b[7] % 16>> \o HxNibbles(<<b[8]>>) \o HxNibbles(<<b[5], b[6]>>) \o HxNibbles(SubSeq(b, 1, 4))   \* 15 nibbles
V1ClockSeq(b) == (b[9] % 64) * 256 + b[10]                                                                         \* 0..16383
V1Node(b) == SubSeq(b, 11, 16)
(* the UUID with these fields, version 1, variant 10x *)
V1Make(ts, cs, node) == HxBytes(SubSeq(ts, 8, 15)) \o HxBytes(SubSeq(ts, 4, 7)) \o <<16 + ts[1], 16 * ts[2] + ts[3]>>
                        \o <<128 + (cs \div 256), cs % 256>> \o node

(* ---- version 2 (DCE Security) ---- *)
V2LocalId(b) == HxNibbles(SubSeq(b, 1, 4))                                               \* 8 nibbles
V2TimeHiMid(b) == <<b[7] % 16>> \o HxNibbles(<<b[8]>>) \o HxNibbles(<<b[5], b[6]>>)      \* the 28 most significant bits of the timestamp
V2Clock(b) == b[9] % 64                                                                  \* 6 bits
V2Domain(b) == b[10]
V2Node(b) == SubSeq(b, 11, 16)
V2Make(lid, thm, clk, dom, node) == HxBytes(lid) \o HxBytes(SubSeq(thm, 4, 7)) \o <<32 + thm[1], 16 * thm[2] + thm[3]>>
                                    \o <<128 + clk, dom>> \o node

(* ---- the decomposition used by crypto/uuid.UUID (model detail, not in the RFC): the version nibble,
        the "variant nibble" (high nibble of octet 8) and the remaining 120 bits, in order, as 15 bytes ---- *)
BaseVariantNibble(b) == b[9] \div 16
BaseData(b) == LET ns == HxNibbles(b) IN HxBytes(SubSeq(ns, 1, 12) \o SubSeq(ns, 14, 16) \o SubSeq(ns, 18, 32))
BaseMake(ver, varn, data) == LET ds == HxNibbles(data) IN
                             HxBytes(SubSeq(ds, 1, 12) \o <<ver>> \o SubSeq(ds, 13, 15) \o <<varn>> \o SubSeq(ds, 16, 30))

(* known answers: the name space IDs of RFC 4122 Appendix C are version-1 UUIDs, 6ba7b810-9dad-11d1-80b4-00c04fd430c8 *)
UuidNsDns == <<107, 167, 184, 16, 157, 173, 17, 209, 128, 180, 0, 192, 79, 212, 48, 200>>
UuidNsDnsText == <<54,98,97,55,98,56,49,48, 45, 57,100,97,100, 45, 49,49,100,49, 45, 56,48,98,52, 45, 48,48,99,48,52,102,100,52,51,48,99,56>>
ASSUME UuidText(UuidNsDns) = UuidNsDnsText
ASSUME UuidParse(HxCase(UuidNsDnsText, 1)) = [ok |-> TRUE, b |-> UuidNsDns]
ASSUME UuidVersion(UuidNsDns) = 1 /\ UuidVariant(UuidNsDns) = "rfc4122"
ASSUME V1Timestamp(UuidNsDns) = <<1, 13, 1, 9, 13, 10, 13, 6, 11, 10, 7, 11, 8, 1, 0>>      \* 0x1d19dad6ba7b810
ASSUME V1ClockSeq(UuidNsDns) = 180 /\ V1Node(UuidNsDns) = <<0, 192, 79, 212, 48, 200>>      \* 0x00b4
ASSUME V1Make(V1Timestamp(UuidNsDns), V1ClockSeq(UuidNsDns), V1Node(UuidNsDns)) = UuidNsDns
ASSUME BaseMake(UuidVersion(UuidNsDns), BaseVariantNibble(UuidNsDns), BaseData(UuidNsDns)) = UuidNsDns
(* a clock sequence that needs all 14 bits *)
ASSUME V1ClockSeq(V1Make(HxZero(15), 16383, <<1, 2, 3, 4, 5, 6>>)) = 16383
ASSUME V1Make(HxZero(15), 16383, <<1, 2, 3, 4, 5, 6>>)[9] = 191
=============================================================================
