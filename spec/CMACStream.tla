----------------------------- MODULE CMACStream -----------------------------
(***************************************************************************)
(* The hash.Hash returned by crypto/cmac.New (Write, Sum, Reset) as a      *)
(* state machine over the toy block cipher of ToyCipher.tla.  The message  *)
(* is a fixed content function M; the abstract state is (which cipher      *)
(* configuration, how many bytes have been absorbed since New/Reset).      *)
(*                                                                         *)
(* C12 (P): Sum after any sequence of writes returns CMAC (SP 800-38B) of  *)
(* the concatenation, however it was cut; Sum is a pure read; after Reset  *)
(* the object behaves as a fresh one.  TLC generates every (offset, write  *)
(* length) edge, every Sum and every Reset edge, for both block sizes and  *)
(* several keys, with the tag the specification computes.                  *)
(*                                                                         *)
(* With Concrete = TRUE the module carries the concrete mirror of a lazy   *)
(* implementation (running CBC block ci, fill position fp) and checks that *)
(* it refines the abstract tag; Deviation names a seeded fault.            *)
(***************************************************************************)
EXTENDS CMAC, ToyCipher, TLC, Json

CONSTANTS N,          \* message length explored
          Seed,       \* content seed
          Chunks,     \* set of write sizes
          Concrete,   \* BOOLEAN
          Deviation,  \* "none" | "swapk" | "eager" | "resetkeepspos"   (only with Concrete)
          EmitEdges   \* BOOLEAN

VARIABLES cid, pos, ci, fp
vars == <<cid, pos, ci, fp>>

M == TLCEval(Pattern(Seed + 202, N))

(* cipher configurations <<block size, toy key>>.  The fixed keys are chosen so that both branches of both
   doublings of the subkey derivation occur for each block size (asserted below); the last two depend on the seed. *)
Configs == TLCEval(<< <<8, <<1>>>>, <<8, <<2>>>>, <<8, <<3>>>>, <<8, <<6>>>>,
                      <<16, <<1>>>>, <<16, <<2>>>>, <<16, <<3>>>>, <<16, <<6>>>>,
                      <<8, Pattern(Seed + 3, 7)>>, <<16, Pattern(Seed + 4, 32)>> >>)
NC == Len(Configs)
Enc(c, x) == ToyE(Configs[c][2], x)
BS(c) == Configs[c][1]
TagOf(c, m) == LET E(x) == Enc(c, x) IN CMACTag(E, BS(c), m)
SubkeysOf(c) == LET E(x) == Enc(c, x) IN CMACSubkeys(E, BS(c))

(* tag of every prefix of M under every configuration -- computed once *)
D == TLCEval([c \in 1..NC |-> [k \in 0..N |-> TagOf(c, SubSeq(M, 1, k))]])
SK == TLCEval([c \in 1..NC |-> SubkeysOf(c)])
L0 == TLCEval([c \in 1..NC |-> Enc(c, Zeros(BS(c)))])

Emit(r) == EmitEdges => PrintT(ToJson(r))
NoD == <<>>

Init == /\ cid \in 1..NC
        /\ pos = 0
        /\ ci = (IF Concrete THEN Zeros(BS(cid)) ELSE <<>>)
        /\ fp = 0
        /\ Emit([op |-> "cfg", cid |-> cid, b |-> BS(cid), key |-> Configs[cid][2], m |-> M, p |-> 0, k |-> 0, d |-> D[cid][0],
                 tx |-> Pattern(Seed + cid, BS(cid)), ty |-> Enc(cid, Pattern(Seed + cid, BS(cid)))])

(* ---- concrete mirror: absorb bytes lazily (the last block is never encrypted before more data or Sum arrives) ---- *)
RECURSIVE Absorb(_, _, _, _)
Absorb(c, st, f, data) ==
    IF data = <<>> THEN <<st, f>>
    ELSE LET full == f >= BS(c)
             st1 == IF full THEN Enc(c, st) ELSE st
             f1 == IF full THEN 0 ELSE f
             st2 == [st1 EXCEPT ![f1 + 1] = st1[f1 + 1] ^^ Head(data)]
             eager == Deviation = "eager" /\ f1 + 1 = BS(c)
         IN Absorb(c, IF eager THEN Enc(c, st2) ELSE st2, IF eager THEN 0 ELSE f1 + 1, Tail(data))
ConcreteSum(c, st, f) ==
    LET partial == f < BS(c)
        K == IF (partial /\ Deviation # "swapk") \/ (~partial /\ Deviation = "swapk") THEN SK[c][2] ELSE SK[c][1]
        x == CMACXor(st, K)
    IN Enc(c, IF partial THEN [x EXCEPT ![f + 1] = x[f + 1] ^^ 128] ELSE x)

Write(k) ==
    /\ pos + k <= N
    /\ pos' = pos + k
    /\ cid' = cid
    /\ IF Concrete THEN LET r == Absorb(cid, ci, fp, SubSeq(M, pos + 1, pos + k)) IN ci' = r[1] /\ fp' = r[2]
                   ELSE UNCHANGED <<ci, fp>>
    /\ Emit([op |-> "write", cid |-> cid, p |-> pos, k |-> k, d |-> D[cid][pos + k]])

Sum == /\ UNCHANGED vars                                                      \* P: Sum is a pure read
       /\ Emit([op |-> "sum", cid |-> cid, p |-> pos, k |-> 0, d |-> D[cid][pos]])

Reset == /\ pos' = 0 /\ cid' = cid
         /\ ci' = (IF Concrete THEN Zeros(BS(cid)) ELSE <<>>)
         /\ fp' = (IF Deviation = "resetkeepspos" THEN fp ELSE 0)
         /\ Emit([op |-> "reset", cid |-> cid, p |-> pos, k |-> 0, d |-> D[cid][0]])

Next == (\E k \in Chunks : Write(k)) \/ Sum \/ Reset
Spec == Init /\ [][Next]_vars

(* P on the mirror: what a Sum issued now returns is the CMAC of everything written since New/Reset *)
Refines == Concrete => ConcreteSum(cid, ci, fp) = D[cid][pos]

MSB(s) == s[1] \div 128
(* both branches of both doublings are exercised for each block size *)
ASSUME \A b \in {8, 16}, x \in {0, 1}, y \in {0, 1} :
          \E c \in 1..8 : BS(c) = b /\ MSB(L0[c]) = x /\ MSB(SK[c][1]) = y
=============================================================================
