"""Shared plumbing for /verif checks (python3 stdlib only).

Exit codes: 0 = property held on everything explored (KNOWN-FINDING lines allowed),
1 = VIOLATION printed, 2 = infrastructure problem (never a verdict).
"""
import json, os, shutil, subprocess, sys, tempfile, time, re, hashlib

VERIF = os.path.dirname(os.path.dirname(os.path.abspath(__file__)))
REPO = os.environ.get("VERIF_REPO", "/repo")
SPEC = os.path.join(VERIF, "spec")
BUILD = os.path.join(VERIF, ".build")
HARNESS = os.path.join(VERIF, "harness")
TLA_CP = "/opt/veriftools/tla/tla2tools.jar:/opt/veriftools/tla/CommunityModules-deps.jar"
NCPU = os.cpu_count() or 4


class Infra(Exception):
    """Infrastructure failure: exit 2, never a violation."""


def goenv():
    e = dict(os.environ)
    e["GOFLAGS"] = "-mod=mod"
    e["GOPROXY"] = "off"
    e.pop("GOSUMDB", None)          # GOSUMDB=off breaks toolchain selection (measured)
    e["GOTOOLCHAIN"] = "auto"       # /repo needs go1.24.0 (cached toolchain module)
    e.setdefault("GOCACHE", os.path.join(BUILD, "gocache"))
    return e


def sh(cmd, cwd=None, env=None, timeout=None, check=True, stdin=None):
    p = subprocess.run(cmd, cwd=cwd, env=env, timeout=timeout, stdout=subprocess.PIPE,
                       stderr=subprocess.STDOUT, text=True, input=stdin)
    if check and p.returncode != 0:
        raise Infra("command failed (%d): %s\n%s" % (p.returncode, " ".join(cmd), p.stdout[-4000:]))
    return p


_built = {}
import threading
_build_lock = threading.Lock()


def build_harness(race=False):
    """(Re)build the Go harness against /repo's working tree with the verif tag."""
    key = "vh-race" if race else "vh"
    if os.path.realpath(REPO) != "/repo":
        # a scratch tree gets its own binary so that it cannot disturb concurrent runs against /repo
        key += "-" + hashlib.sha1(os.path.realpath(REPO).encode()).hexdigest()[:8]
    with _build_lock:
        # several checks (or several instances of one check) may run at the same time on one machine: the build -- which
        # rewrites harness/go.sum and the binary -- is serialised across processes too
        import fcntl
        os.makedirs(BUILD, exist_ok=True)
        with open(os.path.join(BUILD, ".build.lock"), "w") as lk:
            fcntl.flock(lk, fcntl.LOCK_EX)
            try:
                return _build_locked(key, race)
            finally:
                fcntl.flock(lk, fcntl.LOCK_UN)


def _build_locked(key, race):
    if key in _built:
        return _built[key]
    os.makedirs(BUILD, exist_ok=True)
    gosum = os.path.join(HARNESS, "go.sum")
    want = open(os.path.join(REPO, "go.sum"), "rb").read()
    if not os.path.exists(gosum) or open(gosum, "rb").read() != want:
        tmp = gosum + ".tmp.%d" % os.getpid()
        with open(tmp, "wb") as fh:
            fh.write(want)
        os.replace(tmp, gosum)          # never a half-written go.sum for a concurrent `go build` to read
    out = os.path.join(BUILD, key)
    outtmp = out + ".new.%d" % os.getpid()
    cmd = ["go", "build", "-tags", "verif", "-o", outtmp]
    if os.path.realpath(REPO) != "/repo":
        # VERIF_REPO=<worktree>: same harness, alternative go.mod whose replace points at that tree
        alt = os.path.join(BUILD, key + ".mod")
        with open(alt, "w") as fh:
            fh.write(open(os.path.join(HARNESS, "go.mod")).read().replace("=> /repo", "=> " + os.path.realpath(REPO)))
        shutil.copyfile(gosum, os.path.join(BUILD, key + ".sum"))
        cmd.append("-modfile=" + alt)
    if race:
        cmd.append("-race")
    cmd.append("./cmd/vh")
    t0 = time.time()
    p = sh(cmd, cwd=HARNESS, env=goenv(), timeout=900, check=False)
    if p.returncode != 0:
        try:
            os.remove(outtmp)
        except OSError:
            pass
        raise Infra("harness build failed:\n" + p.stdout[-6000:])
    os.replace(outtmp, out)             # a running instance keeps the binary it started; new ones get the new file
    _built[key] = out
    return out


class TLCResult:
    def __init__(self):
        self.emitted = []      # decoded JSON objects printed with PrintT(ToJson(..))
        self.generated = 0
        self.distinct = 0
        self.ok = False        # "No error has been found"
        self.violation = None  # name of violated invariant/property, if any
        self.output = ""
        self.wall = 0.0
        self.coverage_zero = []


_EMIT = re.compile(r'^"(\{.*\}|\[.*\])"$')


def scratch(prefix="vf-"):
    base = os.environ.get("VERIF_TMP") or tempfile.gettempdir()
    return tempfile.mkdtemp(prefix=prefix, dir=base)


def run_tlc(module, cfg_text, *, extra_files=None, workers=1, simulate=None, depth=None,
            seed=None, timeout=900, coverage=False, deadlock=False, heap=None,
            emit_to=None, dfs=False, keep=False, allow_violation=False):
    """Run TLC on spec/<module>.tla with the given cfg text in a scratch copy of spec/.

    emit_to: path; JSON lines printed by PrintT(ToJson(.)) are streamed there
    (decoded) instead of being kept in memory.
    """
    d = scratch("tlc-")
    res = TLCResult()
    try:
        for f in os.listdir(SPEC):
            if f.endswith(".tla"):
                shutil.copyfile(os.path.join(SPEC, f), os.path.join(d, f))
        for name, content in (extra_files or {}).items():
            if isinstance(content, str) and os.path.isabs(content) and os.path.exists(content) and "\n" not in content:
                shutil.copyfile(content, os.path.join(d, name))
            else:
                with open(os.path.join(d, name), "w") as fh:
                    fh.write(content)
        with open(os.path.join(d, module + ".cfg"), "w") as fh:
            fh.write(cfg_text)
        os.makedirs(os.path.join(d, "jtmp"), exist_ok=True)
        cmd = ["java", "-Xss1g", "-XX:+UseParallelGC", "-Djava.io.tmpdir=" + os.path.join(d, "jtmp")]
        if heap:
            cmd.append("-Xmx" + heap)
        if dfs:
            cmd.append("-Dtlc2.tool.queue.IStateQueue=StateDeque")
        cmd += ["-cp", TLA_CP, "tlc2.TLC", "-workers", str(workers), "-metadir", os.path.join(d, "md"),
                "-config", module + ".cfg"]
        if not deadlock:
            cmd.append("-deadlock")   # -deadlock DISABLES deadlock checking
        if simulate is not None:
            cmd += ["-simulate", "num=%d" % simulate]
            if depth:
                cmd += ["-depth", str(depth)]
        if seed is not None:
            cmd += ["-seed", str(seed)]
        if coverage:
            cmd += ["-coverage", "1"]
        cmd.append(module + ".tla")
        t0 = time.time()
        env = dict(os.environ)
        env.pop("JAVA_TOOL_OPTIONS", None)
        out_lines = []
        ef = open(emit_to, "w") if emit_to else None
        try:
            p = subprocess.Popen(cmd, cwd=d, env=env, stdout=subprocess.PIPE, stderr=subprocess.STDOUT, text=True)
            import threading
            timer = threading.Timer(timeout, p.kill)
            timer.start()
            try:
                for line in p.stdout:
                    line = line.rstrip("\n")
                    m = _EMIT.match(line)
                    if m:
                        try:
                            obj = json.loads(json.loads(line))
                        except Exception:
                            out_lines.append(line)
                            continue
                        if ef:
                            ef.write(json.dumps(obj, separators=(",", ":")) + "\n")
                        else:
                            res.emitted.append(obj)
                    elif not line.startswith(("Parsing file ", "Semantic processing of", "Linting of module")):
                        out_lines.append(line)
                p.wait()
            finally:
                fired = not timer.is_alive()
                timer.cancel()
        finally:
            if ef:
                ef.close()
        res.wall = time.time() - t0
        res.output = "\n".join(out_lines)
        if p.returncode in (-9, 137) and fired:
            raise Infra("TLC timed out after %ss on %s" % (timeout, module))
        m = re.search(r"(\d+) states generated, (\d+) distinct states found", res.output)
        if m:
            res.generated, res.distinct = int(m.group(1)), int(m.group(2))
        else:
            m = re.search(r"(\d+) states checked", res.output)   # simulation mode
            if m:
                res.generated = res.distinct = int(m.group(1))
        res.ok = "No error has been found" in res.output or (simulate is not None and p.returncode == 0 and "Error:" not in res.output)
        m = re.search(r"Error: Invariant (\S+) is violated", res.output)
        if m:
            res.violation = m.group(1)
        m2 = re.search(r"Error: Action property (\S+) is violated", res.output)
        if m2:
            res.violation = m2.group(1)
        if "Error: Temporal properties were violated" in res.output or re.search(r"Error: Temporal property \S+ was violated", res.output):
            res.violation = "temporal"
        if re.search(r"Error: Postcondition \S+ .*is false", res.output) and not res.violation:
            res.violation = "postcondition"
        if coverage:
            for ln in out_lines:
                if re.search(r"^<\w+ line .*>: 0:0$", ln.strip()):
                    res.coverage_zero.append(ln.strip())
        if not res.ok and not res.violation:
            raise Infra("TLC failed on %s (rc=%s):\n%s" % (module, p.returncode, res.output[-5000:]))
        if res.violation and not allow_violation:
            raise Infra("specification-level violation of %s in %s (design finding, not a code verdict):\n%s"
                        % (res.violation, module, res.output[-5000:]))
        return res
    finally:
        if not keep:
            shutil.rmtree(d, ignore_errors=True)


def load_findings():
    """known_findings.jsonl (committed, never written at run time); known_findings.d/*.jsonl are
    per-property work files merged into it by bin/merge-findings."""
    import glob
    paths = [os.path.join(VERIF, "known_findings.jsonl")] + sorted(glob.glob(os.path.join(VERIF, "known_findings.d", "*.jsonl")))
    out = []
    for path in paths:
        if os.path.exists(path):
            for ln in open(path):
                ln = ln.strip()
                if ln and not ln.startswith("#"):
                    out.append(json.loads(ln))
    return out


def cfg(name, **sub):
    """spec/cfg/<name> with @KEY@ placeholders substituted."""
    s = open(os.path.join(SPEC, "cfg", name)).read()
    for k, v in sub.items():
        s = s.replace("@%s@" % k, str(v))
    return s


def intset(xs):
    return "{" + ",".join(str(int(i)) for i in xs) + "}"


def replay_cases(chk, module, cfg_text, driver, part, opts=None, workers=1, timeout=1800, race=False, tlc_kw=None):
    """model -> code in one call: TLC runs <module> with cfg_text, every PrintT(ToJson(..)) line becomes one case,
    the harness driver replays them into the real code, failures are ingested. Returns the driver summary."""
    d = scratch("rp-")
    try:
        cases = os.path.join(d, "cases.ndjson")
        r = run_tlc(module, cfg_text, emit_to=cases, workers=workers, timeout=timeout, **(tlc_kw or {}))
        chk.add_tlc(part + "_tlc", r)
        if os.path.getsize(cases) == 0:
            raise Infra("TLC emitted no cases for %s" % part)
        res = os.path.join(d, "res.ndjson")
        out, races = run_harness(driver, cases, res, opts, race=race, timeout=timeout)
        for rep in races[:5]:
            chk.fail(race_site(rep), "data-race", rep[:1500], None)
        return chk.ingest_results(res, part=part)
    finally:
        shutil.rmtree(d, ignore_errors=True)


class Check:
    """One run of one property's check: collects failures, evidence, prints the verdict."""

    def __init__(self, pid, tier, seed, level="model_checking"):
        self.pid, self.tier, self.seed, self.level = pid, tier, seed, level
        self.t0 = time.time()
        self.failures = []       # dicts: site, aspect, detail, sample, drift(bool)
        self.cov = {"states": 0, "transitions": 0, "traces_validated_against_impl": 0, "samples": [],
                    "evaluations": 0, "distinct_nontrivial": 0, "rule": "", "exhaustive": False, "parts": {}}
        self.assumptions = []
        self.drift = 0
        self.notes = []

    # ---- coverage bookkeeping
    def add_tlc(self, name, r):
        self.cov["states"] += r.distinct
        self.cov["transitions"] += r.generated
        self.cov["parts"][name] = {"tlc_states_generated": r.generated, "tlc_distinct_states": r.distinct,
                                   "tlc_wall_s": round(r.wall, 2)}

    def part(self, name, **kw):
        self.cov["parts"].setdefault(name, {}).update(kw)

    def sample(self, s):
        if len(self.cov["samples"]) < 12:
            self.cov["samples"].append(s)

    def fail(self, site, aspect, detail, sample=None, drift=False):
        self.failures.append({"site": site, "aspect": aspect, "detail": detail, "sample": sample, "drift": drift})

    def ingest_results(self, path, part=None):
        """Read a harness result file (ndjson). Lines: {"ok":bool,"site","aspect","detail","sample","drift"}
        and a final {"summary":{...}}. Returns the summary."""
        summ = None
        with open(path) as fh:
            for ln in fh:
                ln = ln.strip()
                if not ln:
                    continue
                o = json.loads(ln)
                if "summary" in o:
                    summ = o["summary"]
                    continue
                if not o.get("ok", False):
                    self.fail(o.get("site", "?"), o.get("aspect", "?"), o.get("detail", ""), o.get("sample"),
                              drift=bool(o.get("drift")))
        if summ is None:
            raise Infra("harness result file %s has no summary line (driver died?)" % path)
        if part:
            self.part(part, **{k: v for k, v in summ.items() if k != "samples"})
        for s in (summ.get("samples") or [])[:4]:
            self.sample(s)
        self.cov["evaluations"] += int(summ.get("cases", 0))
        self.cov["distinct_nontrivial"] += int(summ.get("distinct_nontrivial", 0))
        self.cov["traces_validated_against_impl"] += int(summ.get("executions", summ.get("cases", 0)))
        return summ

    # ---- verdict
    def new_violations(self):
        """Failures recorded so far that are neither drift nor listed as open known findings."""
        findings = {(f["site"], f["aspect"]) for f in load_findings() if f.get("property") == self.pid and f.get("status") == "open"}
        return [f for f in self.failures if not f["drift"] and (f["site"], f["aspect"]) not in findings]

    def finish(self, rule="", trusted=None):
        findings = [f for f in load_findings() if f.get("property") == self.pid and f.get("status") == "open"]
        known_hit = {}
        violations = []
        drifts = []
        for f in self.failures:
            if f["drift"]:
                drifts.append(f)
                continue
            k = None
            for kf in findings:
                if kf["site"] == f["site"] and kf["aspect"] == f["aspect"]:
                    k = kf
                    break
            if k is not None:
                known_hit.setdefault((k["site"], k["aspect"]), [k, 0])[1] += 1
            else:
                violations.append(f)
        for d in drifts[:20]:
            print("DRIFT: property=%s site=%s aspect=%s %s" % (self.pid, d["site"], d["aspect"], str(d["detail"])[:200]))
        for (site, aspect), (kf, n) in sorted(known_hit.items()):
            print("KNOWN-FINDING: property=%s site=%s aspect=%s cases=%d %s" % (self.pid, site, aspect, n, kf.get("what", "")))
        rc = 0
        if violations:
            os.makedirs(os.path.join(VERIF, "replays"), exist_ok=True)
            seen = set()
            for v in violations:
                key = (v["site"], v["aspect"])
                if key in seen:
                    continue
                seen.add(key)
                h = hashlib.sha1(json.dumps([self.pid, key], sort_keys=True).encode()).hexdigest()[:10]
                path = os.path.join(VERIF, "replays", "%s-%s.json" % (self.pid, h))
                with open(path, "w") as fh:
                    json.dump({"property": self.pid, "site": v["site"], "aspect": v["aspect"], "detail": v["detail"],
                               "sample": v["sample"], "seed": self.seed, "tier": self.tier,
                               "rerun": "bin/check %s --tier %s" % (self.pid, self.tier)}, fh, indent=1)
                print("VIOLATION property=%s replay=%s" % (self.pid, path))
                print("  site=%s aspect=%s detail=%s" % (v["site"], v["aspect"], str(v["detail"])[:400]))
                if len(seen) >= 400:
                    print("  ... (%d further distinct failing (site,aspect) pairs not listed)" % (len({(x["site"], x["aspect"]) for x in violations}) - 400))
                    break
            rc = 1
        self.cov["rule"] = rule or self.cov["rule"]
        self.cov["known_findings_hit"] = sorted("%s/%s" % k for k in known_hit)
        self.cov["drift_mismatches"] = len(drifts)
        if trusted:
            self.cov["trusted_base"] = trusted
        ev = {"property_id": self.pid, "tier": self.tier, "seed": self.seed, "level": self.level,
              "coverage": self.cov, "assumptions": self.assumptions, "wall_s": round(time.time() - self.t0, 2),
              "violations": len({(v["site"], v["aspect"]) for v in violations})}
        if not self.cov["samples"]:
            self.cov["samples"] = ["(no sample recorded)"]
        os.makedirs(os.path.join(VERIF, "evidence"), exist_ok=True)
        with open(os.path.join(VERIF, "evidence", self.pid + ".json"), "w") as fh:
            json.dump(ev, fh, indent=1, sort_keys=True)
        print("%s tier=%s seed=%d: %d TLC states, %d transitions, %d real-code executions judged, %d failures (%d known, %d drift) in %.1fs"
              % (self.pid, self.tier, self.seed, self.cov["states"], self.cov["transitions"],
                 self.cov["traces_validated_against_impl"], len(self.failures),
                 sum(n for _, n in known_hit.values()), len(drifts), time.time() - self.t0))
        return rc


def run_harness(driver, inp, out, opts=None, race=False, timeout=1200, env_extra=None):
    """Run one harness driver; returns (summary-less) process output. Raises Infra on a dead driver.
    A race-detector report is returned as a list of report texts (never raises for it)."""
    exe = build_harness(race=race)
    cmd = [exe, driver, inp or "/dev/null", out] + ["%s=%s" % kv for kv in (opts or {}).items()]
    env = goenv()
    if race:
        env["GORACE"] = "halt_on_error=0 exitcode=0 history_size=3"
    env.update(env_extra or {})
    try:
        p = subprocess.run(cmd, stdout=subprocess.PIPE, stderr=subprocess.STDOUT, text=True, timeout=timeout, env=env)
    except subprocess.TimeoutExpired:
        raise Infra("harness driver %s timed out after %ss" % (driver, timeout))
    races = []
    if "WARNING: DATA RACE" in p.stdout:
        races = ["WARNING: DATA RACE" + x.split("==================")[0] for x in p.stdout.split("WARNING: DATA RACE")[1:]]
    if p.returncode != 0:
        fatal = re.search(r"(fatal error: [^\n]*|runtime: goroutine stack exceeds[^\n]*|runtime: out of memory[^\n]*)", p.stdout)
        head = ("[" + fatal.group(1) + "] ") if fatal else ""
        raise Infra("harness driver %s failed (rc=%d): %s\n%s\n...\n%s" % (driver, p.returncode, head, p.stdout[:1200], p.stdout[-2500:]))
    return p.stdout, races


def race_site(report):
    """First repository function named in a race report (stable identity for findings)."""
    m = re.search(r"github\.com/TheManticoreProject/Manticore/([\w/.()*]+)\(\)", report)
    return m.group(1) if m else "unknown"


def parallel_callers(chk, groups, part="concurrent_callers", timeout=900):
    """ValueSemantics under concurrency: the pure entry points of the given groups (harness/drivers/par_pure.go) are evaluated
    sequentially (reference) and then by 8 goroutines at once in the race-detector build; every result must equal the
    reference and the race detector must stay silent."""
    d = scratch("par-")
    try:
        res = os.path.join(d, "par.res")
        out, races = run_harness("par.pure", None, res, {"seed": chk.seed % 60000, "only": groups}, race=True, timeout=timeout)
        for rep in races[:3]:
            chk.fail(race_site(rep), "data-race", rep[:1500], None)
        return chk.ingest_results(res, part=part)
    finally:
        shutil.rmtree(d, ignore_errors=True)


def tlc_depth(output):
    m = re.search(r"The depth of the complete state graph search is (\d+)", output)
    return int(m.group(1)) if m else None


def validate_trace(chk, module, cfg_text, trace_path, part, site_of, aspect="trace-rejected", timeout=900, dfs=False,
                   extra_files=None):
    """Validate a recorded ndjson trace with TLC. On rejection, report the first unmatched event.
    site_of(event_dict) -> site string.  Returns True if accepted."""
    files = {"trace.ndjson": trace_path}
    files.update(extra_files or {})
    r = run_tlc(module, cfg_text, extra_files=files, allow_violation=True, timeout=timeout, dfs=dfs)
    chk.add_tlc(part, r)
    n = sum(1 for _ in open(trace_path))
    if r.ok:
        chk.part(part, trace_events=n, accepted=True)
        return True
    depth = tlc_depth(r.output) or 1
    evs = [json.loads(x) for x in open(trace_path)]
    idx = min(depth - 1, len(evs) - 1)    # 0-based index of the first event that is not a step of the spec
    if r.violation and r.violation != "postcondition":
        # an invariant failed in the state reached after event idx-1
        idx = max(0, idx - 1) if depth - 1 >= len(evs) else idx
        detail = "invariant %s violated after event #%d" % (r.violation, idx)
    else:
        detail = "event #%d is not a step of %s from the state reached by the first %d events" % (idx, module, idx)
    bad = evs[idx]
    ctx = evs[max(0, idx - 3):idx + 1]
    chk.part(part, trace_events=n, accepted=False, matched_prefix=idx)
    chk.fail(site_of(bad), aspect, detail, {"event": bad, "preceding": ctx[:-1]})
    return False
