// vh: the Go side of the model-based checks. Usage: vh <driver> <in> <out> [key=value ...]
//
// A driver either REPLAYS cases/behaviours emitted by TLC into the real code and judges
// the real results against the specification's expectation (model -> code), or RECORDS
// executions of the real code as ndjson traces for TLC to validate (code -> model).
// Results always travel through files: the library itself prints to stdout.
package main

import (
	"fmt"
	"os"
	"strings"

	_ "verif/harness/drivers"
	"verif/harness/h"
)

func main() {
	if len(os.Args) < 4 {
		fmt.Fprintln(os.Stderr, "usage: vh <driver> <in> <out> [k=v ...]; drivers:", strings.Join(h.Names(), " "))
		os.Exit(2)
	}
	d := h.Lookup(os.Args[1])
	if d == nil {
		fmt.Fprintln(os.Stderr, "unknown driver", os.Args[1])
		os.Exit(2)
	}
	opts := map[string]string{}
	for _, kv := range os.Args[4:] {
		if i := strings.IndexByte(kv, '='); i > 0 {
			opts[kv[:i]] = kv[i+1:]
		}
	}
	ctx, err := h.NewCtx(os.Args[2], os.Args[3], opts)
	if err != nil {
		fmt.Fprintln(os.Stderr, err)
		os.Exit(2)
	}
	if err := d(ctx); err != nil {
		fmt.Fprintln(os.Stderr, "driver error:", err)
		ctx.Abort()
		os.Exit(2)
	}
	if err := ctx.Close(); err != nil {
		fmt.Fprintln(os.Stderr, err)
		os.Exit(2)
	}
}
