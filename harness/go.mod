module verif/harness

go 1.24.0

require (
	github.com/TheManticoreProject/Manticore v0.0.0
	pgregory.net/rapid v1.3.0
)

require golang.org/x/crypto v0.37.0 // indirect

replace github.com/TheManticoreProject/Manticore => /repo
