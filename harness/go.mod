module verif/harness

go 1.24.0

require (
	github.com/TheManticoreProject/Manticore v0.0.0
	github.com/go-asn1-ber/asn1-ber v1.5.8-0.20250403174932-29230038a667
	github.com/go-ldap/ldap/v3 v3.4.11
	pgregory.net/rapid v1.3.0
)

require (
	github.com/Azure/go-ntlmssp v0.0.0-20221128193559-754e69321358 // indirect
	github.com/google/uuid v1.6.0 // indirect
	github.com/hashicorp/go-uuid v1.0.3 // indirect
	github.com/jcmturner/aescts/v2 v2.0.0 // indirect
	github.com/jcmturner/dnsutils/v2 v2.0.0 // indirect
	github.com/jcmturner/gofork v1.7.6 // indirect
	github.com/jcmturner/goidentity/v6 v6.0.1 // indirect
	github.com/jcmturner/gokrb5/v8 v8.4.4 // indirect
	github.com/jcmturner/rpc/v2 v2.0.3 // indirect
	golang.org/x/crypto v0.37.0 // indirect
	golang.org/x/net v0.39.0 // indirect
)

replace github.com/TheManticoreProject/Manticore => /repo
