// Package h holds what every driver shares: case input, result output, small codecs.
package h

import (
	"bufio"
	"bytes"
	"encoding/hex"
	"encoding/json"
	"fmt"
	"os"
	"sort"
	"strconv"
	"sync"
)

type Driver func(*Ctx) error

var drivers = map[string]Driver{}

func Register(name string, d Driver) { drivers[name] = d }
func Lookup(name string) Driver      { return drivers[name] }
func Names() []string {
	var out []string
	for k := range drivers {
		out = append(out, k)
	}
	sort.Strings(out)
	return out
}

// Bytes is a byte string that travels as a JSON array of numbers (TLA+ sequences of 0..255);
// an empty TLA+ sequence/function may arrive as [] or {}.
type Bytes []byte

func (b *Bytes) UnmarshalJSON(data []byte) error {
	if len(data) > 0 && data[0] == '{' || string(data) == "null" {
		*b = Bytes{}
		return nil
	}
	if len(data) > 0 && data[0] == '"' {
		var s string
		if err := json.Unmarshal(data, &s); err != nil {
			return err
		}
		v, err := hex.DecodeString(s)
		*b = v
		return err
	}
	var xs []int
	if err := json.Unmarshal(data, &xs); err != nil {
		return err
	}
	out := make([]byte, len(xs))
	for i, x := range xs {
		if x < 0 || x > 255 {
			return fmt.Errorf("byte out of range: %d", x)
		}
		out[i] = byte(x)
	}
	*b = out
	return nil
}

func (b Bytes) MarshalJSON() ([]byte, error) {
	xs := make([]int, len(b))
	for i, x := range b {
		xs[i] = int(x)
	}
	return json.Marshal(xs)
}

func Hex(b []byte) string { return hex.EncodeToString(b) }

// Result is one judged execution of real code.
type Result struct {
	OK     bool        `json:"ok"`
	Site   string      `json:"site,omitempty"`
	Aspect string      `json:"aspect,omitempty"`
	Detail string      `json:"detail,omitempty"`
	Sample interface{} `json:"sample,omitempty"`
	Drift  bool        `json:"drift,omitempty"`
}

type Ctx struct {
	In   string
	Opts map[string]string

	mu       sync.Mutex
	out      *os.File
	w        *bufio.Writer
	cases    int
	execs    int
	fails    int
	distinct map[string]struct{}
	samples  []interface{}
	extra    map[string]interface{}
	failSeen map[string]int
	tf       *os.File
	tw       *bufio.Writer
	retained map[string][]retainedOut
}

type retainedOut struct {
	live []byte
	copy []byte
	desc interface{}
}

// Retain registers an output the code under test handed out (the slice itself, not a copy). Every later Retain for the same
// site first re-reads the last few retained outputs of that site: an encoder's result is a value of its own, and a later call --
// on the same or on another object -- that changes it (a shared, pooled or re-sliced output buffer) is reported as
// "output-changed-by-later-call". Outputs of a site are compared only against calls of that site, so an API that documents
// "valid until the next call" can simply not be retained.
func (c *Ctx) Retain(site string, out []byte, desc interface{}) {
	if len(out) == 0 {
		return
	}
	c.mu.Lock()
	if c.retained == nil {
		c.retained = map[string][]retainedOut{}
	}
	ring := c.retained[site]
	var bad *retainedOut
	for i := range ring {
		if !bytes.Equal(ring[i].live, ring[i].copy) {
			r := ring[i]
			bad = &r
			ring[i].copy = append([]byte(nil), ring[i].live...) // report once
		}
	}
	ring = append(ring, retainedOut{live: out, copy: append([]byte(nil), out...), desc: desc})
	if len(ring) > 4 {
		ring = ring[len(ring)-4:]
	}
	c.retained[site] = ring
	c.mu.Unlock()
	if bad != nil {
		at := 0
		for at < len(bad.copy) && at < len(bad.live) && bad.copy[at] == bad.live[at] {
			at++
		}
		c.Fail(site, "output-changed-by-later-call", fmt.Sprintf("a %d-byte result handed out earlier changed at byte %d after a later call (was %s, now %s)",
			len(bad.copy), at, trunc(hex.EncodeToString(bad.copy)), trunc(hex.EncodeToString(bad.live))),
			map[string]interface{}{"earlier": bad.desc, "later": desc})
	}
}

// Emit appends one line to the trace file named by the option trace=<path>
// (code -> model direction: recorded executions for TLC to validate).
func (c *Ctx) Emit(line []byte) {
	c.mu.Lock()
	defer c.mu.Unlock()
	if c.tw == nil {
		f, err := os.Create(c.Opt("trace", c.In+".trace"))
		if err != nil {
			panic(err)
		}
		c.tf, c.tw = f, bufio.NewWriterSize(f, 1<<20)
	}
	c.tw.Write(line)
	c.tw.WriteByte('\n')
}

func NewCtx(in, out string, opts map[string]string) (*Ctx, error) {
	f, err := os.Create(out)
	if err != nil {
		return nil, err
	}
	return &Ctx{In: in, Opts: opts, out: f, w: bufio.NewWriterSize(f, 1<<20), distinct: map[string]struct{}{},
		extra: map[string]interface{}{}, failSeen: map[string]int{}}, nil
}

func (c *Ctx) Opt(k, def string) string {
	if v, ok := c.Opts[k]; ok {
		return v
	}
	return def
}

func (c *Ctx) OptInt(k string, def int) int {
	if v, ok := c.Opts[k]; ok {
		if n, err := strconv.Atoi(v); err == nil {
			return n
		}
	}
	return def
}

// Lines streams the ndjson input, one decoded value per line.
func (c *Ctx) Lines(fn func(raw []byte) error) error {
	f, err := os.Open(c.In)
	if err != nil {
		return err
	}
	defer f.Close()
	sc := bufio.NewScanner(f)
	sc.Buffer(make([]byte, 1<<20), 1<<28)
	// revpass=1: after the pass in emitted order the same cases are judged once more in REVERSE order. Every case carries
	// the specification's expectation, so the verdicts must not depend on the order: a result that depends on what was
	// computed before (package-level buffers, caches, reused objects) shows up in one of the two orders.
	rev := c.Opt("revpass", "") == "1"
	var kept [][]byte
	for sc.Scan() {
		b := sc.Bytes()
		if len(b) == 0 {
			continue
		}
		if rev {
			kept = append(kept, append([]byte(nil), b...))
		}
		if err := fn(b); err != nil {
			return err
		}
	}
	if err := sc.Err(); err != nil {
		return err
	}
	for i := len(kept) - 1; i >= 0; i-- {
		if err := fn(kept[i]); err != nil {
			return err
		}
	}
	if rev {
		c.Set("reverse_order_pass_cases", len(kept))
	}
	return nil
}

// Case counts one case taken from the model; key identifies it for the distinct count
// (pass "" when the case is trivial by the driver's rule).
func (c *Ctx) Case(key string) {
	c.mu.Lock()
	c.cases++
	if key != "" {
		c.distinct[key] = struct{}{}
	}
	c.mu.Unlock()
}

// Exec counts executions of real code that were judged.
func (c *Ctx) Exec(n int) { c.mu.Lock(); c.execs += n; c.mu.Unlock() }

func (c *Ctx) Sample(s interface{}) {
	c.mu.Lock()
	if len(c.samples) < 4 {
		c.samples = append(c.samples, s)
	}
	c.mu.Unlock()
}

func (c *Ctx) Set(k string, v interface{}) { c.mu.Lock(); c.extra[k] = v; c.mu.Unlock() }

// Fail reports a mismatch between the specification's expectation and the real code.
// At most 5 samples per (site, aspect) are written out; all are counted.
func (c *Ctx) Fail(site, aspect, detail string, sample interface{}) {
	c.fail(site, aspect, detail, sample, false)
}

// Drift reports a mismatch on a D-tagged (model detail) assertion: never a violation.
func (c *Ctx) Drift(site, aspect, detail string, sample interface{}) {
	c.fail(site, aspect, detail, sample, true)
}

func (c *Ctx) fail(site, aspect, detail string, sample interface{}, drift bool) {
	c.mu.Lock()
	defer c.mu.Unlock()
	c.fails++
	k := site + "\x00" + aspect
	c.failSeen[k]++
	if c.failSeen[k] > 5 {
		return
	}
	if len(detail) > 600 {
		detail = detail[:600] + "..."
	}
	b, _ := json.Marshal(Result{OK: false, Site: site, Aspect: aspect, Detail: detail, Sample: sample, Drift: drift})
	c.w.Write(b)
	c.w.WriteByte('\n')
}

func (c *Ctx) Abort() { c.w.Flush(); c.out.Close() }

func (c *Ctx) Close() error {
	c.mu.Lock()
	defer c.mu.Unlock()
	fc := map[string]int{}
	for k, v := range c.failSeen {
		fc[k] = v
	}
	summ := map[string]interface{}{"cases": c.cases, "executions": c.execs, "failures": c.fails,
		"distinct_nontrivial": len(c.distinct), "samples": c.samples}
	for k, v := range c.extra {
		summ[k] = v
	}
	b, _ := json.Marshal(map[string]interface{}{"summary": summ})
	c.w.Write(b)
	c.w.WriteByte('\n')
	if c.tw != nil {
		if err := c.tw.Flush(); err != nil {
			return err
		}
		c.tf.Close()
	}
	if err := c.w.Flush(); err != nil {
		return err
	}
	return c.out.Close()
}

// Guard runs fn and converts a panic into an error string ("" if none).
func Guard(fn func()) (panicked string) {
	defer func() {
		if r := recover(); r != nil {
			panicked = fmt.Sprint(r)
		}
	}()
	fn()
	return ""
}

// Pairwise executes every ordered pair (j, then k) of n items through run and reports when the result obtained for k
// after j differs from want[k] (the specification's value for k alone): a pure function's result may not depend on the
// call that preceded it. run(i) performs item i and returns its observable result as a string.
func Pairwise(c *Ctx, site string, n int, run func(i int) string, want func(i int) string, describe func(i int) interface{}) {
	for j := 0; j < n; j++ {
		for k := 0; k < n; k++ {
			run(j)
			got := run(k)
			c.Exec(2)
			if w := want(k); got != w {
				c.Fail(site, "history-dependent", fmt.Sprintf("result for an input depends on the previous call: after %v, %v gave %s, specification %s", describe(j), describe(k), trunc(got), trunc(w)),
					map[string]interface{}{"previous": describe(j), "input": describe(k)})
			}
		}
	}
}

func trunc(s string) string {
	if len(s) > 96 {
		return s[:96] + "..."
	}
	return s
}
