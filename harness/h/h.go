// Package h holds what every driver shares: case input, result output, small codecs.
package h

import (
	"bufio"
	"bytes"
	"encoding/hex"
	"encoding/json"
	"fmt"
	"os"
	"regexp"
	"runtime/debug"
	"sort"
	"strconv"
	"sync"
	"time"
	_ "time/tzdata"
)

type Driver func(*Ctx) error

var drivers = map[string]Driver{}

func Register(name string, d Driver) { drivers[name] = d }
func Lookup(name string) Driver      { return drivers[name] }
func Names() []string {
	var out []string
	for k := range drivers {
		out = append(out, k)
	}
	sort.Strings(out)
	return out
}

// Bytes is a byte string that travels as a JSON array of numbers (TLA+ sequences of 0..255);
// an empty TLA+ sequence/function may arrive as [] or {}.
type Bytes []byte

func (b *Bytes) UnmarshalJSON(data []byte) error {
	if len(data) > 0 && data[0] == '{' || string(data) == "null" {
		*b = Bytes{}
		return nil
	}
	if len(data) > 0 && data[0] == '"' {
		var s string
		if err := json.Unmarshal(data, &s); err != nil {
			return err
		}
		v, err := hex.DecodeString(s)
		if err == nil && arenaOn {
			v = append(arenaAlloc(len(v))[:0], v...)
		}
		*b = v
		return err
	}
	var xs []int
	if err := json.Unmarshal(data, &xs); err != nil {
		return err
	}
	out := arenaAlloc(len(xs))
	for i, x := range xs {
		if x < 0 || x > 255 {
			return fmt.Errorf("byte out of range: %d", x)
		}
		out[i] = byte(x)
	}
	*b = out
	return nil
}

// Arena mode (option arena=1, active during the reverse-order pass of Lines): the byte strings of a case are not freshly
// allocated but delivered in REUSED caller buffers -- the k-th byte string of length n of every case lives in the same
// backing array (same base address, same length, new content), as when an application decodes every datagram from one
// receive buffer. Code that keeps a reference into its input, or that recognises an input by its address (a cache keyed by
// the caller's slice), gives different answers in this pass than on fresh slices. Drivers that keep case inputs across lines
// must copy them (or not enable the mode).
var (
	arenaOn   bool
	arenaBufs = map[int][][]byte{}
	arenaNext = map[int]int{}
)

func arenaAlloc(n int) []byte {
	if !arenaOn || n == 0 {
		return make([]byte, n)
	}
	k := arenaNext[n]
	arenaNext[n] = k + 1
	for len(arenaBufs[n]) <= k {
		arenaBufs[n] = append(arenaBufs[n], make([]byte, n))
	}
	return arenaBufs[n][k]
}

func arenaNewLine() {
	for n := range arenaNext {
		delete(arenaNext, n)
	}
}

func (b Bytes) MarshalJSON() ([]byte, error) {
	xs := make([]int, len(b))
	for i, x := range b {
		xs[i] = int(x)
	}
	return json.Marshal(xs)
}

func Hex(b []byte) string { return hex.EncodeToString(b) }

// Result is one judged execution of real code.
type Result struct {
	OK     bool        `json:"ok"`
	Site   string      `json:"site,omitempty"`
	Aspect string      `json:"aspect,omitempty"`
	Detail string      `json:"detail,omitempty"`
	Sample interface{} `json:"sample,omitempty"`
	Drift  bool        `json:"drift,omitempty"`
}

type Ctx struct {
	In   string
	Opts map[string]string

	mu       sync.Mutex
	out      *os.File
	w        *bufio.Writer
	cases    int
	execs    int
	fails    int
	distinct map[string]struct{}
	samples  []interface{}
	extra    map[string]interface{}
	failSeen map[string]int
	tf       *os.File
	tw       *bufio.Writer
	retained map[string][]retainedOut
	reuse    map[string][]byte

	linePanics int
}

type retainedOut struct {
	live []byte
	copy []byte
	desc interface{}
}

// ReusedInput runs a decoder/parser twice on the same bytes: once on a fresh private slice and once through a buffer that is
// reused for every input of the same length at this site (same base address and length, new content -- an application reading
// every record into one buffer). run returns the observable result as a string. The two results must be equal: a parser that
// recognises its input by address (a cache keyed by the caller's slice) or that keeps state from the previous call differs.
func (c *Ctx) ReusedInput(site string, in []byte, run func([]byte) string, desc interface{}) {
	if len(in) == 0 {
		return
	}
	fresh := run(append([]byte(nil), in...))
	c.mu.Lock()
	if c.reuse == nil {
		c.reuse = map[string][]byte{}
	}
	key := fmt.Sprintf("%s/%d", site, len(in))
	slot := c.reuse[key]
	prev := c.reuse[key+"/prev"]
	if slot == nil {
		slot = make([]byte, len(in))
		c.reuse[key] = slot
	}
	c.reuse[key+"/prev"] = append([]byte(nil), in...)
	c.mu.Unlock()
	if prev != nil {
		// the previous input of this length, delivered in the buffer immediately before the current one: whatever the code
		// remembers about "the last call" now refers to this very buffer
		copy(slot, prev)
		run(slot)
	}
	copy(slot, in)
	got := run(slot)
	c.Exec(3)
	if got != fresh {
		c.Fail(site, "reused-input-buffer", fmt.Sprintf("the same bytes give %s from a fresh slice and %s from a buffer that held the previous input of this length", trunc(fresh), trunc(got)),
			map[string]interface{}{"input": desc})
	}
}

// Zones returns the instant t in several Locations: as given, UTC, two fixed offsets and three daylight-saving zones (from the
// tz database embedded in the binary). A conversion of an INSTANT gives the same result for all of them.
func Zones(t time.Time) []time.Time {
	zonesOnce.Do(func() {
		zoneList = []*time.Location{time.UTC, time.FixedZone("+0530", 5*3600+1800), time.FixedZone("-0500", -5*3600)}
		for _, n := range []string{"Europe/Paris", "America/New_York", "Australia/Lord_Howe"} {
			if l, err := time.LoadLocation(n); err == nil {
				zoneList = append(zoneList, l)
			}
		}
	})
	out := []time.Time{t}
	for _, l := range zoneList {
		out = append(out, t.In(l))
	}
	return out
}

var (
	zonesOnce sync.Once
	zoneList  []*time.Location
)

// Cuts returns a few strict prefixes lengths of an n-byte encoding (n-1, n/2, 1, 0 without repeats): inputs that announce the
// same lengths as the full encoding but end early. A decoder is fed these -- which it must reject or survive -- immediately
// before the full encoding on the SAME receiver: whatever a failed call leaves behind must not change the next, valid call.
func Cuts(n int) []int {
	var out []int
	seen := map[int]bool{}
	for _, k := range []int{n - 1, n / 2, 1, 0} {
		if k >= 0 && k < n && !seen[k] {
			seen[k] = true
			out = append(out, k)
		}
	}
	return out
}

// Guarded returns a copy of b that is a sub-slice of a larger array: the 8 bytes behind it (inside its capacity) hold a
// sentinel, as when a caller cuts adjacent views out of one blob. GuardIntact tells whether the sentinel is still there: code
// that appends to its argument in place writes into its caller's neighbouring data.
func Guarded(b []byte) []byte {
	g := make([]byte, len(b)+8)
	copy(g, b)
	for i := len(b); i < len(g); i++ {
		g[i] = 0xA5
	}
	return g[:len(b)]
}

func GuardIntact(g []byte) bool {
	if cap(g) < len(g)+8 {
		return false
	}
	for _, x := range g[len(g) : len(g)+8] {
		if x != 0xA5 {
			return false
		}
	}
	return true
}

// Retain registers an output the code under test handed out (the slice itself, not a copy). Every later Retain for the same
// site first re-reads the last few retained outputs of that site: an encoder's result is a value of its own, and a later call --
// on the same or on another object -- that changes it (a shared, pooled or re-sliced output buffer) is reported as
// "output-changed-by-later-call". Outputs of a site are compared only against calls of that site, so an API that documents
// "valid until the next call" can simply not be retained.
func (c *Ctx) Retain(site string, out []byte, desc interface{}) {
	if len(out) == 0 {
		return
	}
	c.mu.Lock()
	if c.retained == nil {
		c.retained = map[string][]retainedOut{}
	}
	ring := c.retained[site]
	var bad *retainedOut
	for i := range ring {
		if !bytes.Equal(ring[i].live, ring[i].copy) {
			r := ring[i]
			bad = &r
			ring[i].copy = append([]byte(nil), ring[i].live...) // report once
		}
	}
	ring = append(ring, retainedOut{live: out, copy: append([]byte(nil), out...), desc: desc})
	if len(ring) > 4 {
		ring = ring[len(ring)-4:]
	}
	c.retained[site] = ring
	c.mu.Unlock()
	if bad != nil {
		at := 0
		for at < len(bad.copy) && at < len(bad.live) && bad.copy[at] == bad.live[at] {
			at++
		}
		c.Fail(site, "output-changed-by-later-call", fmt.Sprintf("a %d-byte result handed out earlier changed at byte %d after a later call (was %s, now %s)",
			len(bad.copy), at, trunc(hex.EncodeToString(bad.copy)), trunc(hex.EncodeToString(bad.live))),
			map[string]interface{}{"earlier": bad.desc, "later": desc})
	}
}

// Emit appends one line to the trace file named by the option trace=<path>
// (code -> model direction: recorded executions for TLC to validate).
func (c *Ctx) Emit(line []byte) {
	c.mu.Lock()
	defer c.mu.Unlock()
	if c.tw == nil {
		f, err := os.Create(c.Opt("trace", c.In+".trace"))
		if err != nil {
			panic(err)
		}
		c.tf, c.tw = f, bufio.NewWriterSize(f, 1<<20)
	}
	c.tw.Write(line)
	c.tw.WriteByte('\n')
}

func NewCtx(in, out string, opts map[string]string) (*Ctx, error) {
	f, err := os.Create(out)
	if err != nil {
		return nil, err
	}
	return &Ctx{In: in, Opts: opts, out: f, w: bufio.NewWriterSize(f, 1<<20), distinct: map[string]struct{}{},
		extra: map[string]interface{}{}, failSeen: map[string]int{}}, nil
}

func (c *Ctx) Opt(k, def string) string {
	if v, ok := c.Opts[k]; ok {
		return v
	}
	return def
}

func (c *Ctx) OptInt(k string, def int) int {
	if v, ok := c.Opts[k]; ok {
		if n, err := strconv.Atoi(v); err == nil {
			return n
		}
	}
	return def
}

// Lines streams the ndjson input, one decoded value per line.
func (c *Ctx) Lines(fn func(raw []byte) error) error {
	f, err := os.Open(c.In)
	if err != nil {
		return err
	}
	defer f.Close()
	sc := bufio.NewScanner(f)
	sc.Buffer(make([]byte, 1<<20), 1<<28)
	// revpass=1: after the pass in emitted order the same cases are judged once more in REVERSE order. Every case carries
	// the specification's expectation, so the verdicts must not depend on the order: a result that depends on what was
	// computed before (package-level buffers, caches, reused objects) shows up in one of the two orders.
	rev := c.Opt("revpass", "") == "1"
	var kept [][]byte
	for sc.Scan() {
		b := sc.Bytes()
		if len(b) == 0 {
			continue
		}
		if rev {
			kept = append(kept, append([]byte(nil), b...))
		}
		if err := c.guardedLine(fn, b); err != nil {
			return err
		}
	}
	if err := sc.Err(); err != nil {
		return err
	}
	arenaOn = rev && c.Opt("arena", "") == "1"
	for i := len(kept) - 1; i >= 0; i-- {
		arenaNewLine()
		if err := c.guardedLine(fn, kept[i]); err != nil {
			arenaOn = false
			return err
		}
	}
	if rev {
		c.Set("reverse_order_pass_cases", len(kept))
		if arenaOn {
			c.Set("reverse_order_pass_inputs_in_reused_buffers", true)
		}
	}
	arenaOn = false
	return nil
}

// Case counts one case taken from the model; key identifies it for the distinct count
// (pass "" when the case is trivial by the driver's rule).
func (c *Ctx) Case(key string) {
	c.mu.Lock()
	c.cases++
	if key != "" {
		c.distinct[key] = struct{}{}
	}
	c.mu.Unlock()
}

// Exec counts executions of real code that were judged.
func (c *Ctx) Exec(n int) { c.mu.Lock(); c.execs += n; c.mu.Unlock() }

func (c *Ctx) Sample(s interface{}) {
	c.mu.Lock()
	if len(c.samples) < 4 {
		c.samples = append(c.samples, s)
	}
	c.mu.Unlock()
}

func (c *Ctx) Set(k string, v interface{}) { c.mu.Lock(); c.extra[k] = v; c.mu.Unlock() }

// Fail reports a mismatch between the specification's expectation and the real code.
// At most 5 samples per (site, aspect) are written out; all are counted.
func (c *Ctx) Fail(site, aspect, detail string, sample interface{}) {
	c.fail(site, aspect, detail, sample, false)
}

// Drift reports a mismatch on a D-tagged (model detail) assertion: never a violation.
func (c *Ctx) Drift(site, aspect, detail string, sample interface{}) {
	c.fail(site, aspect, detail, sample, true)
}

func (c *Ctx) fail(site, aspect, detail string, sample interface{}, drift bool) {
	c.mu.Lock()
	defer c.mu.Unlock()
	c.fails++
	k := site + "\x00" + aspect
	c.failSeen[k]++
	if c.failSeen[k] > 5 {
		return
	}
	if len(detail) > 600 {
		detail = detail[:600] + "..."
	}
	b, _ := json.Marshal(Result{OK: false, Site: site, Aspect: aspect, Detail: detail, Sample: sample, Drift: drift})
	c.w.Write(b)
	c.w.WriteByte('\n')
}

func (c *Ctx) Abort() { c.w.Flush(); c.out.Close() }

// StopAfterHang ends the driver in good order after a call into the library did not return: the runaway goroutine cannot be
// stopped and may consume memory without bound, which would turn a verdict (the failure just recorded) into a killed process.
// The results written so far, including that failure, are flushed with a summary and the process exits normally.
func (c *Ctx) StopAfterHang() {
	c.Set("stopped_after_hang", true)
	c.Close()
	os.Exit(0)
}

func (c *Ctx) Close() error {
	c.mu.Lock()
	defer c.mu.Unlock()
	fc := map[string]int{}
	for k, v := range c.failSeen {
		fc[k] = v
	}
	summ := map[string]interface{}{"cases": c.cases, "executions": c.execs, "failures": c.fails,
		"distinct_nontrivial": len(c.distinct), "samples": c.samples}
	for k, v := range c.extra {
		summ[k] = v
	}
	b, _ := json.Marshal(map[string]interface{}{"summary": summ})
	c.w.Write(b)
	c.w.WriteByte('\n')
	if c.tw != nil {
		if err := c.tw.Flush(); err != nil {
			return err
		}
		c.tf.Close()
	}
	if err := c.w.Flush(); err != nil {
		return err
	}
	return c.out.Close()
}

// Guard runs fn and converts a panic into an error string ("" if none).
// guardedLine runs a driver's per-case function. A panic that escapes from the library on a case the driver did not expect to
// fail is the library's behaviour on an in-domain input, not an infrastructure problem: it is recorded against the first library
// function on the panicking stack and the replay goes on with the next case (three such panics end the driver normally).
func (c *Ctx) guardedLine(fn func([]byte) error, b []byte) (err error) {
	defer func() {
		if r := recover(); r != nil {
			site := "unknown"
			if m := libFrame.FindStringSubmatch(string(debug.Stack())); m != nil {
				site = m[1]
			}
			c.Fail(site, "panic-on-case", fmt.Sprint(r), map[string]interface{}{"case": trunc(string(b))})
			c.mu.Lock()
			c.linePanics++
			n := c.linePanics
			c.mu.Unlock()
			if n >= 3 {
				c.Set("stopped_after_panics", n)
				c.Close()
				os.Exit(0)
			}
			err = nil
		}
	}()
	return fn(b)
}

var libFrame = regexp.MustCompile(`github\.com/TheManticoreProject/Manticore/([\w/.()*]+)\(`)

func Guard(fn func()) (panicked string) {
	defer func() {
		if r := recover(); r != nil {
			panicked = fmt.Sprint(r)
		}
	}()
	fn()
	return ""
}

// Pairwise executes every ordered pair (j, then k) of n items through run and reports when the result obtained for k
// after j differs from want[k] (the specification's value for k alone): a pure function's result may not depend on the
// call that preceded it. run(i) performs item i and returns its observable result as a string.
func Pairwise(c *Ctx, site string, n int, run func(i int) string, want func(i int) string, describe func(i int) interface{}) {
	for j := 0; j < n; j++ {
		for k := 0; k < n; k++ {
			run(j)
			got := run(k)
			c.Exec(2)
			if w := want(k); got != w {
				c.Fail(site, "history-dependent", fmt.Sprintf("result for an input depends on the previous call: after %v, %v gave %s, specification %s", describe(j), describe(k), trunc(got), trunc(w)),
					map[string]interface{}{"previous": describe(j), "input": describe(k)})
			}
		}
	}
}

func trunc(s string) string {
	if len(s) > 96 {
		return s[:96] + "..."
	}
	return s
}
