package drivers

// C04/C05 schema extractor: the DECLARATIONS of the SMB1 command structures, never their method bodies.
//
//   c04.schema  writes (option out=<path>) one JSON document {"structs":[...]}: for every structure the factories
//               commands.CreateRequestCommand / CreateResponseCommand can return (all 256 command codes are tried),
//               the ordered list of exported fields with
//                 - decl  : the declared type expression as written in the source ("types.USHORT", "[]types.UCHAR",
//                           "types.SMB_TIME" -- aliases are kept, which reflection cannot do),
//                 - block : "P" / "D" from the "// Parameters" / "// Data" marker comments of the declaration,
//                 - elem/n: element type and array length ([k]T -> n=k, []T -> n=-1, scalar -> n=0),
//                 - doc   : the "(n bytes)" / "(variable)" annotation quoted from MS-CIFS in the field comment (0 = none, -1 = variable),
//               plus code, direction and what IsAndX() answers.  The TLA+ side (spec/SMBAtoms.tla) maps the declared
//               MS-CIFS type names to wire kinds; nothing here knows a width or a byte order.

import (
	"encoding/json"
	"fmt"
	"go/ast"
	"go/parser"
	"go/token"
	"os"
	"path/filepath"
	"reflect"
	"regexp"
	"sort"
	"strings"

	"github.com/TheManticoreProject/Manticore/network/smb/smb_v10/message/commands"
	"github.com/TheManticoreProject/Manticore/network/smb/smb_v10/message/commands/codes"
	"github.com/TheManticoreProject/Manticore/network/smb/smb_v10/message/commands/command_interface"
	"verif/harness/h"
)

func init() { h.Register("c04.schema", c04Schema) }

type smbField struct {
	Name  string `json:"name"`
	Decl  string `json:"decl"`
	Elem  string `json:"elem"` // element type of an array/slice, else the type itself
	N     int    `json:"n"`    // 0 scalar, k>0 array [k]T, -1 slice []T
	Block string `json:"block"`
	Doc   int    `json:"doc"`
	GoT   string `json:"gotype"`
}

type smbStruct struct {
	Name   string     `json:"name"`
	Dir    string     `json:"dir"`
	Code   int        `json:"code"`
	AndX   bool       `json:"andx"`
	Fields []smbField `json:"fields"`
}

// smbFactories returns every structure reachable from the two factories, keyed by structure name.
func smbFactories() (map[string]func() command_interface.CommandInterface, []smbStruct) {
	mk := map[string]func() command_interface.CommandInterface{}
	var out []smbStruct
	for code := 0; code < 256; code++ {
		for _, dir := range []string{"request", "response"} {
			cc, d := codes.CommandCode(code), dir
			f := func() command_interface.CommandInterface {
				var c command_interface.CommandInterface
				var err error
				if d == "request" {
					c, err = commands.CreateRequestCommand(cc)
				} else {
					c, err = commands.CreateResponseCommand(cc)
				}
				if err != nil || c == nil || reflect.ValueOf(c).IsNil() {
					return nil
				}
				return c
			}
			c := f()
			if c == nil {
				continue
			}
			name := reflect.TypeOf(c).Elem().Name()
			if _, dup := mk[name]; dup {
				continue
			}
			mk[name] = f
			out = append(out, smbStruct{Name: name, Dir: dir, Code: code, AndX: c.IsAndX()})
		}
	}
	sort.Slice(out, func(i, j int) bool { return out[i].Name < out[j].Name })
	return mk, out
}

var docBytes = regexp.MustCompile(`\((\d+) bytes?\)`)
var docVar = regexp.MustCompile(`\(variable\)`)

func exprString(e ast.Expr) string {
	switch t := e.(type) {
	case *ast.Ident:
		return t.Name
	case *ast.SelectorExpr:
		return exprString(t.X) + "." + t.Sel.Name
	case *ast.ArrayType:
		if t.Len == nil {
			return "[]" + exprString(t.Elt)
		}
		if bl, ok := t.Len.(*ast.BasicLit); ok {
			return "[" + bl.Value + "]" + exprString(t.Elt)
		}
		return "[?]" + exprString(t.Elt)
	case *ast.StarExpr:
		return "*" + exprString(t.X)
	}
	return fmt.Sprintf("%T", e)
}

// declaredFields parses the commands package and returns, per struct name, its declared fields.
func declaredFields(repo string) (map[string][]smbField, error) {
	dir := filepath.Join(repo, "network/smb/smb_v10/message/commands")
	fset := token.NewFileSet()
	pkgs, err := parser.ParseDir(fset, dir, func(fi os.FileInfo) bool { return !strings.HasSuffix(fi.Name(), "_test.go") }, parser.ParseComments)
	if err != nil {
		return nil, err
	}
	out := map[string][]smbField{}
	for _, pkg := range pkgs {
		for _, file := range pkg.Files {
			for _, decl := range file.Decls {
				gd, ok := decl.(*ast.GenDecl)
				if !ok || gd.Tok != token.TYPE {
					continue
				}
				for _, sp := range gd.Specs {
					ts := sp.(*ast.TypeSpec)
					st, ok := ts.Type.(*ast.StructType)
					if !ok {
						continue
					}
					// marker comments inside the struct body
					type mark struct {
						pos token.Pos
						b   string
					}
					var marks []mark
					for _, cg := range file.Comments {
						if cg.Pos() < st.Pos() || cg.End() > st.End() {
							continue
						}
						for _, cm := range cg.List {
							txt := strings.TrimSpace(strings.TrimPrefix(cm.Text, "//"))
							if txt == "Parameters" {
								marks = append(marks, mark{cm.Pos(), "P"})
							} else if txt == "Data" {
								marks = append(marks, mark{cm.Pos(), "D"})
							}
						}
					}
					var fs []smbField
					for _, f := range st.Fields.List {
						if len(f.Names) == 0 {
							continue // embedded command_interface.Command
						}
						block := ""
						for _, m := range marks {
							if m.pos < f.Pos() {
								block = m.b
							}
						}
						doc := 0
						if f.Doc != nil {
							txt := f.Doc.Text()
							if m := docBytes.FindStringSubmatch(txt); m != nil {
								fmt.Sscanf(m[1], "%d", &doc)
							} else if docVar.MatchString(txt) {
								doc = -1
							}
						}
						for _, n := range f.Names {
							if !n.IsExported() {
								continue
							}
							fld := smbField{Name: n.Name, Decl: exprString(f.Type), Block: block, Doc: doc}
							fld.Elem = fld.Decl
							if at, ok := f.Type.(*ast.ArrayType); ok {
								fld.Elem = exprString(at.Elt)
								fld.N = -1
								if bl, ok := at.Len.(*ast.BasicLit); ok {
									fmt.Sscanf(bl.Value, "%d", &fld.N)
								}
							}
							fs = append(fs, fld)
						}
					}
					out[ts.Name.Name] = fs
				}
			}
		}
	}
	return out, nil
}

func smbSchemas(repo string) ([]smbStruct, error) {
	decls, err := declaredFields(repo)
	if err != nil {
		return nil, err
	}
	mk, structs := smbFactories()
	for i := range structs {
		s := &structs[i]
		fs, ok := decls[s.Name]
		if !ok {
			return nil, fmt.Errorf("no declaration found for %s", s.Name)
		}
		rt := reflect.TypeOf(mk[s.Name]()).Elem()
		for j := range fs {
			sf, ok := rt.FieldByName(fs[j].Name)
			if !ok {
				return nil, fmt.Errorf("%s.%s declared but not reflected", s.Name, fs[j].Name)
			}
			fs[j].GoT = sf.Type.String()
		}
		s.Fields = fs
		if s.Fields == nil {
			s.Fields = []smbField{}
		}
	}
	return structs, nil
}

func c04Schema(c *h.Ctx) error {
	structs, err := smbSchemas(c.Opt("repo", "/repo"))
	if err != nil {
		return err
	}
	b, err := json.Marshal(map[string]interface{}{"structs": structs})
	if err != nil {
		return err
	}
	c.Set("structures", len(structs))
	return os.WriteFile(c.Opt("out", c.In+".schemas.json"), b, 0o644)
}
