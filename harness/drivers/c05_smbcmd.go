package drivers

// C05: the bytes the library emits against the MS-CIFS reference encoding computed by spec/SMBCommands.tla (Mode "cifs"),
// and the library's decoder fed with the reference bytes.  Shares the reflection engine of c04_smbcmd.go.
//
//   c05.replay   see c04_smbcmd.go
//   c05.header   the 32-byte SMB header (MS-CIFS 2.2.3.1) against spec/SMBHeader.tla cases
//   c05.dialects dialects.Dialects alone (0..N names) against SMBAtoms!DialectsWire

import (
	"bytes"
	"encoding/json"
	"fmt"
	"github.com/TheManticoreProject/Manticore/network/smb/smb_v10/types"
	"reflect"
	"strings"

	"github.com/TheManticoreProject/Manticore/network/smb/smb_v10/dialects"
	"github.com/TheManticoreProject/Manticore/network/smb/smb_v10/message/commands/codes"
	"github.com/TheManticoreProject/Manticore/network/smb/smb_v10/message/commands/command_interface"
	"github.com/TheManticoreProject/Manticore/network/smb/smb_v10/message/header"
	"github.com/TheManticoreProject/Manticore/network/smb/smb_v10/message/header/flags"
	"github.com/TheManticoreProject/Manticore/network/smb/smb_v10/message/header/flags2"
	"github.com/TheManticoreProject/Manticore/network/smb/smb_v10/message/securityfeatures"
	"verif/harness/h"
)

func init() {
	h.Register("c05.replay", func(c *h.Ctx) error { return smbReplay(c, "cifs") })
	h.Register("c05.header", c05Header)
	h.Register("c05.dialects", c05Dialects)
}

func reverseBytes(b []byte) []byte {
	out := make([]byte, len(b))
	for i := range b {
		out[i] = b[len(b)-1-i]
	}
	return out
}

func smbC05Case(c *h.Ctx, mk func() command_interface.CommandInterface, k *smbCase, site string) error {
	if k.Pat == "distinct" && k.AndX != k.LibAndX {
		c.Fail(site, "andx-flag", fmt.Sprintf("MS-CIFS: AndX command = %v, IsAndX() = %v", k.AndX, k.LibAndX), k.sample())
	}
	k0 := k
	x, err := smbBuild(mk, k)
	if err != nil {
		return err
	}
	if k.Pat == "distinct" {
		for _, f := range k.Fields {
			if f.Unbindable {
				c.Fail(site, "type:"+f.Name, "MS-CIFS SMB_TIME is a 2-byte packed hour/minute/2-second value; the declared Go type is an alias of FILETIME (8 bytes) and cannot hold it", k.sample())
			}
		}
	}
	if !k.WF {
		if k.Pat == "distinct" {
			c.Fail(site, "param-block-odd", fmt.Sprintf("the declared parameter fields add up to an odd number of bytes (%d words and a half): no SMB_Parameters block can carry them", k.WC), k.sample())
		}
		return nil
	}
	// ---- direction 1: library encoder against the reference bytes
	lib, merr, p := smbMarshal(x)
	c.Exec(1)
	c.Retain(site, lib, k.sample())
	switch {
	case p != "":
		c.Fail(site, "marshal-error@"+k.patClass(), "panic: "+p, k.sample())
	case merr != nil:
		c.Fail(site, "marshal-error@"+k.patClass(), merr.Error(), k.sample())
	default:
		// the length a string block announces is the length of its Buffer, whatever the Length component held before
		smbStaleLengthRoute(c, mk, k0, site, lib)
		if len(k.Alt) > 0 && len(lib) == len(k.Alt[0].Wire) && len(lib) != len(k.Wire) {
			k = k.Alt[0] // the library left the zero-valued optional field out: the other legal encoding is the reference
		}
		ref := []byte(k.Wire)
		soft := k.unsure()
		if len(lib) != len(ref) {
			smbFail(c, soft, site, "length", fmt.Sprintf("library emits %d bytes, MS-CIFS encoding is %d bytes: lib %s ref %s", len(lib), len(ref), smbHex(lib), smbHex(ref)), k.sample())
		}
		at := func(b []byte, off, n int) []byte {
			if off >= len(b) {
				return nil
			}
			if off+n > len(b) {
				n = len(b) - off
			}
			return b[off : off+n]
		}
		if !bytes.Equal(at(lib, 0, 1), ref[0:1]) {
			c.Fail(site, "layout:WordCount", fmt.Sprintf("WordCount byte %x, reference %x", at(lib, 0, 1), ref[0:1]), k.sample())
		}
		bcOff := 1 + 2*k.WC
		if !bytes.Equal(at(lib, bcOff, 2), ref[bcOff:bcOff+2]) {
			smbFail(c, soft, site, "layout:ByteCount", fmt.Sprintf("bytes at the ByteCount position %x, reference %x", at(lib, bcOff, 2), ref[bcOff:bcOff+2]), k.sample())
		}
		for i := range k.Fields {
			f := &k.Fields[i]
			if f.Unbindable || f.Len == 0 {
				continue
			}
			got, want := at(lib, f.Off, f.Len), ref[f.Off:f.Off+f.Len]
			if bytes.Equal(got, want) {
				continue
			}
			// classification: every integer atom of the slot either agrees or is exactly byte-reversed, and nothing else differs
			swapped, other := 0, false
			covered := make([]bool, f.Len)
			for _, a := range f.Atoms {
				g, w := at(lib, a.Off, a.W), []byte(a.Bytes)
				for t := 0; t < a.W; t++ {
					covered[a.Off-f.Off+t] = true
				}
				switch {
				case bytes.Equal(g, w):
				case a.Enc != "const" && a.W > 1 && bytes.Equal(g, reverseBytes(w)):
					swapped++
				default:
					other = true
				}
			}
			for t := range covered {
				if !covered[t] && (t >= len(got) || got[t] != want[t]) {
					other = true
				}
			}
			aspect := "layout:" + f.Name
			if swapped > 0 && !other {
				aspect = "byteorder:" + f.Name
			}
			smbFail(c, f.Unsure, site, aspect, fmt.Sprintf("slot %d..%d: library %s, MS-CIFS %s", f.Off, f.Off+f.Len-1, smbHex(got), smbHex(want)), k.sample())
		}
	}
	// ---- direction 2: library decoder fed with the reference bytes (every legal encoding of the assignment)
	for _, r := range append([]*smbCase{k0}, k0.Alt...) {
		y, uerr, p := smbUnmarshal(mk, r.Wire)
		c.Exec(1)
		switch {
		case p != "":
			smbFail(c, r.unsure(), site, "refdecode-error@"+r.patClass(), "panic: "+p, r.sample())
		case uerr != nil:
			smbFail(c, r.unsure(), site, "refdecode-error@"+r.patClass(), uerr.Error(), r.sample())
		default:
			smbCompareFields(c, y, r, site, "refdecode", true)
		}
	}
	return nil
}

// ---- header ----

type c05HeaderCase struct {
	K     string             `json:"k"`
	Vals  map[string]h.Bytes `json:"vals"` // numerals, most significant digit first
	Wire  h.Bytes            `json:"wire"`
	Slots map[string][]int   `json:"slots"`
}

func c05Header(c *h.Ctx) error {
	site := "header.Header"
	return c.Lines(func(raw []byte) error {
		var k c05HeaderCase
		if err := json.Unmarshal(raw, &k); err != nil {
			return err
		}
		c.Case(k.K)
		num := func(n string) uint64 { return numeralToU64(k.Vals[n]) }
		hd := header.NewHeader()
		copy(hd.Protocol[:], k.Vals["Protocol"])
		hd.Command = codes.CommandCode(num("Command"))
		hd.Status = uint32(num("Status"))
		hd.Flags = flags.Flags(num("Flags"))
		hd.Flags2 = flags2.Flags2(num("Flags2"))
		hd.PIDHigh = uint16(num("PIDHigh"))
		sf := securityfeatures.NewSecurityFeaturesReserved()
		copy(sf.Reserved[:], k.Vals["SecurityFeatures"])
		hd.SecurityFeatures = sf
		hd.Reserved = uint16(num("Reserved"))
		hd.TID = uint16(num("TID"))
		hd.PIDLow = uint16(num("PIDLow"))
		hd.UID = uint16(num("UID"))
		hd.MID = uint16(num("MID"))
		var lib []byte
		var merr error
		p := h.Guard(func() { lib, merr = hd.Marshal() })
		c.Exec(1)
		sample := map[string]interface{}{"header_case": k.K, "reference_hex": h.Hex(k.Wire)}
		c.Retain(site+".Marshal", lib, sample)
		if p != "" || merr != nil {
			c.Fail(site+".Marshal", "marshal-error", fmt.Sprintf("%v %s", merr, p), sample)
		} else {
			if len(lib) != len(k.Wire) {
				c.Fail(site+".Marshal", "length", fmt.Sprintf("%d bytes, MS-CIFS 32", len(lib)), sample)
			}
			for name, sl := range k.Slots {
				if sl[1] >= len(lib) || !bytes.Equal(lib[sl[0]:sl[1]+1], k.Wire[sl[0]:sl[1]+1]) {
					c.Fail(site+".Marshal", "layout:"+name, fmt.Sprintf("library %s reference %s", h.Hex(lib), h.Hex(k.Wire)), sample)
				}
			}
		}
		// the same eight octets held in the other two representations of the field (MS-CIFS 2.2.3.1: a security signature;
		// key / CID / sequence number of a connectionless transport): the header bytes are the same
		if p == "" && merr == nil {
			sec8 := k.Vals["SecurityFeatures"]
			if len(sec8) == 8 {
				sig := securityfeatures.NewSecurityFeaturesSecuritySignature()
				var a8 [8]byte
				copy(a8[:], sec8)
				sig.SetSecuritySignature(a8)
				cl := securityfeatures.NewSecurityFeaturesConnectionlessTransport()
				cl.Key = uint32(sec8[0]) | uint32(sec8[1])<<8 | uint32(sec8[2])<<16 | uint32(sec8[3])<<24
				cl.CID = uint16(sec8[4]) | uint16(sec8[5])<<8
				cl.SequenceNumber = uint16(sec8[6]) | uint16(sec8[7])<<8
				for name, rep := range map[string]securityfeatures.SecurityFeatures{"SecuritySignature": sig, "ConnectionlessTransport": cl} {
					hd.SecurityFeatures = rep
					var alt []byte
					var aerr error
					pa := h.Guard(func() { alt, aerr = hd.Marshal() })
					c.Exec(1)
					if pa != "" || aerr != nil || !bytes.Equal(alt, lib) {
						c.Fail(site+".Marshal", "layout:SecurityFeatures:as-"+name, fmt.Sprintf("the eight octets %x held as %s: header %s (%v %s); held as reserved bytes: %s", sec8, name, h.Hex(alt), aerr, pa, h.Hex(lib)), sample)
					}
				}
				hd.SecurityFeatures = sf
			}
		}
		h2 := header.NewHeader()
		var uerr error
		p = h.Guard(func() { _, uerr = h2.Unmarshal(append([]byte{}, k.Wire...)) })
		c.Exec(1)
		if p != "" || uerr != nil {
			c.Fail(site+".Unmarshal", "refdecode-error", fmt.Sprintf("%v %s", uerr, p), sample)
			return nil
		}
		var sfb []byte
		if h2.SecurityFeatures != nil {
			sfb, _ = h2.SecurityFeatures.Marshal()
		}
		got := map[string]uint64{"Command": uint64(h2.Command), "Status": uint64(h2.Status), "Flags": uint64(h2.Flags), "Flags2": uint64(h2.Flags2),
			"PIDHigh": uint64(h2.PIDHigh), "Reserved": uint64(h2.Reserved), "TID": uint64(h2.TID), "PIDLow": uint64(h2.PIDLow),
			"UID": uint64(h2.UID), "MID": uint64(h2.MID)}
		for name, g := range got {
			if g != num(name) {
				c.Fail(site+".Unmarshal", "refdecode:"+name, fmt.Sprintf("decoded %x, encoded value %x", g, num(name)), sample)
			}
		}
		if !bytes.Equal(h2.Protocol[:], k.Vals["Protocol"]) {
			c.Fail(site+".Unmarshal", "refdecode:Protocol", fmt.Sprintf("%x", h2.Protocol), sample)
		}
		if !bytes.Equal(sfb, k.Vals["SecurityFeatures"]) {
			c.Fail(site+".Unmarshal", "refdecode:SecurityFeatures", fmt.Sprintf("%x", sfb), sample)
		}
		// the 32-bit process id written through SetPID twice (a large one, then one that fits 16 bits): PIDHigh (offset 12) and
		// PIDLow (offset 26) are both little-endian halves of the LAST value
		{
			h3 := header.NewHeader()
			h3.SetPID(types.ULONG(0x9E370000 | uint32(num("PIDLow"))))
			small := uint32(num("PIDLow"))
			h3.SetPID(types.ULONG(small))
			b3, _ := h3.Marshal()
			c.Exec(1)
			if len(b3) == 32 && (b3[12] != 0 || b3[13] != 0 || b3[26] != byte(small) || b3[27] != byte(small>>8)) {
				c.Fail(site+".SetPID", "layout:PIDHigh-after-second-set", fmt.Sprintf("SetPID(%#x) after SetPID(0x9e37....): bytes 12..13 = %x, 26..27 = %x", small, b3[12:14], b3[26:28]), sample)
			}
		}
		// a header constructed NOW is the default header, whatever was encoded or decoded before (no default object shared
		// between headers): its encoding is the one the first default header of this run had
		var def []byte
		h.Guard(func() { def, _ = header.NewHeader().Marshal() })
		c.Exec(1)
		if c05DefaultHeader == nil {
			c05DefaultHeader = append([]byte{}, def...)
		} else if !bytes.Equal(def, c05DefaultHeader) {
			c.Fail(site+".Marshal", "default-header-depends-on-history", fmt.Sprintf("NewHeader().Marshal() is %x now and was %x at the start of the run", def, c05DefaultHeader), sample)
			c05DefaultHeader = append([]byte{}, def...)
		}
		return nil
	})
}

var c05DefaultHeader []byte

var c05ReusedDialects = dialects.NewDialects()

// ---- dialects ----

type c05DialectCase struct {
	Names []h.Bytes `json:"names"`
	Wire  h.Bytes   `json:"wire"`
}

func c05Dialects(c *h.Ctx) error {
	return c.Lines(func(raw []byte) error {
		var k c05DialectCase
		if err := json.Unmarshal(raw, &k); err != nil {
			return err
		}
		var names []string
		for _, n := range k.Names {
			names = append(names, string(n))
		}
		c.Case(strings.Join(names, "|"))
		sample := map[string]interface{}{"dialects": names, "reference_hex": smbHex(k.Wire)}
		d := dialects.NewDialects()
		for _, n := range names {
			d.AddDialect(n)
		}
		var lib []byte
		var merr error
		p := h.Guard(func() { lib, merr = d.Marshal() })
		c.Exec(1)
		c.Retain("dialects.Dialects.Marshal", lib, sample)
		aspect := "layout:n>=2"
		if len(names) < 2 {
			aspect = fmt.Sprintf("layout:n=%d", len(names))
		}
		// The property quantifies over "every number (0..N) of negotiated dialects": with no dialect there is no format
		// byte and no terminator, i.e. the encoding is empty (a judged case, not drift).
		empty := false
		if p != "" || merr != nil {
			smbFail(c, empty, "dialects.Dialects.Marshal", "marshal-error", fmt.Sprintf("%v %s", merr, p), sample)
		} else if !bytes.Equal(lib, k.Wire) {
			smbFail(c, empty, "dialects.Dialects.Marshal", aspect, fmt.Sprintf("library %s, MS-CIFS %s", smbHex(lib), smbHex(k.Wire)), sample)
		}
		// the same list given to ONE long-lived Dialects value (a client retrying with other dialects, a relay re-emitting
		// requests): its encoding is that of the list it holds now, whatever it encoded before
		{
			c05ReusedDialects.Dialects = append([]string(nil), names...)
			var rb []byte
			var rerr error
			rp := h.Guard(func() { rb, rerr = c05ReusedDialects.Marshal() })
			c.Exec(1)
			if rp != "" || rerr != nil || !bytes.Equal(rb, lib) {
				smbFail(c, false, "dialects.Dialects.Marshal", "reused-object", fmt.Sprintf("a Dialects value that encoded another list before gives %s, a fresh one %s (%v %s)", smbHex(rb), smbHex(lib), rerr, rp), sample)
				c05ReusedDialects = dialects.NewDialects()
			}
		}
		d2 := dialects.NewDialects()
		var uerr error
		p = h.Guard(func() { _, uerr = d2.Unmarshal(append([]byte{}, k.Wire...)) })
		c.Exec(1)
		aspect = "refdecode:n>=2"
		if len(names) < 2 {
			aspect = fmt.Sprintf("refdecode:n=%d", len(names))
		}
		switch {
		case p != "":
			smbFail(c, empty, "dialects.Dialects.Unmarshal", strings.Replace(aspect, "refdecode", "refdecode-error", 1), "panic: "+p, sample)
		case uerr != nil:
			smbFail(c, empty, "dialects.Dialects.Unmarshal", strings.Replace(aspect, "refdecode", "refdecode-error", 1), uerr.Error(), sample)
		case !reflect.DeepEqual(append([]string{}, d2.Dialects...), append([]string{}, names...)):
			smbFail(c, empty, "dialects.Dialects.Unmarshal", aspect, fmt.Sprintf("decoded %q", d2.Dialects), sample)
		}
		return nil
	})
}
